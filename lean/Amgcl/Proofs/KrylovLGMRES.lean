import Amgcl.Proofs.KrylovLGMRESSim
import Amgcl.Proofs.KrylovGMRESBreak
/-!
# LGMRES: the Givens relation and the breakdown behaviour over the inner loop of a GENERAL restart cycle (C05)

In a general cycle pass `j` of `lgmres.hpp:276-309` feeds `z_j = *ws[j]` — `vs[j]` for `j < M − |outer_v|`, an augmentation
vector afterwards — through `preconditioner::spmv` and then executes the SAME Hessenberg / Givens statements as `gmres`
(`hessStep`).  The unrotated Hessenberg matrix `H̃` and the orthogonalised vectors `w_j` are carried as the ghost of
`Proofs/SolverGMRESArnoldi.lean` next to the LGMRES inner-loop state (`lStepG`, `lPassG`).

On the shared arrays one LGMRES pass is one pass of `GMRES.step .left` with the CONSTANT function `fun _ => v_new` in the
place of the preconditioner (`lStepG_shadow`, definitional), so the single-step Givens lemma `stepG_givInv` of
`Proofs/KrylovGMRES.lean` applies to every pass, Krylov or augmentation:

* `lPassG_givens`        `GivensRel j cs sn H H̃ s β` after `j` passes (roots exact in the rotations), and
                         `H̃(i+1,i) ≠ 0 → H(i,i) ≠ 0`;
* `lPass_s_zero`, `lPass_s_last`, `lPass_innerRes`, `lInnerRes_antitone`   `s_a = 0` beyond the current index,
                         `s_{j+1} = −sn_j s_j`, `inner_res = |s_{j+1}|`, `|s_{j+1}| ≤ |s_j|`;
* `lbreakdown_innerRes`, `linner_no_early_breakdown`   a pass with `H̃(j+1,j) = 0` generates the identity rotation and
                         `inner_res = 0`, so (threshold not negative) it is the LAST pass of the cycle.
-/
set_option linter.unusedSectionVars false
set_option linter.unusedVariables false
namespace Amgcl.Krylov
open Amgcl Amgcl.Solver Amgcl.Solver.GMRES Finset

section passes
variable {K : Type} [Field K] [DecidableEq K] [LT K] [DecidableLT K]

/-- one pass of the inner loop of the LGMRES object with parameters `prm` -/
abbrev lStep (prm : LGMRES.Params K) (sqrt : K → K) (A : CRS K) (P : Vec K → Vec K) : LGMRES.In K → LGMRES.In K :=
  LGMRES.step prm.pside prm.MM prm.K' stdIp sqrt A P

/-- the inner-loop state after `j` passes -/
abbrev lPass (prm : LGMRES.Params K) (sqrt : K → K) (A : CRS K) (P : Vec K → Vec K) (st : LGMRES.St K) (j : ℕ) :
    LGMRES.In K :=
  lInnerPass prm.pside prm.MM prm.K' sqrt A P st j

/-- the vector `v_new` that `preconditioner::spmv(pside, P, A, *z, v_new, *r)` hands to the Hessenberg step -/
def lVnew (prm : LGMRES.Params K) (A : CRS K) (P : Vec K → Vec K) (t : LGMRES.In K) : Vec K :=
  (LGMRES.stepX prm.pside prm.MM prm.K' A P t).1

/-- `*ws[i]`: the vector that was fed in pass `i`, dereferenced in state `t` (as `lin_comb` does) -/
def lZ (t : LGMRES.In K) (i : ℕ) : Vec K := LGMRES.deref t.w (t.w.wsp.get i)

/-- the `x` that `LGMRES.update` returns when the inner loop of the cycle started in `st` has made `j` passes -/
def lCycleIterate (prm : LGMRES.Params K) (sqrt : K → K) (A : CRS K) (P : Vec K → Vec K) (st : LGMRES.St K) (j : ℕ) :
    Vec K :=
  (LGMRES.update prm stdIp sqrt P st (lPass prm sqrt A P st j)).x

/-- one pass together with the ghost update (the unrotated column and the orthogonalised vector) -/
def lStepG (prm : LGMRES.Params K) (sqrt : K → K) (A : CRS K) (P : Vec K → Vec K)
    (g : LGMRES.In K × Ghost K) : LGMRES.In K × Ghost K :=
  (lStep prm sqrt A P g.1,
   { Ht := ⟨fun a b => if b = g.1.j then (orth stdIp sqrt g.1.w.vs g.1.j g.1.w.h.H (lVnew prm A P g.1)).1.get a b
                       else g.2.Ht.get a b⟩,
     W := setF g.2.W g.1.j (mgs stdIp g.1.w.vs g.1.j g.1.w.h.H (lVnew prm A P g.1)).2 })

/-- the inner-loop state after `j` passes together with the ghost -/
def lPassG (prm : LGMRES.Params K) (sqrt : K → K) (A : CRS K) (P : Vec K → Vec K) (st : LGMRES.St K) (g0 : Ghost K)
    (j : ℕ) : LGMRES.In K × Ghost K :=
  (lStepG prm sqrt A P)^[j] (LGMRES.cycleStart st, g0)

theorem lPassG_succ (prm : LGMRES.Params K) (sqrt : K → K) (A : CRS K) (P : Vec K → Vec K) (st : LGMRES.St K)
    (g0 : Ghost K) (j : ℕ) :
    lPassG prm sqrt A P st g0 (j + 1) = lStepG prm sqrt A P (lPassG prm sqrt A P st g0 j) := by
  unfold lPassG; rw [Function.iterate_succ_apply']

theorem lPass_succ (prm : LGMRES.Params K) (sqrt : K → K) (A : CRS K) (P : Vec K → Vec K) (st : LGMRES.St K) (j : ℕ) :
    lPass prm sqrt A P st (j + 1) = lStep prm sqrt A P (lPass prm sqrt A P st j) :=
  lInnerPass_succ _ _ _ _ _ _ _ _

theorem lPass_j (prm : LGMRES.Params K) (sqrt : K → K) (A : CRS K) (P : Vec K → Vec K) (st : LGMRES.St K) (j : ℕ) :
    (lPass prm sqrt A P st j).j = j := lInnerPass_j _ _ _ _ _ _ _ _

theorem lPassG_fst (prm : LGMRES.Params K) (sqrt : K → K) (A : CRS K) (P : Vec K → Vec K) (st : LGMRES.St K)
    (g0 : Ghost K) (j : ℕ) : (lPassG prm sqrt A P st g0 j).1 = lPass prm sqrt A P st j := by
  induction j with
  | zero => rfl
  | succ j ih => rw [lPassG_succ, lPass_succ, ← ih]; rfl

/-- the components of a pass in terms of `orth` / `rotate` on `v_new` -/
theorem lStep_h (prm : LGMRES.Params K) (sqrt : K → K) (A : CRS K) (P : Vec K → Vec K) (t : LGMRES.In K) :
    (lStep prm sqrt A P t).w.h
      = (rotate sqrt t.j t.w.h (orth stdIp sqrt t.w.vs t.j t.w.h.H (lVnew prm A P t)).1).1 := rfl

theorem lStep_innerRes (prm : LGMRES.Params K) (sqrt : K → K) (A : CRS K) (P : Vec K → Vec K) (t : LGMRES.In K) :
    (lStep prm sqrt A P t).innerRes
      = (rotate sqrt t.j t.w.h (orth stdIp sqrt t.w.vs t.j t.w.h.H (lVnew prm A P t)).1).2 := rfl

theorem lStep_vs (prm : LGMRES.Params K) (sqrt : K → K) (A : CRS K) (P : Vec K → Vec K) (t : LGMRES.In K) :
    (lStep prm sqrt A P t).w.vs
      = setF t.w.vs (t.j + 1) (orth stdIp sqrt t.w.vs t.j t.w.h.H (lVnew prm A P t)).2 := rfl

/-- `vs[0]` is not written by the inner loop -/
theorem lPass_v0 (prm : LGMRES.Params K) (sqrt : K → K) (A : CRS K) (P : Vec K → Vec K) (st : LGMRES.St K) (j : ℕ) :
    (lPass prm sqrt A P st j).w.vs.get 0 = (LGMRES.cycleStart st).w.vs.get 0 := by
  induction j with
  | zero => rfl
  | succ j ih => rw [lPass_succ, lStep_vs, setF_other _ _ _ _ (by omega), ih]

/-- the value `H(j+1,j) = ‖w_j‖` that pass `j` computes before the rotation overwrites it: `H̃(j+1,j)`; `0` = breakdown -/
def lArnoldiNorm (prm : LGMRES.Params K) (sqrt : K → K) (A : CRS K) (P : Vec K → Vec K) (st : LGMRES.St K) (j : ℕ) : K :=
  (orth stdIp sqrt (lPass prm sqrt A P st j).w.vs j (lPass prm sqrt A P st j).w.h.H
    (lVnew prm A P (lPass prm sqrt A P st j))).1.get (j + 1) j

/-- the orthogonalised, not yet normalised vector `w` of the pass that starts in state `t` -/
def lOrthVec (prm : LGMRES.Params K) (A : CRS K) (P : Vec K → Vec K) (t : LGMRES.In K) : Vec K :=
  (mgs stdIp t.w.vs t.j t.w.h.H (lVnew prm A P t)).2

/-- the ghost column `i` is what pass `i` wrote -/
theorem lghost_col (prm : LGMRES.Params K) (sqrt : K → K) (A : CRS K) (P : Vec K → Vec K) (st : LGMRES.St K)
    (g0 : Ghost K) : ∀ j i, i < j → ∀ a, (lPassG prm sqrt A P st g0 j).2.Ht.get a i
      = (orth stdIp sqrt (lPass prm sqrt A P st i).w.vs i (lPass prm sqrt A P st i).w.h.H
          (lVnew prm A P (lPass prm sqrt A P st i))).1.get a i := by
  intro j
  induction j with
  | zero => intro i hi; omega
  | succ j ih =>
    intro i hi a
    rw [lPassG_succ]
    show (if i = (lPassG prm sqrt A P st g0 j).1.j then _ else _) = _
    rw [lPassG_fst, lPass_j]
    by_cases hij : i = j
    · rw [if_pos hij, hij]
    · rw [if_neg hij]; exact ih i (by omega) a

theorem lghost_sub (prm : LGMRES.Params K) (sqrt : K → K) (A : CRS K) (P : Vec K → Vec K) (st : LGMRES.St K)
    (g0 : Ghost K) (j i : ℕ) (hi : i < j) :
    (lPassG prm sqrt A P st g0 j).2.Ht.get (i + 1) i = lArnoldiNorm prm sqrt A P st i :=
  lghost_col prm sqrt A P st g0 j i hi (i + 1)

theorem lghost_W (prm : LGMRES.Params K) (sqrt : K → K) (A : CRS K) (P : Vec K → Vec K) (st : LGMRES.St K)
    (g0 : Ghost K) : ∀ j i, i < j → (lPassG prm sqrt A P st g0 j).2.W.get i
      = lOrthVec prm A P (lPass prm sqrt A P st i) := by
  intro j
  induction j with
  | zero => intro i hi; omega
  | succ j ih =>
    intro i hi
    rw [lPassG_succ]
    show (setF (lPassG prm sqrt A P st g0 j).2.W (lPassG prm sqrt A P st g0 j).1.j _).get i = _
    rw [setF_get, lPassG_fst, lPass_j]
    by_cases hij : i = j
    · rw [if_pos hij, hij]; unfold lOrthVec; rw [lPass_j]
    · rw [if_neg hij]; exact ih i (by omega)

/-- the entries of `s` beyond the current index are still zero -/
theorem lPass_s_zero (prm : LGMRES.Params K) (sqrt : K → K) (A : CRS K) (P : Vec K → Vec K) (st : LGMRES.St K) :
    ∀ j a, j < a → (lPass prm sqrt A P st j).w.h.s.get a = 0 := by
  intro j
  induction j with
  | zero =>
    intro a ha
    show (sInit st.normR).get a = 0
    rw [sInit_get, if_neg (by omega)]
  | succ j ih =>
    intro a ha
    rw [lPass_succ, lStep_h]
    have hj := lPass_j prm sqrt A P st j
    have := (rotate_frame sqrt (lPass prm sqrt A P st j).j (lPass prm sqrt A P st j).w.h
      (orth stdIp sqrt (lPass prm sqrt A P st j).w.vs (lPass prm sqrt A P st j).j (lPass prm sqrt A P st j).w.h.H
        (lVnew prm A P (lPass prm sqrt A P st j))).1).2.2.2 a (by rw [hj]; omega) (by rw [hj]; omega)
    exact this.trans (ih a (by omega))

/-- the plane rotation that pass `j` of the cycle generates -/
def lRotOf (prm : LGMRES.Params K) (sqrt : K → K) (A : CRS K) (P : Vec K → Vec K) (st : LGMRES.St K) (j : ℕ) : K × K :=
  rotG sqrt j (lPass prm sqrt A P st j).w.h
    (orth stdIp sqrt (lPass prm sqrt A P st j).w.vs j (lPass prm sqrt A P st j).w.h.H
      (lVnew prm A P (lPass prm sqrt A P st j))).1

/-- `s_{j+1} = −sn_j · s_j` -/
theorem lPass_s_last (prm : LGMRES.Params K) (sqrt : K → K) (A : CRS K) (P : Vec K → Vec K) (st : LGMRES.St K) (j : ℕ) :
    (lPass prm sqrt A P st (j + 1)).w.h.s.get (j + 1)
      = -(lRotOf prm sqrt A P st j).2 * (lPass prm sqrt A P st j).w.h.s.get j := by
  have hz := lPass_s_zero prm sqrt A P st j (j + 1) (Nat.lt_succ_self j)
  have hj := lPass_j prm sqrt A P st j
  unfold lRotOf
  rw [lPass_succ, lStep_h]
  generalize lPass prm sqrt A P st j = t at hz hj ⊢
  subst hj
  obtain ⟨_, _, rs, _, _⟩ := rotate_spec sqrt t.j t.w.h (orth stdIp sqrt t.w.vs t.j t.w.h.H (lVnew prm A P t)).1
  rw [rs (t.j + 1)]
  show (if t.j + 1 = t.j then _ else if t.j + 1 = t.j + 1 then _ else _) = _
  rw [if_neg (by omega), if_pos rfl, hz]; ring

/-- `s_j ← cs_j · s_j` -/
theorem lPass_s_prev (prm : LGMRES.Params K) (sqrt : K → K) (A : CRS K) (P : Vec K → Vec K) (st : LGMRES.St K) (j : ℕ) :
    (lPass prm sqrt A P st (j + 1)).w.h.s.get j
      = (lRotOf prm sqrt A P st j).1 * (lPass prm sqrt A P st j).w.h.s.get j := by
  have hz := lPass_s_zero prm sqrt A P st j (j + 1) (Nat.lt_succ_self j)
  have hj := lPass_j prm sqrt A P st j
  unfold lRotOf
  rw [lPass_succ, lStep_h]
  generalize lPass prm sqrt A P st j = t at hz hj ⊢
  subst hj
  obtain ⟨_, _, rs, _, _⟩ := rotate_spec sqrt t.j t.w.h (orth stdIp sqrt t.w.vs t.j t.w.h.H (lVnew prm A P t)).1
  rw [rs t.j]
  show (if t.j = t.j then _ else _) = _
  rw [if_pos rfl, hz]; ring

/-- `inner_res = |s_{j+1}|` -/
theorem lPass_innerRes (prm : LGMRES.Params K) (sqrt : K → K) (A : CRS K) (P : Vec K → Vec K) (st : LGMRES.St K)
    (j : ℕ) : (lPass prm sqrt A P st (j + 1)).innerRes
      = Solver.absK ((lPass prm sqrt A P st (j + 1)).w.h.s.get (j + 1)) := by
  have hj := lPass_j prm sqrt A P st j
  rw [lPass_succ, lStep_innerRes, lStep_h]
  generalize lPass prm sqrt A P st j = t at hj ⊢
  subst hj
  exact (rotate_spec sqrt t.j t.w.h (orth stdIp sqrt t.w.vs t.j t.w.h.H (lVnew prm A P t)).1).2.2.2.2

/-- in a breakdown the generated rotation is the identity -/
theorem lRotOf_breakdown (prm : LGMRES.Params K) (sqrt : K → K) (A : CRS K) (P : Vec K → Vec K) (st : LGMRES.St K)
    (j : ℕ) (hb : lArnoldiNorm prm sqrt A P st j = 0) : lRotOf prm sqrt A P st j = (1, 0) := by
  have hj := lPass_j prm sqrt A P st j
  unfold lArnoldiNorm at hb
  unfold lRotOf rotG
  generalize lPass prm sqrt A P st j = t at hb hj ⊢
  subst hj
  rw [rotCol_frame t.j _ t.w.h.cs t.w.h.sn (t.j + 1) t.j (Or.inr (Nat.lt_succ_self _)), hb]
  simp [genRot]

/-- **breakdown ends the inner loop**: `s_{j+1} = 0`, `s_j` unchanged, `inner_res = 0` after the pass of the breakdown -/
theorem lbreakdown_innerRes (prm : LGMRES.Params K) (sqrt : K → K) (A : CRS K) (P : Vec K → Vec K) (st : LGMRES.St K)
    (j : ℕ) (hb : lArnoldiNorm prm sqrt A P st j = 0) :
    (lPass prm sqrt A P st (j + 1)).w.h.s.get (j + 1) = 0 ∧
    (lPass prm sqrt A P st (j + 1)).w.h.s.get j = (lPass prm sqrt A P st j).w.h.s.get j ∧
    (lPass prm sqrt A P st (j + 1)).innerRes = 0 := by
  have h1 : (lPass prm sqrt A P st (j + 1)).w.h.s.get (j + 1) = 0 := by
    rw [lPass_s_last, lRotOf_breakdown prm sqrt A P st j hb]; simp
  refine ⟨h1, ?_, ?_⟩
  · rw [lPass_s_prev, lRotOf_breakdown prm sqrt A P st j hb]; simp
  · rw [lPass_innerRes, h1, absK_zero]

/-- the inner loop continued after each of its passes but the last -/
theorem linner_conds (prm : LGMRES.Params K) (sqrt : K → K) (A : CRS K) (P : Vec K → Vec K) (epsT : K)
    (st : LGMRES.St K) (i : ℕ) (h1 : 1 ≤ i) (hi : i < (LGMRES.inner prm stdIp sqrt A P epsT st).j) :
    LGMRES.cont prm.maxiter prm.MM epsT (lPass prm sqrt A P st i) = true := by
  obtain ⟨k, _, hk1, hk2, _⟩ := loopN_iterate_conds (LGMRES.cont prm.maxiter prm.MM epsT)
    (lStep prm sqrt A P) prm.MM (lStep prm sqrt A P (LGMRES.cycleStart st))
  have hdef : LGMRES.inner prm stdIp sqrt A P epsT st
      = loopN (LGMRES.cont prm.maxiter prm.MM epsT) (lStep prm sqrt A P) prm.MM
          (lStep prm sqrt A P (LGMRES.cycleStart st)) := rfl
  have hpass : ∀ a, (lStep prm sqrt A P)^[a] (lStep prm sqrt A P (LGMRES.cycleStart st))
      = lPass prm sqrt A P st (a + 1) := by
    intro a
    show _ = (LGMRES.step prm.pside prm.MM prm.K' stdIp sqrt A P)^[a + 1] (LGMRES.cycleStart st)
    rw [Function.iterate_succ_apply]
  rw [← hdef, hpass] at hk1
  have hj : (LGMRES.inner prm stdIp sqrt A P epsT st).j = k + 1 := by rw [hk1, lPass_j]
  obtain ⟨a, rfl⟩ : ∃ a, i = a + 1 := ⟨i - 1, by omega⟩
  rw [← hpass]
  exact hk2 a (by omega)

/-- **a breakdown can only be met in the last pass of a cycle** (threshold not negative) — Krylov or augmentation pass -/
theorem linner_no_early_breakdown (prm : LGMRES.Params K) (sqrt : K → K) (A : CRS K) (P : Vec K → Vec K) (epsT : K)
    (heps : ¬ epsT < 0) (st : LGMRES.St K) (i : ℕ) (hi : i + 1 < (LGMRES.inner prm stdIp sqrt A P epsT st).j) :
    lArnoldiNorm prm sqrt A P st i ≠ 0 := by
  intro hb
  have hc := linner_conds prm sqrt A P epsT st (i + 1) (by omega) hi
  rw [LGMRES.cont, (lbreakdown_innerRes prm sqrt A P st i hb).2.2] at hc
  simp only [Bool.not_eq_true', Bool.or_eq_false_iff, decide_eq_false_iff_not, Bool.not_eq_false',
    decide_eq_true_eq] at hc
  exact heps hc.2

end passes

section inv
variable {K : Type} [Field K] [LinearOrder K] [IsStrictOrderedRing K]

/-- the number the pass that starts in state `t` hands to the square root inside `generate_plane_rotation` -/
def lRotArg (prm : LGMRES.Params K) (sqrt : K → K) (A : CRS K) (P : Vec K → Vec K) (t : LGMRES.In K) : K :=
  genRotArg
    ((rotCol t.j (orth stdIp sqrt t.w.vs t.j t.w.h.H (lVnew prm A P t)).1 t.w.h.cs t.w.h.sn).get t.j t.j)
    ((rotCol t.j (orth stdIp sqrt t.w.vs t.j t.w.h.H (lVnew prm A P t)).1 t.w.h.cs t.w.h.sn).get (t.j + 1) t.j)

/-- **the square root is exact on every number the first `j` passes of the LGMRES cycle apply it to**: `⟨r,r⟩`, and in
pass `i < j` the norm `⟨w_i,w_i⟩` and the argument `1 + tmp²` of `generate_plane_rotation`.  Implied by
`∀ x ≥ 0, sqrt x · sqrt x = x` (`lRootsExact_of_hsqrt`); decidable on concrete rational inputs. -/
structure LRootsExact (prm : LGMRES.Params K) (sqrt : K → K) (A : CRS K) (P : Vec K → Vec K) (st : LGMRES.St K) (j : ℕ) :
    Prop where
  r0 : RootAt sqrt (stdIp st.w.r st.w.r)
  orth : ∀ i, i < j → RootAt sqrt (stdIp (lOrthVec prm A P (lPass prm sqrt A P st i))
    (lOrthVec prm A P (lPass prm sqrt A P st i)))
  rot : ∀ i, i < j → RootAt sqrt (lRotArg prm sqrt A P (lPass prm sqrt A P st i))

theorem LRootsExact.mono {prm : LGMRES.Params K} {sqrt : K → K} {A : CRS K} {P : Vec K → Vec K} {st : LGMRES.St K}
    {j m : ℕ} (h : LRootsExact prm sqrt A P st j) (hm : m ≤ j) : LRootsExact prm sqrt A P st m :=
  ⟨h.r0, fun i hi => h.orth i (by omega), fun i hi => h.rot i (by omega)⟩

theorem lRootsExact_of_hsqrt (prm : LGMRES.Params K) (sqrt : K → K) (hsqrt : ∀ x, 0 ≤ x → sqrt x * sqrt x = x)
    (A : CRS K) (P : Vec K → Vec K) (st : LGMRES.St K) (j : ℕ) : LRootsExact prm sqrt A P st j :=
  ⟨hsqrt _ (stdIp_self_nonneg _), fun _ _ => hsqrt _ (stdIp_self_nonneg _), fun _ _ => hsqrt _ (genRotArg_nonneg _ _)⟩

/-- the constant "preconditioner" of the shadow GMRES pass -/
def cP (v : Vec K) : Vec K → Vec K := fun _ => v

/-- **on the shared arrays a pass of LGMRES is a pass of `GMRES.step .left` with the constant function `fun _ => v_new`
in the place of the preconditioner** — the ghost, `j`, `H, s, cs, sn` and `vs[]` agree (definitionally) -/
theorem lStepG_shadow (prm : LGMRES.Params K) (sqrt : K → K) (A : CRS K) (P : Vec K → Vec K)
    (g : LGMRES.In K × Ghost K) :
    (stepG .left stdIp sqrt A (cP (lVnew prm A P g.1)) (lToGIn g.1, g.2)).2 = (lStepG prm sqrt A P g).2 ∧
    (stepG .left stdIp sqrt A (cP (lVnew prm A P g.1)) (lToGIn g.1, g.2)).1.j = (lStepG prm sqrt A P g).1.j ∧
    (stepG .left stdIp sqrt A (cP (lVnew prm A P g.1)) (lToGIn g.1, g.2)).1.w.h = (lStepG prm sqrt A P g).1.w.h ∧
    (stepG .left stdIp sqrt A (cP (lVnew prm A P g.1)) (lToGIn g.1, g.2)).1.w.v = (lStepG prm sqrt A P g).1.w.vs :=
  ⟨rfl, rfl, rfl, rfl⟩

/-- the Givens invariant of `Proofs/KrylovGMRES.lean` read on the shared arrays -/
def LGivInv (β : K) (g : LGMRES.In K × Ghost K) : Prop := GivInv β (lToGIn g.1, g.2)

theorem lcycleStart_givInv (st : LGMRES.St K) (g0 : Ghost K) : LGivInv st.normR (LGMRES.cycleStart st, g0) :=
  cycleStart_givInv (lToG st) g0

theorem lStepG_givInv (prm : LGMRES.Params K) (sqrt : K → K) (A : CRS K) (P : Vec K → Vec K) (β : K)
    (g : LGMRES.In K × Ghost K) (hg : RootAt sqrt (lRotArg prm sqrt A P g.1)) (h : LGivInv β g) :
    LGivInv β (lStepG prm sqrt A P g) :=
  stepG_givInv .left sqrt A (cP (lVnew prm A P g.1)) β (lToGIn g.1, g.2) hg h

theorem lPassG_givInv (prm : LGMRES.Params K) (sqrt : K → K) (A : CRS K) (P : Vec K → Vec K) (st : LGMRES.St K)
    (g0 : Ghost K) (j : ℕ) (hrot : ∀ i, i < j → RootAt sqrt (lRotArg prm sqrt A P (lPass prm sqrt A P st i))) :
    LGivInv st.normR (lPassG prm sqrt A P st g0 j) := by
  induction j with
  | zero => exact lcycleStart_givInv st g0
  | succ j ih =>
    rw [lPassG_succ]
    refine lStepG_givInv prm sqrt A P _ _ ?_ (ih (fun i hi => hrot i (by omega)))
    rw [lPassG_fst]; exact hrot j (Nat.lt_succ_self j)

/-- **the Givens relation of the LGMRES cycle** after `j` passes (roots exact in the rotations of these passes), and
regularity of the triangular factor where there was no breakdown -/
theorem lPassG_givens (prm : LGMRES.Params K) (sqrt : K → K) (A : CRS K) (P : Vec K → Vec K) (st : LGMRES.St K)
    (g0 : Ghost K) (j : ℕ) (hrot : ∀ i, i < j → RootAt sqrt (lRotArg prm sqrt A P (lPass prm sqrt A P st i))) :
    GivensRel j (lPass prm sqrt A P st j).w.h.cs.get (lPass prm sqrt A P st j).w.h.sn.get
      (lPass prm sqrt A P st j).w.h.H.get (lPassG prm sqrt A P st g0 j).2.Ht.get
      (lPass prm sqrt A P st j).w.h.s.get st.normR ∧
    ∀ i, i < j → lArnoldiNorm prm sqrt A P st i ≠ 0 → (lPass prm sqrt A P st j).w.h.H.get i i ≠ 0 := by
  have h := lPassG_givInv prm sqrt A P st g0 j hrot
  unfold LGivInv GivInv at h
  have hj : (lToGIn (lPassG prm sqrt A P st g0 j).1).j = j := by
    show (lPassG prm sqrt A P st g0 j).1.j = j
    rw [lPassG_fst, lPass_j]
  rw [hj] at h
  have hh : (lToGIn (lPassG prm sqrt A P st g0 j).1).w.h = (lPass prm sqrt A P st j).w.h := by
    show (lPassG prm sqrt A P st g0 j).1.w.h = _
    rw [lPassG_fst]
  simp only [hh] at h
  refine ⟨h.1, fun i hi hne => h.2 i hi ?_⟩
  rw [lghost_sub prm sqrt A P st g0 j i hi]; exact hne

/-- **the residual estimate does not increase**: `|s_{j+1}| = |sn_j|·|s_j| ≤ |s_j|` -/
theorem lInnerRes_antitone (prm : LGMRES.Params K) (sqrt : K → K) (A : CRS K) (P : Vec K → Vec K) (st : LGMRES.St K)
    (j : ℕ) (hg : RootAt sqrt (lRotArg prm sqrt A P (lPass prm sqrt A P st j))) :
    Solver.absK ((lPass prm sqrt A P st (j + 1)).w.h.s.get (j + 1))
      ≤ Solver.absK ((lPass prm sqrt A P st j).w.h.s.get j) := by
  have hj := lPass_j prm sqrt A P st j
  rw [lPass_s_last]
  have g1 : (lRotOf prm sqrt A P st j).1 * (lRotOf prm sqrt A P st j).1
      + (lRotOf prm sqrt A P st j).2 * (lRotOf prm sqrt A P st j).2 = 1 := by
    unfold lRotOf rotG
    unfold lRotArg at hg
    rw [hj] at hg
    exact (genRot_spec sqrt _ _ hg).1
  generalize lRotOf prm sqrt A P st j = gr at g1 ⊢
  rw [absK_eq_abs, absK_eq_abs, abs_mul, abs_neg]
  have h1 : |gr.2| ≤ 1 := abs_le_one_iff_mul_self_le_one.mpr (sn_sq_le_one gr.1 gr.2 g1)
  calc |gr.2| * |(lPass prm sqrt A P st j).w.h.s.get j| ≤ 1 * |(lPass prm sqrt A P st j).w.h.s.get j| :=
        mul_le_mul_of_nonneg_right h1 (abs_nonneg _)
    _ = |(lPass prm sqrt A P st j).w.h.s.get j| := one_mul _

end inv
end Amgcl.Krylov
