import Amgcl.Model.PowerMethod
import Amgcl.Proofs.KernelsGershgorin
import Mathlib.Algebra.Order.Chebyshev
import Mathlib.Algebra.Order.BigOperators.Ring.Finset
import Mathlib.Algebra.BigOperators.Group.Finset.Basic
import Mathlib.Tactic.Ring
import Mathlib.Tactic.Linarith
import Mathlib.Tactic.FieldSimp
/-!
# helper lemmas for the power-method model (`Model/PowerMethod.lean`), used by `Properties/C08e.lean`

`pmSweep_eq`: one pass of the loop in closed form — with `sAt i` the value `s` the row loop leaves for row `i` (entered with
the `dia` the rows before it left, `diaAt i`), the pass returns `b1 = (sAt 0, …, sAt (n-1))`, `b1_norm = 0 + Σ_i |s_i s_i|`,
`radius = 0 + Σ_i |s_i b0_i|`.
-/
namespace Amgcl.PM
open Amgcl

section
variable {K : Type} [Field K] [LinearOrder K] [IsStrictOrderedRing K]

/-- `dia` on entry of row `i` of a pass -/
def diaAt (scaled : Bool) (A : CRS K) (b0 : Vec K) : Nat → K
  | 0 => 1
  | i + 1 => (pmRow scaled i (A.row i) b0 (diaAt scaled A b0 i)).2

/-- the value `s` (`= b1[i]`) of row `i` of a pass -/
def sAt (scaled : Bool) (A : CRS K) (b0 : Vec K) (i : Nat) : K :=
  (pmRow scaled i (A.row i) b0 (diaAt scaled A b0 i)).1

theorem pmSweep_state (scaled : Bool) (A : CRS K) (b0 : Vec K) (m : Nat) :
    (List.range m).foldl (fun (acc : Vec K × K × K × K) i =>
      let sd := pmRow scaled i (A.row i) b0 acc.2.2.2
      (acc.1.push sd.1, acc.2.1 + absK (sd.1 * sd.1), acc.2.2.1 + absK (sd.1 * b0.getD i 0), sd.2))
      ((#[] : Vec K), (0 : K), (0 : K), (1 : K))
    = (((List.range m).map (sAt scaled A b0)).toArray,
       ((List.range m).map (fun i => absK (sAt scaled A b0 i * sAt scaled A b0 i))).sum,
       ((List.range m).map (fun i => absK (sAt scaled A b0 i * b0.getD i 0))).sum,
       diaAt scaled A b0 m) := by
  induction m with
  | zero => simp [diaAt]
  | succ m ih =>
    rw [List.range_succ, List.foldl_append, ih]
    simp [sAt, diaAt, List.sum_append]

theorem pmSweep_eq (scaled : Bool) (A : CRS K) (b0 : Vec K) :
    pmSweep scaled A b0 =
      (((List.range A.nrows).map (sAt scaled A b0)).toArray,
       0 + ((List.range A.nrows).map (fun i => absK (sAt scaled A b0 i * sAt scaled A b0 i))).sum,
       0 + ((List.range A.nrows).map (fun i => absK (sAt scaled A b0 i * b0.getD i 0))).sum) := by
  unfold pmSweep
  rw [pmSweep_state]

theorem list_sum_range (f : Nat → K) (n : Nat) : ((List.range n).map f).sum = ∑ i ∈ Finset.range n, f i := by
  induction n with
  | zero => simp
  | succ n ih => rw [List.range_succ, List.map_append, List.sum_append, ih, Finset.sum_range_succ]; simp

theorem pmSweep_norm (scaled : Bool) (A : CRS K) (b0 : Vec K) :
    (pmSweep scaled A b0).2.1 = ∑ i ∈ Finset.range A.nrows, sAt scaled A b0 i ^ 2 := by
  rw [pmSweep_eq]; simp only [zero_add, list_sum_range]
  refine Finset.sum_congr rfl fun i _ => ?_
  rw [K2.absK_eq_abs, abs_mul_self, sq]

theorem pmSweep_radius (scaled : Bool) (A : CRS K) (b0 : Vec K) :
    (pmSweep scaled A b0).2.2 = ∑ i ∈ Finset.range A.nrows, |sAt scaled A b0 i| * |b0.getD i 0| := by
  rw [pmSweep_eq]; simp only [zero_add, list_sum_range]
  refine Finset.sum_congr rfl fun i _ => ?_
  rw [K2.absK_eq_abs, abs_mul]

theorem pmSweep_radius_nonneg (scaled : Bool) (A : CRS K) (b0 : Vec K) : 0 ≤ (pmSweep scaled A b0).2.2 := by
  rw [pmSweep_radius]; exact Finset.sum_nonneg fun i _ => mul_nonneg (abs_nonneg _) (abs_nonneg _)

/-- `b1_norm == 0` means every `s` vanished, hence `radius = 0` -/
theorem pmSweep_radius_zero_of_norm_zero (scaled : Bool) (A : CRS K) (b0 : Vec K)
    (h : (pmSweep scaled A b0).2.1 = 0) : (pmSweep scaled A b0).2.2 = 0 := by
  rw [pmSweep_norm] at h
  have hz := (Finset.sum_eq_zero_iff_of_nonneg (fun i _ => sq_nonneg (sAt scaled A b0 i))).1 h
  rw [pmSweep_radius]
  refine Finset.sum_eq_zero fun i hi => ?_
  have := pow_eq_zero_iff (two_ne_zero) |>.1 (hz i hi)
  rw [this, abs_zero, zero_mul]

theorem pmLoop_nonneg (sqrt : K → K) (scaled : Bool) (A : CRS K) (rem : Nat) (b0 : Vec K) (r : K) (hr : 0 ≤ r) :
    0 ≤ pmLoop sqrt scaled A rem b0 r := by
  induction rem generalizing b0 r with
  | zero => simpa [pmLoop] using hr
  | succ rem ih =>
    unfold pmLoop
    simp only
    split
    · exact pmSweep_radius_nonneg scaled A b0
    · split
      · exact pmSweep_radius_nonneg scaled A b0
      · exact ih _ _ (pmSweep_radius_nonneg scaled A b0)

/-- `loc_norm` of the first loop is the sum of squares -/
theorem pmNormSq_eq (b : Vec K) : pmNormSq b = (b.toList.map (fun v => v * v)).sum := by
  unfold pmNormSq
  rw [← Array.foldl_toList]
  have : ∀ (l : List K) (s : K), l.foldl (fun s v => s + absK (v * v)) s = s + (l.map (fun v => v * v)).sum := by
    intro l
    induction l with
    | nil => intro s; simp
    | cons a t ih => intro s; rw [List.foldl_cons, ih, List.map_cons, List.sum_cons, K2.absK_eq_abs, abs_mul_self]; ring
  rw [this, zero_add]

theorem pmNormSq_nonneg (b : Vec K) : 0 ≤ pmNormSq b := by
  rw [pmNormSq_eq]
  refine List.sum_nonneg ?_
  intro x hx
  obtain ⟨v, _, rfl⟩ := List.mem_map.1 hx
  exact mul_self_nonneg v

theorem pmNormSq_scale (t : K) (b : Vec K) : pmNormSq (pmScale t b) = t * t * pmNormSq b := by
  rw [pmNormSq_eq, pmNormSq_eq]
  unfold pmScale
  rw [Array.toList_map, List.map_map]
  induction b.toList with
  | nil => simp
  | cons a l ih => simp only [List.map_cons, List.sum_cons, Function.comp] at ih ⊢; rw [ih]; ring

theorem pmScale_scale (c t : K) (b : Vec K) : pmScale c (pmScale t b) = pmScale (c * t) b := by
  unfold pmScale
  rw [Array.map_map]
  congr 1
  funext v
  simp [mul_assoc]

end

end Amgcl.PM
