import Amgcl.Proofs.AdaptersReorder
import Mathlib.Tactic.Ring
/-!
Reorder / scaled-problem adapters: entries of the adapted matrix and the "solve the adapted system, transform back"
theorems (C17).
-/
namespace Amgcl.Adapters
open Amgcl Amgcl.K2

section solvesSpmv
variable {K : Type} [Semiring K] [DecidableEq K]

/-- `Solves` in terms of the backend primitive: `spmv(1, A, x, 0, y)` returns `f` -/
theorem solves_iff_spmv (A : CRS K) (x f y : Vec K) (hf : f.size = A.nrows) :
    Solves A x f ↔ spmv 1 A x 0 y = f := by
  unfold Solves spmv
  rw [if_pos rfl]
  constructor
  · intro h
    apply Vec.ext_getD (0 : K) (by simp [hf])
    intro i hi
    have hi' : i < A.nrows := by simpa using hi
    rw [getD_ofFn_lt _ _ _ hi', one_mul]
    exact h i hi'
  · intro h i hi
    have := congrArg (fun v => v.getD i 0) h
    rw [getD_ofFn_lt _ _ _ hi, one_mul] at this
    exact this

end solvesSpmv

/-! ## reorder -/
section reorder
variable {K : Type}

/-- entries of the reordered matrix: `B[i][j] = A[perm i][perm j]`, i.e. `B = Π A Πᵀ` with `(Π v)[i] = v[perm i]` -/
theorem reorderedMatrix_get [AddCommMonoid K] (A : CRS K) {perm : Array Nat} (h : IsPerm perm) (hA : A.WF)
    (hn : A.nrows = perm.size) (hm : A.ncols = perm.size) (i j : Nat) (hi : i < perm.size) (hj : j < perm.size) :
    (reorderedMatrix A perm (mkIperm perm)).get i j = A.get (perm.getD i 0) (perm.getD j 0) := by
  unfold CRS.get
  rw [reorderedMatrix_row A perm _ i (by rw [hn]; exact hi)]
  apply rowGet_map_cols _ (fun c => (mkIperm perm).getD c 0)
  intro cv hcv
  have hc : cv.1 < perm.size := by rw [← hm]; exact row_col_lt hA _ hcv
  obtain ⟨hlt, e⟩ := (mkIperm_spec h).2.2 cv.1 hc
  constructor
  · intro e'; rw [← e']; exact e.symm
  · intro e'; rw [e']; exact (mkIperm_spec h).2.1 j hj

/-- SpMV with the reordered matrix: row `i` of `B y` is row `perm i` of `A x` for `x = inverse(y)` -/
theorem reorderedMatrix_rowDot [Add K] [Mul K] [Zero K] (A : CRS K) {perm : Array Nat} (h : IsPerm perm)
    (hA : A.WF) (hn : A.nrows = perm.size) (hm : A.ncols = perm.size) (y x0 : Vec K) (hx : x0.size = perm.size)
    (i : Nat) (hi : i < perm.size) :
    rowDot ((reorderedMatrix A perm (mkIperm perm)).row i) y
      = rowDot (A.row (perm.getD i 0)) (reorderInverse perm y x0) := by
  rw [reorderedMatrix_row A perm _ i (by rw [hn]; exact hi)]
  apply rowDot_map_cols _ (fun c => (mkIperm perm).getD c 0)
  intro cv hcv
  have hc : cv.1 < perm.size := by rw [← hm]; exact row_col_lt hA _ hcv
  exact ((reorderInverse_spec h y x0 hx).2.2 cv.1 hc).symm

/-- **reorder adapter**: if `y` solves the reordered system `(Π A Πᵀ) y = Π f` (`Π f = forward(f)`), then
`x = inverse(y)` — written into any vector `x0` of the right length — solves `A x = f`. -/
theorem reorder_solves' [Add K] [Mul K] [Zero K] (A : CRS K) {perm : Array Nat} (h : IsPerm perm)
    (hA : A.WF) (hn : A.nrows = perm.size) (hm : A.ncols = perm.size) (f y x0 : Vec K) (hx : x0.size = perm.size)
    (hsol : Solves (reorderedMatrix A perm (mkIperm perm)) y (reorderForward perm f)) :
    Solves A (reorderInverse perm y x0) f := by
  intro i hi
  have hi' : i < perm.size := by rw [← hn]; exact hi
  obtain ⟨hk, e⟩ := (mkIperm_spec h).2.2 i hi'
  have := hsol ((mkIperm perm).getD i 0) (by rw [reorderedMatrix_nrows, hn]; exact hk)
  rw [reorderedMatrix_rowDot A h hA hn hm y x0 hx _ hk, reorderForward_getD _ _ _ hk, e] at this
  exact this

end reorder

/-! ## scaled problem -/
section scaled
variable {K : Type}

theorem scaledMatrix_nrows [Mul K] [Zero K] (A : CRS K) (s : Vec K) : (scaledMatrix A s).nrows = A.nrows := by
  simp [scaledMatrix, CRS.nrows]

theorem scaledMatrix_row [Mul K] [Zero K] (A : CRS K) (s : Vec K) (i : Nat) (hi : i < A.nrows) :
    (scaledMatrix A s).row i = (A.row i).map (fun cv => (cv.1, s.getD i 0 * cv.2 * s.getD cv.1 0)) := by
  have hi' : i < (scaledMatrix A s).rows.size := by simpa [scaledMatrix, CRS.nrows] using hi
  rw [row_eq_getElem _ hi']
  simp [scaledMatrix]

/-- entries: `(S A S)[i][j] = s_i · a_ij · s_j` -/
theorem scaledMatrix_get [Semiring K] (A : CRS K) (s : Vec K) (i j : Nat) (hi : i < A.nrows) :
    (scaledMatrix A s).get i j = s.getD i 0 * A.get i j * s.getD j 0 := by
  unfold CRS.get
  rw [scaledMatrix_row A s i hi]
  generalize A.row i = r
  induction r with
  | nil => simp
  | cons cv t ih =>
    simp only [List.map_cons, rowGet_cons', ih, mul_add, add_mul]
    congr 1
    by_cases e : cv.1 = j
    · simp [e]
    · simp [e]

theorem scaleVec_getD [CommSemiring K] [DecidableEq K] (s x : Vec K) (i : Nat) (hi : i < s.size) :
    (scaleVec s x).getD i 0 = s.getD i 0 * x.getD i 0 := by
  unfold scaleVec vmul
  rw [if_pos rfl, getD_ofFn_lt _ _ _ hi, one_mul]

theorem scaleVec_size [Add K] [Mul K] [Zero K] [One K] [DecidableEq K] (s x : Vec K) :
    (scaleVec s x).size = s.size := by
  unfold scaleVec vmul
  split <;> simp

/-- SpMV with the scaled matrix: `(S A S y)_i = s_i · (A (S y))_i` -/
theorem scaledMatrix_rowDot [CommRing K] [DecidableEq K] (A : CRS K) (hA : A.WF) (s y : Vec K)
    (hs : s.size = A.ncols) (i : Nat) (hi : i < A.nrows) :
    rowDot ((scaledMatrix A s).row i) y = s.getD i 0 * rowDot (A.row i) (scaleVec s y) := by
  rw [scaledMatrix_row A s i hi, rowDot_eq_listSum, rowDot_eq_listSum, ← List.sum_map_mul_left, List.map_map]
  congr 1
  apply List.map_congr_left
  intro cv hcv
  have hc : cv.1 < s.size := by rw [hs]; exact row_col_lt hA i hcv
  simp only [Function.comp]
  rw [scaleVec_getD s y _ hc]
  ring

/-- **scaled problem**: for every scale vector without zero entry, if `y` solves `(S A S) y = S f`, then the
post-scaled `x = S y` solves `A x = f`. -/
theorem scaled_solves' [CommRing K] [IsDomain K] [DecidableEq K] (A : CRS K) (hA : A.WF) (hsq : A.ncols = A.nrows)
    (s f y : Vec K) (hs : s.size = A.nrows) (hnz : ∀ i, i < A.nrows → s.getD i 0 ≠ 0)
    (hsol : Solves (scaledMatrix A s) y (scaleVec s f)) :
    Solves A (scaleVec s y) f := by
  intro i hi
  have := hsol i (by rw [scaledMatrix_nrows]; exact hi)
  rw [scaledMatrix_rowDot A hA s y (by rw [hs, hsq]) i hi, scaleVec_getD s f i (by rw [hs]; exact hi)] at this
  exact mul_left_cancel₀ (hnz i hi) this

end scaled

end Amgcl.Adapters
