import Amgcl.Model.RelaxSpai1
import Amgcl.Proofs.RelaxBasic
import Amgcl.Proofs.RowGet
import Amgcl.Proofs.QRArray
import Mathlib.Data.List.Sort
import Mathlib.Tactic.Linarith
/-!
SPAI-1 (`Model/RelaxSpai1.lean`): what the assembly loops of the constructor (spai1.hpp:86-113, 118-119) compute.

For a well-formed matrix and a marker array that is all `-1` on entry:
* `spai1Collect` — `J0` = the columns of the rows `c ∈ I`, each once, in order of first appearance; the marker is `1` exactly on them;
* `sortNat` — the sorted permutation (strictly increasing when there are no repetitions);
* `spai1Index` — `marker[J[j]] = j`, other cells unchanged; `ek[j] = 1` iff `J[j] = i`;
* `spai1Fill` — `B[p + |J|·q] = a(I[q], J[p])` (rows without repeated columns);
* the reset loop restores the all-`-1` marker.
-/
set_option linter.unusedSectionVars false
set_option linter.unusedVariables false
namespace Amgcl
namespace Relax

/-! ### `std::sort` on indices -/

theorem insNat_eq (a : Nat) (l : List Nat) : insNat a l = l.orderedInsert (· ≤ ·) a := by
  induction l with
  | nil => rfl
  | cons b t ih =>
    show (if a ≤ b then a :: b :: t else b :: insNat a t) = _
    rw [List.orderedInsert_cons, ih]

theorem sortNat_eq (l : List Nat) : sortNat l = l.insertionSort (· ≤ ·) := by
  induction l with
  | nil => rfl
  | cons a t ih =>
    show insNat a (sortNat t) = _
    rw [List.insertionSort_cons, insNat_eq, ih]

theorem sortNat_perm (l : List Nat) : (sortNat l).Perm l := by
  rw [sortNat_eq]; exact List.perm_insertionSort _ l

theorem mem_sortNat (l : List Nat) (c : Nat) : c ∈ sortNat l ↔ c ∈ l := (sortNat_perm l).mem_iff

theorem length_sortNat (l : List Nat) : (sortNat l).length = l.length := (sortNat_perm l).length_eq

theorem sortNat_sorted (l : List Nat) : (sortNat l).Pairwise (· ≤ ·) := by
  rw [sortNat_eq]; exact List.pairwise_insertionSort _ l

theorem sortNat_nodup (l : List Nat) (h : l.Nodup) : (sortNat l).Nodup := (sortNat_perm l).nodup_iff.mpr h

theorem sortNat_strict (l : List Nat) (h : l.Nodup) : (sortNat l).Pairwise (· < ·) := by
  have h1 := sortNat_sorted l
  have h2 : (sortNat l).Pairwise (· ≠ ·) := sortNat_nodup l h
  exact (h1.and h2).imp (fun hab => Nat.lt_of_le_of_ne hab.1 hab.2)

/-! ### the marker loop that collects `J` -/

/-- one marker test: `if (marker[c] < 0) { marker[c] = 1; J.push_back(c); }` -/
def collStep (acc : Array Nat × Array Int) (c : Nat) : Array Nat × Array Int :=
  if acc.2.getD c 0 < 0 then (acc.1.push c, acc.2.setIfInBounds c 1) else acc

/-- the columns visited by the double loop, in order -/
def visited {K : Type} (A : CRS K) (I : List Nat) : List Nat := I.flatMap (fun c => (A.row c).map (·.1))

theorem spai1Collect_eq {K : Type} (A : CRS K) (I : List Nat) (marker : Array Int) :
    spai1Collect A I marker = (visited A I).foldl collStep (#[], marker) := by
  unfold spai1Collect visited
  generalize ((#[], marker) : Array Nat × Array Int) = acc
  induction I generalizing acc with
  | nil => rfl
  | cons c t ih =>
    rw [List.foldl_cons, List.flatMap_cons, List.foldl_append, ← ih, List.foldl_map]
    rfl

/-- loop invariant: the marker is `1` exactly on the collected columns and `-1` elsewhere -/
structure CollInv (m : Nat) (acc : Array Nat × Array Int) : Prop where
  size : acc.2.size = m
  nodup : acc.1.toList.Nodup
  lt : ∀ c ∈ acc.1.toList, c < m
  mark : ∀ c, c < m → acc.2.getD c 0 = if c ∈ acc.1.toList then 1 else -1

theorem CollInv.init (m : Nat) : CollInv m (#[], Array.replicate m (-1)) := by
  refine ⟨by simp, by simp, by simp, ?_⟩
  intro c hc
  simp [Array.getD, hc]

theorem collStep_inv {m : Nat} {acc : Array Nat × Array Int} (h : CollInv m acc) {c : Nat} (hc : c < m) :
    CollInv m (collStep acc c) ∧ ∀ d, d ∈ (collStep acc c).1.toList ↔ d ∈ acc.1.toList ∨ d = c := by
  unfold collStep
  by_cases hmem : c ∈ acc.1.toList
  · have : ¬ acc.2.getD c 0 < 0 := by rw [h.mark c hc, if_pos hmem]; decide
    rw [if_neg this]
    refine ⟨h, fun d => ⟨Or.inl, ?_⟩⟩
    rintro (hd | rfl)
    · exact hd
    · exact hmem
  · have : acc.2.getD c 0 < 0 := by rw [h.mark c hc, if_neg hmem]; decide
    rw [if_pos this]
    have hl : (acc.1.push c).toList = acc.1.toList ++ [c] := by simp
    refine ⟨⟨?_, ?_, ?_, ?_⟩, ?_⟩
    · show (acc.2.setIfInBounds c 1).size = m
      rw [Array.size_setIfInBounds]; exact h.size
    · show (acc.1.push c).toList.Nodup
      rw [hl]
      exact List.Nodup.append h.nodup (List.nodup_singleton c) (by
        intro a ha hb
        rw [List.mem_singleton] at hb
        exact hmem (hb ▸ ha))
    · intro d hd
      change d ∈ (acc.1.push c).toList at hd
      rw [hl, List.mem_append, List.mem_singleton] at hd
      rcases hd with hd | rfl
      · exact h.lt d hd
      · exact hc
    · intro d hd
      show (acc.2.setIfInBounds c 1).getD d 0 = if d ∈ (acc.1.push c).toList then 1 else -1
      rw [hl, getD_setIfInBounds]
      by_cases hcd : c = d
      · subst hcd
        rw [if_pos ⟨rfl, by rw [h.size]; exact hc⟩, if_pos (by simp)]
      · rw [if_neg (fun hh => hcd hh.1), h.mark d hd]
        have : d ∈ acc.1.toList ++ [c] ↔ d ∈ acc.1.toList := by
          rw [List.mem_append, List.mem_singleton]
          exact ⟨fun hh => hh.elim id (fun e => absurd e.symm hcd), Or.inl⟩
        simp only [this]
    · intro d
      show d ∈ (acc.1.push c).toList ↔ _
      rw [hl, List.mem_append, List.mem_singleton]

theorem collFold_inv {m : Nat} (l : List Nat) (hl : ∀ c ∈ l, c < m) {acc : Array Nat × Array Int} (h : CollInv m acc) :
    CollInv m (l.foldl collStep acc) ∧ ∀ d, d ∈ (l.foldl collStep acc).1.toList ↔ d ∈ acc.1.toList ∨ d ∈ l := by
  induction l generalizing acc with
  | nil => exact ⟨h, fun d => by simp⟩
  | cons c t ih =>
    obtain ⟨h1, h2⟩ := collStep_inv h (hl c List.mem_cons_self)
    obtain ⟨h3, h4⟩ := ih (fun d hd => hl d (List.mem_cons_of_mem _ hd)) h1
    rw [List.foldl_cons]
    refine ⟨h3, fun d => ?_⟩
    rw [h4 d, h2 d, List.mem_cons]
    tauto

theorem visited_lt {K : Type} (A : CRS K) (hA : A.WF) (I : List Nat) : ∀ c ∈ visited A I, c < A.ncols := by
  intro c hc
  unfold visited at hc
  rw [List.mem_flatMap] at hc
  obtain ⟨r, _, hc⟩ := hc
  rw [List.mem_map] at hc
  obtain ⟨cv, hcv, rfl⟩ := hc
  exact hA.row_lt r cv hcv

/-- the collected `J0` and the marker after the first loop -/
theorem spai1Collect_spec {K : Type} (A : CRS K) (hA : A.WF) (I : List Nat) :
    let cm := spai1Collect A I (Array.replicate A.ncols (-1))
    CollInv A.ncols cm ∧ ∀ d, d ∈ cm.1.toList ↔ d ∈ visited A I := by
  intro cm
  have := collFold_inv (visited A I) (visited_lt A hA I) (CollInv.init A.ncols)
  rw [← spai1Collect_eq] at this
  refine ⟨this.1, fun d => ?_⟩
  rw [this.2 d]
  simp

/-! ### `marker[J[j]] = j` and the right-hand side `ek` -/

theorem foldl_pair {α β ι : Type} (l : List ι) (f : α → ι → α) (g : β → ι → β) (a : α) (b : β) :
    l.foldl (fun (acc : α × β) x => (f acc.1 x, g acc.2 x)) (a, b) = (l.foldl f a, l.foldl g b) := by
  induction l generalizing a b with
  | nil => rfl
  | cons x t ih => rw [List.foldl_cons, List.foldl_cons, List.foldl_cons]; exact ih _ _

/-- the marker component of `spai1Index` -/
def indexMarker (J : List Nat) (marker : Array Int) : Array Int :=
  J.zipIdx.foldl (fun (mk : Array Int) cj => mk.setIfInBounds cj.1 (cj.2 : Int)) marker

/-- the `ek` component of `spai1Index`, for a `zipIdx` starting at `k` -/
def indexEk {K : Type} [One K] (i : Nat) (J : List Nat) (k : Nat) (ek : Array K) : Array K :=
  (J.zipIdx k).foldl (fun (ek : Array K) cj => if cj.1 = i then ek.setIfInBounds cj.2 1 else ek) ek

theorem spai1Index_eq {K : Type} [One K] (i : Nat) (J : List Nat) (marker : Array Int) (ek : Array K) :
    spai1Index i J marker ek = (indexMarker J marker, indexEk i J 0 ek) :=
  foldl_pair J.zipIdx (fun (mk : Array Int) cj => mk.setIfInBounds cj.1 (cj.2 : Int))
    (fun (ek : Array K) cj => if cj.1 = i then ek.setIfInBounds cj.2 1 else ek) marker ek

theorem indexMarker_spec (J : List Nat) (hnd : J.Nodup) (marker : Array Int) (hlt : ∀ c ∈ J, c < marker.size) :
    (indexMarker J marker).size = marker.size ∧
    (∀ p (h : p < J.length), (indexMarker J marker).getD J[p] 0 = (p : Int)) ∧
    (∀ c, c ∉ J → (indexMarker J marker).getD c 0 = marker.getD c 0) := by
  refine ⟨?_, ?_, ?_⟩
  · exact QRModel.foldl_update_size J.zipIdx Prod.fst (fun cj _ => (cj.2 : Int)) marker
  · intro p h
    have hmem : (J[p], p) ∈ J.zipIdx := by
      rw [List.mk_mem_zipIdx_iff_getElem?]; exact List.getElem?_eq_getElem h
    have hpw : J.zipIdx.Pairwise (fun a b => a.1 ≠ b.1) := by
      apply List.Pairwise.of_map Prod.fst (fun a b h => h)
      rw [List.zipIdx_map_fst]; exact hnd
    exact QRModel.foldl_update_getD_mem J.zipIdx Prod.fst (fun cj _ => (cj.2 : Int)) marker hpw
      (fun a ha => hlt a.1 (List.fst_mem_of_mem_zipIdx ha)) (J[p], p) hmem
  · intro c hc
    exact QRModel.foldl_update_getD_other J.zipIdx Prod.fst (fun cj _ => (cj.2 : Int)) marker c
      (fun a ha e => hc (e ▸ List.fst_mem_of_mem_zipIdx ha))

theorem indexEk_spec {K : Type} [Zero K] [One K] (i : Nat) (J : List Nat) (k : Nat) (ek : Array K) :
    (indexEk i J k ek).size = ek.size ∧
    ∀ j, (indexEk i J k ek).getD j 0 = if k ≤ j ∧ J[j - k]? = some i ∧ j < ek.size then 1 else ek.getD j 0 := by
  induction J generalizing k ek with
  | nil =>
    refine ⟨rfl, fun j => ?_⟩
    show ek.getD j 0 = _
    rw [if_neg]; simp
  | cons c t ih =>
    have hstep : indexEk i (c :: t) k ek = indexEk i t (k + 1) (if c = i then ek.setIfInBounds k 1 else ek) := by
      unfold indexEk; rw [List.zipIdx_cons, List.foldl_cons]
    rw [hstep]
    obtain ⟨h1, h2⟩ := ih (k + 1) (if c = i then ek.setIfInBounds k 1 else ek)
    have hsz : (if c = i then ek.setIfInBounds k 1 else ek).size = ek.size := by
      split
      · rw [Array.size_setIfInBounds]
      · rfl
    refine ⟨h1.trans hsz, fun j => ?_⟩
    rw [h2 j, hsz]
    by_cases hjk : j = k
    · subst hjk
      rw [if_neg (by omega)]
      have h0 : (c :: t)[j - j]? = some c := by rw [Nat.sub_self]; rfl
      rw [h0]
      by_cases hci : c = i
      · rw [if_pos hci, getD_setIfInBounds]
        simp [hci]
      · rw [if_neg hci, if_neg]
        intro hh; exact hci (Option.some.inj hh.2.1)
    · by_cases hlt : k + 1 ≤ j
      · have hidx : (c :: t)[j - k]? = t[j - (k + 1)]? := by
          have : j - k = (j - (k + 1)) + 1 := by omega
          rw [this]; rfl
        have hget : (if c = i then ek.setIfInBounds k 1 else ek).getD j 0 = ek.getD j 0 := by
          split
          · rw [getD_setIfInBounds_ne _ _ _ _ _ (Ne.symm hjk)]
          · rfl
        rw [hidx, hget]
        have : (k + 1 ≤ j ∧ t[j - (k + 1)]? = some i ∧ j < ek.size) ↔ (k ≤ j ∧ t[j - (k + 1)]? = some i ∧ j < ek.size) := by
          constructor
          · rintro ⟨a, b⟩; exact ⟨by omega, b⟩
          · rintro ⟨a, b⟩; exact ⟨hlt, b⟩
        simp only [this]
      · have hL : ¬ (k + 1 ≤ j ∧ t[j - (k + 1)]? = some i ∧ j < ek.size) := fun hh => hlt hh.1
        have hR : ¬ (k ≤ j ∧ (c :: t)[j - k]? = some i ∧ j < ek.size) := fun hh => by have := hh.1; omega
        rw [if_neg hL, if_neg hR]
        split
        · rw [getD_setIfInBounds_ne _ _ _ _ _ (Ne.symm hjk)]
        · rfl

/-! ### the assembly of `B` -/

/-- `marker[c]` read as an index -/
def posOf (mk : Array Int) (c : Nat) : Nat := (mk.getD c 0).toNat

/-- `J` has no repetitions and `marker[J[p]] = p` -/
structure IndexOK (J : List Nat) (mk : Array Int) : Prop where
  nodup : J.Nodup
  pos : ∀ p (h : p < J.length), mk.getD J[p] 0 = (p : Int)

theorem IndexOK.posOf {J : List Nat} {mk : Array Int} (h : IndexOK J mk) (p : Nat) (hp : p < J.length) :
    Relax.posOf mk J[p] = p := by
  unfold Relax.posOf; rw [h.pos p hp]; rfl

theorem cell_inj {nJ p q p' q' : Nat} (hp : p < nJ) (hp' : p' < nJ) (h : p + nJ * q = p' + nJ * q') : p = p' ∧ q = q' := by
  have h1 : (p + nJ * q) % nJ = p := by rw [Nat.add_mul_mod_self_left]; exact Nat.mod_eq_of_lt hp
  have h2 : (p' + nJ * q') % nJ = p' := by rw [Nat.add_mul_mod_self_left]; exact Nat.mod_eq_of_lt hp'
  have hpp : p = p' := by rw [← h1, ← h2, h]
  subst hpp
  have hpos : 0 < nJ := by omega
  have : nJ * q = nJ * q' := by omega
  exact ⟨rfl, Nat.eq_of_mul_eq_mul_left hpos this⟩

/-- the inner loop over the entries of one row `r` of `A`, column block `q` of `B` -/
def fillRow {K : Type} (nJ : Nat) (mk : Array Int) (q : Nat) (r : Row K) (B : Array K) : Array K :=
  r.foldl (fun (B : Array K) a => B.setIfInBounds (posOf mk a.1 + nJ * q) a.2) B

theorem fillRow_spec {K : Type} [AddCommMonoid K] (J : List Nat) (mk : Array Int) (hJ : IndexOK J mk) (q : Nat) (r : Row K)
    (hcov : ∀ a ∈ r, a.1 ∈ J) (hnd : (r.map (·.1)).Nodup) (B : Array K) (hB : J.length * (q + 1) ≤ B.size) :
    (fillRow J.length mk q r B).size = B.size ∧
    (∀ p (hp : p < J.length), (fillRow J.length mk q r B).getD (p + J.length * q) 0
        = if J[p] ∈ r.map (·.1) then rowGet r J[p] else B.getD (p + J.length * q) 0) ∧
    (∀ q', q' ≠ q → ∀ p, p < J.length → (fillRow J.length mk q r B).getD (p + J.length * q') 0 = B.getD (p + J.length * q') 0) := by
  -- every entry of the row addresses the cell (position of its column in J, q)
  have hcell : ∀ a ∈ r, ∃ p, ∃ hp : p < J.length, J[p] = a.1 ∧ posOf mk a.1 + J.length * q = p + J.length * q := by
    intro a ha
    obtain ⟨p, hp, e⟩ := List.getElem_of_mem (hcov a ha)
    exact ⟨p, hp, e, by rw [← e, hJ.posOf p hp]⟩
  have hpw : r.Pairwise (fun a b => posOf mk a.1 + J.length * q ≠ posOf mk b.1 + J.length * q) := by
    have : r.Pairwise (fun a b => a.1 ≠ b.1) := List.Pairwise.of_map (·.1) (fun a b h => h) hnd
    refine this.imp_of_mem ?_
    intro a b ha hb hab e
    obtain ⟨pa, hpa, ea, ca⟩ := hcell a ha
    obtain ⟨pb, hpb, eb, cb⟩ := hcell b hb
    rw [ca, cb] at e
    have := (cell_inj hpa hpb e).1
    subst this
    exact hab (ea.symm.trans eb)
  have hlt : ∀ a ∈ r, posOf mk a.1 + J.length * q < B.size := by
    intro a ha
    obtain ⟨p, hp, _, c⟩ := hcell a ha
    rw [c]
    calc p + J.length * q < J.length + J.length * q := by omega
      _ = J.length * (q + 1) := by rw [Nat.mul_add, Nat.mul_one, Nat.add_comm]
      _ ≤ B.size := hB
  refine ⟨QRModel.foldl_update_size r (fun a => posOf mk a.1 + J.length * q) (fun a _ => a.2) B, ?_, ?_⟩
  · intro p hp
    by_cases hmem : J[p] ∈ r.map (·.1)
    · rw [if_pos hmem]
      obtain ⟨a, ha, e⟩ := List.mem_map.mp hmem
      have hg : posOf mk a.1 + J.length * q = p + J.length * q := by
        show posOf mk a.1 + _ = _
        rw [e, hJ.posOf p hp]
      have := QRModel.foldl_update_getD_mem r (fun a => posOf mk a.1 + J.length * q) (fun a _ => a.2) B hpw hlt a ha
      rw [hg] at this
      have hrg : rowGet r J[p] = a.2 := by
        rw [← e]
        clear this hg e hmem hlt hpw hcell
        induction r with
        | nil => cases ha
        | cons x t ih =>
          rw [List.map_cons, List.nodup_cons] at hnd
          rw [rowGet_cons']
          rcases List.mem_cons.mp ha with rfl | hat
          · rw [if_pos rfl, rowGet_eq_zero_of_not_mem t a.1 (fun cv hcv e => hnd.1 (List.mem_map.mpr ⟨cv, hcv, e⟩)), add_zero]
          · have hne : x.1 ≠ a.1 := fun e => hnd.1 (List.mem_map.mpr ⟨a, hat, e.symm⟩)
            rw [if_neg hne, zero_add]
            exact ih (fun b hb => hcov b (List.mem_cons_of_mem _ hb)) hnd.2 hat
      rw [hrg]; exact this
    · rw [if_neg hmem]
      apply QRModel.foldl_update_getD_other r (fun a => posOf mk a.1 + J.length * q) (fun a _ => a.2) B
      intro a ha e
      obtain ⟨pa, hpa, ea, ca⟩ := hcell a ha
      rw [ca] at e
      have := (cell_inj hpa hp e).1
      subst this
      exact hmem (List.mem_map.mpr ⟨a, ha, ea.symm⟩)
  · intro q' hq' p hp
    apply QRModel.foldl_update_getD_other r (fun a => posOf mk a.1 + J.length * q) (fun a _ => a.2) B
    intro a ha e
    obtain ⟨pa, hpa, ea, ca⟩ := hcell a ha
    rw [ca] at e
    exact hq' (cell_inj hpa hp e).2.symm

theorem spai1Fill_eq {K : Type} (A : CRS K) (I : List Nat) (nJ : Nat) (mk : Array Int) (B : Array K) :
    spai1Fill A I nJ mk B = I.zipIdx.foldl (fun (B : Array K) cq => fillRow nJ mk cq.2 (A.row cq.1) B) B := rfl

/-- the outer loop over the columns `c` of `I` (block `k + q'` of `B` for the `q'`-th element of `t`) -/
theorem fillFrom_spec {K : Type} [AddCommMonoid K] (A : CRS K) (J : List Nat) (mk : Array Int) (hJ : IndexOK J mk) (t : List Nat)
    (k : Nat) (hcov : ∀ c ∈ t, ∀ a ∈ A.row c, a.1 ∈ J) (hnd : ∀ c ∈ t, ((A.row c).map (·.1)).Nodup) (B : Array K)
    (hB : J.length * (k + t.length) ≤ B.size) :
    ((t.zipIdx k).foldl (fun (B : Array K) cq => fillRow J.length mk cq.2 (A.row cq.1) B) B).size = B.size ∧
    (∀ q' (hq' : q' < t.length) p (hp : p < J.length),
      ((t.zipIdx k).foldl (fun (B : Array K) cq => fillRow J.length mk cq.2 (A.row cq.1) B) B).getD (p + J.length * (k + q')) 0
        = if J[p] ∈ (A.row t[q']).map (·.1) then rowGet (A.row t[q']) J[p] else B.getD (p + J.length * (k + q')) 0) ∧
    (∀ q, q < k → ∀ p, p < J.length →
      ((t.zipIdx k).foldl (fun (B : Array K) cq => fillRow J.length mk cq.2 (A.row cq.1) B) B).getD (p + J.length * q) 0
        = B.getD (p + J.length * q) 0) := by
  induction t generalizing k B with
  | nil => exact ⟨rfl, fun q' hq' => absurd hq' (Nat.not_lt_zero _), fun _ _ _ _ => rfl⟩
  | cons c t ih =>
    rw [List.zipIdx_cons, List.foldl_cons]
    dsimp only
    have hlen : (c :: t).length = t.length + 1 := rfl
    obtain ⟨f1, f2, f3⟩ := fillRow_spec J mk hJ k (A.row c) (hcov c List.mem_cons_self) (hnd c List.mem_cons_self) B
      (le_trans (Nat.mul_le_mul_left _ (by rw [hlen]; omega)) hB)
    obtain ⟨i1, i2, i3⟩ := ih (k + 1) (fun d hd => hcov d (List.mem_cons_of_mem _ hd))
      (fun d hd => hnd d (List.mem_cons_of_mem _ hd)) (fillRow J.length mk k (A.row c) B)
      (by rw [f1]; rw [hlen] at hB; rw [show k + 1 + t.length = k + (t.length + 1) by omega]; exact hB)
    refine ⟨i1.trans f1, ?_, ?_⟩
    · intro q' hq' p hp
      cases q' with
      | zero =>
        simp only [Nat.add_zero, List.getElem_cons_zero]
        rw [i3 k (Nat.lt_succ_self k) p hp, f2 p hp]
      | succ q'' =>
        have e : k + (q'' + 1) = k + 1 + q'' := by omega
        simp only [List.getElem_cons_succ]
        rw [e, i2 q'' (by rw [hlen] at hq'; omega) p hp, f3 (k + 1 + q'') (by omega) p hp]
    · intro q hq p hp
      rw [i3 q (by omega) p hp, f3 q (by omega) p hp]

/-- the reset loop `marker[J[j]] = -1` -/
theorem reset_spec (J : List Nat) (hnd : J.Nodup) (mk : Array Int) (hlt : ∀ c ∈ J, c < mk.size) :
    (J.foldl (fun (m : Array Int) c => m.setIfInBounds c (-1)) mk).size = mk.size ∧
    (∀ c ∈ J, (J.foldl (fun (m : Array Int) c => m.setIfInBounds c (-1)) mk).getD c 0 = -1) ∧
    (∀ c, c ∉ J → (J.foldl (fun (m : Array Int) c => m.setIfInBounds c (-1)) mk).getD c 0 = mk.getD c 0) := by
  refine ⟨QRModel.foldl_update_size J id (fun _ _ => (-1 : Int)) mk, ?_, ?_⟩
  · intro c hc
    exact QRModel.foldl_update_getD_mem J id (fun _ _ => (-1 : Int)) mk hnd hlt c hc
  · intro c hc
    exact QRModel.foldl_update_getD_other J id (fun _ _ => (-1 : Int)) mk c (fun a ha e => hc (e ▸ ha))

theorem row_nodup_of_nodupb {K : Type} (A : CRS K) (h : A.nodupb = true) (c : Nat) : ((A.row c).map (·.1)).Nodup := by
  by_cases hc : c < A.nrows
  · unfold CRS.nodupb at h
    rw [List.all_eq_true] at h
    have := h (A.row c) (A.row_lt_mem c hc)
    unfold CRS.rowNodup at this
    exact of_decide_eq_true this
  · rw [A.row_ge c (by omega)]; exact List.nodup_nil

/-- **what the assembly of row `i` computes**, on an all-`-1` marker, for a well-formed matrix whose rows have no repeated
columns: `J` strictly increasing = the columns of the rows in `I`; `ek = e_i` restricted to `J`; `B(p, q) = a(I[q], J[p])` in
column-major storage; the reset loop restores the marker. -/
theorem spai1Local_spec {K : Type} [AddCommMonoid K] [One K] (A : CRS K) (hA : A.WF) (i : Nat) :
    let P := spai1Local A i (Array.replicate A.ncols (-1))
    P.I = (A.row i).map (·.1) ∧ P.J.Pairwise (· < ·) ∧ (∀ d, d ∈ P.J ↔ d ∈ visited A P.I) ∧ (∀ d ∈ P.J, d < A.ncols) ∧
    P.ek.size = P.J.length ∧ (∀ p (hp : p < P.J.length), P.ek.getD p 0 = if P.J[p] = i then 1 else 0) ∧
    (A.nodupb = true → P.B.size = P.I.length * P.J.length ∧
      ∀ q (hq : q < P.I.length) p (hp : p < P.J.length), P.B.getD (p + P.J.length * q) 0 = A.get P.I[q] P.J[p]) ∧
    P.J.foldl (fun (m : Array Int) c => m.setIfInBounds c (-1)) P.marker = Array.replicate A.ncols (-1) := by
  intro P
  obtain ⟨cinv, cmem⟩ := spai1Collect_spec A hA ((A.row i).map (·.1))
  set cm := spai1Collect A ((A.row i).map (·.1)) (Array.replicate A.ncols (-1)) with hcm
  have hJdef : P.J = sortNat cm.1.toList := rfl
  have hJnd : P.J.Nodup := by rw [hJdef]; exact sortNat_nodup _ cinv.nodup
  have hJmem : ∀ d, d ∈ P.J ↔ d ∈ visited A ((A.row i).map (·.1)) := by
    intro d; rw [hJdef, mem_sortNat]; exact cmem d
  have hJlt : ∀ d ∈ P.J, d < A.ncols := by
    intro d hd; rw [hJdef, mem_sortNat] at hd; exact cinv.lt d hd
  have hix : spai1Index i P.J cm.2 (Array.replicate P.J.length (0 : K))
      = (indexMarker P.J cm.2, indexEk i P.J 0 (Array.replicate P.J.length (0 : K))) := spai1Index_eq _ _ _ _
  have hmk : P.marker = indexMarker P.J cm.2 := by
    show (spai1Index i P.J cm.2 (Array.replicate P.J.length (0 : K))).1 = _
    rw [hix]
  have hek : P.ek = indexEk i P.J 0 (Array.replicate P.J.length (0 : K)) := by
    show (spai1Index i P.J cm.2 (Array.replicate P.J.length (0 : K))).2 = _
    rw [hix]
  obtain ⟨m1, m2, m3⟩ := indexMarker_spec P.J hJnd cm.2 (fun c hc => by rw [cinv.size]; exact hJlt c hc)
  have hOK : IndexOK P.J P.marker := ⟨hJnd, fun p h => by rw [hmk]; exact m2 p h⟩
  obtain ⟨e1, e2⟩ := indexEk_spec i P.J 0 (Array.replicate P.J.length (0 : K))
  have hB : P.B = spai1Fill A P.I P.J.length P.marker (Array.replicate (P.I.length * P.J.length) (0 : K)) := rfl
  have hcov : ∀ c ∈ P.I, ∀ a ∈ A.row c, a.1 ∈ P.J := by
    intro c hc a ha
    rw [hJmem]
    unfold visited
    rw [List.mem_flatMap]
    exact ⟨c, hc, List.mem_map.mpr ⟨a, ha, rfl⟩⟩
  refine ⟨rfl, ?_, hJmem, hJlt, ?_, ?_, ?_, ?_⟩
  · rw [hJdef]; exact sortNat_strict _ cinv.nodup
  · rw [hek, e1]; simp
  · intro p hp
    rw [hek, e2 p]
    simp only [Nat.zero_le, Nat.sub_zero, true_and, Array.size_replicate]
    rw [List.getElem?_eq_getElem hp]
    by_cases h : P.J[p] = i
    · rw [if_pos ⟨by rw [h], hp⟩, if_pos h]
    · rw [if_neg (fun hh => h (Option.some.inj hh.1)), if_neg h]
      simp [Array.getD, hp]
  · intro hnd
    obtain ⟨b1, b2, _⟩ := fillFrom_spec A P.J P.marker hOK P.I 0 hcov (fun c _ => row_nodup_of_nodupb A hnd c)
      (Array.replicate (P.I.length * P.J.length) (0 : K)) (by simp [Nat.mul_comm])
    refine ⟨by rw [hB, spai1Fill_eq, b1]; simp, ?_⟩
    intro q hq p hp
    have := b2 q hq p hp
    rw [Nat.zero_add] at this
    rw [hB, spai1Fill_eq, this]
    unfold CRS.get
    split
    · rfl
    · rename_i hnm
      rw [rowGet_eq_zero_of_not_mem _ _ (fun cv hcv e => hnm (List.mem_map.mpr ⟨cv, hcv, e⟩))]
      have hlt : p + P.J.length * q < P.I.length * P.J.length := by
        calc p + P.J.length * q < P.J.length + P.J.length * q := by omega
          _ = P.J.length * (q + 1) := by rw [Nat.mul_add, Nat.mul_one, Nat.add_comm]
          _ ≤ P.J.length * P.I.length := Nat.mul_le_mul_left _ hq
          _ = P.I.length * P.J.length := Nat.mul_comm _ _
      simp [Array.getD, hlt]
  · obtain ⟨r1, r2, r3⟩ := reset_spec P.J hJnd P.marker (fun c hc => by rw [hmk, m1, cinv.size]; exact hJlt c hc)
    apply ext_getD' (0 : Int)
    · rw [r1, hmk, m1, cinv.size]; simp
    · intro c
      by_cases hcJ : c ∈ P.J
      · rw [r2 c hcJ]
        simp [Array.getD, hJlt c hcJ]
      · rw [r3 c hcJ, hmk, m3 c hcJ]
        by_cases hc : c < A.ncols
        · rw [cinv.mark c hc, if_neg (fun hh => hcJ (by rw [hJdef, mem_sortNat]; exact hh))]
          simp [Array.getD, hc]
        · rw [getD_of_size_le _ _ _ (by rw [cinv.size]; omega), getD_of_size_le _ _ _ (by simp; omega)]

end Relax
end Amgcl
