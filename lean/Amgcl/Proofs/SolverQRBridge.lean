import Amgcl.Proofs.SolverBiCGStabLQR
import Amgcl.Proofs.QRSolve
import Mathlib.Tactic.Ring
import Mathlib.Tactic.Linarith
/-!
Two models of `amgcl::detail::QR<T>::solve` exist: `Model/QR.lean` (`QRModel`, flat buffer with strides — the subject of
the theorems of C16b) and `Model/SolverQR.lean` (`Solver.QR`, a two-dimensional total map with an offset, the one
BiCGStab(L) calls).  This file proves that on a SQUARE `n×n` block, `computed = false`, the second REFINES the first
with the row-major layout (`row_stride = n`, `col_stride = 1`): the solution written to `Y[yo..yo+n)` is the array the
flat model returns (`solve_eq_flat`).  Simulation relation: `Sim` (cell `(o+i, o+j)` ↔ flat cell `i*n + j`).
-/
namespace Amgcl.Solver.QR
open Amgcl Amgcl.Solver
set_option linter.unusedSectionVars false
set_option linter.unusedSimpArgs false
set_option linter.unusedVariables false

variable {K : Type} [Field K] [LinearOrder K] [IsStrictOrderedRing K]

/-- the `n×n` block of `A` starting at `(o,o)`, row-major -/
def flatOf (n o : Nat) (A : FArr2 K) : Array K := Array.ofFn (n := n * n) (fun k => A.get (o + k.val / n) (o + k.val % n))
/-- the first `n` entries of the right-hand side as an array -/
def rhsOf (n : Nat) (b : Nat → K) : Array K := Array.ofFn (n := n) (fun i => b i.val)

theorem cell_lt {n i j : Nat} (hi : i < n) (hj : j < n) : i * n + j < n * n := by
  have : (i + 1) * n ≤ n * n := Nat.mul_le_mul_right n hi
  have : (i + 1) * n = i * n + n := by ring
  omega

theorem cell_inj {n i j i' j' : Nat} (hj : j < n) (hj' : j' < n) (h : i * n + j = i' * n + j') : i = i' ∧ j = j' := by
  have hn : 0 < n := by omega
  have h1 : (i * n + j) / n = i := by rw [Nat.mul_comm, Nat.mul_add_div hn, Nat.div_eq_of_lt hj, Nat.add_zero]
  have h2 : (i' * n + j') / n = i' := by rw [Nat.mul_comm, Nat.mul_add_div hn, Nat.div_eq_of_lt hj', Nat.add_zero]
  have hi : i = i' := by rw [← h1, ← h2, h]
  subst hi
  exact ⟨rfl, by omega⟩

theorem flatOf_size (n o : Nat) (A : FArr2 K) : (flatOf n o A).size = n * n := by simp [flatOf]

theorem flatOf_getD (n o : Nat) (A : FArr2 K) (i j : Nat) (hi : i < n) (hj : j < n) :
    (flatOf n o A).getD (i * n + j) 0 = A.get (o + i) (o + j) := by
  unfold flatOf
  rw [QRModel.getD_ofFn _ _ (cell_lt hi hj)]
  have hn : 0 < n := by omega
  have h1 : (i * n + j) / n = i := by rw [Nat.mul_comm, Nat.mul_add_div hn, Nat.div_eq_of_lt hj, Nat.add_zero]
  have h2 : (i * n + j) % n = j := by rw [Nat.mul_comm, Nat.mul_add_mod, Nat.mod_eq_of_lt hj]
  simp only [h1, h2]

/-- the simulation relation between the flat buffer and the block of the two-dimensional map -/
def Sim (n o : Nat) (a : Array K) (A : FArr2 K) : Prop :=
  a.size = n * n ∧ ∀ i j, i < n → j < n → a.getD (i * n + j) 0 = A.get (o + i) (o + j)

theorem Sim.set {n o : Nat} {a : Array K} {A : FArr2 K} (h : Sim n o a A) (i j : Nat) (hi : i < n) (hj : j < n)
    (x y : K) (hxy : x = y) : Sim n o (a.setIfInBounds (i * n + j) x) (setF2 A (o + i) (o + j) y) := by
  subst hxy
  refine ⟨by rw [Array.size_setIfInBounds]; exact h.1, ?_⟩
  intro i' j' hi' hj'
  rw [setF2_get]
  by_cases hc : i' = i ∧ j' = j
  · obtain ⟨rfl, rfl⟩ := hc
    rw [if_pos ⟨rfl, rfl⟩, Arr2.getD_setIfInBounds_self _ _ _ (by rw [h.1]; exact cell_lt hi hj)]
  · rw [if_neg (by omega), Arr2.getD_setIfInBounds_ne _ _ _ (fun e => hc (by
      obtain ⟨e1, e2⟩ := cell_inj hj hj' e; exact ⟨e1.symm, e2.symm⟩))]
    exact h.2 i' j' hi' hj'

/-- a fold over the same list on both sides keeps a relation that every step keeps -/
theorem foldl_inv2 {α β ι : Type} (I : α → β → Prop) (l : List ι) (f : α → ι → α) (g : β → ι → β)
    (h : ∀ x ∈ l, ∀ a b, I a b → I (f a x) (g b x)) (a : α) (b : β) (hab : I a b) : I (l.foldl f a) (l.foldl g b) := by
  induction l generalizing a b with
  | nil => exact hab
  | cons x t ih =>
    rw [List.foldl_cons, List.foldl_cons]
    exact ih (fun y hy => h y (List.mem_cons_of_mem _ hy)) _ _ (h x List.mem_cons_self a b hab)

theorem absQ_eq_absK (x : K) : QRModel.absQ x = absK x := rfl

theorem drop_one_range (m : Nat) : (List.range m).drop 1 = List.range' 1 (m - 1) := by
  rw [List.range_eq_range', List.drop_range']

/-! ### `gen_reflector` -/

theorem genReflector_sim (sqrt : K → K) (n o i : Nat) (a : Array K) (A : FArr2 K) (h : Sim n o a A) (hi : i < n) :
    (QRModel.genReflector sqrt (n - i) a (i * (n + 1)) (i * (n + 1) + n) n).1 = (genReflector sqrt (n - i) A (o + i) (o + i)).1 ∧
    Sim n o (QRModel.genReflector sqrt (n - i) a (i * (n + 1)) (i * (n + 1) + n) n).2 (genReflector sqrt (n - i) A (o + i) (o + i)).2 := by
  have hcell : ∀ l, i * (n + 1) + n + l * n = (i + 1 + l) * n + i := fun l => by ring
  have hai : i * (n + 1) = i * n + i := by ring
  have hread : ∀ (a' : Array K) (A' : FArr2 K), Sim n o a' A' → ∀ l, l < n - i - 1 →
      a'.getD (i * (n + 1) + n + l * n) 0 = A'.get (o + i + 1 + l) (o + i) := by
    intro a' A' h' l hl
    rw [hcell, h'.2 (i + 1 + l) i (by omega) hi]
    congr 1; omega
  unfold QRModel.genReflector genReflector
  by_cases h1 : n - i ≤ 1
  · simp only [if_pos h1]; exact ⟨by first | rfl | trivial, h⟩
  · simp only [if_neg h1]
    have hx : (List.range (n - i - 1)).foldl (fun s l => s + QRModel.sqrQ (QRModel.absQ (a.getD (i * (n + 1) + n + l * n) 0))) 0
        = (List.range (n - i - 1)).foldl (fun acc t => acc + sqr (absK (A.get (o + i + 1 + t) (o + i)))) 0 := by
      apply foldl_range_congr
      intro l hl s
      rw [hread a A h l hl]; rfl
    rw [hx]
    split
    · exact ⟨by first | rfl | trivial, h⟩
    · have hal : a.getD (i * (n + 1)) 0 = A.get (o + i) (o + i) := by rw [hai]; exact h.2 i i hi hi
      simp only [hal, inv1, QRModel.sqrQ, sqr, absQ_eq_absK]
      refine ⟨trivial, ?_⟩
      rw [hai]
      apply Sim.set _ i i hi hi _ _ rfl
      apply foldl_inv2 (Sim n o)
      · intro l hl a' A' h'
        have hl' := List.mem_range.mp hl
        have e1 : i * n + i + n + l * n = (i + 1 + l) * n + i := by ring
        have e2 : o + i + 1 + l = o + (i + 1 + l) := by omega
        rw [e1, e2]
        exact Sim.set h' (i + 1 + l) i (by omega) hi _ _ (by rw [h'.2 (i + 1 + l) i (by omega) hi])
      · exact h

/-! ### `apply_reflector` on the trailing columns of the matrix -/

/-- the invariant of the column loop: the buffers correspond and column `i` (the Householder vector) of the map still
holds what the unchanged buffer `V` holds -/
def SimV (n o i : Nat) (V : Array K) (C : Array K) (A : FArr2 K) : Prop :=
  Sim n o C A ∧ ∀ r, r < n → V.getD (r * n + i) 0 = A.get (o + r) (o + i)

theorem SimV.set {n o i : Nat} {V C : Array K} {A : FArr2 K} (h : SimV n o i V C A) (r c : Nat) (hr : r < n) (hc : c < n)
    (hci : c ≠ i) (x y : K) (hxy : x = y) :
    SimV n o i V (C.setIfInBounds (r * n + c) x) (setF2 A (o + r) (o + c) y) :=
  ⟨h.1.set r c hr hc x y hxy, fun r' hr' => by
    rw [setF2_other_col _ _ _ _ _ _ (by omega)]; exact h.2 r' hr'⟩

theorem applyRefl_sim (n o i : Nat) (tau : K) (V C : Array K) (A : FArr2 K) (hi : i < n) (h : SimV n o i V C A) :
    SimV n o i V (QRModel.applyReflector (n - i) (n - i - 1) V (i * (n + 1)) n tau C (i * (n + 1) + 1) n 1)
      (applyReflMat (n - i) (n - i - 1) (o + i) (o + i) tau A (o + i) (o + i + 1)) := by
  rw [QRModel.applyReflector_unfold]
  unfold applyReflMat
  by_cases ht : tau = 0
  · rw [if_pos ht, if_pos ht]; exact h
  rw [if_neg ht, if_neg ht]
  apply foldl_inv2 (SimV n o i V) _ _ _ _ _ _ h
  intro c hc C' A' h'
  have hc' := List.mem_range.mp hc
  have ecell : ∀ j, i * (n + 1) + 1 + c * 1 + j * n = (i + j) * n + (i + 1 + c) := fun j => by ring
  have evcell : ∀ j, i * (n + 1) + j * n = (i + j) * n + i := fun j => by ring
  have erow : ∀ j, o + i + j = o + (i + j) := fun j => by omega
  have ecol : o + i + 1 + c = o + (i + 1 + c) := by omega
  have e0 : i * (n + 1) + 1 + c * 1 = i * n + (i + 1 + c) := by ring
  have hC0 : C'.getD (i * (n + 1) + 1 + c * 1) 0 = A'.get (o + i) (o + i + 1 + c) := by
    rw [e0, ecol]; exact h'.1.2 i (i + 1 + c) hi (by omega)
  unfold QRModel.applyCol
  simp only []
  rw [drop_one_range]
  -- the dot product
  have hs : (List.range' 1 (n - i - 1)).foldl
        (fun s j => s + C'.getD (i * (n + 1) + 1 + c * 1 + j * n) 0 * V.getD (i * (n + 1) + j * n) 0)
        (C'.getD (i * (n + 1) + 1 + c * 1) 0)
      = (List.range' 1 (n - i - 1)).foldl
        (fun s j => s + A'.get (o + i + j) (o + i + 1 + c) * A'.get (o + i + j) (o + i)) (A'.get (o + i) (o + i + 1 + c)) := by
    rw [hC0]
    apply foldl_mem_congr
    intro j hj s
    have hj' := List.mem_range'_1.mp hj
    rw [ecell, evcell, ecol, erow j, h'.1.2 (i + j) (i + 1 + c) (by omega) (by omega), h'.2 (i + j) (by omega)]
  rw [hs, hC0]
  apply foldl_inv2 (SimV n o i V)
  · intro j hj C'' A'' h''
    have hj' := List.mem_range'_1.mp hj
    rw [ecell, evcell, ecol, erow j]
    exact h''.set (i + j) (i + 1 + c) (by omega) (by omega) (by omega) _ _
      (by rw [h''.1.2 (i + j) (i + 1 + c) (by omega) (by omega), h''.2 (i + j) (by omega)])
  · rw [e0, ecol]
    exact h'.set i (i + 1 + c) hi (by omega) (by omega) _ _ rfl

/-! ### `compute` -/

theorem foldl_range_inv2 {α β : Type} (I : Nat → α → β → Prop) (f : α → Nat → α) (g : β → Nat → β) (m : Nat)
    (h : ∀ i, i < m → ∀ a b, I i a b → I (i + 1) (f a i) (g b i)) (a : α) (b : β) (hab : I 0 a b) :
    I m ((List.range m).foldl f a) ((List.range m).foldl g b) := by
  induction m with
  | zero => exact hab
  | succ k ih =>
    rw [List.range_succ, List.foldl_append, List.foldl_append]
    exact h k (Nat.lt_succ_self k) _ _ (ih (fun i hi => h i (Nat.lt_succ_of_lt hi)))

/-- the state of the loop of `compute` after `m` steps -/
def SimC (n o m : Nat) (st : Array K × Array K) (St : FArr2 K × FArr K) : Prop :=
  Sim n o st.1 St.1 ∧ st.2.size = n ∧ ∀ t, t < m → st.2.getD t 0 = St.2.get t

theorem compute_sim (sqrt : K → K) (n o : Nat) (hn : 0 < n) (a tau0 : Array K) (A : FArr2 K) (tau : FArr K)
    (h : Sim n o a A) :
    SimC n o n (QRModel.computeS sqrt n n n 1 a tau0) (compute sqrt n n o A tau) := by
  unfold QRModel.computeS compute
  simp only [Nat.min_self]
  rw [if_neg (by omega)]
  apply foldl_range_inv2 (SimC n o)
  · intro i hi st St hI
    obtain ⟨h1, h2, h3⟩ := hI
    obtain ⟨g1, g2⟩ := genReflector_sim sqrt n o i st.1 St.1 h1 hi
    generalize hga : QRModel.genReflector sqrt (n - i) st.1 (i * (n + 1)) (i * (n + 1) + n) n = ga at g1 g2
    generalize hgA : genReflector sqrt (n - i) St.1 (o + i) (o + i) = gA at g1 g2
    obtain ⟨ta, Aa⟩ := ga
    simp only at g1 g2
    have htau : (st.2.setIfInBounds i ta).getD i 0 = (setF St.2 i gA.1).get i := by
      rw [Arr2.getD_setIfInBounds_self _ _ _ (by omega), setF_same, g1]
    simp only [hga]
    refine ⟨?_, by rw [Array.size_setIfInBounds]; exact h2, ?_⟩
    · show Sim n o (if i + 1 < n then _ else _) (if i + 1 < n then _ else _)
      by_cases hc : i + 1 < n
      · rw [if_pos hc, if_pos hc, htau]
        exact (applyRefl_sim n o i _ Aa Aa gA.2 hi ⟨g2, fun r hr => g2.2 r i hr hi⟩).1
      · rw [if_neg hc, if_neg hc]; exact g2
    · intro t ht
      show (st.2.setIfInBounds i ta).getD t 0 = (setF St.2 i gA.1).get t
      by_cases hti : t = i
      · subst hti; exact htau
      · rw [Arr2.getD_setIfInBounds_ne _ _ _ (fun e => hti e.symm), setF_other _ _ _ _ hti]
        exact h3 t (by omega)
  · exact ⟨h, by simp [QRModel.resizeZ], fun t ht => by omega⟩

/-! ### `solve` -/

/-- a flat vector and the cells `[off, off+n)` of a map-modelled array hold the same numbers -/
def SimA (n off : Nat) (x : Array K) (Y : FArr K) : Prop := x.size = n ∧ ∀ t, t < n → x.getD t 0 = Y.get (off + t)

theorem SimA.set {n off : Nat} {x : Array K} {Y : FArr K} (h : SimA n off x Y) (t : Nat) (ht : t < n) (u v : K)
    (huv : u = v) : SimA n off (x.setIfInBounds t u) (setF Y (off + t) v) := by
  subst huv
  refine ⟨by rw [Array.size_setIfInBounds]; exact h.1, fun t' ht' => ?_⟩
  by_cases e : t' = t
  · subst e; rw [Arr2.getD_setIfInBounds_self _ _ _ (by rw [h.1]; exact ht'), setF_same]
  · rw [Arr2.getD_setIfInBounds_ne _ _ _ (fun c => e c.symm), setF_other _ _ _ _ (by omega)]
    exact h.2 t' ht'

theorem foldl_setF_shift (g : Nat → K) (off m : Nat) (Y : FArr K) (k : Nat) :
    ((List.range m).foldl (fun (Y : FArr K) t => setF Y (off + t) (g t)) Y).get (off + k)
      = if k < m then g k else Y.get (off + k) := by
  induction m with
  | zero => simp
  | succ j ih =>
    rw [List.range_succ, List.foldl_append]
    simp only [List.foldl_cons, List.foldl_nil, setF_get]
    by_cases e : k = j
    · subst e; simp
    · rw [if_neg (by omega), ih]
      by_cases c : k < j
      · rw [if_pos c, if_pos (by omega)]
      · rw [if_neg c, if_neg (by omega)]

/-- one reflector applied to the right-hand side -/
theorem applyReflVec_sim (n o i : Nat) (tau : K) (a : Array K) (A : FArr2 K) (h : Sim n o a A) (hi : i < n)
    (f : Array K) (F : FArr K) (hf : SimA n 0 f F) :
    SimA n 0 (QRModel.applyReflector (n - i) 1 a (i * (n + 1)) n tau f i 1 1) (applyReflVec (n - i) A (o + i) (o + i) tau F i) := by
  rw [QRModel.applyReflector_unfold]
  unfold applyReflVec
  by_cases ht : tau = 0
  · rw [if_pos ht, if_pos ht]; exact hf
  rw [if_neg ht, if_neg ht]
  simp only [List.range_one, List.foldl_cons, List.foldl_nil]
  unfold QRModel.applyCol
  simp only []
  rw [drop_one_range]
  have ev : ∀ j, i * (n + 1) + j * n = (i + j) * n + i := fun j => by ring
  have ef : ∀ (f' : Array K) (F' : FArr K), SimA n 0 f' F' → ∀ j, j < n - i → f'.getD (i + 0 * 1 + j * 1) 0 = F'.get (i + j) := by
    intro f' F' h' j hj
    rw [show i + 0 * 1 + j * 1 = i + j by ring, h'.2 (i + j) (by omega), Nat.zero_add]
  have ef0 : f.getD (i + 0 * 1) 0 = F.get i := by
    rw [show i + 0 * 1 = i by ring, hf.2 i hi, Nat.zero_add]
  have hs : (List.range' 1 (n - i - 1)).foldl
        (fun s j => s + f.getD (i + 0 * 1 + j * 1) 0 * a.getD (i * (n + 1) + j * n) 0) (f.getD (i + 0 * 1) 0)
      = (List.range' 1 (n - i - 1)).foldl (fun s j => s + F.get (i + j) * A.get (o + i + j) (o + i)) (F.get i) := by
    rw [ef0]
    apply foldl_mem_congr
    intro j hj s
    have hj' := List.mem_range'_1.mp hj
    rw [ef f F hf j (by omega), ev, h.2 (i + j) i (by omega) hi, show o + (i + j) = o + i + j by omega]
  rw [hs, ef0]
  apply foldl_inv2 (SimA n 0)
  · intro j hj f' F' h'
    have hj' := List.mem_range'_1.mp hj
    rw [ef f' F' h' j (by omega), ev, h.2 (i + j) i (by omega) hi, show i + 0 * 1 + j * 1 = i + j by ring,
      show o + (i + j) = o + i + j by omega]
    have := h'.set (i + j) (by omega) (F'.get (i + j) - A.get (o + i + j) (o + i) *
      (tau * (List.range' 1 (n - i - 1)).foldl (fun s j => s + F.get (i + j) * A.get (o + i + j) (o + i)) (F.get i))) _ rfl
    rw [Nat.zero_add] at this
    exact this
  · rw [show i + 0 * 1 = i by ring]
    have := hf.set i hi (F.get i - tau * (List.range' 1 (n - i - 1)).foldl
      (fun s j => s + F.get (i + j) * A.get (o + i + j) (o + i)) (F.get i)) _ rfl
    rw [Nat.zero_add] at this
    exact this

/-- **`Solver.QR.solve` refines `QRModel.solveS`** on a square block (row-major layout, `computed = false`): the cells
`Y[yo..yo+n)` hold the solution vector the flat model returns — for ANY incoming object states on both sides -/
theorem solve_sim (sqrt : K → K) (n o : Nat) (hn : 0 < n) (a : Array K) (A : FArr2 K) (h : Sim n o a A)
    (bb : Array K) (b : Nat → K) (hb : ∀ t, t < n → bb.getD t 0 = b t) (ob : QRModel.Obj K) (q : QRSt K) (Y : FArr K)
    (yo : Nat) :
    SimA n yo (QRModel.solveS sqrt n n n 1 a bb ob).1 (solve sqrt n n o A q b Y yo false).2.2 := by
  rw [QRModel.solveS_tall sqrt n n n 1 a bb ob (Nat.le_refl n)]
  unfold solve
  simp only [Bool.false_eq_true, if_false]
  obtain ⟨c1, c2, c3⟩ := compute_sim sqrt n o hn a ob.tau A q.tau h
  generalize QRModel.computeS sqrt n n n 1 a ob.tau = ca at c1 c2 c3
  generalize compute sqrt n n o A q.tau = cA at c1 c2 c3
  -- the right-hand side loaded into `f`
  obtain ⟨l1, l2⟩ := QRModel.loadF_spec n bb (QRModel.resizeZ ob.f n) (by simp [QRModel.resizeZ])
  have hf0 : SimA n 0 (QRModel.loadF n bb (QRModel.resizeZ ob.f n))
      ((List.range n).foldl (fun (f : FArr K) t => setF f t (b t)) q.f) := by
    refine ⟨l1, fun t ht => ?_⟩
    rw [l2 t ht, hb t ht, Nat.zero_add]
    have := Amgcl.Solver.BiCGStabL.foldl_setF_range (fun i _ => b i) n q.f t
    rw [if_pos ht] at this
    exact this.symm
  -- the reflectors
  have hf : SimA n 0 ((List.range n).foldl (QRModel.applyQtStep n n 1 ca.1 ca.2) (QRModel.loadF n bb (QRModel.resizeZ ob.f n)))
      ((List.range n).foldl (fun f i => applyReflVec (n - i) cA.1 (o + i) (o + i) (cA.2.get i) f i)
        ((List.range n).foldl (fun (f : FArr K) t => setF f t (b t)) q.f)) := by
    apply foldl_inv2 (SimA n 0) _ _ _ _ _ _ hf0
    intro i hi f F hfF
    have hi' := List.mem_range.mp hi
    unfold QRModel.applyQtStep
    rw [c3 i hi']
    exact applyReflVec_sim n o i _ ca.1 cA.1 c1 hi' f F hfF
  generalize (List.range n).foldl (QRModel.applyQtStep n n 1 ca.1 ca.2) (QRModel.loadF n bb (QRModel.resizeZ ob.f n)) = fa at hf
  generalize (List.range n).foldl (fun f i => applyReflVec (n - i) cA.1 (o + i) (o + i) (cA.2.get i) f i)
        ((List.range n).foldl (fun (f : FArr K) t => setF f t (b t)) q.f) = fA at hf
  -- x := f[0..n)
  have hx0 : SimA n yo (Array.ofFn (n := n) (fun i => fa.getD i.val 0))
      ((List.range n).foldl (fun (Y : FArr K) t => setF Y (yo + t) (fA.get t)) Y) := by
    refine ⟨by simp, fun t ht => ?_⟩
    rw [QRModel.getD_ofFn _ _ ht, foldl_setF_shift, if_pos ht, hf.2 t ht, Nat.zero_add]
  -- back substitution
  apply foldl_inv2 (SimA n yo) _ _ _ _ _ _ hx0
  intro i hi x X hxX
  have hi' : i < n := List.mem_range.mp (List.mem_reverse.mp hi)
  unfold QRModel.backStep
  simp only []
  have hr : ca.1.getD (i * (n + 1)) 0 = cA.1.get (o + i) (o + i) := by
    rw [show i * (n + 1) = i * n + i by ring]; exact c1.2 i i hi' hi'
  rw [hr]
  by_cases hz : cA.1.get (o + i) (o + i) = 0
  · rw [if_pos hz, if_pos hz]; exact hxX
  rw [if_neg hz, if_neg hz]
  apply foldl_inv2 (SimA n yo)
  · intro j hj x' X' h'
    have hj' := List.mem_range.mp hj
    rw [show i * 1 + j * n = j * n + i by ring, c1.2 j i (by omega) hi']
    exact h'.set j (by omega) _ _ (by rw [h'.2 j (by omega), h'.2 i hi'])
  · exact hxX.set i hi' _ _ (by rw [hxX.2 i hi']; rfl)

theorem flatOf_sim (n o : Nat) (A : FArr2 K) : Sim n o (flatOf n o A) A :=
  ⟨flatOf_size n o A, fun i j hi hj => flatOf_getD n o A i j hi hj⟩

/-- the form used by the BiCGStab(L) theorems -/
theorem solve_eq_flat (sqrt : K → K) (n o : Nat) (A : FArr2 K) (q : QRSt K) (b : Nat → K) (Y : FArr K) (yo t : Nat)
    (ht : t < n) :
    (solve sqrt n n o A q b Y yo false).2.2.get (yo + t)
      = (QRModel.solveS sqrt n n n 1 (flatOf n o A) (rhsOf n b) QRModel.Obj.fresh).1.getD t 0 :=
  ((solve_sim sqrt n o (by omega) (flatOf n o A) A (flatOf_sim n o A) (rhsOf n b) b
    (fun t ht => by unfold rhsOf; rw [QRModel.getD_ofFn _ _ ht]) QRModel.Obj.fresh q Y yo).2 t ht).symm

end Amgcl.Solver.QR
