import Mathlib.Algebra.Module.LinearMap.Defs
import Mathlib.Algebra.Module.LinearMap.End
import Mathlib.LinearAlgebra.BilinearMap
import Mathlib.LinearAlgebra.Span.Defs
import Mathlib.Algebra.Order.Field.Basic
import Mathlib.Tactic.Ring
import Mathlib.Tactic.Abel
import Mathlib.Tactic.Push
import Mathlib.Tactic.Linarith
import Mathlib.Tactic.FieldSimp
/-!
# The preconditioned conjugate-gradient recurrence over an abstract vector space (C05)

`CGData 𝕜 V` bundles two linear maps `A P : V →ₗ V`, a bilinear form `B`, an initial guess `x0` and an initial residual
`r0`.  `CGData.st` is the recurrence exactly in the order cg.hpp:181-199 executes it (division total, `x/0 = 0`):

    z_k = P r_k;  ρ_k = ⟨r_k, z_k⟩;  p_0 = z_0,  p_k = z_k + (ρ_k/ρ_{k-1}) p_{k-1};
    q_k = A p_k;  α_k = ρ_k / ⟨q_k, p_k⟩;  x_{k+1} = x_k + α_k p_k;  r_{k+1} = r_k − α_k q_k.

For a symmetric form, `A` and `P` self-adjoint and NO breakdown before step `k` (`ρ_i ≠ 0`, `⟨q_i,p_i⟩ ≠ 0`, `i < k`):

* `conj_of_noBreakdown`  `⟨r_j, P r_i⟩ = 0`, `⟨r_j, p_i⟩ = 0`, `⟨p_j, A p_i⟩ = 0` for `i < j ≤ k`   (any field);
* `energy_min`           for `⟨A v, v⟩ ≥ 0` and `r0 = A (x* − x0)`: `⟨A(x* − x_k), x* − x_k⟩ ≤ ⟨A(x* − y), x* − y⟩` for
                         every `y ∈ x0 + span{p_0..p_{k-1}}`, and `x_k` lies in that affine space;
* `spanP_eq_krylov`      `span{p_0..p_{k-1}} = span{(PA)^i P r0 : i < k}`;
* `noBreakdown_of_definite`  if `⟨v, P v⟩ = 0 → v = 0`, `⟨A v, v⟩ = 0 → v = 0` then there is no breakdown as long as the
                         residuals are non-zero;
* `r_stationary`         once `r_k = 0` the recurrence is stationary (total division: `α = 0/0 = 0`).

Finite termination is in `KrylovCGTerm.lean`.
-/
namespace Amgcl.Krylov

/-- the loop-carried state before pass `k`: `x_k`, `r_k`, and `p_{k-1}`, `ρ_{k-1}` of the previous pass -/
structure CGSt (𝕜 V : Type*) where
  x : V
  r : V
  p : V
  rho : 𝕜

structure CGData (𝕜 V : Type*) [Field 𝕜] [AddCommGroup V] [Module 𝕜 V] where
  A : V →ₗ[𝕜] V
  P : V →ₗ[𝕜] V
  B : V →ₗ[𝕜] V →ₗ[𝕜] 𝕜
  x0 : V
  r0 : V

namespace CGData
variable {𝕜 V : Type*} [Field 𝕜] [AddCommGroup V] [Module 𝕜 V] (c : CGData 𝕜 V)

/-- one pass of cg.hpp:181-199 (pass number `k`, `k = 0` is the `copy` branch) -/
def next (k : ℕ) (s : CGSt 𝕜 V) : CGSt 𝕜 V :=
  let z := c.P s.r
  let rho := c.B s.r z
  let p := if k = 0 then z else z + (rho / s.rho) • s.p
  let α := rho / c.B (c.A p) p
  ⟨s.x + α • p, s.r - α • c.A p, p, rho⟩

/-- the state before pass `k` -/
def st : ℕ → CGSt 𝕜 V
  | 0 => ⟨c.x0, c.r0, 0, 0⟩
  | k + 1 => c.next k (st k)

def x (k : ℕ) : V := (c.st k).x
def r (k : ℕ) : V := (c.st k).r
def z (k : ℕ) : V := c.P (c.r k)
def rho (k : ℕ) : 𝕜 := c.B (c.r k) (c.z k)
def p (k : ℕ) : V := (c.st (k + 1)).p
def q (k : ℕ) : V := c.A (c.p k)
def d (k : ℕ) : 𝕜 := c.B (c.q k) (c.p k)
def alpha (k : ℕ) : 𝕜 := c.rho k / c.d k
def beta (k : ℕ) : 𝕜 := c.rho (k + 1) / c.rho k

theorem x_zero : c.x 0 = c.x0 := rfl
theorem r_zero : c.r 0 = c.r0 := rfl
theorem st_rho (k : ℕ) : (c.st (k + 1)).rho = c.rho k := rfl
theorem p_zero : c.p 0 = c.z 0 := rfl
theorem p_succ (k : ℕ) : c.p (k + 1) = c.z (k + 1) + c.beta k • c.p k := by
  show (c.next (k + 1) (c.st (k + 1))).p = _
  simp only [next, Nat.succ_ne_zero, if_false]
  rfl
theorem x_succ (k : ℕ) : c.x (k + 1) = c.x k + c.alpha k • c.p k := rfl
theorem r_succ (k : ℕ) : c.r (k + 1) = c.r k - c.alpha k • c.q k := rfl

/-- the hypotheses on the form and the two operators -/
structure Symm : Prop where
  B : ∀ u v, c.B u v = c.B v u
  A : ∀ u v, c.B (c.A u) v = c.B u (c.A v)
  P : ∀ u v, c.B (c.P u) v = c.B u (c.P v)

/-- no breakdown before step `k`: the two denominators of the passes `0..k-1` are non-zero -/
def NoBreakdown (k : ℕ) : Prop := ∀ i, i < k → c.rho i ≠ 0 ∧ c.d i ≠ 0

theorem NoBreakdown.mono {c : CGData 𝕜 V} {k m : ℕ} (h : c.NoBreakdown k) (hm : m ≤ k) : c.NoBreakdown m :=
  fun i hi => h i (lt_of_lt_of_le hi hm)

/-- the orthogonality relations up to index `k` -/
def Conj (k : ℕ) : Prop :=
  ∀ i j, i < j → j ≤ k → c.B (c.r j) (c.z i) = 0 ∧ c.B (c.r j) (c.p i) = 0 ∧ c.B (c.p j) (c.q i) = 0

/-- `z_i` in terms of the search directions -/
theorem z_eq_p (i : ℕ) : c.z i = if i = 0 then c.p 0 else c.p i - c.beta (i - 1) • c.p (i - 1) := by
  cases i with
  | zero => simp [p_zero]
  | succ i => simp [p_succ]

/-- `⟨r_j, p_j⟩ = ρ_j` -/
theorem rp_self {k : ℕ} (hc : c.Conj k) (j : ℕ) (hj : j ≤ k) : c.B (c.r j) (c.p j) = c.rho j := by
  cases j with
  | zero => rfl
  | succ j =>
    rw [p_succ, map_add, map_smul, (hc j (j + 1) (Nat.lt_succ_self j) hj).2.1]
    simp [rho]

theorem alpha_ne {k : ℕ} (h : c.NoBreakdown k) (i : ℕ) (hi : i < k) : c.alpha i ≠ 0 :=
  div_ne_zero (h i hi).1 (h i hi).2

/-- **conjugacy**: without breakdown before step `k`, for `i < j ≤ k`: `⟨r_j, P r_i⟩ = 0`, `⟨r_j, p_i⟩ = 0`,
`⟨p_j, A p_i⟩ = 0` -/
theorem conj_of_noBreakdown (hs : c.Symm) : ∀ k, c.NoBreakdown k → c.Conj k := by
  intro k
  induction k with
  | zero => intro _ i j hij hj; omega
  | succ k ih =>
    intro hnb
    have hck : c.Conj k := ih (hnb.mono (Nat.le_succ k))
    obtain ⟨hrho, hd⟩ := hnb k (Nat.lt_succ_self k)
    -- (2) the new residual is orthogonal to every search direction
    have h2 : ∀ i, i ≤ k → c.B (c.r (k + 1)) (c.p i) = 0 := by
      intro i hi
      rw [r_succ, map_sub, map_smul, LinearMap.sub_apply, LinearMap.smul_apply, smul_eq_mul]
      rcases Nat.lt_or_ge i k with hik | hik
      · have h := hck i k hik (Nat.le_refl k)
        have e : c.B (c.q k) (c.p i) = 0 := by
          show c.B (c.A (c.p k)) (c.p i) = 0
          rw [hs.A]; exact h.2.2
        rw [h.2.1, e]; ring
      · have hik' : i = k := by omega
        subst hik'
        rw [c.rp_self hck i (Nat.le_refl i)]
        show c.rho i - c.rho i / c.d i * c.d i = 0
        field_simp
        ring
    -- (1) … and to every preconditioned residual
    have h1 : ∀ i, i ≤ k → c.B (c.r (k + 1)) (c.z i) = 0 := by
      intro i hi
      rw [z_eq_p]
      cases i with
      | zero => simpa using h2 0 hi
      | succ i =>
        simp only [Nat.succ_ne_zero, if_false, Nat.add_sub_cancel, map_sub, map_smul, smul_eq_mul]
        rw [h2 (i + 1) hi, h2 i (by omega)]; ring
    -- (3) the new direction is conjugate to the old ones
    have h3 : ∀ i, i ≤ k → c.B (c.p (k + 1)) (c.q i) = 0 := by
      intro i hi
      have hα : c.alpha i ≠ 0 := c.alpha_ne hnb i (by omega)
      -- α_i · ⟨z_{k+1}, q_i⟩ = ⟨r_{k+1}, z_i⟩ − ⟨r_{k+1}, z_{i+1}⟩
      have key : c.alpha i * c.B (c.z (k + 1)) (c.q i) = c.B (c.r (k + 1)) (c.z i) - c.B (c.r (k + 1)) (c.z (i + 1)) := by
        have e1 : c.alpha i • c.P (c.q i) = c.z i - c.z (i + 1) := by
          show _ = c.P (c.r i) - c.P (c.r (i + 1))
          rw [r_succ, map_sub, map_smul]; abel
        show c.alpha i * c.B (c.P (c.r (k + 1))) (c.q i) = _
        rw [hs.P, ← smul_eq_mul, ← map_smul, e1, map_sub]
      rw [p_succ, map_add, map_smul, LinearMap.add_apply, LinearMap.smul_apply, smul_eq_mul]
      rcases Nat.lt_or_ge i k with hik | hik
      · rw [h1 i hi, h1 (i + 1) (by omega), sub_zero] at key
        have e0 : c.B (c.z (k + 1)) (c.q i) = 0 := by
          rcases mul_eq_zero.mp key with h | h
          · exact absurd h hα
          · exact h
        rw [e0, (hck i k hik (Nat.le_refl k)).2.2]; ring
      · have hik' : i = k := by omega
        subst hik'
        have e0 : c.B (c.r (i + 1)) (c.z (i + 1)) = c.rho (i + 1) := rfl
        rw [h1 i hi, e0, zero_sub] at key
        have e2 : c.B (c.p i) (c.q i) = c.d i := by rw [hs.B]; rfl
        have e3 : c.B (c.z (i + 1)) (c.q i) = -c.rho (i + 1) / c.alpha i := by
          rw [eq_div_iff hα, mul_comm]; exact key
        rw [e2, e3]
        show -c.rho (i + 1) / (c.rho i / c.d i) + c.rho (i + 1) / c.rho i * c.d i = 0
        field_simp
        ring
    intro i j hij hj
    rcases Nat.lt_or_ge j (k + 1) with hjk | hjk
    · exact hck i j hij (by omega)
    · have hjk' : j = k + 1 := by omega
      subst hjk'
      exact ⟨h1 i (by omega), h2 i (by omega), h3 i (by omega)⟩

/-- the symmetric form of the residual orthogonality: `⟨r_i, P r_j⟩ = 0` for `i ≠ j`, both `≤ k` -/
theorem r_orthogonal (hs : c.Symm) {k : ℕ} (hnb : c.NoBreakdown k) (i j : ℕ) (hi : i ≤ k) (hj : j ≤ k)
    (hij : i ≠ j) : c.B (c.r i) (c.P (c.r j)) = 0 := by
  have hc := c.conj_of_noBreakdown hs k hnb
  rcases Nat.lt_or_gt_of_ne hij with h | h
  · rw [← hs.P, hs.B]; exact (hc i j h hj).1
  · exact (hc j i h hi).1

/-- the symmetric form of the conjugacy of the directions: `⟨p_i, A p_j⟩ = 0` for `i ≠ j`, both `≤ k` -/
theorem p_conjugate (hs : c.Symm) {k : ℕ} (hnb : c.NoBreakdown k) (i j : ℕ) (hi : i ≤ k) (hj : j ≤ k)
    (hij : i ≠ j) : c.B (c.p i) (c.A (c.p j)) = 0 := by
  have hc := c.conj_of_noBreakdown hs k hnb
  rcases Nat.lt_or_gt_of_ne hij with h | h
  · rw [← hs.A, hs.B]; exact (hc i j h hj).2.2
  · exact (hc j i h hi).2.2

/-! ### the iterate as a sum, the residual as `A (x* − x_k)` -/

/-- the span of the first `k` search directions -/
def spanP (k : ℕ) : Submodule 𝕜 V := Submodule.span 𝕜 (c.p '' Set.Iio k)

theorem p_mem_spanP {i k : ℕ} (h : i < k) : c.p i ∈ c.spanP k :=
  Submodule.subset_span ⟨i, h, rfl⟩

theorem spanP_mono {k m : ℕ} (h : k ≤ m) : c.spanP k ≤ c.spanP m :=
  Submodule.span_mono (Set.image_mono (fun _ hi => lt_of_lt_of_le hi h))

/-- `x_k ∈ x0 + span{p_0..p_{k-1}}` -/
theorem x_sub_mem (k : ℕ) : c.x k - c.x0 ∈ c.spanP k := by
  induction k with
  | zero => simp [x_zero]
  | succ k ih =>
    have e : c.x (k + 1) - c.x0 = (c.x k - c.x0) + c.alpha k • c.p k := by rw [x_succ]; abel
    rw [e]
    exact Submodule.add_mem _ (c.spanP_mono (Nat.le_succ k) ih)
      (Submodule.smul_mem _ _ (c.p_mem_spanP (Nat.lt_succ_self k)))

/-- the carried residual is the true one: if `r0 = A (x* − x0)` then `r_k = A (x* − x_k)` -/
theorem r_eq (xs : V) (h0 : c.r0 = c.A (xs - c.x0)) (k : ℕ) : c.r k = c.A (xs - c.x k) := by
  induction k with
  | zero => exact h0
  | succ k ih =>
    rw [r_succ, x_succ, ih]
    show _ - c.alpha k • c.A (c.p k) = _
    rw [← map_smul, ← map_sub]; congr 1; abel

/-- the new residual is orthogonal to the whole span of the directions so far -/
theorem r_orth_spanP {k : ℕ} (hc : c.Conj k) (v : V) (hv : v ∈ c.spanP k) : c.B (c.r k) v = 0 := by
  induction hv using Submodule.span_induction with
  | mem v hv =>
    obtain ⟨i, hi, rfl⟩ := hv
    exact (hc i k hi (Nat.le_refl k)).2.1
  | zero => simp
  | add u w _ _ hu hw => rw [map_add, hu, hw, add_zero]
  | smul a u _ hu => rw [map_smul, hu, smul_zero]

/-- the energy (squared `A`-norm) of a vector -/
def energy (e : V) : 𝕜 := c.B (c.A e) e

theorem energy_sub (hs : c.Symm) (e v : V) :
    c.energy (e - v) = c.energy e - (1 + 1) * c.B (c.A e) v + c.energy v := by
  unfold energy
  have e1 : c.B (c.A v) e = c.B (c.A e) v := by rw [hs.A, hs.B]
  simp only [map_sub, LinearMap.sub_apply, e1]
  ring

section ordered
variable [LinearOrder 𝕜] [IsStrictOrderedRing 𝕜]

/-- **CG minimises the energy norm of the error**: for a positive semi-definite `A` (`⟨A v, v⟩ ≥ 0`), a solution
`x*` (`r0 = A (x* − x0)`), no breakdown before step `k`: among all `y ∈ x0 + span{p_0..p_{k-1}}` the `k`-th iterate
has the smallest `⟨A (x* − y), x* − y⟩`. -/
theorem energy_min (hs : c.Symm) (hpos : ∀ v, 0 ≤ c.energy v) (xs : V) (h0 : c.r0 = c.A (xs - c.x0)) {k : ℕ}
    (hnb : c.NoBreakdown k) (y : V) (hy : y - c.x0 ∈ c.spanP k) :
    c.energy (xs - c.x k) ≤ c.energy (xs - y) := by
  have hc := c.conj_of_noBreakdown hs k hnb
  have hd : y - c.x k ∈ c.spanP k := by
    have e : y - c.x k = (y - c.x0) - (c.x k - c.x0) := by abel
    rw [e]; exact Submodule.sub_mem _ hy (c.x_sub_mem k)
  have e : xs - y = (xs - c.x k) - (y - c.x k) := by abel
  rw [e, c.energy_sub hs (xs - c.x k) (y - c.x k), ← c.r_eq xs h0 k, c.r_orth_spanP hc _ hd]
  have := hpos (y - c.x k)
  linarith

end ordered

/-! ### the span of the directions is the preconditioned Krylov space -/

/-- the Krylov space `span{(PA)^i P r0 : i < k}` -/
def krylov (k : ℕ) : Submodule 𝕜 V :=
  Submodule.span 𝕜 ((fun i : ℕ => (fun v => c.P (c.A v))^[i] (c.P c.r0)) '' Set.Iio k)

theorem krylov_mono {k m : ℕ} (h : k ≤ m) : c.krylov k ≤ c.krylov m :=
  Submodule.span_mono (Set.image_mono (fun _ hi => lt_of_lt_of_le hi h))

theorem krylov_gen_mem {i k : ℕ} (h : i < k) : (fun v => c.P (c.A v))^[i] (c.P c.r0) ∈ c.krylov k :=
  Submodule.subset_span ⟨i, h, rfl⟩

/-- `PA` maps `K_k` into `K_{k+1}` -/
theorem PA_krylov (k : ℕ) (v : V) (hv : v ∈ c.krylov k) : c.P (c.A v) ∈ c.krylov (k + 1) := by
  induction hv using Submodule.span_induction with
  | mem v hv =>
    obtain ⟨i, hi, rfl⟩ := hv
    have : c.P (c.A ((fun v => c.P (c.A v))^[i] (c.P c.r0))) = (fun v => c.P (c.A v))^[i + 1] (c.P c.r0) := by
      rw [Function.iterate_succ_apply']
    rw [this]
    exact c.krylov_gen_mem (Nat.succ_lt_succ hi)
  | zero => simp
  | add u w _ _ hu hw => rw [map_add, map_add]; exact Submodule.add_mem _ hu hw
  | smul a u _ hu => rw [map_smul, map_smul]; exact Submodule.smul_mem _ _ hu

/-- `r_k = r0 − A (x_k − x0)` -/
theorem r_eq_sub (k : ℕ) : c.r k = c.r0 - c.A (c.x k - c.x0) := by
  induction k with
  | zero => simp [r_zero, x_zero]
  | succ k ih =>
    rw [r_succ, x_succ, ih]
    show _ - c.alpha k • c.A (c.p k) = _
    rw [← map_smul, sub_sub, ← map_add]; congr 2; abel

/-- `x_k − x0 ∈ K_k` and `p_k ∈ K_{k+1}` (no hypothesis: holds with breakdown as well) -/
theorem mem_krylov (k : ℕ) : c.x k - c.x0 ∈ c.krylov k ∧ c.p k ∈ c.krylov (k + 1) := by
  induction k with
  | zero =>
    refine ⟨by simp [x_zero], ?_⟩
    rw [p_zero]
    exact c.krylov_gen_mem (i := 0) (Nat.zero_lt_one)
  | succ k ih =>
    have hx : c.x (k + 1) - c.x0 ∈ c.krylov (k + 1) := by
      have e : c.x (k + 1) - c.x0 = (c.x k - c.x0) + c.alpha k • c.p k := by rw [x_succ]; abel
      rw [e]
      exact Submodule.add_mem _ (c.krylov_mono (Nat.le_succ k) ih.1) (Submodule.smul_mem _ _ ih.2)
    refine ⟨hx, ?_⟩
    rw [p_succ]
    refine Submodule.add_mem _ ?_ (Submodule.smul_mem _ _ (c.krylov_mono (Nat.le_succ _) ih.2))
    show c.P (c.r (k + 1)) ∈ _
    rw [r_eq_sub, map_sub]
    exact Submodule.sub_mem _ (c.krylov_gen_mem (i := 0) (Nat.succ_pos _)) (c.PA_krylov _ _ hx)

theorem spanP_le_krylov (k : ℕ) : c.spanP k ≤ c.krylov k := by
  apply Submodule.span_le.mpr
  rintro _ ⟨i, hi, rfl⟩
  exact c.krylov_mono (Nat.succ_le_of_lt hi) (c.mem_krylov i).2

/-- `z_i ∈ span{p_0..p_i}` -/
theorem z_mem_spanP (i : ℕ) : c.z i ∈ c.spanP (i + 1) := by
  rw [z_eq_p]
  cases i with
  | zero => simpa using c.p_mem_spanP (Nat.zero_lt_one)
  | succ i =>
    simp only [Nat.succ_ne_zero, if_false, Nat.add_sub_cancel]
    exact Submodule.sub_mem _ (c.p_mem_spanP (Nat.lt_succ_self _))
      (Submodule.smul_mem _ _ (c.p_mem_spanP (by omega)))

/-- without breakdown `PA` maps `span{p_0..p_{m-1}}` into `span{p_0..p_m}` -/
theorem PA_spanP {k : ℕ} (hnb : c.NoBreakdown k) (m : ℕ) (hm : m ≤ k) (v : V) (hv : v ∈ c.spanP m) :
    c.P (c.A v) ∈ c.spanP (m + 1) := by
  induction hv using Submodule.span_induction with
  | mem v hv =>
    obtain ⟨i, hi, rfl⟩ := hv
    have hi' : i < m := hi
    have hα : c.alpha i ≠ 0 := c.alpha_ne hnb i (lt_of_lt_of_le hi hm)
    have e1 : c.alpha i • c.P (c.A (c.p i)) = c.z i - c.z (i + 1) := by
      show _ = c.P (c.r i) - c.P (c.r (i + 1))
      rw [r_succ, map_sub, map_smul]
      show _ = c.P (c.r i) - (c.P (c.r i) - c.alpha i • c.P (c.A (c.p i)))
      abel
    have e2 : c.P (c.A (c.p i)) = (c.alpha i)⁻¹ • (c.z i - c.z (i + 1)) := by
      rw [← e1, smul_smul, inv_mul_cancel₀ hα, one_smul]
    rw [e2]
    apply Submodule.smul_mem
    exact Submodule.sub_mem _ (c.spanP_mono (by omega) (c.z_mem_spanP i))
      (c.spanP_mono (by omega) (c.z_mem_spanP (i + 1)))
  | zero => simp
  | add u w _ _ hu hw => rw [map_add, map_add]; exact Submodule.add_mem _ hu hw
  | smul a u _ hu => rw [map_smul, map_smul]; exact Submodule.smul_mem _ _ hu

theorem krylov_gen_mem_spanP {k : ℕ} (hnb : c.NoBreakdown k) (i : ℕ) (hi : i ≤ k) :
    (fun v => c.P (c.A v))^[i] (c.P c.r0) ∈ c.spanP (i + 1) := by
  induction i with
  | zero => exact c.p_mem_spanP (i := 0) Nat.zero_lt_one
  | succ i ih =>
    rw [Function.iterate_succ_apply']
    exact c.PA_spanP hnb (i + 1) hi _ (ih (by omega))

/-- **the search directions span the preconditioned Krylov space**: without breakdown before step `k - 1`,
`span{p_0..p_{k-1}} = span{(PA)^i P r0 : i < k}` -/
theorem spanP_eq_krylov {k : ℕ} (hnb : c.NoBreakdown k) : c.spanP k = c.krylov k := by
  apply le_antisymm (c.spanP_le_krylov k)
  apply Submodule.span_le.mpr
  rintro _ ⟨i, hi, rfl⟩
  exact c.spanP_mono (Nat.succ_le_of_lt hi) (c.krylov_gen_mem_spanP hnb i (Nat.le_of_lt hi))

/-! ### definiteness excludes breakdown; stationarity at a zero residual -/

/-- for definite `P` and `A` there is no breakdown as long as the residuals are non-zero -/
theorem noBreakdown_of_definite (hs : c.Symm) (hP : ∀ v, c.B v (c.P v) = 0 → v = 0)
    (hA : ∀ v, c.B (c.A v) v = 0 → v = 0) : ∀ k, (∀ i, i < k → c.r i ≠ 0) → c.NoBreakdown k := by
  intro k
  induction k with
  | zero => intro _ i hi; omega
  | succ k ih =>
    intro hr i hi
    have hnb : c.NoBreakdown k := ih (fun i hi => hr i (by omega))
    rcases Nat.lt_or_ge i k with hik | hik
    · exact hnb i hik
    · have hik' : i = k := by omega
      subst hik'
      have hrho : c.rho i ≠ 0 := fun h => hr i hi (hP _ h)
      refine ⟨hrho, fun h => ?_⟩
      have hp : c.p i = 0 := hA _ h
      have := c.rp_self (c.conj_of_noBreakdown hs i hnb) i (Nat.le_refl i)
      rw [hp, map_zero] at this
      exact hrho this.symm

/-- once the residual vanishes the recurrence is stationary (`z = 0`, `ρ = 0`, `p = 0`, `α = 0/0 = 0`) -/
theorem r_stationary (k : ℕ) (h : c.r k = 0) : c.r (k + 1) = 0 ∧ c.x (k + 1) = c.x k := by
  have hz : c.z k = 0 := by show c.P (c.r k) = 0; rw [h, map_zero]
  have hrho : c.rho k = 0 := by show c.B (c.r k) (c.z k) = 0; rw [hz, map_zero]
  have hp : c.p k = 0 := by
    cases k with
    | zero => rw [p_zero, hz]
    | succ k => rw [p_succ, hz]; simp [beta, hrho]
  have hq : c.q k = 0 := by show c.A (c.p k) = 0; rw [hp, map_zero]
  rw [r_succ, x_succ, h, hq, hp]
  simp

theorem r_zero_of_le {k m : ℕ} (h : c.r k = 0) (hm : k ≤ m) : c.r m = 0 ∧ c.x m = c.x k := by
  induction m, hm using Nat.le_induction with
  | base => exact ⟨h, rfl⟩
  | succ m _ ih =>
    obtain ⟨h1, h2⟩ := c.r_stationary m ih.1
    exact ⟨h1, h2.trans ih.2⟩

/-- **energy minimisation for definite operators, no breakdown hypothesis**: if `P` and `A` are definite
(`⟨v, P v⟩ = 0 → v = 0`, `⟨A v, v⟩ = 0 → v = 0`) and `A` is positive semi-definite then the `k`-th iterate minimises the
energy of the error over `x0 + K_k(PA, P r0)` for EVERY `k` (after the residual has vanished the iterate is the
solution and stays there). -/
theorem energy_min_definite [LinearOrder 𝕜] [IsStrictOrderedRing 𝕜] (hs : c.Symm)
    (hP : ∀ v, c.B v (c.P v) = 0 → v = 0) (hA : ∀ v, c.B (c.A v) v = 0 → v = 0) (hpos : ∀ v, 0 ≤ c.energy v)
    (xs : V) (h0 : c.r0 = c.A (xs - c.x0)) (k : ℕ) (y : V) (hy : y - c.x0 ∈ c.krylov k) :
    c.energy (xs - c.x k) ≤ c.energy (xs - y) := by
  by_cases h : ∀ i, i < k → c.r i ≠ 0
  · have hnb := c.noBreakdown_of_definite hs hP hA k h
    rw [← c.spanP_eq_krylov hnb] at hy
    exact c.energy_min hs hpos xs h0 hnb y hy
  · push Not at h
    obtain ⟨i, hi, hri⟩ := h
    have hrk : c.r k = 0 := (c.r_zero_of_le hri (Nat.le_of_lt hi)).1
    have : c.energy (xs - c.x k) = 0 := by
      unfold energy; rw [← c.r_eq xs h0 k, hrk]; simp
    rw [this]; exact hpos _

end CGData
end Amgcl.Krylov
