import Amgcl.Proofs.KernelsTwoPass
import Amgcl.Proofs.KernelsRmerge
import Amgcl.Proofs.KernelsMisc
import Amgcl.Proofs.KernelsSaad3
/-!
The two SpGEMM algorithms produce the SAME STORED MATRIX (not only the same denotation) when the marker-based
one sorts its rows and the right operand is row-sorted: both rows are strictly increasing, carry the same set of
columns (all structurally non-zero positions, explicit zeros included) and the same values.

Also: `spgemm_saad` as an instance of the generic two-pass skeleton, which yields the sortedness of its rows
for `sort = true`.
-/
namespace Amgcl.K2
open Amgcl

/-! ### a strictly sorted row is determined by its column set and its denotation -/
section ext
variable {K : Type} [AddCommMonoid K]

theorem row_eq_map_get (r : Row K) (hn : (r.map (·.1)).Nodup) :
    r = (r.map (·.1)).map (fun c => (c, rowGet r c)) := by
  induction r with
  | nil => rfl
  | cons a t ih =>
    have hn' : a.1 ∉ t.map (·.1) ∧ (t.map (·.1)).Nodup := by
      rw [List.map_cons] at hn; exact List.nodup_cons.1 hn
    rw [List.map_cons, List.map_cons]
    congr 1
    · rw [rowGet_cons', if_pos rfl, rowGet_eq_zero hn'.1, add_zero]
    · conv_lhs => rw [ih hn'.2]
      apply List.map_congr_left
      intro c hc
      have hne : a.1 ≠ c := fun h => hn'.1 (h ▸ hc)
      rw [rowGet_cons', if_neg hne, zero_add]

theorem strictCols_ext {r s : Row K} (hr : StrictCols r) (hs : StrictCols s)
    (hm : ∀ c, c ∈ r.map (·.1) ↔ c ∈ s.map (·.1)) (hg : ∀ j, rowGet r j = rowGet s j) : r = s := by
  have hcols : r.map (·.1) = s.map (·.1) := by
    have p1 : (r.map (·.1)).Pairwise (· < ·) := List.pairwise_map.2 hr
    have p2 : (s.map (·.1)).Pairwise (· < ·) := List.pairwise_map.2 hs
    have hperm : (r.map (·.1)).Perm (s.map (·.1)) :=
      (List.perm_ext_iff_of_nodup hr.nodup hs.nodup).2 hm
    exact List.Perm.eq_of_pairwise (le := fun a b : Nat => a < b)
      (fun _ _ _ _ h1 h2 => absurd h1 (Nat.lt_asymm h2)) p1 p2 hperm
  rw [row_eq_map_get r hr.nodup, row_eq_map_get s hs.nodup, hcols]
  apply List.map_congr_left
  intro c _
  rw [hg c]

end ext

/-! ### column sets -/
section colsets
variable {K : Type}

theorem mem_mergeCols_iff (c1 c2 : List Nat) (c : Nat) : c ∈ mergeCols c1 c2 ↔ c ∈ c1 ∨ c ∈ c2 := by
  induction c1 generalizing c2 with
  | nil => rw [mergeCols_nil_left]; simp
  | cons a t1 ih1 =>
    induction c2 with
    | nil => rw [mergeCols_nil_right]; simp
    | cons b t2 ih2 =>
      rw [mergeCols_cons_cons]
      by_cases hlt : a < b
      · rw [if_pos hlt, List.mem_cons, ih1]; simp only [List.mem_cons]; tauto
      · rw [if_neg hlt]
        by_cases heq : a = b
        · rw [if_pos heq, List.mem_cons, ih1]; subst heq; simp only [List.mem_cons]; tauto
        · rw [if_neg heq, List.mem_cons, ih2]; simp only [List.mem_cons]; tauto

variable [Add K] [Mul K]

theorem mem_cols_mergeRows_iff (a1 a2 : K) (r1 r2 : Row K) (c : Nat) :
    c ∈ (mergeRows a1 r1 a2 r2).map (·.1) ↔ c ∈ r1.map (·.1) ∨ c ∈ r2.map (·.1) := by
  rw [mergeRows_cols, mem_mergeCols_iff]

variable [One K]

theorem mem_cols_prodRowLoop_iff (B : CRS K) (tm1 rest : Row K) (c : Nat) :
    c ∈ (prodRowLoop B tm1 rest).map (·.1) ↔
      c ∈ tm1.map (·.1) ∨ ∃ a ∈ rest, c ∈ (B.row a.1).map (·.1) := by
  induction rest using List.twoStepInduction generalizing tm1 with
  | nil => rw [prodRowLoop]; simp
  | singleton a => rw [prodRowLoop, mem_cols_mergeRows_iff]; simp
  | cons_cons a1 a2 rest ih _ =>
    rw [prodRowLoop, ih, mem_cols_mergeRows_iff, mem_cols_mergeRows_iff]
    simp only [List.mem_cons, exists_eq_or_imp]
    tauto

theorem mem_cols_prodRow_iff (B : CRS K) (arow : Row K) (c : Nat) :
    c ∈ (prodRow B arow).map (·.1) ↔ ∃ a ∈ arow, c ∈ (B.row a.1).map (·.1) := by
  match arow with
  | [] => rw [prodRow]; simp
  | [a] => rw [prodRow]; simp [List.map_map, Function.comp_def]
  | [a1, a2] => rw [prodRow, mem_cols_mergeRows_iff]; simp
  | a1 :: a2 :: a3 :: rest =>
    rw [prodRow_cons3, mem_cols_prodRowLoop_iff, mem_cols_mergeRows_iff]
    simp only [List.mem_cons, exists_eq_or_imp]
    tauto

omit [Add K] [One K] in
theorem mem_cols_saadTerms_iff (A B : CRS K) (i c : Nat) :
    c ∈ cols (saadTerms A B i) ↔ ∃ a ∈ A.row i, c ∈ (B.row a.1).map (·.1) := by
  unfold cols saadTerms
  simp only [List.map_flatMap, List.map_map, List.mem_flatMap, Function.comp_def]

end colsets

/-! ### `spgemm_saad` as an instance of the two-pass skeleton -/
section saad
variable {K : Type} [Semiring K]

theorem saadWidths_eq_G (A B : CRS K) :
    saadWidths A B = (widthsG (saadTerms A B) B.ncols A.nrows).1 := by
  simp only [saadWidths, widthsG, saadWidthRow_eq]

theorem spgemmSaad_eq_G (A B : CRS K) (sort : Bool) :
    spgemmSaad A B sort =
      { ncols := B.ncols,
        rows := (rowsG (saadTerms A B) B.ncols A.nrows (scanWidths (saadWidths A B)) sort).1 } := by
  simp only [spgemmSaad, rowsG, saadRow_eq]

theorem saad_G_spec (A B : CRS K) (hB : B.WF) (sort : Bool) :
    (spgemmSaad A B sort).rows.size = A.nrows ∧
    ∀ i (h : i < (spgemmSaad A B sort).rows.size), RowOK (saadTerms A B) sort i ((spgemmSaad A B sort).rows[i]) := by
  have hM : ∀ i, ∀ t ∈ saadTerms A B i, t.1 < B.ncols := fun i => saadTerms_cols_lt A B hB i
  have hw : saadWidths A B = (List.range A.nrows).map (fun i => ndistinct (saadTerms A B i)) := by
    rw [saadWidths_eq_G]; exact (widthsG_spec _ _ hM _).1
  have hptr : ∀ i, i < A.nrows → (scanWidths (saadWidths A B)).getD (i + 1) 0
      = (scanWidths (saadWidths A B)).getD i 0 + ndistinct (saadTerms A B i) := by
    intro i hi
    rw [K2.scanWidths_succ _ i (by rw [hw]; simpa using hi), hw]
    simp [List.getD_eq_getElem?_getD, hi]
  obtain ⟨h1, _, _, h4⟩ := rowsG_spec _ _ hM (scanWidths (saadWidths A B)) sort A.nrows hptr
  simp only [spgemmSaad_eq_G]
  exact ⟨h1, h4⟩

theorem saad_nrows (A B : CRS K) (hB : B.WF) (sort : Bool) : (spgemmSaad A B sort).nrows = A.nrows :=
  (saad_G_spec A B hB sort).1

theorem saad_rowOK (A B : CRS K) (hB : B.WF) (sort : Bool) (i : Nat) (hi : i < A.nrows) :
    RowOK (saadTerms A B) sort i ((spgemmSaad A B sort).row i) := by
  obtain ⟨h1, h4⟩ := saad_G_spec A B hB sort
  have hi' : i < (spgemmSaad A B sort).rows.size := by rw [h1]; exact hi
  rw [row_eq_getElem _ hi']
  exact h4 i hi'

/-- with `sort = true` the rows of the marker-based product are strictly increasing -/
theorem saad_sorted (A B : CRS K) (hB : B.WF) : (spgemmSaad A B true).sortedb = true := by
  rw [sortedb_iff]
  intro i
  by_cases hi : i < A.nrows
  · exact (saad_rowOK A B hB true i hi).sorted rfl
  · rw [row_eq_nil_of_ge _ (by rw [saad_nrows A B hB true]; exact Nat.le_of_not_lt hi)]
    exact List.Pairwise.nil

/-- the set of stored columns of a row of the marker-based product -/
theorem mem_cols_saad_iff (A B : CRS K) (hB : B.WF) (sort : Bool) (i : Nat) (hi : i < A.nrows) (c : Nat) :
    c ∈ ((spgemmSaad A B sort).row i).map (·.1) ↔ ∃ a ∈ A.row i, c ∈ (B.row a.1).map (·.1) := by
  have h := saad_rowOK A B hB sort i hi
  rw [← mem_cols_saadTerms_iff]
  constructor
  · intro hc
    obtain ⟨e, he, rfl⟩ := List.mem_map.1 hc
    exact h.mem e he
  · intro hc
    -- a duplicate-free sub-multiset of full cardinality is everything
    have hsub : (cols ((spgemmSaad A B sort).row i)).toFinset ⊆ (cols (saadTerms A B i)).toFinset := by
      intro x hx
      rw [List.mem_toFinset] at hx ⊢
      obtain ⟨e, he, rfl⟩ := List.mem_map.1 hx
      exact h.mem e he
    have hcard : (cols (saadTerms A B i)).toFinset.card ≤ (cols ((spgemmSaad A B sort).row i)).toFinset.card := by
      rw [List.toFinset_card_of_nodup h.nodup]
      simp only [cols, List.length_map]
      rw [h.length]; exact Nat.le_refl _
    have := Finset.eq_of_subset_of_card_le hsub hcard
    have hc' : c ∈ (cols (saadTerms A B i)).toFinset := List.mem_toFinset.2 hc
    rw [← this] at hc'
    exact List.mem_toFinset.1 hc'

/-- **the two SpGEMM algorithms store the same rows** when the marker-based one sorts and `B` is row-sorted -/
theorem saad_sorted_eq_rmerge (A B : CRS K) (hA : A.WF) (hB : B.WF) (hBs : B.sortedb = true) :
    spgemmSaad A B true = spgemmRmerge A B := by
  have hn1 := saad_nrows A B hB true
  have hn2 := rmerge_nrows A B
  have hrows : (spgemmSaad A B true).rows = (spgemmRmerge A B).rows := by
    apply Array.ext
    · exact hn1.trans hn2.symm
    · intro i h1 h2
      have hi : i < A.nrows := by rw [← hn1]; exact h1
      rw [← row_eq_getElem _ h1, ← row_eq_getElem _ h2]
      apply strictCols_ext
      · exact (saad_rowOK A B hB true i hi).sorted rfl
      · rw [rmerge_row]; exact prodRow_strict B (sortedb_iff.1 hBs) _
      · intro c
        rw [mem_cols_saad_iff A B hB true i hi, rmerge_row, mem_cols_prodRow_iff]
      · intro j
        have h1 := (saad_rowOK A B hB true i hi).get j
        rw [h1, rowGet_saadTerms A B hA i j]
        have h2 := rmerge_get' A B hA i j
        unfold CRS.get at h2
        rw [h2]; rfl
  have hc : (spgemmSaad A B true).ncols = (spgemmRmerge A B).ncols := by
    rw [spgemmSaad_eq_G]; rfl
  cases hS : spgemmSaad A B true with
  | mk nc rows =>
    cases hR : spgemmRmerge A B with
    | mk nc' rows' =>
      rw [hS, hR] at hrows hc
      simp only at hrows hc
      rw [hrows, hc]

end saad

end Amgcl.K2
