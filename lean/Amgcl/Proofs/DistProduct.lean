import Amgcl.Proofs.DistSort
/-!
`mpi::product` through `remote_rows`: the gathered distributed product denotes the product of the assembled matrices.
-/
namespace Amgcl.Dist
open Amgcl Finset

section accum
variable {K : Type} [AddCommMonoid K]

theorem rowGet_accumInto (acc : Row K) (cv : Nat × K) (j : Nat) :
    rowGet (accumInto acc cv) j = rowGet acc j + (if cv.1 = j then cv.2 else 0) := by
  unfold accumInto
  cases hf : acc.findIdx? (fun e => e.1 == cv.1) with
  | none => simp only; rw [rowGet_append, rowGet_singleton]
  | some k =>
    simp only
    obtain ⟨hk, hp, _⟩ := List.findIdx?_eq_some_iff_getElem.1 hf
    rw [rowGet_modify acc k hk cv.2 j]
    have : (acc[k]).1 = cv.1 := by simpa using hp
    rw [this]

/-- the marker accumulation keeps the denotation of the contribution list -/
theorem rowGet_accumRow (l : Row K) (j : Nat) : rowGet (accumRow l) j = rowGet l j := by
  unfold accumRow
  have key : ∀ (l acc : Row K), rowGet (l.foldl accumInto acc) j = rowGet acc j + rowGet l j := by
    intro l
    induction l with
    | nil => intro acc; simp
    | cons cv t ih => intro acc; rw [List.foldl_cons, ih, rowGet_accumInto, rowGet_cons', add_assoc]
  rw [key l []]; simp

/-- a global row cut into (shifted-back local part) ++ (remote part) with respect to the column range of rank `d` -/
def splitRowOf (cp : List Nat) (d : Nat) (row : Row K) : Row K :=
  globalRow (dom cp d) (locPart (dom cp d) (dom cp (d + 1)) row) (remPart (dom cp d) (dom cp (d + 1)) row)

theorem rowGet_splitRowOf (cp : List Nat) (d : Nat) (row : Row K) (j : Nat) : rowGet (splitRowOf cp d row) j = rowGet row j :=
  rowGet_globalRow_split _ _ row j

omit [AddCommMonoid K] in
theorem fullRow_split (B : CRS K) (mp cp : List Nat) (d i : Nat) (hd : d < mp.length) (hi : i < mp.getD d 0) :
    fullRow cp d (splitRank B mp cp d) i = splitRowOf cp d (B.row (dom mp d + i)) := by
  have hw : i < dom mp (d + 1) - dom mp d := by rw [dom_succ mp d hd]; omega
  unfold fullRow splitRowOf
  rw [splitRank_loc_row B mp cp d i hw, splitRank_rem_row B mp cp d i hw]

end accum

section rows
variable {K : Type}

/-- **`remote_rows`**: slot `s` of the result holds the global row of `B` named by the `s`-th remote column of `A`'s
block (local part first, in the owner's numbering shifted back to global) -/
theorem remoteRows_eq (A B : CRS K) (rp mp cp : List Nat) (hA : PartOK A rp mp) (hB : PartOK B mp cp) (r : Nat)
    (hr : r < rp.length) :
    remoteRows (commPatterns mp ((split A rp mp).map remColList)) (split B mp cp) cp r
      = (remColsOf ((split A rp mp).map remColList) r).map (fun c => splitRowOf cp (ownerOf mp c) (B.row c)) := by
  have hok := remsOK_split A rp mp hA
  have hrm : r < mp.length := by rw [← hA.len]; exact hr
  obtain ⟨_, _, p3, _, _, _⟩ := pattern_getD mp _ hok r hrm
  have htile := recv_tiles mp _ hok r hrm
  rw [p3, List.flatMap_map] at htile
  unfold remoteRows
  rw [p3, List.flatMap_map, ← htile, List.map_flatMap]
  apply List.flatMap_congr
  intro d hd
  obtain ⟨hd1, hd2⟩ := List.mem_filter.1 hd
  have hdl := List.mem_range.1 hd1
  obtain ⟨_, _, _, _, _, q6⟩ := pattern_getD mp _ hok d hdl
  simp only
  rw [q6, lookup_map_key, if_pos (List.mem_filter.2 ⟨List.mem_range.2 hrm, hd2⟩)]
  simp only [Option.getD_some, List.map_map]
  apply List.map_congr_left
  intro c hc
  have hown := request_owner mp _ hok r d c hc
  simp only [Function.comp]
  rw [split_getD B mp cp d hdl, ownerOf_eq hown,
    fullRow_split B mp cp d (c - dom mp d) hdl (by have := hown.2.2; rw [dom_succ mp d hdl] at this; have := hown.2.1; omega),
    show dom mp d + (c - dom mp d) = c by have := hown.2.1; omega]

end rows

section product
variable {K : Type} [Semiring K]

theorem sum_filter_split' {α : Type} (p : α → Bool) (g : α → K) (l : List α) :
    ((l.filter p).map g).sum + ((l.filter (fun a => !p a)).map g).sum = (l.map g).sum := by
  induction l with
  | nil => simp
  | cons a t ih =>
    by_cases h : p a = true
    · simp only [List.filter_cons, h, if_true, Bool.not_true, Bool.false_eq_true, if_false, List.map_cons,
        List.sum_cons, add_assoc, ih]
    · have h' : p a = false := by simpa using h
      simp only [List.filter_cons, h', Bool.false_eq_true, if_false, Bool.not_false, if_true, List.map_cons,
        List.sum_cons]
      rw [← ih, add_left_comm]

theorem rowGet_scaled_flatMap (l : Row K) (G : Nat → Row K) (j : Nat) :
    rowGet (l.flatMap (fun ca => (G ca.1).map (fun cb => (cb.1, ca.2 * cb.2)))) j
      = (l.map (fun ca => ca.2 * rowGet (G ca.1) j)).sum := by
  rw [rowGet_flatMap]
  congr 1
  apply List.map_congr_left
  intro ca _
  exact rowGet_map_mul_left ca.2 (G ca.1) j

/-- the contributions to local row `ia` of the product on rank `r` denote row `dom rp r + ia` of `A·B` -/
theorem productContribs_get (A B : CRS K) (rp mp cp : List Nat) (hA : PartOK A rp mp) (hB : PartOK B mp cp) (r ia j : Nat)
    (hr : r < rp.length) (hia : ia < rp.getD r 0) :
    rowGet (productContribs cp r (splitRank A rp mp r) (splitRank B mp cp r)
        ((commPatterns mp ((split A rp mp).map remColList)).getD r default)
        (remoteRows (commPatterns mp ((split A rp mp).map remColList)) (split B mp cp) cp r) ia) j
      = ∑ k ∈ range A.ncols, A.get (dom rp r + ia) k * B.get k j := by
  have hok := remsOK_split A rp mp hA
  have hrm : r < mp.length := by rw [← hA.len]; exact hr
  obtain ⟨_, _, _, p4, _, _⟩ := pattern_getD mp _ hok r hrm
  have hw : ia < dom rp (r + 1) - dom rp r := by rw [dom_succ rp r hr]; omega
  unfold productContribs
  rw [rowGet_append, rowGet_scaled_flatMap _ (fun c => fullRow cp r (splitRank B mp cp r) c),
    rowGet_scaled_flatMap _ (fun c => (remoteRows (commPatterns mp ((split A rp mp).map remColList)) (split B mp cp) cp r).getD
      (((commPatterns mp ((split A rp mp).map remColList)).getD r default).localIndex c) [])]
  rw [splitRank_loc_row A rp mp r ia hw, splitRank_rem_row A rp mp r ia hw]
  -- local part: columns owned by `r`
  have hX : ((locPart (dom mp r) (dom mp (r + 1)) (A.row (dom rp r + ia))).map
        (fun ca => ca.2 * rowGet (fullRow cp r (splitRank B mp cp r) ca.1) j)).sum
      = (((A.row (dom rp r + ia)).filter (fun cv => inRange (dom mp r) (dom mp (r + 1)) cv.1)).map
          (fun cv => cv.2 * B.get cv.1 j)).sum := by
    unfold locPart
    rw [List.map_map]
    congr 1
    apply List.map_congr_left
    intro cv hcv
    have hin := (List.mem_filter.1 hcv).2
    unfold inRange at hin
    simp only [Bool.and_eq_true, decide_eq_true_eq] at hin
    simp only [Function.comp]
    rw [fullRow_split B mp cp r (cv.1 - dom mp r) hrm (by have := hin.2; rw [dom_succ mp r hrm] at this; omega),
      rowGet_splitRowOf, show dom mp r + (cv.1 - dom mp r) = cv.1 by omega]
    rfl
  -- remote part: rows fetched by `remote_rows`
  have hY : ((remPart (dom mp r) (dom mp (r + 1)) (A.row (dom rp r + ia))).map
        (fun ca => ca.2 * rowGet ((remoteRows (commPatterns mp ((split A rp mp).map remColList)) (split B mp cp) cp r).getD
          (((commPatterns mp ((split A rp mp).map remColList)).getD r default).localIndex ca.1) []) j)).sum
      = (((A.row (dom rp r + ia)).filter (fun cv => !inRange (dom mp r) (dom mp (r + 1)) cv.1)).map
          (fun cv => cv.2 * B.get cv.1 j)).sum := by
    unfold remPart
    congr 1
    apply List.map_congr_left
    intro cv hcv
    have hmem : cv.1 ∈ remColsOf ((split A rp mp).map remColList) r := by
      apply rem_col_mem A rp mp r ia hr hia cv
      rw [splitRank_rem_row A rp mp r ia hw]; exact hcv
    have hslot := localIndex_spec _ (remColsOf ((split A rp mp).map remColList) r) (sortUnique_nodup _) p4 cv.1 hmem
    rw [remoteRows_eq A B rp mp cp hA hB r hr, List.getD_eq_getElem?_getD, List.getElem?_map, hslot]
    simp only [Option.map_some, Option.getD_some]
    rw [rowGet_splitRowOf]
    rfl
  rw [hX, hY, sum_filter_split', sum_map_mul_eq_sum_rowGet (A.row (dom rp r + ia)) (fun k => B.get k j) A.ncols
    (CRS.WF.row_lt hA.wf _)]
  rfl

/-- **the gathered distributed product denotes the product of the assembled matrices** -/
theorem dist_product_get (A B : CRS K) (rp mp cp : List Nat) (hA : PartOK A rp mp) (hB : PartOK B mp cp) (i j : Nat)
    (hi : i < rp.sum) :
    (assemble (distProduct (split A rp mp) (split B mp cp) mp cp) cp).get i j
      = ∑ k ∈ range A.ncols, A.get i k * B.get k j := by
  obtain ⟨r, hr⟩ := exists_owner rp i hi
  have hil : i - dom rp r < rp.getD r 0 := by
    have := hr.2.1; have h2 := hr.2.2; rw [dom_succ rp r hr.1] at h2; omega
  have hrm : r < mp.length := by rw [← hA.len]; exact hr.1
  have hnrows : ∀ q, q < rp.length → (splitRank A rp mp q).loc.nrows = rp.getD q 0 := by
    intro q hq; rw [(splitRank_nrows A rp mp q).1, dom_succ rp q hq]; omega
  have hlenP : (distProduct (split A rp mp) (split B mp cp) mp cp).length = rp.length := by
    unfold distProduct; simp [split_length]
  have hgetP : ∀ q, q < rp.length → (distProduct (split A rp mp) (split B mp cp) mp cp).getD q default
      = productRank cp (commPatterns mp ((split A rp mp).map remColList)) (split A rp mp) (split B mp cp) q := by
    intro q hq
    unfold distProduct patternsOf
    simp only
    rw [split_length]
    exact getD_map_range _ _ _ _ hq
  have hlocP : ∀ q, q < rp.length →
      ((distProduct (split A rp mp) (split B mp cp) mp cp).getD q default).loc.nrows = rp.getD q 0 := by
    intro q hq
    rw [hgetP q hq]
    unfold productRank CRS.nrows
    simp only [List.size_toArray, List.length_map, List.length_range]
    rw [split_getD A rp mp q hq]
    exact hnrows q hq
  have hrow := assemble_row_of _ rp cp hlenP hlocP r (i - dom rp r) hr.1 hil
  rw [show dom rp r + (i - dom rp r) = i by have := hr.2.1; omega] at hrow
  unfold CRS.get
  rw [hrow, hgetP r hr.1]
  unfold productRank
  simp only
  rw [split_getD A rp mp r hr.1, split_getD B mp cp r hrm, List.map_map, List.map_map,
    row_toArray_map _ _ (i - dom rp r) 0 (by rw [List.length_range, hnrows r hr.1]; exact hil),
    row_toArray_map _ _ (i - dom rp r) 0 (by rw [List.length_range, hnrows r hr.1]; exact hil)]
  have hgd : (List.range (splitRank A rp mp r).loc.nrows).getD (i - dom rp r) 0 = i - dom rp r := by
    rw [List.getD_eq_getElem _ _ (by rw [List.length_range, hnrows r hr.1]; exact hil), List.getElem_range]
  rw [hgd]
  simp only [Function.comp]
  unfold globalRow
  rw [rowGet_append, rowGet_map_shift, rowGet_accumRow, rowGet_accumRow, ← rowGet_map_shift, ← rowGet_append]
  have := rowGet_globalRow_split (dom cp r) (dom cp (r + 1))
    (productContribs cp r (splitRank A rp mp r) (splitRank B mp cp r)
      ((commPatterns mp ((split A rp mp).map remColList)).getD r default)
      (remoteRows (commPatterns mp ((split A rp mp).map remColList)) (split B mp cp) cp r) (i - dom rp r)) j
  unfold globalRow at this
  rw [this, productContribs_get A B rp mp cp hA hB r (i - dom rp r) j hr.1 hil,
    show dom rp r + (i - dom rp r) = i by have := hr.2.1; omega]
  rfl

end product
end Amgcl.Dist
