import Amgcl.Model.LockstepCG
import Amgcl.Proofs.Lockstep
/-!
The serial semantics of the CG program of `Model/LockstepCG.lean` is the statement-by-statement CG model
`Solver.CG.run` (the one the C01/C05 theorems are about).
-/
namespace Amgcl.Lockstep.CG
open Amgcl Amgcl.Solver Amgcl.Lockstep

variable {K : Type} [Field K] [DecidableEq K] [LT K] [DecidableLT K]

theorem upd_apply {α : Type} (f : Nat → α) (i j : Nat) (v : α) : upd f i v j = if j = i then v else f j := rfl

/-- correspondence between the record state of `Solver.CG` and the register state of the program, inside the loop -/
structure Corr (f : Vec K) (nrhs epsT : K) (st : Solver.CG.St K) (s : St K (SEnv K)) : Prop where
  vf : s.vec vF = f
  vx : s.vec vX = st.x
  vr : s.vec vR = st.w.r
  vs : s.vec vS = st.w.s
  vp : s.vec vP = st.w.p
  vq : s.vec vQ = st.w.q
  eps : s.scal sEps = epsT
  nrhs : s.scal sNrhs = nrhs
  rho1 : s.scal sRho1 = st.rho1
  res : s.scal sRes = st.res
  cnt : s.scal sCnt = (st.iter : K)
  first : s.scal sFirst ≠ 0 ↔ st.iter ≠ 0

theorem body_corr (ip : Vec K → Vec K → K) (sqrt : K → K) (A : CRS K) (P : Vec K → Vec K)
    (f : Vec K) (nrhs epsT : K) (st : Solver.CG.St K) (s : St K (SEnv K)) (h : Corr f nrhs epsT st s) :
    Corr f nrhs epsT (Solver.CG.body ip sqrt A P st) (run A P ip (bodyProg sqrt) s) := by
  obtain ⟨vf, vx, vr, vs, vp, vq, heps, hnrhs, hrho1, hres, hcnt, hfirst⟩ := h
  have hfirst' : decide (s.scal sFirst ≠ 0) = decide (st.iter ≠ 0) := by
    by_cases hi : st.iter ≠ 0
    · simp [hi, hfirst.2 hi]
    · have : ¬ s.scal sFirst ≠ 0 := fun hc => hi (hfirst.1 hc)
      simp only [hi, this]
  by_cases hi : st.iter ≠ 0
  · constructor <;>
      simp [bodyProg, seqs, normInto, ipR, ssetR, R, run, step, upd_apply, Solver.CG.body, nrm, vF, vX, vR, vS, vP, vQ, sTmp, sNrhs, sEps,
        sRho1, sRho2, sRes, sAlpha, sCnt, sFirst, hi, hfirst.2 hi] <;>
      simp_all [upd_apply, vF, vX, vR, vS, vP, vQ, sTmp, sNrhs, sEps, sRho1, sRho2, sRes, sAlpha, sCnt, sFirst]
  · have hz : s.scal sFirst = 0 := by
      by_contra hc; exact hi (hfirst.1 hc)
    have hi0 : st.iter = 0 := by simpa using hi
    constructor <;>
      simp [bodyProg, seqs, normInto, ipR, ssetR, R, run, step, upd_apply, Solver.CG.body, nrm, vF, vX, vR, vS, vP, vQ, sTmp, sNrhs, sEps,
        sRho1, sRho2, sRes, sAlpha, sCnt, sFirst, hi0, hz] <;>
      simp_all [upd_apply, vF, vX, vR, vS, vP, vQ, sTmp, sNrhs, sEps, sRho1, sRho2, sRes, sAlpha, sCnt, sFirst]

theorem loop_corr (ip : Vec K → Vec K → K) (sqrt : K → K) (A : CRS K) (P : Vec K → Vec K)
    (f : Vec K) (nrhs epsT : K) : ∀ (fuel : Nat) (st : Solver.CG.St K) (s : St K (SEnv K)), Corr f nrhs epsT st s →
    Corr f nrhs epsT (Solver.CG.loop ip sqrt A P epsT fuel st)
      (iter (fun s : St K (SEnv K) => decide (s.scal sEps < Solver.absK (s.scal sRes))) (run A P ip (bodyProg sqrt)) fuel s) := by
  intro fuel
  induction fuel with
  | zero => intro st s h; exact h
  | succ n ih =>
    intro st s h
    unfold Solver.CG.loop at ih ⊢
    unfold loopN iter
    have hc : (decide (s.scal sEps < Solver.absK (s.scal sRes))) = Solver.CG.cond epsT st := by
      unfold Solver.CG.cond; rw [h.eps, h.res]
    simp only [hc]
    by_cases hcs : Solver.CG.cond epsT st = true
    · simp only [hcs, if_true]
      exact ih _ _ (body_corr ip sqrt A P f nrhs epsT st s h)
    · simp only [hcs]; exact h

theorem normInto_vec (A : CRS K) (P : Vec K → Vec K) (ip : Vec K → Vec K → K) (sqrt : K → K) (d v : Nat)
    (s : St K (SEnv K)) : (run A P ip (normInto sqrt d v) s).vec = s.vec := by
  simp [normInto, ipR, ssetR, run, step]

theorem normInto_scal (A : CRS K) (P : Vec K → Vec K) (ip : Vec K → Vec K → K) (sqrt : K → K) (d v : Nat)
    (s : St K (SEnv K)) : (run A P ip (normInto sqrt d v) s).scal d = nrm ip sqrt (s.vec v) := by
  simp [normInto, ipR, ssetR, R, run, step, upd_apply, nrm, sTmp]

/-- the part of `operator()` after the prologue -/
theorem main_corr (prm : Params K) (ip : Vec K → Vec K → K) (sqrt : K → K) (A : CRS K) (P : Vec K → Vec K)
    (ws : Solver.CG.Work K) (f x0 : Vec K) (nrhs : K) (s : St K (SEnv K)) (hvec : s.vec = (initState ws f x0).vec)
    (hn : s.scal sNrhs = nrhs) :
    Corr f nrhs (Solver.maxK (prm.tol * nrhs) prm.abstol)
      (Solver.CG.loop ip sqrt A P (Solver.maxK (prm.tol * nrhs) prm.abstol) prm.maxiter
        (Solver.CG.init ip sqrt A ws f x0 (Solver.maxK (prm.tol * nrhs) prm.abstol)))
      (run A P ip (mainProg prm sqrt) s)
    ∧ (run A P ip (mainProg prm sqrt) s).scal sOut
      = (Solver.CG.loop ip sqrt A P (Solver.maxK (prm.tol * nrhs) prm.abstol) prm.maxiter
          (Solver.CG.init ip sqrt A ws f x0 (Solver.maxK (prm.tol * nrhs) prm.abstol))).res / nrhs := by
  have hn' : s.scal 1 = nrhs := hn
  -- the state on loop entry
  have h0 : Corr f nrhs (Solver.maxK (prm.tol * nrhs) prm.abstol)
      (Solver.CG.init ip sqrt A ws f x0 (Solver.maxK (prm.tol * nrhs) prm.abstol))
      (run A P ip (seqs [
        .prim (ssetR sEps (fun e => Solver.maxK (prm.tol * e sNrhs) prm.abstol)),
        .prim (ssetR sRho1 (fun e => Solver.two * e sEps * 1)),
        .prim (.residual (R vF) (R vX) (R vR)),
        normInto sqrt sRes vR,
        .prim (ssetR sCnt (fun _ => 0)),
        .prim (ssetR sFirst (fun _ => 0))]) s) := by
    constructor <;>
      simp [seqs, normInto, ipR, ssetR, R, run, step, upd_apply, Solver.CG.init, nrm, initState, hvec, hn', vF, vX, vR, vS, vP, vQ, sTmp,
        sNrhs, sEps, sRho1, sRho2, sRes, sAlpha, sCnt, sFirst]
  have hl := loop_corr ip sqrt A P f nrhs _ prm.maxiter _ _ h0
  have hrun : run A P ip (mainProg prm sqrt) s
      = step A P ip (ssetR sOut (fun e => e sRes / e sNrhs))
          (iter (fun s : St K (SEnv K) => decide (s.scal sEps < Solver.absK (s.scal sRes)))
            (run A P ip (bodyProg sqrt)) prm.maxiter
            (run A P ip (seqs [
              .prim (ssetR sEps (fun e => Solver.maxK (prm.tol * e sNrhs) prm.abstol)),
              .prim (ssetR sRho1 (fun e => Solver.two * e sEps * 1)),
              .prim (.residual (R vF) (R vX) (R vR)),
              normInto sqrt sRes vR,
              .prim (ssetR sCnt (fun _ => 0)),
              .prim (ssetR sFirst (fun _ => 0))]) s)) := by
    simp [mainProg, seqs, run]
  rw [hrun]
  obtain ⟨vf, vx, vr, vs, vp, vq, heps, hnrhs, hrho1, hres, hcnt, hfirst⟩ := hl
  refine ⟨⟨?_, ?_, ?_, ?_, ?_, ?_, ?_, ?_, ?_, ?_, ?_, ?_⟩, ?_⟩ <;>
    simp_all [step, ssetR, upd_apply, vF, vX, vR, vS, vP, vQ, sTmp, sNrhs, sEps, sRho1, sRho2, sRes, sAlpha, sCnt, sFirst, sOut]

/-- **the serial semantics of the CG program is `Solver.CG.run`**: the same `x`, the same work vectors, the same
`(iters, residual)` (the iteration counter of the program lives in `K`) -/
theorem cg_prog_eq_run (prm : Params K) (ip : Vec K → Vec K → K) (sqrt : K → K) (eps : K) (A : CRS K)
    (P : Vec K → Vec K) (ws : Solver.CG.Work K) (f x0 : Vec K) :
    (Solver.CG.run prm ip sqrt eps A P ws f x0).x
        = (run A P ip (prog prm sqrt eps) (initState ws f x0)).vec vX ∧
    (Solver.CG.run prm ip sqrt eps A P ws f x0).ws
        = ⟨(run A P ip (prog prm sqrt eps) (initState ws f x0)).vec vR,
           (run A P ip (prog prm sqrt eps) (initState ws f x0)).vec vS,
           (run A P ip (prog prm sqrt eps) (initState ws f x0)).vec vP,
           (run A P ip (prog prm sqrt eps) (initState ws f x0)).vec vQ⟩ ∧
    ∃ n : Nat, (Solver.CG.run prm ip sqrt eps A P ws f x0).out
        = .ok (n, (run A P ip (prog prm sqrt eps) (initState ws f x0)).scal sOut) ∧
      (run A P ip (prog prm sqrt eps) (initState ws f x0)).scal sCnt = (n : K) := by
  -- state after `norm_rhs = norm(rhs)`
  have hs1v : (run A P ip (normInto sqrt sNrhs vF) (initState ws f x0)).vec = (initState ws f x0).vec :=
    normInto_vec A P ip sqrt _ _ _
  have hs1n : (run A P ip (normInto sqrt sNrhs vF) (initState ws f x0)).scal sNrhs = nrm ip sqrt f := by
    rw [normInto_scal]; simp [initState, vF]
  unfold Solver.CG.run prologue
  unfold prog
  simp only [run, hs1n]
  by_cases hlt : nrm ip sqrt f < eps
  · simp only [hlt, decide_true, if_true]
    cases hns : prm.nsSearch
    · -- early return
      simp only [Bool.false_eq_true, if_false]
      refine ⟨?_, ?_, 0, ?_, ?_⟩ <;>
        simp [Run.x, Run.ws, Run.out, seqs, ipR, ssetR, R, run, step, upd_apply, normInto_vec, normInto_scal, initState, vF, vX, vR, vS, vP,
          vQ, sCnt, sOut, sNrhs]
    · simp only [if_true]
      obtain ⟨hc, ho⟩ := main_corr prm ip sqrt A P ws f x0 1
        (step A P ip (ssetR sNrhs (fun _ => 1)) (run A P ip (normInto sqrt sNrhs vF) (initState ws f x0)))
        (by simp [step, ssetR, hs1v]) (by simp [step, ssetR, upd_apply])
      have hseq : run A P ip ((Prog.prim (ssetR sNrhs fun _ => (1 : K))).seq (mainProg prm sqrt))
            (run A P ip (normInto sqrt sNrhs vF) (initState ws f x0))
          = run A P ip (mainProg prm sqrt) (step A P ip (ssetR sNrhs (fun _ => 1))
              (run A P ip (normInto sqrt sNrhs vF) (initState ws f x0))) := rfl
      rw [hseq]
      refine ⟨hc.vx.symm, ?_, _, ?_, hc.cnt⟩
      · simp only [Run.ws]; rw [hc.vr, hc.vs, hc.vp, hc.vq]
      · simp only [Run.out]; rw [ho]
  · simp only [hlt, decide_false, Bool.false_eq_true, if_false]
    obtain ⟨hc, ho⟩ := main_corr prm ip sqrt A P ws f x0 (nrm ip sqrt f)
      (run A P ip (normInto sqrt sNrhs vF) (initState ws f x0)) hs1v hs1n
    refine ⟨hc.vx.symm, ?_, _, ?_, hc.cnt⟩
    · simp only [Run.ws]; rw [hc.vr, hc.vs, hc.vp, hc.vq]
    · simp only [Run.out]; rw [ho]

end Amgcl.Lockstep.CG
