import Amgcl.Proofs.AmgApply
import Amgcl.Proofs.EnergyHier
/-!
# Bridge: the executable `Amg.cycle` / `Amg.apply` on `Array`-vectors computes the matrix recursion `Hier.B`

`vecOf n x : Fin n → K` reads an array as a vector, `matOf A n m` is the dense matrix denoted by a `CRS`.
If every smoother sweep of the model hierarchy `ls` acts as `x ↦ x + N (f − A x)` on the denoted vectors (`SweepIs`,
to be discharged per smoother from the C06 sweep theorems) and the direct solver returns `A_d⁻¹ f`, then
(`Realizes sm direct n ls h`) for **all** parameters, scratch contents, right-hand sides and initial guesses

  `vecOf (cycle prm sm direct ls scr f x).1 = step h.A (h.B p) (vecOf f) (vecOf x)`      (`cycle_realizes`)
  `vecOf (apply prm sm direct ls scr f).1  = h.applyB p pre_cycles *ᵥ vecOf f`           (`apply_realizes`)

with `p = ⟨npre, npost, ncycle⟩`, so that the theorems of `Properties/C02b.lean` about `Hier.B` speak about the model.

Inputs of `Realizes` that other packages have to supply for the *real* component models (not proved here):
1. per smoother: `SweepIs (sm.applyPre s A) n (matOf A n n) N` (and `applyPost`) with `N = jacobiN ω (matOf A)`,
   `spai0N`, `gsN` / `gsNback` (`Proofs/EnergySmoother.lean`) — from the C06 sweep theorems; the shape
   `residual; x += M·tmp` is covered by `sweepIs_of_residual_spmv` (with `M` as a diagonal `CRS`; `vmul` instead of `spmv`
   needs the analogous two-line lemma);
2. direct solver: `matOf Ad *ᵥ vecOf (direct Ad f) = vecOf f` and `IsUnit (matOf Ad).det` (C16, skyline LU);
3. for hierarchies produced by `Amg.build`: `matOf (galerkin nt A P R) = matOf R * matOf A * matOf P` (C03 `galerkin_get`),
   `matOf (transpose P) = (matOf P)ᵀ` (C08), `matOf (sortRows A) = matOf A`, and `ColsLt` from `CRS.WF`;
4. the analytic hypotheses `Hier.OK` on the input: `A` SPD, `P` injective (aggregation: every aggregate non-empty, C04),
   weak diagonal dominance of the level matrices for Jacobi / SPAI-0.
-/
set_option linter.unusedSectionVars false
namespace Amgcl.Energy.Bridge
open Amgcl Amgcl.Amg Amgcl.Relax Matrix

variable {K S : Type} [Field K] [DecidableEq K]

/-- an array read as a vector of length `n` (missing entries are `0`) -/
def vecOf (n : Nat) (x : Vec K) : Fin n → K := fun i => x.getD i.val 0

/-- the dense `n × m` matrix denoted by a `CRS` -/
def matOf (A : CRS K) (n m : Nat) : Matrix (Fin n) (Fin m) K := Matrix.of fun i j => A.get i.val j.val

/-- every stored column index is `< m` -/
def ColsLt (A : CRS K) (m : Nat) : Prop := ∀ i : Nat, ∀ cv ∈ A.row i, cv.1 < m

/-- the sweep acts as `x ↦ x + N (f − A x)` on the denoted vectors -/
def SweepIs (sw : Sweep K) (n : Nat) (A N : Matrix (Fin n) (Fin n) K) : Prop :=
  ∀ f x t : Vec K, f.size = n → x.size = n → vecOf n (sw f x t).1 = step A N (vecOf n f) (vecOf n x)

section prim

theorem rowDot_matOf (A : CRS K) {n m : Nat} (hc : ColsLt A m) (i : Fin n) (x : Vec K) :
    rowDot (A.row i.val) x = (matOf A n m *ᵥ vecOf m x) i := by
  rw [rowDot_eq_sum _ _ m (hc i.val), Finset.sum_range]
  simp [mulVec, dotProduct, matOf, vecOf, CRS.get]

theorem vecOf_residual (A : CRS K) {n m : Nat} (hn : A.nrows = n) (hc : ColsLt A m) (f x : Vec K) :
    vecOf n (residual f A x) = vecOf n f - matOf A n m *ᵥ vecOf m x := by
  funext i
  have hi : i.val < A.nrows := by rw [hn]; exact i.isLt
  simp only [vecOf, residual, getD_ofFn_lt _ _ _ hi, Pi.sub_apply]
  rw [rowDot_matOf A hc i x]

theorem vecOf_spmv0 (A : CRS K) {n m : Nat} (hn : A.nrows = n) (hc : ColsLt A m) (x y : Vec K) :
    vecOf n (spmv 1 A x 0 y) = matOf A n m *ᵥ vecOf m x := by
  funext i
  have hi : i.val < A.nrows := by rw [hn]; exact i.isLt
  simp only [vecOf, spmv, if_true, getD_ofFn_lt _ _ _ hi, one_mul]
  exact rowDot_matOf A hc i x

theorem vecOf_spmv1 (A : CRS K) {n m : Nat} (hn : A.nrows = n) (hc : ColsLt A m) (x y : Vec K) :
    vecOf n (spmv 1 A x 1 y) = matOf A n m *ᵥ vecOf m x + vecOf n y := by
  funext i
  have hi : i.val < A.nrows := by rw [hn]; exact i.isLt
  simp only [vecOf, spmv, one_ne_zero, if_false, getD_ofFn_lt _ _ _ hi, one_mul, Pi.add_apply]
  rw [rowDot_matOf A hc i x]

theorem vecOf_vclear (m : Nat) : vecOf m (vclear m : Vec K) = 0 := by
  funext i
  simp [vecOf, vclear, getD_ofFn_lt _ _ _ i.isLt]

end prim

section sweeps
variable {n : Nat} {A N : Matrix (Fin n) (Fin n) K}

theorem sweeps_is {sw : Sweep K} (h : SweepIs sw n A N) (hs : Sweep.SizeOk sw n) (k : Nat) (f x t : Vec K)
    (hf : f.size = n) (hx : x.size = n) :
    vecOf n (sweeps sw k f x t).1 = step A (powB A N k) (vecOf n f) (vecOf n x) := by
  induction k generalizing x t with
  | zero => simp [sweeps_zero, step]
  | succ k ih =>
    rw [sweeps_succ, ih _ _ (hs f x t hf hx), h f x t hf hx, step_step, ← powB_succ']

/-- the sweep shape of amgcl's damped Jacobi / SPAI-0 (`residual(rhs, A, x, tmp); x += M * tmp`) with the diagonal
`M` stored as a matrix `s`: it is the step with `N = matOf s` -/
theorem sweepIs_of_residual_spmv (A s : CRS K) {n : Nat} (hA : A.nrows = n) (hcA : ColsLt A n) (hs : s.nrows = n)
    (hcs : ColsLt s n) :
    SweepIs (fun f x _ => (spmv 1 s (residual f A x) 1 x, residual f A x)) n (matOf A n n) (matOf s n n) := by
  intro f x t _ _
  simp only
  rw [vecOf_spmv1 s hs hcs, vecOf_residual A hA hcA, step, add_comm]

/-- a smoother record of the shape of amgcl's diagonal smoothers (damped Jacobi, SPAI-0): the state is the diagonal
matrix `M` (as a `CRS`), a sweep is `residual(rhs, A, x, tmp); x += M * tmp` -/
def diagSmoother (mk : CRS K → CRS K) : Smoother K (CRS K) where
  setup A := .ok (mk A)
  applyPre s A f x _ := (spmv 1 s (residual f A x) 1 x, residual f A x)
  applyPost s A f x _ := (spmv 1 s (residual f A x) 1 x, residual f A x)
  apply s _ f := spmv 1 s f 0 f

/-- such a sweep is scratch independent, jointly linear and size preserving -/
theorem smOK_diagSmoother (mk : CRS K → CRS K) (A s : CRS K) {n : Nat} (hA : A.nrows = n) (hs : s.nrows = n) :
    SmOK ((diagSmoother mk).applyPre s A) ((diagSmoother mk).applyPost s A) n := by
  have hind : Sweep.ScratchIndep (fun (f x _t : Vec K) => (spmv 1 s (residual f A x) 1 x, residual f A x)) :=
    fun f x t t' => rfl
  have hlin : Sweep.JointlyLinear (fun (f x _t : Vec K) => (spmv 1 s (residual f A x) 1 x, residual f A x)) n := by
    intro a b f g x y t t1 t2 hf hg hx hy
    simp only
    rw [residual_vlin A a b f g x y (by rw [hf, hg]) (by rw [hx, hy]) (by rw [hf, hA]),
      spmv1_vlin s a b _ _ x y (by simp [residual_size']) (by rw [hx, hy])]
  have hsz : Sweep.SizeOk (fun (f x _t : Vec K) => (spmv 1 s (residual f A x) 1 x, residual f A x)) n := by
    intro f x t _ _; simp only; rw [spmv_size', hs]
  exact ⟨hind, hind, hlin, hlin, hsz, hsz⟩

end sweeps

section body
variable {prm : Params} {sm : Smoother K S} {s : S} {A P R : CRS K} {n m len : Nat}
variable {rc : List (Scratch K) → Vec K → Vec K → Vec K × List (Scratch K)}
variable {N₁ N₂ : Matrix (Fin n) (Fin n) K} {Bc : Matrix (Fin m) (Fin m) K}

/-- the cycle parameters as seen by `Hier.B` -/
def cyc (prm : Params) : CycPrm := ⟨prm.npre, prm.npost, prm.ncycle⟩

/-- one pass of the loop body acts as one `step` with `bodyB` -/
theorem cycleBody_is (hsm : SmOK (sm.applyPre s A) (sm.applyPost s A) n) (hsh : InnerShape A P R n m)
    (hcA : ColsLt A n) (hcP : ColsLt P m) (hcR : ColsLt R n)
    (h1 : SweepIs (sm.applyPre s A) n (matOf A n n) N₁) (h2 : SweepIs (sm.applyPost s A) n (matOf A n n) N₂)
    (_hrc : CycOK rc len m)
    (hrcB : ∀ scr g, scr.length = len → g.size = m → vecOf m (rc scr g (vclear m)).1 = Bc *ᵥ vecOf m g)
    (rhs : Vec K) (st : CycSt K) (hr : rhs.size = n) (hx : st.1.size = n) (hl : st.2.2.2.length + 1 = len) :
    vecOf n (cycleBody prm sm s A P R m rc rhs st).1 =
      step (matOf A n n) (Hier.bodyB (cyc prm) (matOf A n n) N₁ N₂ (matOf P n m) (matOf R m n) Bc)
        (vecOf n rhs) (vecOf n st.1) := by
  rw [cycleBody_x]
  set x1 := (sweeps (sm.applyPre s A) prm.npre rhs st.1 st.2.1.t).1 with hx1
  have sx1 : x1.size = n := sweeps_size _ n hsm.pre_size _ _ _ _ hr hx
  have vx1 : vecOf n x1 = step (matOf A n n) (powB (matOf A n n) N₁ prm.npre) (vecOf n rhs) (vecOf n st.1) :=
    sweeps_is h1 hsm.pre_size _ _ _ _ hr hx
  set t1 := residual rhs A x1 with ht1
  have vt1 : vecOf n t1 = vecOf n rhs - matOf A n n *ᵥ vecOf n x1 := vecOf_residual A hsh.hA hcA rhs x1
  set fn := spmv 1 R t1 0 st.2.2.1.f with hfn
  have sfn : fn.size = m := by rw [hfn, spmv_size', hsh.hR]
  have vfn : vecOf m fn = matOf R m n *ᵥ vecOf n t1 := vecOf_spmv0 R hsh.hR hcR t1 _
  set u := (rc ({ st.2.2.1 with f := fn, u := vclear m } :: st.2.2.2) fn (vclear m)).1 with hu
  have vu : vecOf m u = Bc *ᵥ vecOf m fn := hrcB _ _ (by simpa using hl) sfn
  set x2 := spmv 1 P u 1 x1 with hx2
  have sx2 : x2.size = n := by rw [hx2, spmv_size', hsh.hP]
  have vx2 : vecOf n x2 = step (matOf A n n) (matOf P n m * Bc * matOf R m n) (vecOf n rhs) (vecOf n x1) := by
    rw [hx2, vecOf_spmv1 P hsh.hP hcP u x1, vu, vfn, vt1, step, ← mulVec_mulVec, ← mulVec_mulVec, add_comm]
  rw [sweeps_is h2 hsm.post_size _ _ _ _ hr sx2, vx2, vx1, step_step, step_step, ← seqB_assoc]
  rfl

theorem iterBody_is (hsm : SmOK (sm.applyPre s A) (sm.applyPost s A) n) (hsh : InnerShape A P R n m)
    (hcA : ColsLt A n) (hcP : ColsLt P m) (hcR : ColsLt R n)
    (h1 : SweepIs (sm.applyPre s A) n (matOf A n n) N₁) (h2 : SweepIs (sm.applyPost s A) n (matOf A n n) N₂)
    (hrc : CycOK rc len m)
    (hrcB : ∀ scr g, scr.length = len → g.size = m → vecOf m (rc scr g (vclear m)).1 = Bc *ᵥ vecOf m g)
    (rhs : Vec K) (k : Nat) (st : CycSt K) (hr : rhs.size = n) (hx : st.1.size = n)
    (hl : st.2.2.2.length + 1 = len) :
    vecOf n (iter (cycleBody prm sm s A P R m rc rhs) k st).1 =
      step (matOf A n n)
        (powB (matOf A n n) (Hier.bodyB (cyc prm) (matOf A n n) N₁ N₂ (matOf P n m) (matOf R m n) Bc) k)
        (vecOf n rhs) (vecOf n st.1) := by
  induction k generalizing st with
  | zero => simp [iter, step]
  | succ k ih =>
    rw [iter_succ, ih _ (cycleBody_size hsm hsh rhs st hr) (cycleBody_len prm sm s A P R m len rc hrc rhs st hl),
      cycleBody_is hsm hsh hcA hcP hcR h1 h2 hrc hrcB rhs st hr hx hl, step_step, ← powB_succ']

end body

/-- the model hierarchy `ls` (on vectors of length `n`) realises the abstract hierarchy `h` -/
inductive Realizes (sm : Smoother K S) (direct : CRS K → Vec K → Vec K) :
    (n : Nat) → List (Level K S) → Hier K n → Prop
  | solveLast (n : Nat) (lv : Level K S) (Ad : CRS K) :
      lv.solve = some Ad → DirectOK (direct Ad) n → IsUnit (matOf Ad n n).det →
      (∀ f : Vec K, f.size = n → matOf Ad n n *ᵥ vecOf n (direct Ad f) = vecOf n f) →
      Realizes sm direct n [lv] (.direct (matOf Ad n n))
  | relaxLast (n : Nat) (lv : Level K S) (A : CRS K) (s : S) (N₁ N₂ : Matrix (Fin n) (Fin n) K) :
      lv.solve = none → lv.A = some A → lv.relax = some s → SmOK (sm.applyPre s A) (sm.applyPost s A) n →
      SweepIs (sm.applyPre s A) n (matOf A n n) N₁ → SweepIs (sm.applyPost s A) n (matOf A n n) N₂ →
      Realizes sm direct n [lv] (.relax (matOf A n n) N₁ N₂)
  | cons (n m : Nat) (lv nxt : Level K S) (rest : List (Level K S)) (A P R : CRS K) (s : S)
      (N₁ N₂ : Matrix (Fin n) (Fin n) K) (hn : Hier K m) :
      lv.A = some A → lv.relax = some s → lv.P = some P → lv.R = some R →
      SmOK (sm.applyPre s A) (sm.applyPost s A) n → InnerShape A P R n m → nxt.rows = m →
      ColsLt A n → ColsLt P m → ColsLt R n →
      SweepIs (sm.applyPre s A) n (matOf A n n) N₁ → SweepIs (sm.applyPost s A) n (matOf A n n) N₂ →
      Realizes sm direct m (nxt :: rest) hn →
      Realizes sm direct n (lv :: nxt :: rest) (.level (matOf A n n) N₁ N₂ (matOf P n m) (matOf R m n) hn)

variable {sm : Smoother K S} {direct : CRS K → Vec K → Vec K}

theorem Realizes.hierOK {n : Nat} {ls : List (Level K S)} {h : Hier K n} (hr : Realizes sm direct n ls h) :
    HierOK sm direct n ls := by
  induction hr with
  | solveLast n lv Ad hs hd _ _ => exact .solveLast n lv Ad hs hd
  | relaxLast n lv A s N₁ N₂ hs hA hrl hsm _ _ => exact .relaxLast n lv A s hs hA hrl hsm
  | cons n m lv nxt rest A P R s N₁ N₂ hn hA hrl hP hR hsm hsh hm _ _ _ _ _ _ ih =>
    exact .cons n m lv nxt rest A P R s hA hrl hP hR hsm hsh hm ih

/-- **bridge for `cycle`**: on the denoted vectors the model cycle is the affine map `x ↦ x + B (f − A x)` with the
matrix `B = Hier.B` of the abstract recursion — all parameters, all scratch contents, all levels -/
theorem cycle_realizes (prm : Params) {n : Nat} {ls : List (Level K S)} {h : Hier K n}
    (hr : Realizes sm direct n ls h) :
    ∀ (scr : List (Scratch K)) (f x : Vec K), scr.length = ls.length → f.size = n → x.size = n →
      vecOf n (cycle prm sm direct ls scr f x).1 = step h.A (h.B (cyc prm)) (vecOf n f) (vecOf n x) := by
  induction hr with
  | solveLast n lv Ad hs hd hu hinv =>
    intro scr f x hl hf hx
    match scr, hl with
    | [sc], _ =>
      simp only [cycle, hs, Hier.A, Hier.B]
      have hd' : vecOf n (direct Ad f) = (matOf Ad n n)⁻¹ *ᵥ vecOf n f := by
        rw [← hinv f hf, mulVec_mulVec, nonsing_inv_mul _ hu, one_mulVec]
      rw [hd', step, mulVec_sub, mulVec_mulVec, nonsing_inv_mul _ hu, one_mulVec]; abel
  | relaxLast n lv A s N₁ N₂ hs hA hrl hsm h1 h2 =>
    intro scr f x hl hf hx
    match scr, hl with
    | [sc], _ =>
      simp only [cycle, hs, hA, hrl, Hier.A, Hier.B]
      rw [sweeps_is h2 hsm.post_size _ _ _ _ hf (sweeps_size _ n hsm.pre_size _ _ _ _ hf hx),
        sweeps_is h1 hsm.pre_size _ _ _ _ hf hx, step_step]
      rfl
  | cons n m lv nxt rest A P R s N₁ N₂ hn hA hrl hP hR hsm hsh hm hcA hcP hcR h1 h2 hnext ih =>
    intro scr f x hl hf hx
    match scr, hl with
    | sc :: scn :: scr, hl =>
      simp only [cycle, hA, hrl, hP, hR, Hier.A, Hier.B]
      have hok : CycOK (cycle prm sm direct (nxt :: rest)) (nxt :: rest).length m := cycle_ok prm sm direct hnext.hierOK
      have hrcB : ∀ scr' g, scr'.length = (nxt :: rest).length → g.size = m →
          vecOf m (cycle prm sm direct (nxt :: rest) scr' g (vclear m)).1 = hn.B (cyc prm) *ᵥ vecOf m g := by
        intro scr' g hl' hg
        rw [ih scr' g (vclear m) hl' hg (vclear_size m), vecOf_vclear, step]; simp
      rw [hm]
      exact iterBody_is hsm hsh hcA hcP hcR h1 h2 hok hrcB f prm.ncycle (x, sc, scn, scr) hf hx
        (by simpa using hl)

/-- **bridge for `apply`** (`pre_cycles ≥ 1`): the model preconditioner is multiplication by `Hier.applyB` -/
theorem apply_realizes (prm : Params) (hpc : 0 < prm.pre_cycles) {n : Nat} {ls : List (Level K S)} {h : Hier K n}
    (hr : Realizes sm direct n ls h) (scr : List (Scratch K)) (f : Vec K) (hl : scr.length = ls.length)
    (hf : f.size = n) :
    vecOf n (apply prm sm direct ls scr f).1 = h.applyB (cyc prm) prm.pre_cycles *ᵥ vecOf n f := by
  have hok := cycle_ok prm sm direct hr.hierOK
  have key : ∀ (k : Nat) (st : Vec K × List (Scratch K)), st.1.size = n → st.2.length = ls.length →
      vecOf n (iter (fun (st : Vec K × List (Scratch K)) => cycle prm sm direct ls st.2 f st.1) k st).1 =
        step h.A (powB h.A (h.B (cyc prm)) k) (vecOf n f) (vecOf n st.1) := by
    intro k
    induction k with
    | zero => intro st _ _; simp [iter, step]
    | succ k ih =>
      intro st hs hls
      rw [iter_succ, ih _ (hok.size _ _ _ hls hf hs) (hok.len_out _ _ _ hls),
        cycle_realizes prm hr st.2 f st.1 hls hf hs, step_step, ← powB_succ']
  unfold Amg.apply
  rw [if_neg (Nat.pos_iff_ne_zero.mp hpc)]
  rw [key prm.pre_cycles (vclear f.size, scr) (by rw [vclear_size, hf]) hl, hf, vecOf_vclear, step]
  simp [Hier.applyB]

end Amgcl.Energy.Bridge
