import Amgcl.Proofs.BridgeVec
/-!
# Bridge, part 3: the direct coarse solver

`DirectExact direct Ad` is the conclusion of `C16.skyline_spec` for the function `direct : CRS K → Vec K → Vec K` of the
hierarchy model: the returned vector has the right length and satisfies every row equation of `A_d x = f`.
From it alone (no SPD hypothesis):

* `direct_mulVec`      — `matOf Ad *ᵥ vecOf (direct Ad f) = vecOf f`;
* `direct_isUnit_det`  — `matOf Ad` is invertible (the solver is a right inverse on all right-hand sides);
* `directOK_of_exact`  — the solver is linear (`Amg.DirectOK`): exact solutions of a nonsingular system are unique;
* `realizes_solveLast` — the `Realizes` clause for a direct last level.

The instance for the model's skyline LU is in `Proofs/BridgeSkyline.lean` (`skyline_directExact`; a separate module
because the import closures of `Properties/C16.lean` and `Properties/C03.lean` both declare `Amgcl.getD_setIfInBounds_ne`
and cannot be imported together).
-/
set_option linter.unusedSectionVars false
namespace Amgcl.Energy.Bridge
open Amgcl Amgcl.Amg Amgcl.Relax Matrix Finset

variable {K S : Type} [Field K] [DecidableEq K]

/-- the direct solver returns, for every right-hand side of the right length, a vector of that length that satisfies
every row equation of `Ad x = f` (what `C16.skyline_spec` proves of skyline LU) -/
def DirectExact (direct : CRS K → Vec K → Vec K) (Ad : CRS K) : Prop :=
  ∀ f : Vec K, f.size = Ad.nrows → (direct Ad f).size = Ad.nrows ∧
    ∀ r, r < Ad.nrows → ∑ c ∈ range Ad.nrows, Ad.get r c * (direct Ad f).getD c 0 = f.getD r 0

variable {direct : CRS K → Vec K → Vec K} {Ad : CRS K} {n : Nat}

theorem direct_mulVec (hex : DirectExact direct Ad) (hn : Ad.nrows = n) (f : Vec K) (hf : f.size = n) :
    matOf Ad n n *ᵥ vecOf n (direct Ad f) = vecOf n f := by
  subst hn
  funext i
  have := (hex f hf).2 i.val i.isLt
  rw [Finset.sum_range] at this
  exact this

/-- an exact solver exists only for a nonsingular matrix -/
theorem direct_isUnit_det (hex : DirectExact direct Ad) (hn : Ad.nrows = n) : IsUnit (matOf Ad n n).det := by
  rw [← isUnit_iff_isUnit_det, ← mulVec_surjective_iff_isUnit]
  intro g
  refine ⟨vecOf n (direct Ad (Array.ofFn g)), ?_⟩
  rw [direct_mulVec hex hn _ (by simp), vecOf_ofFn]

/-- an exact solver is linear -/
theorem directOK_of_exact (hex : DirectExact direct Ad) (hn : Ad.nrows = n) : DirectOK (direct Ad) n := by
  have hsz : ∀ f : Vec K, f.size = n → (direct Ad f).size = n := fun f hf => hn ▸ (hex f (hn ▸ hf)).1
  refine ⟨hsz, fun a b f g hf hg => ?_⟩
  have hu := direct_isUnit_det hex hn
  have hl : (vlin a f b g).size = n := by rw [vlin_size, hf]
  apply vecOf_ext (hsz _ hl) (by rw [vlin_size]; exact hsz f hf)
  have hinj : Function.Injective (matOf Ad n n).mulVec :=
    mulVec_injective_iff_isUnit.mpr ((isUnit_iff_isUnit_det _).mpr hu)
  apply hinj
  show matOf Ad n n *ᵥ _ = matOf Ad n n *ᵥ _
  rw [direct_mulVec hex hn _ hl, vecOf_vlin a b _ _ (hsz f hf) (hsz g hg), mulVec_add, mulVec_smul, mulVec_smul,
    direct_mulVec hex hn f hf, direct_mulVec hex hn g hg, vecOf_vlin a b f g hf hg]

/-- **the `Realizes` clause of a direct last level** -/
theorem realizes_solveLast (sm : Smoother K S) (lv : Level K S) (hs : lv.solve = some Ad)
    (hex : DirectExact direct Ad) (hn : Ad.nrows = n) :
    Realizes sm direct n [lv] (.direct (matOf Ad n n)) :=
  Realizes.solveLast n lv Ad hs (directOK_of_exact hex hn) (direct_isUnit_det hex hn)
    (fun f hf => direct_mulVec hex hn f hf)

end Amgcl.Energy.Bridge
