import Amgcl.Proofs.SolverBiCGStabLLin
/-!
TRUTHFULNESS of BiCGStab(L): the loop invariant

* `B` is the true (preconditioned) residual `Rf` of the caller's current `x`,
* `R[0] = B − A' X` (entrywise), `A' = A∘P` (right) / `P∘A` (left),
* inside the BiCG part `R[i+1] = A' R[i]`, `U[i+1] = A' U[i]` for `i < j`,
* `zeta = ‖R[0]‖`,

holds for ARBITRARY values of the scalars `alpha`, `beta` and of the polynomial coefficients `Y0` (nothing about
`QR.solve` is used except the frame lemma `polyCoef_frame`).  `done:` adds `X` resp. `P X` to `x`, whose true residual
is then `B − A' X = R[0]`.
-/
namespace Amgcl.Solver.BiCGStabL
open Amgcl Amgcl.Solver Amgcl.Solver.QR
set_option linter.unusedSectionVars false
set_option linter.unusedSimpArgs false
set_option linter.unusedVariables false

variable {K : Type} [Field K] [DecidableEq K] [LT K] [DecidableLT K]

/-- the Krylov relations among the work vectors at BiCG step `j` -/
structure Kry (n : Nat) (F : Vec K → Vec K) (j : Nat) (B X : Vec K) (R U : FArr (Vec K)) : Prop where
  szB : B.size = n
  szX : X.size = n
  szR : ∀ i, i ≤ j → (R.get i).size = n
  szU : ∀ i, i ≤ j → (U.get i).size = n
  r0 : ∀ i, i < n → (R.get 0).getD i 0 = B.getD i 0 - (F X).getD i 0
  kr : ∀ i, i < j → R.get (i + 1) = F (R.get i)
  ku : ∀ i, i < j → U.get (i + 1) = F (U.get i)

theorem Kry.mono {n : Nat} {F : Vec K → Vec K} {j j' : Nat} {B X : Vec K} {R U : FArr (Vec K)}
    (h : Kry n F j B X R U) (hj : j' ≤ j) : Kry n F j' B X R U :=
  ⟨h.szB, h.szX, fun i hi => h.szR i (by omega), fun i hi => h.szU i (by omega), h.r0,
    fun i hi => h.kr i (by omega), fun i hi => h.ku i (by omega)⟩

/-! ### one BiCG step on the vectors, for arbitrary `alpha`, `beta` -/

/-- `for(i <= j) axpby(one, *R[i], -beta, *U[i]);` -/
def stepU1 (R U : FArr (Vec K)) (beta : K) (j : Nat) : FArr (Vec K) :=
  (List.range (j + 1)).foldl (fun (U : FArr (Vec K)) i => setF U i (axpby 1 (R.get i) (-beta) (U.get i))) U

/-- … followed by `U[j+1] = A' U[j]` -/
def stepU2 (F : Vec K → Vec K) (R U : FArr (Vec K)) (beta : K) (j : Nat) : FArr (Vec K) :=
  setF (stepU1 R U beta j) (j + 1) (F ((stepU1 R U beta j).get j))

/-- `for(i <= j) axpby(-alpha, *U[i+1], one, *R[i]);` -/
def stepR1 (R U2 : FArr (Vec K)) (alpha : K) (j : Nat) : FArr (Vec K) :=
  (List.range (j + 1)).foldl (fun (R : FArr (Vec K)) i => setF R i (axpby (-alpha) (U2.get (i + 1)) 1 (R.get i))) R

/-- … followed by `R[j+1] = A' R[j]` -/
def stepR2 (F : Vec K → Vec K) (R U2 : FArr (Vec K)) (alpha : K) (j : Nat) : FArr (Vec K) :=
  setF (stepR1 R U2 alpha j) (j + 1) (F ((stepR1 R U2 alpha j).get j))

theorem stepU1_get (R U : FArr (Vec K)) (beta : K) (j k : Nat) :
    (stepU1 R U beta j).get k = if k < j + 1 then axpby 1 (R.get k) (-beta) (U.get k) else U.get k :=
  foldl_setF_range (fun i u => axpby 1 (R.get i) (-beta) u) (j + 1) U k

theorem stepR1_get (R U2 : FArr (Vec K)) (alpha : K) (j k : Nat) :
    (stepR1 R U2 alpha j).get k = if k < j + 1 then axpby (-alpha) (U2.get (k + 1)) 1 (R.get k) else R.get k :=
  foldl_setF_range (fun i r => axpby (-alpha) (U2.get (i + 1)) 1 r) (j + 1) R k

theorem stepU2_get (F : Vec K → Vec K) (R U : FArr (Vec K)) (beta : K) (j k : Nat) :
    (stepU2 F R U beta j).get k =
      if k = j + 1 then F (axpby 1 (R.get j) (-beta) (U.get j))
      else if k < j + 1 then axpby 1 (R.get k) (-beta) (U.get k) else U.get k := by
  unfold stepU2
  rw [setF_get, stepU1_get, stepU1_get, if_pos (Nat.lt_succ_self j)]

theorem stepR2_get (F : Vec K → Vec K) (R U2 : FArr (Vec K)) (alpha : K) (j k : Nat) :
    (stepR2 F R U2 alpha j).get k =
      if k = j + 1 then F (axpby (-alpha) (U2.get (j + 1)) 1 (R.get j))
      else if k < j + 1 then axpby (-alpha) (U2.get (k + 1)) 1 (R.get k) else R.get k := by
  unfold stepR2
  rw [setF_get, stepR1_get, stepR1_get, if_pos (Nat.lt_succ_self j)]

/-- **one BiCG step keeps the Krylov relations, for ANY `alpha`, `beta`** -/
theorem kry_step {n : Nat} {F : Vec K → Vec K} (hF : Lin n F) (j : Nat) (B X : Vec K) (R U : FArr (Vec K))
    (alpha beta : K) (h : Kry n F j B X R U) :
    Kry n F (j + 1) B (axpby alpha ((stepU2 F R U beta j).get 0) 1 X)
      (stepR2 F R (stepU2 F R U beta j) alpha j) (stepU2 F R U beta j) := by
  have hU2sz : ∀ i, i ≤ j + 1 → ((stepU2 F R U beta j).get i).size = n := by
    intro i hi
    rw [stepU2_get]
    by_cases h1 : i = j + 1
    · rw [if_pos h1, hF.size]
    · rw [if_neg h1, if_pos (by omega), axpby_size]; exact h.szR i (by omega)
  have hU2k : ∀ i, i < j + 1 → (stepU2 F R U beta j).get (i + 1) = F ((stepU2 F R U beta j).get i) := by
    intro i hi
    rw [stepU2_get, stepU2_get, if_neg (by omega : ¬ i = j + 1), if_pos hi]
    by_cases h1 : i = j
    · subst h1; rw [if_pos rfl]
    · rw [if_neg (by omega), if_pos (by omega), h.kr i (by omega), h.ku i (by omega),
        hF.map_axpby 1 (-beta) _ _ (h.szR i (by omega)) (h.szU i (by omega))]
  have hU0 : ((stepU2 F R U beta j).get 0).size = n := hU2sz 0 (by omega)
  refine ⟨h.szB, by rw [axpby_size]; exact hU0, ?_, hU2sz, ?_, ?_, hU2k⟩
  · intro i hi
    rw [stepR2_get]
    by_cases h1 : i = j + 1
    · rw [if_pos h1, hF.size]
    · rw [if_neg h1, if_pos (by omega), axpby_size]; exact hU2sz (i + 1) (by omega)
  · intro i hi
    rw [stepR2_get, if_neg (by omega : ¬ 0 = j + 1), if_pos (by omega : 0 < j + 1),
      axpby_getD _ _ _ _ _ (by rw [hU2sz 1 (by omega)]; exact hi), h.r0 i hi, hU2k 0 (by omega),
      hF.map_axpby alpha 1 _ _ hU0 h.szX, axpby_getD _ _ _ _ _ (by rw [hF.size]; exact hi)]
    ring
  · intro i hi
    rw [stepR2_get, stepR2_get, if_neg (by omega : ¬ i = j + 1), if_pos hi]
    by_cases h1 : i = j
    · subst h1; rw [if_pos rfl]
    · rw [if_neg (by omega), if_pos (by omega), h.kr i (by omega), hU2k (i + 1) (by omega),
        hF.map_axpby (-alpha) 1 _ _ (hU2sz (i + 1) (by omega)) (h.szR i (by omega))]

/-! ### the polynomial step on the vectors, for arbitrary coefficients `Y` -/

theorem negY_get (L : Nat) (Y : FArr K) (k : Nat) :
    (negY L Y).get k = if 1 ≤ k ∧ k < L + 1 then (-1) * Y.get k else Y.get k :=
  foldl_setF_range_drop (fun _ y => (-1) * y) (L + 1) 1 Y k

/-- `lin_comb(L, &Y0[1], &R[0], one, *X)` -/
def polyX (L : Nat) (Y : FArr K) (R : FArr (Vec K)) (X : Vec K) : Vec K :=
  linComb (combList L (fun i => Y.get (1 + i)) R.get) 1 X

/-- `lin_comb(L, &Y0[1], &V[1], one, *V[0])` with the negated coefficients -/
def polyV0 (L : Nat) (Y : FArr K) (V : FArr (Vec K)) : Vec K :=
  linComb (combList L (fun i => (negY L Y).get (1 + i)) (fun i => V.get (1 + i))) 1 (V.get 0)

theorem combList_sizes (L n : Nat) (c : Nat → K) (v : Nat → Vec K) (h : ∀ k, k < L → (v k).size = n) :
    ∀ cv ∈ combList L c v, cv.2.size = n := by
  intro cv hcv
  simp only [combList, List.mem_map, List.mem_range] at hcv
  obtain ⟨k, hk, rfl⟩ := hcv
  exact h k hk

/-- **the polynomial step keeps `R[0] = B − A' X`, for ANY coefficients** -/
theorem poly_core {n : Nat} {F : Vec K → Vec K} (hF : Lin n F) (L : Nat) (B X : Vec K) (R U : FArr (Vec K))
    (Y : FArr K) (h : Kry n F L B X R U) :
    (polyX L Y R X).size = n ∧ (polyV0 L Y R).size = n ∧ (polyV0 L Y U).size = n ∧
    ∀ i, i < n → (polyV0 L Y R).getD i 0 = B.getD i 0 - (F (polyX L Y R X)).getD i 0 := by
  have hsR := combList_sizes L n (fun i => Y.get (1 + i)) R.get (fun k hk => h.szR k (by omega))
  have hsR1 := combList_sizes L n (fun i => (negY L Y).get (1 + i)) (fun i => R.get (1 + i))
    (fun k hk => h.szR (1 + k) (by omega))
  have hsU1 := combList_sizes L n (fun i => (negY L Y).get (1 + i)) (fun i => U.get (1 + i))
    (fun k hk => h.szU (1 + k) (by omega))
  obtain ⟨x1, x2⟩ := linComb_spec n _ X hsR h.szX
  obtain ⟨r1, r2⟩ := linComb_spec n _ (R.get 0) hsR1 (h.szR 0 (by omega))
  obtain ⟨u1, _⟩ := linComb_spec n _ (U.get 0) hsU1 (h.szU 0 (by omega))
  refine ⟨x1, r1, u1, ?_⟩
  intro i hi
  have hFX := hF.sum _ X (polyX L Y R X) hsR h.szX x1 x2 i hi
  have hmap : (combList L (fun i => Y.get (1 + i)) R.get).map (fun cv => (cv.1, F cv.2))
      = combList L (fun i => Y.get (1 + i)) (fun k => F (R.get k)) := by
    simp [combList]
  rw [hmap, csum_combList] at hFX
  show (linComb _ 1 (R.get 0)).getD i 0 = _
  rw [r2 i hi, csum_combList, hFX, h.r0 i hi,
    sum_range_neg L _ (fun k => Y.get (1 + k) * (F (R.get k)).getD i 0)]
  · ring
  · intro k hk
    show (negY L Y).get (1 + k) * (R.get (1 + k)).getD i 0 = _
    rw [negY_get, if_pos ⟨by omega, by omega⟩, Nat.add_comm 1 k, h.kr k hk]
    ring

/-! ### connection with the model -/

/-- what a successful BiCG step does to the vectors: `stepU2`/`stepR2` with SOME scalars `alpha`, `beta` -/
theorem bicgStep_ok (prm : Params K) (ip : Vec K → Vec K → K) (sqrt : K → K) (A : CRS K) (P : Vec K → Vec K)
    (epsT : K) (j : Nat) (st st' : St K) (b : Bool) (h : bicgStep prm ip sqrt A P epsT j st = .ok (st', b)) :
    ∃ alpha beta : K,
      st'.w.U = stepU2 (Ap prm.pside P A) st.w.R st.w.U beta j ∧
      st'.w.R = stepR2 (Ap prm.pside P A) st.w.R st'.w.U alpha j ∧
      st'.w.X = axpby alpha (st'.w.U.get 0) 1 st.w.X ∧
      st'.w.B = st.w.B ∧ st'.x = st.x ∧ st'.zeta = nrm ip sqrt (st'.w.R.get 0) := by
  unfold bicgStep at h
  simp only [] at h
  split at h
  · cases h
  · split at h
    · cases h
    · refine ⟨ip (st.w.R.get j) st.w.Rt / ip ((stepU2 (Ap prm.pside P A) st.w.R st.w.U
          (st.alpha * (ip (st.w.R.get j) st.w.Rt / st.rho0)) j).get (j + 1)) st.w.Rt,
        st.alpha * (ip (st.w.R.get j) st.w.Rt / st.rho0), ?_⟩
      split at h <;> cases h <;>
        simp only [stepU2, stepU1, stepR2, stepR1, pspmv_fst, and_self]

/-- the invariant of the loop state inside the BiCG part at step `j` (`j = 0`: at the top of the `for` loop) -/
structure SInvJ (side : Side) (P : Vec K → Vec K) (f : Vec K) (A : CRS K) (ip : Vec K → Vec K → K) (sqrt : K → K)
    (j : Nat) (st : St K) : Prop where
  hB : st.w.B = BiCGStab.Rf side P f A st.x
  kry : Kry A.ncols (Ap side P A) j st.w.B st.w.X st.w.R st.w.U
  hz : st.zeta = nrm ip sqrt (st.w.R.get 0)

theorem bicgStep_inv (prm : Params K) (ip : Vec K → Vec K → K) (sqrt : K → K) (A : CRS K) (P : Vec K → Vec K)
    (hF : Lin A.ncols (Ap prm.pside P A)) (f : Vec K) (epsT : K) (j : Nat) (st st' : St K) (b : Bool)
    (hi : SInvJ prm.pside P f A ip sqrt j st) (h : bicgStep prm ip sqrt A P epsT j st = .ok (st', b)) :
    SInvJ prm.pside P f A ip sqrt (j + 1) st' := by
  obtain ⟨alpha, beta, e1, e2, e3, e4, e5, e6⟩ := bicgStep_ok prm ip sqrt A P epsT j st st' b h
  refine ⟨by rw [e4, e5]; exact hi.hB, ?_, e6⟩
  rw [e4, e3, e2, e1]
  exact kry_step hF j _ _ _ _ alpha beta hi.kry

theorem bicgLoop_inv (prm : Params K) (ip : Vec K → Vec K → K) (sqrt : K → K) (A : CRS K) (P : Vec K → Vec K)
    (hF : Lin A.ncols (Ap prm.pside P A)) (f : Vec K) (epsT : K) :
    ∀ (fuel j : Nat) (st st' : St K), SInvJ prm.pside P f A ip sqrt j st →
      bicgLoop prm ip sqrt A P epsT fuel j st = .ok st' →
      (st'.done = true ∧ SInvJ prm.pside P f A ip sqrt 0 st') ∨
      (st'.done = st.done ∧ SInvJ prm.pside P f A ip sqrt (j + fuel) st') := by
  intro fuel
  induction fuel with
  | zero => intro j st st' hi h; simp only [bicgLoop] at h; cases h; right; exact ⟨rfl, hi⟩
  | succ n ih =>
    intro j st st' hi h
    rw [bicgLoop] at h
    cases hs : bicgStep prm ip sqrt A P epsT j st with
    | error e => rw [hs] at h; cases h
    | ok r =>
      obtain ⟨s1, b⟩ := r
      rw [hs] at h
      have hi1 := bicgStep_inv prm ip sqrt A P hF f epsT j st s1 b hi hs
      rcases bicgStep_iter prm ip sqrt A P epsT j st s1 b hs with ⟨hb, hd, _⟩ | ⟨hb, hd, _⟩
      · subst hb
        simp only at h
        cases h
        left; exact ⟨hd, hi1.hB, hi1.kry.mono (Nat.zero_le _), hi1.hz⟩
      · subst hb
        simp only at h
        rcases ih (j + 1) s1 st' hi1 h with ⟨g1, g2⟩ | ⟨g1, g2⟩
        · left; exact ⟨g1, g2⟩
        · right; exact ⟨by rw [g1, hd], by rw [show j + (n + 1) = j + 1 + n by omega]; exact g2⟩

theorem polyX_def (L : Nat) (Y : FArr K) (R : FArr (Vec K)) (X : Vec K) :
    linComb (combList L (fun i => Y.get (1 + i)) R.get) 1 X = polyX L Y R X := rfl
theorem polyV0_def (L : Nat) (Y : FArr K) (V : FArr (Vec K)) :
    linComb (combList L (fun i => (negY L Y).get (1 + i)) (fun i => V.get (1 + i))) 1 (V.get 0) = polyV0 L Y V := rfl

/-- `B − V` written with `axpby` (the refresh) and with `axpbypcz` (the form of `pstep`) both are the vector `r`
with `r[i] = B[i] − V[i]` -/
theorem sub_forms (n : Nat) (B V r z : Vec K) (hB : B.size = n) (hr : r.size = n)
    (h : ∀ i, i < n → r.getD i 0 = B.getD i 0 - V.getD i 0) :
    axpby 1 B (-1) V = r ∧ axpbypcz 1 B (-1) V 0 z = r := by
  constructor
  · apply Vec.ext_getD (0 : K)
    · rw [axpby_size, hB, hr]
    · intro i hi
      rw [axpby_size, hB] at hi
      rw [axpby_getD _ _ _ _ _ (by rw [hB]; exact hi), h i hi]; ring
  · apply Vec.ext_getD (0 : K)
    · rw [axpbypcz_size, hB, hr]
    · intro i hi
      rw [axpbypcz_size, hB] at hi
      rw [axpbypcz_getD _ _ _ _ _ _ _ (by rw [hB]; exact hi), h i hi]; ring

theorem polyPart_inv (prm : Params K) (ip : Vec K → Vec K → K) (sqrt : K → K) (c07 : K) (A : CRS K)
    (P : Vec K → Vec K) (ok : BiCGStab.SideOK prm.pside A P) (hF : Lin A.ncols (Ap prm.pside P A)) (f : Vec K)
    (zeta0 : K) (st st' : St K)
    (hi : SInvJ prm.pside P f A ip sqrt prm.L st) (h : polyPart prm ip sqrt c07 A P zeta0 st = .ok st') :
    SInvJ prm.pside P f A ip sqrt 0 st' := by
  obtain ⟨f1, f2, f3, f4, f5, f6⟩ :=
    polyCoef_frame sqrt c07 prm.L prm.convex { st.w with MZa := gram ip prm.L st.w.R st.w.MZa }
  unfold polyPart at h
  simp only [] at h
  generalize polyCoef sqrt c07 prm.L prm.convex { st.w with MZa := gram ip prm.L st.w.R st.w.MZa } = w1
    at h f1 f2 f3 f4 f5 f6
  simp only at f1 f2 f3 f4 f5 f6
  obtain ⟨x1, r1, u1, r4⟩ := poly_core hF prm.L st.w.B st.w.X st.w.R st.w.U w1.Y0 hi.kry
  obtain ⟨s1, s2⟩ := sub_forms A.ncols st.w.B (Ap prm.pside P A (polyX prm.L w1.Y0 st.w.R st.w.X))
    (polyV0 prm.L w1.Y0 st.w.R) (polyV0 prm.L w1.Y0 st.w.R) hi.kry.szB r1 r4
  simp only [f2, f3, f5, f6, polyX_def, polyV0_def, pspmv_fst, s1] at h
  have base : ∀ s : St K, s.x = st.x → s.w.B = st.w.B → s.w.X = polyX prm.L w1.Y0 st.w.R st.w.X →
      s.w.R.get 0 = polyV0 prm.L w1.Y0 st.w.R → s.w.U.get 0 = polyV0 prm.L w1.Y0 st.w.U →
      s.zeta = nrm ip sqrt (polyV0 prm.L w1.Y0 st.w.R) → SInvJ prm.pside P f A ip sqrt 0 s := by
    intro s e1 e2 e3 e4 e5 e6
    refine ⟨by rw [e1, e2]; exact hi.hB, ⟨by rw [e2]; exact hi.kry.szB, by rw [e3]; exact x1, ?_, ?_, ?_,
      fun i hi => by omega, fun i hi => by omega⟩, by rw [e6, e4]⟩
    · intro i hi0
      have : i = 0 := by omega
      subst this; rw [e4]; exact r1
    · intro i hi0
      have : i = 0 := by omega
      subst this; rw [e5]; exact u1
    · intro i hi0
      rw [e4, e2, e3]; exact r4 i hi0
  split at h
  · cases h
  · split at h
    · split at h
      · split at h
        · -- update_x: re-base
          cases h
          refine ⟨?_, ⟨?_, ?_, ?_, ?_, ?_, fun i hi => by omega, fun i hi => by omega⟩, ?_⟩
          · show vcopy (polyV0 prm.L w1.Y0 st.w.R) = _
            rw [vcopy_eq, ← s2]
            have hp := BiCGStab.pstep prm.pside A P ok f st.x st.w.B (polyX prm.L w1.Y0 st.w.R st.w.X)
              ((setF st.w.R 0 (polyV0 prm.L w1.Y0 st.w.R)).get 0) w1.T (polyV0 prm.L w1.Y0 st.w.R) 1 hi.hB
              (fun _ => by rw [x1])
            rw [pspmv_fst] at hp
            rw [hp]
            cases prm.pside <;> rfl
          · show (vcopy (polyV0 prm.L w1.Y0 st.w.R)).size = _
            rw [vcopy_eq]; exact r1
          · show (vclear _ : Vec K).size = _
            rw [vclear_size']; exact x1
          · intro i hi0
            have : i = 0 := by omega
            subst this
            show ((setF _ 0 (polyV0 prm.L w1.Y0 st.w.R)).get 0).size = _
            rw [setF_same]; exact r1
          · intro i hi0
            have : i = 0 := by omega
            subst this
            show ((setF _ 0 (polyV0 prm.L w1.Y0 st.w.U)).get 0).size = _
            rw [setF_same]; exact u1
          · intro i hi0
            show ((setF _ 0 (polyV0 prm.L w1.Y0 st.w.R)).get 0).getD i 0
              = (vcopy (polyV0 prm.L w1.Y0 st.w.R)).getD i 0
                - (Ap prm.pside P A (vclear (polyX prm.L w1.Y0 st.w.R st.w.X).size)).getD i 0
            rw [setF_same, vcopy_eq, x1, hF.zero]; ring
          · show nrm ip sqrt _ = nrm ip sqrt ((setF _ 0 (polyV0 prm.L w1.Y0 st.w.R)).get 0)
            rw [setF_same]
        · cases h
          exact base _ rfl rfl rfl (by show (setF _ 0 _).get 0 = _; rw [setF_same])
            (by show (setF _ 0 _).get 0 = _; rw [setF_same]) rfl
      · cases h
        exact base _ rfl rfl rfl (by show (setF _ 0 _).get 0 = _; rw [setF_same])
          (by show (setF _ 0 _).get 0 = _; rw [setF_same]) rfl
    · cases h
      exact base _ rfl rfl rfl (by show (setF _ 0 _).get 0 = _; rw [setF_same])
        (by show (setF _ 0 _).get 0 = _; rw [setF_same]) rfl

/-- one pass of the `for` loop keeps the invariant — through the early exit `goto done` and through all four
branches of the "accurate update" -/
theorem body_inv (prm : Params K) (ip : Vec K → Vec K → K) (sqrt : K → K) (c07 : K) (A : CRS K)
    (P : Vec K → Vec K) (ok : BiCGStab.SideOK prm.pside A P) (hF : Lin A.ncols (Ap prm.pside P A)) (f : Vec K)
    (epsT zeta0 : K) (st st' : St K) (hi : SInvJ prm.pside P f A ip sqrt 0 st)
    (h : body prm ip sqrt c07 A P epsT zeta0 st = .ok st') : SInvJ prm.pside P f A ip sqrt 0 st' := by
  unfold body at h
  simp only [] at h
  split at h
  · cases h
  · rename_i st1 h1
    have hi0 : SInvJ prm.pside P f A ip sqrt 0 { st with rho0 := (-st.omega) * st.rho0 } := ⟨hi.hB, hi.kry, hi.hz⟩
    have := bicgLoop_inv prm ip sqrt A P hF f epsT prm.L 0 _ st1 hi0 h1
    simp only [Nat.zero_add] at this
    split at h
    · cases h
      rcases this with ⟨_, g⟩ | ⟨_, g⟩
      · exact g
      · exact ⟨g.hB, g.kry.mono (Nat.zero_le _), g.hz⟩
    · rename_i hdone
      rcases this with ⟨g, _⟩ | ⟨_, g⟩
      · exact absurd g hdone
      · exact polyPart_inv prm ip sqrt c07 A P ok hF f zeta0 st1 st' g h

theorem init_inv (prm : Params K) (ip : Vec K → Vec K → K) (sqrt : K → K) (A : CRS K) (P : Vec K → Vec K)
    (ok : BiCGStab.SideOK prm.pside A P) (hsq : A.nrows = A.ncols) (hF : Lin A.ncols (Ap prm.pside P A))
    (ws : Work K) (f x0 : Vec K) :
    SInvJ prm.pside P f A ip sqrt 0 (init prm ip sqrt A P ws f x0) := by
  have hsz : (BiCGStab.Rf prm.pside P f A x0).size = A.ncols := by
    unfold BiCGStab.Rf
    cases prm.pside with
    | left => exact ok.psize _
    | right => show (residual f A x0).size = _; rw [residual_size', hsq]
  refine ⟨init_B prm ip sqrt A P ws f x0, ⟨?_, ?_, ?_, ?_, ?_, fun i hi => by omega, fun i hi => by omega⟩, ?_⟩
  · rw [init_B]; exact hsz
  · rw [init_X, vclear_size']; exact hsz
  · intro i hi0
    have : i = 0 := by omega
    subst this; rw [init_R0]; exact hsz
  · intro i hi0
    have : i = 0 := by omega
    subst this; rw [init_U0, vclear_size']; exact hsz
  · intro i hi0
    rw [init_R0, init_B, init_X, hsz, hF.zero]; ring
  · rw [init_zeta, init_R0]

/-- the invariant holds on every normal exit of the loop -/
theorem final_inv (prm : Params K) (ip : Vec K → Vec K → K) (sqrt : K → K) (c07 : K) (A : CRS K)
    (P : Vec K → Vec K) (ok : BiCGStab.SideOK prm.pside A P) (hsq : A.nrows = A.ncols)
    (hF : Lin A.ncols (Ap prm.pside P A)) (ws : Work K) (f x0 : Vec K) (nf : K) (st : St K)
    (h : final prm ip sqrt c07 A P ws f x0 nf = (none, st)) : SInvJ prm.pside P f A ip sqrt 0 st := by
  unfold final loop at h
  exact loopE_inv _ _ (fun t : St K => SInvJ prm.pside P f A ip sqrt 0 t)
    (fun s s' hi _ hb => body_inv prm ip sqrt c07 A P ok hF f _ _ s s' hi hb) _ _ _
    (init_inv prm ip sqrt A P ok hsq hF ws f x0) h

/-- label `done:` — the vector handed back has the (preconditioned) true residual `R[0]` -/
theorem finish_Rf (prm : Params K) (ip : Vec K → Vec K → K) (sqrt : K → K) (A : CRS K) (P : Vec K → Vec K)
    (ok : BiCGStab.SideOK prm.pside A P) (f : Vec K) (st : St K) (hi : SInvJ prm.pside P f A ip sqrt 0 st) :
    BiCGStab.Rf prm.pside P f A (finish prm.pside P st).1 = st.w.R.get 0 := by
  obtain ⟨_, s2⟩ := sub_forms A.ncols st.w.B (Ap prm.pside P A st.w.X) (st.w.R.get 0) (st.w.R.get 0)
    hi.kry.szB (hi.kry.szR 0 (Nat.le_refl 0)) hi.kry.r0
  have hp := BiCGStab.pstep prm.pside A P ok f st.x st.w.B st.w.X st.w.X st.w.T (st.w.R.get 0) 1 hi.hB
    (fun _ => by rw [hi.kry.szX])
  rw [pspmv_fst, s2] at hp
  rw [hp]
  unfold finish
  cases prm.pside <;> rfl

/-- **BiCGStab(L) reports the true (preconditioned) residual of the `x` it returns** — through the early exit
`goto done`, the normal end of the loop and every branch of the "accurate update" (`delta > 0`), for every `L`.

Hypotheses: `A` well formed and SQUARE, `P` returns vectors of length `ncols` (`SideOK`), and `P` LINEAR (`PLin`) on
BOTH preconditioning sides.  Linearity is needed on the right side as well (unlike BiCGStab): BiCGStab(L) accumulates
the correction `X` in the preconditioned space and applies `P` to the SUM only at the label `done` / in the
`update_x` branch, so `A P (X + α U₀) = A P X + α A P U₀` is used in every step.  Nothing is assumed about the scalars
(`alpha`, `beta`, the polynomial coefficients from `qr.solve`): the statement is a pure consequence of the paired
updates. -/
theorem solve_truthful (prm : Params K) (ip : Vec K → Vec K → K) (sqrt : K → K) (eps c07 : K) (A : CRS K)
    (P : Vec K → Vec K) (ok : BiCGStab.SideOK prm.pside A P) (hsq : A.nrows = A.ncols) (hlin : PLin A.nrows P)
    (ws : Work K) (f x0 : Vec K) (it : Nat) (res : K) (x : Vec K) (w : Work K)
    (h : solve prm ip sqrt eps c07 A P ws f x0 = .ok (it, res, x, w)) :
    res = reported (prologue prm.nsSearch ip sqrt eps f) (nrm ip sqrt (BiCGStab.Rf prm.pside P f A x)) := by
  have hF : Lin A.ncols (Ap prm.pside P A) := Ap_lin prm.pside P A ok.wf hsq ok.psize hlin
  rw [solve, Run.toExcept_ok] at h
  cases hp : prologue prm.nsSearch ip sqrt eps f with
  | trivial n =>
    rw [run_trivial _ _ _ _ _ _ _ _ _ _ n hp] at h
    simp only [Prod.mk.injEq, Except.ok.injEq] at h
    simp [reported, h.1.2]
  | go nf =>
    rw [run_go _ _ _ _ _ _ _ _ _ _ nf hp] at h
    cases hfin : final prm ip sqrt c07 A P ws f x0 nf with
    | mk oe st =>
      rw [hfin] at h
      cases oe with
      | some e => simp at h
      | none =>
        simp only [Prod.mk.injEq, Except.ok.injEq] at h
        obtain ⟨⟨_, h2⟩, h3, _⟩ := h
        have hi := final_inv prm ip sqrt c07 A P ok hsq hF ws f x0 nf st hfin
        simp only [reported]
        rw [← h2, ← h3, finish_Rf prm ip sqrt A P ok f st hi, hi.hz]

end Amgcl.Solver.BiCGStabL
