import Amgcl.Model.CuthillMcKee
import Amgcl.Proofs.Array2
import Mathlib.Data.Finset.Card
/-!
Invariant of the main loop of `cuthill_mckee::get` (model `Model/CuthillMcKee.lean`) and its preservation by the two
places that number a node (`visitCol`, `fallback`).

* `Lab`   – `perm[0..next)` lists exactly the nodes with `levelSet ≠ 0`, without repetition;
* `Link`  – a list head / list link is `-1` or a node that has already been numbered;
* `Chn`   – `nextSameDegree` of the `k`-th numbered node is `-1` or a node numbered EARLIER (so every list is acyclic and
            has at most `next` members); `nextSameDegree` of a node that is not numbered is still `-1`.
-/
namespace Amgcl.CMK
open Amgcl.Arr2

/-! ## outcomes -/

@[simp] theorem bind_def {α β : Type} (x : Res α) (f : α → Res β) : x >>= f = x.bind f := rfl
@[simp] theorem pure_def {α : Type} (a : α) : (pure a : Res α) = .ok a := rfl
@[simp] theorem Res.bind_ok {α β : Type} (a : α) (f : α → Res β) : (Res.ok a).bind f = f a := rfl

theorem rd_ok {α : Type} {a : Array α} {i : Nat} (d : α) (h : i < a.size) : rd a i = .ok (a.getD i d) := by
  unfold rd; rw [dif_pos h]; simp [Array.getD, h]

theorem wr_ok {α : Type} {a : Array α} {i : Nat} (v : α) (h : i < a.size) : wr a i v = .ok (a.setIfInBounds i v) := by
  unfold wr; rw [if_pos h]

theorem getD_replicate {α : Type} (m : Nat) (v d : α) (i : Nat) :
    (Array.replicate m v).getD i d = if i < m then v else d := by
  simp only [Array.getD_eq_getD_getElem?, Array.getElem?_replicate]
  by_cases h : i < m <;> simp [h]

/-! ## counting -/

/-- an injective map of `0..m-1` into `0..n-1` -/
theorem count_bound (n m : Nat) (f : Nat → Nat) (hlt : ∀ k, k < m → f k < n)
    (hinj : ∀ j k, j < m → k < m → f j = f k → j = k) : m ≤ n := by
  have := Finset.card_le_card_of_injOn (s := Finset.range m) (t := Finset.range n) f
    (by intro a ha; simp only [Finset.coe_range, Set.mem_Iio] at ha ⊢; exact hlt a ha)
    (by intro a ha b hb hab; simp only [Finset.coe_range, Set.mem_Iio] at ha hb; exact hinj a b ha hb hab)
  simpa using this

/-- a map of `0..m-1` onto `0..n-1` -/
theorem cover_bound (n m : Nat) (f : Nat → Nat) (hsur : ∀ v, v < n → ∃ k, k < m ∧ f k = v) : n ≤ m := by
  have h' : ∀ v, ∃ k, v < n → (k < m ∧ f k = v) := by
    intro v
    by_cases hv : v < n
    · obtain ⟨k, hk⟩ := hsur v hv; exact ⟨k, fun _ => hk⟩
    · exact ⟨0, fun h => absurd h hv⟩
  choose g hg using h'
  apply count_bound m n g (fun v hv => (hg v hv).1)
  intro a b ha hb hab
  have h1 := (hg a ha).2; have h2 := (hg b hb).2
  rw [← h1, ← h2, hab]

/-! ## `perm[0..next)` = the numbered nodes -/

structure Lab (n : Nat) (perm levelSet : Array Nat) (next : Nat) : Prop where
  hperm : perm.size = n
  hls : levelSet.size = n
  lab : ∀ k, k < next → perm.getD k 0 < n ∧ levelSet.getD (perm.getD k 0) 0 ≠ 0
  cov : ∀ v, v < n → levelSet.getD v 0 ≠ 0 → ∃ k, k < next ∧ perm.getD k 0 = v
  inj : ∀ j k, j < next → k < next → perm.getD j 0 = perm.getD k 0 → j = k

namespace Lab
variable {n : Nat} {perm levelSet : Array Nat} {next : Nat}

theorem next_le (h : Lab n perm levelSet next) : next ≤ n :=
  count_bound n next (fun k => perm.getD k 0) (fun k hk => (h.lab k hk).1) h.inj

/-- a node that is not numbered yet leaves room in `perm` -/
theorem next_lt (h : Lab n perm levelSet next) {c : Nat} (hc : c < n) (hl : levelSet.getD c 0 = 0) : next < n := by
  have := count_bound n (next + 1) (fun k => if k < next then perm.getD k 0 else c)
    (by intro k _; by_cases h1 : k < next
        · simp only [h1, if_true]; exact (h.lab k h1).1
        · simp only [h1, if_false]; exact hc)
    (by intro j k hj hk hjk
        by_cases h1 : j < next <;> by_cases h2 : k < next <;> simp only [h1, h2, if_true, if_false] at hjk
        · exact h.inj j k h1 h2 hjk
        · exact absurd (hjk ▸ hl) (h.lab j h1).2
        · exact absurd (hjk ▸ hl) (h.lab k h2).2
        · omega)
  omega

/-- if every node is numbered, `perm` is full -/
theorem full (h : Lab n perm levelSet next) (hall : ∀ v, v < n → levelSet.getD v 0 ≠ 0) : n ≤ next :=
  cover_bound n next (fun k => perm.getD k 0) (fun v hv => h.cov v hv (hall v hv))

/-- numbering one more node: `perm[next] = c; levelSet[c] = L; ++next` -/
theorem step (h : Lab n perm levelSet next) {c L : Nat} (hc : c < n) (hl : levelSet.getD c 0 = 0) (hL : L ≠ 0) :
    Lab n (perm.setIfInBounds next c) (levelSet.setIfInBounds c L) (next + 1) := by
  have hnext : next < n := h.next_lt hc hl
  have hpn : next < perm.size := by rw [h.hperm]; exact hnext
  have hcl : c < levelSet.size := by rw [h.hls]; exact hc
  have pget : ∀ k, (perm.setIfInBounds next c).getD k 0 = if k = next then c else perm.getD k 0 := by
    intro k; rw [getD_setIfInBounds]
    by_cases hk : k = next
    · subst hk; simp [hpn]
    · have : ¬ (next = k) := fun e => hk e.symm
      simp [hk, this]
  have lget : ∀ v, (levelSet.setIfInBounds c L).getD v 0 = if v = c then L else levelSet.getD v 0 := by
    intro v; rw [getD_setIfInBounds]
    by_cases hv : v = c
    · subst hv; simp [hcl]
    · have : ¬ (c = v) := fun e => hv e.symm
      simp [hv, this]
  refine ⟨by simp [h.hperm], by simp [h.hls], ?_, ?_, ?_⟩
  · intro k hk
    rw [pget, lget]
    by_cases h1 : k = next
    · simp only [h1, if_true]; exact ⟨hc, hL⟩
    · simp only [h1, if_false]
      have hk' : k < next := by omega
      refine ⟨(h.lab k hk').1, ?_⟩
      by_cases h2 : perm.getD k 0 = c
      · simp only [h2, if_true]; exact hL
      · simp only [h2, if_false]; exact (h.lab k hk').2
  · intro v hv hne
    rw [lget] at hne
    by_cases h1 : v = c
    · exact ⟨next, by omega, by rw [pget]; simp [h1]⟩
    · simp only [h1, if_false] at hne
      obtain ⟨k, hk, hkv⟩ := h.cov v hv hne
      exact ⟨k, by omega, by rw [pget]; have : k ≠ next := by omega
                             simp [this, hkv]⟩
  · intro j k hj hk hjk
    rw [pget, pget] at hjk
    by_cases h1 : j = next <;> by_cases h2 : k = next <;> simp only [h1, h2, if_true, if_false] at hjk
    · omega
    · exact absurd (hjk ▸ hl) (h.lab k (by omega)).2
    · exact absurd (hjk ▸ hl) (h.lab j (by omega)).2
    · exact h.inj j k (by omega) (by omega) hjk

end Lab

/-! ## list heads and links -/

/-- `-1` or a node that has been numbered -/
def Link (perm : Array Nat) (next : Nat) (e : Int) : Prop :=
  e = -1 ∨ ∃ j, j < next ∧ e = ((perm.getD j 0 : Nat) : Int)

theorem Link.step {perm : Array Nat} {next : Nat} {e : Int} (h : Link perm next e) (c : Nat) :
    Link (perm.setIfInBounds next c) (next + 1) e := by
  rcases h with h | ⟨j, hj, he⟩
  · exact Or.inl h
  · exact Or.inr ⟨j, by omega, by rw [getD_setIfInBounds_ne _ _ _ (by omega : next ≠ j)]; exact he⟩

theorem Link.new {perm : Array Nat} {next : Nat} (c : Nat) (h : next < perm.size) :
    Link (perm.setIfInBounds next c) (next + 1) (c : Int) :=
  Or.inr ⟨next, by omega, by rw [getD_setIfInBounds_self _ _ _ h]⟩

/-! ## the linked lists are acyclic -/

structure Chn (perm levelSet : Array Nat) (ns : Array Int) (next : Nat) : Prop where
  chain : ∀ k, k < next → ns.getD (perm.getD k 0) (-1) = -1 ∨
            ∃ j, j < k ∧ ns.getD (perm.getD k 0) (-1) = ((perm.getD j 0 : Nat) : Int)
  unl : ∀ v, levelSet.getD v 0 = 0 → ns.getD v (-1) = -1

/-- numbering node `c`; `ns'` differs from `ns` at most at `c`, where it holds a link to an earlier node -/
theorem Chn.step {n : Nat} {perm levelSet : Array Nat} {ns ns' : Array Int} {next : Nat}
    (h : Chn perm levelSet ns next) (hl : Lab n perm levelSet next) {c L : Nat} (hc : c < n)
    (hlc : levelSet.getD c 0 = 0) (hL : L ≠ 0)
    (hsame : ∀ v, v ≠ c → ns'.getD v (-1) = ns.getD v (-1)) (hnew : Link perm next (ns'.getD c (-1))) :
    Chn (perm.setIfInBounds next c) (levelSet.setIfInBounds c L) ns' (next + 1) := by
  have hnext : next < n := hl.next_lt hc hlc
  have hpn : next < perm.size := by rw [hl.hperm]; exact hnext
  have hcl : c < levelSet.size := by rw [hl.hls]; exact hc
  have pold : ∀ k, k < next → (perm.setIfInBounds next c).getD k 0 = perm.getD k 0 := by
    intro k hk; exact getD_setIfInBounds_ne _ _ _ (by omega)
  have pnew : (perm.setIfInBounds next c).getD next 0 = c := getD_setIfInBounds_self _ _ _ hpn
  constructor
  · intro k hk
    by_cases h1 : k = next
    · subst h1
      rw [pnew]
      rcases hnew with h2 | ⟨j, hj, h2⟩
      · exact Or.inl h2
      · exact Or.inr ⟨j, hj, by rw [pold j hj]; exact h2⟩
    · have hk' : k < next := by omega
      rw [pold k hk']
      have hne : perm.getD k 0 ≠ c := fun e => (hl.lab k hk').2 (e ▸ hlc)
      rw [hsame _ hne]
      rcases h.chain k hk' with h2 | ⟨j, hj, h2⟩
      · exact Or.inl h2
      · exact Or.inr ⟨j, hj, by rw [pold j (by omega)]; exact h2⟩
  · intro v hv
    rw [getD_setIfInBounds] at hv
    by_cases h1 : c = v
    · subst h1; simp [hcl] at hv; exact absurd hv hL
    · simp only [h1, false_and, if_false] at hv
      rw [hsame v (fun e => h1 e.symm)]
      exact h.unl v hv

/-! ## the invariant of the main loop -/

structure Inv (n maxDeg : Nat) (s : St) : Prop where
  lab : Lab n s.perm s.levelSet s.next
  hns : s.nextSameDegree.size = n
  hf : s.firstWithDegree.size = maxDeg + 1
  hnf : s.nFirstWithDegree.size = maxDeg + 1
  lf : ∀ d, Link s.perm s.next (s.firstWithDegree.getD d (-1))
  lnf : ∀ d, Link s.perm s.next (s.nFirstWithDegree.getD d (-1))
  chn : Chn s.perm s.levelSet s.nextSameDegree s.next
  hmd : s.maxDegreeInCurrentLevelSet ≤ maxDeg
  hnm : s.nMDICLS ≤ maxDeg
  hcls : 0 < s.currentLevelSet

/-- what a traversal step may change: `perm[0..next)` is kept, `next` does not decrease, and `empty` is only cleared
together with an increase of `next` -/
structure Ext (s s' : St) : Prop where
  next_le : s.next ≤ s'.next
  pre : ∀ k, k < s.next → s'.perm.getD k 0 = s.perm.getD k 0
  prog : s'.empty = false → s.empty = false ∨ s.next < s'.next
  keep : s.empty = false → s'.empty = false
  stay : s'.empty = true → s'.next = s.next

theorem Ext.refl (s : St) : Ext s s := ⟨Nat.le_refl _, fun _ _ => rfl, fun h => Or.inl h, fun h => h, fun _ => rfl⟩

theorem Ext.trans {s s' s'' : St} (h : Ext s s') (h' : Ext s' s'') : Ext s s'' := by
  refine ⟨Nat.le_trans h.next_le h'.next_le, ?_, ?_, fun he => h'.keep (h.keep he), ?_⟩
  · intro k hk; rw [h'.pre k (by have := h.next_le; omega), h.pre k hk]
  · intro he
    rcases h'.prog he with h1 | h1
    · rcases h.prog h1 with h2 | h2
      · exact Or.inl h2
      · exact Or.inr (by have := h'.next_le; omega)
    · exact Or.inr (by have := h.next_le; omega)
  · intro he
    have he' : s'.empty = true := by
      cases hb : s'.empty with
      | true => rfl
      | false => rw [h'.keep hb] at he; exact absurd he (by simp)
    rw [h'.stay he, h.stay he']

end Amgcl.CMK
