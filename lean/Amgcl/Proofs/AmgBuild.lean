import Amgcl.Model.Amg
/-!
Structure of a hierarchy produced by `Amg.doInit`: the `Chain` predicate (every level's matrix is the sorted
coarse operator of the previous level for the transfer operators chosen there; the last level is a smoother
level or a direct-solver level) and the proof that `doInit` establishes it.
-/
namespace Amgcl
namespace Amg

variable {K S : Type} [Add K] [Mul K] [Zero K] [One K]

/-- level `lv` is an inner level for the system matrix `A`: smoother set up on `A`, transfer operators are the
(row-sorted) `idx`-th answer of the coarsening, retained iff `allow_rebuild` -/
structure InnerLevel (pol : Policy K) (sm : Relax.Smoother K S) (allow : Bool) (idx : Nat) (A : CRS K)
    (lv : Level K S) (P R : CRS K) : Prop where
  hA : lv.A = some A
  hrows : lv.rows = A.nrows
  hsolve : lv.solve = none
  hrelax : ∃ s, sm.setup A = .ok s ∧ lv.relax = some s
  htr : ∃ P0 R0, pol.transfer idx A = some (P0, R0) ∧ P = sortRows P0 ∧ R = sortRows R0
  hP : lv.P = some P
  hR : lv.R = some R
  hbP : lv.bP = if allow then some P else none
  hbR : lv.bR = if allow then some R else none

/-- a smoother-only last level (no coarse solve below it) -/
structure RelaxLast (sm : Relax.Smoother K S) (A : CRS K) (lv : Level K S) : Prop where
  hA : lv.A = some A
  hrows : lv.rows = A.nrows
  hsolve : lv.solve = none
  hrelax : ∃ s, sm.setup A = .ok s ∧ lv.relax = some s
  hP : lv.P = none
  hR : lv.R = none
  hbP : lv.bP = none
  hbR : lv.bR = none

/-- a direct-solver last level -/
structure SolveLast (A : CRS K) (single : Bool) (lv : Level K S) : Prop where
  hsolve : lv.solve = some A
  hrows : lv.rows = A.nrows
  hA : lv.A = if single then some A else none
  hrelax : lv.relax = none
  hP : lv.P = none
  hR : lv.R = none
  hbP : lv.bP = none
  hbR : lv.bR = none

/-- `Chain idx A ls`: `ls` is a hierarchy for the system matrix `A` whose first level is the `idx`-th one -/
inductive Chain (pol : Policy K) (sm : Relax.Smoother K S) (allow : Bool) : Nat → CRS K → List (Level K S) → Prop
  | relaxLast (idx : Nat) (A : CRS K) (lv : Level K S) : RelaxLast sm A lv → Chain pol sm allow idx A [lv]
  | solveLast (idx : Nat) (A : CRS K) (lv : Level K S) : SolveLast A (idx == 0) lv → Chain pol sm allow idx A [lv]
  | cons (idx : Nat) (A : CRS K) (lv : Level K S) (P R : CRS K) (rest : List (Level K S)) :
      InnerLevel pol sm allow idx A lv P R → rest ≠ [] →
      Chain pol sm allow (idx + 1) (sortRows (pol.coarseOp A P R)) rest → Chain pol sm allow idx A (lv :: rest)

/-- a stepped-down prefix: `levels` are inner levels leading from `A0` (index `idx`) to the current matrix `A` -/
inductive Pre (pol : Policy K) (sm : Relax.Smoother K S) (allow : Bool) : Nat → CRS K → List (Level K S) → CRS K → Prop
  | nil (idx : Nat) (A : CRS K) : Pre pol sm allow idx A [] A
  | cons (idx : Nat) (A : CRS K) (lv : Level K S) (P R : CRS K) (rest : List (Level K S)) (A' : CRS K) :
      InnerLevel pol sm allow idx A lv P R →
      Pre pol sm allow (idx + 1) (sortRows (pol.coarseOp A P R)) rest A' → Pre pol sm allow idx A (lv :: rest) A'

theorem Pre.snoc {pol : Policy K} {sm : Relax.Smoother K S} {allow : Bool} {idx : Nat} {A0 A : CRS K}
    {levels : List (Level K S)} (h : Pre pol sm allow idx A0 levels A) (lv : Level K S) (P R : CRS K)
    (hl : InnerLevel pol sm allow (idx + levels.length) A lv P R) :
    Pre pol sm allow idx A0 (levels ++ [lv]) (sortRows (pol.coarseOp A P R)) := by
  induction h with
  | nil idx A => simpa using Pre.cons idx A lv P R [] _ (by simpa using hl) (Pre.nil _ _)
  | cons idx A lv0 P0 R0 rest A' h0 _ ih =>
    have : idx + 1 + rest.length = idx + (lv0 :: rest).length := by simp; omega
    exact Pre.cons idx A lv0 P0 R0 (rest ++ [lv]) _ h0 (ih (by rw [this]; exact hl))

theorem Pre.append_chain {pol : Policy K} {sm : Relax.Smoother K S} {allow : Bool} {idx : Nat} {A0 A : CRS K}
    {levels : List (Level K S)} (h : Pre pol sm allow idx A0 levels A) (tail : List (Level K S)) (ht : tail ≠ [])
    (hc : Chain pol sm allow (idx + levels.length) A tail) : Chain pol sm allow idx A0 (levels ++ tail) := by
  induction h with
  | nil idx A => simpa using hc
  | cons idx A lv0 P0 R0 rest A' h0 _ ih =>
    have : idx + 1 + rest.length = idx + (lv0 :: rest).length := by simp; omega
    exact Chain.cons idx A lv0 P0 R0 (rest ++ tail) h0 (by simp [ht]) (ih (by rw [this]; exact hc))

/-- what `mkLevel` returns -/
theorem mkLevel_ok {sm : Relax.Smoother K S} {A : CRS K} {lv : Level K S} (h : mkLevel sm A = .ok lv) :
    RelaxLast sm A lv := by
  unfold mkLevel at h
  cases hs : sm.setup A with
  | ok s =>
    rw [hs] at h
    have : lv = { rows := A.nrows, A := some A, relax := some s } := by cases h; rfl
    subst this
    exact ⟨rfl, rfl, rfl, ⟨s, hs, rfl⟩, rfl, rfl, rfl, rfl⟩
  | precondition => rw [hs] at h; cases h
  | undefinedInput => rw [hs] at h; cases h

/-- the result of `initLoop`: a stepped-down prefix, followed either by nothing (the current matrix is small
enough, or `max_levels` was hit / the level could not be coarsened and the last level is a smoother level) -/
inductive LoopResult (prm : Params) (pol : Policy K) (sm : Relax.Smoother K S) (idx : Nat) (A0 : CRS K) :
    List (Level K S) × Option (CRS K) → Prop
  | small (levels : List (Level K S)) (A : CRS K) :
      Pre pol sm prm.allow_rebuild idx A0 levels A → A.nrows ≤ prm.coarse_enough →
      LoopResult prm pol sm idx A0 (levels, some A)
  | maxLevels (levels : List (Level K S)) (A : CRS K) (lv : Level K S) :
      Pre pol sm prm.allow_rebuild idx A0 levels A → prm.coarse_enough < A.nrows → RelaxLast sm A lv →
      idx + levels.length + 1 ≥ prm.max_levels →
      LoopResult prm pol sm idx A0 (levels ++ [lv], some A)
  | emptyLevel (levels : List (Level K S)) (A : CRS K) (lv : Level K S) :
      Pre pol sm prm.allow_rebuild idx A0 levels A → prm.coarse_enough < A.nrows → RelaxLast sm A lv →
      pol.transfer (idx + levels.length) A = none →
      LoopResult prm pol sm idx A0 (levels ++ [lv], none)

theorem initLoop_spec (prm : Params) (pol : Policy K) (sm : Relax.Smoother K S) (A0 : CRS K) :
    ∀ (fuel : Nat) (levels : List (Level K S)) (A : CRS K) (res : List (Level K S) × Option (CRS K)),
      Pre pol sm prm.allow_rebuild 0 A0 levels A →
      initLoop prm pol sm fuel levels A = .ok res → LoopResult prm pol sm 0 A0 res := by
  intro fuel
  induction fuel with
  | zero => intro levels A res _ h; simp [initLoop] at h
  | succ fuel ih =>
    intro levels A res hpre h
    unfold initLoop at h
    by_cases hbig : A.nrows > prm.coarse_enough
    · rw [if_pos hbig] at h
      cases hmk : mkLevel sm A with
      | error e => rw [hmk] at h; cases h
      | ok lv =>
        rw [hmk] at h
        simp only at h
        have hlv := mkLevel_ok hmk
        by_cases hmax : levels.length + 1 ≥ prm.max_levels
        · rw [if_pos hmax] at h
          cases h
          exact LoopResult.maxLevels levels A lv hpre hbig hlv (by omega)
        · rw [if_neg hmax] at h
          unfold stepDown at h
          cases htr : pol.transfer levels.length A with
          | none =>
            rw [htr] at h
            simp only at h
            cases h
            exact LoopResult.emptyLevel levels A lv hpre hbig hlv (by simpa using htr)
          | some pr =>
            obtain ⟨P0, R0⟩ := pr
            rw [htr] at h
            simp only at h
            apply ih _ _ _ _ h
            apply Pre.snoc hpre
            exact ⟨hlv.hA, hlv.hrows, hlv.hsolve, hlv.hrelax, ⟨P0, R0, by simpa using htr, rfl, rfl⟩, rfl, rfl, rfl, rfl⟩
    · rw [if_neg hbig] at h
      cases h
      exact LoopResult.small levels A hpre (by omega)

theorem Pre.length_idx {pol : Policy K} {sm : Relax.Smoother K S} {allow : Bool} {idx : Nat} {A0 A : CRS K}
    {levels : List (Level K S)} (_ : Pre pol sm allow idx A0 levels A) : True := trivial

/-- **the hierarchy built by `do_init` is a chain** -/
theorem doInit_chain (prm : Params) (pol : Policy K) (sm : Relax.Smoother K S) (directOk : CRS K → Bool)
    (A : CRS K) (ls : List (Level K S)) (h : doInit prm pol sm directOk A = .ok ls) :
    Chain pol sm prm.allow_rebuild 0 A ls := by
  unfold doInit at h
  by_cases hsq : A.nrows ≠ A.ncols
  · rw [if_pos hsq] at h; cases h
  rw [if_neg hsq] at h
  cases hl : initLoop prm pol sm (A.nrows + 2) [] A with
  | error e => rw [hl] at h; cases h
  | ok res =>
    rw [hl] at h
    have hres := initLoop_spec prm pol sm A (A.nrows + 2) [] A res (Pre.nil 0 A) hl
    cases hres with
    | small levels Ac hpre hsm =>
      simp only at h
      rw [if_neg (by omega)] at h
      by_cases hdc : prm.direct_coarse
      · rw [if_pos hdc] at h
        by_cases hok : directOk Ac
        · simp only [hok, Bool.not_true, Bool.false_eq_true, if_false] at h
          cases h
          apply Pre.append_chain hpre _ (by simp)
          apply Chain.solveLast
          refine ⟨rfl, rfl, ?_, rfl, rfl, rfl, rfl, rfl⟩
          simp only [Nat.zero_add]
          cases levels <;> simp
        · simp [hok] at h
      · rw [if_neg hdc] at h
        cases hmk : mkLevel sm Ac with
        | error e => rw [hmk] at h; cases h
        | ok lv =>
          rw [hmk] at h
          cases h
          exact Pre.append_chain hpre _ (by simp) (Chain.relaxLast _ _ _ (mkLevel_ok hmk))
    | maxLevels levels Ac lv hpre hbig hlv _ =>
      simp only at h
      rw [if_pos hbig] at h
      cases h
      exact Pre.append_chain hpre _ (by simp) (Chain.relaxLast _ _ _ hlv)
    | emptyLevel levels Ac lv hpre _ hlv _ =>
      simp only at h
      cases h
      exact Pre.append_chain hpre _ (by simp) (Chain.relaxLast _ _ _ hlv)

end Amg
end Amgcl
