import Amgcl.Proofs.PowerMethod
/-!
# the power-method model on a diagonal matrix started at a multiple of a unit vector (helper of `Properties/C08e.lean`)
-/
namespace Amgcl.PM
open Amgcl

section
variable {K : Type} [Field K] [LinearOrder K] [IsStrictOrderedRing K]

/-- `σ e_k` as a vector of length `n` -/
def unitVec (n k : Nat) (σ : K) : Vec K := Array.ofFn (n := n) fun i => if i.val = k then σ else 0

theorem unitVec_getD (n k : Nat) (σ : K) (i : Nat) (hi : i < n) :
    (unitVec n k σ).getD i 0 = if i = k then σ else 0 := by
  simp [unitVec, Array.getD_eq_getD_getElem?, hi]

theorem pmScale_unitVec (c : K) (n k : Nat) (σ : K) : pmScale c (unitVec n k σ) = unitVec n k (c * σ) := by
  unfold pmScale unitVec
  apply Array.ext
  · simp
  · intro i h1 h2
    simp only [Array.getElem_map, Array.getElem_ofFn]
    split <;> simp

theorem sAt_diag (A : CRS K) (d : Nat → K) (hdiag : ∀ i, i < A.nrows → A.row i = [(i, d i)]) (b0 : Vec K) (i : Nat)
    (hi : i < A.nrows) : sAt false A b0 i = d i * b0.getD i 0 := by
  unfold sAt pmRow
  rw [hdiag i hi]
  simp

theorem sum_single (n k : Nat) (hk : k < n) (f : Nat → K) (h0 : ∀ i, i ≠ k → f i = 0) :
    ∑ i ∈ Finset.range n, f i = f k := by
  rw [Finset.sum_eq_single k]
  · intro i _ hne; exact h0 i hne
  · intro h; exact absurd (Finset.mem_range.2 hk) h

theorem pmSweep_diag (A : CRS K) (d : Nat → K) (hdiag : ∀ i, i < A.nrows → A.row i = [(i, d i)]) (k : Nat)
    (hk : k < A.nrows) (σ : K) :
    pmSweep false A (unitVec A.nrows k σ) = (unitVec A.nrows k (d k * σ), (d k * σ) ^ 2, |d k * σ| * |σ|) := by
  have hs : ∀ i, i < A.nrows → sAt false A (unitVec A.nrows k σ) i = if i = k then d k * σ else 0 := by
    intro i hi
    rw [sAt_diag A d hdiag _ i hi, unitVec_getD _ _ _ _ hi]
    split
    · next h => rw [h]
    · simp
  refine Prod.ext ?_ (Prod.ext ?_ ?_)
  · rw [pmSweep_eq]
    apply Array.ext
    · simp [unitVec]
    · intro i h1 h2
      have hi : i < A.nrows := by simpa using h1
      simp only [List.getElem_toArray, List.getElem_map, List.getElem_range, unitVec, Array.getElem_ofFn]
      exact hs i hi
  · show (pmSweep false A (unitVec A.nrows k σ)).2.1 = _
    rw [pmSweep_norm, sum_single A.nrows k hk]
    · rw [hs k hk, if_pos rfl]
    · intro i hne
      by_cases hi : i < A.nrows
      · rw [hs i hi, if_neg hne]; simp
      · have : A.row i = [] := K2.row_eq_nil_of_ge A (Nat.le_of_not_lt hi)
        simp [sAt, pmRow, this]
  · show (pmSweep false A (unitVec A.nrows k σ)).2.2 = _
    rw [pmSweep_radius, sum_single A.nrows k hk]
    · rw [hs k hk, if_pos rfl, unitVec_getD _ _ _ _ hk, if_pos rfl]
    · intro i hne
      by_cases hi : i < A.nrows
      · rw [hs i hi, if_neg hne]; simp
      · have : A.row i = [] := K2.row_eq_nil_of_ge A (Nat.le_of_not_lt hi)
        simp [sAt, pmRow, this]

theorem pmLoop_diag (sqrt : K → K) (hsq : ∀ x : K, sqrt (x * x) = |x|) (A : CRS K) (d : Nat → K)
    (hdiag : ∀ i, i < A.nrows → A.row i = [(i, d i)]) (k : Nat) (hk : k < A.nrows) (rem : Nat) (σ : K) (hσ : |σ| = 1)
    (r : K) : pmLoop sqrt false A (rem + 1) (unitVec A.nrows k σ) r = |d k| := by
  induction rem generalizing σ r with
  | zero =>
    unfold pmLoop
    simp only [pmSweep_diag A d hdiag k hk σ, if_true, abs_mul, hσ, mul_one]
  | succ rem ih =>
    unfold pmLoop
    simp only [pmSweep_diag A d hdiag k hk σ, Nat.succ_ne_zero, if_false]
    have hrad : |d k * σ| * |σ| = |d k| := by rw [abs_mul, hσ, mul_one, mul_one]
    split
    · exact hrad
    · next hne =>
      have hne' : d k * σ ≠ 0 := fun h => hne (by rw [h]; ring)
      rw [pmScale_unitVec]
      refine ih _ ?_ _
      rw [sq, hsq, abs_mul, abs_div, abs_one, abs_abs, one_div, inv_mul_cancel₀ (abs_ne_zero.2 hne')]

theorem pmNormSq_unitVec (n k : Nat) (hk : k < n) (σ : K) : pmNormSq (unitVec n k σ) = σ * σ := by
  rw [pmNormSq_eq]
  unfold unitVec
  rw [Array.toList_ofFn, List.map_ofFn, List.sum_ofFn, Finset.sum_eq_single (⟨k, hk⟩ : Fin n)]
  · simp
  · intro i _ hne
    have : i.val ≠ k := fun h => hne (Fin.ext h)
    simp [this]
  · intro h; exact absurd (Finset.mem_univ _) h

end

end Amgcl.PM
