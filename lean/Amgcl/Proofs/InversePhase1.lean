import Amgcl.Proofs.InverseLU
import Amgcl.Proofs.InverseAlg
/-!
The LU phase of `detail::inverse` establishes `P·B = L·W` with nonzero pivots whenever `B` is nonsingular.
-/
namespace Amgcl
open Finset

variable {K : Type} [Field K] [LinearOrder K] [IsStrictOrderedRing K]

/-- logical view of the buffer: row `i` is physical row `p[i]` -/
def LM (n : Nat) (A : Array K) (p : Array Nat) (i j : Nat) : K := get2 n A (p.getD i 0) j

structure LUState (n c : Nat) (B : Nat → Nat → K) (F : Array K) (q : Array Nat) : Prop where
  size : F.size = n * n
  perm : PermOn n q
  inv : LUInv n c B (fun i => q.getD i 0) (LM n F q)
  diag : ∀ m, m < c → LM n F q m m ≠ 0

theorem luStep_state {n c : Nat} {B : Nat → Nat → K} {F : Array K} {q : Array Nat} (hc : c < n)
    (hns : Nonsing n B) (h : LUState n c B F q) :
    LUState n (c + 1) B (luStep n (F, q) c).1 (luStep n (F, q) c).2 := by
  obtain ⟨hq', hs', hg'⟩ := luStep_spec n c F q h.size h.perm hc
  obtain ⟨hpl, hph, hpz⟩ := pivotSearch_spec n c F q hc
  generalize pivotSearch n c F q = piv at *
  have hperm' : PermOn n (swapN q c piv) := permOn_swapN h.perm hc hph
  have hsz := h.perm.size
  have gq : ∀ i, (swapN q c piv).getD i 0 = if i = piv then q.getD c 0 else if i = c then q.getD piv 0 else q.getD i 0 :=
    fun i => getD_swapN q c piv i (hsz ▸ hc) (hsz ▸ hph)
  -- the index transposition
  let τ : Nat → Nat := fun i => if i = piv then c else if i = c then piv else i
  have hqτ : ∀ i, (swapN q c piv).getD i 0 = q.getD (τ i) 0 := by
    intro i; rw [gq i]; show _ = q.getD (if i = piv then c else if i = c then piv else i) 0
    split_ifs <;> rfl
  have hτlt : ∀ i, i < c → τ i = i := by
    intro i hi; show (if i = piv then c else if i = c then piv else i) = i
    rw [if_neg (by omega), if_neg (by omega)]
  have hτge : ∀ i, c ≤ i → i < n → c ≤ τ i ∧ τ i < n := by
    intro i h1 h2; show c ≤ (if i = piv then c else if i = c then piv else i) ∧ (if i = piv then c else if i = c then piv else i) < n
    split_ifs <;> omega
  -- invariant after the row exchange
  have hM1 : ∀ i j, i < n → LM n F (swapN q c piv) i j = LM n F q (τ i) j := by
    intro i j _; unfold LM; rw [hqτ i]
  have hinv1 : LUInv n c B (fun i => (swapN q c piv).getD i 0) (LM n F (swapN q c piv)) :=
    LUInv_swap h.inv τ hτlt hτge (fun i _ => hqτ i) hM1
  have hdiag1 : ∀ m, m < c → LM n F (swapN q c piv) m m ≠ 0 := by
    intro m hm; rw [hM1 m m (by omega), hτlt m hm]; exact h.diag m hm
  -- the pivot is not zero
  have hpivne : LM n F (swapN q c piv) c c ≠ 0 := by
    apply pivot_ne_zero hc (fun r hr => hperm'.surj r hr) hinv1 hdiag1 hns c
    intro h0 i hi1 hi2
    rw [hM1 c c hc] at h0
    have hτc : τ c = piv := by
      show (if c = piv then c else if c = c then piv else c) = piv
      split_ifs <;> omega
    rw [hτc] at h0
    rw [hM1 i c hi2]
    obtain ⟨h1, h2⟩ := hτge i hi1 hi2
    exact hpz h0 (τ i) h1 h2
  rw [hq']
  refine ⟨hs', hperm', ?_, ?_⟩
  · apply LUInv_step hc hinv1 hpivne
    intro i j hi hj
    exact hg' i j hi hj
  · intro m hm
    show get2 n _ _ _ ≠ 0
    rw [hg' m m (by omega) (by omega)]
    simp only
    by_cases hmc : m = c
    · subst hmc
      rw [if_pos rfl, if_pos rfl]
      exact one_div_ne_zero hpivne
    · rw [if_neg hmc, if_neg (by omega)]
      exact hdiag1 m (by omega)

/-- the state after the first `m` columns -/
theorem luFold_state {n : Nat} (A : Array K) (p : Array Nat) (hA : A.size = n * n) (hp : p.size = n)
    (hns : Nonsing n (get2 n A)) (m : Nat) (hm : m ≤ n) :
    LUState n m (get2 n A) ((List.range m).foldl (luStep n) (A, iotaN n p)).1
      ((List.range m).foldl (luStep n) (A, iotaN n p)).2 := by
  induction m with
  | zero =>
    simp only [List.range_zero, List.foldl_nil]
    refine ⟨hA, permOn_iotaN n p hp, ?_, ?_⟩
    · intro i j hi hj
      simp only [Nat.min_zero, range_zero, sum_empty, zero_add]
      unfold Wmat LM
      rw [if_neg (by omega), if_neg (by omega)]
    · intro m hm; omega
  | succ m ih =>
    have := ih (by omega)
    rw [List.range_succ, List.foldl_append]
    simp only [List.foldl_cons, List.foldl_nil]
    generalize (List.range m).foldl (luStep n) (A, iotaN n p) = st at this ⊢
    obtain ⟨F, q⟩ := st
    exact luStep_state (by omega) hns this

theorem luPhase_state {n : Nat} (A : Array K) (p : Array Nat) (hA : A.size = n * n) (hp : p.size = n)
    (hns : Nonsing n (get2 n A)) :
    LUState n n (get2 n A) (luPhase n A p).1 (luPhase n A p).2 :=
  luFold_state A p hA hp hns n (le_refl n)

end Amgcl
