import Amgcl.Proofs.SkylineSolve
/-!
The constructor of `skyline_lu` always produces a well-formed profile: `ptr` is monotone and row/column `i` has at
most `i` entries — for every matrix and every ordering array (permutation or not).  Hence no index expression of
`factorize()` / `operator()` is negative.
-/
namespace Amgcl
open Arr2

theorem foldl_inv {α β : Type} (Q : β → Prop) (f : β → α → β) (l : List α) (b : β) (hb : Q b)
    (h : ∀ b a, Q b → Q (f b a)) : Q (l.foldl f b) := by
  induction l generalizing b with
  | nil => exact hb
  | cons a t ih => exact ih (f b a) (h b a hb)

namespace Skyline
variable {V R : Type} [Zero V] [Zero R]

/-- provisional lengths: entry `k` is at most `k`, the size stays `n+1` -/
theorem profileLens_bound (isZero : V → Bool) (A : CRS V) (n : Nat) (invperm : Array Nat) :
    (profileLens isZero A n invperm).size = n + 1 ∧ ∀ k, (profileLens isZero A n invperm).getD k 0 ≤ k := by
  unfold profileLens
  apply foldl_inv (fun ptr : Array Nat => ptr.size = n + 1 ∧ ∀ k, ptr.getD k 0 ≤ k)
  · refine ⟨by simp, ?_⟩
    intro k
    unfold Array.getD
    split
    · simp
    · exact Nat.zero_le k
  · intro ptr i hq
    apply foldl_inv (fun ptr : Array Nat => ptr.size = n + 1 ∧ ∀ k, ptr.getD k 0 ≤ k) _ _ _ hq
    intro ptr cv ⟨hs, hb⟩
    simp only
    split
    · split
      · split
        · refine ⟨by rw [Array.size_setIfInBounds]; exact hs, ?_⟩
          intro k; rw [getD_setIfInBounds]; split
          · rename_i h; rw [← h.1]; omega
          · exact hb k
        · exact ⟨hs, hb⟩
      · split
        · split
          · refine ⟨by rw [Array.size_setIfInBounds]; exact hs, ?_⟩
            intro k; rw [getD_setIfInBounds]; split
            · rename_i h; rw [← h.1]; omega
            · exact hb k
          · exact ⟨hs, hb⟩
        · exact ⟨hs, hb⟩
    · exact ⟨hs, hb⟩

/-- the prefix-sum transformation after the iterations `i = 1 … m` -/
theorem prefixPtr_inv (n : Nat) (lens : Array Nat) (hs : lens.size = n + 1) (m : Nat) (hm : m ≤ n) :
    let st := (List.range' 1 m).foldl (fun (st : Array Nat × Nat) i =>
      (st.1.setIfInBounds i (st.1.getD (i - 1) 0 + st.2), st.1.getD i 0)) (lens, 0)
    st.1.size = n + 1 ∧ (∀ k, m < k → st.1.getD k 0 = lens.getD k 0) ∧
    st.2 = (if m = 0 then 0 else lens.getD m 0) ∧
    (∀ k, k < m → st.1.getD (k + 1) 0 = st.1.getD k 0 + (if k = 0 then 0 else lens.getD k 0)) := by
  induction m with
  | zero =>
    refine ⟨hs, ?_, rfl, ?_⟩
    · intro k _; rfl
    · intro k hk; omega
  | succ m ih =>
    obtain ⟨h1, h2, h3, h4⟩ := ih (by omega)
    rw [List.range'_concat, List.foldl_append]
    simp only [List.foldl_cons, List.foldl_nil, Nat.one_mul]
    generalize (List.range' 1 m).foldl _ (lens, 0) = st at h1 h2 h3 h4 ⊢
    have e : 1 + m - 1 = m := by omega
    refine ⟨by rw [Array.size_setIfInBounds]; exact h1, ?_, ?_, ?_⟩
    · intro k hk
      rw [getD_setIfInBounds_ne _ _ _ (by omega)]
      exact h2 k (by omega)
    · show st.1.getD (1 + m) 0 = _
      rw [if_neg (by omega), h2 (1 + m) (by omega), Nat.add_comm]
    · intro k hk
      by_cases hkm : k = m
      · subst hkm
        rw [show k + 1 = 1 + k from Nat.add_comm k 1, getD_setIfInBounds_self _ _ _ (by rw [h1]; omega)]
        rw [getD_setIfInBounds_ne _ _ _ (by omega), e, h3]
      · rw [getD_setIfInBounds_ne _ _ _ (by omega), getD_setIfInBounds_ne _ _ _ (by omega)]
        exact h4 k (by omega)

/-- **the constructor's profile is well formed** -/
theorem build_profile (isZero : V → Bool) (A : CRS V) (perm : Array Nat) :
    (build (R := R) isZero A perm).WFProfile := by
  intro i hi
  have hn : (build (R := R) isZero A perm).n = A.nrows := rfl
  rw [hn] at hi
  obtain ⟨hs, hb⟩ := profileLens_bound isZero A A.nrows (invPerm A.nrows perm)
  have h := prefixPtr_inv A.nrows _ hs A.nrows (le_refl _)
  simp only at h
  obtain ⟨_, _, _, h4⟩ := h
  have e := h4 i hi
  have hP : ∀ k, (build (R := R) isZero A perm).P k
      = ((List.range' 1 A.nrows).foldl (fun (st : Array Nat × Nat) i =>
          (st.1.setIfInBounds i (st.1.getD (i - 1) 0 + st.2), st.1.getD i 0))
          (profileLens isZero A A.nrows (invPerm A.nrows perm), 0)).1.getD k 0 := fun _ => rfl
  rw [hP, hP, e]
  have := hb i
  split <;> omega

end Skyline
end Amgcl
