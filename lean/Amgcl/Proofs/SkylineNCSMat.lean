import Amgcl.Proofs.SkylineMap
import Amgcl.Proofs.SkylineNCMatrix
import Amgcl.Proofs.StaticMatrixNC
/-!
The carrier of the DRIVER (`Driver/Direct.lean`, op `direct_skyb_solve`): values `SMat K b b` (array-backed
`static_matrix<T,b,b>`), right-hand sides `SMat K b 1`.  `SMat.toMatrix` preserves `0`, `*`, `-`, the zero test and the
action on vectors, so a run of the skyline model at `SMat` is mapped entrywise onto the run at
`Matrix (Fin b) (Fin b) K` (`Proofs/SkylineMap.lean`), about which `Properties/C16d.lean` speaks.
-/
namespace Amgcl
open Finset
namespace SkyNC
open Skyline SMat

variable {K : Type} {b : Nat}

/-- the vector denoted by a `b × 1` static matrix -/
def toVec [Zero K] (r : SMat K b 1) : Fin b → K := fun i => r.toMatrix i 0

/-- the static matrix with given entries (a section of `toMatrix`) -/
def ofMatrix [Zero K] (m : Matrix (Fin b) (Fin b) K) : SMat K b b :=
  SMat.ofFn (fun i j => if h : i < b ∧ j < b then m ⟨i, h.1⟩ ⟨j, h.2⟩ else 0)

theorem toMatrix_ofMatrix [Zero K] (m : Matrix (Fin b) (Fin b) K) : (ofMatrix m).toMatrix = m := by
  ext i j
  show (ofMatrix m).get i.val j.val = _
  unfold ofMatrix
  rw [get_ofFn _ i.isLt j.isLt, dif_pos ⟨i.isLt, j.isLt⟩]

theorem ofMatrix_toMatrix [Zero K] (a : SMat K b b) (ha : a.WF) : ofMatrix a.toMatrix = a :=
  ext_of_toMatrix (wf_ofFn _) ha (toMatrix_ofMatrix _)

/-- `is_zero` of a static matrix is `toMatrix a = 0` (only the first `N·M` buffer entries are looked at) -/
theorem isZero_iff [Zero K] [DecidableEq K] {N M : Nat} (a : SMat K N M) : SMat.isZero a = true ↔ a.toMatrix = 0 := by
  unfold SMat.isZero
  rw [List.all_eq_true]
  constructor
  · intro h
    ext i j
    have := h (i.val * M + j.val) (List.mem_range.mpr (idx_lt i.isLt j.isLt))
    have this' : a.get1 (i.val * M + j.val) = 0 := by simpa using this
    exact this'
  · intro h idx hidx
    have hidx' : idx < N * M := List.mem_range.mp hidx
    have hM : 0 < M := by
      rcases Nat.eq_zero_or_pos M with h0 | h0
      · subst h0; simp at hidx'
      · exact h0
    have hi : idx / M < N := by rw [Nat.div_lt_iff_lt_mul hM]; exact hidx'
    have hj : idx % M < M := Nat.mod_lt _ hM
    have := congrFun (congrFun h ⟨idx / M, hi⟩) ⟨idx % M, hj⟩
    simp only [toMatrix, SMat.get] at this
    have e : idx / M * M + idx % M = idx := by rw [Nat.mul_comm]; exact Nat.div_add_mod idx M
    rw [e] at this
    simpa [SMat.get1] using this

theorem isZero_eq_decide [Zero K] [DecidableEq K] {N M : Nat} (a : SMat K N M) :
    decide (a.toMatrix = 0) = SMat.isZero a := by
  by_cases h : SMat.isZero a = true
  · rw [h]; exact decide_eq_true ((isZero_iff a).mp h)
  · have h' : SMat.isZero a = false := by simpa using h
    rw [h']; exact decide_eq_false (fun e => h ((isZero_iff a).mpr e))

section homs
variable [Ring K] [DecidableEq K]
attribute [local instance] mulVecHMul

/-- `static_matrix<T,b,b> * static_matrix<T,b,b>` as the `Mul` of the value type (what the driver passes) -/
@[reducible] def smatMul (K : Type) (b : Nat) [Zero K] [Add K] [Sub K] [Mul K] [Neg K] : Mul (SMat K b b) := ⟨SMat.mul⟩
attribute [local instance] smatMul

theorem opHom_toMatrix : OpHom (SMat.toMatrix : SMat K b b → Matrix (Fin b) (Fin b) K) :=
  ⟨SMatNC.toMatrix_zero, fun a c => SMatNC.toMatrix_mul a c, fun a c => SMatNC.toMatrix_sub a c⟩

theorem toVec_zero : toVec (0 : SMat K b 1) = 0 := by
  funext i
  show (0 : SMat K b 1).toMatrix i 0 = 0
  rw [SMatNC.toMatrix_zero]; rfl

theorem actHom_toVec : ActHom (SMat.toMatrix : SMat K b b → Matrix (Fin b) (Fin b) K) (toVec : SMat K b 1 → Fin b → K) := by
  refine ⟨SMatNC.toMatrix_zero, toVec_zero, ?_, ?_⟩
  · intro a r
    funext i
    show (a * r).toMatrix i 0 = (a.toMatrix.mulVec (toVec r)) i
    rw [SMatNC.toMatrix_mul, Matrix.mul_apply]
    rfl
  · intro r s
    funext i
    show (r - s).toMatrix i 0 = _
    rw [SMatNC.toMatrix_sub]; rfl

theorem testHom_toMatrix (invS : SMat K b b → SMat K b b) :
    TestHom (fun a : SMat K b b => a.WF) SMat.toMatrix SMat.isZero invS
      (fun m : Matrix (Fin b) (Fin b) K => decide (m = 0)) (fun m => (invS (ofMatrix m)).toMatrix) :=
  ⟨fun a c => SMatNC.wf_sub a c, fun a _ => isZero_eq_decide a,
   fun a ha => by show _ = (invS (ofMatrix a.toMatrix)).toMatrix; rw [ofMatrix_toMatrix a ha]⟩

theorem wf_zero : (0 : SMat K b b).WF := by
  show (SMat.zero : SMat K b b).WF
  simp [SMat.WF, SMat.zero]

end homs

end SkyNC
end Amgcl
