import Amgcl.Proofs.SkylineMap
import Amgcl.Proofs.SkylineNCMatrix
import Amgcl.Proofs.StaticMatrixNC
/-!
The carrier of the DRIVER (`Driver/Direct.lean`, op `direct_skyb_solve`): values `SMat K b b` (array-backed
`static_matrix<T,b,b>`), right-hand sides `SMat K b 1`.  `SMat.toMatrix` preserves `0`, `*`, `-`, the zero test and the
action on vectors, so a run of the skyline model at `SMat` is mapped entrywise onto the run at
`Matrix (Fin b) (Fin b) K` (`Proofs/SkylineMap.lean`), about which `Properties/C16d.lean` speaks.
-/
namespace Amgcl
open Finset
namespace SkyNC
open Skyline SMat

variable {K : Type} {b : Nat}

/-- the vector denoted by a `b × 1` static matrix -/
def toVec [Zero K] (r : SMat K b 1) : Fin b → K := fun i => r.toMatrix i 0

/-- the static matrix with given entries (a section of `toMatrix`) -/
def ofMatrix [Zero K] (m : Matrix (Fin b) (Fin b) K) : SMat K b b :=
  SMat.ofFn (fun i j => if h : i < b ∧ j < b then m ⟨i, h.1⟩ ⟨j, h.2⟩ else 0)

theorem toMatrix_ofMatrix [Zero K] (m : Matrix (Fin b) (Fin b) K) : (ofMatrix m).toMatrix = m := by
  ext i j
  show (ofMatrix m).get i.val j.val = _
  unfold ofMatrix
  rw [get_ofFn _ i.isLt j.isLt, dif_pos ⟨i.isLt, j.isLt⟩]

theorem ofMatrix_toMatrix [Zero K] (a : SMat K b b) (ha : a.WF) : ofMatrix a.toMatrix = a :=
  ext_of_toMatrix (wf_ofFn _) ha (toMatrix_ofMatrix _)

/-- `is_zero` of a static matrix is `toMatrix a = 0` (only the first `N·M` buffer entries are looked at) -/
theorem isZero_iff [Zero K] [DecidableEq K] {N M : Nat} (a : SMat K N M) : SMat.isZero a = true ↔ a.toMatrix = 0 := by
  unfold SMat.isZero
  rw [List.all_eq_true]
  constructor
  · intro h
    ext i j
    have := h (i.val * M + j.val) (List.mem_range.mpr (idx_lt i.isLt j.isLt))
    have this' : a.get1 (i.val * M + j.val) = 0 := by simpa using this
    exact this'
  · intro h idx hidx
    have hidx' : idx < N * M := List.mem_range.mp hidx
    have hM : 0 < M := by
      rcases Nat.eq_zero_or_pos M with h0 | h0
      · subst h0; simp at hidx'
      · exact h0
    have hi : idx / M < N := by rw [Nat.div_lt_iff_lt_mul hM]; exact hidx'
    have hj : idx % M < M := Nat.mod_lt _ hM
    have := congrFun (congrFun h ⟨idx / M, hi⟩) ⟨idx % M, hj⟩
    simp only [toMatrix, SMat.get] at this
    have e : idx / M * M + idx % M = idx := by rw [Nat.mul_comm]; exact Nat.div_add_mod idx M
    rw [e] at this
    simpa [SMat.get1] using this

theorem isZero_eq_decide [Zero K] [DecidableEq K] {N M : Nat} (a : SMat K N M) :
    decide (a.toMatrix = 0) = SMat.isZero a := by
  by_cases h : SMat.isZero a = true
  · rw [h]; exact decide_eq_true ((isZero_iff a).mp h)
  · have h' : SMat.isZero a = false := by simpa using h
    rw [h']; exact decide_eq_false (fun e => h ((isZero_iff a).mpr e))

section homs
variable [Ring K] [DecidableEq K]
attribute [local instance] mulVecHMul

/-- `static_matrix<T,b,b> * static_matrix<T,b,b>` as the `Mul` of the value type (what the driver passes) -/
@[reducible] def smatMul (K : Type) (b : Nat) [Zero K] [Add K] [Sub K] [Mul K] [Neg K] : Mul (SMat K b b) := ⟨SMat.mul⟩
attribute [local instance] smatMul

theorem opHom_toMatrix : OpHom (SMat.toMatrix : SMat K b b → Matrix (Fin b) (Fin b) K) :=
  ⟨SMatNC.toMatrix_zero, fun a c => SMatNC.toMatrix_mul a c, fun a c => SMatNC.toMatrix_sub a c⟩

theorem toVec_zero : toVec (0 : SMat K b 1) = 0 := by
  funext i
  show (0 : SMat K b 1).toMatrix i 0 = 0
  rw [SMatNC.toMatrix_zero]; rfl

theorem actHom_toVec : ActHom (SMat.toMatrix : SMat K b b → Matrix (Fin b) (Fin b) K) (toVec : SMat K b 1 → Fin b → K) := by
  refine ⟨SMatNC.toMatrix_zero, toVec_zero, ?_, ?_⟩
  · intro a r
    funext i
    show (a * r).toMatrix i 0 = (a.toMatrix.mulVec (toVec r)) i
    rw [SMatNC.toMatrix_mul, Matrix.mul_apply]
    rfl
  · intro r s
    funext i
    show (r - s).toMatrix i 0 = _
    rw [SMatNC.toMatrix_sub]; rfl

theorem testHom_toMatrix (invS : SMat K b b → SMat K b b) :
    TestHom (fun a : SMat K b b => a.WF) SMat.toMatrix SMat.isZero invS
      (fun m : Matrix (Fin b) (Fin b) K => decide (m = 0)) (fun m => (invS (ofMatrix m)).toMatrix) :=
  ⟨fun a c => SMatNC.wf_sub a c, fun a _ => isZero_eq_decide a,
   fun a ha => by show _ = (invS (ofMatrix a.toMatrix)).toMatrix; rw [ofMatrix_toMatrix a ha]⟩

theorem wf_zero : (0 : SMat K b b).WF := by
  show (SMat.zero : SMat K b b).WF
  simp [SMat.WF, SMat.zero]

end homs

section pivots
variable [Ring K] [DecidableEq K]
attribute [local instance] smatMul

/-- the hypothesis of the block theorems stated at the driver's carrier: the routine `invS` returns (buffers denoting)
right inverses of the first diagonal block and of every pivot candidate met by the main loop -/
def PivotsOKS (invS : SMat K b b → SMat K b b) (S : Skyline (SMat K b b) (SMat K b 1)) : Prop :=
  (S.D.getD 0 0).toMatrix * (invS (S.D.getD 0 0)).toMatrix = 1 ∧
  ∀ k Sk, k < S.n - 1 →
    factorLoop SMat.isZero invS { S with D := S.D.setIfInBounds 0 (invS (S.D.getD 0 0)) } k = .ok Sk →
    (pivotSum (factorStepLU Sk k) k).toMatrix * (invS (pivotSum (factorStepLU Sk k) k)).toMatrix = 1

theorem pivotsOK_of_smat (invS : SMat K b b → SMat K b b) (S : Skyline (SMat K b b) (SMat K b 1))
    (hD : ∀ i, (S.D.getD i 0).WF) (h : PivotsOKS invS S) :
    PivotsOK (fun m : Matrix (Fin b) (Fin b) K => decide (m = 0)) (fun m => (invS (ofMatrix m)).toMatrix)
      (S.map SMat.toMatrix toVec) := by
  have t := testHom_toMatrix (K := K) (b := b) invS
  constructor
  · have e0 : (S.map SMat.toMatrix toVec).D.getD 0 0 = (S.D.getD 0 0).toMatrix :=
      getD_map SMat.toMatrix SMatNC.toMatrix_zero S.D 0
    rw [e0]
    show (S.D.getD 0 0).toMatrix * (invS (ofMatrix (S.D.getD 0 0).toMatrix)).toMatrix = 1
    rw [ofMatrix_toMatrix _ (hD 0)]
    exact h.1
  · intro k Sk' hk hrun
    obtain ⟨Sk, hrunS, hG, hp⟩ := pivots_map toVec opHom_toMatrix t S hD k Sk' hrun
    rw [hp]
    show (pivotSum (factorStepLU Sk k) k).toMatrix
      * (invS (ofMatrix (pivotSum (factorStepLU Sk k) k).toMatrix)).toMatrix = 1
    rw [ofMatrix_toMatrix _ hG]
    exact h.2 k Sk hk hrunS

end pivots

/-! ### example data at the driver's carrier: the blocks of `exAB` as array-backed static matrices -/
section example_data
attribute [local instance] smatMul

/-- inverse routine of the example: `inv2` on the denoted matrix (a partial inverse, exact on unimodular blocks) -/
def invS2 (a : SMat ℤ 2 2) : SMat ℤ 2 2 := ofMatrix (inv2 a.toMatrix)

def exAS : CRS (SMat ℤ 2 2) :=
  ⟨2, #[[(0, ⟨#[1, 1, 0, 1]⟩), (1, ⟨#[0, 1, 1, 0]⟩)], [(1, ⟨#[0, 1, 1, 2]⟩), (0, ⟨#[1, 0, 1, 1]⟩)]]⟩

def exFacS : Skyline (SMat ℤ 2 2) (SMat ℤ 2 1) :=
  ⟨2, #[0, 1], #[0, 0, 1], #[⟨#[1, 0, 1, 1]⟩], #[⟨#[-1, 1, 1, 0]⟩], #[⟨#[1, -1, 0, 1]⟩, ⟨#[1, 0, -1, 1]⟩], #[0, 0]⟩

theorem exS_factorize :
    factorize SMat.isZero invS2 (build (R := SMat ℤ 2 1) SMat.isZero exAS #[0, 1]) = .ok exFacS := by rfl

theorem exAS_wf : exAS.WF := by decide

theorem exAS_nodup : ∀ i, ((exAS.row i).map (·.1)).Nodup := by
  intro i
  rcases Nat.lt_or_ge i 2 with h | h
  · interval_cases i <;> simp [CRS.row, exAS]
  · have : exAS.row i = [] := by
      unfold CRS.row; simp [Array.getD, exAS]; omega
    rw [this]; simp

theorem exAS_blocks : ∀ i, ∀ cv ∈ exAS.row i, cv.2.WF := by
  intro i
  rcases Nat.lt_or_ge i 2 with h | h
  · interval_cases i <;> simp [CRS.row, exAS, SMat.WF]
  · have : exAS.row i = [] := by
      unfold CRS.row; simp [Array.getD, exAS]; omega
    rw [this]; simp

theorem exS_pivotsOK : PivotsOKS invS2 (build (R := SMat ℤ 2 1) SMat.isZero exAS #[0, 1]) := by
  refine ⟨by decide, ?_⟩
  intro k Sk hk hrun
  have hk0 : k = 0 := by have : k < 1 := hk; omega
  subst hk0
  injection hrun with e
  subst e
  decide

end example_data

end SkyNC
end Amgcl
