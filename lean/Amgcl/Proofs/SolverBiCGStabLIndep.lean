import Amgcl.Proofs.SolverBiCGStabLTruth
import Amgcl.Proofs.SolverBiCGStabLQR
/-!
Work-space independence of BiCGStab(L), part 2: the relation between two runs that start from different work spaces.

At the top of the `for` loop the two states agree on all scalars, `x`, `B`, `Rt`, `X`, `R[0]`, `U[0]` — and NOTHING is
known about `R[i]`, `U[i]` (`i ≥ 1`), `T`, `MZa`, `MZb`, `Y0`, `YL`, `qr`.  Inside the BiCG part at step `j` the vectors
`R[i]`, `U[i]`, `i ≤ j`, agree (they were written earlier in the same pass).
-/
namespace Amgcl.Solver.BiCGStabL
open Amgcl Amgcl.Solver Amgcl.Solver.QR
set_option linter.unusedSectionVars false
set_option linter.unusedSimpArgs false
set_option linter.unusedVariables false

variable {K : Type} [Field K] [DecidableEq K] [LT K] [DecidableLT K]

/-- what the rest of the call reads from the state at BiCG step `j` (`j = 0`: at the top of the `for` loop) -/
structure RelJ (j : Nat) (s s' : St K) : Prop where
  iter : s.iter = s'.iter
  alpha : s.alpha = s'.alpha
  rho0 : s.rho0 = s'.rho0
  omega : s.omega = s'.omega
  zeta : s.zeta = s'.zeta
  rnC : s.rnmaxC = s'.rnmaxC
  rnT : s.rnmaxT = s'.rnmaxT
  done : s.done = s'.done
  x : s.x = s'.x
  B : s.w.B = s'.w.B
  Rt : s.w.Rt = s'.w.Rt
  X : s.w.X = s'.w.X
  R : ∀ i, i ≤ j → s.w.R.get i = s'.w.R.get i
  U : ∀ i, i ≤ j → s.w.U.get i = s'.w.U.get i

theorem RelJ.mono {j j' : Nat} {s s' : St K} (h : RelJ j s s') (hj : j' ≤ j) : RelJ j' s s' :=
  ⟨h.iter, h.alpha, h.rho0, h.omega, h.zeta, h.rnC, h.rnT, h.done, h.x, h.B, h.Rt, h.X,
    fun i hi => h.R i (by omega), fun i hi => h.U i (by omega)⟩

theorem stepU2_congr (F : Vec K → Vec K) (R R' U U' : FArr (Vec K)) (beta : K) (j : Nat)
    (hR : ∀ i, i ≤ j → R.get i = R'.get i) (hU : ∀ i, i ≤ j → U.get i = U'.get i) :
    ∀ k, k ≤ j + 1 → (stepU2 F R U beta j).get k = (stepU2 F R' U' beta j).get k := by
  intro k hk
  rw [stepU2_get, stepU2_get, hR j (Nat.le_refl _), hU j (Nat.le_refl _)]
  by_cases h1 : k = j + 1
  · rw [if_pos h1, if_pos h1]
  · rw [if_neg h1, if_neg h1, if_pos (by omega), if_pos (by omega), hR k (by omega), hU k (by omega)]

theorem stepR2_congr (F : Vec K → Vec K) (R R' U2 U2' : FArr (Vec K)) (alpha : K) (j : Nat)
    (hR : ∀ i, i ≤ j → R.get i = R'.get i) (hU : ∀ i, i ≤ j + 1 → U2.get i = U2'.get i) :
    ∀ k, k ≤ j + 1 → (stepR2 F R U2 alpha j).get k = (stepR2 F R' U2' alpha j).get k := by
  intro k hk
  rw [stepR2_get, stepR2_get, hR j (Nat.le_refl _), hU (j + 1) (Nat.le_refl _)]
  by_cases h1 : k = j + 1
  · rw [if_pos h1, if_pos h1]
  · rw [if_neg h1, if_neg h1, if_pos (by omega), if_pos (by omega), hR k (by omega), hU (k + 1) (by omega)]

theorem stepU1_fold (R U : FArr (Vec K)) (beta : K) (j : Nat) :
    (List.range (j + 1)).foldl (fun (U : FArr (Vec K)) i => setF U i (axpby 1 (R.get i) (-beta) (U.get i))) U
      = stepU1 R U beta j := rfl
theorem stepU2_fold (F : Vec K → Vec K) (R U : FArr (Vec K)) (beta : K) (j : Nat) :
    setF (stepU1 R U beta j) (j + 1) (F ((stepU1 R U beta j).get j)) = stepU2 F R U beta j := rfl
theorem stepR1_fold (R U2 : FArr (Vec K)) (alpha : K) (j : Nat) :
    (List.range (j + 1)).foldl (fun (R : FArr (Vec K)) i => setF R i (axpby (-alpha) (U2.get (i + 1)) 1 (R.get i))) R
      = stepR1 R U2 alpha j := rfl
theorem stepR2_fold (F : Vec K → Vec K) (R U2 : FArr (Vec K)) (alpha : K) (j : Nat) :
    setF (stepR1 R U2 alpha j) (j + 1) (F ((stepR1 R U2 alpha j).get j)) = stepR2 F R U2 alpha j := rfl

/-- two BiCG steps `j` from related states: the same outcome (same exception / same `goto done` decision) and related
successor states -/
theorem bicgStep_rel (prm : Params K) (ip : Vec K → Vec K → K) (sqrt : K → K) (A : CRS K) (P : Vec K → Vec K)
    (epsT : K) (j : Nat) (s s' : St K) (h : RelJ j s s') :
    (∃ t t' b, bicgStep prm ip sqrt A P epsT j s = .ok (t, b) ∧ bicgStep prm ip sqrt A P epsT j s' = .ok (t', b) ∧
      RelJ (j + 1) t t') ∨
    (∃ e t t', bicgStep prm ip sqrt A P epsT j s = .error (e, t) ∧
      bicgStep prm ip sqrt A P epsT j s' = .error (e, t') ∧ RelJ 0 t t') := by
  obtain ⟨iter, alpha, rho0, omega, zeta, rnC, rnT, done, x, ⟨Rt, X, B, T, R, U, MZa, MZb, Y0, YL, qr⟩⟩ := s
  obtain ⟨iter', alpha', rho0', omega', zeta', rnC', rnT', done', x', ⟨Rt', X', B', T', R', U', MZa', MZb', Y0', YL', qr'⟩⟩ := s'
  obtain ⟨h1, h2, h3, h4, h5, h6, h7, h8, h9, h10, h11, h12, hR, hU⟩ := h
  simp only at h1 h2 h3 h4 h5 h6 h7 h8 h9 h10 h11 h12 hR hU
  subst h1 h2 h3 h4 h5 h6 h7 h8 h9 h10 h11 h12
  unfold bicgStep
  simp only [pspmv_fst, stepU1_fold, stepU2_fold, stepR1_fold, stepR2_fold]
  rw [hR j (Nat.le_refl _)]
  have hU2 := stepU2_congr (Ap prm.pside P A) R R' U U' (alpha * (ip (R'.get j) Rt / rho0)) j hR hU
  by_cases hr : ip (R'.get j) Rt = 0
  · rw [if_pos hr, if_pos hr]
    exact Or.inr ⟨_, _, _, rfl, rfl, ⟨rfl, rfl, rfl, rfl, rfl, rfl, rfl, rfl, rfl, rfl, rfl, rfl,
      fun i hi => hR i (by omega), fun i hi => hU i (by omega)⟩⟩
  · rw [if_neg hr, if_neg hr, hU2 (j + 1) (Nat.le_refl _)]
    have hR2 := stepR2_congr (Ap prm.pside P A) R R' _ _ (ip (R'.get j) Rt /
      ip ((stepU2 (Ap prm.pside P A) R' U' (alpha * (ip (R'.get j) Rt / rho0)) j).get (j + 1)) Rt) j hR hU2
    by_cases hs : ip ((stepU2 (Ap prm.pside P A) R' U' (alpha * (ip (R'.get j) Rt / rho0)) j).get (j + 1)) Rt = 0
    · rw [if_pos hs, if_pos hs]
      exact Or.inr ⟨_, _, _, rfl, rfl, ⟨rfl, rfl, rfl, rfl, rfl, rfl, rfl, rfl, rfl, rfl, rfl, rfl,
        fun i hi => hR i (by omega), fun i hi => hU2 i (by omega)⟩⟩
    · rw [if_neg hs, if_neg hs, hR2 0 (Nat.zero_le _)]
      split
      · exact Or.inl ⟨_, _, _, rfl, rfl, ⟨rfl, rfl, rfl, rfl, rfl, rfl, rfl, rfl, rfl, rfl, rfl,
          by simp only [hU2 0 (Nat.zero_le _)], hR2, hU2⟩⟩
      · exact Or.inl ⟨_, _, _, rfl, rfl, ⟨rfl, rfl, rfl, rfl, rfl, rfl, rfl, rfl, rfl, rfl, rfl,
          by simp only [hU2 0 (Nat.zero_le _)], hR2, hU2⟩⟩

theorem bicgLoop_rel (prm : Params K) (ip : Vec K → Vec K → K) (sqrt : K → K) (A : CRS K) (P : Vec K → Vec K)
    (epsT : K) : ∀ (fuel j : Nat) (s s' : St K), RelJ j s s' →
    (∃ t t', bicgLoop prm ip sqrt A P epsT fuel j s = .ok t ∧ bicgLoop prm ip sqrt A P epsT fuel j s' = .ok t' ∧
      ((t.done = true ∧ RelJ 0 t t') ∨ (t.done = s.done ∧ RelJ (j + fuel) t t'))) ∨
    (∃ e t t', bicgLoop prm ip sqrt A P epsT fuel j s = .error (e, t) ∧
      bicgLoop prm ip sqrt A P epsT fuel j s' = .error (e, t') ∧ RelJ 0 t t') := by
  intro fuel
  induction fuel with
  | zero =>
    intro j s s' h
    exact Or.inl ⟨s, s', rfl, rfl, Or.inr ⟨rfl, h⟩⟩
  | succ n ih =>
    intro j s s' h
    rw [bicgLoop, bicgLoop]
    rcases bicgStep_rel prm ip sqrt A P epsT j s s' h with ⟨t, t', b, e1, e2, hr⟩ | ⟨e, t, t', e1, e2, hr⟩
    · rw [e1, e2]
      rcases bicgStep_iter prm ip sqrt A P epsT j s t b e1 with ⟨hb, hd, _⟩ | ⟨hb, hd, _⟩
      · subst hb
        exact Or.inl ⟨t, t', rfl, rfl, Or.inl ⟨hd, hr.mono (Nat.zero_le _)⟩⟩
      · subst hb
        simp only
        rcases ih (j + 1) t t' hr with ⟨u, u', f1, f2, hu⟩ | ⟨e, u, u', f1, f2, hu⟩
        · refine Or.inl ⟨u, u', f1, f2, ?_⟩
          rcases hu with ⟨g1, g2⟩ | ⟨g1, g2⟩
          · exact Or.inl ⟨g1, g2⟩
          · exact Or.inr ⟨by rw [g1, hd], by rw [show j + (n + 1) = j + 1 + n by omega]; exact g2⟩
        · exact Or.inr ⟨e, u, u', f1, f2, hu⟩
    · rw [e1, e2]
      exact Or.inr ⟨e, t, t', rfl, rfl, hr⟩

/-- two outcomes of a (part of a) pass are related: both normal with related states, or the same exception with
related states -/
def ExRel (r r' : Except (Err × St K) (St K)) : Prop :=
  match r, r' with
  | .ok t, .ok t' => RelJ 0 t t'
  | .error (e, t), .error (e', t') => e = e' ∧ RelJ 0 t t'
  | _, _ => False

theorem ExRel_ite (c : Prop) [Decidable c] (a b a' b' : Except (Err × St K) (St K))
    (h1 : c → ExRel a a') (h2 : ¬ c → ExRel b b') : ExRel (if c then a else b) (if c then a' else b') := by
  by_cases hc : c
  · rw [if_pos hc, if_pos hc]; exact h1 hc
  · rw [if_neg hc, if_neg hc]; exact h2 hc

theorem ExRel_elim {r r' : Except (Err × St K) (St K)} (h : ExRel r r') :
    (∃ t t', r = .ok t ∧ r' = .ok t' ∧ RelJ 0 t t') ∨
    (∃ e t t', r = .error (e, t) ∧ r' = .error (e, t') ∧ RelJ 0 t t') := by
  cases r with
  | ok t =>
    cases r' with
    | ok t' => exact Or.inl ⟨t, t', rfl, rfl, h⟩
    | error et' => obtain ⟨e', t'⟩ := et'; exact False.elim h
  | error et =>
    obtain ⟨e, t⟩ := et
    cases r' with
    | ok t' => exact False.elim h
    | error et' =>
      obtain ⟨e', t'⟩ := et'
      obtain ⟨h1, h2⟩ := h
      subst h1
      exact Or.inr ⟨e, t, t', rfl, rfl, h2⟩

theorem pspmv_snd (side : Side) (P : Vec K → Vec K) (A : CRS K) (v X T : Vec K) :
    (pspmv side P A v X T).2 = (pspmv side P A v #[] #[]).2 := by
  rw [BiCGStab.pspmv_indep side P A v X T #[] #[]]

theorem polyX_congr (L : Nat) (Y Y' : FArr K) (R R' : FArr (Vec K)) (X : Vec K)
    (hY : Agree1 (fun k => k ≤ L) Y Y') (hR : ∀ i, i ≤ L → R.get i = R'.get i) :
    polyX L Y R X = polyX L Y' R' X := by
  unfold polyX
  rw [combList_congr L _ (fun i => Y'.get (1 + i)) _ R'.get (fun i hi => hY (1 + i) (by show 1 + i ≤ L; omega))
    (fun i hi => hR i (by omega))]

theorem polyV0_congr (L : Nat) (Y Y' : FArr K) (V V' : FArr (Vec K))
    (hY : Agree1 (fun k => k ≤ L) Y Y') (hV : ∀ i, i ≤ L → V.get i = V'.get i) :
    polyV0 L Y V = polyV0 L Y' V' := by
  unfold polyV0
  rw [combList_congr L _ (fun i => (negY L Y').get (1 + i)) _ (fun i => V'.get (1 + i))
    (fun i hi => by
      show (negY L Y).get (1 + i) = (negY L Y').get (1 + i)
      rw [negY_get, negY_get, hY (1 + i) (by show 1 + i ≤ L; omega)])
    (fun i hi => hV (1 + i) (by omega)), hV 0 (Nat.zero_le _)]

/-- the polynomial part of a pass from related states (all of `R[0..L]`, `U[0..L]` agree) -/
theorem polyPart_rel (prm : Params K) (ip : Vec K → Vec K → K) (sqrt : K → K) (c07 : K) (A : CRS K)
    (P : Vec K → Vec K) (zeta0 : K) (s s' : St K) (h : RelJ prm.L s s') :
    ExRel (polyPart prm ip sqrt c07 A P zeta0 s) (polyPart prm ip sqrt c07 A P zeta0 s') := by
  obtain ⟨f1, f2, f3, f4, f5, f6⟩ :=
    polyCoef_frame sqrt c07 prm.L prm.convex { s.w with MZa := gram ip prm.L s.w.R s.w.MZa }
  obtain ⟨f1', f2', f3', f4', f5', f6'⟩ :=
    polyCoef_frame sqrt c07 prm.L prm.convex { s'.w with MZa := gram ip prm.L s'.w.R s'.w.MZa }
  have hY : Agree1 (fun k => k ≤ prm.L)
      (polyCoef sqrt c07 prm.L prm.convex { s.w with MZa := gram ip prm.L s.w.R s.w.MZa }).Y0
      (polyCoef sqrt c07 prm.L prm.convex { s'.w with MZa := gram ip prm.L s'.w.R s'.w.MZa }).Y0 :=
    polyCoef_rel sqrt c07 prm.L prm.convex _ _ (gram_rel ip prm.L s.w.R s'.w.R s.w.MZa s'.w.MZa h.R)
  unfold polyPart
  simp only []
  generalize polyCoef sqrt c07 prm.L prm.convex { s.w with MZa := gram ip prm.L s.w.R s.w.MZa } = w1
    at f1 f2 f3 f4 f5 f6 hY ⊢
  generalize polyCoef sqrt c07 prm.L prm.convex { s'.w with MZa := gram ip prm.L s'.w.R s'.w.MZa } = w1'
    at f1' f2' f3' f4' f5' f6' hY ⊢
  simp only at f1 f2 f3 f4 f5 f6 f1' f2' f3' f4' f5' f6'
  simp only [f2, f3, f5, f6, f2', f3', f5', f6', polyX_def, polyV0_def, pspmv_fst, pspmv_snd]
  have hom : (List.range prm.L).foldl (fun om t => if om = 0 then w1.Y0.get (prm.L - t) else om) (w1.Y0.get prm.L)
      = (List.range prm.L).foldl (fun om t => if om = 0 then w1'.Y0.get (prm.L - t) else om) (w1'.Y0.get prm.L) := by
    rw [hY prm.L (Nat.le_refl _)]
    apply foldl_range_congr
    intro t ht om
    rw [hY (prm.L - t) (by show prm.L - t ≤ prm.L; omega)]
  have hX := polyX_congr prm.L w1.Y0 w1'.Y0 s.w.R s'.w.R s.w.X hY h.R
  have hR0 := polyV0_congr prm.L w1.Y0 w1'.Y0 s.w.R s'.w.R hY h.R
  have hU0 := polyV0_congr prm.L w1.Y0 w1'.Y0 s.w.U s'.w.U hY h.U
  rw [hom, hX, hR0, hU0, h.X, h.B, h.rnC, h.rnT]
  have leaf : ∀ (t t' : St K), t.iter = t'.iter → t.alpha = t'.alpha → t.rho0 = t'.rho0 → t.omega = t'.omega →
      t.zeta = t'.zeta → t.rnmaxC = t'.rnmaxC → t.rnmaxT = t'.rnmaxT → t.done = t'.done → t.x = t'.x →
      t.w.B = t'.w.B → t.w.Rt = t'.w.Rt → t.w.X = t'.w.X → t.w.R.get 0 = t'.w.R.get 0 →
      t.w.U.get 0 = t'.w.U.get 0 → ExRel (.ok t) (.ok t') := by
    intro t t' e1 e2 e3 e4 e5 e6 e7 e8 e9 e10 e11 e12 e13 e14
    exact ⟨e1, e2, e3, e4, e5, e6, e7, e8, e9, e10, e11, e12,
      fun i hi => by have : i = 0 := by omega
                     subst this; exact e13,
      fun i hi => by have : i = 0 := by omega
                     subst this; exact e14⟩
  refine ExRel_ite _ _ _ _ _ (fun _ => ?_) (fun _ => ?_)
  · exact ⟨rfl, h.iter, h.alpha, h.rho0, rfl, h.zeta, rfl, rfl, h.done, h.x, by rw [f3, f3', h.B],
      by rw [f1, f1', h.Rt], by rw [f2, f2', h.X], fun i hi => by rw [f5, f5']; exact h.R i (by omega),
      fun i hi => by rw [f6, f6']; exact h.U i (by omega)⟩
  · refine ExRel_ite _ _ _ _ _ (fun _ => ?_) (fun _ => ?_)
    · refine ExRel_ite _ _ _ _ _ (fun _ => ?_) (fun _ => ?_)
      · refine ExRel_ite _ _ _ _ _ (fun _ => ?_) (fun _ => ?_)
        · apply leaf
          · simp only [h.iter]
          · exact h.alpha
          · exact h.rho0
          · rfl
          · rfl
          · rfl
          · rfl
          · exact h.done
          · simp only [h.x]
          · rfl
          · simp only [f1, f1', h.Rt]
          · rfl
          · simp only [setF_same]
          · simp only [setF_same]
        · apply leaf
          · simp only [h.iter]
          · exact h.alpha
          · exact h.rho0
          · rfl
          · rfl
          · rfl
          · rfl
          · exact h.done
          · exact h.x
          · rfl
          · simp only [f1, f1', h.Rt]
          · rfl
          · simp only [setF_same]
          · simp only [setF_same]
      · apply leaf
        · simp only [h.iter]
        · exact h.alpha
        · exact h.rho0
        · rfl
        · rfl
        · rfl
        · rfl
        · exact h.done
        · exact h.x
        · rfl
        · simp only [f1, f1', h.Rt]
        · rfl
        · simp only [setF_same]
        · simp only [setF_same]
    · apply leaf
      · simp only [h.iter]
      · exact h.alpha
      · exact h.rho0
      · rfl
      · rfl
      · rfl
      · rfl
      · exact h.done
      · exact h.x
      · rfl
      · simp only [f1, f1', h.Rt]
      · rfl
      · simp only [setF_same]
      · simp only [setF_same]

/-- one pass of the `for` loop from related states -/
theorem body_rel (prm : Params K) (ip : Vec K → Vec K → K) (sqrt : K → K) (c07 : K) (A : CRS K)
    (P : Vec K → Vec K) (epsT zeta0 : K) (s s' : St K) (h : RelJ 0 s s') :
    (∃ t t', body prm ip sqrt c07 A P epsT zeta0 s = .ok t ∧ body prm ip sqrt c07 A P epsT zeta0 s' = .ok t' ∧
      RelJ 0 t t') ∨
    (∃ e t t', body prm ip sqrt c07 A P epsT zeta0 s = .error (e, t) ∧
      body prm ip sqrt c07 A P epsT zeta0 s' = .error (e, t') ∧ RelJ 0 t t') := by
  have h0 : RelJ 0 { s with rho0 := (-s.omega) * s.rho0 } { s' with rho0 := (-s'.omega) * s'.rho0 } :=
    ⟨h.iter, h.alpha, by show (-s.omega) * s.rho0 = (-s'.omega) * s'.rho0; rw [h.omega, h.rho0], h.omega, h.zeta,
      h.rnC, h.rnT, h.done, h.x, h.B, h.Rt, h.X, h.R, h.U⟩
  unfold body
  simp only []
  rcases bicgLoop_rel prm ip sqrt A P epsT prm.L 0 _ _ h0 with ⟨t, t', e1, e2, hr⟩ | ⟨e, t, t', e1, e2, hr⟩
  · rw [e1, e2]
    simp only []
    have hd : t.done = t'.done := by
      rcases hr with ⟨_, g⟩ | ⟨_, g⟩ <;> exact g.done
    rw [← hd]
    by_cases hdone : t.done = true
    · rw [if_pos hdone, if_pos hdone]
      refine Or.inl ⟨t, t', rfl, rfl, ?_⟩
      rcases hr with ⟨_, g⟩ | ⟨_, g⟩
      · exact g
      · exact g.mono (Nat.zero_le _)
    · rw [if_neg hdone, if_neg hdone]
      rcases hr with ⟨g, _⟩ | ⟨_, g⟩
      · exact absurd g hdone
      · rw [Nat.zero_add] at g
        exact ExRel_elim (polyPart_rel prm ip sqrt c07 A P zeta0 t t' g)
  · rw [e1, e2]
    exact Or.inr ⟨e, t, t', rfl, rfl, hr⟩

theorem init_Rt (prm : Params K) (ip : Vec K → Vec K → K) (sqrt : K → K) (A : CRS K) (P : Vec K → Vec K)
    (ws : Work K) (f x0 : Vec K) : (init prm ip sqrt A P ws f x0).w.Rt = BiCGStab.Rf prm.pside P f A x0 := by
  rw [← init_B prm ip sqrt A P ws f x0]
  show vcopy _ = _
  rw [vcopy_eq]
  rfl

/-- `init` overwrites everything the loop reads -/
theorem init_rel (prm : Params K) (ip : Vec K → Vec K → K) (sqrt : K → K) (A : CRS K) (P : Vec K → Vec K)
    (ws ws' : Work K) (f x0 : Vec K) :
    RelJ 0 (init prm ip sqrt A P ws f x0) (init prm ip sqrt A P ws' f x0) := by
  have hz : (init prm ip sqrt A P ws f x0).zeta = (init prm ip sqrt A P ws' f x0).zeta := by
    rw [init_zeta, init_zeta]
  refine ⟨rfl, rfl, rfl, rfl, hz, hz, hz, rfl, rfl, by rw [init_B, init_B], by rw [init_Rt, init_Rt],
    by rw [init_X, init_X], ?_, ?_⟩
  · intro i hi
    have : i = 0 := by omega
    subst this; rw [init_R0, init_R0]
  · intro i hi
    have : i = 0 := by omega
    subst this; rw [init_U0, init_U0]

theorem final_rel (prm : Params K) (ip : Vec K → Vec K → K) (sqrt : K → K) (c07 : K) (A : CRS K)
    (P : Vec K → Vec K) (ws ws' : Work K) (f x0 : Vec K) (nf : K) :
    (final prm ip sqrt c07 A P ws f x0 nf).1 = (final prm ip sqrt c07 A P ws' f x0 nf).1 ∧
    RelJ 0 (final prm ip sqrt c07 A P ws f x0 nf).2 (final prm ip sqrt c07 A P ws' f x0 nf).2 := by
  unfold final loop
  have hz : (init prm ip sqrt A P ws f x0).zeta = (init prm ip sqrt A P ws' f x0).zeta := by
    rw [init_zeta, init_zeta]
  rw [hz]
  apply loopE_rel (cond prm.maxiter (epsTol prm nf))
    (body prm ip sqrt c07 A P (epsTol prm nf) (init prm ip sqrt A P ws' f x0).zeta) (fun s s' : St K => RelJ 0 s s')
  · intro s s' h; simp only [cond, h.done, h.iter, h.zeta]
  · intro s s' h _; exact body_rel prm ip sqrt c07 A P _ _ s s' h
  · exact init_rel prm ip sqrt A P ws ws' f x0

/-- **Work-space independence of BiCGStab(L)**: what a caller observes of a call — the returned `(iter, residual)`
or the kind of exception, and the vector `x` (also the partially updated `x` after an exception) — does not depend on
the content of ANY of the work arrays `Rt, X, B, T, R[0..L], U[0..L], MZa, MZb, Y0, YL, qr.tau, qr.f`: every cell is
written before it is read.  No hypothesis on `A`, `P`, the parameters or the sizes. -/
theorem run_obs_indep (prm : Params K) (ip : Vec K → Vec K → K) (sqrt : K → K) (eps c07 : K) (A : CRS K)
    (P : Vec K → Vec K) (ws ws' : Work K) (f x0 : Vec K) :
    (run prm ip sqrt eps c07 A P ws f x0).obs = (run prm ip sqrt eps c07 A P ws' f x0).obs := by
  cases hp : prologue prm.nsSearch ip sqrt eps f with
  | trivial n =>
    rw [run_trivial _ _ _ _ _ _ _ _ _ _ n hp, run_trivial _ _ _ _ _ _ _ _ _ _ n hp]; rfl
  | go nf =>
    rw [run_go _ _ _ _ _ _ _ _ _ _ nf hp, run_go _ _ _ _ _ _ _ _ _ _ nf hp]
    obtain ⟨he, hr⟩ := final_rel prm ip sqrt c07 A P ws ws' f x0 nf
    cases h : final prm ip sqrt c07 A P ws f x0 nf with
    | mk oe st =>
      cases h' : final prm ip sqrt c07 A P ws' f x0 nf with
      | mk oe' st' =>
        rw [h, h'] at he hr
        simp only at he hr
        subst he
        cases oe with
        | none =>
          simp only [Run.obs, hr.iter, hr.zeta]
          have : (finish prm.pside P st).1 = (finish prm.pside P st').1 := by
            unfold finish
            cases prm.pside <;> simp only [hr.X, hr.x]
          rw [this]
        | some e => simp only [Run.obs, hr.x]

/-- histories on one BiCGStab(L) object (including calls that end in an exception) equal fresh objects -/
theorem history_eq_fresh (prm : Params K) (ip : Vec K → Vec K → K) (sqrt : K → K) (eps c07 : K)
    (w w0 : Work K) (cs : List (Call K)) :
    history (call prm ip sqrt eps c07) w cs = cs.map (fun c => (call prm ip sqrt eps c07 w0 c).1) :=
  history_eq_fresh_of_indep _ (fun a b c => run_obs_indep prm ip sqrt eps c07 c.A c.P a b c.f c.x0) w0 w cs

end Amgcl.Solver.BiCGStabL
