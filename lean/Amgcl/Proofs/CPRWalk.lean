import Amgcl.Model.CPR
import Amgcl.Proofs.RowGet
import Amgcl.Proofs.KernelsCommon
/-!
The lock-step walk of the `B` row iterators over the block columns (`first_scalar_pass` and the second pass of
`cpr::init`), for rows with strictly increasing columns: sorted-list facts, the minimum computed by `curCol`, the
effect of `advance`.
-/
namespace Amgcl.CPR
open Amgcl

section sorted
variable {K : Type}

abbrev Sorted (r : Row K) : Prop := K2.StrictCols r

theorem Sorted.tail {a : Nat × K} {t : Row K} (h : Sorted (a :: t)) : Sorted t := (List.pairwise_cons.1 h).2

theorem Sorted.head_lt {a : Nat × K} {t : Row K} (h : Sorted (a :: t)) : ∀ c ∈ t, a.1 < c.1 := (List.pairwise_cons.1 h).1

theorem Sorted.filter {r : Row K} (h : Sorted r) (p : Nat × K → Bool) : Sorted (r.filter p) :=
  List.Pairwise.filter p h

/-- for a sorted row, `while (col < e) ++k` leaves exactly the entries with `col ≥ e` -/
theorem dropWhile_eq_filter {r : Row K} (h : Sorted r) (e : Nat) :
    r.dropWhile (fun cv => decide (cv.1 < e)) = r.filter (fun cv => decide (e ≤ cv.1)) := by
  induction r with
  | nil => rfl
  | cons a t ih =>
    by_cases ha : a.1 < e
    · rw [List.dropWhile_cons_of_pos (by simpa using ha), List.filter_cons_of_neg (by simpa using ha), ih h.tail]
    · rw [List.dropWhile_cons_of_neg (by simpa using ha), List.filter_cons_of_pos (by simpa using ha)]
      congr 1
      symm
      rw [List.filter_eq_self]
      intro c hc
      have := h.head_lt c hc
      simp only [decide_eq_true_eq]; omega

/-- … and the entries passed over are exactly those with `col < e` -/
theorem takeWhile_eq_filter {r : Row K} (h : Sorted r) (e : Nat) :
    r.takeWhile (fun cv => decide (cv.1 < e)) = r.filter (fun cv => decide (cv.1 < e)) := by
  induction r with
  | nil => rfl
  | cons a t ih =>
    by_cases ha : a.1 < e
    · rw [List.takeWhile_cons_of_pos (by simpa using ha), List.filter_cons_of_pos (by simpa using ha), ih h.tail]
    · rw [List.takeWhile_cons_of_neg (by simpa using ha), List.filter_cons_of_neg (by simpa using ha)]
      symm
      rw [List.filter_eq_nil_iff]
      intro c hc
      have := h.head_lt c hc
      simp only [decide_eq_true_eq]; omega

theorem rowGet_filter [AddCommMonoid K] (p : Nat → Bool) (r : Row K) (c : Nat) :
    rowGet (r.filter (fun cv => p cv.1)) c = if p c = true then rowGet r c else 0 := by
  induction r with
  | nil => simp
  | cons a t ih =>
    rw [List.filter_cons]
    by_cases ha : p a.1 = true
    · simp only [ha, if_true]
      rw [rowGet_cons', rowGet_cons', ih]
      by_cases hac : a.1 = c
      · subst hac; simp [ha]
      · simp [hac]
    · have ha' : p a.1 = false := by simpa using ha
      simp only [ha', Bool.false_eq_true, if_false]
      rw [rowGet_cons', ih]
      by_cases hac : a.1 = c
      · subst hac; simp [ha]
      · simp [hac]

end sorted

section curcol
variable {K : Type}

theorem headBlk_some {B N : Nat} {k : Row K} {c : Nat} (h : headBlk B N k = some c) :
    ∃ a t, k = a :: t ∧ a.1 < N ∧ a.1 / B = c := by
  cases k with
  | nil => simp [headBlk] at h
  | cons a t =>
    by_cases ha : a.1 < N
    · simp only [headBlk, ha, if_true, Option.some.injEq] at h
      exact ⟨a, t, rfl, ha, h⟩
    · simp [headBlk, ha] at h

/-- the fold of `curCol` with an arbitrary start value -/
def curColFrom (B N : Nat) (acc : Option Nat) (ks : List (Row K)) : Option Nat :=
  ks.foldl (fun acc k =>
    match headBlk B N k, acc with
    | some c, some a => some (min a c)
    | some c, none => some c
    | none, a => a) acc

theorem curColFrom_cons (B N : Nat) (acc : Option Nat) (k : Row K) (t : List (Row K)) :
    curColFrom B N acc (k :: t) = curColFrom B N
        (match headBlk B N k, acc with
          | some c, some a => some (min a c)
          | some c, none => some c
          | none, a => a) t := rfl

theorem curColFrom_none (B N : Nat) (ks : List (Row K)) (acc : Option Nat) (h : curColFrom B N acc ks = none) :
    acc = none ∧ ∀ k ∈ ks, headBlk B N k = none := by
  induction ks generalizing acc with
  | nil => exact ⟨h, by simp⟩
  | cons k t ih =>
    rw [curColFrom_cons] at h
    have := ih _ h
    cases hk : headBlk B N k with
    | none =>
      rw [hk] at this
      refine ⟨this.1, ?_⟩
      intro k' hk'
      rcases List.mem_cons.1 hk' with rfl | h'
      · exact hk
      · exact this.2 k' h'
    | some c =>
      rw [hk] at this
      cases acc with
      | none => cases this.1
      | some a => cases this.1

theorem curColFrom_some (B N : Nat) (ks : List (Row K)) (acc : Option Nat) (m : Nat)
    (h : curColFrom B N acc ks = some m) :
    (∀ a, acc = some a → m ≤ a) ∧ (∀ k ∈ ks, ∀ c, headBlk B N k = some c → m ≤ c) ∧
      (acc = some m ∨ ∃ k ∈ ks, headBlk B N k = some m) := by
  induction ks generalizing acc with
  | nil =>
    have : acc = some m := h
    subst this
    exact ⟨fun a ha => by cases ha; exact Nat.le_refl _, by simp, Or.inl rfl⟩
  | cons k t ih =>
    rw [curColFrom_cons] at h
    have := ih _ h
    cases hk : headBlk B N k with
    | none =>
      rw [hk] at this
      refine ⟨this.1, ?_, ?_⟩
      · intro k' hk' c hc
        rcases List.mem_cons.1 hk' with rfl | h'
        · rw [hk] at hc; cases hc
        · exact this.2.1 k' h' c hc
      · rcases this.2.2 with h' | ⟨k', hk', hc⟩
        · exact Or.inl h'
        · exact Or.inr ⟨k', List.mem_cons_of_mem _ hk', hc⟩
    | some c =>
      rw [hk] at this
      cases acc with
      | none =>
        refine ⟨(by intro a ha; cases ha), ?_, ?_⟩
        · intro k' hk' c' hc'
          rcases List.mem_cons.1 hk' with rfl | h'
          · rw [hk] at hc'; cases hc'; exact this.1 c rfl
          · exact this.2.1 k' h' c' hc'
        · rcases this.2.2 with h' | ⟨k', hk', hc⟩
          · cases h'; exact Or.inr ⟨k, List.mem_cons_self, hk⟩
          · exact Or.inr ⟨k', List.mem_cons_of_mem _ hk', hc⟩
      | some a =>
        have hm := this.1 (min a c) rfl
        refine ⟨?_, ?_, ?_⟩
        · intro a' ha'; cases ha'; exact Nat.le_trans hm (Nat.min_le_left _ _)
        · intro k' hk' c' hc'
          rcases List.mem_cons.1 hk' with rfl | h'
          · rw [hk] at hc'; cases hc'; exact Nat.le_trans hm (Nat.min_le_right _ _)
          · exact this.2.1 k' h' c' hc'
        · rcases this.2.2 with h' | ⟨k', hk', hc⟩
          · have h'' : min a c = m := Option.some.inj h'
            rcases Nat.le_total a c with hac | hac
            · left; rw [← h'', Nat.min_eq_left hac]
            · right; exact ⟨k, List.mem_cons_self, by rw [hk, ← h'', Nat.min_eq_right hac]⟩
          · exact Or.inr ⟨k', List.mem_cons_of_mem _ hk', hc⟩

theorem curCol_none {B N : Nat} {ks : List (Row K)} (h : curCol B N ks = none) : ∀ k ∈ ks, headBlk B N k = none :=
  (curColFrom_none B N ks none h).2

theorem curCol_some {B N : Nat} {ks : List (Row K)} {m : Nat} (h : curCol B N ks = some m) :
    (∀ k ∈ ks, ∀ c, headBlk B N k = some c → m ≤ c) ∧ (∃ k ∈ ks, headBlk B N k = some m) := by
  have := curColFrom_some B N ks none m h
  refine ⟨this.2.1, ?_⟩
  rcases this.2.2 with h' | h'
  · cases h'
  · exact h'

end curcol

end Amgcl.CPR

namespace Amgcl.CPR
open Amgcl

section advance
variable {K : Type}

/-- the entries of a row with column `≥ lo` -/
def geC (lo : Nat) (r : Row K) : Row K := r.filter (fun cv => decide (lo ≤ cv.1))

theorem geC_zero (r : Row K) : geC 0 r = r := by
  unfold geC; simp

theorem geC_sorted {r : Row K} (h : Sorted r) (lo : Nat) : Sorted (geC lo r) := h.filter _

theorem mem_geC {lo : Nat} {r : Row K} {cv : Nat × K} : cv ∈ geC lo r ↔ cv ∈ r ∧ lo ≤ cv.1 := by
  unfold geC; simp

/-- `advance` on rows already cut at `lo ≤ e` cuts them at `e` -/
theorem advance_geC (rows : List (Row K)) (hs : ∀ r ∈ rows, Sorted r) (lo e : Nat) (hle : lo ≤ e) :
    advance e (rows.map (geC lo)) = rows.map (geC e) := by
  unfold advance
  rw [List.map_map]
  apply List.map_congr_left
  intro r hr
  show (geC lo r).dropWhile _ = geC e r
  rw [dropWhile_eq_filter (geC_sorted (hs r hr) lo)]
  unfold geC
  rw [List.filter_filter]
  apply List.filter_congr
  intro cv _
  by_cases h : e ≤ cv.1
  · have : lo ≤ cv.1 := by omega
    simp [h, this]
  · simp [h]

theorem takeWhile_geC {r : Row K} (hs : Sorted r) (lo e : Nat) :
    (geC lo r).takeWhile (fun cv => decide (cv.1 < e)) = r.filter (fun cv => decide (lo ≤ cv.1 ∧ cv.1 < e)) := by
  rw [takeWhile_eq_filter (geC_sorted hs lo)]
  unfold geC
  rw [List.filter_filter]
  apply List.filter_congr
  intro cv _
  by_cases h1 : lo ≤ cv.1 <;> by_cases h2 : cv.1 < e <;> simp [h1, h2]

/-- the head of a sorted row has the least column -/
theorem Sorted.head_le {a : Nat × K} {t : Row K} (h : Sorted (a :: t)) : ∀ c ∈ a :: t, a.1 ≤ c.1 := by
  intro c hc
  rcases List.mem_cons.1 hc with rfl | hc
  · exact Nat.le_refl _
  · exact Nat.le_of_lt (h.head_lt c hc)

/-- **minimum property** of `curCol` on cut sorted rows: every remaining active entry lies in a block column
`≥ cur`, and some entry lies in block column `cur` -/
theorem curCol_geC_some {B N : Nat} (rows : List (Row K)) (hs : ∀ r ∈ rows, Sorted r) (lo cur : Nat)
    (h : curCol B N (rows.map (geC lo)) = some cur) :
    (∀ r ∈ rows, ∀ cv ∈ r, lo ≤ cv.1 → cv.1 < N → cur ≤ cv.1 / B) ∧
    (∃ r ∈ rows, ∃ cv ∈ r, lo ≤ cv.1 ∧ cv.1 < N ∧ cv.1 / B = cur) := by
  obtain ⟨h1, h2⟩ := curCol_some h
  constructor
  · intro r hr cv hcv hlo hN
    have hmem : cv ∈ geC lo r := mem_geC.2 ⟨hcv, hlo⟩
    have hk : geC lo r ∈ rows.map (geC lo) := List.mem_map_of_mem hr
    cases hg : geC lo r with
    | nil => rw [hg] at hmem; cases hmem
    | cons a t =>
      have hsg : Sorted (a :: t) := hg ▸ geC_sorted (hs r hr) lo
      have hle : a.1 ≤ cv.1 := hsg.head_le cv (hg ▸ hmem)
      have haN : a.1 < N := by omega
      have hb : headBlk B N (geC lo r) = some (a.1 / B) := by rw [hg]; simp [headBlk, haN]
      have := h1 _ hk _ hb
      exact Nat.le_trans this (Nat.div_le_div_right hle)
  · obtain ⟨k, hk, hb⟩ := h2
    obtain ⟨r, hr, rfl⟩ := List.mem_map.1 hk
    obtain ⟨a, t, hg, haN, hac⟩ := headBlk_some hb
    have hmem : a ∈ geC lo r := by rw [hg]; exact List.mem_cons_self
    obtain ⟨har, halo⟩ := mem_geC.1 hmem
    exact ⟨r, hr, a, har, halo, haN, hac⟩

theorem curCol_geC_none {B N : Nat} (rows : List (Row K)) (hs : ∀ r ∈ rows, Sorted r) (lo : Nat)
    (h : curCol B N (rows.map (geC lo)) = none) :
    ∀ r ∈ rows, ∀ cv ∈ r, lo ≤ cv.1 → N ≤ cv.1 := by
  intro r hr cv hcv hlo
  have hmem : cv ∈ geC lo r := mem_geC.2 ⟨hcv, hlo⟩
  have hk : geC lo r ∈ rows.map (geC lo) := List.mem_map_of_mem hr
  have hb := curCol_none h _ hk
  cases hg : geC lo r with
  | nil => rw [hg] at hmem; cases hmem
  | cons a t =>
    have hsg : Sorted (a :: t) := hg ▸ geC_sorted (hs r hr) lo
    have hle : a.1 ≤ cv.1 := hsg.head_le cv (hg ▸ hmem)
    rw [hg] at hb
    by_cases haN : a.1 < N
    · simp [headBlk, haN] at hb
    · omega

theorem sum_length_le {α : Type} (f g : α → Nat) (l : List α) (h : ∀ x ∈ l, f x ≤ g x) :
    (l.map f).sum ≤ (l.map g).sum := by
  induction l with
  | nil => simp
  | cons a t ih =>
    simp only [List.map_cons, List.sum_cons]
    have := h a List.mem_cons_self
    have := ih (fun x hx => h x (List.mem_cons_of_mem _ hx))
    omega

theorem sum_length_lt {α : Type} (f g : α → Nat) (l : List α) (h : ∀ x ∈ l, f x ≤ g x) (x : α) (hx : x ∈ l)
    (hlt : f x < g x) : (l.map f).sum < (l.map g).sum := by
  induction l with
  | nil => cases hx
  | cons a t ih =>
    simp only [List.map_cons, List.sum_cons]
    have ha := h a List.mem_cons_self
    have ht := sum_length_le f g t (fun y hy => h y (List.mem_cons_of_mem _ hy))
    rcases List.mem_cons.1 hx with rfl | hx'
    · omega
    · have := ih (fun y hy => h y (List.mem_cons_of_mem _ hy)) hx'
      omega

/-- every step of the walk consumes at least one entry -/
theorem remaining_advance_lt {B N : Nat} (rows : List (Row K)) (hs : ∀ r ∈ rows, Sorted r) (lo cur : Nat)
    (h : curCol B N (rows.map (geC lo)) = some cur) (hB : 0 < B) (hle : lo ≤ (cur + 1) * B) :
    remaining (rows.map (geC ((cur + 1) * B))) < remaining (rows.map (geC lo)) := by
  obtain ⟨_, r, hr, cv, hcv, hlo, _, hdiv⟩ := curCol_geC_some rows hs lo cur h
  unfold remaining
  rw [List.map_map, List.map_map]
  have hsub : ∀ x ∈ rows, (List.length ∘ geC ((cur + 1) * B)) x ≤ (List.length ∘ geC lo) x := by
    intro x _
    show (geC ((cur + 1) * B) x).length ≤ (geC lo x).length
    unfold geC
    have : x.filter (fun cv => decide ((cur + 1) * B ≤ cv.1))
        = (x.filter (fun cv => decide (lo ≤ cv.1))).filter (fun cv => decide ((cur + 1) * B ≤ cv.1)) := by
      rw [List.filter_filter]
      apply List.filter_congr
      intro c _
      by_cases hc : (cur + 1) * B ≤ c.1
      · have : lo ≤ c.1 := by omega
        simp [hc, this]
      · simp [hc]
    rw [this]
    exact List.length_filter_le _ _
  apply sum_length_lt _ _ rows hsub r hr
  show (geC ((cur + 1) * B) r).length < (geC lo r).length
  -- `cv` is in the cut at `lo` but not in the cut at `(cur+1)*B`
  have hcvlt : cv.1 < (cur + 1) * B := by
    have := Nat.lt_succ_self (cv.1 / B)
    calc cv.1 < (cv.1 / B + 1) * B := by
          have := Nat.div_add_mod cv.1 B
          have := Nat.mod_lt cv.1 hB
          rw [Nat.add_mul, Nat.one_mul, Nat.mul_comm]; omega
      _ = (cur + 1) * B := by rw [hdiv]
  unfold geC
  have : r.filter (fun cv => decide ((cur + 1) * B ≤ cv.1))
      = (r.filter (fun cv => decide (lo ≤ cv.1))).filter (fun cv => decide ((cur + 1) * B ≤ cv.1)) := by
    rw [List.filter_filter]
    apply List.filter_congr
    intro c _
    by_cases hc : (cur + 1) * B ≤ c.1
    · have : lo ≤ c.1 := by omega
      simp [hc, this]
    · simp [hc]
  rw [this]
  apply List.length_filter_lt_length_iff_exists.2
  exact ⟨cv, by simp [hcv, hlo], by simp; omega⟩

end advance

end Amgcl.CPR
