import Amgcl.Model.Adapters
import Amgcl.Model.Amg
import Amgcl.Proofs.KernelsSort
import Amgcl.Proofs.KernelsCopy
/-!
Row-order independence of constructors that copy the user's matrix and sort the rows of the copy (C17).

`RowPermOf A' A`: `A'` has the shape of `A` and every row of `A'` lists the entries of the corresponding row of `A` in
some other order ("all permutations of the entries within each row").
-/
namespace Amgcl.Adapters
open Amgcl Amgcl.K2

variable {K : Type}

/-- `A'` is `A` with the entries inside each row listed in a possibly different order -/
def RowPermOf (A' A : CRS K) : Prop :=
  A'.ncols = A.ncols ∧ A'.nrows = A.nrows ∧ ∀ i, (A'.row i).Perm (A.row i)

theorem RowPermOf.refl (A : CRS K) : RowPermOf A A := ⟨rfl, rfl, fun _ => List.Perm.refl _⟩

theorem RowPermOf.symm {A' A : CRS K} (h : RowPermOf A' A) : RowPermOf A A' :=
  ⟨h.1.symm, h.2.1.symm, fun i => (h.2.2 i).symm⟩

theorem RowPermOf.nodupb {A' A : CRS K} (h : RowPermOf A' A) (hn : A.nodupb = true) : A'.nodupb = true := by
  rw [nodupb_iff] at *
  intro i
  exact (((h.2.2 i).map (·.1)).nodup_iff).2 (hn i)

theorem RowPermOf.wf {A' A : CRS K} (h : RowPermOf A' A) (hA : A.WF) : A'.WF := by
  rw [wf_iff_row]
  intro i _ cv hcv
  rw [h.1]
  exact row_col_lt hA i ((h.2.2 i).mem_iff.1 hcv)

/-- **canonical form of the whole matrix**: `sort_rows` removes every trace of the stored order inside the rows
(rows with distinct columns) -/
theorem sortRows_canonical {A' A : CRS K} (h : RowPermOf A' A) (hn : A.nodupb = true) :
    sortRows A' = sortRows A := by
  obtain ⟨hc, hr, hp⟩ := h
  have hsz : A'.rows.size = A.rows.size := hr
  unfold sortRows
  cases A with
  | mk nc rows =>
    cases A' with
    | mk nc' rows' =>
      simp only at hc
      subst hc
      simp only [CRS.mk.injEq, true_and]
      apply Array.ext (by simpa using hsz)
      intro i h1 h2
      simp only [Array.getElem_map]
      have h1' : i < rows'.size := by simpa using h1
      have h2' : i < rows.size := by simpa using h2
      have e1 := row_eq_getElem (⟨nc', rows'⟩ : CRS K) (i := i) h1'
      have e2 := row_eq_getElem (⟨nc', rows⟩ : CRS K) (i := i) h2'
      simp only at e1 e2
      rw [← e1, ← e2]
      exact sortRow_canonical (nodupb_iff.1 hn i) (hp i)

/-- two row-sorted matrices that are row permutations of each other are the same stored matrix -/
theorem eq_of_sorted_rowPerm {A' A : CRS K} (h : RowPermOf A' A) (hs' : A'.sortedb = true) (hs : A.sortedb = true) :
    A' = A := by
  have hn : A.nodupb = true := by
    rw [nodupb_iff]; intro i; exact (sortedb_iff.1 hs i).nodup
  rw [← sortRows_of_sorted A' hs', ← sortRows_of_sorted A hs]
  exact sortRows_canonical h hn

/-- every constructor of the shape "copy the user's matrix, `sort_rows` the copy, initialise from it" is invariant
under the order of the entries inside the rows of the user's matrix -/
theorem sorting_ctor_order_indep {α : Type} (init : CRS K → α) {A' A : CRS K} (h : RowPermOf A' A)
    (hn : A.nodupb = true) : init (sortRows (crsCopy A')) = init (sortRows (crsCopy A)) := by
  rw [crsCopy_eq, crsCopy_eq, sortRows_canonical h hn]

end Amgcl.Adapters
