import Amgcl.Proofs.SkylineNCCrout
import Mathlib.Data.List.Nodup
/-!
(Copy of `Proofs/SkylineEmbed.lean` for an arbitrary value ring `K` and right-hand side type `R`.)
The constructor of `skyline_lu` stores the permuted matrix: for a square CRS matrix whose rows carry no column index
twice and a permutation `perm`, the dense embedding of the raw storage `L/U/D` written by the two traversals is
`(P A Pᵀ)(a,b) = A(perm a, perm b)`.
-/
namespace Amgcl
open Arr2
namespace SkyNC
open Skyline
open Finset

/-! ### generic scatter folds -/

/-- conditional scatter into an array: entries with pairwise distinct keys are all present at the end, every other
position keeps its value -/
theorem scatter_cond {E α : Type} [Zero α] (f : E → Option (Nat × α)) (l : List E) :
    ∀ arr : Array α,
    l.Pairwise (fun e e' => ∀ kv kv', f e = some kv → f e' = some kv' → kv.1 ≠ kv'.1) →
    (∀ e ∈ l, ∀ kv, f e = some kv → kv.1 < arr.size) →
    (∀ e ∈ l, ∀ kv, f e = some kv →
      (l.foldl (fun a e => match f e with | some kv => a.setIfInBounds kv.1 kv.2 | none => a) arr).getD kv.1 0 = kv.2) ∧
    (∀ p, (∀ e ∈ l, ∀ kv, f e = some kv → kv.1 ≠ p) →
      (l.foldl (fun a e => match f e with | some kv => a.setIfInBounds kv.1 kv.2 | none => a) arr).getD p 0 = arr.getD p 0) := by
  induction l with
  | nil =>
    intro arr _ _
    refine ⟨?_, ?_⟩
    · intro e he; exact absurd he (List.not_mem_nil)
    · intro p _; rfl
  | cons e t ih =>
    intro arr hpw hb
    rw [List.pairwise_cons] at hpw
    obtain ⟨hhead, htail⟩ := hpw
    simp only [List.foldl_cons]
    have hb' : ∀ e' ∈ t, ∀ kv, f e' = some kv →
        kv.1 < (match f e with | some kv => arr.setIfInBounds kv.1 kv.2 | none => arr).size := by
      intro e' he' kv hkv
      have := hb e' (List.mem_cons_of_mem _ he') kv hkv
      split <;> simp [this]
    obtain ⟨h1, h2⟩ := ih _ htail hb'
    refine ⟨?_, ?_⟩
    · intro e' he' kv hkv
      rcases List.mem_cons.mp he' with rfl | he'
      · -- the head: not overwritten by the tail
        rw [h2 kv.1 (fun e'' he'' kv'' hkv'' => (hhead e'' he'' kv kv'' hkv hkv'').symm)]
        rw [hkv]
        exact getD_setIfInBounds_self _ _ _ (hb e' List.mem_cons_self kv hkv)
      · exact h1 e' he' kv hkv
    · intro p hp
      rw [h2 p (fun e' he' kv hkv => hp e' (List.mem_cons_of_mem _ he') kv hkv)]
      cases hfe : f e with
      | none => rfl
      | some kv => exact getD_setIfInBounds_ne _ _ _ (hp e List.mem_cons_self kv hfe)

/-! ### the inverse permutation -/

theorem invPerm_spec {n : Nat} {perm : Array Nat} (hp : PermOn n perm) :
    (invPerm n perm).size = n ∧ ∀ i, i < n → (invPerm n perm).getD (perm.getD i 0) 0 = i := by
  unfold invPerm
  have := scatter_cond (α := Nat) (fun i : Nat => some (perm.getD i 0, i)) (List.range n) (Array.replicate n 0)
    (by
      apply List.Pairwise.imp_of_mem (R := fun a b => a < b) _ List.pairwise_lt_range
      intro a b ha hb hab kv kv' h1 h2
      injection h1 with h1; injection h2 with h2
      subst h1; subst h2
      intro e
      have := hp.inj a b (List.mem_range.mp ha) (List.mem_range.mp hb) e
      omega)
    (by
      intro e he kv hkv
      injection hkv with hkv; subst hkv
      simp only [Array.size_replicate]
      exact hp.lt e (List.mem_range.mp he))
  have hfold : ∀ (l : List Nat) (a : Array Nat),
      l.foldl (fun a e => match (some (perm.getD e 0, e) : Option (Nat × Nat)) with
        | some kv => a.setIfInBounds kv.1 kv.2 | none => a) a
      = l.foldl (fun ip i => ip.setIfInBounds (perm.getD i 0) i) a := fun l a => rfl
  rw [hfold] at this
  refine ⟨?_, ?_⟩
  · have : ∀ (l : List Nat) (a : Array Nat), (l.foldl (fun ip i => ip.setIfInBounds (perm.getD i 0) i) a).size = a.size := by
      intro l; induction l with
      | nil => intro a; rfl
      | cons x t ih => intro a; simp only [List.foldl_cons]; rw [ih]; simp
    rw [this]; simp
  · intro i hi
    exact this.1 i (List.mem_range.mpr hi) (perm.getD i 0, i) rfl

/-- the inverse permutation as a function on `0..n-1` -/
theorem invPerm_props {n : Nat} {perm : Array Nat} (hp : PermOn n perm) :
    (∀ r, r < n → (invPerm n perm).getD r 0 < n ∧ perm.getD ((invPerm n perm).getD r 0) 0 = r) ∧
    (∀ r s, r < n → s < n → (invPerm n perm).getD r 0 = (invPerm n perm).getD s 0 → r = s) := by
  obtain ⟨_, hspec⟩ := invPerm_spec hp
  have h1 : ∀ r, r < n → (invPerm n perm).getD r 0 < n ∧ perm.getD ((invPerm n perm).getD r 0) 0 = r := by
    intro r hr
    obtain ⟨i, hi, rfl⟩ := hp.surj r hr
    rw [hspec i hi]; exact ⟨hi, rfl⟩
  refine ⟨h1, ?_⟩
  intro r s hr hs e
  rw [← (h1 r hr).2, ← (h1 s hs).2, e]

/-! ### the two traversals as folds over the flat list of stored entries -/
section traversals
variable {K R : Type} [Ring K] [DecidableEq K] [Zero R]

/-- all stored entries `(row, (col, value))` in traversal order -/
def ents (A : CRS K) (n : Nat) : List (Nat × (Nat × K)) :=
  (List.range n).flatMap (fun i => (A.row i).map (fun cv => (i, cv)))

theorem mem_ents (A : CRS K) (n : Nat) (e : Nat × (Nat × K)) : e ∈ ents A n ↔ e.1 < n ∧ e.2 ∈ A.row e.1 := by
  unfold ents
  simp only [List.mem_flatMap, List.mem_range, List.mem_map]
  constructor
  · rintro ⟨i, hi, cv, hcv, rfl⟩; exact ⟨hi, hcv⟩
  · rintro ⟨h1, h2⟩; exact ⟨e.1, h1, e.2, h2, rfl⟩

/-- distinct stored entries have distinct `(row, col)` when no row repeats a column -/
theorem ents_pairwise (A : CRS K) (n : Nat) (hnd : ∀ i, ((A.row i).map (·.1)).Nodup) :
    (ents A n).Pairwise (fun e e' => ¬ (e.1 = e'.1 ∧ e.2.1 = e'.2.1)) := by
  unfold ents
  rw [List.pairwise_flatMap]
  refine ⟨?_, ?_⟩
  · intro i _
    rw [List.pairwise_map]
    have := hnd i
    rw [List.nodup_iff_pairwise_ne, List.pairwise_map] at this
    exact this.imp (fun h hh => h hh.2)
  · apply List.Pairwise.imp _ List.pairwise_lt_range
    intro a b hab x hx y hy
    simp only [List.mem_map] at hx hy
    obtain ⟨_, _, rfl⟩ := hx
    obtain ⟨_, _, rfl⟩ := hy
    intro h; exact absurd h.1 (by simp only; omega)

/-- body of the first traversal -/
def lensStep (ip : Array Nat) (ptr : Array Nat) (e : Nat × (Nat × K)) : Array Nat :=
  let newi := ip.getD e.1 0
  let newj := ip.getD e.2.1 0
  if !(decide (e.2.2 = 0)) then
    if newi > newj then
      (if ptr.getD newi 0 < newi - newj then ptr.setIfInBounds newi (newi - newj) else ptr)
    else if newi < newj then
      (if ptr.getD newj 0 < newj - newi then ptr.setIfInBounds newj (newj - newi) else ptr)
    else ptr
  else ptr

theorem profileLens_flat (A : CRS K) (n : Nat) (ip : Array Nat) :
    profileLens (fun v : K => decide (v = 0)) A n ip = (ents A n).foldl (lensStep ip) (Array.replicate (n + 1) 0) := by
  unfold profileLens ents
  rw [List.foldl_flatMap]
  congr 1
  funext ptr i
  rw [List.foldl_map]
  rfl

theorem lensStep_props (ip ptr : Array Nat) (e : Nat × (Nat × K))
    (hb : ip.getD e.1 0 < ptr.size ∧ ip.getD e.2.1 0 < ptr.size) :
    (lensStep ip ptr e).size = ptr.size ∧ (∀ k, ptr.getD k 0 ≤ (lensStep ip ptr e).getD k 0) ∧
    (e.2.2 ≠ 0 →
      (ip.getD e.2.1 0 < ip.getD e.1 0 → ip.getD e.1 0 - ip.getD e.2.1 0 ≤ (lensStep ip ptr e).getD (ip.getD e.1 0) 0) ∧
      (ip.getD e.1 0 < ip.getD e.2.1 0 → ip.getD e.2.1 0 - ip.getD e.1 0 ≤ (lensStep ip ptr e).getD (ip.getD e.2.1 0) 0)) := by
  unfold lensStep
  simp only
  generalize ip.getD e.1 0 = a at *
  generalize ip.getD e.2.1 0 = b at *
  by_cases hz : e.2.2 = 0
  · simp only [hz, decide_true, Bool.not_true, Bool.false_eq_true, if_false]
    exact ⟨by first | rfl | trivial, fun k => le_refl _, fun h => absurd rfl h⟩
  · simp only [hz, decide_false, Bool.not_false, if_true]
    by_cases h1 : a > b
    · simp only [h1, if_true]
      by_cases h2 : ptr.getD a 0 < a - b
      · simp only [h2, if_true]
        refine ⟨by simp, ?_, fun _ => ⟨fun _ => ?_, fun h => by omega⟩⟩
        · intro k; rw [getD_setIfInBounds]; split
          · rename_i h; rw [← h.1]; omega
          · exact le_refl _
        · rw [getD_setIfInBounds_self _ _ _ hb.1]
      · simp only [h2, if_false]
        exact ⟨by first | rfl | trivial, fun k => le_refl _, fun _ => ⟨fun _ => by omega, fun h => by omega⟩⟩
    · simp only [h1, if_false]
      by_cases h3 : a < b
      · simp only [h3, if_true]
        by_cases h2 : ptr.getD b 0 < b - a
        · simp only [h2, if_true]
          refine ⟨by simp, ?_, fun _ => ⟨fun h => by omega, fun _ => ?_⟩⟩
          · intro k; rw [getD_setIfInBounds]; split
            · rename_i h; rw [← h.1]; omega
            · exact le_refl _
          · rw [getD_setIfInBounds_self _ _ _ hb.2]
        · simp only [h2, if_false]
          exact ⟨by first | rfl | trivial, fun k => le_refl _, fun _ => ⟨fun h => by omega, fun _ => by omega⟩⟩
      · simp only [h3, if_false]
        exact ⟨by first | rfl | trivial, fun k => le_refl _, fun _ => ⟨fun h => by omega, fun h => by omega⟩⟩

/-- after the first traversal every non-zero entry lies inside the provisional profile -/
theorem lens_fold (ip : Array Nat) (l : List (Nat × (Nat × K))) :
    ∀ ptr : Array Nat, (∀ e ∈ l, ip.getD e.1 0 < ptr.size ∧ ip.getD e.2.1 0 < ptr.size) →
    (l.foldl (lensStep ip) ptr).size = ptr.size ∧ (∀ k, ptr.getD k 0 ≤ (l.foldl (lensStep ip) ptr).getD k 0) ∧
    ∀ e ∈ l, e.2.2 ≠ 0 →
      (ip.getD e.2.1 0 < ip.getD e.1 0 →
        ip.getD e.1 0 - ip.getD e.2.1 0 ≤ (l.foldl (lensStep ip) ptr).getD (ip.getD e.1 0) 0) ∧
      (ip.getD e.1 0 < ip.getD e.2.1 0 →
        ip.getD e.2.1 0 - ip.getD e.1 0 ≤ (l.foldl (lensStep ip) ptr).getD (ip.getD e.2.1 0) 0) := by
  induction l with
  | nil => intro ptr _; exact ⟨rfl, fun k => le_refl _, fun e he => absurd he List.not_mem_nil⟩
  | cons e t ih =>
    intro ptr hb
    simp only [List.foldl_cons]
    obtain ⟨s1, m1, c1⟩ := lensStep_props ip ptr e (hb e List.mem_cons_self)
    obtain ⟨s2, m2, c2⟩ := ih (lensStep ip ptr e) (fun e' he' => by rw [s1]; exact hb e' (List.mem_cons_of_mem _ he'))
    refine ⟨s2.trans s1, fun k => le_trans (m1 k) (m2 k), ?_⟩
    intro e' he' hz
    rcases List.mem_cons.mp he' with rfl | he'
    · obtain ⟨a, b⟩ := c1 hz
      exact ⟨fun h => le_trans (a h) (m2 _), fun h => le_trans (b h) (m2 _)⟩
    · exact c2 e' he' hz

/-- body of the second traversal -/
def fillStep (ip ptr : Array Nat) (LUD : Array K × Array K × Array K) (e : Nat × (Nat × K)) :
    Array K × Array K × Array K :=
  let newi := ip.getD e.1 0
  let newj := ip.getD e.2.1 0
  if !(decide (e.2.2 = 0)) then
    if newi < newj then (LUD.1, LUD.2.1.setIfInBounds (ptr.getD (newj + 1) 0 + newi - newj) e.2.2, LUD.2.2)
    else if newi = newj then (LUD.1, LUD.2.1, LUD.2.2.setIfInBounds newi e.2.2)
    else (LUD.1.setIfInBounds (ptr.getD (newi + 1) 0 + newj - newi) e.2.2, LUD.2.1, LUD.2.2)
  else LUD

theorem fillLUD_flat (A : CRS K) (n : Nat) (ip ptr : Array Nat) (LUD : Array K × Array K × Array K) :
    fillLUD (fun v : K => decide (v = 0)) A n ip ptr LUD = (ents A n).foldl (fillStep ip ptr) LUD := by
  unfold fillLUD ents
  rw [List.foldl_flatMap]
  congr 1
  funext X i
  rw [List.foldl_map]
  rfl

/-- what the second traversal writes into `L`, `U`, `D` for one entry -/
def fL (ip ptr : Array Nat) (e : Nat × (Nat × K)) : Option (Nat × K) :=
  if e.2.2 ≠ 0 ∧ ip.getD e.2.1 0 < ip.getD e.1 0
  then some (ptr.getD (ip.getD e.1 0 + 1) 0 + ip.getD e.2.1 0 - ip.getD e.1 0, e.2.2) else none
def fU (ip ptr : Array Nat) (e : Nat × (Nat × K)) : Option (Nat × K) :=
  if e.2.2 ≠ 0 ∧ ip.getD e.1 0 < ip.getD e.2.1 0
  then some (ptr.getD (ip.getD e.2.1 0 + 1) 0 + ip.getD e.1 0 - ip.getD e.2.1 0, e.2.2) else none
def fD (ip : Array Nat) (e : Nat × (Nat × K)) : Option (Nat × K) :=
  if e.2.2 ≠ 0 ∧ ip.getD e.1 0 = ip.getD e.2.1 0 then some (ip.getD e.1 0, e.2.2) else none

theorem fill_components (ip ptr : Array Nat) (l : List (Nat × (Nat × K))) :
    ∀ LUD : Array K × Array K × Array K,
    (l.foldl (fillStep ip ptr) LUD).1
      = l.foldl (fun a e => match fL ip ptr e with | some kv => a.setIfInBounds kv.1 kv.2 | none => a) LUD.1 ∧
    (l.foldl (fillStep ip ptr) LUD).2.1
      = l.foldl (fun a e => match fU ip ptr e with | some kv => a.setIfInBounds kv.1 kv.2 | none => a) LUD.2.1 ∧
    (l.foldl (fillStep ip ptr) LUD).2.2
      = l.foldl (fun a e => match fD ip e with | some kv => a.setIfInBounds kv.1 kv.2 | none => a) LUD.2.2 := by
  induction l with
  | nil => intro LUD; exact ⟨rfl, rfl, rfl⟩
  | cons e t ih =>
    intro LUD
    simp only [List.foldl_cons]
    obtain ⟨h1, h2, h3⟩ := ih (fillStep ip ptr LUD e)
    rw [h1, h2, h3]
    have hstep : (fillStep ip ptr LUD e).1 = (match fL ip ptr e with | some kv => LUD.1.setIfInBounds kv.1 kv.2 | none => LUD.1) ∧
        (fillStep ip ptr LUD e).2.1 = (match fU ip ptr e with | some kv => LUD.2.1.setIfInBounds kv.1 kv.2 | none => LUD.2.1) ∧
        (fillStep ip ptr LUD e).2.2 = (match fD ip e with | some kv => LUD.2.2.setIfInBounds kv.1 kv.2 | none => LUD.2.2) := by
      unfold fillStep fL fU fD
      simp only
      generalize ip.getD e.1 0 = a
      generalize ip.getD e.2.1 0 = b
      by_cases hz : e.2.2 = 0
      · simp [hz]
      · by_cases h1 : a < b
        · have : ¬ b < a := by omega
          have : ¬ a = b := by omega
          simp [hz, h1, *]
        · by_cases h2 : a = b
          · subst h2; simp [hz]
          · have : b < a := by omega
            simp [hz, h1, h2, this]
    rw [hstep.1, hstep.2.1, hstep.2.2]
    exact ⟨rfl, rfl, rfl⟩

/-! ### the denotation of a row without repeated columns -/

theorem rowGet_of_mem (r : Row K) (hnd : (r.map (·.1)).Nodup) (c : Nat) (v : K) (h : (c, v) ∈ r) : rowGet r c = v := by
  induction r with
  | nil => exact absurd h List.not_mem_nil
  | cons x t ih =>
    rw [List.map_cons, List.nodup_cons] at hnd
    unfold rowGet
    rw [List.foldr_cons]
    rcases List.mem_cons.mp h with rfl | h'
    · simp only [if_true]
      have : rowGet t c = 0 := by
        have hnot : ∀ cv ∈ t, cv.1 ≠ c := by
          intro cv hcv e
          exact hnd.1 (List.mem_map.mpr ⟨cv, hcv, e⟩)
        clear ih h hnd
        induction t with
        | nil => rfl
        | cons y u ihu =>
          unfold rowGet; rw [List.foldr_cons]
          rw [if_neg (hnot y List.mem_cons_self)]
          exact ihu (fun cv hcv => hnot cv (List.mem_cons_of_mem _ hcv))
      show v + rowGet t c = v
      rw [this, add_zero]
    · have hne : x.1 ≠ c := by
        intro e
        exact hnd.1 (List.mem_map.mpr ⟨(c, v), h', e.symm⟩)
      rw [if_neg hne]
      exact ih hnd.2 h'

theorem rowGet_of_not_mem (r : Row K) (c : Nat) (h : ∀ v, (c, v) ∉ r) : rowGet r c = 0 := by
  induction r with
  | nil => rfl
  | cons x t ih =>
    unfold rowGet; rw [List.foldr_cons]
    have hne : x.1 ≠ c := by
      intro e; exact h x.2 (by rw [← e]; exact List.mem_cons_self)
    rw [if_neg hne]
    exact ih (fun v hv => h v (List.mem_cons_of_mem _ hv))

theorem get_of_mem_ents (A : CRS K) (n : Nat) (hnd : ∀ i, ((A.row i).map (·.1)).Nodup) (e : Nat × (Nat × K))
    (he : e ∈ ents A n) : A.get e.1 e.2.1 = e.2.2 := by
  obtain ⟨_, h2⟩ := (mem_ents A n e).mp he
  exact rowGet_of_mem (A.row e.1) (hnd e.1) e.2.1 e.2.2 h2

theorem mem_ents_of_get_ne_zero (A : CRS K) (n : Nat) (hnd : ∀ i, ((A.row i).map (·.1)).Nodup) (r c : Nat) (hr : r < n)
    (h : A.get r c ≠ 0) : (r, (c, A.get r c)) ∈ ents A n := by
  rw [mem_ents]
  refine ⟨hr, ?_⟩
  by_contra hno
  have : ∃ v, (c, v) ∈ A.row r := by
    by_contra hne
    exact h (rowGet_of_not_mem (A.row r) c (fun v hv => hne ⟨v, hv⟩))
  obtain ⟨v, hv⟩ := this
  have := rowGet_of_mem (A.row r) (hnd r) c v hv
  apply hno
  show (c, rowGet (A.row r) c) ∈ A.row r
  rw [this]; exact hv

/-- one of the three arrays after the second traversal, at the position that stands for entry `(r, c)` -/
theorem scatter_value (A : CRS K) (n : Nat) (hnd : ∀ i, ((A.row i).map (·.1)).Nodup) (f : Nat × (Nat × K) → Option (Nat × K))
    (len : Nat)
    (hpw : (ents A n).Pairwise (fun e e' => ∀ kv kv', f e = some kv → f e' = some kv' → kv.1 ≠ kv'.1))
    (hb : ∀ e ∈ ents A n, ∀ kv, f e = some kv → kv.1 < len)
    (hval : ∀ e ∈ ents A n, ∀ kv, f e = some kv → kv.2 = e.2.2 ∧ e.2.2 ≠ 0)
    (p r c : Nat) (hr : r < n)
    (hinj : ∀ e ∈ ents A n, ∀ kv, f e = some kv → kv.1 = p → e.1 = r ∧ e.2.1 = c)
    (hhit : A.get r c ≠ 0 → f (r, (c, A.get r c)) = some (p, A.get r c)) :
    ((ents A n).foldl (fun a e => match f e with | some kv => a.setIfInBounds kv.1 kv.2 | none => a)
      (Array.replicate len (0 : K))).getD p 0 = A.get r c := by
  obtain ⟨h1, h2⟩ := scatter_cond f (ents A n) (Array.replicate len (0 : K)) hpw
    (by intro e he kv hkv; rw [Array.size_replicate]; exact hb e he kv hkv)
  by_cases hz : A.get r c = 0
  · rw [hz, h2 p]
    · unfold Array.getD; split
      · simp
      · rfl
    · intro e he kv hkv hp
      obtain ⟨e1, e2⟩ := hinj e he kv hkv hp
      have := get_of_mem_ents A n hnd e he
      rw [e1, e2, hz] at this
      exact (hval e he kv hkv).2 this.symm
  · have hmem := mem_ents_of_get_ne_zero A n hnd r c hr hz
    exact h1 _ hmem (p, A.get r c) (hhit hz)

theorem fL_some (ip ptr : Array Nat) (e : Nat × (Nat × K)) (kv : Nat × K) (h : fL ip ptr e = some kv) :
    (e.2.2 ≠ 0 ∧ ip.getD e.2.1 0 < ip.getD e.1 0) ∧
    kv = (ptr.getD (ip.getD e.1 0 + 1) 0 + ip.getD e.2.1 0 - ip.getD e.1 0, e.2.2) := by
  unfold fL at h
  split at h
  · rename_i hc; injection h with h; exact ⟨hc, h.symm⟩
  · exact absurd h (by simp)
theorem fU_some (ip ptr : Array Nat) (e : Nat × (Nat × K)) (kv : Nat × K) (h : fU ip ptr e = some kv) :
    (e.2.2 ≠ 0 ∧ ip.getD e.1 0 < ip.getD e.2.1 0) ∧
    kv = (ptr.getD (ip.getD e.2.1 0 + 1) 0 + ip.getD e.1 0 - ip.getD e.2.1 0, e.2.2) := by
  unfold fU at h
  split at h
  · rename_i hc; injection h with h; exact ⟨hc, h.symm⟩
  · exact absurd h (by simp)
theorem fD_some (ip : Array Nat) (e : Nat × (Nat × K)) (kv : Nat × K) (h : fD ip e = some kv) :
    (e.2.2 ≠ 0 ∧ ip.getD e.1 0 = ip.getD e.2.1 0) ∧ kv = (ip.getD e.1 0, e.2.2) := by
  unfold fD at h
  split at h
  · rename_i hc; injection h with h; exact ⟨hc, h.symm⟩
  · exact absurd h (by simp)

/-- **the constructor stores `P A Pᵀ`**: dense embedding of the raw `L/U/D` storage = `A(perm a, perm b)` -/
theorem build_emb (A : CRS K) (perm : Array Nat) (hsq : A.ncols = A.nrows) (hwf : A.WF)
    (hnd : ∀ i, ((A.row i).map (·.1)).Nodup) (hp : PermOn A.nrows perm) :
    ∀ a b, a < A.nrows → b < A.nrows →
      Emb (build (R := R) (fun v : K => decide (v = 0)) A perm) a b = A.get (perm.getD a 0) (perm.getD b 0) := by
  have hst := build_storage (R := R) (fun v : K => decide (v = 0)) A perm
  have hwfS := hst.prof
  obtain ⟨hip1, hip2⟩ := invPerm_props hp
  -- abbreviations
  generalize hS : build (R := R) (fun v : K => decide (v = 0)) A perm = S at hst hwfS
  have hSn : S.n = A.nrows := by rw [← hS]; rfl
  -- columns are in range
  have hcol : ∀ e ∈ ents A A.nrows, e.1 < A.nrows ∧ e.2.1 < A.nrows := by
    intro e he
    obtain ⟨h1, h2⟩ := (mem_ents A A.nrows e).mp he
    refine ⟨h1, ?_⟩
    have hrow : A.row e.1 ∈ A.rows.toList := by
      unfold CRS.row
      have : e.1 < A.rows.size := h1
      rw [show A.rows.getD e.1 [] = A.rows[e.1] from by simp [Array.getD, this]]
      exact Array.getElem_mem_toList this
    have := hwf (A.row e.1) hrow e.2 h2
    rw [hsq] at this; exact this
  -- the profile covers every non-zero entry
  have hlens := lens_fold (K := K) (invPerm A.nrows perm) (ents A A.nrows) (Array.replicate (A.nrows + 1) 0) (by
    intro e he
    obtain ⟨h1, h2⟩ := hcol e he
    rw [Array.size_replicate]
    exact ⟨by have := (hip1 e.1 h1).1; omega, by have := (hip1 e.2.1 h2).1; omega⟩)
  rw [← profileLens_flat] at hlens
  obtain ⟨hsl, _, hcov⟩ := hlens
  rw [Array.size_replicate] at hsl
  have hpre := prefixPtr_inv A.nrows _ hsl A.nrows (le_refl _)
  simp only at hpre
  obtain ⟨_, _, _, hpre4⟩ := hpre
  have hPk : ∀ k, S.P k = (prefixPtr A.nrows (profileLens (fun v : K => decide (v = 0)) A A.nrows (invPerm A.nrows perm))).getD k 0 := by
    intro k; rw [← hS]; rfl
  have hPsucc : ∀ k, k < A.nrows → S.P (k + 1) = S.P k + (if k = 0 then 0 else
      (profileLens (fun v : K => decide (v = 0)) A A.nrows (invPerm A.nrows perm)).getD k 0) := by
    intro k hk; rw [hPk, hPk]; exact hpre4 k hk
  -- in-profile statements
  have hinL : ∀ e ∈ ents A A.nrows, e.2.2 ≠ 0 → (invPerm A.nrows perm).getD e.2.1 0 < (invPerm A.nrows perm).getD e.1 0 →
      (invPerm A.nrows perm).getD e.1 0 ≤ (invPerm A.nrows perm).getD e.2.1 0 +
        (S.P ((invPerm A.nrows perm).getD e.1 0 + 1) - S.P ((invPerm A.nrows perm).getD e.1 0)) := by
    intro e he hz hlt
    have := (hcov e he hz).1 hlt
    have h1 := (hip1 e.1 (hcol e he).1).1
    rw [hPsucc _ h1, if_neg (by omega)]
    omega
  have hinU : ∀ e ∈ ents A A.nrows, e.2.2 ≠ 0 → (invPerm A.nrows perm).getD e.1 0 < (invPerm A.nrows perm).getD e.2.1 0 →
      (invPerm A.nrows perm).getD e.2.1 0 ≤ (invPerm A.nrows perm).getD e.1 0 +
        (S.P ((invPerm A.nrows perm).getD e.2.1 0 + 1) - S.P ((invPerm A.nrows perm).getD e.2.1 0)) := by
    intro e he hz hlt
    have := (hcov e he hz).2 hlt
    have h1 := (hip1 e.2.1 (hcol e he).2).1
    rw [hPsucc _ h1, if_neg (by omega)]
    omega
  -- the three arrays as scatter folds
  have hLUD := fill_components (K := K) (invPerm A.nrows perm) S.ptr (ents A A.nrows)
    (Array.replicate (S.P S.n) 0, Array.replicate (S.P S.n) 0, Array.replicate S.n 0)
  have hfill : (S.L, S.U, S.D) = (ents A A.nrows).foldl (fillStep (invPerm A.nrows perm) S.ptr)
      (Array.replicate (S.P S.n) 0, Array.replicate (S.P S.n) 0, Array.replicate S.n 0) := by
    rw [← fillLUD_flat, ← hS]; rfl
  rw [← hfill] at hLUD
  obtain ⟨hL, hU, hD⟩ := hLUD
  simp only at hL hU hD
  have hptr : ∀ k, S.ptr.getD k 0 = S.P k := fun _ => rfl
  have hPn : ∀ k, k ≤ A.nrows → S.P k ≤ S.P S.n := by
    intro k hk; exact P_mono S hwfS k S.n (by rw [hSn]; exact hk) (le_refl _)
  intro a b ha hb
  have hra := hp.lt a ha
  have hrb := hp.lt b hb
  obtain ⟨_, hspec⟩ := invPerm_spec hp
  have hipa : (invPerm A.nrows perm).getD (perm.getD a 0) 0 = a := hspec a ha
  have hipb : (invPerm A.nrows perm).getD (perm.getD b 0) 0 = b := hspec b hb
  -- entries determined by their new indices
  have hdet : ∀ e ∈ ents A A.nrows, (invPerm A.nrows perm).getD e.1 0 = a → (invPerm A.nrows perm).getD e.2.1 0 = b →
      e.1 = perm.getD a 0 ∧ e.2.1 = perm.getD b 0 := by
    intro e he h1 h2
    obtain ⟨c1, c2⟩ := hcol e he
    exact ⟨hip2 _ _ c1 hra (by rw [h1, hipa]), hip2 _ _ c2 hrb (by rw [h2, hipb])⟩
  unfold Emb
  by_cases hlt : b < a
  · -- strictly lower part
    rw [if_pos hlt]
    unfold Ld
    by_cases hprof : b < a ∧ a ≤ b + (S.P (a + 1) - S.P a)
    · rw [if_pos hprof, hL]
      apply scatter_value A A.nrows hnd (fL (invPerm A.nrows perm) S.ptr) (S.P S.n)
      · apply (ents_pairwise A A.nrows hnd).imp_of_mem
        intro e e' he he' hne kv kv' h1 h2 heq
        obtain ⟨⟨z1, l1⟩, rfl⟩ := fL_some _ _ e kv h1
        obtain ⟨⟨z2, l2⟩, rfl⟩ := fL_some _ _ e' kv' h2
        simp only [hptr] at heq
        obtain ⟨c1, c2⟩ := hcol e he
        obtain ⟨c1', c2'⟩ := hcol e' he'
        obtain ⟨e1, e2⟩ := pos_inj S hwfS _ _ _ _ (by rw [hSn]; exact (hip1 e.1 c1).1) (by rw [hSn]; exact (hip1 e'.1 c1').1)
          ⟨l1, hinL e he z1 l1⟩ ⟨l2, hinL e' he' z2 l2⟩ heq
        exact hne ⟨hip2 _ _ c1 c1' e2, hip2 _ _ c2 c2' e1⟩
      · intro e he kv h1
        obtain ⟨⟨z1, l1⟩, rfl⟩ := fL_some _ _ e kv h1
        simp only [hptr]
        obtain ⟨c1, _⟩ := hcol e he
        have hj := (hip1 e.1 c1).1
        obtain ⟨_, s2⟩ := posU_seg S hwfS _ _ (by rw [hSn]; exact hj) ⟨l1, hinL e he z1 l1⟩
        have := hPn ((invPerm A.nrows perm).getD e.1 0 + 1) (by omega)
        omega
      · intro e he kv h1
        obtain ⟨⟨z1, _⟩, rfl⟩ := fL_some _ _ e kv h1
        exact ⟨rfl, z1⟩
      · exact hra
      · intro e he kv h1 hpos
        obtain ⟨⟨z1, l1⟩, rfl⟩ := fL_some _ _ e kv h1
        simp only [hptr] at hpos
        obtain ⟨c1, _⟩ := hcol e he
        obtain ⟨e1, e2⟩ := pos_inj S hwfS _ _ _ _ (by rw [hSn]; exact (hip1 e.1 c1).1) (by rw [hSn]; exact ha)
          ⟨l1, hinL e he z1 l1⟩ hprof hpos
        exact hdet e he e2 e1
      · intro hz
        unfold fL
        simp only [hipa, hipb]
        rw [if_pos ⟨hz, hlt⟩]; rfl
    · rw [if_neg hprof]
      by_contra hne
      have hz : A.get (perm.getD a 0) (perm.getD b 0) ≠ 0 := fun e => hne e.symm
      have hmem := mem_ents_of_get_ne_zero A A.nrows hnd _ _ hra hz
      have := hinL _ hmem hz (by simp only [hipa, hipb]; exact hlt)
      simp only [hipa, hipb] at this
      exact hprof ⟨hlt, this⟩
  · rw [if_neg hlt]
    by_cases hgt : a < b
    · -- strictly upper part
      rw [if_pos hgt]
      unfold Ud
      by_cases hprof : a < b ∧ b ≤ a + (S.P (b + 1) - S.P b)
      · rw [if_pos hprof, hU]
        apply scatter_value A A.nrows hnd (fU (invPerm A.nrows perm) S.ptr) (S.P S.n)
        · apply (ents_pairwise A A.nrows hnd).imp_of_mem
          intro e e' he he' hne kv kv' h1 h2 heq
          obtain ⟨⟨z1, l1⟩, rfl⟩ := fU_some _ _ e kv h1
          obtain ⟨⟨z2, l2⟩, rfl⟩ := fU_some _ _ e' kv' h2
          simp only [hptr] at heq
          obtain ⟨c1, c2⟩ := hcol e he
          obtain ⟨c1', c2'⟩ := hcol e' he'
          obtain ⟨e1, e2⟩ := pos_inj S hwfS _ _ _ _ (by rw [hSn]; exact (hip1 e.2.1 c2).1) (by rw [hSn]; exact (hip1 e'.2.1 c2').1)
            ⟨l1, hinU e he z1 l1⟩ ⟨l2, hinU e' he' z2 l2⟩ heq
          exact hne ⟨hip2 _ _ c1 c1' e1, hip2 _ _ c2 c2' e2⟩
        · intro e he kv h1
          obtain ⟨⟨z1, l1⟩, rfl⟩ := fU_some _ _ e kv h1
          simp only [hptr]
          obtain ⟨_, c2⟩ := hcol e he
          have hj := (hip1 e.2.1 c2).1
          obtain ⟨_, s2⟩ := posU_seg S hwfS _ _ (by rw [hSn]; exact hj) ⟨l1, hinU e he z1 l1⟩
          have := hPn ((invPerm A.nrows perm).getD e.2.1 0 + 1) (by omega)
          omega
        · intro e he kv h1
          obtain ⟨⟨z1, _⟩, rfl⟩ := fU_some _ _ e kv h1
          exact ⟨rfl, z1⟩
        · exact hra
        · intro e he kv h1 hpos
          obtain ⟨⟨z1, l1⟩, rfl⟩ := fU_some _ _ e kv h1
          simp only [hptr] at hpos
          obtain ⟨_, c2⟩ := hcol e he
          obtain ⟨e1, e2⟩ := pos_inj S hwfS _ _ _ _ (by rw [hSn]; exact (hip1 e.2.1 c2).1) (by rw [hSn]; exact hb)
            ⟨l1, hinU e he z1 l1⟩ hprof hpos
          exact hdet e he e1 e2
        · intro hz
          unfold fU
          simp only [hipa, hipb]
          rw [if_pos ⟨hz, hgt⟩]; rfl
      · rw [if_neg hprof]
        by_contra hne
        have hz : A.get (perm.getD a 0) (perm.getD b 0) ≠ 0 := fun e => hne e.symm
        have hmem := mem_ents_of_get_ne_zero A A.nrows hnd _ _ hra hz
        have := hinU _ hmem hz (by simp only [hipa, hipb]; exact hgt)
        simp only [hipa, hipb] at this
        exact hprof ⟨hgt, this⟩
    · -- diagonal
      have hab : a = b := by omega
      subst hab
      rw [if_neg hgt]
      unfold Dd
      rw [hD]
      apply scatter_value A A.nrows hnd (fD (invPerm A.nrows perm)) S.n
      · apply (ents_pairwise A A.nrows hnd).imp_of_mem
        intro e e' he he' hne kv kv' h1 h2 heq
        obtain ⟨⟨z1, l1⟩, rfl⟩ := fD_some _ e kv h1
        obtain ⟨⟨z2, l2⟩, rfl⟩ := fD_some _ e' kv' h2
        simp only at heq
        obtain ⟨c1, c2⟩ := hcol e he
        obtain ⟨c1', c2'⟩ := hcol e' he'
        exact hne ⟨hip2 _ _ c1 c1' heq, hip2 _ _ c2 c2' (by rw [← l1, ← l2]; exact heq)⟩
      · intro e he kv h1
        obtain ⟨_, rfl⟩ := fD_some _ e kv h1
        rw [hSn]; exact (hip1 e.1 (hcol e he).1).1
      · intro e he kv h1
        obtain ⟨⟨z1, _⟩, rfl⟩ := fD_some _ e kv h1
        exact ⟨rfl, z1⟩
      · exact hra
      · intro e he kv h1 hpos
        obtain ⟨⟨z1, l1⟩, rfl⟩ := fD_some _ e kv h1
        simp only at hpos
        exact hdet e he hpos (by rw [← l1]; exact hpos)
      · intro hz
        unfold fD
        simp only [hipa]
        rw [if_pos ⟨hz, trivial⟩]

end traversals

end SkyNC
end Amgcl
