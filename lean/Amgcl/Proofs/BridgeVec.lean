import Amgcl.Proofs.EnergyBridge
/-!
# Bridge, part 0: reading arrays as vectors

`vecOf_ofFn`, `vecOf_ext` — arrays of the right length are determined by their denotation; `vecOf_vlin` — the denotation
of the linear combination used to state linearity.
-/
set_option linter.unusedSectionVars false
namespace Amgcl.Energy.Bridge
open Amgcl Amgcl.Amg Matrix Finset

variable {K : Type} [Field K] [DecidableEq K]

@[simp] theorem matOf_apply (A : CRS K) (n m : Nat) (i : Fin n) (j : Fin m) : matOf A n m i j = A.get i.val j.val := rfl

omit [DecidableEq K] in
/-- reading back an array built from a function -/
theorem vecOf_ofFn {n : Nat} (g : Fin n → K) : vecOf n (Array.ofFn g) = g := by
  funext i
  simp [vecOf, getD_ofFn_lt _ _ _ i.isLt]

omit [DecidableEq K] in
/-- arrays of length `n` with the same denotation are equal -/
theorem vecOf_ext {n : Nat} {x y : Vec K} (hx : x.size = n) (hy : y.size = n) (h : vecOf n x = vecOf n y) : x = y := by
  apply Array.ext (by rw [hx, hy])
  intro i h1 h2
  have := congrFun h ⟨i, by omega⟩
  simpa [vecOf, Array.getD, h1, h2] using this

omit [DecidableEq K] in
theorem vecOf_apply {n : Nat} (x : Vec K) (i : Fin n) : vecOf n x i = x.getD i.val 0 := rfl

omit [DecidableEq K] in
/-- the denotation of a linear combination -/
theorem vecOf_vlin {n : Nat} (a b : K) (x y : Vec K) (hx : x.size = n) (hy : y.size = n) :
    vecOf n (Relax.vlin a x b y) = a • vecOf n x + b • vecOf n y := by
  funext i
  simp only [vecOf, Pi.add_apply, Pi.smul_apply, smul_eq_mul]
  rw [vlin_getD a b x y i.val (by rw [hx, hy])]

end Amgcl.Energy.Bridge
