import Amgcl.Proofs.KrylovCG
/-!
# The preconditioned CG recurrence over a SESQUILINEAR Hermitian form (complex-valued systems, C05g)

`CGDataS 𝕜 V` is `CGData 𝕜 V` with the form `B : V → V → 𝕜` a plain function; `CGDataS.st` is the same recurrence (the
statement order of cg.hpp:181-199, total division).  The hypotheses are collected in `Sesq conj` for a ring homomorphism
`conj : 𝕜 →+* 𝕜` (i.e. `conj_add`, `conj_mul`, `conj 1 = 1`) which is an involution (`conj_conj`):

* `B` additive in both arguments, `B (a • u) v = a * B u v`, `B u (a • v) = conj a * B u v` (amgcl's convention: linear in the
  FIRST, conjugate-linear in the SECOND argument: `inner_product(x, y) = yᴴx`),
* Hermitian: `B u v = conj (B v u)`,
* `A` and `P` self-adjoint with respect to `B`.

Nothing else is used — no positivity, no order, no commutation of `conj` with anything but the ring operations.  Under these
hypotheses and without breakdown before step `k`: `⟨r_j, P r_i⟩ = 0`, `⟨r_j, p_i⟩ = 0`, `⟨p_j, A p_i⟩ = 0` for `i < j ≤ k`
(`CGDataS.conj_of_noBreakdown`).  The proof is the one of `KrylovCG.lean`; the two places where the second argument is scaled
pick up a `conj`, and the last step needs `ρ_i = ⟨r_i, P r_i⟩` to be self-conjugate, which follows from Hermitian + `P` self-adjoint.
-/
namespace Amgcl.Krylov

structure CGDataS (𝕜 V : Type*) [Field 𝕜] [AddCommGroup V] [Module 𝕜 V] where
  A : V →ₗ[𝕜] V
  P : V →ₗ[𝕜] V
  B : V → V → 𝕜
  x0 : V
  r0 : V

namespace CGDataS
variable {𝕜 V : Type*} [Field 𝕜] [AddCommGroup V] [Module 𝕜 V] (c : CGDataS 𝕜 V)

/-- one pass of cg.hpp:181-199 (pass number `k`, `k = 0` is the `copy` branch) -/
def next (k : ℕ) (s : CGSt 𝕜 V) : CGSt 𝕜 V :=
  let z := c.P s.r
  let rho := c.B s.r z
  let p := if k = 0 then z else z + (rho / s.rho) • s.p
  let α := rho / c.B (c.A p) p
  ⟨s.x + α • p, s.r - α • c.A p, p, rho⟩

def st : ℕ → CGSt 𝕜 V
  | 0 => ⟨c.x0, c.r0, 0, 0⟩
  | k + 1 => c.next k (st k)

def x (k : ℕ) : V := (c.st k).x
def r (k : ℕ) : V := (c.st k).r
def z (k : ℕ) : V := c.P (c.r k)
def rho (k : ℕ) : 𝕜 := c.B (c.r k) (c.z k)
def p (k : ℕ) : V := (c.st (k + 1)).p
def q (k : ℕ) : V := c.A (c.p k)
def d (k : ℕ) : 𝕜 := c.B (c.q k) (c.p k)
def alpha (k : ℕ) : 𝕜 := c.rho k / c.d k
def beta (k : ℕ) : 𝕜 := c.rho (k + 1) / c.rho k

theorem p_zero : c.p 0 = c.z 0 := rfl
theorem p_succ (k : ℕ) : c.p (k + 1) = c.z (k + 1) + c.beta k • c.p k := by
  show (c.next (k + 1) (c.st (k + 1))).p = _
  simp only [next, Nat.succ_ne_zero, if_false]
  rfl
theorem x_succ (k : ℕ) : c.x (k + 1) = c.x k + c.alpha k • c.p k := rfl
theorem r_succ (k : ℕ) : c.r (k + 1) = c.r k - c.alpha k • c.q k := rfl

/-- the hypotheses on the form and the two operators -/
structure Sesq (conj : 𝕜 →+* 𝕜) : Prop where
  conj_conj : ∀ a, conj (conj a) = a
  add_left : ∀ u v w, c.B (u + v) w = c.B u w + c.B v w
  smul_left : ∀ (a : 𝕜) u w, c.B (a • u) w = a * c.B u w
  add_right : ∀ u v w, c.B u (v + w) = c.B u v + c.B u w
  smul_right : ∀ (a : 𝕜) u w, c.B u (a • w) = conj a * c.B u w
  herm : ∀ u v, c.B u v = conj (c.B v u)
  A : ∀ u v, c.B (c.A u) v = c.B u (c.A v)
  P : ∀ u v, c.B (c.P u) v = c.B u (c.P v)

variable {c} {conj : 𝕜 →+* 𝕜}

theorem Sesq.sub_left (hs : c.Sesq conj) (u v w : V) : c.B (u - v) w = c.B u w - c.B v w := by
  have h := hs.add_left (u - v) v w
  rw [sub_add_cancel] at h
  rw [h]; ring

theorem Sesq.sub_right (hs : c.Sesq conj) (u v w : V) : c.B u (v - w) = c.B u v - c.B u w := by
  have h := hs.add_right u (v - w) w
  rw [sub_add_cancel] at h
  rw [h]; ring

theorem Sesq.conj_ne (hs : c.Sesq conj) {a : 𝕜} (ha : a ≠ 0) : conj a ≠ 0 := by
  intro h
  apply ha
  rw [← hs.conj_conj a, h, map_zero]

/-- `ρ_k = ⟨r_k, P r_k⟩` is self-conjugate -/
theorem Sesq.rho_real (hs : c.Sesq conj) (k : ℕ) : conj (c.rho k) = c.rho k := by
  show conj (c.B (c.r k) (c.P (c.r k))) = c.B (c.r k) (c.P (c.r k))
  rw [← hs.herm, hs.P]

variable (c)

def NoBreakdown (k : ℕ) : Prop := ∀ i, i < k → c.rho i ≠ 0 ∧ c.d i ≠ 0

theorem NoBreakdown.mono {c : CGDataS 𝕜 V} {k m : ℕ} (h : c.NoBreakdown k) (hm : m ≤ k) : c.NoBreakdown m :=
  fun i hi => h i (lt_of_lt_of_le hi hm)

def Conj (k : ℕ) : Prop :=
  ∀ i j, i < j → j ≤ k → c.B (c.r j) (c.z i) = 0 ∧ c.B (c.r j) (c.p i) = 0 ∧ c.B (c.p j) (c.q i) = 0

theorem z_eq_p (i : ℕ) : c.z i = if i = 0 then c.p 0 else c.p i - c.beta (i - 1) • c.p (i - 1) := by
  cases i with
  | zero => simp [p_zero]
  | succ i => simp [p_succ]

variable {c}

theorem rp_self (hs : c.Sesq conj) {k : ℕ} (hc : c.Conj k) (j : ℕ) (hj : j ≤ k) : c.B (c.r j) (c.p j) = c.rho j := by
  cases j with
  | zero => rfl
  | succ j =>
    rw [p_succ, hs.add_right, hs.smul_right, (hc j (j + 1) (Nat.lt_succ_self j) hj).2.1]
    simp [rho]

theorem alpha_ne {k : ℕ} (h : c.NoBreakdown k) (i : ℕ) (hi : i < k) : c.alpha i ≠ 0 :=
  div_ne_zero (h i hi).1 (h i hi).2

/-- **conjugacy over a sesquilinear Hermitian form** -/
theorem conj_of_noBreakdown (hs : c.Sesq conj) : ∀ k, c.NoBreakdown k → c.Conj k := by
  intro k
  induction k with
  | zero => intro _ i j hij hj; omega
  | succ k ih =>
    intro hnb
    have hck : c.Conj k := ih (hnb.mono (Nat.le_succ k))
    obtain ⟨hrho, hd⟩ := hnb k (Nat.lt_succ_self k)
    have h2 : ∀ i, i ≤ k → c.B (c.r (k + 1)) (c.p i) = 0 := by
      intro i hi
      rw [r_succ, hs.sub_left, hs.smul_left]
      rcases Nat.lt_or_ge i k with hik | hik
      · have h := hck i k hik (Nat.le_refl k)
        have e : c.B (c.q k) (c.p i) = 0 := by
          show c.B (c.A (c.p k)) (c.p i) = 0
          rw [hs.A]; exact h.2.2
        rw [h.2.1, e]; ring
      · have hik' : i = k := by omega
        subst hik'
        rw [rp_self hs hck i (Nat.le_refl i)]
        show c.rho i - c.rho i / c.d i * c.d i = 0
        field_simp
        ring
    have h1 : ∀ i, i ≤ k → c.B (c.r (k + 1)) (c.z i) = 0 := by
      intro i hi
      rw [z_eq_p]
      cases i with
      | zero => simpa using h2 0 hi
      | succ i =>
        simp only [Nat.succ_ne_zero, if_false, Nat.add_sub_cancel]
        rw [hs.sub_right, hs.smul_right, h2 (i + 1) hi, h2 i (by omega)]; ring
    have h3 : ∀ i, i ≤ k → c.B (c.p (k + 1)) (c.q i) = 0 := by
      intro i hi
      have hα : c.alpha i ≠ 0 := alpha_ne hnb i (by omega)
      have hαc : conj (c.alpha i) ≠ 0 := hs.conj_ne hα
      have key : conj (c.alpha i) * c.B (c.z (k + 1)) (c.q i)
          = c.B (c.r (k + 1)) (c.z i) - c.B (c.r (k + 1)) (c.z (i + 1)) := by
        have e1 : c.alpha i • c.P (c.q i) = c.z i - c.z (i + 1) := by
          show _ = c.P (c.r i) - c.P (c.r (i + 1))
          rw [r_succ, map_sub, map_smul]; abel
        show conj (c.alpha i) * c.B (c.P (c.r (k + 1))) (c.q i) = _
        rw [hs.P, ← hs.smul_right, e1, hs.sub_right]
      rw [p_succ, hs.add_left, hs.smul_left]
      rcases Nat.lt_or_ge i k with hik | hik
      · rw [h1 i hi, h1 (i + 1) (by omega), sub_zero] at key
        have e0 : c.B (c.z (k + 1)) (c.q i) = 0 := by
          rcases mul_eq_zero.mp key with h | h
          · exact absurd h hαc
          · exact h
        rw [e0, (hck i k hik (Nat.le_refl k)).2.2]; ring
      · have hik' : i = k := by omega
        subst hik'
        have e0 : c.B (c.r (i + 1)) (c.z (i + 1)) = c.rho (i + 1) := rfl
        rw [h1 i hi, e0, zero_sub] at key
        have e2 : c.B (c.p i) (c.q i) = conj (c.d i) := by rw [hs.herm]; rfl
        have hdc : conj (c.d i) ≠ 0 := hs.conj_ne hd
        have e3 : c.B (c.z (i + 1)) (c.q i) = -c.rho (i + 1) / conj (c.alpha i) := by
          rw [eq_div_iff hαc, mul_comm]; exact key
        have e4 : conj (c.alpha i) = c.rho i / conj (c.d i) := by
          show conj (c.rho i / c.d i) = _
          rw [map_div₀, hs.rho_real]
        rw [e2, e3, e4]
        show -c.rho (i + 1) / (c.rho i / conj (c.d i)) + c.rho (i + 1) / c.rho i * conj (c.d i) = 0
        field_simp
        ring
    intro i j hij hj
    rcases Nat.lt_or_ge j (k + 1) with hjk | hjk
    · exact hck i j hij (by omega)
    · have hjk' : j = k + 1 := by omega
      subst hjk'
      exact ⟨h1 i (by omega), h2 i (by omega), h3 i (by omega)⟩

/-- `⟨p_i, A p_j⟩ = 0` for `i ≠ j`, both `≤ k` -/
theorem p_conjugate (hs : c.Sesq conj) {k : ℕ} (hnb : c.NoBreakdown k) (i j : ℕ) (hi : i ≤ k) (hj : j ≤ k)
    (hij : i ≠ j) : c.B (c.p i) (c.A (c.p j)) = 0 := by
  have hc := conj_of_noBreakdown hs k hnb
  rcases Nat.lt_or_gt_of_ne hij with h | h
  · have e : c.B (c.p j) (c.A (c.p i)) = 0 := (hc i j h hj).2.2
    rw [← hs.A, hs.herm, e, map_zero]
  · exact (hc j i h hi).2.2

/-- `⟨r_i, P r_j⟩ = 0` for `i ≠ j`, both `≤ k` -/
theorem r_orthogonal (hs : c.Sesq conj) {k : ℕ} (hnb : c.NoBreakdown k) (i j : ℕ) (hi : i ≤ k) (hj : j ≤ k)
    (hij : i ≠ j) : c.B (c.r i) (c.P (c.r j)) = 0 := by
  have hc := conj_of_noBreakdown hs k hnb
  rcases Nat.lt_or_gt_of_ne hij with h | h
  · have e : c.B (c.r j) (c.P (c.r i)) = 0 := (hc i j h hj).1
    rw [← hs.P, hs.herm, e, map_zero]
  · exact (hc j i h hi).1

end CGDataS
end Amgcl.Krylov
