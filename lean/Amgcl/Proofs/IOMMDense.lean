import Amgcl.Proofs.IOMMRead
import Mathlib.Tactic.Linarith
/-!
The repaired dense MatrixMarket reader: never out of bounds, returns exactly `rows · cols` values (helper file for C19).
-/
namespace Amgcl.IO
variable {V : Type}

theorem denseCells_ne_oob (vk : ValKind V) (n m b e : Int) (rem k : Nat) (lines : List Bytes) :
    denseCells vk n m b e rem k lines ≠ .oob := by
  induction rem generalizing k lines with
  | zero => simp [denseCells]
  | succ r ih =>
    cases lines with
    | nil => simp [denseCells]
    | cons l ls =>
      simp only [denseCells]
      split
      · split
        · simp
        · split
          · simp
          · simp
          · rename_i h; exact absurd h (ih _ _)
      · exact ih _ _

theorem denseCells_ok (vk : ValKind V) (n m b e : Int) (hn : 0 ≤ n) (hm : 0 ≤ m) (hb : 0 ≤ b) (hen : e ≤ n)
    (rem k : Nat) (lines : List Bytes) (cells : List (Int × V)) (hk : (k : Int) + rem = n * m)
    (h : denseCells vk n m b e rem k lines = .ok cells) : ∀ c ∈ cells, 0 ≤ c.1 ∧ c.1 < (e - b) * m := by
  induction rem generalizing k lines cells with
  | zero =>
    simp only [denseCells] at h
    injection h with h; subst h; intro c hc; cases hc
  | succ r ih =>
    cases lines with
    | nil => simp [denseCells] at h
    | cons l ls =>
      have hk' : ((k + 1 : Nat) : Int) + r = n * m := by push_cast at hk ⊢; omega
      simp only [denseCells] at h
      split at h
      · rename_i hin
        split at h
        · contradiction
        · rename_i v rest hv
          split at h
          · rename_i rest' hrest
            injection h with h; subst h
            intro c hc
            rcases List.mem_cons.mp hc with rfl | hc
            · simp only []
              have hlt : (k : Int) < n * m := by push_cast at hk; omega
              have hnpos : 0 < n := by
                by_cases h : 0 < n
                · exact h
                · have : n = 0 := by omega
                  subst this; simp at hlt; omega
              have hj0 : 0 ≤ (k : Int) / n := Int.ediv_nonneg (by omega) (by omega)
              have hj1 : (k : Int) / n < m := Int.ediv_lt_of_lt_mul hnpos (by rw [Int.mul_comm]; exact hlt)
              have h1 : 0 ≤ ((k : Int) % n - b) * m := Int.mul_nonneg (by omega) hm
              have h2 : ((k : Int) % n - b + 1) * m ≤ (e - b) * m :=
                Int.mul_le_mul_of_nonneg_right (by omega) hm
              constructor
              · omega
              · nlinarith
            · exact ih _ _ _ hk' hrest c hc
          · contradiction
          · contradiction
      · exact ih _ _ _ hk' h

theorem foldl_setAt_some (cells : List (Int × V)) (l : List V)
    (h : ∀ c ∈ cells, 0 ≤ c.1 ∧ c.1 < (l.length : Int)) :
    ∃ l', foldlOpt setAt l cells = some l' ∧ l'.length = l.length := by
  induction cells generalizing l with
  | nil => exact ⟨l, rfl, rfl⟩
  | cons c t ih =>
    have hc := h c (by simp)
    have hstep : setAt l c = some (l.set c.1.toNat c.2) := by
      unfold setAt; rw [if_pos ⟨hc.1, by omega⟩]
    obtain ⟨l', h1, h2⟩ := ih (l.set c.1.toNat c.2) (fun x hx => by rw [List.length_set]; exact h x (by simp [hx]))
    exact ⟨l', by simp only [foldlOpt, hstep]; exact h1, by rw [h2, List.length_set]⟩

theorem mmDenseHeader_ne_oob (fixed : Bool) (vk : ValKind V) (file : Bytes) : mmDenseHeader fixed vk file ≠ .oob := by
  unfold mmDenseHeader
  split
  · simp
  · rename_i h; exact absurd h (mmOpen_ne_oob file)
  · repeat' split
    all_goals simp

theorem mmDenseHeader_fixed (vk : ValKind V) (file : Bytes) (h : DenseHeader)
    (hh : mmDenseHeader true vk file = .ok h) :
    0 ≤ h.n ∧ 0 ≤ h.m ∧ h.n < 9223372036854775808 ∧ h.m < 9223372036854775808 := by
  unfold mmDenseHeader at hh
  split at hh
  · contradiction
  · contradiction
  · split at hh
    · contradiction
    · split at hh
      · contradiction
      · split at hh
        · contradiction
        · split at hh
          · contradiction
          · rename_i hn
            split at hh
            · contradiction
            · rename_i hm
              split at hh
              · contradiction
              · rename_i hchk
                injection hh with hh
                subst hh
                have h1 := extractInt_signed_range _ _ _ hn
                have h2 := extractInt_signed_range _ _ _ hm
                simp at hchk
                exact ⟨hchk.1, hchk.2, h1.2, h2.2⟩

theorem mmDenseBody_wf (memLimit : Nat) (vk : ValKind V) (h : DenseHeader) (b e : Int)
    (hn : 0 ≤ h.n) (hm : 0 ≤ h.m) (hn63 : h.n < 9223372036854775808) (hm63 : h.m < 9223372036854775808)
    (hb : 0 ≤ b) (hbe : b ≤ e) (hen : e ≤ h.n) :
    mmDenseBody memLimit vk h b e = .error ∨ ∃ D, mmDenseBody memLimit vk h b e = .ok D ∧ D.WF := by
  unfold mmDenseBody
  simp only []
  split
  · left; rfl
  split
  · left; rfl
  split
  · left; rfl
  · rename_i hc; exact absurd hc (denseCells_ne_oob _ _ _ _ _ _ _ _)
  · rename_i cells hc
    have hnm : 0 ≤ h.n * h.m := Int.mul_nonneg hn hm
    have hcells := denseCells_ok vk h.n h.m b e hn hm hb hen (h.n * h.m).toNat 0 h.body cells
      (by rw [Int.toNat_of_nonneg hnm]; simp) hc
    have hsz : 0 ≤ (e - b) * h.m := Int.mul_nonneg (by omega) hm
    obtain ⟨val, hv1, hv2⟩ := foldl_setAt_some cells (List.replicate ((e - b) * h.m).toNat vk.zero)
      (fun c hc' => by
        rw [List.length_replicate, Int.toNat_of_nonneg hsz]; exact hcells c hc')
    rw [hv1]
    right
    refine ⟨_, rfl, ?_⟩
    unfold RawDense.WF
    simp only [hv2, List.length_replicate]
    have w1 : wrapU64 (e - b) = (e - b).toNat := by
      unfold wrapU64; rw [Int.emod_eq_of_lt (by omega) (by omega)]
    have w2 : wrapU64 h.m = h.m.toNat := by
      unfold wrapU64; rw [Int.emod_eq_of_lt hm (by omega)]
    rw [w1, w2, Int.toNat_mul (by omega) hm]

/-- **Every input**: the repaired dense MatrixMarket reader throws or returns exactly `rows · cols` values, and
never touches memory outside its buffer. -/
theorem mmReadDense_error_or_wf (memLimit : Nat) (vk : ValKind V) (file : Bytes) (rb re : Int) :
    mmReadDense true memLimit vk file rb re = .error ∨
    ∃ D, mmReadDense true memLimit vk file rb re = .ok D ∧ D.WF := by
  unfold mmReadDense
  split
  · left; rfl
  · rename_i h; exact absurd h (mmDenseHeader_ne_oob _ _ _)
  · rename_i h hh
    obtain ⟨hn, hm, hn63, hm63⟩ := mmDenseHeader_fixed vk file h hh
    split
    · left; rfl
    · rename_i b e hr
      obtain ⟨hb, hbe, hen, _, _⟩ := rowRange_fixed _ _ _ _ _ hr
      exact mmDenseBody_wf memLimit vk h b e hn hm hn63 hm63 hb hbe hen

end Amgcl.IO
