import Amgcl.Proofs.RSRowSum
import Amgcl.Proofs.RSTransfer
/-!
Row sums of the prolongation returned by `RS.transferFull`: the hypotheses of `interp_rowsum_one` about the entries of a
row follow from facts about the stored matrix row and from the way `connect` sets the flags.
-/
namespace Amgcl
namespace RS
variable {K : Type} [Field K] [LinearOrder K] [IsStrictOrderedRing K]

/-! ### from the matrix row to the hypotheses of `interp_rowsum_one` -/

omit [IsStrictOrderedRing K] in
theorem interpEntries_map_fst (cf : Array CF) (r : Row K) (flags : List Bool) (h : flags.length = r.length) :
    (interpEntries cf r flags).map (·.1) = r := by
  unfold interpEntries
  induction r generalizing flags with
  | nil => simp
  | cons cv t ih =>
    cases flags with
    | nil => simp at h
    | cons s fl =>
      simp only [List.zipWith_cons_cons, List.map_cons]
      rw [ih fl (by simpa using h)]

theorem filter_fst_length {α β : Type} (p : α → Bool) (l : List (α × β)) :
    (l.filter fun e => p e.1).length = ((l.map (·.1)).filter p).length := by
  induction l with
  | nil => rfl
  | cons e t ih =>
    simp only [List.filter_cons, List.map_cons]
    split <;> simp [ih]

theorem nodup_filter_le_one (l : List Nat) (h : l.Nodup) (x : Nat) : (l.filter fun c => decide (c = x)).length ≤ 1 := by
  induction l with
  | nil => simp
  | cons c t ih =>
    rw [List.nodup_cons] at h
    simp only [List.filter_cons]
    by_cases hc : c = x
    · subst hc
      simp only [decide_true, if_true, List.length_cons]
      have : (t.filter fun c' => decide (c' = c)) = [] := by
        rw [List.filter_eq_nil_iff]
        intro a ha; simp only [decide_eq_true_eq]; intro e; subst e; exact h.1 ha
      rw [this]; simp
    · simp only [hc, decide_false, Bool.false_eq_true, if_false]; exact ih h.2

/-- the hypotheses about the entries of a row, from facts about the stored matrix row and the flags of `connect` -/
theorem rowEntries_facts (norm : K → K) (epsStrong eps : K) (cf : Array CF) (i : Nat) (r : Row K)
    (hnd : (r.map (·.1)).Nodup) :
    let es := interpEntries cf r (connectRow norm epsStrong eps i r).2
    (es.filter fun e => decide (e.1.1 = i)).length ≤ 1 ∧
    (∀ e ∈ es, e.2 = true → e.1.1 ≠ i) ∧
    (es.map (·.1.2)).sum = (r.map (·.2)).sum := by
  intro es
  have hlen := connectRow_flags_length norm epsStrong eps i r
  have hfst : es.map (·.1) = r := interpEntries_map_fst cf r _ hlen
  refine ⟨?_, ?_, ?_⟩
  · have h1 := filter_fst_length (fun cv : Nat × K => decide (cv.1 = i)) es
    rw [hfst] at h1
    have h2 := filter_fst_length (fun c : Nat => decide (c = i)) r
    have h3 := nodup_filter_le_one (r.map (·.1)) hnd i
    omega
  · intro e he h2
    obtain ⟨k, hk, rfl⟩ := List.getElem_of_mem he
    simp only [es, interpEntries, List.getElem_zipWith] at h2 ⊢
    simp only [Bool.and_eq_true] at h2
    have hf := h2.1
    unfold connectRow at hf
    simp only at hf
    split at hf
    · simp at hf
    · simp only [List.getElem_map, Bool.and_eq_true, decide_eq_true_eq] at hf
      exact hf.1
  · have : es.map (·.1.2) = (es.map (·.1)).map (·.2) := by rw [List.map_map]; rfl
    rw [this, hfst]


/-- the accumulators `a_num, a_den, …` of row `i` in a run of `transfer_operators` -/
def rowAcc (R : Result K) (doTrunc : Bool) (epsTrunc : K) (A : CRS K) (i : Nat) : Acc K :=
  interpAcc doTrunc i
    (interpWidth doTrunc epsTrunc (interpEntries R.cf (A.row i) (R.S.val.getD i []))).1
    (interpWidth doTrunc epsTrunc (interpEntries R.cf (A.row i) (R.S.val.getD i []))).2.1
    (interpEntries R.cf (A.row i) (R.S.val.getD i []))

/-- **Ruge–Stuben interpolation rows sum to one**, with and without truncation: row `i` of the `P` returned by
`transfer_operators` for a valid matrix, `i` not a C point, zero row sum in `A`, under the hypotheses on the
accumulators that the code needs (see `interp_rowsum_one`; `eps < |a_den|` says that row `i` has strong negative C
neighbours beyond the absolute threshold `eps`) -/
theorem transfer_rowsum_one (g : Garbage K) (norm : K → K) (hnorm : ∀ x, norm x = |x|) (epsStrong : K) (doTrunc : Bool)
    (epsTrunc eps : K) (heps : 0 ≤ eps) (het : 0 ≤ epsTrunc) (A : CRS K) (hA : Input A) (P : CRS K)
    (hP : (transferFull g norm epsStrong doTrunc epsTrunc eps A).P = .ok P) (i : Nat) (hi : i < A.nrows)
    (hF : (transferFull g norm epsStrong doTrunc epsTrunc eps A).cf.getD i CF.U ≠ CF.C)
    (hzero : ((A.row i).map (·.2)).sum = 0)
    (ha : eps < |(rowAcc (transferFull g norm epsStrong doTrunc epsTrunc eps A) doTrunc epsTrunc A i).aDen|)
    (hat : doTrunc = true →
      eps < |(rowAcc (transferFull g norm epsStrong doTrunc epsTrunc eps A) doTrunc epsTrunc A i).aDen
        - (rowAcc (transferFull g norm epsStrong doTrunc epsTrunc eps A) doTrunc epsTrunc A i).dNeg|)
    (hb : let a := rowAcc (transferFull g norm epsStrong doTrunc epsTrunc eps A) doTrunc epsTrunc A i
          a.bNum = 0 ∨ |a.bDen| < eps ∨
          (eps < |a.bDen| ∧ (doTrunc = true → eps < |a.bDen - a.dPos|) ∧ 0 < a.dia)) :
    ((P.row i).map (·.2)).sum = 1 := by
  obtain ⟨_, _, _, _, _, hrow⟩ := interpolation_wf g norm doTrunc epsTrunc eps A _ _ P hP
  rw [hrow i hi hF]
  have hval : (transferFull g norm epsStrong doTrunc epsTrunc eps A).S.val.getD i []
      = (connectRow norm epsStrong eps i (A.row i)).2 := by
    show (connect g norm epsStrong eps A).1.val.getD i [] = _
    rw [connect_eq]
    simp only [flagsOf, Array.getD_eq_getD_getElem?, Array.getElem?_ofFn, hi, dif_pos, Option.getD_some]
  have hval' : (connect g norm epsStrong eps A).1.val.getD i [] = (connectRow norm epsStrong eps i (A.row i)).2 := hval
  unfold rowAcc at ha hat hb
  rw [hval] at ha hat hb
  obtain ⟨f1, f2, f3⟩ := rowEntries_facts norm epsStrong eps
    (transferFull g norm epsStrong doTrunc epsTrunc eps A).cf i (A.row i) (hA.nodup i)
  have := interp_rowsum_one norm hnorm doTrunc epsTrunc eps heps het
    (transferFull g norm epsStrong doTrunc epsTrunc eps A).cf
    (cidxOf (transferFull g norm epsStrong doTrunc epsTrunc eps A).cf).2 i (A.row i)
    (connectRow norm epsStrong eps i (A.row i)).2 f1 f2 (by rw [f3]; exact hzero) ha hat hb
  rw [← hval'] at this
  exact this

end RS
end Amgcl
