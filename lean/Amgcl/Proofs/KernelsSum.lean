import Amgcl.Proofs.KernelsTwoPass
import Amgcl.Proofs.KernelsMisc
/-!
`backend::sum(alpha, A, beta, B, sort)`: instance of the generic two-pass skeleton (`KernelsTwoPass.lean`) with the
terms `(c, α·a_ic)` for the stored entries of row `i` of `A` followed by `(c, β·b_ic)` for those of `B`.
-/
namespace Amgcl.K2
open Amgcl

section defs
set_option linter.unusedSectionVars false
variable {K : Type} [Add K] [Mul K] [Zero K]

/-- the terms row `i` of `α A + β B` accumulates, in loop order -/
def sumTerms (α : K) (A : CRS K) (β : K) (B : CRS K) (i : Nat) : Row K :=
  (A.row i).map (fun cv => (cv.1, α * cv.2)) ++ (B.row i).map (fun cv => (cv.1, β * cv.2))

theorem sumRow_eq (α : K) (A : CRS K) (β : K) (B : CRS K) (marker : Array Int) (i rowBeg : Nat) :
    sumRow α A β B marker i rowBeg = (sumTerms α A β B i).foldl (accStep rowBeg) (#[], marker) := by
  unfold sumRow sumTerms
  rw [List.foldl_append, List.foldl_map, List.foldl_map]
  rfl

theorem cols_sumTerms (α : K) (A : CRS K) (β : K) (B : CRS K) (i : Nat) :
    cols (sumTerms α A β B i) = (A.row i).map (·.1) ++ (B.row i).map (·.1) := by
  simp [cols, sumTerms, List.map_append, List.map_map, Function.comp_def]

theorem sumWidthRow_eq (α : K) (A : CRS K) (β : K) (B : CRS K) (marker : Array Int) (i : Nat) :
    sumWidthRow A B marker i = (cols (sumTerms α A β B i)).foldl (cntStep i) (0, marker) := by
  rw [cols_sumTerms]
  unfold sumWidthRow
  rw [List.foldl_append, List.foldl_map, List.foldl_map]
  rfl

end defs

section spec
variable {K : Type} [Semiring K]

theorem sumWidths_eq (α : K) (A : CRS K) (β : K) (B : CRS K) :
    sumWidths A B = (widthsG (sumTerms α A β B) A.ncols A.nrows).1 := by
  simp only [sumWidths, widthsG, sumWidthRow_eq α A β B]

theorem sum_eq (α : K) (A : CRS K) (β : K) (B : CRS K) (sort : Bool) :
    sum α A β B sort =
      { ncols := A.ncols,
        rows := (rowsG (sumTerms α A β B) A.ncols A.nrows (scanWidths (sumWidths A B)) sort).1 } := by
  simp only [sum, rowsG, sumRow_eq]

theorem sumTerms_lt (α : K) {A : CRS K} (β : K) {B : CRS K} (hA : A.WF) (hB : B.WF)
    (hc : B.ncols = A.ncols) : ∀ i, ∀ t ∈ sumTerms α A β B i, t.1 < A.ncols := by
  intro i t ht
  unfold sumTerms at ht
  rcases List.mem_append.1 ht with h | h
  · obtain ⟨cv, hcv, rfl⟩ := List.mem_map.1 h
    exact row_col_lt hA i (cv := cv) hcv
  · obtain ⟨cv, hcv, rfl⟩ := List.mem_map.1 h
    have := row_col_lt hB i (cv := cv) hcv
    rw [hc] at this; exact this

theorem rowGet_sumTerms (α : K) (A : CRS K) (β : K) (B : CRS K) (i j : Nat) :
    rowGet (sumTerms α A β B i) j = α * A.get i j + β * B.get i j := by
  unfold sumTerms CRS.get
  rw [rowGet_append, rowGet_map_mul_left, rowGet_map_mul_left]

/-- first-pass widths = number of distinct columns per row -/
theorem sumWidths_spec (α : K) {A : CRS K} (β : K) {B : CRS K} (hA : A.WF) (hB : B.WF)
    (hc : B.ncols = A.ncols) :
    sumWidths A B = (List.range A.nrows).map (fun i => ndistinct (sumTerms α A β B i)) := by
  rw [sumWidths_eq α A β B]
  exact (widthsG_spec _ _ (sumTerms_lt α β hA hB hc) _).1

theorem sum_nrows (α : K) (A : CRS K) (β : K) (B : CRS K) (sort : Bool) (hA : A.WF) (hB : B.WF)
    (hc : B.ncols = A.ncols) : (sum α A β B sort).nrows = A.nrows := by
  rw [sum_eq]
  have hw := sumWidths_spec α β hA hB hc
  refine (rowsG_spec _ _ (sumTerms_lt α β hA hB hc) _ sort A.nrows ?_).1
  intro i hi
  rw [scanWidths_succ _ i (by rw [hw]; simpa using hi), hw]
  simp [List.getD_eq_getElem?_getD, hi]

/-- every row of the result satisfies `RowOK` -/
theorem sum_rowOK (α : K) {A : CRS K} (β : K) {B : CRS K} (sort : Bool) (hA : A.WF) (hB : B.WF)
    (hc : B.ncols = A.ncols) (i : Nat) (hi : i < A.nrows) :
    RowOK (sumTerms α A β B) sort i ((sum α A β B sort).row i) := by
  have hw := sumWidths_spec α β hA hB hc
  have hptr : ∀ i, i < A.nrows → (scanWidths (sumWidths A B)).getD (i + 1) 0
      = (scanWidths (sumWidths A B)).getD i 0 + ndistinct (sumTerms α A β B i) := by
    intro i hi
    rw [scanWidths_succ _ i (by rw [hw]; simpa using hi), hw]
    simp [List.getD_eq_getElem?_getD, hi]
  obtain ⟨h1, _, _, h4⟩ := rowsG_spec _ _ (sumTerms_lt α β hA hB hc) (scanWidths (sumWidths A B)) sort A.nrows hptr
  have hi' : i < (sum α A β B sort).rows.size := by rw [sum_eq]; simpa [h1] using hi
  rw [row_eq_getElem _ hi']
  have := h4 i (by rw [h1]; exact hi)
  simpa only [sum_eq] using this


theorem sum_ncols (α : K) (A : CRS K) (β : K) (B : CRS K) (sort : Bool) : (sum α A β B sort).ncols = A.ncols := rfl

theorem sum_get' (α : K) {A : CRS K} (β : K) {B : CRS K} (sort : Bool) (hA : A.WF) (hB : B.WF)
    (hc : B.ncols = A.ncols) (hr : B.nrows = A.nrows) (i j : Nat) :
    (sum α A β B sort).get i j = α * A.get i j + β * B.get i j := by
  by_cases hi : i < A.nrows
  · rw [← rowGet_sumTerms]
    exact (sum_rowOK α β sort hA hB hc i hi).get j
  · have hi' : A.nrows ≤ i := Nat.le_of_not_lt hi
    unfold CRS.get
    rw [row_eq_nil_of_ge _ (by rw [sum_nrows α A β B sort hA hB hc]; exact hi'), row_eq_nil_of_ge A hi',
      row_eq_nil_of_ge B (by rw [hr]; exact hi')]
    simp

theorem sum_wf' (α : K) {A : CRS K} (β : K) {B : CRS K} (sort : Bool) (hA : A.WF) (hB : B.WF)
    (hc : B.ncols = A.ncols) : (sum α A β B sort).WF := by
  rw [wf_iff_row]
  intro i hi cv hcv
  rw [sum_nrows α A β B sort hA hB hc] at hi
  have hm := (sum_rowOK α β sort hA hB hc i hi).mem cv hcv
  obtain ⟨t, ht, he⟩ := List.mem_map.1 hm
  rw [← he]
  exact sumTerms_lt α β hA hB hc i t ht

theorem sum_nodup' (α : K) {A : CRS K} (β : K) {B : CRS K} (sort : Bool) (hA : A.WF) (hB : B.WF)
    (hc : B.ncols = A.ncols) : (sum α A β B sort).nodupb = true := by
  rw [nodupb_iff]
  intro i
  by_cases hi : i < A.nrows
  · exact (sum_rowOK α β sort hA hB hc i hi).nodup
  · rw [row_eq_nil_of_ge _ (by rw [sum_nrows α A β B sort hA hB hc]; exact Nat.le_of_not_lt hi)]
    exact List.nodup_nil

theorem sum_sorted' (α : K) {A : CRS K} (β : K) {B : CRS K} (hA : A.WF) (hB : B.WF)
    (hc : B.ncols = A.ncols) : (sum α A β B true).sortedb = true := by
  rw [sortedb_iff]
  intro i
  by_cases hi : i < A.nrows
  · exact (sum_rowOK α β true hA hB hc i hi).sorted rfl
  · rw [row_eq_nil_of_ge _ (by rw [sum_nrows α A β B true hA hB hc]; exact Nat.le_of_not_lt hi)]
    exact List.Pairwise.nil

/-- the `ptr` array allocated after the first pass fits the rows written by the second pass exactly -/
theorem sum_widths' (α : K) {A : CRS K} (β : K) {B : CRS K} (sort : Bool) (hA : A.WF) (hB : B.WF)
    (hc : B.ncols = A.ncols) :
    sumWidths A B = (sum α A β B sort).rows.toList.map List.length := by
  rw [sumWidths_spec α β hA hB hc]
  have hn := sum_nrows α A β B sort hA hB hc
  apply List.ext_getElem
  · simp only [List.length_map, List.length_range, Array.length_toList]; exact hn.symm
  · intro i h1 h2
    have hi : i < A.nrows := by simpa using h1
    have hi' : i < (sum α A β B sort).rows.size := by simpa using h2
    simp only [List.getElem_map, List.getElem_range, Array.getElem_toList]
    rw [← row_eq_getElem _ hi']
    exact ((sum_rowOK α β sort hA hB hc i hi).length).symm

/-- the number of distinct columns of row `i` of the sum, in terms of the operands -/
theorem ndistinct_sumTerms (α : K) (A : CRS K) (β : K) (B : CRS K) (i : Nat) :
    ndistinct (sumTerms α A β B i) = ((A.row i).map (·.1) ++ (B.row i).map (·.1)).toFinset.card := by
  unfold ndistinct; rw [cols_sumTerms]

end spec
end Amgcl.K2
