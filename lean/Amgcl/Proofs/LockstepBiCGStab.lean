import Amgcl.Model.LockstepBiCGStab
import Amgcl.Proofs.LockstepCommon
/-!
The serial semantics of the BiCGStab program of `Model/LockstepBiCGStab.lean` is the statement-by-statement model
`Solver.BiCGStab.run` (the one the C01/C05 theorems are about), exceptions included.
-/
namespace Amgcl.Lockstep.BiCGStab
open Amgcl Amgcl.Solver Amgcl.Lockstep

variable {K : Type} [Add K] [Mul K] [Sub K] [Neg K] [Zero K] [One K] [Div K] [DecidableEq K] [LT K] [DecidableLT K]

/-- the model state a machine state stands for -/
def dec (s : St K (S K)) : Solver.BiCGStab.St K :=
  ⟨s.scal.first, s.scal.iter, s.scal.rho1, s.scal.alpha, s.scal.omega, s.scal.res, s.vec vX, workOf s.vec⟩

/-- machine state `s` stands for the model outcome-so-far `es` (`none` = no exception yet) -/
structure Corr (f : Vec K) (nrhs epsT : K) (es : Option Err × Solver.BiCGStab.St K) (s : St K (S K)) : Prop where
  vf : s.vec vF = f
  err : s.scal.err = es.1
  st : dec s = es.2
  eps : s.scal.epsT = epsT
  nrhs : s.scal.nrhs = nrhs

theorem body_corr (side : Side) (ip : Vec K → Vec K → K) (sqrt : K → K) (A : CRS K) (P : Vec K → Vec K)
    (f : Vec K) (nrhs epsT : K) (st : Solver.BiCGStab.St K) (s : St K (S K)) (h : Corr f nrhs epsT (none, st) s) :
    Corr f nrhs epsT (passOf (Solver.BiCGStab.body side ip sqrt A P epsT st)) (run A P ip (bodyProg side sqrt) s) := by
  obtain ⟨vf, herr, hst, he, hn⟩ := h
  simp only at herr hst
  subst hst
  cases hf : s.scal.first <;> by_cases h2 : s.scal.rho1 = 0 <;> cases side <;> constructor <;>
    simp [hf, h2, bodyProg, halfProg, fullProg, pspmvProg, xUpdate, resNorm, seqs, run, step, R, upd_apply, dec, workOf, passOf,
      Solver.BiCGStab.body, Solver.BiCGStab.newP, Solver.BiCGStab.half, Solver.BiCGStab.full, pspmv, nrm, vF, vX, vR, vP, vV, vS, vT, vRh, vTT] <;>
    (try split_ifs) <;> simp_all [upd_apply, vF, vX, vR, vP, vV, vS, vT, vRh, vTT]

theorem pre_corr (prm : Solver.BiCGStab.Params K) (ip : Vec K → Vec K → K) (sqrt : K → K) (A : CRS K)
    (P : Vec K → Vec K) (ws : Solver.BiCGStab.Work K) (f x0 : Vec K) (s : St K (S K)) (nrhs : K)
    (hvec : s.vec = (initState ws f x0).vec) (hnr : s.scal.nrhs = nrhs) (herr : s.scal.err = none) :
    Corr f nrhs (Solver.maxK (nrhs * prm.tol) prm.abstol)
      (none, Solver.BiCGStab.init prm ip sqrt A P ws f x0 (Solver.maxK (nrhs * prm.tol) prm.abstol))
      (run A P ip (preProg prm sqrt) s) := by
  cases hs : prm.pside <;> cases hc : prm.checkAfter <;> constructor <;>
    simp [hs, hc, preProg, resNorm, seqs, run, step, R, upd_apply, dec, workOf, Solver.BiCGStab.init, nrm, initState,
      hvec, hnr, herr, vF, vX, vR, vP, vV, vS, vT, vRh, vTT]

/-- the value `operator()` reports after the loop ended in `st` without an exception -/
def repOf (prm : Solver.BiCGStab.Params K) (ip : Vec K → Vec K → K) (sqrt : K → K) (st : Solver.BiCGStab.St K) : K :=
  if prm.checkAfter && st.iter == 0 then nrm ip sqrt st.w.r else st.res

theorem post_corr (prm : Solver.BiCGStab.Params K) (ip : Vec K → Vec K → K) (sqrt : K → K) (A : CRS K)
    (P : Vec K → Vec K) (f : Vec K) (nrhs epsT : K) (es : Option Err × Solver.BiCGStab.St K) (m : St K (S K))
    (h : Corr f nrhs epsT es m) :
    (run A P ip (postProg prm sqrt) m).vec = m.vec ∧
    outOf (run A P ip (postProg prm sqrt) m).scal
      = (match es.1 with
         | none => .ok (es.2.iter, repOf prm ip sqrt es.2 / nrhs)
         | some e => .error e) := by
  obtain ⟨_, herr, hst, _, hn⟩ := h
  obtain ⟨e, st⟩ := es
  simp only at herr hst
  subst hst
  cases e with
  | some e => simp [postProg, run, herr, outOf]
  | none =>
    cases hc : prm.checkAfter
    · simp [postProg, seqs, run, step, herr, outOf, hc, repOf, dec, hn]
    · by_cases hi : m.scal.iter = 0 <;>
        simp [postProg, resNorm, seqs, run, step, R, herr, outOf, hc, repOf, dec, workOf, nrm, hn, hi]

theorem main_corr (prm : Solver.BiCGStab.Params K) (ip : Vec K → Vec K → K) (sqrt : K → K) (A : CRS K)
    (P : Vec K → Vec K) (ws : Solver.BiCGStab.Work K) (f x0 : Vec K) (s : St K (S K)) (nrhs : K)
    (hvec : s.vec = (initState ws f x0).vec) (hnr : s.scal.nrhs = nrhs) (herr : s.scal.err = none)
    (L : Option Err × Solver.BiCGStab.St K)
    (hL : L = Solver.BiCGStab.loop prm.pside ip sqrt A P (Solver.maxK (nrhs * prm.tol) prm.abstol) prm.maxiter
      (Solver.BiCGStab.init prm ip sqrt A P ws f x0 (Solver.maxK (nrhs * prm.tol) prm.abstol))) :
    (run A P ip (mainProg prm sqrt) s).vec vX = L.2.x ∧
    workOf (run A P ip (mainProg prm sqrt) s).vec = L.2.w ∧
    outOf (run A P ip (mainProg prm sqrt) s).scal
      = (match L.1 with
         | none => .ok (L.2.iter, repOf prm ip sqrt L.2 / nrhs)
         | some e => .error e) := by
  have h0 := pre_corr prm ip sqrt A P ws f x0 s nrhs hvec hnr herr
  have hl := iterE_rel (Corr f nrhs (Solver.maxK (nrhs * prm.tol) prm.abstol))
    (Solver.BiCGStab.cond (Solver.maxK (nrhs * prm.tol) prm.abstol))
    (fun m : St K (S K) => m.scal.err.isNone && decide (m.scal.epsT < m.scal.res))
    (Solver.BiCGStab.body prm.pside ip sqrt A P (Solver.maxK (nrhs * prm.tol) prm.abstol))
    (run A P ip (bodyProg prm.pside sqrt))
    (fun a b hr => by
      unfold Solver.BiCGStab.cond
      have h1 : b.scal.err = none := hr.err
      have h2 : b.scal.res = a.res := congrArg Solver.BiCGStab.St.res hr.st
      rw [hr.eps, h1, h2]; rfl)
    (fun e a b hr => by
      have h1 : b.scal.err = some e := hr.err
      rw [h1]; rfl)
    (fun a b hr _ => body_corr prm.pside ip sqrt A P f _ _ a b hr) prm.maxiter _ _ h0
  have hrun : run A P ip (mainProg prm sqrt) s = run A P ip (postProg prm sqrt)
      (iter (fun m : St K (S K) => m.scal.err.isNone && decide (m.scal.epsT < m.scal.res))
        (run A P ip (bodyProg prm.pside sqrt)) prm.maxiter (run A P ip (preProg prm sqrt) s)) := by
    simp [mainProg, seqs, run]
  unfold Solver.BiCGStab.loop at hL
  rw [← hL] at hl
  obtain ⟨p1, p2⟩ := post_corr prm ip sqrt A P f nrhs _ L _ hl
  rw [hrun, p1, p2]
  have hw : workOf _ = L.2.w := congrArg Solver.BiCGStab.St.w hl.st
  have hx : _ = L.2.x := congrArg Solver.BiCGStab.St.x hl.st
  exact ⟨hx, hw, rfl⟩

/-- **the serial semantics of the BiCGStab program is `Solver.BiCGStab.run`**: the same outcome (`(iters, residual)`
or the exception), the same `x`, the same work vectors — also when a `precondition` throws in mid-pass -/
theorem prog_eq_run (prm : Solver.BiCGStab.Params K) (ip : Vec K → Vec K → K) (sqrt : K → K) (eps : K) (A : CRS K)
    (P : Vec K → Vec K) (ws : Solver.BiCGStab.Work K) (f x0 : Vec K) :
    Solver.BiCGStab.run prm ip sqrt eps A P ws f x0
      = (outOf (run A P ip (prog prm sqrt eps) (initState ws f x0)).scal,
         (run A P ip (prog prm sqrt eps) (initState ws f x0)).vec vX,
         workOf (run A P ip (prog prm sqrt eps) (initState ws f x0)).vec) := by
  have hs1 : step A P ip (.ip (fun e w => { e with nrhs := sqrt (Solver.absK w) }) (R vF) (R vF)) (initState ws f x0)
      = { vec := (initState ws f x0).vec, scal := { (initState ws f x0).scal with nrhs := nrm ip sqrt f } } := by
    simp [step, R, nrm, initState, vF]
  unfold Solver.BiCGStab.run prologue
  simp only [prog, run, hs1]
  by_cases hlt : nrm ip sqrt f < eps
  · simp only [hlt, decide_true, if_true]
    cases hns : prm.nsSearch
    · simp [seqs, run, step, R, upd_apply, outOf, workOf, initState, vF, vX, vR, vP, vV, vS, vT, vRh, vTT]
    · simp only [if_true, run]
      obtain ⟨h1, h2, h3⟩ := main_corr prm ip sqrt A P ws f x0
        (step A P ip (.sset (fun e => { e with nrhs := 1 }))
          { vec := (initState ws f x0).vec, scal := { (initState ws f x0).scal with nrhs := nrm ip sqrt f } }) 1
        rfl rfl rfl _ rfl
      rw [h1, h2, h3]
      cases Solver.BiCGStab.loop prm.pside ip sqrt A P (Solver.maxK (1 * prm.tol) prm.abstol) prm.maxiter
        (Solver.BiCGStab.init prm ip sqrt A P ws f x0 (Solver.maxK (1 * prm.tol) prm.abstol)) with
      | mk e st => cases e <;> rfl
  · simp only [hlt, decide_false, Bool.false_eq_true, if_false]
    obtain ⟨h1, h2, h3⟩ := main_corr prm ip sqrt A P ws f x0
        { vec := (initState ws f x0).vec, scal := { (initState ws f x0).scal with nrhs := nrm ip sqrt f } }
        (nrm ip sqrt f) rfl rfl rfl _ rfl
    rw [h1, h2, h3]
    cases Solver.BiCGStab.loop prm.pside ip sqrt A P (Solver.maxK (nrm ip sqrt f * prm.tol) prm.abstol) prm.maxiter
        (Solver.BiCGStab.init prm ip sqrt A P ws f x0 (Solver.maxK (nrm ip sqrt f * prm.tol) prm.abstol)) with
    | mk e st => cases e <;> rfl

end Amgcl.Lockstep.BiCGStab
