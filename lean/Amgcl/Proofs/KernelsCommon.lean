import Amgcl.Model.Kernels
import Amgcl.Proofs.RowGet
import Mathlib.Algebra.BigOperators.Group.Finset.Basic
import Mathlib.Algebra.BigOperators.Ring.Finset
import Mathlib.Tactic.Ring
import Mathlib.Tactic.Linarith
/-!
Shared helper lemmas of the C08b work package (sort / sum / row-merge / diagonal / Gershgorin):
the row denotation `rowGet` over an additive commutative monoid, `rowSorted` as `List.Pairwise`,
access to the rows of a well-formed matrix.  Everything lives in `Amgcl.K2` so that the names
cannot clash with the helper lemmas of the other C08 proof files; `rowGet_cons'`, `rowGet_append`,
`rowGet_perm`, … come from `Amgcl/Proofs/RowGet.lean`.
-/
namespace Amgcl.K2
open Amgcl

section rowGet
variable {K : Type} [AddCommMonoid K]

@[simp] theorem rowGet_nil (j : Nat) : rowGet ([] : Row K) j = 0 := rfl

theorem rowGet_cons (cv : Nat × K) (t : Row K) (j : Nat) :
    rowGet (cv :: t) j = if cv.1 = j then cv.2 + rowGet t j else rowGet t j := rfl

theorem rowGet_singleton (cv : Nat × K) (j : Nat) :
    rowGet [cv] j = if cv.1 = j then cv.2 else 0 := by
  rw [rowGet_cons']; simp

theorem rowGet_eq_zero {r : Row K} {j : Nat} (h : j ∉ r.map (·.1)) : rowGet r j = 0 := by
  induction r with
  | nil => rfl
  | cons cv t ih =>
    simp only [List.map_cons, List.mem_cons, not_or] at h
    rw [rowGet_cons, if_neg (fun e => h.1 e.symm), ih h.2]

end rowGet

section sorted
variable {K : Type}

/-- strictly increasing columns -/
def StrictCols (r : Row K) : Prop := r.Pairwise (fun a b => a.1 < b.1)

theorem rowSorted_iff (r : Row K) : CRS.rowSorted r = true ↔ StrictCols r := by
  unfold StrictCols
  induction r with
  | nil => simp [CRS.rowSorted]
  | cons a t ih =>
    cases t with
    | nil => simp [CRS.rowSorted]
    | cons b t' =>
      simp only [CRS.rowSorted, Bool.and_eq_true, decide_eq_true_eq, ih]
      constructor
      · rintro ⟨hab, hp⟩
        refine List.pairwise_cons.2 ⟨?_, hp⟩
        intro c hc
        rcases List.mem_cons.1 hc with rfl | hc
        · exact hab
        · exact Nat.lt_trans hab ((List.pairwise_cons.1 hp).1 c hc)
      · intro hp
        have := List.pairwise_cons.1 hp
        exact ⟨this.1 b List.mem_cons_self, this.2⟩

theorem StrictCols.nodup {r : Row K} (h : StrictCols r) : (r.map (·.1)).Nodup := by
  unfold StrictCols at h
  rw [List.Nodup, List.pairwise_map]
  exact h.imp (fun hab => Nat.ne_of_lt hab)

theorem rowNodup_iff (r : Row K) : CRS.rowNodup r = true ↔ (r.map (·.1)).Nodup := by
  unfold CRS.rowNodup; simp

/-- non-decreasing columns + no duplicate column = strictly increasing -/
theorem strictCols_of_le_of_nodup {r : Row K} (h : r.Pairwise (fun a b => a.1 ≤ b.1))
    (hn : (r.map (·.1)).Nodup) : StrictCols r := by
  unfold StrictCols
  rw [List.Nodup, List.pairwise_map] at hn
  exact (h.and hn).imp (fun ⟨h1, h2⟩ => Nat.lt_of_le_of_ne h1 h2)

end sorted

section crs
variable {K : Type}

theorem row_eq_getElem (A : CRS K) {i : Nat} (hi : i < A.rows.size) : A.row i = A.rows[i] := by
  unfold CRS.row
  simp [Array.getD, hi]

theorem row_mem_of_lt (A : CRS K) {i : Nat} (hi : i < A.nrows) : A.row i ∈ A.rows.toList := by
  unfold CRS.row CRS.nrows at *
  simp [Array.getD, hi]

theorem row_eq_nil_of_ge (A : CRS K) {i : Nat} (hi : A.nrows ≤ i) : A.row i = [] := by
  unfold CRS.row CRS.nrows at *
  simp [Array.getD, Nat.not_lt.2 hi]

theorem row_col_lt {A : CRS K} (hA : A.WF) (i : Nat) {cv : Nat × K} (h : cv ∈ A.row i) :
    cv.1 < A.ncols := by
  by_cases hi : i < A.nrows
  · exact hA _ (row_mem_of_lt A hi) cv h
  · rw [row_eq_nil_of_ge A (Nat.le_of_not_lt hi)] at h; cases h

theorem wf_iff_row {A : CRS K} : A.WF ↔ ∀ i, i < A.nrows → ∀ cv ∈ A.row i, cv.1 < A.ncols := by
  constructor
  · intro h i _ cv hcv; exact row_col_lt h i hcv
  · intro h r hr cv hcv
    obtain ⟨i, hi, rfl⟩ := List.getElem_of_mem hr
    have hi' : i < A.rows.size := by simpa using hi
    apply h i hi' cv
    rw [row_eq_getElem A hi']
    simpa using hcv

theorem sortedb_iff {A : CRS K} : A.sortedb = true ↔ ∀ i, StrictCols (A.row i) := by
  unfold CRS.sortedb
  rw [List.all_eq_true]
  constructor
  · intro h i
    by_cases hi : i < A.nrows
    · exact (rowSorted_iff _).1 (h _ (row_mem_of_lt A hi))
    · rw [row_eq_nil_of_ge A (Nat.le_of_not_lt hi)]; exact List.Pairwise.nil
  · intro h r hr
    obtain ⟨i, hi, rfl⟩ := List.getElem_of_mem hr
    have hi' : i < A.rows.size := by simpa using hi
    have := (rowSorted_iff _).2 (h i)
    rw [row_eq_getElem A hi'] at this
    simpa using this

theorem nodupb_iff {A : CRS K} : A.nodupb = true ↔ ∀ i, ((A.row i).map (·.1)).Nodup := by
  unfold CRS.nodupb
  rw [List.all_eq_true]
  constructor
  · intro h i
    by_cases hi : i < A.nrows
    · exact (rowNodup_iff _).1 (h _ (row_mem_of_lt A hi))
    · rw [row_eq_nil_of_ge A (Nat.le_of_not_lt hi)]; exact List.nodup_nil
  · intro h r hr
    obtain ⟨i, hi, rfl⟩ := List.getElem_of_mem hr
    have hi' : i < A.rows.size := by simpa using hi
    have := (rowNodup_iff _).2 (h i)
    rw [row_eq_getElem A hi'] at this
    simpa using this

end crs

section sums
variable {K : Type} [Semiring K]
open Finset

/-- a list sum over the stored entries of a row is the dense sum over the denoted row -/
theorem listSum_eq_sum (r : Row K) (f : Nat → K) (m : Nat) (h : ∀ cv ∈ r, cv.1 < m) :
    (r.map (fun cv => cv.2 * f cv.1)).sum = ∑ k ∈ range m, rowGet r k * f k :=
  sum_map_mul_eq_sum_rowGet r f m h

end sums

end Amgcl.K2
