import Amgcl.Model.RelaxSpai1
import Amgcl.Proofs.RelaxBasic
import Amgcl.Proofs.RowGet
/-!
SPAI-1 sweeps (`spai1Sweep`, `spai1Apply`): `x ← x + M (f − A x)` for an arbitrary stored matrix `M` with as many rows as `A`:
entries, scratch independence, joint linearity, size, fixed point.
-/
set_option linter.unusedSectionVars false
namespace Amgcl
namespace Relax
open Finset

variable {K : Type} [Field K] [DecidableEq K]

theorem getD_spmv_one_one (M : CRS K) (t x : Vec K) (i : Nat) (hi : i < M.nrows) :
    (spmv 1 M t 1 x).getD i 0 = x.getD i 0 + rowDot (M.row i) t := by
  unfold spmv
  rw [if_neg one_ne_zero, getD_ofFn_lt _ _ _ hi]
  ring

theorem getD_spmv_one_zero (M : CRS K) (t x : Vec K) (i : Nat) (hi : i < M.nrows) :
    (spmv 1 M t 0 x).getD i 0 = rowDot (M.row i) t := by
  unfold spmv
  rw [if_pos rfl, getD_ofFn_lt _ _ _ hi]
  ring

@[simp] theorem spmv_size (α β : K) (M : CRS K) (t x : Vec K) : (spmv α M t β x).size = M.nrows := by
  unfold spmv; split <;> simp

theorem rowDot_vclear (r : Row K) (n : Nat) : rowDot r (vclear n) = 0 := by
  rw [rowDot_eq_listSum]
  apply List.sum_eq_zero
  intro v hv
  obtain ⟨cv, _, rfl⟩ := List.mem_map.mp hv
  rw [getD_vclear, mul_zero]

theorem spai1Sweep_facts (M A : CRS K) (hM : M.nrows = A.nrows) :
    Sweep.ScratchIndep (spai1Sweep M A) ∧ Sweep.JointlyLinear (spai1Sweep M A) A.nrows
    ∧ Sweep.SizeOk (spai1Sweep M A) A.nrows ∧ Sweep.FixedPoint (spai1Sweep M A) A := by
  refine ⟨fun _ _ _ _ => rfl, ?_, ?_, ?_⟩
  · intro a b f g x y t t₁ t₂ hf hg hx hy
    show spmv 1 M (residual (vlin a f b g) A (vlin a x b y)) 1 (vlin a x b y)
      = vlin a (spmv 1 M (residual f A x) 1 x) b (spmv 1 M (residual g A y) 1 y)
    rw [residual_vlin A a b f g x y hf hg (by omega)]
    apply Vec.ext_getD (0 : K) (by simp)
    intro i hi
    have hi' : i < M.nrows := by simpa using hi
    have hR := getD_vlin a b (spmv 1 M (residual f A x) 1 x) (spmv 1 M (residual g A y) 1 y) (by simp) i
    have hX := getD_vlin a b x y (by omega) i
    rw [getD_spmv_one_one _ _ _ _ hi', hR, getD_spmv_one_one _ _ _ _ hi',
      getD_spmv_one_one _ _ _ _ hi', rowDot_vlin _ _ _ _ _ (by simp), hX]
    ring
  · intro f x t _ _
    show (spmv 1 M (residual f A x) 1 x).size = A.nrows
    rw [spmv_size, hM]
  · intro f x t hx _ h
    show spmv 1 M (residual f A x) 1 x = x
    rw [residual_eq_zero A f x h]
    apply Vec.ext_getD (0 : K) (by rw [spmv_size, hM, hx])
    intro i hi
    have hi' : i < M.nrows := by simpa using hi
    rw [getD_spmv_one_one _ _ _ _ hi', rowDot_vclear, add_zero]

/-- entrywise: `x'_i = x_i + Σ_j M(i,j)·(f_j − Σ_k a(j,k)·x_k)`, and `tmp' = f − A x` -/
theorem spai1Sweep_entry (M A : CRS K) (hMwf : M.WF) (hA : A.WF) (hM : M.nrows = A.nrows) (hMc : M.ncols = A.nrows)
    (f x t : Vec K) (i : Nat) (hi : i < A.nrows) :
    (spai1Sweep M A f x t).1.getD i 0
      = x.getD i 0 + ∑ j ∈ range A.nrows, M.get i j * (f.getD j 0 - ∑ k ∈ range A.ncols, A.get j k * x.getD k 0) := by
  show (spmv 1 M (residual f A x) 1 x).getD i 0 = _
  rw [getD_spmv_one_one _ _ _ _ (by omega), rowDot_eq_sum _ _ A.nrows (fun cv hcv => by rw [← hMc]; exact hMwf.row_lt i cv hcv)]
  congr 1
  apply sum_congr rfl
  intro j hj
  rw [getD_residual _ _ _ _ (mem_range.mp hj), rowDot_eq_sum _ _ A.ncols (hA.row_lt j)]
  rfl

/-- `apply`: `x'_i = Σ_j M(i,j)·f_j` -/
theorem spai1Apply_entry (M : CRS K) (hMwf : M.WF) (f : Vec K) (i : Nat) (hi : i < M.nrows) :
    (spai1Apply M f).getD i 0 = ∑ j ∈ range M.ncols, M.get i j * f.getD j 0 := by
  show (spmv 1 M f 0 #[]).getD i 0 = _
  rw [getD_spmv_one_zero _ _ _ _ hi, rowDot_eq_sum _ _ M.ncols (hMwf.row_lt i)]
  rfl

end Relax
end Amgcl
