import Amgcl.Proofs.AggrCount
/-!
The strength graph `zipGraph A (strongConnections epsSq A)` of a square well-formed matrix is well formed, has no
strong diagonal entry, and its rows carry exactly the flags of `strongConnections`.
-/
namespace Amgcl
namespace Coarsening

theorem zipWith_map_self {α β γ : Type} (f : α → β → γ) (g : α → β) (l : List α) :
    List.zipWith f l (l.map g) = l.map (fun a => f a (g a)) := by
  induction l with
  | nil => rfl
  | cons a t ih => simp [ih]

theorem mem_zipWith_fst {K : Type} (l1 : Row K) (l2 : List Bool) (cs : Nat × Bool)
    (h : cs ∈ List.zipWith (fun (cv : Nat × K) s => (cv.1, s)) l1 l2) : ∃ cv ∈ l1, cs.1 = cv.1 := by
  induction l1 generalizing l2 with
  | nil => simp at h
  | cons a t ih =>
    cases l2 with
    | nil => simp at h
    | cons b t2 =>
      rw [List.zipWith_cons_cons] at h
      rcases List.mem_cons.1 h with rfl | h
      · exact ⟨a, List.mem_cons_self, rfl⟩
      · obtain ⟨cv, hcv, he⟩ := ih t2 h
        exact ⟨cv, List.mem_cons_of_mem _ hcv, he⟩

theorem zipGraph_size {K : Type} (A : CRS K) (S : Array (List Bool)) : (zipGraph A S).size = A.nrows := by
  simp [zipGraph]

theorem zipGraph_row {K : Type} (A : CRS K) (S : Array (List Bool)) (i : Nat) (hi : i < A.nrows) :
    (zipGraph A S).row i = (A.row i).zipWith (fun cv s => (cv.1, s)) (S.getD i []) := by
  unfold SGraph.row zipGraph
  simp [Array.getD_eq_getD_getElem?, hi]

theorem row_mem_rows {K : Type} (A : CRS K) (i : Nat) (hi : i < A.nrows) : A.row i ∈ A.rows.toList := by
  unfold CRS.row
  unfold CRS.nrows at hi
  have : A.rows.getD i [] = A.rows[i] := by simp [Array.getD_eq_getD_getElem?, hi]
  rw [this]
  exact Array.mem_toList_iff.2 (Array.getElem_mem hi)

theorem zipGraph_wf {K : Type} (A : CRS K) (hA : A.WF) (hsq : A.ncols = A.nrows) (S : Array (List Bool)) :
    (zipGraph A S).WF := by
  intro r hr cs hcs
  obtain ⟨i, hi, rfl⟩ := List.mem_iff_getElem.1 hr
  simp only [Array.length_toList] at hi
  have hi' : i < A.nrows := by rw [← zipGraph_size A S]; exact hi
  have hrow : (zipGraph A S).toList[i] = (zipGraph A S).row i := by
    unfold SGraph.row; simp [Array.getD_eq_getD_getElem?, hi]
  rw [hrow, zipGraph_row A S i hi'] at hcs
  obtain ⟨cv, hcv, he⟩ := mem_zipWith_fst _ _ cs hcs
  rw [zipGraph_size, he, ← hsq]
  exact hA _ (row_mem_rows A i hi') cv hcv

section strength
variable {K : Type} [Mul K] [Zero K] [LT K] [DecidableLT K]

theorem strongConnections_getD (epsSq : K) (A : CRS K) (i : Nat) (hi : i < A.nrows) :
    (strongConnections epsSq A).getD i [] = strongRow epsSq (diagonal A) i (A.row i) := by
  unfold strongConnections
  simp [Array.getD_eq_getD_getElem?, hi]

theorem strongGraph_row (epsSq : K) (A : CRS K) (i : Nat) (hi : i < A.nrows) :
    (zipGraph A (strongConnections epsSq A)).row i =
      (A.row i).map (fun cv => (cv.1, decide (cv.1 ≠ i) &&
        decide (epsSq * (diagonal A).getD i 0 * (diagonal A).getD cv.1 0 < cv.2 * cv.2))) := by
  rw [zipGraph_row A _ i hi, strongConnections_getD epsSq A i hi]
  unfold strongRow
  exact zipWith_map_self _ _ _

theorem strongGraph_offDiag (epsSq : K) (A : CRS K) : (zipGraph A (strongConnections epsSq A)).OffDiag := by
  intro i cs hcs hs
  by_cases hi : i < A.nrows
  · rw [strongGraph_row epsSq A i hi] at hcs
    obtain ⟨cv, _, rfl⟩ := List.mem_map.1 hcs
    simp only [Bool.and_eq_true, decide_eq_true_eq] at hs
    exact hs.1
  · unfold SGraph.row at hcs
    have : (zipGraph A (strongConnections epsSq A)).getD i [] = [] := by
      have hsz := zipGraph_size A (strongConnections epsSq A)
      rw [Array.getD_eq_getD_getElem?, Array.getElem?_eq_none (by omega)]; rfl
    rw [this] at hcs; simp at hcs

/-- the graph-level "row `i` has a strong entry" is the matrix-level one -/
theorem strongGraph_hasStrong (epsSq : K) (A : CRS K) (i : Nat) (hi : i < A.nrows) :
    (zipGraph A (strongConnections epsSq A)).hasStrong i = ((strongConnections epsSq A).getD i []).any id := by
  unfold SGraph.hasStrong
  rw [strongGraph_row epsSq A i hi, strongConnections_getD epsSq A i hi]
  unfold strongRow
  simp [List.any_map, Function.comp_def]

/-- the strength test of plain_aggregates.hpp:136 for the stored entry `cv` of row `i` -/
def strongFlag (epsSq : K) (A : CRS K) (i : Nat) (cv : Nat × K) : Bool :=
  decide (cv.1 ≠ i) && decide (epsSq * (diagonal A).getD i 0 * (diagonal A).getD cv.1 0 < cv.2 * cv.2)

theorem aggregates_partition_graph (G : SGraph) (count : Nat) (id : Array Int)
    (h : aggregatesOfGraph G = .ok (count, id)) :
    id.size = G.size ∧
    (∀ i, i < G.size →
      (G.hasStrong i = false → id.getD i 0 = -2) ∧
      (G.hasStrong i = true → 0 ≤ id.getD i 0 ∧ id.getD i 0 < (count : Int))) ∧
    (∀ a, a < count → ∃ i, i < G.size ∧ id.getD i 0 = (a : Int)) := by
  obtain ⟨hpos, heq⟩ := aggregatesOfGraph_ok G count id h
  obtain ⟨hsz, hsp⟩ := aggregateIds_spec G
  obtain ⟨h1, h2, h3, h4, _⟩ := renumber_partition _ hpos _ (idsOK_aggregateIds G)
  have hc : count = (renumber (aggregateIds G).1 (aggregateIds G).2).1 := congrArg Prod.fst heq
  have hi : id = (renumber (aggregateIds G).1 (aggregateIds G).2).2 := congrArg Prod.snd heq
  subst hc hi
  rw [hsz] at h1 h2 h3 h4
  refine ⟨h1, fun i hi => ⟨fun hs => h2 i hi ((hsp i hi).1 hs), fun hs => h3 i hi ((hsp i hi).2 hs).1⟩, h4⟩

theorem plainAggregates_spec (epsSq : K) (A : CRS K) (agg : Aggregates)
    (h : plainAggregates epsSq A = .ok agg) :
    agg.strong = strongConnections epsSq A ∧
    (∀ i, i < A.nrows → agg.strong.getD i [] = (A.row i).map (strongFlag epsSq A i)) ∧
    agg.id.size = A.nrows ∧
    (∀ i, i < A.nrows →
      ((agg.strong.getD i []).any id = false → agg.id.getD i 0 = -2) ∧
      ((agg.strong.getD i []).any id = true → 0 ≤ agg.id.getD i 0 ∧ agg.id.getD i 0 < (agg.count : Int))) ∧
    (∀ a, a < agg.count → ∃ i, i < A.nrows ∧ agg.id.getD i 0 = (a : Int)) := by
  unfold plainAggregates at h
  simp only at h
  split at h
  · rename_i ci hci
    injection h with h
    subst h
    simp only
    obtain ⟨h1, h2, h3⟩ := aggregates_partition_graph _ ci.1 ci.2 hci
    rw [zipGraph_size] at h1 h2 h3
    refine ⟨trivial, fun i hi => ?_, h1, fun i hi => ?_, h3⟩
    · rw [strongConnections_getD epsSq A i hi]; rfl
    · rw [← strongGraph_hasStrong epsSq A i hi]; exact h2 i hi
  · exact absurd h (by simp)
  · exact absurd h (by simp)

theorem plainAggregates_count_lt (epsSq : K) (A : CRS K) (hA : A.WF) (hsq : A.ncols = A.nrows) (agg : Aggregates)
    (h : plainAggregates epsSq A = .ok agg) : agg.count < A.nrows := by
  unfold plainAggregates at h
  simp only at h
  split at h
  · rename_i ci hci
    injection h with h
    subst h
    simp only
    have := count_lt_size _ (zipGraph_wf A hA hsq _) (strongGraph_offDiag epsSq A) ci.1 ci.2 hci
    rwa [zipGraph_size] at this
  · exact absurd h (by simp)
  · exact absurd h (by simp)

end strength
end Coarsening
end Amgcl
