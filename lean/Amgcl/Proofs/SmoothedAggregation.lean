import Amgcl.Model.SmoothedAggregation
import Amgcl.Proofs.PlainAggregates
import Amgcl.Proofs.Primitives
/-!
Helper lemmas for `smoothed_aggregation`: the position-marker accumulation of one row of `P` denotes the sum of
the scaled rows of `P_tent`, whatever the marker array contains from earlier rows (as long as all of it points
below `row_beg`, which the loop maintains).
-/
namespace Amgcl
namespace Coarsening
open Finset

section
variable {K : Type} [CommRing K]

theorem rowGet_append_single (l : Row K) (cp : Nat) (x : K) (c : Nat) :
    rowGet (l ++ [(cp, x)]) c = rowGet l c + if cp = c then x else 0 := by
  induction l with
  | nil => simp [rowGet]
  | cons hd t ih =>
    rw [List.cons_append, rowGet_cons, rowGet_cons, ih]
    by_cases h : hd.1 = c
    · rw [if_pos h, if_pos h]; ring
    · rw [if_neg h, if_neg h]

theorem rowGet_modify (l : Row K) (p : Nat) (hp : p < l.length) (cp : Nat) (hcol : l[p].1 = cp) (x : K) (c : Nat) :
    rowGet (l.modify p (fun e => (e.1, e.2 + x))) c = rowGet l c + if cp = c then x else 0 := by
  induction l generalizing p with
  | nil => simp at hp
  | cons hd t ih =>
    cases p with
    | zero =>
      rw [List.modify_zero_cons, rowGet_cons, rowGet_cons]
      simp only [List.getElem_cons_zero] at hcol
      simp only [hcol]
      by_cases h : cp = c
      · rw [if_pos h, if_pos h, if_pos h]; ring
      · rw [if_neg h, if_neg h, if_neg h]; ring
    | succ p =>
      rw [List.modify_succ_cons, rowGet_cons, rowGet_cons]
      simp only [List.getElem_cons_succ] at hcol
      rw [ih p (by simpa using hp) hcol]
      by_cases h : hd.1 = c
      · rw [if_pos h, if_pos h]; ring
      · rw [if_neg h, if_neg h]

/-- invariant of the pair `(marker, row under construction)` -/
def RowInv (rowBeg : Nat) (st : Array Int × Array (Nat × K)) : Prop :=
  ∀ cp, cp < st.1.size → st.1.getD cp 0 < (rowBeg : Int) ∨
    ∃ p, ∃ h : p < st.2.size, st.1.getD cp 0 = ((rowBeg + p : Nat) : Int) ∧ (st.2[p]'h).1 = cp

theorem saAccum_step (rowBeg : Nat) (va : K) (st : Array Int × Array (Nat × K)) (cpvp : Nat × K)
    (hinv : RowInv rowBeg st) (hwf : cpvp.1 < st.1.size) :
    let st' := (if st.1.getD cpvp.1 0 < (rowBeg : Int) then
        (st.1.setIfInBounds cpvp.1 ((rowBeg + st.2.size : Nat) : Int), st.2.push (cpvp.1, va * cpvp.2))
      else (st.1, st.2.modify ((st.1.getD cpvp.1 0).toNat - rowBeg) (fun e => (e.1, e.2 + va * cpvp.2))))
    RowInv rowBeg st' ∧ st'.1.size = st.1.size ∧
    ∀ c, rowGet st'.2.toList c = rowGet st.2.toList c + if cpvp.1 = c then va * cpvp.2 else 0 := by
  intro st'
  by_cases hm : st.1.getD cpvp.1 0 < (rowBeg : Int)
  · have hst' : st' = (st.1.setIfInBounds cpvp.1 ((rowBeg + st.2.size : Nat) : Int), st.2.push (cpvp.1, va * cpvp.2)) :=
      if_pos hm
    rw [hst']
    refine ⟨fun cp hcp => ?_, by simp, fun c => ?_⟩
    · simp only [Array.size_setIfInBounds] at hcp
      simp only
      rw [getD_set]
      by_cases he : cpvp.1 = cp ∧ cpvp.1 < st.1.size
      · rw [if_pos he]
        right
        refine ⟨st.2.size, by simp, rfl, ?_⟩
        simp [he.1]
      · rw [if_neg he]
        rcases hinv cp hcp with h | ⟨p, hp, h1, h2⟩
        · exact Or.inl h
        · right
          refine ⟨p, by simp; omega, h1, ?_⟩
          rw [Array.getElem_push, dif_pos hp]; exact h2
    · simp only [Array.toList_push]
      exact rowGet_append_single _ _ _ _
  · have hst' : st' = (st.1, st.2.modify ((st.1.getD cpvp.1 0).toNat - rowBeg) (fun e => (e.1, e.2 + va * cpvp.2))) :=
      if_neg hm
    rw [hst']
    rcases hinv cpvp.1 hwf with h | ⟨p, hp, h1, h2⟩
    · exact absurd h hm
    · have hidx : (st.1.getD cpvp.1 0).toNat - rowBeg = p := by rw [h1]; omega
      rw [hidx]
      refine ⟨fun cp hcp => ?_, rfl, fun c => ?_⟩
      · simp only at hcp ⊢
        rcases hinv cp hcp with h | ⟨q, hq, h3, h4⟩
        · exact Or.inl h
        · right
          refine ⟨q, by simp; exact hq, h3, ?_⟩
          rw [Array.getElem_modify]
          split <;> simp [h4]
      · simp only [Array.toList_modify]
        exact rowGet_modify _ p (by simpa using hp) cpvp.1 (by simpa using h2) _ c

theorem saAccum_spec (rowBeg : Nat) (va : K) (ptRow : Row K) (st : Array Int × Array (Nat × K))
    (hinv : RowInv rowBeg st) (hwf : ∀ cpvp ∈ ptRow, cpvp.1 < st.1.size) :
    RowInv rowBeg (saAccum rowBeg va ptRow st) ∧ (saAccum rowBeg va ptRow st).1.size = st.1.size ∧
    ∀ c, rowGet (saAccum rowBeg va ptRow st).2.toList c = rowGet st.2.toList c + va * rowGet ptRow c := by
  induction ptRow generalizing st with
  | nil => simp [saAccum, hinv]
  | cons hd t ih =>
    unfold saAccum
    rw [List.foldl_cons]
    obtain ⟨h1, h2, h3⟩ := saAccum_step rowBeg va st hd hinv (hwf hd List.mem_cons_self)
    have := ih _ h1 (fun cpvp hcp => by rw [h2]; exact hwf cpvp (List.mem_cons_of_mem _ hcp))
    unfold saAccum at this
    obtain ⟨h4, h5, h6⟩ := this
    refine ⟨h4, h5.trans h2, fun c => ?_⟩
    rw [h6 c, h3 c, rowGet_cons]
    by_cases h : hd.1 = c
    · rw [if_pos h, if_pos h]; ring
    · rw [if_neg h, if_neg h]; ring

omit [CommRing K] in
theorem crs_row_wf (P : CRS K) (hP : P.WF) (i : Nat) : ∀ cv ∈ P.row i, cv.1 < P.ncols := by
  intro cv hcv
  by_cases hi : i < P.rows.size
  · apply hP (P.row i) _ cv hcv
    unfold CRS.row
    have : P.rows.getD i [] = P.rows[i] := by simp [Array.getD_eq_getD_getElem?, hi]
    rw [this]
    exact Array.mem_toList_iff.2 (Array.getElem_mem hi)
  · unfold CRS.row at hcv
    rw [Array.getD_eq_getD_getElem?, Array.getElem?_eq_none (by omega)] at hcv
    simp at hcv

/-- coefficient with which row `ca` of `P_tent` enters row `i` of `P` for the stored entry `cs = ((ca, a), strong)`:
`1 - ω` for a diagonal entry, `d · a` for a strong off-diagonal entry (`d` = the scaled filtered diagonal),
nothing for a weak one -/
def saCoef [DecidableEq K] (omega d : K) (i : Nat) (cs : (Nat × K) × Bool) : K :=
  if cs.1.1 = i then 1 - omega else if cs.2 = true then d * cs.1.2 else 0

section
variable [DecidableEq K]

theorem saRow_fold (omega d : K) (Pt : CRS K) (hPt : Pt.WF) (i rowBeg : Nat) (z : List ((Nat × K) × Bool))
    (st : Array Int × Array (Nat × K)) (hinv : RowInv rowBeg st) (hsz : st.1.size = Pt.ncols) :
    let res := z.foldl (fun st cs =>
      if cs.1.1 != i && !cs.2 then st else
        let va := if cs.1.1 == i then (1 - omega) * 1 else d * cs.1.2
        saAccum rowBeg va (Pt.row cs.1.1) st) st
    RowInv rowBeg res ∧ res.1.size = Pt.ncols ∧
    ∀ c, rowGet res.2.toList c = rowGet st.2.toList c + (z.map (fun cs => saCoef omega d i cs * Pt.get cs.1.1 c)).sum := by
  induction z generalizing st with
  | nil => intro res; exact ⟨hinv, hsz, fun c => by simp [res]⟩
  | cons hd t ih =>
    intro res
    by_cases hskip : (hd.1.1 != i && !hd.2) = true
    · have hres : res = t.foldl (fun st cs =>
          if cs.1.1 != i && !cs.2 then st else
            let va := if cs.1.1 == i then (1 - omega) * 1 else d * cs.1.2
            saAccum rowBeg va (Pt.row cs.1.1) st) st := by
        show List.foldl _ _ (hd :: t) = _
        rw [List.foldl_cons, if_pos hskip]
      rw [hres]
      obtain ⟨h1, h2, h3⟩ := ih st hinv hsz
      refine ⟨h1, h2, fun c => ?_⟩
      rw [h3 c, List.map_cons, List.sum_cons]
      simp only [Bool.and_eq_true, bne_iff_ne, ne_eq, Bool.not_eq_eq_eq_not, Bool.not_true] at hskip
      have : saCoef omega d i hd = 0 := by
        unfold saCoef; rw [if_neg hskip.1, if_neg (by rw [hskip.2]; decide)]
      rw [this]; ring
    · set va : K := if hd.1.1 == i then (1 - omega) * 1 else d * hd.1.2 with hva
      have hres : res = t.foldl (fun st cs =>
          if cs.1.1 != i && !cs.2 then st else
            let va := if cs.1.1 == i then (1 - omega) * 1 else d * cs.1.2
            saAccum rowBeg va (Pt.row cs.1.1) st) (saAccum rowBeg va (Pt.row hd.1.1) st) := by
        show List.foldl _ _ (hd :: t) = _
        rw [List.foldl_cons, if_neg hskip]
      rw [hres]
      obtain ⟨a1, a2, a3⟩ := saAccum_spec rowBeg va (Pt.row hd.1.1) st hinv
        (fun cpvp hcp => by rw [hsz]; exact crs_row_wf Pt hPt _ cpvp hcp)
      obtain ⟨h1, h2, h3⟩ := ih _ a1 (a2.trans hsz)
      refine ⟨h1, h2, fun c => ?_⟩
      rw [h3 c, a3 c, List.map_cons, List.sum_cons]
      have : saCoef omega d i hd = va := by
        unfold saCoef
        by_cases hc : hd.1.1 = i
        · rw [if_pos hc, hva, if_pos (by simpa using hc)]; ring
        · have hs : hd.2 = true := by
            cases h : hd.2
            · exfalso; apply hskip; simp [h, hc]
            · rfl
          rw [if_neg hc, if_pos hs, hva, if_neg (by simpa using hc)]
      rw [this]; unfold CRS.get; ring

end
end

section
variable {K : Type} [Field K] [DecidableEq K]

/-- all marker entries point below `rowBeg` -/
def MarkerLow (marker : Array Int) (rowBeg : Nat) : Prop :=
  ∀ cp, cp < marker.size → marker.getD cp 0 < (rowBeg : Int)

theorem saRow_spec (omega : K) (Pt : CRS K) (hPt : Pt.WF) (i : Nat) (r : Row K) (s : List Bool)
    (marker : Array Int) (rowBeg : Nat) (hlow : MarkerLow marker rowBeg) (hsz : marker.size = Pt.ncols) :
    MarkerLow (saRow omega Pt i r s marker rowBeg).1 (rowBeg + (saRow omega Pt i r s marker rowBeg).2.size) ∧
    (saRow omega Pt i r s marker rowBeg).1.size = Pt.ncols ∧
    ∀ c, rowGet (saRow omega Pt i r s marker rowBeg).2.toList c =
      ((r.zip s).map (fun cs => saCoef omega (scaledDia omega (filteredDia i r s)) i cs * Pt.get cs.1.1 c)).sum := by
  have hinv : RowInv rowBeg ((marker, #[]) : Array Int × Array (Nat × K)) := fun cp hcp => Or.inl (hlow cp hcp)
  obtain ⟨h1, h2, h3⟩ := saRow_fold omega (scaledDia omega (filteredDia i r s)) Pt hPt i rowBeg (r.zip s) (marker, #[]) hinv hsz
  have hrow : saRow omega Pt i r s marker rowBeg = (r.zip s).foldl (fun st cs =>
      if cs.1.1 != i && !cs.2 then st else
        let va := if cs.1.1 == i then (1 - omega) * 1 else scaledDia omega (filteredDia i r s) * cs.1.2
        saAccum rowBeg va (Pt.row cs.1.1) st) (marker, #[]) := rfl
  rw [hrow]
  refine ⟨fun cp hcp => ?_, h2, fun c => ?_⟩
  · rcases h1 cp hcp with h | ⟨p, hp, h4, _⟩
    · exact lt_of_lt_of_le h (by exact_mod_cast Nat.le_add_right _ _)
    · rw [h4]; exact_mod_cast Nat.add_lt_add_left hp rowBeg
  · rw [h3 c]; simp [rowGet]

/-- one iteration of the row loop -/
def smoothStep (omega : K) (A : CRS K) (S : Array (List Bool)) (Pt : CRS K)
    (st : Array Int × Nat × Array (Row K)) (i : Nat) : Array Int × Nat × Array (Row K) :=
  ((saRow omega Pt i (A.row i) (S.getD i []) st.1 st.2.1).1,
   st.2.1 + (saRow omega Pt i (A.row i) (S.getD i []) st.1 st.2.1).2.size,
   st.2.2.push (saRow omega Pt i (A.row i) (S.getD i []) st.1 st.2.1).2.toList)

theorem smoothProlongation_eq (omega : K) (A : CRS K) (S : Array (List Bool)) (Pt : CRS K) :
    smoothProlongation omega A S Pt =
      { ncols := Pt.ncols,
        rows := ((List.range A.nrows).foldl (smoothStep omega A S Pt)
          (Array.replicate Pt.ncols (-1 : Int), 0, #[])).2.2 } := rfl

/-- the formula for row `j` -/
def saFormula (omega : K) (A : CRS K) (S : Array (List Bool)) (Pt : CRS K) (j c : Nat) : K :=
  (((A.row j).zip (S.getD j [])).map (fun cs =>
    saCoef omega (scaledDia omega (filteredDia j (A.row j) (S.getD j []))) j cs * Pt.get cs.1.1 c)).sum

def LoopInv (omega : K) (A : CRS K) (S : Array (List Bool)) (Pt : CRS K) (k : Nat)
    (st : Array Int × Nat × Array (Row K)) : Prop :=
  st.2.2.size = k ∧ st.1.size = Pt.ncols ∧ MarkerLow st.1 st.2.1 ∧
  ∀ j, j < k → ∀ c, rowGet (st.2.2.getD j []) c = saFormula omega A S Pt j c

theorem loopInv_step (omega : K) (A : CRS K) (S : Array (List Bool)) (Pt : CRS K) (hPt : Pt.WF) (k : Nat)
    (st : Array Int × Nat × Array (Row K)) (h : LoopInv omega A S Pt k st) :
    LoopInv omega A S Pt (k + 1) (smoothStep omega A S Pt st k) := by
  obtain ⟨h1, h2, h3, h4⟩ := h
  obtain ⟨r1, r2, r3⟩ := saRow_spec omega Pt hPt k (A.row k) (S.getD k []) st.1 st.2.1 h3 h2
  refine ⟨by simp [smoothStep, h1], r2, r1, fun j hj c => ?_⟩
  rcases Nat.lt_succ_iff_lt_or_eq.1 hj with hlt | rfl
  · rw [← h4 j hlt c]
    congr 1
    simp [smoothStep, Array.getD_eq_getD_getElem?, Array.getElem?_push, h1, Nat.ne_of_lt hlt]
  · unfold saFormula
    rw [← r3 c]
    congr 1
    subst h1
    simp [smoothStep, Array.getD_eq_getD_getElem?, Array.getElem_push]

theorem smooth_loop (omega : K) (A : CRS K) (S : Array (List Bool)) (Pt : CRS K) (hPt : Pt.WF) (k : Nat) :
    LoopInv omega A S Pt k ((List.range k).foldl (smoothStep omega A S Pt)
      (Array.replicate Pt.ncols (-1 : Int), 0, #[])) := by
  induction k with
  | zero =>
    refine ⟨rfl, by simp, fun cp hcp => ?_, fun j hj => absurd hj (Nat.not_lt_zero j)⟩
    have hcp' : cp < Pt.ncols := by simpa using hcp
    simp [Array.getD_eq_getD_getElem?, hcp']
  | succ k ih =>
    rw [List.range_succ, List.foldl_append, List.foldl_cons, List.foldl_nil]
    exact loopInv_step omega A S Pt hPt k _ ih

/-- entry `(i, c)` of the smoothed prolongation -/
theorem smoothProlongation_get (omega : K) (A : CRS K) (S : Array (List Bool)) (Pt : CRS K) (hPt : Pt.WF)
    (i : Nat) (hi : i < A.nrows) (c : Nat) :
    (smoothProlongation omega A S Pt).get i c =
      (((A.row i).zip (S.getD i [])).map (fun cs =>
        saCoef omega (scaledDia omega (filteredDia i (A.row i) (S.getD i []))) i cs * Pt.get cs.1.1 c)).sum := by
  obtain ⟨_, _, _, h4⟩ := smooth_loop omega A S Pt hPt A.nrows
  rw [smoothProlongation_eq]
  exact h4 i hi c

theorem smoothProlongation_shape (omega : K) (A : CRS K) (S : Array (List Bool)) (Pt : CRS K) (hPt : Pt.WF) :
    (smoothProlongation omega A S Pt).nrows = A.nrows ∧ (smoothProlongation omega A S Pt).ncols = Pt.ncols := by
  obtain ⟨h1, _, _, _⟩ := smooth_loop omega A S Pt hPt A.nrows
  rw [smoothProlongation_eq]
  exact ⟨h1, rfl⟩

omit [DecidableEq K] in
/-- the filtered diagonal of l.197-201 as a sum: the diagonal entries plus the weak entries of the row -/
theorem filteredDia_eq_sum (i : Nat) (r : Row K) (s : List Bool) :
    filteredDia i r s = ((r.zip s).map (fun cs => if cs.1.1 = i ∨ cs.2 = false then cs.1.2 else 0)).sum := by
  unfold filteredDia
  have : ∀ (z : List ((Nat × K) × Bool)) (d : K),
      z.foldl (fun d cs => if cs.1.1 == i || !cs.2 then d + cs.1.2 else d) d =
        d + (z.map (fun cs => if cs.1.1 = i ∨ cs.2 = false then cs.1.2 else 0)).sum := by
    intro z
    induction z with
    | nil => intro d; simp
    | cons hd t ih =>
      intro d
      rw [List.foldl_cons, ih, List.map_cons, List.sum_cons]
      by_cases h : hd.1.1 = i ∨ hd.2 = false
      · rw [if_pos h, if_pos]; ring
        rcases h with h | h <;> simp [h]
      · rw [if_neg h, if_neg]; ring
        push Not at h
        simp [h.1]; cases hh : hd.2 <;> simp_all
  rw [this]; ring

end
end Coarsening
end Amgcl
