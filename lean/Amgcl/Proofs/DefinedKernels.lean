import Amgcl.Model.DefinedKernels
import Amgcl.Proofs.DefinedIlu
import Mathlib.Tactic.Common
/-!
# The generic loop shapes of `Model/DefinedKernels.lean` write every cell they allocate and load only written cells
-/
namespace Amgcl
namespace Defined

section generic
variable {α : Type}

theorem rd_of_load (a : Array (Cell α)) (i : Nat) (d v : α) (h : load a i = some v) : rd a i d = (v, true) := by
  unfold load at h
  unfold rd
  cases ha : a[i]? with
  | none => rw [ha] at h; simp at h
  | some c =>
    rw [ha] at h
    simp only at h ⊢
    by_cases hw : c.written = true
    · rw [if_pos hw] at h; simp only [Option.some.injEq] at h; rw [← h, hw]
    · rw [if_neg hw] at h; simp at h

theorem load_written (v : Array α) (i : Nat) (hi : i < v.size) : load (written v) i = some v[i] := by
  unfold load written
  rw [Array.getElem?_map, Array.getElem?_eq_getElem hi]
  rfl

theorem written_size (v : Array α) : (written v).size = v.size := by unfold written; simp

/-- `for i < n: a[i] = f i` -/
theorem fillVec_spec (n : Nat) (f : Nat → α) (a : Array (Cell α)) :
    (fillVec n f a).size = a.size ∧ (∀ j, j < n → j < a.size → load (fillVec n f a) j = some (f j)) ∧
      (∀ j, n ≤ j → load (fillVec n f a) j = load a j) := by
  unfold fillVec
  induction n with
  | zero => simp
  | succ n ih =>
    rw [List.range_succ, List.foldl_append]
    simp only [List.foldl_cons, List.foldl_nil]
    obtain ⟨h1, h2, h3⟩ := ih
    refine ⟨by rw [store_size, h1], ?_, ?_⟩
    · intro j hj hja
      by_cases hjn : j = n
      · subst hjn; exact load_store_same _ _ _ (by rw [h1]; exact hja)
      · rw [load_store_ne _ _ _ _ (Ne.symm hjn)]; exact h2 j (by omega) hja
    · intro j hj
      rw [load_store_ne _ _ _ _ (by omega)]; exact h3 j (by omega)

theorem fillVec_alloc (n : Nat) (f : Nat → α) (junk : Array α) (hj : junk.size = n) :
    fillVec n f (alloc junk) = written (Array.ofFn (n := n) (fun i => f i.val)) := by
  obtain ⟨h1, h2, _⟩ := fillVec_spec n f (alloc junk)
  apply eq_written_of_load
  · rw [h1, alloc_size, hj]; simp
  · intro i hi
    have hin : i < n := by simpa using hi
    rw [h2 i hin (by rw [alloc_size, hj]; exact hin)]
    simp

end generic

/-! ### `ptr`: width pass and in-place scan -/
section ptr

theorem ptrPass_spec (n : Nat) (w : Nat → Nat) (p : Array (Cell Nat)) (hs : n + 1 ≤ p.size) :
    (ptrPass n w p).size = p.size ∧ load (ptrPass n w p) 0 = some 0 ∧
      (∀ j, j < n → load (ptrPass n w p) (j + 1) = some (w j)) := by
  unfold ptrPass
  induction n with
  | zero =>
    simp only [List.range_zero, List.foldl_nil]
    exact ⟨store_size _ _ _, load_store_same _ _ _ (by omega), fun j hj => absurd hj (Nat.not_lt_zero j)⟩
  | succ n ih =>
    rw [List.range_succ, List.foldl_append]
    simp only [List.foldl_cons, List.foldl_nil]
    obtain ⟨h1, h2, h3⟩ := ih (by omega)
    refine ⟨by rw [store_size, h1], ?_, ?_⟩
    · rw [load_store_ne _ _ _ _ (by omega)]; exact h2
    · intro j hj
      by_cases hjn : j = n
      · subst hjn; exact load_store_same _ _ _ (by rw [h1]; omega)
      · rw [load_store_ne _ _ _ _ (by omega)]; exact h3 j (by omega)

/-- in-place partial sums over cells holding `0, w 0, …, w (n-1)`: every load is legitimate, the cells end up holding
the prefix sums `S 0, …, S n` -/
theorem scanCells_spec (n : Nat) (w S : Nat → Nat) (hS0 : S 0 = 0) (hS : ∀ j, j < n → S (j + 1) = S j + w j)
    (p : Array (Cell Nat)) (hs : n + 1 ≤ p.size) (h0 : load p 0 = some 0)
    (hw : ∀ j, j < n → load p (j + 1) = some (w j)) :
    (scanCells n p).2 = true ∧ (scanCells n p).1.size = p.size ∧
      ∀ j, j ≤ n → load (scanCells n p).1 j = some (S j) := by
  unfold scanCells
  simp only [rd_of_load p 0 0 0 h0]
  -- invariant of the fold over i = 1 … k
  have key : ∀ k, k ≤ n →
      let st := (List.range' 1 k).foldl (fun (st : Array (Cell Nat) × Nat × Bool) i =>
        let x := rd st.1 i 0
        let acc := st.2.1 + x.1
        (store st.1 i acc, acc, st.2.2 && x.2)) (p, 0, true)
      st.2.2 = true ∧ st.2.1 = S k ∧ st.1.size = p.size ∧ (∀ j, j ≤ k → load st.1 j = some (S j)) ∧
        (∀ j, k ≤ j → j < n → load st.1 (j + 1) = some (w j)) := by
    intro k
    induction k with
    | zero =>
      intro _
      simp only [List.range'_zero, List.foldl_nil]
      refine ⟨?_, ?_, ?_, ?_, ?_⟩
      · trivial
      · simp [hS0]
      · trivial
      · intro j hj
        have : j = 0 := by omega
        subst this; rw [hS0]; exact h0
      · intro j _ hj; exact hw j hj
    | succ k ih =>
      intro hk
      obtain ⟨i1, i2, i3, i4, i5⟩ := ih (by omega)
      rw [List.range'_1_concat, List.foldl_append]
      simp only [List.foldl_cons, List.foldl_nil]
      have hx := i5 k (Nat.le_refl k) (by omega)
      rw [show 1 + k = k + 1 by omega]
      rw [rd_of_load _ _ 0 _ hx]
      simp only
      refine ⟨by rw [i1]; rfl, by rw [i2, hS k (by omega)], by rw [store_size, i3], ?_, ?_⟩
      · intro j hj
        by_cases hjk : j = k + 1
        · subst hjk
          rw [load_store_same _ _ _ (by rw [i3]; omega), i2, hS k (by omega)]
        · rw [load_store_ne _ _ _ _ (Ne.symm hjk)]; exact i4 j (by omega)
      · intro j hj hjn
        rw [load_store_ne _ _ _ _ (by omega)]; exact i5 j (by omega) hjn
  obtain ⟨k1, _, k3, k4, _⟩ := key n (Nat.le_refl n)
  exact ⟨k1, k3, k4⟩

end ptr

/-! ### `col` / `val`: rows written into their segments -/
section fill
variable {K : Type}

theorem fillRow_spec (h : Nat) (hb : Bool) (row : Row K) (st : Fill K) :
    (fillRow (h, hb) row st).ok = (st.ok && hb) ∧
    (fillRow (h, hb) row st).col.size = st.col.size ∧ (fillRow (h, hb) row st).val.size = st.val.size ∧
    (∀ t (ht : t < row.length), h + t < st.col.size → load (fillRow (h, hb) row st).col (h + t) = some row[t].1) ∧
    (∀ t (ht : t < row.length), h + t < st.val.size → load (fillRow (h, hb) row st).val (h + t) = some row[t].2) ∧
    (∀ j, (j < h ∨ h + row.length ≤ j) → load (fillRow (h, hb) row st).col j = load st.col j) ∧
    (∀ j, (j < h ∨ h + row.length ≤ j) → load (fillRow (h, hb) row st).val j = load st.val j) := by
  unfold fillRow
  simp only
  -- generalise the starting index of `zipIdx`
  have key : ∀ (row : Row K) (k : Nat) (st : Fill K),
      let r := (row.zipIdx k).foldl (fun (st : Fill K) e =>
        ({ col := store st.col (h + e.2) e.1.1, val := store st.val (h + e.2) e.1.2, ok := st.ok } : Fill K)) st
      r.ok = st.ok ∧ r.col.size = st.col.size ∧ r.val.size = st.val.size ∧
      (∀ t (ht : t < row.length), h + k + t < st.col.size → load r.col (h + k + t) = some row[t].1) ∧
      (∀ t (ht : t < row.length), h + k + t < st.val.size → load r.val (h + k + t) = some row[t].2) ∧
      (∀ j, (j < h + k ∨ h + k + row.length ≤ j) → load r.col j = load st.col j) ∧
      (∀ j, (j < h + k ∨ h + k + row.length ≤ j) → load r.val j = load st.val j) := by
    intro row
    induction row with
    | nil => intro k st; simp
    | cons e rest ih =>
      intro k st
      simp only [List.zipIdx_cons, List.foldl_cons]
      obtain ⟨a1, a2, a3, a4, a5, a6, a7⟩ := ih (k + 1)
        { col := store st.col (h + k) e.1, val := store st.val (h + k) e.2, ok := st.ok }
      simp only [store_size] at a2 a3 a4 a5
      refine ⟨a1, a2, a3, ?_, ?_, ?_, ?_⟩
      · intro t ht hlt
        cases t with
        | zero =>
          simp only [Nat.add_zero, List.getElem_cons_zero]
          rw [a6 (h + k) (Or.inl (by omega))]
          exact load_store_same _ _ _ (by omega)
        | succ t =>
          simp only [List.getElem_cons_succ]
          have := a4 t (by simpa using ht) (by omega)
          rw [show h + k + (t + 1) = h + (k + 1) + t by omega]
          exact this
      · intro t ht hlt
        cases t with
        | zero =>
          simp only [Nat.add_zero, List.getElem_cons_zero]
          rw [a7 (h + k) (Or.inl (by omega))]
          exact load_store_same _ _ _ (by omega)
        | succ t =>
          simp only [List.getElem_cons_succ]
          have := a5 t (by simpa using ht) (by omega)
          rw [show h + k + (t + 1) = h + (k + 1) + t by omega]
          exact this
      · intro j hj
        simp only [List.length_cons] at hj
        rw [a6 j (by omega)]
        exact load_store_ne _ _ _ _ (by omega)
      · intro j hj
        simp only [List.length_cons] at hj
        rw [a7 j (by omega)]
        exact load_store_ne _ _ _ _ (by omega)
  have := key row 0 { st with ok := st.ok && hb }
  simpa using this

theorem flatten_take_length_le {β : Type} (L : List (List β)) (m : Nat) :
    (L.take m).flatten.length ≤ L.flatten.length := by
  conv_rhs => rw [← List.take_append_drop m L]
  rw [List.flatten_append, List.length_append]; omega

theorem flatUpTo_succ (rows : Array (Row K)) (i : Nat) (hi : i < rows.size) :
    flatUpTo rows (i + 1) = flatUpTo rows i ++ rows.getD i [] := by
  unfold flatUpTo
  have hl : i < rows.toList.length := by simpa using hi
  rw [List.take_succ_eq_append_getElem hl, List.flatten_append]
  simp only [List.flatten_cons, List.flatten_nil, List.append_nil]
  congr 1
  simp [Array.getD_eq_getD_getElem?, hi]

theorem flatUpTo_all (rows : Array (Row K)) : flatUpTo rows rows.size = flatRows rows := by
  unfold flatUpTo flatRows
  rw [List.take_of_length_le (by simp)]

/-- the fill loop with the right heads writes exactly the cells `0 … nnz-1`, in storage order -/
theorem fillRows_spec (headOf : Nat → Nat × Bool) (rows : Array (Row K))
    (hh : ∀ i, i < rows.size → headOf i = ((flatUpTo rows i).length, true)) (st : Fill K) (hok : st.ok = true)
    (hc : st.col.size = (flatRows rows).length) (hv : st.val.size = (flatRows rows).length) :
    (fillRows headOf rows st).ok = true ∧
    (fillRows headOf rows st).col = written ((flatRows rows).map (·.1)).toArray ∧
    (fillRows headOf rows st).val = written ((flatRows rows).map (·.2)).toArray := by
  unfold fillRows
  have key : ∀ k, k ≤ rows.size →
      let r := (List.range k).foldl (fun st i => fillRow (headOf i) (rows.getD i []) st) st
      r.ok = true ∧ r.col.size = st.col.size ∧ r.val.size = st.val.size ∧
      (∀ j (hj : j < (flatUpTo rows k).length), load r.col j = some (flatUpTo rows k)[j].1) ∧
      (∀ j (hj : j < (flatUpTo rows k).length), load r.val j = some (flatUpTo rows k)[j].2) := by
    intro k
    induction k with
    | zero => intro _; simp [flatUpTo, hok]
    | succ k ih =>
      intro hk
      obtain ⟨b1, b2, b3, b4, b5⟩ := ih (by omega)
      rw [List.range_succ, List.foldl_append]
      simp only [List.foldl_cons, List.foldl_nil]
      rw [hh k (by omega)]
      obtain ⟨c1, c2, c3, c4, c5, c6, c7⟩ := fillRow_spec (flatUpTo rows k).length true (rows.getD k [])
        ((List.range k).foldl (fun st i => fillRow (headOf i) (rows.getD i []) st) st)
      have hsucc := flatUpTo_succ rows k (by omega)
      have hle : (flatUpTo rows (k + 1)).length ≤ (flatRows rows).length := by
        unfold flatUpTo flatRows; exact flatten_take_length_le _ _
      refine ⟨by rw [c1, b1]; rfl, by rw [c2, b2], by rw [c3, b3], ?_, ?_⟩
      · intro j hj
        by_cases hjl : j < (flatUpTo rows k).length
        · rw [c6 j (Or.inl hjl), b4 j hjl]
          simp only [hsucc, List.getElem_append_left hjl]
        · have hlen : (flatUpTo rows (k + 1)).length = (flatUpTo rows k).length + (rows.getD k []).length := by
            rw [hsucc, List.length_append]
          have ht : j - (flatUpTo rows k).length < (rows.getD k []).length := by omega
          have := c4 (j - (flatUpTo rows k).length) ht (by rw [b2, hc]; omega)
          rw [show (flatUpTo rows k).length + (j - (flatUpTo rows k).length) = j by omega] at this
          rw [this]
          simp only [hsucc]
          rw [List.getElem_append_right (by omega)]
      · intro j hj
        by_cases hjl : j < (flatUpTo rows k).length
        · rw [c7 j (Or.inl hjl), b5 j hjl]
          simp only [hsucc, List.getElem_append_left hjl]
        · have hlen : (flatUpTo rows (k + 1)).length = (flatUpTo rows k).length + (rows.getD k []).length := by
            rw [hsucc, List.length_append]
          have ht : j - (flatUpTo rows k).length < (rows.getD k []).length := by omega
          have := c5 (j - (flatUpTo rows k).length) ht (by rw [b3, hv]; omega)
          rw [show (flatUpTo rows k).length + (j - (flatUpTo rows k).length) = j by omega] at this
          rw [this]
          simp only [hsucc]
          rw [List.getElem_append_right (by omega)]
  obtain ⟨d1, d2, d3, d4, d5⟩ := key rows.size (Nat.le_refl _)
  refine ⟨d1, ?_, ?_⟩
  · apply eq_written_of_load
    · rw [d2, hc]; simp
    · intro i hi
      have hi' : i < (flatUpTo rows rows.size).length := by rw [flatUpTo_all]; simpa using hi
      rw [d4 i hi']
      simp [flatUpTo_all]
  · apply eq_written_of_load
    · rw [d3, hv]; simp
    · intro i hi
      have hi' : i < (flatUpTo rows rows.size).length := by rw [flatUpTo_all]; simpa using hi
      rw [d5 i hi']
      simp [flatUpTo_all]

end fill

/-! ### the two-pass construction and the copying construction -/
section twopass
variable {K : Type}

theorem flatUpTo_zero (rows : Array (Row K)) : flatUpTo rows 0 = [] := by unfold flatUpTo; simp

theorem ptrList_length (rows : Array (Row K)) : (ptrList rows).length = rows.size + 1 := by
  unfold ptrList; simp

theorem ptrList_getElem? (rows : Array (Row K)) (i : Nat) (hi : i < rows.size + 1) :
    (ptrList rows)[i]? = some (flatUpTo rows i).length := by
  unfold ptrList
  rw [List.getElem?_map, List.getElem?_range hi]; rfl

theorem ptrList_getElem (rows : Array (Row K)) (i : Nat) (hi : i < (ptrList rows).toArray.size) :
    (ptrList rows).toArray[i] = (flatUpTo rows i).length := by
  have h1 : i < rows.size + 1 := by simpa [ptrList_length] using hi
  have := ptrList_getElem? rows i h1
  rw [List.getElem?_eq_getElem (by rw [ptrList_length]; exact h1)] at this
  simpa using this

/-- **two-pass construction**: for every prior content of the three allocations the result is the completely
written flat image of the rows, and no unwritten cell is ever loaded -/
theorem twoPass_spec (rows : Array (Row K)) (jp : Array Nat) (jc : Nat → Array Nat) (jv : Nat → Array K)
    (hp : jp.size = rows.size + 1) (hc : ∀ k, (jc k).size = k) (hv : ∀ k, (jv k).size = k) :
    twoPass rows jp jc jv = CrsCells.ofRows rows := by
  unfold twoPass
  dsimp only
  have hps : rows.size + 1 ≤ (alloc jp).size := by rw [alloc_size, hp]; exact Nat.le_refl _
  obtain ⟨p1, p2, p3⟩ := ptrPass_spec rows.size (fun i => (rows.getD i []).length) (alloc jp) hps
  obtain ⟨s1, s2, s3⟩ := scanCells_spec rows.size (fun i => (rows.getD i []).length)
    (fun i => (flatUpTo rows i).length) (by simp [flatUpTo_zero])
    (fun j hj => by rw [flatUpTo_succ rows j hj, List.length_append])
    _ (by rw [p1]; exact hps) p2 p3
  rw [rd_of_load _ _ 0 _ (s3 rows.size (Nat.le_refl _))]
  simp only [s1, Bool.and_self]
  have hnnz : (flatUpTo rows rows.size).length = (flatRows rows).length := by rw [flatUpTo_all]
  obtain ⟨f1, f2, f3⟩ := fillRows_spec
    (fun i => rd (scanCells rows.size (ptrPass rows.size (fun i => (rows.getD i []).length) (alloc jp))).1 i 0) rows
    (fun i hi => rd_of_load _ _ 0 _ (s3 i (by omega)))
    { col := alloc (jc (flatUpTo rows rows.size).length), val := alloc (jv (flatUpTo rows rows.size).length), ok := true }
    rfl (by simp only; rw [alloc_size, hc, hnnz]) (by simp only; rw [alloc_size, hv, hnnz])
  unfold CrsCells.ofRows
  rw [f1, f2, f3]
  congr 1
  apply eq_written_of_load
  · rw [s2, p1, alloc_size, hp]; simp [ptrList_length]
  · intro i hi
    have hi' : i ≤ rows.size := by
      have : (ptrList rows).toArray.size = rows.size + 1 := by simp [ptrList_length]
      omega
    rw [s3 i hi', ptrList_getElem]

/-- **copying construction** from a source with the pointer array of its rows -/
theorem cloneCells_spec (rows : Array (Row K)) (jp jc : Array Nat) (jv : Array K)
    (hp : jp.size = rows.size + 1) (hc : jc.size = (flatRows rows).length) (hv : jv.size = (flatRows rows).length) :
    cloneCells rows (ptrList rows).toArray jp jc jv = CrsCells.ofRows rows := by
  unfold cloneCells
  dsimp only
  have hget : ∀ i, i < rows.size + 1 → (ptrList rows).toArray.getD i 0 = (flatUpTo rows i).length := by
    intro i hi
    have hi' : i < (ptrList rows).toArray.size := by simp [ptrList_length]; exact hi
    simp only [Array.getD_eq_getD_getElem?]
    rw [Array.getElem?_eq_getElem hi', ptrList_getElem]; rfl
  obtain ⟨f1, f2, f3⟩ := fillRows_spec (fun i => ((ptrList rows).toArray.getD i 0, true)) rows
    (fun i hi => by rw [hget i (by omega)])
    { col := alloc jc, val := alloc jv, ok := true } rfl (by simp only; rw [alloc_size, hc])
    (by simp only; rw [alloc_size, hv])
  unfold CrsCells.ofRows
  rw [f1, f2, f3, fillVec_alloc _ _ _ hp]
  congr 2
  apply Array.ext
  · simp [ptrList_length]
  · intro i h1 h2
    simp only [Array.getElem_ofFn]
    rw [hget i (by simpa using h1), ptrList_getElem]

theorem ofRows_allWritten (rows : Array (Row K)) :
    allWritten (CrsCells.ofRows rows).ptr = true ∧ allWritten (CrsCells.ofRows rows).col = true ∧
      allWritten (CrsCells.ofRows rows).val = true ∧ (CrsCells.ofRows rows).ok = true :=
  ⟨allWritten_written _, allWritten_written _, allWritten_written _, rfl⟩

end twopass
end Defined
end Amgcl
