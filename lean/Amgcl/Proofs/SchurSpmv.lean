import Amgcl.Proofs.SchurExact
/-!
The matrix-free Schur operator for ARBITRARY coefficients (C18): `spmv(α, x, β, y) = β y + α S x` where `S x` is what
the object computes for `α = 1, β = 0`, for every mask, `adjust_p` and `approx_schur`; `residual(f, S, x) = f - S x`.
(`Good.hkpp` of `Proofs/SchurApply.lean` is the `α = 1, β = 0` instance used by the block-elimination theorems.)
-/
namespace Amgcl.Schur
open Amgcl Matrix Finset

section
variable {K : Type} [Field K] [LinearOrder K]

/-- the `Kpp` part of `spmv` with arbitrary coefficients: `α Kpp x + β y` with the EXTRACTED `Kpp`, whatever `adjust_p`
is — for `adjust_p = 1` this needs the kept correction `Ld` to be added back with the coefficient `α` -/
theorem init_kppPart_general (nt : Nat) (prm : Params) (A : CRS K) (pm : Array Bool) (hA : A.WF)
    (hn : A.nrows = pm.size) (hc : A.ncols = pm.size) (α β : K) (x y : Vec K) :
    toV (cls pm true).length ((init nt prm A pm).kppPart α x β y)
      = α • (toMat (init nt prm A pm).Kpp0 (cls pm true).length (cls pm true).length *ᵥ toV (cls pm true).length x)
        + β • toV (cls pm true).length y := by
  have hKppwf := extractBlock_wf A pm hA hn hc true true
  have hKppn := extractBlock_nrows A pm hn true true (cls pm true).length
  have hKpun := extractBlock_nrows A pm hn true false (cls pm false).length
  unfold State.kppPart
  simp only [init, mkIdx_nu, mkIdx_np]
  set Kpp := extractBlock A pm (mkIdx pm).1 true true (cls pm true).length (cls pm true).length with hKppdef
  by_cases h1 : prm.adjustP = 1
  · simp only [h1, if_true, Option.getD_some]
    set L := adjustL _ _ _ Kpp with hL
    have hLsz : L.size = (cls pm true).length := by rw [hL]; unfold adjustL; simp [hKpun]
    rw [toV_vmul _ _ _ _ _ _ hLsz,
      toV_spmv' α β _ x y (adjust1_wf L Kpp hKppwf) (cls pm true).length (cls pm true).length
        (by rw [adjust1_nrows]; exact hKppn) rfl]
    funext b
    simp only [Pi.add_apply, Pi.smul_apply, smul_eq_mul]
    have hm : (toMat (adjust1 L Kpp) (cls pm true).length (cls pm true).length *ᵥ toV (cls pm true).length x) b
        = (toMat Kpp (cls pm true).length (cls pm true).length *ᵥ toV (cls pm true).length x) b
          - toV (cls pm true).length L b * toV (cls pm true).length x b := by
      unfold Matrix.mulVec dotProduct
      have : ∀ j : Fin (cls pm true).length,
          toMat (adjust1 L Kpp) (cls pm true).length (cls pm true).length b j * toV (cls pm true).length x j
          = toMat Kpp (cls pm true).length (cls pm true).length b j * toV (cls pm true).length x j
            - (if b = j then toV (cls pm true).length L b * toV (cls pm true).length x b else 0) := by
        intro j
        unfold toMat
        rw [hL, adjust1_get _ _ _ Kpp b.val j.val (by rw [hKppn]; exact b.isLt) (by rw [hKpun, hKppn])]
        by_cases hbj : b = j
        · subst hbj; simp [toV]; ring
        · have : ¬ b.val = j.val := fun e => hbj (Fin.ext e)
          simp [hbj, this]
      rw [Finset.sum_congr rfl (fun j _ => this j), Finset.sum_sub_distrib, Finset.sum_ite_eq]
      simp
    rw [hm]; ring
  · by_cases h2 : prm.adjustP = 2
    · simp only [h2, if_true, Option.getD_some]
      have : ¬ (2 : Nat) = 1 := by omega
      simp only [this, if_false]
      rw [toV_spmv' α β Kpp x y hKppwf (cls pm true).length (cls pm true).length hKppn rfl]
    · simp only [h1, h2, if_false]
      rw [toV_spmv' α β Kpp x y hKppwf (cls pm true).length (cls pm true).length hKppn rfl]

/-- `spmv(α, x, β, y) = β y + α (spmv(1, x, 0, ·))` -/
theorem init_spmv_affine (nt : Nat) (prm : Params) (A : CRS K) (pm : Array Bool) (hA : A.WF)
    (hn : A.nrows = pm.size) (hc : A.ncols = pm.size) (U : Vec K → Vec K) (α β : K) (x y z : Vec K) :
    toV (cls pm true).length ((init nt prm A pm).spmv U α x β y)
      = β • toV (cls pm true).length y
        + α • toV (cls pm true).length ((init nt prm A pm).spmv U 1 x 0 z) := by
  have hG := init_good nt prm A pm hA hn hc
  have hS := hG.shapes hA hn hc
  unfold State.spmv
  rw [toV_spmv' (-α) 1 _ _ _ hS.pu.1 _ _ hS.pu.2.1 hS.pu.2.2,
    toV_spmv' (-1) 1 _ _ _ hS.pu.1 _ _ hS.pu.2.1 hS.pu.2.2,
    init_kppPart_general nt prm A pm hA hn hc α β x y, init_kppPart_general nt prm A pm hA hn hc 1 0 x z]
  funext b
  simp only [Pi.add_apply, Pi.smul_apply, smul_eq_mul]
  ring

omit [LinearOrder K] in
theorem toV_vcopy (f : Vec K) (m : Nat) (hf : f.size = m) : toV m (vcopy f) = toV m f := by
  subst hf
  funext i
  unfold toV vcopy
  rw [getD_ofFn_lt _ _ _ i.isLt]

/-- `backend::residual(f, S, x, r)` on the object is `f - S x` -/
theorem init_residual (nt : Nat) (prm : Params) (A : CRS K) (pm : Array Bool) (hA : A.WF)
    (hn : A.nrows = pm.size) (hc : A.ncols = pm.size) (U : Vec K → Vec K) (f x z : Vec K)
    (hf : f.size = (cls pm true).length) :
    toV (cls pm true).length ((init nt prm A pm).residual U f x)
      = toV (cls pm true).length f - toV (cls pm true).length ((init nt prm A pm).spmv U 1 x 0 z) := by
  unfold State.residual
  rw [init_spmv_affine nt prm A pm hA hn hc U (-1) 1 x (vcopy f) z, toV_vcopy f _ hf]
  funext b
  simp only [Pi.add_apply, Pi.sub_apply, Pi.smul_apply, smul_eq_mul]
  ring

end
end Amgcl.Schur
