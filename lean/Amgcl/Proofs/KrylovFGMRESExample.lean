import Amgcl.Proofs.KrylovFGMRES
import Amgcl.Proofs.KrylovGMRESExample
/-!
# The concrete system used for the non-vacuity examples of `Properties/C05b.lean` (FGMRES part)

The matrix, right-hand side and initial guess of `KrylovGMRESExample.lean` with a NON-LINEAR preconditioner function
`Pc u = (u₀³, u₁³, u₂³)` (FGMRES allows any function): it fixes the unit vectors `e₁, e₂` the Arnoldi process meets here,
so the numbers are those of the GMRES example and `rsqrt` is exact on all of them.
-/
namespace Amgcl.Krylov.ExF
open Amgcl Amgcl.Solver Amgcl.Krylov Amgcl.Krylov.ExG Amgcl.Energy.Bridge

/-- a non-linear "preconditioner": the entrywise cube on vectors of length 3 -/
def Pc : Vec ℚ → Vec ℚ := fun u => Array.ofFn (n := 3) (fun i => u.getD i.val 0 * u.getD i.val 0 * u.getD i.val 0)
def prmf : FGMRES.Params ℚ := { maxiter := 2, tol := 0, abstol := 0, nsSearch := false, M := 3 }
/-- the state at the first `break` test -/
def stf : FGMRES.St ℚ := FGMRES.init stdIp Amgcl.rsqrt Ag (FGMRES.Work.fresh 3) fg xg

theorem hPc : ∀ u, (Pc u).size = 3 := fun u => by simp [Pc]
theorem hstf : FCycleStart Amgcl.rsqrt Ag fg stf := fcycleStart_head Amgcl.rsqrt Ag fg _ (by decide +kernel)
theorem hxf : stf.x.size = 3 := by decide +kernel
theorem hrootsf : RootsExact .right Amgcl.rsqrt Ag Pc (toG stf) 2 :=
  ⟨by decide +kernel, by decide +kernel, by decide +kernel⟩
theorem hnbf : ∀ i, i < 2 → arnoldiNorm .right Amgcl.rsqrt Ag Pc (toG stf) i ≠ 0 := by decide +kernel
/-- `Pc` is not additive: `Pc (e₁ + e₁) ≠ Pc e₁ + Pc e₁` -/
theorem hPc_nonlinear : Pc #[2, 0, 0] ≠ axpby 1 (Pc #[1, 0, 0]) 1 (Pc #[1, 0, 0]) := by decide +kernel

end Amgcl.Krylov.ExF
