import Amgcl.Model.SolverCommon2
import Amgcl.Proofs.SolverCG
/-!
Helper lemmas shared by the proofs about GMRES / FGMRES / LGMRES / IDR(s) / BiCGStab(L):

* the prologue in its `nrmA` flavour,
* fuel sufficiency for loops whose counter advances by at least one per pass,
* point updates of the map-modelled arrays (`setF`, `setF2`),
* relational lemmas for `List.foldl` over `List.range` (two runs of a loop whose bodies agree on related states),
* `history` with an invariant on the work-space state.
-/
namespace Amgcl.Solver
open Amgcl
set_option linter.unusedSectionVars false
set_option linter.unusedSimpArgs false

/-! ### map-modelled arrays -/
section farr
variable {α : Type}

@[simp] theorem setF_same (a : FArr α) (i : Nat) (x : α) : (setF a i x).get i = x := by simp [setF]
theorem setF_other (a : FArr α) (i k : Nat) (x : α) (h : k ≠ i) : (setF a i x).get k = a.get k := by
  simp [setF, h]
theorem setF_get (a : FArr α) (i k : Nat) (x : α) : (setF a i x).get k = if k = i then x else a.get k := rfl

@[simp] theorem setF2_same (H : FArr2 α) (i j : Nat) (x : α) : (setF2 H i j x).get i j = x := by simp [setF2]
theorem setF2_get (H : FArr2 α) (i j a b : Nat) (x : α) :
    (setF2 H i j x).get a b = if a = i ∧ b = j then x else H.get a b := rfl
theorem setF2_other_col (H : FArr2 α) (i j a b : Nat) (x : α) (h : b ≠ j) : (setF2 H i j x).get a b = H.get a b := by
  simp [setF2, h]

@[simp] theorem FArr.const_get (x : α) (i : Nat) : (FArr.const x).get i = x := rfl
@[simp] theorem FArr2.const_get (x : α) (i j : Nat) : (FArr2.const x).get i j = x := rfl

theorem FArr.ext {a b : FArr α} (h : ∀ i, a.get i = b.get i) : a = b := by
  cases a; cases b; congr; funext i; exact h i
theorem FArr2.ext {a b : FArr2 α} (h : ∀ i j, a.get i j = b.get i j) : a = b := by
  cases a; cases b; congr; funext i j; exact h i j

end farr

/-! ### folds over `List.range` -/
section folds
variable {σ τ : Type}

theorem foldl_range_succ (f : σ → Nat → σ) (a : σ) (n : Nat) :
    (List.range (n + 1)).foldl f a = f ((List.range n).foldl f a) n := by
  rw [List.range_succ, List.foldl_append]; rfl

/-- invariant of a `for (k = 0; k < n; ++k)` loop -/
theorem foldl_range_inv (f : σ → Nat → σ) (I : Nat → σ → Prop) (n : Nat) (a : σ) (h0 : I 0 a)
    (hstep : ∀ k s, k < n → I k s → I (k + 1) (f s k)) : I n ((List.range n).foldl f a) := by
  induction n with
  | zero => simpa using h0
  | succ m ih =>
    rw [foldl_range_succ]
    exact hstep m _ (Nat.lt_succ_self m) (ih (fun k s hk => hstep k s (Nat.lt_succ_of_lt hk)))

/-- relational form: two loops (possibly with different bodies) from related states stay related -/
theorem foldl_range_rel (f : σ → Nat → σ) (g : τ → Nat → τ) (R : Nat → σ → τ → Prop) (n : Nat) (a : σ) (b : τ)
    (h0 : R 0 a b) (hstep : ∀ k s t, k < n → R k s t → R (k + 1) (f s k) (g t k)) :
    R n ((List.range n).foldl f a) ((List.range n).foldl g b) := by
  induction n with
  | zero => simpa using h0
  | succ m ih =>
    rw [foldl_range_succ, foldl_range_succ]
    exact hstep m _ _ (Nat.lt_succ_self m) (ih (fun k s t hk => hstep k s t (Nat.lt_succ_of_lt hk)))

/-- invariant of a loop over an arbitrary list (used for `(List.range s).drop k` and reversed ranges) -/
theorem foldl_mem_inv {β : Type} (f : σ → β → σ) (I : σ → Prop) (l : List β) (a : σ) (h0 : I a)
    (hstep : ∀ s x, x ∈ l → I s → I (f s x)) : I (l.foldl f a) := by
  induction l generalizing a with
  | nil => simpa using h0
  | cons x t ih =>
    simp only [List.foldl_cons]
    exact ih _ (hstep a x List.mem_cons_self h0) (fun s y hy => hstep s y (List.mem_cons_of_mem _ hy))

/-- relational form over an arbitrary list with a fixed relation -/
theorem foldl_mem_rel {β : Type} (f : σ → β → σ) (g : τ → β → τ) (R : σ → τ → Prop) (l : List β) (a : σ) (b : τ)
    (h0 : R a b) (hstep : ∀ s t x, x ∈ l → R s t → R (f s x) (g t x)) : R (l.foldl f a) (l.foldl g b) := by
  induction l generalizing a b with
  | nil => simpa using h0
  | cons x t ih =>
    simp only [List.foldl_cons]
    exact ih _ _ (hstep a b x List.mem_cons_self h0) (fun s u y hy => hstep s u y (List.mem_cons_of_mem _ hy))

theorem mem_range_drop {n k i : Nat} (h : i ∈ (List.range n).drop k) : k ≤ i ∧ i < n := by
  rw [List.mem_iff_getElem] at h
  obtain ⟨m, hm, rfl⟩ := h
  simp only [List.length_drop, List.length_range] at hm
  simp only [List.getElem_drop, List.getElem_range]
  omega

end folds

/-! ### loops -/
section loops
variable {σ : Type}

/-- **Fuel sufficiency**: if every pass advances a counter by at least one and the guard implies `cnt < bound`, then
with `fuel ≥ bound − cnt` the loop ends with the guard false (never by running out of fuel). -/
theorem loopN_fuel_ok (cond : σ → Bool) (body : σ → σ) (cnt : σ → Nat) (bound : Nat)
    (hguard : ∀ s, cond s = true → cnt s < bound)
    (hprog : ∀ s, cond s = true → cnt s < cnt (body s)) :
    ∀ fuel s, bound ≤ cnt s + fuel → cond (loopN cond body fuel s) = false := by
  intro fuel
  induction fuel with
  | zero =>
    intro s h
    simp only [loopN]
    by_cases hc : cond s = true
    · have := hguard s hc; omega
    · simpa using hc
  | succ n ih =>
    intro s h
    unfold loopN
    by_cases hc : cond s = true
    · simp only [hc, if_true]
      apply ih
      have := hprog s hc; omega
    · simp only [hc]; simpa using hc

theorem doWhile_inv (cont : σ → Bool) (body : σ → σ) (Inv : σ → Prop) (fuel : Nat) (s : σ)
    (h1 : Inv (body s)) (hstep : ∀ t, Inv t → cont t = true → Inv (body t)) : Inv (doWhile cont body fuel s) :=
  loopN_inv cont body Inv hstep fuel _ h1

/-- two `do … while` loops from related states stay related -/
theorem doWhile_rel (cont : σ → Bool) (body : σ → σ) (R : σ → σ → Prop)
    (hcond : ∀ s s', R s s' → cont s = cont s')
    (hstep : ∀ s s', R s s' → cont s = true → R (body s) (body s'))
    (fuel : Nat) (s s' : σ) (h1 : R (body s) (body s')) :
    R (doWhile cont body fuel s) (doWhile cont body fuel s') :=
  loopN_rel cont body R hcond hstep fuel _ _ h1

end loops

/-! ### history with an invariant -/
section hist
variable {W C O : Type}

/-- the reuse theorem for objects whose calls are independent of the work space only under an invariant `Inv` of the
work-space state that every call preserves (used for LGMRES with `always_reset`) -/
theorem history_eq_fresh_of_indep_inv (step : W → C → O × W) (Inv : W → Prop)
    (hpres : ∀ w c, Inv w → Inv (step w c).2)
    (hindep : ∀ w w' c, Inv w → Inv w' → (step w c).1 = (step w' c).1) (w0 : W) (h0 : Inv w0) :
    ∀ (w : W) (cs : List C), Inv w → history step w cs = cs.map (fun c => (step w0 c).1) := by
  intro w cs
  induction cs generalizing w with
  | nil => intro _; rfl
  | cons c cs ih =>
    intro hw
    simp only [history, List.map_cons]
    rw [ih _ (hpres w c hw), hindep w w0 c hw h0]

end hist

/-! ### prologue, `nrmA` flavour -/
section prologue
variable {K : Type} [Field K] [DecidableEq K] [LT K] [DecidableLT K]

theorem prologueA_trivial (ns : Bool) (ip : Vec K → Vec K → K) (sqrt : K → K) (eps : K) (f : Vec K) (n : K) :
    prologueA ns ip sqrt eps f = .trivial n ↔ (nrmA ip sqrt f < eps ∧ ns = false ∧ n = nrmA ip sqrt f) := by
  unfold prologueA
  by_cases h1 : nrmA ip sqrt f < eps <;> cases ns <;> simp [h1, eq_comm]

theorem prologueA_go (ns : Bool) (ip : Vec K → Vec K → K) (sqrt : K → K) (eps : K) (f : Vec K) (n : K) :
    prologueA ns ip sqrt eps f = .go n ↔
      ((nrmA ip sqrt f < eps ∧ ns = true ∧ n = 1) ∨ (¬ nrmA ip sqrt f < eps ∧ n = nrmA ip sqrt f)) := by
  unfold prologueA
  by_cases h1 : nrmA ip sqrt f < eps <;> cases ns <;> simp [h1, eq_comm]

/-- `lin_comb(n, c, v, 0, y)` with `n ≥ 1` never reads the old output `y` -/
theorem linComb_zero_indep (cv : K × Vec K) (rest : List (K × Vec K)) (y y' : Vec K) :
    linComb (cv :: rest) 0 y = linComb (cv :: rest) 0 y' := by
  simp [linComb, axpby]

theorem combList_succ (n : Nat) (c : Nat → K) (v : Nat → Vec K) :
    combList (n + 1) c v = (c 0, v 0) :: combList n (fun i => c (i + 1)) (fun i => v (i + 1)) := by
  simp [combList, List.range_succ_eq_map]

/-- two coefficient/vector lists that agree below `n` are equal -/
theorem combList_congr (n : Nat) (c c' : Nat → K) (v v' : Nat → Vec K)
    (hc : ∀ i, i < n → c i = c' i) (hv : ∀ i, i < n → v i = v' i) : combList n c v = combList n c' v' := by
  unfold combList
  apply List.map_congr_left
  intro i hi
  rw [List.mem_range] at hi
  rw [hc i hi, hv i hi]

end prologue

section ordered
variable {K : Type} [Field K] [LinearOrder K] [IsStrictOrderedRing K]

theorem prologueA_go_pos (ns : Bool) (ip : Vec K → Vec K → K) (sqrt : K → K) (eps : K) (heps : 0 < eps)
    (f : Vec K) (n : K) (h : prologueA ns ip sqrt eps f = .go n) : 0 < n := by
  rcases (prologueA_go ns ip sqrt eps f n).mp h with ⟨_, _, rfl⟩ | ⟨h1, rfl⟩
  · exact one_pos
  · exact lt_of_lt_of_le heps (not_lt.mp h1)

end ordered

end Amgcl.Solver
