import Amgcl.Proofs.DistAmgGather
/-!
From "slices of serial data" to "any distributed data of the right shape": a distributed vector whose rank slices
have the partition's sizes is the list of slices of its concatenation; same for the level vectors.  With this the
simulation `dcycle_sim` / `dapply_sim` is restated starting from an arbitrary distributed state.
-/
namespace Amgcl.DistAmg
open Amgcl Amgcl.Dist Amgcl.Lockstep

section
variable {K S T : Type} [CommRing K] [DecidableEq K]

/-- a distributed vector shaped by the partition `p`: one slice per rank, rank `r` holding `p[r]` entries -/
def DVecOK (p : List Nat) (xs : DVec K) : Prop :=
  xs.length = p.length ∧ ∀ r, r < p.length → (xs.getD r #[]).size = p.getD r 0

omit [CommRing K] [DecidableEq K] in
theorem dvecOK_split (x : Vec K) (p : List Nat) (hx : x.size = p.sum) : DVecOK p (splitVec x p) :=
  ⟨splitVec_length x p, fun r hr => by rw [splitVec_getD x p r hr]; exact vecPart_size x p r hr (by rw [hx])⟩

/-- a well-shaped distributed vector is the list of slices of its concatenation -/
theorem split_concat (p : List Nat) (xs : DVec K) (h : DVecOK p xs) :
    splitVec (concatVec xs) p = xs ∧ (concatVec xs).size = p.sum := by
  obtain ⟨hlen, hsz⟩ := h
  have hxs : xs = (List.range p.length).map (fun r => xs.getD r #[]) := by
    have := map_eq_map_range (fun v : Vec K => v) xs #[]
    rw [List.map_id', hlen] at this
    exact this
  have hflat : xs.flatMap Array.toList = (List.range p.length).flatMap (fun r => (xs.getD r #[]).toList) := by
    conv_lhs => rw [hxs]
    rw [List.flatMap_map]
  have hchunk := flatMap_getD_chunk (fun r => (xs.getD r #[]).toList) p (0 : K)
    (by intro r hr; rw [Array.length_toList]; exact hsz r hr) p.length (Nat.le_refl _)
  have hsize : (concatVec xs).size = p.sum := by
    unfold concatVec
    rw [List.size_toArray, hflat, hchunk.1, dom_length]
  refine ⟨?_, hsize⟩
  conv_rhs => rw [hxs]
  unfold splitVec
  apply List.map_congr_left
  intro r hr
  have hr' := List.mem_range.1 hr
  symm
  apply eq_vecPart _ _ p r hr' hsize (hsz r hr')
  intro i hi
  unfold concatVec
  rw [hflat, toArray_getD _ (dom p r + i), hchunk.2 r hr' i hi]
  simp [List.getD_eq_getElem?_getD, Array.getD_eq_getD_getElem?]

/-- the level vectors of every level are well shaped -/
def DScrsOK : List (List Nat) → List (DScratch K) → Prop
  | [], [] => True
  | p :: ps, d :: ds => (DVecOK p d.f ∧ DVecOK p d.u ∧ DVecOK p d.t) ∧ DScrsOK ps ds
  | _, _ => False

theorem scrsRef_of_ok : ∀ (ps : List (List Nat)) (dscr : List (DScratch K)), DScrsOK ps dscr →
    ScrsRef ps dscr (dscr.map gatherScratch)
  | [], [], _ => trivial
  | [], _ :: _, h => h.elim
  | _ :: _, [], h => h.elim
  | p :: ps, d :: ds, h => by
    obtain ⟨⟨hf, hu, ht⟩, hrest⟩ := h
    obtain ⟨f1, f2⟩ := split_concat p d.f hf
    obtain ⟨u1, u2⟩ := split_concat p d.u hu
    obtain ⟨t1, t2⟩ := split_concat p d.t ht
    exact ⟨⟨f2, u2, t2, f1.symm, u1.symm, t1.symm⟩, scrsRef_of_ok ps ds hrest⟩

omit [CommRing K] [DecidableEq K] in
theorem scrsRef_gather : ∀ (ps : List (List Nat)) (dscr : List (DScratch K)) (scr : List (Amg.Scratch K)),
    ScrsRef ps dscr scr → dscr.map gatherScratch = scr ∧ DScrsOK ps dscr
  | [], [], [], _ => ⟨rfl, trivial⟩
  | [], [], _ :: _, h => h.elim
  | [], _ :: _, _, h => h.elim
  | _ :: _, [], _, h => h.elim
  | _ :: _, _ :: _, [], h => h.elim
  | p :: ps, d :: ds, s :: ss, h => by
    obtain ⟨hd, hrest⟩ := h
    obtain ⟨e, ok⟩ := scrsRef_gather ps ds ss hrest
    refine ⟨?_, ⟨?_, ?_, ?_⟩, ok⟩
    · rw [List.map_cons, e]
      congr 1
      unfold gatherScratch
      rw [hd.f, hd.u, hd.t, concat_splitVec _ p hd.fs, concat_splitVec _ p hd.us, concat_splitVec _ p hd.ts]
    · rw [hd.f]; exact dvecOK_split _ p hd.fs
    · rw [hd.u]; exact dvecOK_split _ p hd.us
    · rw [hd.t]; exact dvecOK_split _ p hd.ts

omit [DecidableEq K] in
/-- freshly allocated level vectors are well shaped -/
theorem dscrsOK_fresh (dls : List (DLevel K S)) : DScrsOK (dls.map (·.part)) (freshDScratch dls : List (DScratch K)) := by
  induction dls with
  | nil => trivial
  | cons d rest ih =>
    have hc : DVecOK d.part (dclear d.part : DVec K) := by
      unfold dclear
      refine ⟨by simp, fun r hr => ?_⟩
      rw [getD_map_lt _ d.part r #[] 0 hr]
      simp [vclear, List.getD_eq_getElem?_getD]
    exact ⟨⟨hc, hc, hc⟩, ih⟩

end
end Amgcl.DistAmg
