import Amgcl.Proofs.EnergyBuild
import Mathlib.LinearAlgebra.Matrix.Notation
import Mathlib.Tactic.FinCases
import Mathlib.Tactic.NormNum
import Mathlib.Data.Rat.Defs
/-!
# Concrete data for the non-vacuity examples of `Properties/C02b.lean`

The 1D Laplacian `tridiag(−1, 2, −1)` on 4 points over `ℚ`, pairwise aggregation `4 → 2 → 1`
(piecewise-constant prolongation), Galerkin coarse operators `[[2,−1],[−1,2]]` and `[[2]]`.
-/
set_option linter.unusedSectionVars false
namespace Amgcl.Energy.Example
open Matrix

def A4 : Matrix (Fin 4) (Fin 4) ℚ := !![2, -1, 0, 0; -1, 2, -1, 0; 0, -1, 2, -1; 0, 0, -1, 2]
def A2 : Matrix (Fin 2) (Fin 2) ℚ := !![2, -1; -1, 2]
def A1 : Matrix (Fin 1) (Fin 1) ℚ := !![2]
def P4 : Matrix (Fin 4) (Fin 2) ℚ := !![1, 0; 1, 0; 0, 1; 0, 1]
def P2 : Matrix (Fin 2) (Fin 1) ℚ := !![1; 1]

theorem galerkin42 : A2 = P4ᵀ * A4 * P4 := by
  ext i j
  fin_cases i <;> fin_cases j <;> simp [A2, A4, P4, Matrix.mul_apply, Fin.sum_univ_succ] <;> norm_num

theorem galerkin21 : A1 = P2ᵀ * A2 * P2 := by
  ext i j
  fin_cases i; fin_cases j; simp [A1, A2, P2, Matrix.mul_apply, Fin.sum_univ_succ]; norm_num

theorem en_A4 (v : Fin 4 → ℚ) :
    en A4 v v = v 0 ^ 2 + (v 0 - v 1) ^ 2 + (v 1 - v 2) ^ 2 + (v 2 - v 3) ^ 2 + v 3 ^ 2 := by
  simp [en, dotProduct, mulVec, Fin.sum_univ_succ, A4]; ring

theorem en_A2 (v : Fin 2 → ℚ) : en A2 v v = v 0 ^ 2 + (v 0 - v 1) ^ 2 + v 1 ^ 2 := by
  simp [en, dotProduct, mulVec, Fin.sum_univ_succ, A2]; ring

theorem en_A1 (v : Fin 1 → ℚ) : en A1 v v = 2 * v 0 ^ 2 := by
  simp [en, dotProduct, mulVec, A1]; ring

theorem spd_A4 : IsSPD A4 := by
  refine ⟨by ext i j; fin_cases i <;> fin_cases j <;> simp [A4], fun v hv => ?_⟩
  rw [en_A4]
  by_contra hcon
  apply hv
  have h0 : v 0 = 0 := by nlinarith [sq_nonneg (v 0), sq_nonneg (v 0 - v 1), sq_nonneg (v 1 - v 2), sq_nonneg (v 2 - v 3), sq_nonneg (v 3)]
  have h3 : v 3 = 0 := by nlinarith [sq_nonneg (v 0), sq_nonneg (v 0 - v 1), sq_nonneg (v 1 - v 2), sq_nonneg (v 2 - v 3), sq_nonneg (v 3)]
  have h1 : v 1 = 0 := by nlinarith [sq_nonneg (v 0), sq_nonneg (v 0 - v 1), sq_nonneg (v 1 - v 2), sq_nonneg (v 2 - v 3), sq_nonneg (v 3)]
  have h2 : v 2 = 0 := by nlinarith [sq_nonneg (v 0), sq_nonneg (v 0 - v 1), sq_nonneg (v 1 - v 2), sq_nonneg (v 2 - v 3), sq_nonneg (v 3)]
  funext i; fin_cases i <;> simp [h0, h1, h2, h3]

theorem spd_A2 : IsSPD A2 := by
  refine ⟨by ext i j; fin_cases i <;> fin_cases j <;> simp [A2], fun v hv => ?_⟩
  rw [en_A2]
  by_contra hcon
  apply hv
  have h0 : v 0 = 0 := by nlinarith [sq_nonneg (v 0), sq_nonneg (v 0 - v 1), sq_nonneg (v 1)]
  have h1 : v 1 = 0 := by nlinarith [sq_nonneg (v 0), sq_nonneg (v 0 - v 1), sq_nonneg (v 1)]
  funext i; fin_cases i <;> simp [h0, h1]

theorem spd_A1 : IsSPD A1 := by
  refine ⟨by ext i j; fin_cases i; fin_cases j; simp [A1], fun v hv => ?_⟩
  rw [en_A1]
  have : v 0 ≠ 0 := fun h => hv (by funext i; fin_cases i; simpa using h)
  positivity

theorem wdd_A4 : WeakDD A4 := by
  intro i; fin_cases i <;> simp [offSum, A4, Fin.sum_univ_succ] <;> norm_num

theorem wdd_A2 : WeakDD A2 := by
  intro i; fin_cases i <;> simp [offSum, A2, Fin.sum_univ_succ]

theorem inj_P4 (w : Fin 2 → ℚ) (h : P4 *ᵥ w = 0) : w = 0 := by
  have h0 := congrFun h 0
  have h2 := congrFun h 2
  simp [P4, mulVec, dotProduct, Fin.sum_univ_succ] at h0 h2
  funext i; fin_cases i <;> simp [h0, h2]

theorem inj_P2 (w : Fin 1 → ℚ) (h : P2 *ᵥ w = 0) : w = 0 := by
  have h0 := congrFun h 0
  simp [P2, mulVec, dotProduct] at h0
  funext i; fin_cases i; simp [h0]

/-- three levels `4 → 2 → 1`: forward Gauss–Seidel as pre-, backward Gauss–Seidel as post-smoother, direct coarse solve -/
noncomputable def hGS : Hier ℚ 4 :=
  .level A4 (gsN A4) (gsNback A4) P4 P4ᵀ (.level A2 (gsN A2) (gsNback A2) P2 P2ᵀ (.direct A1))

/-- three levels, damped Jacobi `ω = 18/25` (amgcl's default `0.72`) on every level including the coarsest -/
def hJac : Hier ℚ 4 :=
  .level A4 (jacobiN (18/25) A4) (jacobiN (18/25) A4) P4 P4ᵀ
    (.level A2 (jacobiN (18/25) A2) (jacobiN (18/25) A2) P2 P2ᵀ (.relax A1 (jacobiN (18/25) A1) (jacobiN (18/25) A1)))

theorem hGS_OK : hGS.OK :=
  ⟨spd_A4, gs_contr spd_A4, gsBack_contr spd_A4, rfl, inj_P4, galerkin42,
    spd_A2, gs_contr spd_A2, gsBack_contr spd_A2, rfl, inj_P2, galerkin21, spd_A1⟩

theorem hGS_Sym : hGS.Sym :=
  ⟨gsNback_eq_transpose spd_A4.1, gsNback_eq_transpose spd_A2.1, trivial⟩

theorem wdd_A1 : WeakDD A1 := by
  intro i; fin_cases i; simp [offSum, A1]

theorem hJac_OK : hJac.OK := by
  have hω0 : (0 : ℚ) < 18 / 25 := by norm_num
  have hω1 : (18 / 25 : ℚ) < 1 := by norm_num
  exact ⟨spd_A4, jacobi_contr hω0 hω1 spd_A4 wdd_A4, jacobi_contr hω0 hω1 spd_A4 wdd_A4, rfl, inj_P4, galerkin42,
    spd_A2, jacobi_contr hω0 hω1 spd_A2 wdd_A2, jacobi_contr hω0 hω1 spd_A2 wdd_A2, rfl, inj_P2, galerkin21,
    spd_A1, jacobi_contr hω0 hω1 spd_A1 wdd_A1, jacobi_contr hω0 hω1 spd_A1 wdd_A1⟩

theorem hJac_Sym : hJac.Sym :=
  ⟨(jacobiN_transpose _ _).symm, (jacobiN_transpose _ _).symm, (jacobiN_transpose _ _).symm⟩

/-- the transfer operators of the three-level example `4 → 2 → 1` satisfy `Transfers.Good` for every proved smoother -/
theorem transfers_good (sm : ProvedSmoother ℚ) :
    Transfers.Good sm.Q A4
      (.cons P4 P4ᵀ (.cons P2 P2ᵀ (.coarsest false))) := by
  have e1 : P4ᵀ * A4 * P4 = A2 := galerkin42.symm
  have e2 : P2ᵀ * A2 * P2 = A1 := galerkin21.symm
  cases sm with
  | gaussSeidel => exact ⟨trivial, rfl, inj_P4, trivial, rfl, inj_P2, trivial⟩
  | dampedJacobi ω =>
    refine ⟨wdd_A4, rfl, inj_P4, ?_⟩
    rw [e1]; refine ⟨wdd_A2, rfl, inj_P2, ?_⟩
    rw [e2]; exact wdd_A1
  | spai0 =>
    refine ⟨wdd_A4, rfl, inj_P4, ?_⟩
    rw [e1]; refine ⟨wdd_A2, rfl, inj_P2, ?_⟩
    rw [e2]; exact wdd_A1

end Amgcl.Energy.Example
