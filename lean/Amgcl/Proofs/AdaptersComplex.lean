import Amgcl.Model.Adapters
import Amgcl.Proofs.Primitives
import Amgcl.Proofs.KernelsCommon
import Mathlib.LinearAlgebra.Matrix.Notation
import Mathlib.Tactic.Ring
/-!
The complex adapter (C13): `a+bi ↦ [[a, −b], [b, a]]` is an injective ring homomorphism, `complex_adapter` is its
entrywise image, and the real-equivalent SpMV is the real view of the complex SpMV.

No algebraic structure is put on `Cx K`: the model's operations (`Cx.instAdd`, `Cx.instMul`, … = libstdc++'s generic
`std::complex<T>`) are used as they are and all facts are proved componentwise.
-/
namespace Amgcl.Adapters
open Amgcl Amgcl.K2

section cx
variable {K : Type}

@[ext] theorem Cx.ext' {a b : Cx K} (h1 : a.re = b.re) (h2 : a.im = b.im) : a = b := by
  cases a; cases b; simp_all

@[simp] theorem Cx.add_re [Add K] (a b : Cx K) : (a + b).re = a.re + b.re := rfl
@[simp] theorem Cx.add_im [Add K] (a b : Cx K) : (a + b).im = a.im + b.im := rfl
@[simp] theorem Cx.mul_re [Add K] [Sub K] [Mul K] (a b : Cx K) : (a * b).re = a.re * b.re - a.im * b.im := rfl
@[simp] theorem Cx.mul_im [Add K] [Sub K] [Mul K] (a b : Cx K) : (a * b).im = a.re * b.im + a.im * b.re := rfl
@[simp] theorem Cx.neg_re [Neg K] (a : Cx K) : (-a).re = -a.re := rfl
@[simp] theorem Cx.neg_im [Neg K] (a : Cx K) : (-a).im = -a.im := rfl
@[simp] theorem Cx.sub_re [Sub K] (a b : Cx K) : (a - b).re = a.re - b.re := rfl
@[simp] theorem Cx.sub_im [Sub K] (a b : Cx K) : (a - b).im = a.im - b.im := rfl
@[simp] theorem Cx.zero_re [Zero K] : (0 : Cx K).re = 0 := rfl
@[simp] theorem Cx.zero_im [Zero K] : (0 : Cx K).im = 0 := rfl
@[simp] theorem Cx.one_re [Zero K] [One K] : (1 : Cx K).re = 1 := rfl
@[simp] theorem Cx.one_im [Zero K] [One K] : (1 : Cx K).im = 0 := rfl

/-- the realification `a+bi ↦ [[a, −b], [b, a]]` -/
def realify [Neg K] (z : Cx K) : Matrix (Fin 2) (Fin 2) K := !![z.re, -z.im; z.im, z.re]

variable [CommRing K]

theorem realify_add (z w : Cx K) : realify (z + w) = realify z + realify w := by
  unfold realify
  ext i j; fin_cases i <;> fin_cases j <;> simp [neg_add, add_comm]

theorem realify_mul (z w : Cx K) : realify (z * w) = realify z * realify w := by
  unfold realify
  rw [Matrix.mul_fin_two]
  simp only [Cx.mul_re, Cx.mul_im]
  congr 1
  · ext i j; fin_cases i <;> fin_cases j <;> simp <;> ring

theorem realify_one : realify (1 : Cx K) = 1 := by
  unfold realify
  rw [Matrix.one_fin_two]
  simp

theorem realify_zero : realify (0 : Cx K) = 0 := by
  unfold realify
  ext i j; fin_cases i <;> fin_cases j <;> simp

theorem realify_neg (z : Cx K) : realify (-z) = -realify z := by
  unfold realify
  ext i j; fin_cases i <;> fin_cases j <;> simp

theorem realify_injective : Function.Injective (realify : Cx K → Matrix (Fin 2) (Fin 2) K) := by
  intro z w h
  have h00 := congrFun (congrFun h 0) 0
  have h10 := congrFun (congrFun h 1) 0
  unfold realify at h00 h10
  simp at h00 h10
  exact Cx.ext' h00 h10

end cx

/-! ## the real view of complex vectors -/
section range
variable {K : Type} [Zero K]

theorem complexRange_size (z : Vec (Cx K)) : (complexRange z).size = 2 * z.size := by
  simp [complexRange]

theorem complexRange_even (z : Vec (Cx K)) (c : Nat) : (complexRange z).getD (c * 2) 0 = (z.getD c 0).re := by
  unfold complexRange
  rw [getD_ofFn]
  by_cases h : c * 2 < 2 * z.size
  · rw [dif_pos h]
    have e1 : c * 2 % 2 = 0 := Nat.mul_mod_left c 2
    have e2 : c * 2 / 2 = c := Nat.mul_div_cancel c (by omega)
    simp [e1, e2]
  · rw [dif_neg h]
    have : z.getD c 0 = 0 := by
      have : ¬ c < z.size := by omega
      simp [Array.getD, this]
    rw [this]; rfl

theorem complexRange_odd (z : Vec (Cx K)) (c : Nat) : (complexRange z).getD (c * 2 + 1) 0 = (z.getD c 0).im := by
  unfold complexRange
  rw [getD_ofFn]
  by_cases h : c * 2 + 1 < 2 * z.size
  · rw [dif_pos h]
    have e1 : (c * 2 + 1) % 2 = 1 := by omega
    have e2 : (c * 2 + 1) / 2 = c := by omega
    simp [e1, e2]
  · rw [dif_neg h]
    have : z.getD c 0 = 0 := by
      have : ¬ c < z.size := by omega
      simp [Array.getD, this]
    rw [this]; rfl

/-- `complexOfRange` undoes `complexRange` -/
theorem complexOfRange_complexRange (z : Vec (Cx K)) : complexOfRange (complexRange z) = z := by
  apply Array.ext
  · simp [complexOfRange, complexRange]
  · intro i h1 h2
    simp only [complexOfRange, Array.getElem_ofFn]
    have e1 := complexRange_even z i
    have e2 := complexRange_odd z i
    rw [Nat.mul_comm] at e1 e2
    rw [e1, e2]
    simp [Array.getD, h2]

/-- and conversely on real vectors of even length -/
theorem complexRange_complexOfRange (x : Vec K) (hx : x.size % 2 = 0) : complexRange (complexOfRange x) = x := by
  apply Vec.ext_getD (0 : K)
  · simp [complexRange, complexOfRange]; omega
  · intro i hi
    have hsz : (complexOfRange x).size = x.size / 2 := by simp [complexOfRange]
    have hi' : i < x.size := by
      rw [complexRange_size, hsz] at hi; omega
    have hq : i / 2 < x.size / 2 := by omega
    rcases Nat.mod_two_eq_zero_or_one i with h0 | h1
    · have e : i = i / 2 * 2 := by omega
      rw [e, complexRange_even]
      unfold complexOfRange
      rw [getD_ofFn_lt _ _ _ hq]
      show x.getD (2 * (i / 2)) 0 = x.getD (i / 2 * 2) 0
      rw [Nat.mul_comm]
    · have e : i = i / 2 * 2 + 1 := by omega
      rw [e, complexRange_odd]
      unfold complexOfRange
      rw [getD_ofFn_lt _ _ _ hq]
      show x.getD (2 * (i / 2) + 1) 0 = x.getD (i / 2 * 2 + 1) 0
      rw [Nat.mul_comm]

theorem complexRange_injective : Function.Injective (complexRange : Vec (Cx K) → Vec K) := by
  intro z w h
  rw [← complexOfRange_complexRange z, ← complexOfRange_complexRange w, h]

end range

/-! ## rows of the complex adapter -/
section rows
variable {K : Type}

theorem complexMatrix_nrows [Neg K] (A : CRS (Cx K)) : (complexMatrix A).nrows = 2 * A.nrows := by
  simp [complexMatrix, CRS.nrows]

theorem complexMatrix_row [Neg K] (A : CRS (Cx K)) (i : Nat) (hi : i < 2 * A.nrows) :
    (complexMatrix A).row i = complexRow (i % 2 == 0) (A.row (i / 2)) := by
  have h : i < (complexMatrix A).rows.size := by simpa [complexMatrix, CRS.nrows] using hi
  rw [row_eq_getElem _ h]
  simp [complexMatrix]

theorem complexRow_cons [Neg K] (rr : Bool) (cv : Nat × Cx K) (t : Row (Cx K)) :
    complexRow rr (cv :: t)
      = (if rr then [(cv.1 * 2, cv.2.re), (cv.1 * 2 + 1, -cv.2.im)] else [(cv.1 * 2, cv.2.im), (cv.1 * 2 + 1, cv.2.re)])
        ++ complexRow rr t := by
  unfold complexRow; rw [List.flatMap_cons]

theorem rowGet_cons_any {α : Type} [Add α] [Zero α] (cv : Nat × α) (t : Row α) (j : Nat) :
    rowGet (cv :: t) j = if cv.1 = j then cv.2 + rowGet t j else rowGet t j := rfl

variable [CommRing K]

/-- components of the denotation of a complex row -/
theorem rowGet_re (r : Row (Cx K)) (j : Nat) : (rowGet r j).re = rowGet (r.map (fun cv => (cv.1, cv.2.re))) j := by
  induction r with
  | nil => rfl
  | cons cv t ih =>
    rw [List.map_cons, rowGet_cons_any, rowGet_cons_any]
    split
    · rw [Cx.add_re, ih]
    · exact ih

theorem rowGet_im (r : Row (Cx K)) (j : Nat) : (rowGet r j).im = rowGet (r.map (fun cv => (cv.1, cv.2.im))) j := by
  induction r with
  | nil => rfl
  | cons cv t ih =>
    rw [List.map_cons, rowGet_cons_any, rowGet_cons_any]
    split
    · rw [Cx.add_im, ih]
    · exact ih

/-- **the complex adapter is the entrywise image of the realification**: the 2×2 block at `(i, j)` of the
real-equivalent row pair is `[[a, −b], [b, a]]` for the denoted complex entry `a+bi`. -/
theorem rowGet_complexRow (r : Row (Cx K)) (j : Nat) :
    rowGet (complexRow true r) (j * 2) = (rowGet r j).re ∧
    rowGet (complexRow true r) (j * 2 + 1) = -(rowGet r j).im ∧
    rowGet (complexRow false r) (j * 2) = (rowGet r j).im ∧
    rowGet (complexRow false r) (j * 2 + 1) = (rowGet r j).re := by
  induction r with
  | nil => exact ⟨rfl, (neg_zero (G := K)).symm, rfl, rfl⟩
  | cons cv t ih =>
    obtain ⟨i1, i2, i3, i4⟩ := ih
    have a1 : cv.1 * 2 = j * 2 ↔ cv.1 = j := by omega
    have a2 : ¬ cv.1 * 2 + 1 = j * 2 := by omega
    have a3 : ¬ cv.1 * 2 = j * 2 + 1 := by omega
    have a4 : cv.1 * 2 + 1 = j * 2 + 1 ↔ cv.1 = j := by omega
    simp only [complexRow_cons, if_true, Bool.false_eq_true, if_false, List.cons_append, List.nil_append,
      rowGet_cons_any, i1, i2, i3, i4, a2, a3]
    by_cases h : cv.1 = j
    · simp only [a1.2 h, a4.2 h, h, if_true, Cx.add_re, Cx.add_im]
      refine ⟨?_, ?_, ?_, ?_⟩ <;> first | trivial | rfl | ring
    · have b1 : ¬ cv.1 * 2 = j * 2 := fun e => h (a1.1 e)
      have b4 : ¬ cv.1 * 2 + 1 = j * 2 + 1 := fun e => h (a4.1 e)
      simp only [b1, b4, h, if_false]
      refine ⟨?_, ?_, ?_, ?_⟩ <;> first | trivial | rfl | ring

theorem complexMatrix_get (A : CRS (Cx K)) (i j : Nat) (hi : i < A.nrows) (p q : Fin 2) :
    (complexMatrix A).get (i * 2 + p.val) (j * 2 + q.val) = realify (A.get i j) p q := by
  unfold CRS.get
  have hrow : i * 2 + p.val < 2 * A.nrows := by have := p.isLt; omega
  have e1 : (i * 2 + p.val) / 2 = i := by have := p.isLt; omega
  have e2 : (i * 2 + p.val) % 2 = p.val := by have := p.isLt; omega
  rw [complexMatrix_row A _ hrow, e1, e2]
  obtain ⟨h1, h2, h3, h4⟩ := rowGet_complexRow (A.row i) j
  unfold realify
  fin_cases p <;> fin_cases q <;> simp [h1, h2, h3, h4]

/-! ## SpMV -/

/-- the complex row product, by components -/
theorem rowDot_complex (r : Row (Cx K)) (z : Vec (Cx K)) :
    (rowDot r z).re = rowDot (complexRow true r) (complexRange z) ∧
    (rowDot r z).im = rowDot (complexRow false r) (complexRange z) := by
  unfold rowDot
  suffices H : ∀ (s : Cx K) (sr si : K), s.re = sr → s.im = si →
      (r.foldl (fun s cv => s + cv.2 * z.getD cv.1 0) s).re
        = (complexRow true r).foldl (fun s cv => s + cv.2 * (complexRange z).getD cv.1 0) sr ∧
      (r.foldl (fun s cv => s + cv.2 * z.getD cv.1 0) s).im
        = (complexRow false r).foldl (fun s cv => s + cv.2 * (complexRange z).getD cv.1 0) si from
    H 0 0 0 rfl rfl
  induction r with
  | nil => intro s sr si h1 h2; exact ⟨h1, h2⟩
  | cons cv t ih =>
    intro s sr si h1 h2
    simp only [List.foldl_cons, complexRow_cons, if_true, Bool.false_eq_true, if_false, List.cons_append,
      List.nil_append, complexRange_even, complexRange_odd]
    apply ih
    · rw [Cx.add_re, Cx.mul_re, h1]; ring
    · rw [Cx.add_im, Cx.mul_im, h2]; ring

variable [DecidableEq K]

/-- **the real-equivalent SpMV is the real view of the complex SpMV**: `Â ẑ = (A z)^` -/
theorem spmv_complexMatrix (A : CRS (Cx K)) (z : Vec (Cx K)) (y : Vec K) (w : Vec (Cx K)) :
    spmv 1 (complexMatrix A) (complexRange z) 0 y = complexRange (spmv 1 A z 0 w) := by
  have hsz : (spmv (1 : Cx K) A z 0 w).size = A.nrows := by unfold spmv; split <;> simp
  apply Vec.ext_getD (0 : K)
  · rw [complexRange_size, hsz]; unfold spmv; rw [if_pos rfl]; simp [complexMatrix_nrows]
  · intro i hi
    have hi' : i < 2 * A.nrows := by
      have : (spmv (1 : K) (complexMatrix A) (complexRange z) 0 y).size = 2 * A.nrows := by
        unfold spmv; rw [if_pos rfl]; simp [complexMatrix_nrows]
      rw [this] at hi; exact hi
    have hq : i / 2 < A.nrows := by omega
    have hval : (spmv (1 : Cx K) A z 0 w).getD (i / 2) 0 = 1 * rowDot (A.row (i / 2)) z := by
      unfold spmv; rw [if_pos rfl, getD_ofFn_lt _ _ _ hq]
    have hlhs : (spmv (1 : K) (complexMatrix A) (complexRange z) 0 y).getD i 0
        = 1 * rowDot ((complexMatrix A).row i) (complexRange z) := by
      unfold spmv; rw [if_pos rfl, getD_ofFn_lt _ _ _ (by rw [complexMatrix_nrows]; exact hi')]
    rw [hlhs, complexMatrix_row A i hi', one_mul]
    obtain ⟨hre, him⟩ := rowDot_complex (A.row (i / 2)) z
    rcases Nat.mod_two_eq_zero_or_one i with h0 | h1
    · have e : i = i / 2 * 2 := by omega
      conv_rhs => rw [e, complexRange_even, hval]
      have hb0 : ((0 : Nat) == 0) = true := rfl
      rw [h0, hb0, ← hre]
      simp
    · have e : i = i / 2 * 2 + 1 := by omega
      conv_rhs => rw [e, complexRange_odd, hval]
      have hb1 : ((1 : Nat) == 0) = false := rfl
      rw [h1, hb1, ← him]
      simp

end rows

end Amgcl.Adapters
