import Amgcl.Proofs.CPRDrsWeights
import Amgcl.Proofs.CPRBlock
/-!
`cpr_drs`: block-valued input versus scalar input with `block_size = B` (C18, `cpr_drs_scalar_eq_block`).  The scalar
rows of an expanded block row share their block columns, so the lock-step walk of `first_scalar_pass` visits exactly the
stored active blocks of the block row, in order, and one visit does to `a_dia`, `a_off`, `a_top` what the block
constructor's inner loop over `k < B` does.
-/
set_option linter.unusedSectionVars false
namespace Amgcl.CPRDrs
open Amgcl Amgcl.CPR Amgcl.Arr2

section blockvisit
variable {K : Type} [Field K] [LinearOrder K]

theorem Acc.ext_getD {B : Nat} {a b : Acc K} (ha : a.Sized B) (hb : b.Sized B)
    (ht : ∀ c, c < B → a.top.getD c 0 = b.top.getD c 0) (hd : ∀ j, j < B → a.dia.getD j 0 = b.dia.getD j 0)
    (ho : ∀ j, j < B → a.off.getD j 0 = b.off.getD j 0) : a = b := by
  obtain ⟨a1, a2, a3⟩ := a
  obtain ⟨b1, b2, b3⟩ := b
  obtain ⟨h1, h2, h3⟩ := ha
  obtain ⟨g1, g2, g3⟩ := hb
  simp only at h1 h2 h3 g1 g2 g3 ht hd ho
  have e1 : a1 = b1 := Vec.ext_getD 0 (by rw [h1, g1]) (fun i hi => hd i (by rw [← h1]; exact hi))
  have e2 : a2 = b2 := Vec.ext_getD 0 (by rw [h2, g2]) (fun i hi => ho i (by rw [← h2]; exact hi))
  have e3 : a3 = b3 := Vec.ext_getD 0 (by rw [h3, g3]) (fun i hi => ht i (by rw [← h3]; exact hi))
  rw [e1, e2, e3]

/-- the body of the loop over `k < B` for one stored block -/
def blockStep (B i : Nat) (cv : Nat × Blk K) (a : Acc K) (k : Nat) : Acc K :=
  let a : Acc K := { a with top := a.top.setIfInBounds k (a.top.getD k 0 + absK (cv.2.getD (0 * B + k) 0)) }
  if cv.1 = i then { a with dia := a.dia.setIfInBounds k (cv.2.getD (k * B + 0) 0) }
  else { a with off := a.off.setIfInBounds k (a.off.getD k 0 + absK (cv.2.getD (k * B + 0) 0)) }

theorem blockStep_sized (B i : Nat) (cv : Nat × Blk K) (a : Acc K) (k : Nat) (h : a.Sized B) :
    (blockStep B i cv a k).Sized B := by
  obtain ⟨h1, h2, h3⟩ := h
  unfold blockStep Acc.Sized
  simp only
  split_ifs <;> simp [h1, h2, h3]

theorem blockStep_top (B i : Nat) (cv : Nat × Blk K) (a : Acc K) (k : Nat) :
    (blockStep B i cv a k).top = a.top.setIfInBounds k (a.top.getD k 0 + absK (cv.2.getD (0 * B + k) 0)) := by
  unfold blockStep; simp only; split_ifs <;> rfl

theorem blockStep_dia (B i : Nat) (cv : Nat × Blk K) (a : Acc K) (k : Nat) :
    (blockStep B i cv a k).dia = if cv.1 = i then a.dia.setIfInBounds k (cv.2.getD (k * B + 0) 0) else a.dia := by
  unfold blockStep; simp only; split_ifs <;> rfl

theorem blockStep_off (B i : Nat) (cv : Nat × Blk K) (a : Acc K) (k : Nat) :
    (blockStep B i cv a k).off
      = if cv.1 = i then a.off else a.off.setIfInBounds k (a.off.getD k 0 + absK (cv.2.getD (k * B + 0) 0)) := by
  unfold blockStep; simp only; split_ifs <;> rfl

/-- the loop over `k < m` -/
theorem blockFold_spec (B i : Nat) (cv : Nat × Blk K) (a : Acc K) (ha : a.Sized B) (m : Nat) (hm : m ≤ B) :
    ((List.range m).foldl (blockStep B i cv) a).Sized B ∧
    (∀ c, c < B → ((List.range m).foldl (blockStep B i cv) a).top.getD c 0
        = if c < m then a.top.getD c 0 + absK (cv.2.getD (0 * B + c) 0) else a.top.getD c 0) ∧
    (∀ j, j < B → ((List.range m).foldl (blockStep B i cv) a).dia.getD j 0
        = if j < m ∧ cv.1 = i then cv.2.getD (j * B + 0) 0 else a.dia.getD j 0) ∧
    (∀ j, j < B → ((List.range m).foldl (blockStep B i cv) a).off.getD j 0
        = if j < m ∧ cv.1 ≠ i then a.off.getD j 0 + absK (cv.2.getD (j * B + 0) 0) else a.off.getD j 0) := by
  induction m with
  | zero => exact ⟨ha, by intro c _; simp, by intro j _; simp, by intro j _; simp⟩
  | succ k ih =>
    obtain ⟨hs, ht, hd, ho⟩ := ih (by omega)
    rw [List.range_succ, List.foldl_append]
    simp only [List.foldl_cons, List.foldl_nil]
    set ak := (List.range k).foldl (blockStep B i cv) a with hak
    obtain ⟨s1, s2, s3⟩ := hs
    have hk : k < B := by omega
    refine ⟨blockStep_sized B i cv ak k ⟨s1, s2, s3⟩, ?_, ?_, ?_⟩
    · intro c hc
      rw [blockStep_top, getD_setIfInBounds, ht k hk, ht c hc]
      by_cases hck : c = k
      · subst hck
        simp [s3, hc]
      · have h1 : ¬ k = c := fun h => hck h.symm
        by_cases hlt : c < k
        · have : c < k + 1 := by omega
          simp [h1, hlt, this]
        · have : ¬ c < k + 1 := by omega
          simp [h1, hlt, this]
    · intro j hj
      rw [blockStep_dia, getD_ite, getD_setIfInBounds, hd j hj]
      by_cases hci : cv.1 = i
      · by_cases hjk : j = k
        · subst hjk
          simp [hci, s1, hj]
        · have h1 : ¬ k = j := fun h => hjk h.symm
          by_cases hlt : j < k
          · have : j < k + 1 := by omega
            simp [hci, h1, hlt, this]
          · have : ¬ j < k + 1 := by omega
            simp [hci, h1, hlt, this]
      · simp [hci]
    · intro j hj
      rw [blockStep_off, getD_ite, getD_setIfInBounds, ho j hj, ho k hk]
      by_cases hci : cv.1 = i
      · simp [hci]
      · by_cases hjk : j = k
        · subst hjk
          simp [hci, s2, hj]
        · have h1 : ¬ k = j := fun h => hjk h.symm
          by_cases hlt : j < k
          · have : j < k + 1 := by omega
            simp [hci, h1, hlt, this]
          · have : ¬ j < k + 1 := by omega
            simp [hci, h1, hlt, this]

theorem blockVisit_skip (B np i : Nat) (a : Acc K) (cv : Nat × Blk K) (h : np ≤ cv.1) : blockVisit B np i a cv = a := by
  unfold blockVisit; rw [if_pos h]

/-- **one stored active block**, as the block constructor treats it -/
theorem blockVisit_spec (B np i : Nat) (a : Acc K) (cv : Nat × Blk K) (h : cv.1 < np) (ha : a.Sized B) :
    (blockVisit B np i a cv).Sized B ∧
    (∀ c, c < B → (blockVisit B np i a cv).top.getD c 0 = a.top.getD c 0 + absK (cv.2.getD (0 * B + c) 0)) ∧
    (∀ j, j < B → (blockVisit B np i a cv).dia.getD j 0 = if cv.1 = i then cv.2.getD (j * B + 0) 0 else a.dia.getD j 0) ∧
    (∀ j, j < B → (blockVisit B np i a cv).off.getD j 0
        = if cv.1 ≠ i then a.off.getD j 0 + absK (cv.2.getD (j * B + 0) 0) else a.off.getD j 0) := by
  have hv : blockVisit B np i a cv = (List.range B).foldl (blockStep B i cv) a := by
    unfold blockVisit
    rw [if_neg (by omega)]
    rfl
  obtain ⟨hs, ht, hd, ho⟩ := blockFold_spec B i cv a ha B (Nat.le_refl _)
  rw [hv]
  refine ⟨hs, ?_, ?_, ?_⟩
  · intro c hc; rw [ht c hc, if_pos hc]
  · intro j hj
    rw [hd j hj]
    by_cases hci : cv.1 = i <;> simp [hci, hj]
  · intro j hj
    rw [ho j hj]
    by_cases hci : cv.1 = i <;> simp [hci, hj]

theorem blockVisit_fold_sized (B np i : Nat) (ent : Row (Blk K)) (a : Acc K) (ha : a.Sized B) :
    (ent.foldl (blockVisit B np i) a).Sized B := by
  induction ent generalizing a with
  | nil => exact ha
  | cons cv t ih =>
    simp only [List.foldl_cons]
    apply ih
    by_cases h : cv.1 < np
    · exact (blockVisit_spec B np i a cv h ha).1
    · rw [blockVisit_skip B np i a cv (by omega)]; exact ha

end blockvisit

section walk
variable {K : Type} [Field K] [LinearOrder K]

/-- **first pass on an expanded block row**: the accumulators after the walk are the block constructor's -/
theorem passLoop_x (B Nb ip : Nat) (hB : 0 < B) (g : Bool) :
    ∀ (ent pre : Row (Blk K)) (lo fuel cnt : Nat) (a : Acc K), Split B lo pre ent → ent.length < fuel → a.Sized B →
      (passLoop B (Nb * B) ip g fuel { ks := (xrows B (pre ++ ent)).map (geC lo), cnt := cnt, acc := a }).acc
        = ent.foldl (blockVisit B Nb ip) a := by
  intro ent
  induction ent with
  | nil =>
    intro pre lo fuel cnt a h hf _
    obtain ⟨f, rfl⟩ : ∃ f, fuel = f + 1 := ⟨fuel - 1, by simp at hf; omega⟩
    unfold passLoop
    rw [curCol_x_none B Nb lo pre [] h (by intro cv hcv; cases hcv)]
    rfl
  | cons cv rest ih =>
    intro pre lo fuel cnt a h hf ha
    obtain ⟨f, rfl⟩ : ∃ f, fuel = f + 1 := ⟨fuel - 1, by simp at hf; omega⟩
    have hsr := xrows_sorted B _ h.sorted
    by_cases hact : cv.1 < Nb
    · have hle : lo ≤ (cv.1 + 1) * B := by
        have := h.hent cv List.mem_cons_self
        rw [Nat.add_mul, Nat.one_mul]; omega
      have hmid : ∀ r ∈ xrows B (pre ++ cv :: rest), ∀ e ∈ r, lo ≤ e.1 → e.1 < (cv.1 + 1) * B → e.1 / B = cv.1 := by
        intro r hr e he h1 h2
        obtain ⟨r', _, rfl⟩ := List.mem_map.1 hr
        obtain ⟨x, hx, s, hs, rfl⟩ := h.mem_ge he h1
        have hxc := h.head_le x hx
        simp only at h2 ⊢
        rw [mul_add_div_eq hs]
        have : x.1 < cv.1 + 1 := by
          by_contra hcon
          have : (cv.1 + 1) * B ≤ x.1 * B := Nat.mul_le_mul_right _ (by omega)
          omega
        omega
      unfold passLoop
      rw [curCol_x_some B Nb lo hB pre cv rest h hact]
      simp only
      rw [advance_geC _ hsr lo _ hle, visit_eq B ip cv.1 lo _ _ hsr a]
      set L := (xrows B (pre ++ cv :: rest)).map
        (fun r => r.filter (fun e => decide (lo ≤ e.1 ∧ e.1 < (cv.1 + 1) * B))) with hL
      have hLlen : L.length ≤ B := by simp [hL, xrows]
      have hLnd : ∀ l ∈ L, (l.map (·.1)).Nodup := by
        intro l hl
        obtain ⟨r, hr, rfl⟩ := List.mem_map.1 hl
        exact K2.StrictCols.nodup ((hsr r hr).filter _)
      have hLblk : ∀ l ∈ L, ∀ e ∈ l, e.1 / B = cv.1 := by
        intro l hl e he
        obtain ⟨r, hr, rfl⟩ := List.mem_map.1 hl
        simp only [List.mem_filter, decide_eq_true_eq] at he
        exact hmid r hr e he.1 he.2.1 he.2.2
      obtain ⟨vt, vd, vo⟩ := visitFold_spec B ip cv.1 hB L hLlen hLnd hLblk a ha
      have hvs := visitFold_sized B ip cv.1 L a ha
      -- the piece of scalar row `j` inside the block, and its entries
      have hLj : ∀ j, j < B → L.getD j [] = (xrow B j (pre ++ cv :: rest)).filter
          (fun e => decide (lo ≤ e.1 ∧ e.1 < (cv.1 + 1) * B)) := by
        intro j hj
        simp [hL, xrows, List.getD_eq_getElem?_getD, hj]
      have hcond : ∀ c, c < B → lo ≤ cv.1 * B + c ∧ cv.1 * B + c < (cv.1 + 1) * B := by
        intro c hc
        have := h.hent cv List.mem_cons_self
        refine ⟨Nat.le_trans this (Nat.le_add_right _ _), ?_⟩
        rw [Nat.add_mul, Nat.one_mul]
        exact Nat.add_lt_add_left hc _
      have hget : ∀ j c, j < B → c < B → rowGet (L.getD j []) (cv.1 * B + c) = cv.2.getD (j * B + c) 0 := by
        intro j c hj hc
        rw [hLj j hj, rowGet_filter (fun x => decide (lo ≤ x ∧ x < (cv.1 + 1) * B))]
        simp only [hcond c hc, and_self, decide_true, if_true]
        rw [rowGet_xrow B j (pre ++ cv :: rest) (K2.StrictCols.nodup h.sorted) cv.1 c hc, find_split B lo pre cv rest h hB]
      have hmem : ∀ j, j < B → (cv.1 * B) ∈ (L.getD j []).map (·.1) := by
        intro j hj
        rw [hLj j hj]
        have he : (cv.1 * B + 0, cv.2.getD (j * B + 0) 0) ∈ xrow B j (pre ++ cv :: rest) :=
          mem_xrow.2 ⟨cv, by simp, 0, hB, rfl⟩
        have hc0 := hcond 0 hB
        apply List.mem_map.2
        refine ⟨(cv.1 * B + 0, cv.2.getD (j * B + 0) 0), ?_, by simp⟩
        simp only [List.mem_filter, decide_eq_true_eq]
        exact ⟨he, hc0⟩
      obtain ⟨bs, bt, bd, bo⟩ := blockVisit_spec B Nb ip a cv hact ha
      have hstep : visitFold B ip cv.1 L a = blockVisit B Nb ip a cv := by
        apply Acc.ext_getD hvs bs
        · intro c hc
          rw [vt c hc, bt c hc, hget 0 c hB hc]
        · intro j hj
          rw [vd j hj, bd j hj]
          by_cases hci : cv.1 = ip
          · have := hget j 0 hj hB
            rw [Nat.add_zero] at this
            rw [if_pos ⟨hci, hmem j hj⟩, if_pos hci, this]
          · rw [if_neg (fun hh => hci hh.1), if_neg hci]
        · intro j hj
          rw [vo j hj, bo j hj]
          have := hget j 0 hj hB
          rw [Nat.add_zero] at this
          rw [this]
      rw [hstep]
      have hnext := h.next
      have := ih (pre ++ [cv]) ((cv.1 + 1) * B) f (if g = true then cnt + 1 else cnt) (blockVisit B Nb ip a cv) hnext
        (by simp at hf; omega) bs
      simp only [List.append_assoc, List.singleton_append] at this
      rw [this]
      rfl
    · have hfin : ∀ x ∈ cv :: rest, Nb ≤ x.1 := by
        intro x hx
        have := h.head_le x hx
        omega
      unfold passLoop
      rw [curCol_x_none B Nb lo pre (cv :: rest) h hfin]
      simp only
      -- every remaining block is inactive: the block constructor skips them all
      have : ∀ (l : Row (Blk K)) (a : Acc K), (∀ x ∈ l, Nb ≤ x.1) → l.foldl (blockVisit B Nb ip) a = a := by
        intro l
        induction l with
        | nil => intro a _; rfl
        | cons x t iht =>
          intro a hx
          simp only [List.foldl_cons]
          rw [blockVisit_skip B Nb ip a x (hx x List.mem_cons_self)]
          exact iht a (fun y hy => hx y (List.mem_cons_of_mem _ hy))
      rw [this (cv :: rest) a hfin]

end walk

end Amgcl.CPRDrs

namespace Amgcl.CPRDrs
open Amgcl Amgcl.CPR Amgcl.Arr2

section assemble
variable {K : Type} [Field K] [LinearOrder K]

/-- the scalar and the block constructor apply the same criteria to the accumulators -/
theorem delta_eq_blockDelta (p : Params K) (ip i : Nat) (a : Acc K) : delta p (ip * p.B) i a = blockDelta p ip i a := by
  unfold delta blockDelta
  simp only [one_mul]
  by_cases h0 : 0 < i
  · by_cases h1 : a.dia.getD i 0 < p.epsDD * a.off.getD i 0
    · by_cases h2 : a.top.getD i 0 < p.epsPS * absK (a.dia.getD 0 0) <;>
        simp only [h0, h1, h2, if_true, if_false, true_and, true_or, or_true]
    · by_cases h2 : a.top.getD i 0 < p.epsPS * absK (a.dia.getD 0 0) <;>
        simp only [h0, h1, h2, if_true, if_false, true_and, or_true, or_self]
  · simp only [h0, if_false, false_and]

/-- first pass of the scalar constructor on block row `ip` of the expanded matrix = the block constructor's weights -/
theorem passRow0_expand (p : Params K) (Nb : Nat) (hB : 0 < p.B) (Ab : CRS (Blk K)) (hs : Ab.sortedb = true) (ip : Nat)
    (hipn : ip < Ab.nrows) (g : Bool) :
    (passRow0 (expand p.B Ab) p (Nb * p.B) ip g).w = blockW Ab p Nb ip := by
  have hsorted : K2.StrictCols (Ab.row ip) := (K2.sortedb_iff.1 hs) ip
  unfold passRow0 passRow blockW
  simp only
  rw [Acc.fill0_eq (Acc.zero_sized p.B), blockRows_expand p.B Ab ip hipn]
  have := passLoop_x p.B Nb ip hB g (Ab.row ip) [] 0 (remaining (xrows p.B (Ab.row ip)) + 1) 0 (Acc.zero p.B)
    (split_zero p.B _ hsorted) (by have := remaining_xrows p.B (Ab.row ip) hB; omega) (Acc.zero_sized p.B)
  simp only [List.nil_append, map_geC_zero] at this
  rw [this]
  congr 1
  funext i
  rw [delta_eq_blockDelta]
  rfl

theorem passRow0_act (A : CRS K) (p : Params K) (act N ip : Nat) (g : Bool) :
    passRow0 A { p with activeRows := act } N ip g = passRow0 A p N ip g := rfl

theorem spmv_rows_congr (α β : K) (A A' : CRS K) (x y : Vec K) (h : A.rows = A'.rows) :
    spmv α A x β y = spmv α A' x β y := by
  cases A; cases A'
  simp only at h
  subst h
  rfl

/-- **scalar input with `block_size = B` and `B × B` block input give the same object and the same action** -/
theorem scalarState_expand (Ab : CRS (Blk K)) (hs : Ab.sortedb = true) (p : Params K) (hB : 0 < p.B)
    (hact : p.activeRows ≤ Ab.nrows) :
    (scalarState (expand p.B Ab) { p with activeRows := p.activeRows * p.B }).np = (blockState Ab p).np ∧
    (scalarState (expand p.B Ab) { p with activeRows := p.activeRows * p.B }).Fpp.rows = (blockState Ab p).Fpp.rows ∧
    (scalarState (expand p.B Ab) { p with activeRows := p.activeRows * p.B }).App = (blockState Ab p).App ∧
    (scalarState (expand p.B Ab) { p with activeRows := p.activeRows * p.B }).AS = (blockState Ab p).AS ∧
    (∀ i, (scalarState (expand p.B Ab) { p with activeRows := p.activeRows * p.B }).Scatter.row i
        = (blockState Ab p).Scatter.row i) ∧
    ∀ (mkS : CRS K → Vec K → Vec K) (Pf : Vec K → Vec K) (f : Vec K),
      (scalarState (expand p.B Ab) { p with activeRows := p.activeRows * p.B }).apply mkS Pf f
        = (blockState Ab p).apply mkS Pf f := by
  set B := p.B with hBdef
  set act := p.activeRows with hactdef
  set ps : Params K := { p with activeRows := act * B } with hps
  set Nb := if act = 0 then Ab.nrows else act with hNb
  have hNbn : Nb ≤ Ab.nrows := by rw [hNb]; split <;> omega
  have hNs : (if ps.activeRows = 0 then (expand B Ab).nrows else ps.activeRows) = Nb * B := by
    show (if act * B = 0 then (expand B Ab).nrows else act * B) = Nb * B
    rw [expand_nrows, hNb]
    by_cases ha : act = 0
    · simp [ha]
    · have : act * B ≠ 0 := Nat.mul_ne_zero ha (by omega)
      simp [ha, this]
  have hq : Nb * B / B = Nb := Nat.mul_div_cancel _ hB
  have hpsB : ps.B = B := rfl
  -- the rows of the first pass
  have hrs : ∀ ip, ip < Nb →
      rowW (firstScalarPass (expand B Ab) ps (expand B Ab).nrows true (Acc.zero ps.B)).1 ip = blockW Ab p Nb ip := by
    intro ip hip
    rw [scalar_rs, hNs, hpsB, hq, rowW_map _ _ _ hip, hps, passRow0_act]
    exact passRow0_expand p Nb hB Ab hs ip (by omega) true
  have hnp : (scalarState (expand B Ab) ps).np = (blockState Ab p).np := by
    show (if ps.activeRows = 0 then (expand B Ab).nrows else ps.activeRows) / ps.B = (if act = 0 then Ab.nrows else act)
    rw [hNs, hpsB, hq]
  have hFpp : (scalarState (expand B Ab) ps).Fpp.rows = (blockState Ab p).Fpp.rows := by
    unfold scalarState blockState fppOf
    simp only
    apply ofFn_congr' (by rw [hNs, hpsB, hq])
    intro ip ha hb
    have hb' : ip < Nb := hb
    simp only [hpsB]
    apply List.map_congr_left
    intro i _
    rw [hrs ip hb']
  have hApp : (scalarState (expand B Ab) ps).App = (blockState Ab p).App := by
    unfold scalarState blockState
    simp only
    apply crs_ext
    · show (if ps.activeRows = 0 then (expand B Ab).nrows else ps.activeRows) / ps.B = (if act = 0 then Ab.nrows else act)
      rw [hNs, hpsB, hq]
    · apply ofFn_congr' (by rw [hNs, hpsB, hq])
      intro ip ha hb
      have hb' : ip < Nb := hb
      simp only [hNs, hpsB]
      rw [appRow_expand B Nb hB Ab hs ip (by omega), hrs ip hb']
  have hSc : ∀ i, (scalarState (expand B Ab) ps).Scatter.row i = (blockState Ab p).Scatter.row i := by
    intro i
    show (scatterOf ps.B (expand B Ab).nrows ((if ps.activeRows = 0 then (expand B Ab).nrows else ps.activeRows) / ps.B) : CRS K).row i
      = (scatterOf B ((if act = 0 then Ab.nrows else act) * B) (if act = 0 then Ab.nrows else act) : CRS K).row i
    rw [scatterOf_row, scatterOf_row, hNs, hpsB, hq, expand_nrows]
    have hle : Nb * B ≤ Ab.nrows * B := Nat.mul_le_mul_right _ hNbn
    by_cases h3 : i % B = 0 ∧ i / B < Nb
    · have : i < Nb * B := (Nat.div_lt_iff_lt_mul hB).1 h3.2
      have h4 : i < Ab.nrows * B := by omega
      rw [if_pos ⟨h4, h3⟩, if_pos ⟨this, h3⟩]
    · rw [if_neg (fun h => h3 h.2), if_neg (fun h => h3 h.2)]
  refine ⟨hnp, hFpp, hApp, rfl, hSc, ?_⟩
  intro mkS Pf f
  unfold State.apply
  simp only
  have hAS : (scalarState (expand B Ab) ps).AS = (blockState Ab p).AS := rfl
  rw [hnp, hAS, spmv_rows_congr 1 0 _ _ _ _ hFpp]
  exact spmvAddInto_rows _ _ _ _ hSc

/-- `partial_update` of the block-valued object with an unchanged (row-sorted) matrix is the identity on the object -/
theorem partialUpdateBlock_same (Ab : CRS (Blk K)) (hs : Ab.sortedb = true) (p : Params K) (hB : 0 < p.B) (upd : Bool)
    (hw : (p.weights.isEmpty || p.weights.size == (if p.activeRows = 0 then Ab.nrows else p.activeRows) * p.B) = true) :
    partialUpdateBlock (blockState Ab p) Ab p upd = some (blockState Ab p) := by
  unfold partialUpdateBlock
  rw [K2.sortRows_of_sorted Ab hs]
  cases upd with
  | false => rfl
  | true =>
    simp only [if_true]
    have hn : (blockState Ab p).n / p.B = Ab.nrows := by
      show Ab.nrows * p.B / p.B = Ab.nrows
      exact Nat.mul_div_cancel _ hB
    rw [hn, hw]
    rfl

end assemble

end Amgcl.CPRDrs

namespace Amgcl.CPRDrs
open Amgcl Amgcl.CPR

section outcome
variable {K : Type} [Field K] [LinearOrder K]

theorem initScalar_some {A : CRS K} {p : Params K} {st : State K} (h : initScalar A p = some st) :
    st = scalarState A p := by
  unfold initScalar at h
  simp only at h
  by_cases hc : (!(p.weights.isEmpty || p.weights.size == (if p.activeRows = 0 then A.nrows else p.activeRows))) = true
  · rw [if_pos hc] at h; cases h
  · rw [if_neg hc] at h; exact (Option.some.inj h).symm

theorem initBlock_some {A : CRS (Blk K)} {p : Params K} {st : State K} (h : initBlock A p = some st) :
    st = blockState A p := by
  unfold initBlock at h
  simp only at h
  by_cases hc : (!(p.weights.isEmpty || p.weights.size == (if p.activeRows = 0 then A.nrows else p.activeRows) * p.B)) = true
  · rw [if_pos hc] at h; cases h
  · rw [if_neg hc] at h; exact (Option.some.inj h).symm

theorem initBlock_cond {A : CRS (Blk K)} {p : Params K} {st : State K} (h : initBlock A p = some st) :
    (p.weights.isEmpty || p.weights.size == (if p.activeRows = 0 then A.nrows else p.activeRows) * p.B) = true := by
  unfold initBlock at h
  simp only at h
  by_cases hc : (!(p.weights.isEmpty || p.weights.size == (if p.activeRows = 0 then A.nrows else p.activeRows) * p.B)) = true
  · rw [if_pos hc] at h; cases h
  · cases hb : (p.weights.isEmpty || p.weights.size == (if p.activeRows = 0 then A.nrows else p.activeRows) * p.B) with
    | true => rfl
    | false => rw [hb] at hc; exact absurd rfl hc

theorem expand_active (Ab : CRS (Blk K)) (B act : Nat) (hB : 0 < B) :
    (if act * B = 0 then (expand B Ab).nrows else act * B) = (if act = 0 then Ab.nrows else act) * B := by
  rw [expand_nrows]
  by_cases ha : act = 0
  · simp [ha]
  · have : act * B ≠ 0 := Nat.mul_ne_zero ha (by omega)
    simp [ha, this]

/-- the `precondition` on `weights.size()` has the same outcome for both forms of the input -/
theorem init_isSome_expand (Ab : CRS (Blk K)) (p : Params K) (hB : 0 < p.B) :
    (initScalar (expand p.B Ab) { p with activeRows := p.activeRows * p.B }).isSome = (initBlock Ab p).isSome := by
  unfold initScalar initBlock
  simp only
  rw [expand_active Ab p.B p.activeRows hB]
  by_cases hc : (!(p.weights.isEmpty || p.weights.size == (if p.activeRows = 0 then Ab.nrows else p.activeRows) * p.B)) = true
  · rw [if_pos hc, if_pos hc]
  · rw [if_neg hc, if_neg hc]; rfl

end outcome

section absolute
variable {K : Type} [Field K] [LinearOrder K] [IsStrictOrderedRing K]

/-- `std::abs` on the value type is the absolute value -/
theorem absK_eq_abs (x : K) : absK x = |x| := by
  unfold absK
  split_ifs with h
  · exact (abs_of_neg h).symm
  · exact (abs_of_nonneg (not_lt.1 h)).symm

end absolute

end Amgcl.CPRDrs
