import Amgcl.Proofs.RSBucket
/-!
`ruge_stuben::connect`, l.306-318: the counting transposition of the strength flags, literally (count per column,
`scan_row_sizes`, fill with advancing pointers, `std::rotate`), produces for every column the list of the rows that
flag it, in increasing row order — whatever the uninitialised `S.col` contained (`transposeFlags_spec`,
`transposeFlags_indep`).
-/
namespace Amgcl
namespace RS

/-- the flagged stored entries `(row, column)` in storage order -/
def ents (G : SGraph) : List (Nat × Nat) :=
  (List.range G.size).flatMap fun i => (G.row i).filterMap fun cs => if cs.2 = true then some (i, cs.1) else none

/-- number of flagged entries in column `c` -/
def cntE (E : List (Nat × Nat)) (c : Nat) : Nat := (E.filter fun e => decide (e.2 = c)).length
/-- the rows flagging column `c`, in storage order -/
def bucketE (E : List (Nat × Nat)) (c : Nat) : List Nat := (E.filter fun e => decide (e.2 = c)).map (·.1)

theorem cntE_cons (e : Nat × Nat) (E : List (Nat × Nat)) (c : Nat) :
    cntE (e :: E) c = (if e.2 = c then 1 else 0) + cntE E c := by
  unfold cntE
  rw [List.filter_cons]
  by_cases h : e.2 = c
  · simp [h]; omega
  · simp [h]

theorem bucketE_cons (e : Nat × Nat) (E : List (Nat × Nat)) (c : Nat) :
    bucketE (e :: E) c = if e.2 = c then e.1 :: bucketE E c else bucketE E c := by
  unfold bucketE
  rw [List.filter_cons]
  by_cases h : e.2 = c
  · simp [h]
  · simp [h]

theorem bucketE_length (E : List (Nat × Nat)) (c : Nat) : (bucketE E c).length = cntE E c := by
  unfold bucketE cntE; rw [List.length_map]

theorem ents_col_lt {G : SGraph} (hG : G.WF) : ∀ e ∈ ents G, e.2 < G.size := by
  intro e he
  unfold ents at he
  rw [List.mem_flatMap] at he
  obtain ⟨i, _, he⟩ := he
  rw [List.mem_filterMap] at he
  obtain ⟨cs, hcs, h⟩ := he
  have hlt : cs.1 < G.size := by
    unfold SGraph.row at hcs
    by_cases hi : i < G.size
    · have : G.getD i [] = G[i] := by simp [Array.getD_eq_getD_getElem?, hi]
      rw [this] at hcs
      exact hG G[i] (by simp) cs hcs
    · have : G.getD i [] = [] := by
        simp only [Array.getD_eq_getD_getElem?]
        rw [Array.getElem?_eq_none (by omega)]; rfl
      rw [this] at hcs; cases hcs
  split at h
  · injection h with h; rw [← h]; exact hlt
  · cases h

/-! ### the loops as folds over the flagged entries -/

private theorem foldl_row {σ : Type} (f : σ → Nat × Nat → σ) (i : Nat) (r : List (Nat × Bool)) (s : σ) :
    r.foldl (fun s cs => if cs.2 = true then f s (i, cs.1) else s) s
      = (r.filterMap fun cs => if cs.2 = true then some (i, cs.1) else none).foldl f s := by
  induction r generalizing s with
  | nil => rfl
  | cons cs t ih =>
    rw [List.foldl_cons, List.filterMap_cons]
    by_cases h : cs.2 = true
    · rw [if_pos h, if_pos h]; simp only [List.foldl_cons]; exact ih _
    · rw [if_neg h, if_neg h]; exact ih _

theorem transCount_eq (G : SGraph) (ptr : Array Nat) :
    transCount G ptr = (ents G).foldl (fun p e => p.modify (e.2 + 1) (· + 1)) ptr := by
  unfold transCount ents
  rw [List.foldl_flatMap]
  congr 1
  funext p i
  exact foldl_row (fun p e => p.modify (e.2 + 1) (· + 1)) i (G.row i) p

/-- l.315 for one flagged entry -/
def fillE (st : Array Nat × Array Nat) (e : Nat × Nat) : Array Nat × Array Nat :=
  (st.1.modify e.2 (· + 1), st.2.setIfInBounds (st.1.getD e.2 0) e.1)

theorem transFill_eq (G : SGraph) (st : Array Nat × Array Nat) : transFill G st = (ents G).foldl fillE st := by
  unfold transFill ents
  rw [List.foldl_flatMap]
  congr 1
  funext p i
  exact foldl_row fillE i (G.row i) p

/-! ### counting -/

theorem count_fold (n : Nat) (E : List (Nat × Nat)) (hE : ∀ e ∈ E, e.2 < n) (p : Array Nat) (hp : p.size = n + 1) :
    (E.foldl (fun p e => p.modify (e.2 + 1) (· + 1)) p).size = n + 1 ∧
    ∀ k, (E.foldl (fun p e => p.modify (e.2 + 1) (· + 1)) p).getD k 0
      = p.getD k 0 + if k = 0 then 0 else cntE E (k - 1) := by
  induction E generalizing p with
  | nil => exact ⟨hp, fun k => by simp [cntE]⟩
  | cons e t ih =>
    rw [List.foldl_cons]
    have he := hE e (List.mem_cons_self ..)
    obtain ⟨h1, h2⟩ := ih (fun x hx => hE x (List.mem_cons_of_mem _ hx)) (p.modify (e.2 + 1) (· + 1))
      (by rw [Array.size_modify, hp])
    refine ⟨h1, fun k => ?_⟩
    rw [h2 k, getD_modify, hp, cntE_cons]
    by_cases hk : k = 0
    · subst hk
      have : ¬ (e.2 + 1 = 0 ∧ e.2 + 1 < n + 1) := by omega
      rw [if_neg this]; simp
    · rw [if_neg hk, if_neg hk]
      by_cases hek : e.2 + 1 = k
      · rw [if_pos ⟨hek, by omega⟩, if_pos (by omega)]; omega
      · have : ¬ (e.2 + 1 = k ∧ e.2 + 1 < n + 1) := fun h => hek h.1
        rw [if_neg this, if_neg (by omega)]; omega

/-! ### filling -/

theorem fill_fold (n : Nat) (E : List (Nat × Nat)) (hE : ∀ e ∈ E, e.2 < n) (p col : Array Nat) (hp : p.size = n + 1)
    (hsep : ∀ c c', c < c' → c' < n → p.getD c 0 + cntE E c ≤ p.getD c' 0)
    (hroom : ∀ c, c < n → p.getD c 0 + cntE E c ≤ col.size) :
    (E.foldl fillE (p, col)).1.size = n + 1 ∧ (E.foldl fillE (p, col)).2.size = col.size ∧
    (∀ c, c < n → (E.foldl fillE (p, col)).1.getD c 0 = p.getD c 0 + cntE E c) ∧
    (∀ c, c < n → ∀ j, j < cntE E c →
      (E.foldl fillE (p, col)).2.getD (p.getD c 0 + j) 0 = (bucketE E c).getD j 0) ∧
    (∀ q, (∀ c, c < n → ¬ (p.getD c 0 ≤ q ∧ q < p.getD c 0 + cntE E c)) →
      (E.foldl fillE (p, col)).2.getD q 0 = col.getD q 0) := by
  induction E generalizing p col with
  | nil =>
    refine ⟨hp, rfl, fun c _ => by simp [cntE], fun c _ j hj => ?_, fun q _ => rfl⟩
    simp [cntE] at hj
  | cons e t ih =>
    rw [List.foldl_cons]
    have he := hE e (List.mem_cons_self ..)
    have hp' : ∀ c, (p.modify e.2 (· + 1)).getD c 0 = p.getD c 0 + if e.2 = c then 1 else 0 := by
      intro c
      rw [getD_modify, hp]
      by_cases h : e.2 = c
      · rw [if_pos ⟨h, by omega⟩, if_pos h]
      · have : ¬ (e.2 = c ∧ e.2 < n + 1) := fun x => h x.1
        rw [if_neg this, if_neg h]; rfl
    have hc1 : 1 ≤ cntE (e :: t) e.2 := by rw [cntE_cons, if_pos rfl]; omega
    have hin : p.getD e.2 0 < col.size := by have := hroom e.2 he; omega
    obtain ⟨i1, i2, i3, i4, i5⟩ := ih (fun x hx => hE x (List.mem_cons_of_mem _ hx)) (p.modify e.2 (· + 1))
      (col.setIfInBounds (p.getD e.2 0) e.1) (by rw [Array.size_modify, hp])
      (by
        intro c c' hcc hc'
        have := hsep c c' hcc hc'
        rw [hp' c, hp' c']
        have hk := cntE_cons e t c
        omega)
      (by
        intro c hc
        have := hroom c hc
        rw [hp' c, Array.size_setIfInBounds]
        have hk := cntE_cons e t c
        omega)
    have hfill : (fillE (p, col) e) = (p.modify e.2 (· + 1), col.setIfInBounds (p.getD e.2 0) e.1) := rfl
    rw [hfill]
    refine ⟨i1, by rw [i2, Array.size_setIfInBounds], fun c hc => ?_, fun c hc j hj => ?_, fun q hq => ?_⟩
    · rw [i3 c hc, hp' c, cntE_cons]; split <;> omega
    · rw [cntE_cons] at hj
      rw [bucketE_cons]
      by_cases hce : e.2 = c
      · rw [if_pos hce]
        rw [if_pos hce] at hj
        by_cases hj0 : j = 0
        · subst hj0
          rw [Nat.add_zero, ← hce]
          rw [i5 (p.getD e.2 0)]
          · rw [getD_set, if_pos ⟨rfl, hin⟩]; rfl
          · intro c' hc'
            rw [hp' c']
            by_cases hc'e : e.2 = c'
            · rw [if_pos hc'e, ← hc'e]; omega
            · rw [if_neg hc'e]
              rcases Nat.lt_or_gt_of_ne hc'e with hlt | hgt
              · have := hsep e.2 c' hlt hc'; omega
              · have := hsep c' e.2 hgt he
                rw [cntE_cons, if_neg hc'e] at this; omega
        · have := i4 c hc (j - 1) (by omega)
          rw [hp' c, if_pos hce] at this
          have e1 : p.getD c 0 + 1 + (j - 1) = p.getD c 0 + j := by omega
          rw [e1] at this
          rw [this]
          obtain ⟨j', rfl⟩ : ∃ j', j = j' + 1 := ⟨j - 1, by omega⟩
          simp
      · rw [if_neg hce]
        rw [if_neg hce] at hj
        have := i4 c hc j (by omega)
        rw [hp' c, if_neg hce] at this
        exact this
    · rw [i5 q]
      · rw [getD_set]
        have : ¬ (p.getD e.2 0 = q ∧ p.getD e.2 0 < col.size) := by
          intro h
          exact hq e.2 he ⟨by omega, by omega⟩
        rw [if_neg this]
      · intro c hc hh
        apply hq c hc
        rw [hp' c] at hh
        rw [cntE_cons]
        split at hh <;> rename_i hce
        · rw [if_pos hce]; omega
        · rw [if_neg hce]; omega

/-! ### the whole transposition -/

theorem pre_cntE_eq (E : List (Nat × Nat)) (n : Nat) (hE : ∀ e ∈ E, e.2 < n) : pre (cntE E) n = E.length := by
  induction E with
  | nil =>
    have : ∀ k, pre (cntE []) k = 0 := by
      intro k; induction k with
      | zero => rfl
      | succ j ih => rw [pre_succ, ih]; rfl
    exact this n
  | cons e t ih =>
    have h := pre_inc (c := cntE t) (c' := cntE (e :: t)) (a := e.2)
      (by rw [cntE_cons, if_pos rfl]; omega) (fun k hk => by rw [cntE_cons, if_neg (fun x => hk x.symm)]; omega) n
    rw [h, ih (fun x hx => hE x (List.mem_cons_of_mem _ hx)), if_pos (hE e (List.mem_cons_self ..))]
    simp

/-- every position below the total lies in exactly one group -/
theorem exists_group (c : Nat → Nat) (n q : Nat) (hq : q < pre c n) : ∃ l, l < n ∧ pre c l ≤ q ∧ q < pre c l + c l := by
  induction n with
  | zero => simp at hq
  | succ m ih =>
    rw [pre_succ] at hq
    by_cases h : q < pre c m
    · obtain ⟨l, h1, h2, h3⟩ := ih h
      exact ⟨l, by omega, h2, h3⟩
    · exact ⟨m, by omega, by omega, hq⟩

theorem rotatePtr_getD (n : Nat) (p : Array Nat) (hp : p.size = n + 1) (k : Nat) :
    (rotatePtr n p).size = n + 1 ∧
    (rotatePtr n p).getD k 0 = if k = 0 then 0 else if k ≤ n then p.getD (k - 1) 0 else 0 := by
  unfold rotatePtr
  have hsz : ∀ x : Nat, (#[x] ++ p.extract 0 n).size = n + 1 := by
    intro x; simp [Array.size_append, hp]; omega
  refine ⟨by rw [Array.size_setIfInBounds, hsz], ?_⟩
  rw [getD_set, hsz]
  by_cases hk : k = 0
  · subst hk; rw [if_pos ⟨rfl, by omega⟩, if_pos rfl]
  · have : ¬ (0 = k ∧ 0 < n + 1) := by omega
    rw [if_neg this, if_neg hk]
    simp only [Array.getD_eq_getD_getElem?]
    by_cases hkn : k ≤ n
    · rw [if_pos hkn]
      rw [Array.getElem?_append_right (by simp; omega)]
      simp only [Array.size_singleton]
      rw [Array.getElem?_extract]
      have h1 : k - 1 < min n p.size - 0 := by rw [hp]; omega
      rw [if_pos h1]; simp
    · rw [if_neg hkn]
      rw [Array.getElem?_eq_none (by rw [hsz]; omega)]; rfl

/-- the transposed pattern computed by `connect`: pointers are the prefix sums of the column counts, the slices of
`S.col` are the buckets; nothing depends on the initial contents `gcol` of `S.col` -/
theorem transposeFlags_spec (gcol : Nat → Nat) (G : SGraph) (hG : G.WF) (ptr0 : Array Nat)
    (hp0 : ptr0.size = G.size + 1) (hz : ∀ k, ptr0.getD k 0 = 0) :
    (transposeFlags gcol G ptr0).1.size = G.size + 1 ∧
    (∀ k, k ≤ G.size → (transposeFlags gcol G ptr0).1.getD k 0 = pre (cntE (ents G)) k) ∧
    (transposeFlags gcol G ptr0).2.size = (ents G).length ∧
    (∀ c, c < G.size → ∀ j, j < cntE (ents G) c →
      (transposeFlags gcol G ptr0).2.getD (pre (cntE (ents G)) c + j) 0 = (bucketE (ents G) c).getD j 0) := by
  have hE := ents_col_lt hG
  obtain ⟨c1, c2⟩ := count_fold G.size (ents G) hE ptr0 hp0
  obtain ⟨pss, psv⟩ := partialSumNat_spec (transCount G ptr0)
  rw [transCount_eq] at pss psv
  have hptr1 : ∀ l, l ≤ G.size →
      (partialSumNat ((ents G).foldl (fun p e => p.modify (e.2 + 1) (· + 1)) ptr0)).getD l 0 = pre (cntE (ents G)) l := by
    intro l hl
    rw [psv l (by rw [c1]; omega), pre_shift _ (by rw [c2 0, hz]; rfl)]
    apply pre_congr
    intro k _
    show ((ents G).foldl (fun p e => p.modify (e.2 + 1) (· + 1)) ptr0).getD (k + 1) 0 = _
    rw [c2 (k + 1), hz, if_neg (by omega)]; simp
  have htot : pre (cntE (ents G)) G.size = (ents G).length := pre_cntE_eq (ents G) G.size hE
  have hcolsz : (Array.ofFn (n := (partialSumNat ((ents G).foldl (fun p e => p.modify (e.2 + 1) (· + 1)) ptr0)).getD G.size 0)
      fun j => gcol j.val).size = (ents G).length := by
    rw [Array.size_ofFn, hptr1 G.size (Nat.le_refl _), htot]
  obtain ⟨f1, f2, f3, f4, _⟩ := fill_fold G.size (ents G) hE
    (partialSumNat ((ents G).foldl (fun p e => p.modify (e.2 + 1) (· + 1)) ptr0))
    (Array.ofFn (n := (partialSumNat ((ents G).foldl (fun p e => p.modify (e.2 + 1) (· + 1)) ptr0)).getD G.size 0)
      fun j => gcol j.val)
    (by rw [pss, c1])
    (by
      intro c c' hcc hc'
      rw [hptr1 c (by omega), hptr1 c' (by omega)]
      exact pre_end_le _ hcc)
    (by
      intro c hc
      rw [hptr1 c (by omega), hcolsz, ← htot]
      exact pre_end_le _ hc)
  have hT : transposeFlags gcol G ptr0
      = (rotatePtr G.size ((ents G).foldl fillE
          (partialSumNat ((ents G).foldl (fun p e => p.modify (e.2 + 1) (· + 1)) ptr0),
           Array.ofFn (n := (partialSumNat ((ents G).foldl (fun p e => p.modify (e.2 + 1) (· + 1)) ptr0)).getD G.size 0)
             fun j => gcol j.val)).1,
         ((ents G).foldl fillE
          (partialSumNat ((ents G).foldl (fun p e => p.modify (e.2 + 1) (· + 1)) ptr0),
           Array.ofFn (n := (partialSumNat ((ents G).foldl (fun p e => p.modify (e.2 + 1) (· + 1)) ptr0)).getD G.size 0)
             fun j => gcol j.val)).2) := by
    unfold transposeFlags
    simp only
    rw [transFill_eq, transCount_eq]
  rw [hT]
  refine ⟨(rotatePtr_getD G.size _ f1 0).1, fun k hk => ?_, by rw [f2, hcolsz], fun c hc j hj => ?_⟩
  · rw [(rotatePtr_getD G.size _ f1 k).2]
    by_cases hk0 : k = 0
    · subst hk0; rw [if_pos rfl]; rfl
    · rw [if_neg hk0, if_pos hk, f3 (k - 1) (by omega), hptr1 (k - 1) (by omega)]
      have : k = (k - 1) + 1 := by omega
      rw [this, pre_succ]; simp
  · have := f4 c hc j hj
    rw [hptr1 c (by omega)] at this
    exact this

/-- row `c` of the transposed pattern, as `cfsplit` reads it, is the bucket of column `c` -/
theorem transposeFlags_spRow (gcol : Nat → Nat) (G : SGraph) (hG : G.WF) (ptr0 : Array Nat)
    (hp0 : ptr0.size = G.size + 1) (hz : ∀ k, ptr0.getD k 0 = 0) (c : Nat) (hc : c < G.size) :
    spRow (transposeFlags gcol G ptr0).1 (transposeFlags gcol G ptr0).2 c = bucketE (ents G) c := by
  obtain ⟨_, t2, _, t4⟩ := transposeFlags_spec gcol G hG ptr0 hp0 hz
  unfold spRow
  rw [t2 c (by omega), t2 (c + 1) (by omega), pre_succ]
  have e1 : pre (cntE (ents G)) c + cntE (ents G) c - pre (cntE (ents G)) c = cntE (ents G) c := by omega
  rw [e1]
  apply List.ext_getElem
  · simp [bucketE_length]
  · intro j h1 h2
    have hj : j < cntE (ents G) c := by simpa using h1
    simp only [List.getElem_map, List.getElem_range']
    have := t4 c hc j hj
    rw [Nat.one_mul]
    rw [this]
    simp [List.getD_eq_getElem?_getD, h2]

/-- every cell of `S.col` is written: the result does not depend on the uninitialised allocation -/
theorem transposeFlags_indep (gcol gcol' : Nat → Nat) (G : SGraph) (hG : G.WF) (ptr0 : Array Nat)
    (hp0 : ptr0.size = G.size + 1) (hz : ∀ k, ptr0.getD k 0 = 0) :
    transposeFlags gcol G ptr0 = transposeFlags gcol' G ptr0 := by
  obtain ⟨a1, a2, a3, a4⟩ := transposeFlags_spec gcol G hG ptr0 hp0 hz
  obtain ⟨b1, b2, b3, b4⟩ := transposeFlags_spec gcol' G hG ptr0 hp0 hz
  have hE := ents_col_lt hG
  apply Prod.ext
  · apply Array.ext
    · rw [a1, b1]
    · intro k h1 h2
      have hk : k ≤ G.size := by rw [a1] at h1; omega
      have ha := a2 k hk
      have hb := b2 k hk
      simp only [Array.getD_eq_getD_getElem?, Array.getElem?_eq_getElem h1, Array.getElem?_eq_getElem h2,
        Option.getD_some] at ha hb
      rw [ha, hb]
  · apply Array.ext
    · rw [a3, b3]
    · intro q h1 h2
      have hq : q < pre (cntE (ents G)) G.size := by rw [pre_cntE_eq _ _ hE, ← a3]; exact h1
      obtain ⟨l, hl, g1, g2⟩ := exists_group _ _ _ hq
      have ha := a4 l hl (q - pre (cntE (ents G)) l) (by omega)
      have hb := b4 l hl (q - pre (cntE (ents G)) l) (by omega)
      have e : pre (cntE (ents G)) l + (q - pre (cntE (ents G)) l) = q := by omega
      rw [e] at ha hb
      simp only [Array.getD_eq_getD_getElem?, Array.getElem?_eq_getElem h1, Array.getElem?_eq_getElem h2,
        Option.getD_some] at ha hb
      rw [ha, hb]

end RS
end Amgcl
