import Amgcl.Proofs.SkylineBuild
/-!
Basic facts about `skyline_lu::factorize()`: it only rewrites `L`, `U`, `D`; a vanishing pivot candidate ends the
factorisation in the `precondition` outcome and nothing else does.
-/
namespace Amgcl
namespace Skyline
variable {V R : Type} [Zero V] [Mul V] [Sub V]

/-- the fields that `factorize()` never writes -/
def SameFrame (S S' : Skyline V R) : Prop := S'.n = S.n ∧ S'.perm = S.perm ∧ S'.ptr = S.ptr ∧ S'.y = S.y

theorem SameFrame.refl (S : Skyline V R) : SameFrame S S := ⟨rfl, rfl, rfl, rfl⟩
theorem SameFrame.trans {S S' S'' : Skyline V R} (h1 : SameFrame S S') (h2 : SameFrame S' S'') : SameFrame S S'' :=
  ⟨h2.1.trans h1.1, h2.2.1.trans h1.2.1, h2.2.2.1.trans h1.2.2.1, h2.2.2.2.trans h1.2.2.2⟩

theorem sameFrame_factorStepLU (S : Skyline V R) (k : Nat) : SameFrame S (factorStepLU S k) := by
  unfold factorStepLU
  simp only
  split <;> exact ⟨rfl, rfl, rfl, rfl⟩

theorem factorStep_ok {isZero : V → Bool} {inv : V → V} {S S' : Skyline V R} {k : Nat}
    (h : factorStep isZero inv S k = .ok S') :
    isZero (pivotSum (factorStepLU S k) k) = false ∧
    S' = { factorStepLU S k with D := (factorStepLU S k).D.setIfInBounds (k + 1) (inv (pivotSum (factorStepLU S k) k)) } := by
  unfold factorStep at h
  simp only at h
  split at h
  · exact absurd h (by simp)
  · rename_i hz
    injection h with h
    exact ⟨by simpa using hz, h.symm⟩

theorem sameFrame_factorStep {isZero : V → Bool} {inv : V → V} {S S' : Skyline V R} {k : Nat}
    (h : factorStep isZero inv S k = .ok S') : SameFrame S S' := by
  obtain ⟨_, rfl⟩ := factorStep_ok h
  exact (sameFrame_factorStepLU S k).trans ⟨rfl, rfl, rfl, rfl⟩

theorem sameFrame_factorLoop {isZero : V → Bool} {inv : V → V} {S : Skyline V R} (m : Nat) :
    ∀ S', factorLoop isZero inv S m = .ok S' → SameFrame S S' := by
  induction m with
  | zero => intro S' h; injection h with h; subst h; exact SameFrame.refl S
  | succ m ih =>
    intro S' h
    unfold factorLoop at h
    split at h
    · exact absurd h (by simp)
    · rename_i S1 h1
      exact (ih S1 h1).trans (sameFrame_factorStep h)

/-- `factorize()` of an empty system returns at once (`if (n == 0) return;`) -/
theorem factorize_empty {isZero : V → Bool} {inv : V → V} {S : Skyline V R} (hn : S.n = 0) :
    factorize isZero inv S = .ok S := by
  unfold factorize; rw [if_pos hn]

/-- `factorize()` of a non-empty system -/
theorem factorize_of_pos {isZero : V → Bool} {inv : V → V} {S : Skyline V R} (hn : S.n ≠ 0) :
    factorize isZero inv S = if isZero (S.D.getD 0 0) then .precondition
      else factorLoop isZero inv { S with D := S.D.setIfInBounds 0 (inv (S.D.getD 0 0)) } (S.n - 1) := by
  unfold factorize; rw [if_neg hn]

theorem sameFrame_factorize {isZero : V → Bool} {inv : V → V} {S S' : Skyline V R}
    (h : factorize isZero inv S = .ok S') : SameFrame S S' := by
  by_cases hn : S.n = 0
  · rw [factorize_empty hn] at h; injection h with h; subst h; exact SameFrame.refl S
  rw [factorize_of_pos hn] at h
  split at h
  · exact absurd h (by simp)
  · have := sameFrame_factorLoop (S.n - 1) S' h
    exact ⟨this.1, this.2.1, this.2.2.1, this.2.2.2⟩

theorem wfProfile_of_sameFrame {S S' : Skyline V R} (h : SameFrame S S') (hw : S.WFProfile) : S'.WFProfile := by
  intro i hi
  have hP : ∀ k, S'.P k = S.P k := by intro k; unfold P; rw [h.2.2.1]
  rw [h.1] at hi
  rw [hP, hP]; exact hw i hi

/-- once failed, always failed -/
theorem factorLoop_precondition_mono {isZero : V → Bool} {inv : V → V} {S : Skyline V R} {m : Nat}
    (h : factorLoop isZero inv S m = .precondition) : ∀ d, factorLoop isZero inv S (m + d) = .precondition := by
  intro d
  induction d with
  | zero => exact h
  | succ d ih =>
    show factorLoop isZero inv S (m + d + 1) = _
    unfold factorLoop
    rw [ih]

/-- a vanishing pivot candidate at iteration `k` makes the whole factorisation fail -/
theorem factorLoop_zero_pivot {isZero : V → Bool} {inv : V → V} {S Sk : Skyline V R} {k m : Nat} (hk : k < m)
    (hrun : factorLoop isZero inv S k = .ok Sk) (hz : isZero (pivotSum (factorStepLU Sk k) k) = true) :
    factorLoop isZero inv S m = .precondition := by
  have h1 : factorLoop isZero inv S (k + 1) = .precondition := by
    unfold factorLoop
    rw [hrun]
    show factorStep isZero inv Sk k = _
    unfold factorStep
    simp only [hz, if_true]
  have := factorLoop_precondition_mono h1 (m - (k + 1))
  rwa [show k + 1 + (m - (k + 1)) = m by omega] at this

/-- a successful run passed the zero test at every iteration -/
theorem factorLoop_ok_pivots {isZero : V → Bool} {inv : V → V} {S : Skyline V R} (m : Nat) :
    ∀ S', factorLoop isZero inv S m = .ok S' →
      ∀ k, k < m → ∃ Sk, factorLoop isZero inv S k = .ok Sk ∧ isZero (pivotSum (factorStepLU Sk k) k) = false := by
  induction m with
  | zero => intro S' _ k hk; omega
  | succ m ih =>
    intro S' h k hk
    unfold factorLoop at h
    split at h
    · exact absurd h (by simp)
    · rename_i S1 h1
      by_cases hkm : k = m
      · subst hkm; exact ⟨S1, h1, (factorStep_ok h).1⟩
      · exact ih S1 h1 k (by omega)

end Skyline
end Amgcl
