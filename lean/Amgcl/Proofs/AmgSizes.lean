import Amgcl.Proofs.AmgLast
import Amgcl.Properties.C08b
import Amgcl.Properties.C04
import Amgcl.Model.Aggregation
/-!
End-to-end size argument: with the plain-aggregation coarsening MODEL of C04 plugged into the hierarchy MODEL of C03
the level sizes strictly decrease (so `do_init` terminates after at most `n` coarsening steps).
-/
namespace Amgcl
namespace Amg

section generic
variable {K S : Type} [Add K] [Mul K] [Zero K] [One K]

/-- `Chain.rows_decreasing` with an invariant of the level matrices carried along -/
theorem Chain.rows_decreasing_inv {pol : Policy K} {sm : Relax.Smoother K S} {allow : Bool} (Inv : CRS K → Prop)
    (hstep : ∀ idx A P0 R0, Inv A → pol.transfer idx A = some (P0, R0) →
      R0.nrows < A.nrows ∧ Inv (sortRows (pol.coarseOp A (sortRows P0) (sortRows R0))))
    (hop : ∀ A P R : CRS K, (pol.coarseOp A P R).nrows = R.nrows)
    {idx : Nat} {A : CRS K} {ls : List (Level K S)} (h : Chain pol sm allow idx A ls) (hA : Inv A) :
    (ls.map (·.rows)).Pairwise (· > ·) ∧ ∀ lv ∈ ls, lv.rows ≤ A.nrows := by
  induction h with
  | relaxLast _ A lv hl => simp [hl.hrows]
  | solveLast _ A lv hl => simp [hl.hrows]
  | cons idx A lv P R rest hl hne hc ih =>
    obtain ⟨P0, R0, ht, hP, hR⟩ := hl.htr
    obtain ⟨hlt0, hinv⟩ := hstep idx A P0 R0 hA ht
    rw [← hP, ← hR] at hinv
    obtain ⟨ih1, ih2⟩ := ih hinv
    have hlt : (sortRows (pol.coarseOp A P R)).nrows < A.nrows := by
      rw [sortRows_nrows, hop, hR, sortRows_nrows]; exact hlt0
    refine ⟨?_, ?_⟩
    · simp only [List.map_cons, List.pairwise_cons]
      refine ⟨?_, ih1⟩
      intro r hr
      obtain ⟨lv', hlv', rfl⟩ := List.mem_map.mp hr
      have := ih2 lv' hlv'
      rw [hl.hrows]; omega
    · intro lv' hlv'
      rcases List.mem_cons.mp hlv' with heq | hin
      · rw [heq, hl.hrows]
      · have := ih2 lv' hin; omega

end generic

section aggregation
variable {K : Type} [Semiring K] [LT K] [DecidableLT K]

/-- the coarsening policy of `coarsening::aggregation` built from the C04 model (`block_size = 1`):
`P = tentative_prolongation`, `R = transpose(P)`, `coarse_operator = scaled_galerkin(·, 1/over_interp)` -/
def aggregationPolicy (norm : K → K) (prm : AggrParams K) (nt : Nat) (s : K) : Policy K :=
  { transfer := fun _ A => match aggregationTransfer norm prm A with
      | .ok T => some (T.P, transpose id T.P)
      | _ => none,
    coarseOp := scaledGalerkin nt s }

omit [LT K] [DecidableLT K] in
theorem product_wf (nt : Nat) (X Y : CRS K) (hY : Y.WF) (sort : Bool) :
    (product nt X Y sort).nrows = X.nrows ∧ (product nt X Y sort).ncols = Y.ncols ∧ (product nt X Y sort).WF := by
  rw [C08.product_dispatch]; split
  · exact C08b.rmerge_wf X Y hY
  · exact C08.saad_wf X Y hY sort

omit [LT K] [DecidableLT K] in
/-- the marker SpGEMM pushes exactly one row per row of its left operand (no hypothesis needed) -/
theorem saad_nrows' (X Y : CRS K) (sort : Bool) : (spgemmSaad X Y sort).nrows = X.nrows := by
  rw [spgemmSaad_eq]
  show ((List.range X.nrows).foldl (saadOuterStep X Y sort (scanWidths (saadWidths X Y))) (#[], Array.replicate Y.ncols (-1))).1.size = X.nrows
  generalize X.nrows = n
  induction n with
  | zero => rfl
  | succ k ih => rw [foldl_range_succ]; simp [saadOuterStep, ih]

omit [LT K] [DecidableLT K] in
theorem product_nrows' (nt : Nat) (X Y : CRS K) (sort : Bool) : (product nt X Y sort).nrows = X.nrows := by
  rw [C08.product_dispatch]; split
  · simp [spgemmRmerge, CRS.nrows]
  · exact saad_nrows' X Y sort

omit [LT K] [DecidableLT K] in
theorem scaledGalerkin_nrows' (nt : Nat) (s : K) (A P R : CRS K) : (scaledGalerkin nt s A P R).nrows = R.nrows := by
  unfold scaledGalerkin galerkin
  have : ∀ M : CRS K, (scale M s).nrows = M.nrows := fun M => by simp [scale, CRS.nrows]
  rw [this, product_nrows']

omit [LT K] [DecidableLT K] in
theorem scale_wf (A : CRS K) (s : K) (hA : A.WF) :
    (scale A s).nrows = A.nrows ∧ (scale A s).ncols = A.ncols ∧ (scale A s).WF := by
  refine ⟨by simp [scale, CRS.nrows], rfl, ?_⟩
  intro r hr cv hcv
  simp only [scale, Array.toList_map, List.mem_map] at hr
  obtain ⟨r0, hr0, rfl⟩ := hr
  simp only [List.mem_map] at hcv
  obtain ⟨cv0, hcv0, rfl⟩ := hcv
  exact hA r0 hr0 cv0 hcv0

omit [LT K] [DecidableLT K] in
theorem scaledGalerkin_wf (nt : Nat) (s : K) (A P R : CRS K) (hP : P.WF) :
    (scaledGalerkin nt s A P R).nrows = R.nrows ∧ (scaledGalerkin nt s A P R).ncols = P.ncols ∧
      (scaledGalerkin nt s A P R).WF := by
  unfold scaledGalerkin galerkin
  obtain ⟨_, a2, a3⟩ := product_wf nt A P hP false
  obtain ⟨b1, b2, b3⟩ := product_wf nt R (product nt A P false) a3 false
  obtain ⟨c1, c2, c3⟩ := scale_wf (product nt R (product nt A P false) false) s b3
  exact ⟨by rw [c1, b1], by rw [c2, b2, a2], c3⟩

omit [Semiring K] [LT K] [DecidableLT K] in
theorem sortRows_wf' (A : CRS K) (hA : A.WF) : (sortRows A).WF := by
  intro r hr cv hcv
  simp only [sortRows, Array.toList_map, List.mem_map] at hr
  obtain ⟨r0, hr0, rfl⟩ := hr
  exact hA r0 hr0 cv ((sortRow_perm r0).mem_iff.mp hcv)

omit [Semiring K] [LT K] [DecidableLT K] in
/-- the tentative prolongation of a valid aggregation is well formed: one unit entry per aggregated row, in range -/
theorem tentativeProlongation_shape [One K] (n count : Nat) (id : Array Int)
    (hid : ∀ i, i < n → id.getD i aggrRemoved < 0 ∨ id.getD i aggrRemoved < (count : Int)) :
    (tentativeProlongation (K := K) n count id).nrows = n ∧ (tentativeProlongation (K := K) n count id).ncols = count ∧
      (tentativeProlongation (K := K) n count id).WF := by
  refine ⟨by simp [tentativeProlongation, CRS.nrows], rfl, ?_⟩
  intro r hr cv hcv
  simp only [tentativeProlongation, Array.toList_ofFn, List.mem_ofFn] at hr
  obtain ⟨i, rfl⟩ := hr
  split at hcv
  · next hge =>
    simp only [List.mem_singleton] at hcv
    subst hcv
    show (id.getD i.val aggrRemoved).toNat < count
    rcases hid i.val i.isLt with h | h
    · omega
    · omega
  · cases hcv

/-- the hierarchy-size step for plain aggregation with `block_size = 1` -/
theorem aggregation_step (norm : K → K) (prm : AggrParams K) (hb : prm.blockSize = 1) (hm : prm.minAggregate ≤ 1)
    (nt : Nat) (s : K) (idx : Nat) (A P0 R0 : CRS K) (hA : A.WF ∧ A.ncols = A.nrows)
    (ht : (aggregationPolicy norm prm nt s).transfer idx A = some (P0, R0)) :
    R0.nrows < A.nrows ∧
      ((sortRows ((aggregationPolicy norm prm nt s).coarseOp A (sortRows P0) (sortRows R0))).WF ∧
        (sortRows ((aggregationPolicy norm prm nt s).coarseOp A (sortRows P0) (sortRows R0))).ncols =
          (sortRows ((aggregationPolicy norm prm nt s).coarseOp A (sortRows P0) (sortRows R0))).nrows) := by
  simp only [aggregationPolicy] at ht ⊢
  unfold aggregationTransfer at ht
  rw [hb, C04.pointwise_block_one norm prm.epsSq prm.minAggregate hm A] at ht
  cases hagg : plainAggregates prm.epsSq A with
  | emptyLevel => rw [hagg] at ht; simp at ht
  | precondition => rw [hagg] at ht; simp at ht
  | ok agg =>
    rw [hagg] at ht
    simp only [Option.some.injEq, Prod.mk.injEq] at ht
    obtain ⟨hP0, hR0⟩ := ht
    have hcount := C04.count_lt_n prm.epsSq A hA.1 hA.2 agg hagg
    obtain ⟨_, _, hsize, hids, _⟩ := C04.plain_aggregates_partition prm.epsSq A agg hagg
    have hidr : ∀ i, i < A.nrows → agg.id.getD i aggrRemoved < 0 ∨ agg.id.getD i aggrRemoved < (agg.count : Int) := by
      intro i hi
      have hin : i < agg.id.size := by rw [hsize]; exact hi
      have e : agg.id.getD i aggrRemoved = agg.id.getD i 0 := by simp [Array.getD, hin]
      rw [e]
      obtain ⟨h1, h2⟩ := hids i hi
      by_cases hany : (agg.strong.getD i []).any id = true
      · exact Or.inr (h2 hany).2
      · have := h1 (by simpa using hany); left; omega
    obtain ⟨p1, p2, p3⟩ := tentativeProlongation_shape (K := K) A.nrows agg.count agg.id hidr
    rw [← hP0] at *
    have hRn : R0.nrows = agg.count := by rw [← hR0, transpose_nrows, p2]
    refine ⟨by rw [hRn]; exact hcount, ?_⟩
    obtain ⟨g1, g2, g3⟩ := scaledGalerkin_wf nt s A (sortRows (tentativeProlongation A.nrows agg.count agg.id))
      (sortRows R0) (sortRows_wf' _ p3)
    refine ⟨sortRows_wf' _ g3, ?_⟩
    rw [sortRows_ncols, sortRows_nrows, g1, g2, sortRows_ncols, sortRows_nrows, p2, hRn]

end aggregation

end Amg
end Amgcl
