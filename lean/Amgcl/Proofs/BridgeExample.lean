import Amgcl.Proofs.BridgeAnyCoarse
/-!
# Bridge, part 8: a concrete hierarchy built by `Amg.build` — non-vacuity of the assembled statements

The 4-point 1D Laplacian over `ℚ`, coarsened by the C04 plain-aggregation model (`Amg.aggregationPolicy`, `eps_strong = 0`,
`over_interp = 1`), `coarse_enough = 1`, `direct_coarse = true`: `Amg.build` produces three levels `4 → 2 → 1`
(aggregates `{0,1},{2,3}` then `{0,1}`), the last one a direct solve of the `1 × 1` system `[[2]]`.
Everything that is a hypothesis of `build_apply_spd_contracting` is established here for this input; the facts about the
run of `build` itself by kernel evaluation (`decide +kernel`).
-/
set_option linter.unusedSectionVars false
namespace Amgcl.Energy.Bridge.Ex
open Amgcl Amgcl.Amg Amgcl.Relax Matrix Finset Amgcl.Energy

/-- `tridiag(-1, 2, -1)`, `n = 4` -/
def A4c : CRS ℚ := ⟨4, #[[(0, 2), (1, -1)], [(0, -1), (1, 2), (2, -1)], [(1, -1), (2, 2), (3, -1)], [(2, -1), (3, 2)]]⟩

/-- plain aggregation, `eps_strong = 0`, `block_size = 1` -/
def aprm : AggrParams ℚ := { epsSq := 0, blockSize := 1, minAggregate := 0 }

/-- `coarsening::aggregation` with `over_interp = 1` (serial SpGEMM) -/
def pol : Policy ℚ := aggregationPolicy (fun x => x) aprm 1 1

/-- W-cycle, two pre- and two post-sweeps, two cycles per application -/
def prm : Params :=
  { coarse_enough := 1, direct_coarse := true, max_levels := 10, npre := 2, npost := 2, ncycle := 2, pre_cycles := 2,
    allow_rebuild := false }

/-- a direct solver for `1 × 1` systems: its constructor succeeds iff the pivot is non-zero -/
def directOk (Ad : CRS ℚ) : Bool := Ad.nrows == 1 && decide (Ad.get 0 0 ≠ 0)
def direct (Ad : CRS ℚ) (f : Vec ℚ) : Vec ℚ := #[f.getD 0 0 / Ad.get 0 0]

theorem direct_exact (Ad : CRS ℚ) (h : directOk Ad = true) : DirectExact direct Ad := by
  simp only [directOk, Bool.and_eq_true, beq_iff_eq, decide_eq_true_eq] at h
  obtain ⟨h1, h0⟩ := h
  intro f _
  rw [h1]
  refine ⟨rfl, fun r hr => ?_⟩
  have : r = 0 := by omega
  subst this
  simp [direct]
  field_simp

/-- the prolongation of the first coarsening step: aggregates `{0,1}`, `{2,3}` -/
def P4c : CRS ℚ := ⟨2, #[[(0, 1)], [(0, 1)], [(1, 1)], [(1, 1)]]⟩

theorem P4c_wf : P4c.WF := by decide

theorem mat_P4c : matOf P4c 4 2 = Energy.Example.P4 := by
  ext i j
  fin_cases i <;> fin_cases j <;> simp [matOf, CRS.get, CRS.row, rowGet, P4c, Energy.Example.P4]

theorem A4c_wf : A4c.WF := by decide
theorem A4c_sq : A4c.ncols = A4c.nrows := by decide
theorem A4c_nodup : A4c.nodupb = true := by decide

theorem mat_A4c : matOf A4c 4 4 = Energy.Example.A4 := by
  ext i j
  fin_cases i <;> fin_cases j <;> simp [matOf, CRS.get, CRS.row, rowGet, A4c, Energy.Example.A4]

theorem A4c_spd : IsSPD (matOf A4c A4c.nrows A4c.nrows) := by
  show IsSPD (matOf A4c 4 4)
  rw [mat_A4c]; exact Energy.Example.spd_A4

theorem policyOK : PolicyOK pol := policyOK_aggregation _ aprm rfl (by decide) 1
theorem policyNodup : PolicyNodup pol := policyNodup_aggregation _ aprm rfl (by decide) 1 1
theorem policyInjective : PolicyInjective pol := policyInjective_aggregation _ aprm rfl (by decide) 1 1

/-- `std::abs` on `ℚ` -/
def qabs (x : ℚ) : ℚ := if x < 0 then -x else x

theorem qabs_sq (v : ℚ) : qabs v * qabs v = v * v := by
  unfold qabs; split <;> ring

/-- the three smoothers of the bridge: Gauss–Seidel, damped Jacobi `ω = 18/25`, SPAI-0 -/
def smGS : RealSmoother ℚ := .gaussSeidel
def smJac : RealSmoother ℚ := .dampedJacobi (18 / 25)
def smSpai : RealSmoother ℚ := .spai0 qabs

/-- the model constructor succeeds on this input … -/
theorem build_isOk_gs : (build prm pol smGS.model directOk A4c).toBool = true := by decide +kernel
theorem build_isOk_jac : (build prm pol smJac.model directOk A4c).toBool = true := by decide +kernel
theorem build_isOk_spai : (build prm pol smSpai.model directOk A4c).toBool = true := by decide +kernel

/-- … and produces three levels of sizes 4, 2, 1, the last one with a direct solver for `[[2]]` (Gauss–Seidel) -/
theorem build_shape : (match build prm pol smGS.model directOk A4c with
    | .ok ls => ls.map (fun lv => (lv.rows, lv.solve.map CRS.rows))
    | .error _ => []) = [(4, none), (2, none), (1, some #[[(0, 2)]])] := by decide +kernel

/-- decidable equality of rational CRS matrices (for kernel evaluation of the statements below) -/
instance : DecidableEq (CRS ℚ) := fun a b =>
  decidable_of_iff (a.ncols = b.ncols ∧ a.rows = b.rows) (by cases a; cases b; simp)

/-- the level matrices are the 1D Laplacians of sizes 4, 2 and `[[2]]` (all three smoothers) -/
theorem build_levels_gs : (match build prm pol smGS.model directOk A4c with
    | .ok ls => ls.map levelMatrix
    | .error _ => []) = [some A4c, some Bridge.Example.A2c, some Bridge.Example.A1c] := by decide +kernel
theorem build_levels_jac : (match build prm pol smJac.model directOk A4c with
    | .ok ls => ls.map levelMatrix
    | .error _ => []) = [some A4c, some Bridge.Example.A2c, some Bridge.Example.A1c] := by decide +kernel
theorem build_levels_spai : (match build prm pol smSpai.model directOk A4c with
    | .ok ls => ls.map levelMatrix
    | .error _ => []) = [some A4c, some Bridge.Example.A2c, some Bridge.Example.A1c] := by decide +kernel

/-- a property of the level matrices follows from the list of level matrices -/
theorem levelMatrices_of_map {S : Type} (Q : ∀ n : ℕ, Matrix (Fin n) (Fin n) ℚ → Prop) (ls : List (Level ℚ S))
    (Ms : List (CRS ℚ)) (h : ls.map levelMatrix = Ms.map some)
    (hQ : ∀ M ∈ Ms, Q M.nrows (matOf M M.nrows M.nrows)) : LevelMatrices Q ls := by
  intro lv hlv M hM n hn
  subst hn
  have : some M ∈ ls.map levelMatrix := hM ▸ List.mem_map_of_mem hlv
  rw [h, List.mem_map] at this
  obtain ⟨M', hM', he⟩ := this
  cases he
  exact hQ M hM'

/-- the three level matrices are weakly diagonally dominant -/
theorem levels_wdd : ∀ M ∈ [A4c, Bridge.Example.A2c, Bridge.Example.A1c],
    QWeakDD M.nrows (matOf M M.nrows M.nrows) := by
  intro M hM
  simp only [List.mem_cons, List.mem_nil_iff, or_false] at hM
  rcases hM with rfl | rfl | rfl
  · show WeakDD (matOf A4c 4 4); rw [mat_A4c]; exact Energy.Example.wdd_A4
  · show WeakDD (matOf Bridge.Example.A2c 2 2); rw [Bridge.Example.mat_A2c]; exact Energy.Example.wdd_A2
  · show WeakDD (matOf Bridge.Example.A1c 1 1); rw [Bridge.Example.mat_A1c]; exact Energy.Example.wdd_A1

/-! ### the same input with `over_interp = 3/2` (rescaled Galerkin operator, `s = 2/3`) -/

/-- `coarsening::aggregation` with `over_interp = 3/2` -/
def polS : Policy ℚ := aggregationPolicy (fun x => x) aprm 1 (2 / 3)

theorem policyShapeS : PolicyShape polS := policyShape_aggregation _ aprm rfl (by decide) 1 (2 / 3)

/-- Boolean form of `AdmDiag` -/
def admDiagB (M : CRS ℚ) : Bool := diagOnceb M && (List.range M.nrows).all (fun i => decide (M.get i i ≠ 0))

theorem admDiag_of_b (M : CRS ℚ) (h : admDiagB M = true) : AdmDiag M := by
  simp only [admDiagB, Bool.and_eq_true, List.all_eq_true, List.mem_range, decide_eq_true_eq] at h
  exact ⟨h.1, h.2⟩

/-- Boolean form of the hypothesis `hadm` of `built_realizes` for Gauss–Seidel / Jacobi -/
def levelsAdmB {S : Type} (ls : List (Level ℚ S)) : Bool :=
  ls.all (fun lv => lv.solve.isSome || match lv.A with | some M => admDiagB M | none => true)

theorem hadm_of_b {S : Type} (ls : List (Level ℚ S)) (h : levelsAdmB ls = true) :
    ∀ lv ∈ ls, lv.solve = none → ∀ M, lv.A = some M → AdmDiag M := by
  intro lv hlv hs M hM
  simp only [levelsAdmB, List.all_eq_true] at h
  have := h lv hlv
  rw [hs, hM] at this
  exact admDiag_of_b M (by simpa using this)

/-- the constructor succeeds, three levels, all smoothed level matrices admissible (kernel evaluation) -/
theorem buildS_ok : (match build prm polS smGS.model directOk A4c with
    | .ok ls => ls.length == 3 && levelsAdmB ls
    | .error _ => false) = true := by decide +kernel

end Amgcl.Energy.Bridge.Ex
