import Amgcl.Proofs.KrylovGMRESOuter
import Amgcl.Proofs.KrylovFGMRESRestart
import Amgcl.Proofs.KrylovFGMRESExample
import Amgcl.Proofs.KrylovGMRESExample
import Mathlib.Tactic.FinCases
import Mathlib.Tactic.NormNum
import Mathlib.Tactic.Linarith
/-!
# Concrete systems for the non-vacuity examples of `Properties/C05c.lean`

**Breakdown** (`ExB`): `A = [[3,0,1],[4,5,2],[0,0,3]]` (non-symmetric, `det = 45`), identity preconditioner, right side,
`f = (25,0,0)`, `x₀ = 0`, `M = 3`, the executable `rsqrt`.  `v₀ = e₁`, `A v₀ = (3,4,0)`, `v₁ = e₂`, `A v₁ = (0,5,0) ∈ span{v₀,v₁}`:
the Arnoldi process breaks down in pass `1` (`H̃(2,1) = 0`), the inner loop ends after `2` passes, and the iterate is the
exact solution `(25/3, −20/3, 0)`.  `rsqrt` is exact on the numbers met (`625, 16, 0, 25/16, 1`).

**Restarts** (`ExR`): `A = [[−8,−6],[6,−8]]` (`10 ×` a rotation), identity preconditioner, right side, `f = (5,0)`, `x₀ = 0`,
GMRES(1), `maxiter = 2`, `tol = 1/10` (threshold `1/2`).  Two restart cycles, `‖r‖ = 5, 3, 9/5`; `rsqrt` is exact on every
number the two cycles apply it to (`25, 9`; `⟨w,w⟩ = 36`; rotation argument `25/16` twice).
-/
namespace Amgcl.Krylov.ExB
open Amgcl Amgcl.Solver Amgcl.Solver.GMRES Amgcl.Krylov Amgcl.Energy.Bridge Amgcl.Krylov.ExG Matrix

def Ab : CRS ℚ := ⟨3, #[[(0, 3), (2, 1)], [(0, 4), (1, 5), (2, 2)], [(2, 3)]]⟩
def prmb : GMRES.Params ℚ := { maxiter := 5, tol := 1/100, abstol := 0, nsSearch := false, M := 3, pside := .right }
/-- the state at the first `break` test -/
def stb : GMRES.St ℚ := GMRES.init prmb stdIp Amgcl.rsqrt Ab Pg (GMRES.Work.fresh 3) fg xg

theorem hAb : Ab.WF := by decide
theorem hstb : CycleStart .right Amgcl.rsqrt Ab Pg fg stb :=
  cycleStart_head .right Amgcl.rsqrt Ab Pg fg _ (by decide +kernel)
theorem hrootsb : RootsExact .right Amgcl.rsqrt Ab Pg stb 2 := ⟨by decide +kernel, by decide +kernel, by decide +kernel⟩
/-- no breakdown in pass `0` … -/
theorem hnbb : ∀ i, i < 1 → arnoldiNorm .right Amgcl.rsqrt Ab Pg stb i ≠ 0 := by decide +kernel
/-- … breakdown in pass `1` -/
theorem hbb : arnoldiNorm .right Amgcl.rsqrt Ab Pg stb 1 = 0 := by decide +kernel

theorem matAb : matOf Ab 3 3 = !![3, 0, 1; 4, 5, 2; 0, 0, 3] := by
  ext i j; fin_cases i <;> fin_cases j <;> decide +kernel

/-- the (right-)preconditioned operator `A · id` is injective -/
theorem hinjb : Function.Injective (Tl .right (matOf Ab 3 3) (LinearMap.id : (Fin 3 → ℚ) →ₗ[ℚ] (Fin 3 → ℚ))) := by
  intro u v h
  have h' : matOf Ab 3 3 *ᵥ u = matOf Ab 3 3 *ᵥ v := h
  rw [matAb] at h'
  have h0 := congrFun h' 0
  have h1 := congrFun h' 1
  have h2 := congrFun h' 2
  simp [mulVec, dotProduct, Fin.sum_univ_three] at h0 h1 h2
  funext i
  fin_cases i
  · show u 0 = v 0; linarith
  · show u 1 = v 1; linarith
  · show u 2 = v 2; linarith

/-! FGMRES on the same system with the NON-LINEAR preconditioner function `Pc u = (u₀³,u₁³,u₂³)` of
`KrylovFGMRESExample.lean` (it fixes `e₁, e₂`, so `z₀ = e₁`, `z₁ = e₂` and the numbers are the same) -/
open Amgcl.Krylov.ExF in
def prmfb : FGMRES.Params ℚ := { maxiter := 5, tol := 1/100, abstol := 0, nsSearch := false, M := 3 }
def stfb : FGMRES.St ℚ := FGMRES.init stdIp Amgcl.rsqrt Ab (FGMRES.Work.fresh 3) fg xg

open Amgcl.Krylov.ExF in
theorem hstfb : FCycleStart Amgcl.rsqrt Ab fg stfb := fcycleStart_head Amgcl.rsqrt Ab fg _ (by decide +kernel)
theorem hxfb : stfb.x.size = 3 := by decide +kernel
open Amgcl.Krylov.ExF in
theorem hrootsfb : RootsExact .right Amgcl.rsqrt Ab Pc (toG stfb) 2 :=
  ⟨by decide +kernel, by decide +kernel, by decide +kernel⟩
open Amgcl.Krylov.ExF in
theorem hnbfb : ∀ i, i < 1 → arnoldiNorm .right Amgcl.rsqrt Ab Pc (toG stfb) i ≠ 0 := by decide +kernel
open Amgcl.Krylov.ExF in
theorem hbfb : arnoldiNorm .right Amgcl.rsqrt Ab Pc (toG stfb) 1 = 0 := by decide +kernel

/-- `A` is injective -/
theorem hAinjb : ∀ u : Fin 3 → ℚ, matOf Ab 3 3 *ᵥ u = 0 → u = 0 := by
  intro u h
  have : matOf Ab 3 3 *ᵥ u = matOf Ab 3 3 *ᵥ 0 := by rw [h, mulVec_zero]
  exact hinjb this

open Amgcl.Krylov.ExF in
/-- `z₀ = e₁`, `z₁ = e₂` are linearly independent -/
theorem hindepb : ∀ c : ℕ → ℚ,
    ∑ i ∈ Finset.range 2, c i • vecOf 3 ((fInnerPass Amgcl.rsqrt Ab Pc stfb 2).w.z.get i) = 0 →
    ∀ i, i < 2 → c i = 0 := by
  intro c h i hi
  have hz0 : (fInnerPass Amgcl.rsqrt Ab Pc stfb 2).w.z.get 0 = #[1, 0, 0] := by decide +kernel
  have hz1 : (fInnerPass Amgcl.rsqrt Ab Pc stfb 2).w.z.get 1 = #[0, 1, 0] := by decide +kernel
  rw [Finset.sum_range_succ, Finset.sum_range_one, hz0, hz1] at h
  have h0 := congrFun h 0
  have h1 := congrFun h 1
  simp [vecOf] at h0 h1
  match i, hi with
  | 0, _ => exact h0
  | 1, _ => exact h1

end Amgcl.Krylov.ExB

namespace Amgcl.Krylov.ExR
open Amgcl Amgcl.Solver Amgcl.Solver.GMRES Amgcl.Krylov Amgcl.Energy.Bridge Amgcl.Krylov.ExG

def Ar : CRS ℚ := ⟨2, #[[(0, -8), (1, -6)], [(0, 6), (1, -8)]]⟩
def fr : Vec ℚ := #[5, 0]
def xr : Vec ℚ := #[0, 0]
def prmr : GMRES.Params ℚ := { maxiter := 2, tol := 1/10, abstol := 0, nsSearch := false, M := 1, pside := .right }
def str : GMRES.St ℚ := GMRES.init prmr stdIp Amgcl.rsqrt Ar Pg (GMRES.Work.fresh 2) fr xr

theorem hAr : Ar.WF := by decide
theorem hPr : PDenotes 2 Pg LinearMap.id := pDenotes_copy 2
theorem hpr : prologueA prmr.nsSearch stdIp Amgcl.rsqrt 0 fr = .go 5 :=
  (prologueA_go _ _ _ _ _ _).mpr (Or.inr (by decide +kernel))
theorem hepsr : GMRES.epsTol prmr 5 = 1/2 := by decide +kernel
/-- the stopping test fails at the restart states `0` and `1` -/
theorem hstopr : ∀ i, i < 2 → stop prmr.maxiter (1/2) (outerPass prmr Amgcl.rsqrt Ar Pg fr (1/2) str i) = false := by
  decide +kernel
/-- `rsqrt` is exact on every number the two restart cycles apply it to -/
theorem hrootsr : ∀ i, i < 2 → RootsExact .right Amgcl.rsqrt Ar Pg (outerPass prmr Amgcl.rsqrt Ar Pg fr (1/2) str i)
    (inner prmr stdIp Amgcl.rsqrt Ar Pg (1/2) (outerPass prmr Amgcl.rsqrt Ar Pg fr (1/2) str i)).j := by
  intro i hi
  have hj : ∀ i, i < 2 → (inner prmr stdIp Amgcl.rsqrt Ar Pg (1/2) (outerPass prmr Amgcl.rsqrt Ar Pg fr (1/2) str i)).j = 1 := by
    decide +kernel
  rw [hj i hi]
  match i, hi with
  | 0, _ => exact ⟨by decide +kernel, by decide +kernel, by decide +kernel⟩
  | 1, _ => exact ⟨by decide +kernel, by decide +kernel, by decide +kernel⟩

/-! FGMRES(1) on the same system; the preconditioner function returns the first two entries of its argument (the identity on
vectors of length 2, and of length 2 on every argument, as the FGMRES theorems require): the same numbers -/
def Pf : Vec ℚ → Vec ℚ := fun u => Array.ofFn (n := 2) (fun i => u.getD i.val 0)
def prmfr : FGMRES.Params ℚ := { maxiter := 2, tol := 1/10, abstol := 0, nsSearch := false, M := 1 }
def stfr : FGMRES.St ℚ := FGMRES.init stdIp Amgcl.rsqrt Ar (FGMRES.Work.fresh 2) fr xr

theorem hPfsz : ∀ u : Vec ℚ, (Pf u).size = 2 := fun u => by simp [Pf]
theorem hpfr : prologueA prmfr.nsSearch stdIp Amgcl.rsqrt 0 fr = .go 5 :=
  (prologueA_go _ _ _ _ _ _).mpr (Or.inr (by decide +kernel))
theorem hepsfr : FGMRES.epsTol prmfr 5 = 1/2 := by decide +kernel
theorem hstopfr : ∀ i, i < 2 →
    FGMRES.stop prmfr.maxiter (1/2) (fouterPass prmfr Amgcl.rsqrt Ar Pf fr (1/2) stfr i) = false := by decide +kernel
theorem hrootsfr : ∀ i, i < 2 → RootsExact .right Amgcl.rsqrt Ar Pf (toG (fouterPass prmfr Amgcl.rsqrt Ar Pf fr (1/2) stfr i))
    (FGMRES.inner prmfr stdIp Amgcl.rsqrt Ar Pf (1/2) (fouterPass prmfr Amgcl.rsqrt Ar Pf fr (1/2) stfr i)).j := by
  intro i hi
  have hj : ∀ i, i < 2 →
      (FGMRES.inner prmfr stdIp Amgcl.rsqrt Ar Pf (1/2) (fouterPass prmfr Amgcl.rsqrt Ar Pf fr (1/2) stfr i)).j = 1 := by
    decide +kernel
  rw [hj i hi]
  match i, hi with
  | 0, _ => exact ⟨by decide +kernel, by decide +kernel, by decide +kernel⟩
  | 1, _ => exact ⟨by decide +kernel, by decide +kernel, by decide +kernel⟩

end Amgcl.Krylov.ExR
