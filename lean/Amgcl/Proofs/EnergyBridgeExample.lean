import Amgcl.Proofs.EnergyBridge
import Amgcl.Proofs.EnergyExample
/-!
# A concrete model hierarchy (arrays, `CRS`) realising an abstract one — non-vacuity of `Bridge.Realizes`

Two levels over `ℚ`: `A = [[2,−1],[−1,2]]` with damped Jacobi `ω = 18/25` (diagonal `9/25`) stored as a `CRS`,
`P = [[1],[1]]`, `R = Pᵀ`, coarse matrix `[[2]]` solved exactly by a diagonal solve.
-/
set_option linter.unusedSectionVars false
namespace Amgcl.Energy.Bridge.Example
open Amgcl Amgcl.Amg Amgcl.Relax Matrix Amgcl.Energy

def A2c : CRS ℚ := { ncols := 2, rows := #[[(0, 2), (1, -1)], [(0, -1), (1, 2)]] }
def S2c : CRS ℚ := { ncols := 2, rows := #[[(0, 9/25)], [(1, 9/25)]] }
def P2c : CRS ℚ := { ncols := 1, rows := #[[(0, 1)], [(0, 1)]] }
def R2c : CRS ℚ := { ncols := 2, rows := #[[(0, 1), (1, 1)]] }
def A1c : CRS ℚ := { ncols := 1, rows := #[[(0, 2)]] }

/-- the smoother: damped Jacobi, `M = ω D⁻¹` as a diagonal `CRS` -/
def sm : Smoother ℚ (CRS ℚ) :=
  diagSmoother fun A => { ncols := A.ncols, rows := Array.ofFn (n := A.nrows) fun i => [(i.val, (18/25) / A.get i i)] }

/-- exact solver for diagonal matrices (enough for the `1 × 1` coarse problem) -/
def direct (Ad : CRS ℚ) (f : Vec ℚ) : Vec ℚ := Array.ofFn (n := Ad.nrows) fun i => f.getD i 0 / Ad.get i i

def lv0 : Level ℚ (CRS ℚ) := { rows := 2, A := some A2c, P := some P2c, R := some R2c, relax := some S2c }
def lv1 : Level ℚ (CRS ℚ) := { rows := 1, solve := some A1c }

theorem cols_A2c : ColsLt A2c 2 := by
  intro i cv h
  rcases i with _ | _ | i <;> simp [CRS.row, A2c] at h
  all_goals rcases h with rfl | rfl <;> simp
theorem cols_S2c : ColsLt S2c 2 := by
  intro i cv h
  rcases i with _ | _ | i <;> simp [CRS.row, S2c] at h
  all_goals subst h; simp
theorem cols_P2c : ColsLt P2c 1 := by
  intro i cv h
  rcases i with _ | _ | i <;> simp [CRS.row, P2c] at h
  all_goals subst h; simp
theorem cols_R2c : ColsLt R2c 2 := by
  intro i cv h
  rcases i with _ | i <;> simp [CRS.row, R2c] at h
  rcases h with rfl | rfl <;> simp

theorem mat_A2c : matOf A2c 2 2 = Energy.Example.A2 := by
  ext i j; fin_cases i <;> fin_cases j <;> simp [matOf, CRS.get, CRS.row, rowGet, A2c, Energy.Example.A2]
theorem mat_S2c : matOf S2c 2 2 = jacobiN (18/25) Energy.Example.A2 := by
  ext i j
  fin_cases i <;> fin_cases j <;> simp [matOf, CRS.get, CRS.row, rowGet, S2c, jacobiN, Energy.Example.A2] <;> norm_num
theorem mat_P2c : matOf P2c 2 1 = Energy.Example.P2 := by
  ext i j; fin_cases i <;> fin_cases j <;> simp [matOf, CRS.get, CRS.row, rowGet, P2c, Energy.Example.P2]
theorem mat_R2c : matOf R2c 1 2 = Energy.Example.P2ᵀ := by
  ext i j; fin_cases i; fin_cases j <;> simp [matOf, CRS.get, CRS.row, rowGet, R2c, Energy.Example.P2]
theorem mat_A1c : matOf A1c 1 1 = Energy.Example.A1 := by
  ext i j; fin_cases i; fin_cases j; simp [matOf, CRS.get, CRS.row, rowGet, A1c, Energy.Example.A1]

theorem directOK : DirectOK (direct A1c) 1 := by
  refine ⟨fun f _ => by simp [direct, CRS.nrows, A1c], fun a b f g hf hg => ?_⟩
  apply Vec.ext_getD (0 : ℚ)
  · simp [direct, vlin_size, CRS.nrows, A1c]
  · intro i hi
    have hi' : i < 1 := by simpa [direct, CRS.nrows, A1c] using hi
    rw [vlin_getD _ _ _ _ _ (by simp [direct])]
    simp only [direct, getD_ofFn_lt _ _ _ (show i < A1c.nrows from hi')]
    rw [vlin_getD _ _ _ _ _ (by rw [hf, hg])]
    ring

/-- the abstract hierarchy realised by `[lv0, lv1]` -/
noncomputable def h2 : Hier ℚ 2 :=
  .level (matOf A2c 2 2) (matOf S2c 2 2) (matOf S2c 2 2) (matOf P2c 2 1) (matOf R2c 1 2) (.direct (matOf A1c 1 1))

theorem realizes : Realizes sm direct 2 [lv0, lv1] h2 := by
  refine Realizes.cons 2 1 lv0 lv1 [] A2c P2c R2c S2c _ _ _ rfl rfl rfl rfl
    (smOK_diagSmoother _ A2c S2c rfl rfl) ⟨rfl, rfl, rfl⟩ rfl cols_A2c cols_P2c cols_R2c
    (sweepIs_of_residual_spmv A2c S2c rfl cols_A2c rfl cols_S2c)
    (sweepIs_of_residual_spmv A2c S2c rfl cols_A2c rfl cols_S2c) ?_
  refine Realizes.solveLast 1 lv1 A1c rfl directOK ?_ ?_
  · rw [mat_A1c]; simp [Energy.Example.A1, det_unique]
  · intro f _
    funext i
    fin_cases i
    simp [mulVec, dotProduct, matOf, vecOf, direct, CRS.get, CRS.row, rowGet, A1c, CRS.nrows]
    ring

theorem h2_eq : h2 = .level Energy.Example.A2 (jacobiN (18/25) Energy.Example.A2) (jacobiN (18/25) Energy.Example.A2)
    Energy.Example.P2 Energy.Example.P2ᵀ (.direct Energy.Example.A1) := by
  simp only [h2, mat_A2c, mat_S2c, mat_P2c, mat_R2c, mat_A1c]

theorem h2_OK : h2.OK := by
  rw [h2_eq]
  have hω0 : (0 : ℚ) < 18 / 25 := by norm_num
  have hω1 : (18 / 25 : ℚ) < 1 := by norm_num
  exact ⟨Energy.Example.spd_A2, jacobi_contr hω0 hω1 Energy.Example.spd_A2 Energy.Example.wdd_A2,
    jacobi_contr hω0 hω1 Energy.Example.spd_A2 Energy.Example.wdd_A2, rfl, Energy.Example.inj_P2,
    Energy.Example.galerkin21, Energy.Example.spd_A1⟩

theorem h2_Sym : h2.Sym := by
  rw [h2_eq]; exact ⟨(jacobiN_transpose _ _).symm, trivial⟩

end Amgcl.Energy.Bridge.Example
