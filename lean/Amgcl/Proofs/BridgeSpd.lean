import Amgcl.Proofs.BridgeBuild
/-!
# Bridge, part 5: structural and analytic invariants of the level matrices of a constructed hierarchy

* `PolicyNodup`, `Chain.levels_nodup` — if the input matrix stores no column twice in a row and the prolongations returned
  by the coarsening do not either, then no level matrix does: the SpGEMM kernels never emit a column twice
  (`C08.saad_nodup` for all operands; `C08b.rmerge_sorted_nodup` for the row-sorted operands that `Amg.build` passes);
* `Chain.levels_spd` — `A` SPD and every prolongation injective ⟹ every level matrix SPD (Galerkin);
* `admDiag_of_nodup` — a row without repeated columns and with non-zero diagonal entry stores its diagonal exactly once
  (so `diagOnceb`, the structural hypothesis of the C06 Jacobi / Gauss–Seidel theorems, holds on every level).
-/
set_option linter.unusedSectionVars false
namespace Amgcl.Energy.Bridge
open Amgcl Amgcl.Amg Amgcl.Relax Matrix Finset

section nodup
variable {K S : Type} [Field K] [DecidableEq K]

/-- the coarsening and the coarse operator never store a column twice in a row -/
structure PolicyNodup (pol : Policy K) : Prop where
  transfer : ∀ idx (A P0 R0 : CRS K), pol.transfer idx A = some (P0, R0) → P0.nodupb = true
  coarse : ∀ A P R : CRS K, P.WF → P.sortedb = true → (pol.coarseOp A P R).nodupb = true

omit [Field K] [DecidableEq K] in
theorem sortRows_nodupb (A : CRS K) (h : A.nodupb = true) : (sortRows A).nodupb = true := by
  rw [K2.nodupb_iff] at *
  intro i
  rw [K2.sortRows_row]
  exact ((Amgcl.sortRow_perm (A.row i)).map (·.1)).nodup_iff.mpr (h i)

omit [DecidableEq K] in
theorem scale_nodupb (M : CRS K) (s : K) (h : M.nodupb = true) : (scale M s).nodupb = true := by
  rw [K2.nodupb_iff] at *
  intro i
  have hrow : (scale M s).row i = (M.row i).map (fun cv => (cv.1, cv.2 * s)) := by
    unfold scale CRS.row
    simp only [Array.getD_eq_getD_getElem?, Array.getElem?_map]
    cases M.rows[i]? <;> simp
  rw [hrow, List.map_map]
  exact h i

omit [DecidableEq K] in
/-- the Galerkin product (either SpGEMM algorithm) of a row-sorted `P` never stores a column twice -/
theorem galerkin_nodupb (nt : Nat) (A P R : CRS K) (hP : P.WF) (hPs : P.sortedb = true) :
    (galerkin nt A P R).nodupb = true := by
  unfold galerkin
  rw [C08.product_dispatch, C08.product_dispatch]
  by_cases hnt : nt > 16
  · simp only [hnt, if_true]
    exact (C08b.rmerge_sorted_nodup R _ (C08b.rmerge_sorted_nodup A P hPs).1).2
  · simp only [hnt, if_false]
    have hX := (C08.saad_wf A P hP false).2.2
    rw [K2.nodupb_iff]
    intro i
    by_cases hi : i < R.nrows
    · exact C08.saad_nodup R _ hX false i hi
    · rw [K2.row_eq_nil_of_ge _ (by rw [(C08.saad_wf R _ hX false).1]; omega)]
      exact List.nodup_nil

omit [DecidableEq K] in
theorem policyNodup_coarse_galerkin (nt : Nat) (A P R : CRS K) (hP : P.WF) (hPs : P.sortedb = true) :
    (galerkin nt A P R).nodupb = true := galerkin_nodupb nt A P R hP hPs

omit [DecidableEq K] in
theorem policyNodup_coarse_scaledGalerkin (nt : Nat) (s : K) (A P R : CRS K) (hP : P.WF) (hPs : P.sortedb = true) :
    (scaledGalerkin nt s A P R).nodupb = true := scale_nodupb _ s (galerkin_nodupb nt A P R hP hPs)

/-- **no level matrix of a constructed hierarchy stores a column twice in a row** -/
theorem Chain.levels_nodup {pol : Policy K} {sm : Smoother K S} {allow : Bool} (hpol : PolicyOK pol)
    (hnd : PolicyNodup pol) {idx : Nat} {A : CRS K} {ls : List (Level K S)} (hc : Chain pol sm allow idx A ls)
    (hA : A.WF) (hsq : A.ncols = A.nrows) (hAnd : A.nodupb = true) :
    ∀ lv ∈ ls, ∀ M, levelMatrix lv = some M → M.nodupb = true := by
  induction hc with
  | relaxLast idx A lv hl =>
    intro lv' hlv' M hM
    rw [List.mem_singleton.mp hlv', hl.levelMatrix] at hM
    cases hM; exact hAnd
  | solveLast idx A lv hl =>
    intro lv' hlv' M hM
    rw [List.mem_singleton.mp hlv', hl.levelMatrix] at hM
    cases hM; exact hAnd
  | cons idx A lv P R rest hl hne hc ih =>
    obtain ⟨nxt, rest', rfl⟩ := List.exists_cons_of_ne_nil hne
    obtain ⟨hPwf, _, _, _, _, _, hA'wf, _, hA'sq, _, _⟩ := cons_step hpol hl hA hsq hc
    obtain ⟨P0, R0, ht, hP, _⟩ := hl.htr
    have hPs : P.sortedb = true := hP ▸ K2.sortRows_sortedb P0 (hnd.transfer idx A P0 R0 ht)
    have ih' := ih hA'wf hA'sq (sortRows_nodupb _ (hnd.coarse A P R hPwf hPs))
    intro lv' hlv' M hM
    rcases List.mem_cons.mp hlv' with rfl | hin
    · have hlm : levelMatrix lv' = some A := by unfold levelMatrix; rw [hl.hsolve]; exact hl.hA
      rw [hlm] at hM; cases hM; exact hAnd
    · exact ih' lv' hin M hM

/-- a row without repeated columns whose diagonal entry is non-zero stores the diagonal exactly once -/
theorem admDiag_of_nodup {A : CRS K} (hnd : A.nodupb = true) (hnz : ∀ i, i < A.nrows → A.get i i ≠ 0) : AdmDiag A := by
  refine ⟨?_, hnz⟩
  unfold diagOnceb
  rw [List.all_eq_true]
  intro i hi
  have hi' : i < A.nrows := List.mem_range.mp hi
  have h1 : (A.row i).countP (fun cv => cv.1 == i) ≤ 1 := by
    have := List.nodup_iff_count_le_one.mp (K2.nodupb_iff.mp hnd i) i
    rwa [List.count_eq_countP, List.countP_map] at this
  have h0 : (A.row i).countP (fun cv => cv.1 == i) ≠ 0 := by
    intro h
    exact hnz i hi' (rowGet_eq_zero_of_countP (A.row i) i h)
  have : (A.row i).countP (fun cv => cv.1 == i) = 1 := by omega
  simp [this]

end nodup

section spd
variable {K S : Type} [Field K] [LinearOrder K] [IsStrictOrderedRing K] [DecidableEq K]

/-- **every level matrix of a constructed hierarchy is SPD** when the fine matrix is and the prolongations are injective -/
theorem Chain.levels_spd {pol : Policy K} {sm : Smoother K S} {allow : Bool} (hpol : PolicyOK pol)
    {idx : Nat} {A : CRS K} {ls : List (Level K S)} (hc : Chain pol sm allow idx A ls) (hA : A.WF)
    (hsq : A.ncols = A.nrows) (hspd : IsSPD (matOf A A.nrows A.nrows)) (hinj : ProlongationsInjective ls) :
    LevelMatrices (fun _ M => IsSPD M) ls := by
  induction hc with
  | relaxLast idx A lv hl =>
    intro lv' hlv' M hM n hn
    rw [List.mem_singleton.mp hlv', hl.levelMatrix] at hM
    cases hM; subst hn; exact hspd
  | solveLast idx A lv hl =>
    intro lv' hlv' M hM n hn
    rw [List.mem_singleton.mp hlv', hl.levelMatrix] at hM
    cases hM; subst hn; exact hspd
  | cons idx A lv P R rest hl hne hc ih =>
    obtain ⟨nxt, rest', rfl⟩ := List.exists_cons_of_ne_nil hne
    obtain ⟨_, _, hPn, hPc, _, _, hA'wf, hA'n, hA'sq, hRP, hA'mat⟩ := cons_step hpol hl hA hsq hc
    have hPinj := hinj lv List.mem_cons_self P hl.hP _ _ hPn hPc
    have hspd' : IsSPD (matOf (sortRows (pol.coarseOp A P R)) (sortRows (pol.coarseOp A P R)).nrows
        (sortRows (pol.coarseOp A P R)).nrows) := by
      rw [hA'n, hA'mat, hRP]; exact hspd.galerkin _ hPinj
    have ih' := ih hA'wf hA'sq hspd' (fun lv' hlv' => hinj lv' (List.mem_cons_of_mem _ hlv'))
    intro lv' hlv' M hM n hn
    rcases List.mem_cons.mp hlv' with rfl | hin
    · have hlm : levelMatrix lv' = some A := by unfold levelMatrix; rw [hl.hsolve]; exact hl.hA
      rw [hlm] at hM; cases hM; subst hn; exact hspd
    · exact ih' lv' hin M hM n hn

/-- an SPD level matrix has a non-zero diagonal -/
theorem diag_ne_zero_of_spd {M : CRS K} (h : IsSPD (matOf M M.nrows M.nrows)) : ∀ i, i < M.nrows → M.get i i ≠ 0 :=
  fun i hi => (h.diag_pos ⟨i, hi⟩).ne'

end spd

end Amgcl.Energy.Bridge
