import Amgcl.Proofs.BridgeReal
import Amgcl.Proofs.EnergyMMatrix
/-!
# Bridge: weak diagonal dominance of every level matrix, derived for plain aggregation

If the fine matrix is a Z-matrix with non-negative row sums (`ZRow`) and every prolongation of the hierarchy is an
aggregation matrix (`PolicyAgg`, true for the C04 plain-aggregation model: `ptent_isAgg`), then every level matrix of the
hierarchy built by `Amg.build` is `ZRow` (`Chain.levels_zrow`), hence weakly diagonally dominant — the hypothesis `hQ`
of the Jacobi / SPAI-0 convergence theorems.
-/
set_option linter.unusedSectionVars false
namespace Amgcl.Energy.Bridge
open Amgcl Amgcl.Amg Amgcl.Relax Matrix Finset

section generic
variable {K S : Type} [Field K] [LinearOrder K] [IsStrictOrderedRing K] [DecidableEq K]

/-- every prolongation returned by the coarsening is an aggregation matrix -/
def PolicyAgg (pol : Policy K) : Prop :=
  ∀ idx (A P0 R0 : CRS K), A.WF → A.ncols = A.nrows → pol.transfer idx A = some (P0, R0) →
    ∀ n m, P0.nrows = n → P0.ncols = m → IsAgg (matOf P0 n m)

/-- **every level matrix of a constructed hierarchy is `ZRow`** when the fine matrix is and the prolongations are
aggregation matrices -/
theorem Chain.levels_zrow {pol : Policy K} {sm : Smoother K S} {allow : Bool} (hpol : PolicyOK pol)
    (hagg : PolicyAgg pol) {idx : Nat} {A : CRS K} {ls : List (Level K S)} (hc : Chain pol sm allow idx A ls)
    (hA : A.WF) (hsq : A.ncols = A.nrows) (hz : ZRow (matOf A A.nrows A.nrows)) :
    LevelMatrices (fun _ M => ZRow M) ls := by
  induction hc with
  | relaxLast idx A lv hl =>
    intro lv' hlv' M hM n hn
    rw [List.mem_singleton.mp hlv', hl.levelMatrix] at hM
    cases hM; subst hn; exact hz
  | solveLast idx A lv hl =>
    intro lv' hlv' M hM n hn
    rw [List.mem_singleton.mp hlv', hl.levelMatrix] at hM
    cases hM; subst hn; exact hz
  | cons idx A lv P R rest hl hne hc ih =>
    obtain ⟨nxt, rest', rfl⟩ := List.exists_cons_of_ne_nil hne
    obtain ⟨_, _, hPn, hPc, _, _, hA'wf, hA'n, hA'sq, hRP, hA'mat⟩ := cons_step hpol hl hA hsq hc
    have hPagg : IsAgg (matOf P A.nrows nxt.rows) := by
      obtain ⟨P0, R0, ht, hP, _⟩ := hl.htr
      subst hP
      rw [matOf_sortRows]
      exact hagg idx A P0 R0 hA hsq ht _ _ (by rw [← hPn, Amg.sortRows_nrows]) hPc
    have hz' : ZRow (matOf (sortRows (pol.coarseOp A P R)) (sortRows (pol.coarseOp A P R)).nrows
        (sortRows (pol.coarseOp A P R)).nrows) := by
      rw [hA'n, hA'mat, hRP]; exact hz.galerkin hPagg
    have ih' := ih hA'wf hA'sq hz'
    intro lv' hlv' M hM n hn
    rcases List.mem_cons.mp hlv' with rfl | hin
    · have hlm : levelMatrix lv' = some A := by unfold levelMatrix; rw [hl.hsolve]; exact hl.hA
      rw [hlm] at hM; cases hM; subst hn; exact hz
    · exact ih' lv' hin M hM n hn

theorem LevelMatrices.mono {Q Q' : ∀ n : ℕ, Matrix (Fin n) (Fin n) K → Prop} {ls : List (Level K S)}
    (h : LevelMatrices Q ls) (hQ : ∀ n M, Q n M → Q' n M) : LevelMatrices Q' ls :=
  fun lv hlv M hM n hn => hQ n _ (h lv hlv M hM n hn)

end generic

section aggregation
variable {K : Type} [Field K] [LinearOrder K] [IsStrictOrderedRing K] [DecidableEq K]

/-- the tentative prolongation is an aggregation matrix, for every id array -/
theorem ptent_isAgg (n count : Nat) (id : Array Int) :
    IsAgg (matOf (tentativeProlongation n count id : CRS K) n count) := by
  refine ⟨fun i => if h : 0 ≤ id.getD i.val aggrRemoved ∧ (id.getD i.val aggrRemoved).toNat < count
      then some ⟨(id.getD i.val aggrRemoved).toNat, h.2⟩ else none, fun i J => ?_⟩
  rw [matOf_apply, (C04.ptent_columns (K := K) n count id).2.2.2.1]
  beta_reduce
  by_cases h : 0 ≤ id.getD i.val aggrRemoved ∧ (id.getD i.val aggrRemoved).toNat < count
  · rw [dif_pos h]
    by_cases hJ : id.getD i.val aggrRemoved = (J.val : Int)
    · rw [if_pos ⟨i.isLt, hJ⟩, if_pos]
      congr 1; apply Fin.ext; simp only; omega
    · rw [if_neg (fun hh => hJ hh.2), if_neg]
      intro hh
      have := congrArg (fun x : Fin count => x.val) (Option.some.inj hh)
      simp only at this
      omega
  · rw [dif_neg h, if_neg, if_neg (by simp)]
    rintro ⟨_, hJ⟩
    apply h
    rw [hJ]
    exact ⟨by omega, by simp⟩

theorem policyAgg_aggregation (norm : K → K) (aprm : AggrParams K) (hb : aprm.blockSize = 1)
    (hm : aprm.minAggregate ≤ 1) (nt : Nat) (s : K) : PolicyAgg (aggregationPolicy norm aprm nt s) := by
  intro idx A P0 R0 _ _ ht n m hn hmc
  obtain ⟨agg, _, hP0, _⟩ := aggregation_transfer_spec norm aprm hb hm nt s idx A P0 R0 ht
  subst hP0
  have e1 : n = A.nrows := by rw [← hn]; exact (C04.ptent_columns (K := K) A.nrows agg.count agg.id).1
  have e2 : m = agg.count := hmc.symm
  subst e1 e2
  exact ptent_isAgg A.nrows agg.count agg.id

end aggregation

end Amgcl.Energy.Bridge
