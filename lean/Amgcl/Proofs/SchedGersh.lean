import Amgcl.Model.Schedule
import Amgcl.Proofs.Primitives
import Mathlib.Order.Lattice
import Mathlib.Order.MinMax
/-!
The Gershgorin bound of `spectral_radius` (builtin.hpp:794-819): per-thread maxima over the rows of a static
`omp for` chunk, combined under `omp critical`.  In a linear order the result is the maximum over all rows (and 0),
whatever the team size — provided the thread-private `dia` is overwritten in every row (`scale = false`, or every
row stores its diagonal entry).
-/
namespace Amgcl.Sched
open Amgcl

section
set_option linter.unusedSectionVars false
variable {K : Type} [Add K] [Mul K] [Zero K] [One K] [Div K] [LinearOrder K]

theorem cmax_eq_max (a b : K) : cmax a b = max a b := by
  unfold cmax
  by_cases h : a < b
  · rw [if_pos h, max_eq_right (le_of_lt h)]
  · rw [if_neg h, max_eq_left (not_lt.mp h)]

/-- the scan of one row: `(Σ norm v, dia)` -/
def rowScan (scale : Bool) (norm : K → K) (row : Row K) (i : Nat) (sd : K × K) : K × K :=
  row.foldl (fun (sd : K × K) cv => (sd.1 + norm cv.2, if scale && cv.1 == i then cv.2 else sd.2)) sd

/-- the Gershgorin value of row `i` (`dia` initialised with the identity) -/
def rowVal (scale : Bool) (norm : K → K) (A : CRS K) (i : Nat) : K :=
  let sd := rowScan scale norm (A.row i) i (0, 1)
  if scale then sd.1 * norm (1 / sd.2) else sd.1

theorem rowScan_fst (scale : Bool) (norm : K → K) (row : Row K) (i : Nat) (s d d' : K) :
    (rowScan scale norm row i (s, d)).1 = (rowScan scale norm row i (s, d')).1 := by
  unfold rowScan
  induction row generalizing s d d' with
  | nil => rfl
  | cons cv t ih => simp only [List.foldl_cons]; exact ih _ _ _

theorem rowScan_snd (norm : K → K) (row : Row K) (i : Nat) (s d d' : K) (h : ∃ cv ∈ row, cv.1 = i) :
    (rowScan true norm row i (s, d)).2 = (rowScan true norm row i (s, d')).2 := by
  unfold rowScan
  induction row generalizing s d d' with
  | nil => obtain ⟨_, h, _⟩ := h; cases h
  | cons cv t ih =>
    simp only [List.foldl_cons]
    by_cases hc : cv.1 = i
    · simp [hc]
    · have hb : (true && cv.1 == i) = false := by simp [hc]
      simp only [hb]
      apply ih
      obtain ⟨c, hmem, hci⟩ := h
      rcases List.mem_cons.mp hmem with e | e
      · subst e; exact absurd hci hc
      · exact ⟨c, e, hci⟩

/-- rows whose diagonal entry is stored (needed only when `scale`) -/
def DiagStored (scale : Bool) (A : CRS K) : Prop := scale = true → ∀ i, i < A.nrows → ∃ cv ∈ A.row i, cv.1 = i

theorem row_indep_dia (scale : Bool) (norm : K → K) (A : CRS K) (hd : DiagStored scale A) (i : Nat) (hi : i < A.nrows)
    (d : K) :
    (let sd := rowScan scale norm (A.row i) i (0, d); if scale then sd.1 * norm (1 / sd.2) else sd.1)
      = rowVal scale norm A i := by
  unfold rowVal
  cases scale
  · simp only [Bool.false_eq_true, if_false]; exact rowScan_fst _ _ _ _ _ _ _
  · simp only [if_true]
    rw [rowScan_fst true norm (A.row i) i 0 d 1, rowScan_snd norm (A.row i) i 0 d 1 (hd rfl i hi)]

/-- one thread computes the maximum (with 0) over its rows -/
theorem gershThread_eq (scale : Bool) (norm : K → K) (A : CRS K) (hd : DiagStored scale A) (lo hi : Nat)
    (hhi : hi ≤ A.nrows) :
    gershThread scale norm A lo hi
      = (List.range (hi - lo)).foldl (fun m k => max m (rowVal scale norm A (lo + k))) 0 := by
  unfold gershThread
  suffices h : ∀ (l : List Nat) (m d : K), (∀ k ∈ l, lo + k < A.nrows) →
      (l.foldl (fun (st : K × K) k =>
        let i := lo + k
        let sd := (A.row i).foldl (fun (sd : K × K) cv =>
          (sd.1 + norm cv.2, if scale && cv.1 == i then cv.2 else sd.2)) (0, st.2)
        let s := if scale then sd.1 * norm (1 / sd.2) else sd.1
        (cmax st.1 s, sd.2)) (m, d)).1
      = l.foldl (fun m k => max m (rowVal scale norm A (lo + k))) m by
    apply h
    intro k hk
    have := List.mem_range.mp hk
    omega
  intro l
  induction l with
  | nil => intro m d _; rfl
  | cons k t ih =>
    intro m d hmem
    simp only [List.foldl_cons]
    rw [ih _ _ (fun j hj => hmem j (List.mem_cons_of_mem _ hj))]
    congr 1
    rw [cmax_eq_max]
    congr 1
    exact row_indep_dia scale norm A hd (lo + k) (hmem k List.mem_cons_self) d

theorem foldl_max_nonneg (l : List K) (a : K) (ha : 0 ≤ a) : 0 ≤ l.foldl max a := by
  induction l generalizing a with
  | nil => exact ha
  | cons x t ih => exact ih _ (le_trans ha (le_max_left _ _))

theorem foldl_max_split (l : List K) (a : K) (ha : 0 ≤ a) : l.foldl max a = max a (l.foldl max 0) := by
  induction l generalizing a with
  | nil => simp [max_eq_left ha]
  | cons x t ih =>
    simp only [List.foldl_cons]
    rw [ih (max a x) (le_trans ha (le_max_left _ _)), ih (max 0 x) (le_max_left _ _)]
    rw [max_assoc, max_assoc, ← max_assoc a 0, max_eq_left ha]

theorem foldl_map_max (f : Nat → K) (l : List Nat) (a : K) :
    l.foldl (fun m k => max m (f k)) a = (l.map f).foldl max a := by
  rw [List.foldl_map]

theorem bnd_mono_le (n nt : Nat) : ∀ s u, s ≤ u → bnd n nt s ≤ bnd n nt u := by
  intro s u h
  induction u with
  | zero => have : s = 0 := by omega
            subst this; exact le_refl _
  | succ u ih =>
    by_cases hs : s = u + 1
    · subst hs; exact le_refl _
    · exact le_trans (ih (by omega)) (bnd_mono n nt u)

/-- **the combined bound is the maximum over all rows, for every team size** -/
theorem gershgorin_eq_spec (scale : Bool) (norm : K → K) (A : CRS K) (hd : DiagStored scale A) (nt : Nat) (hnt : 0 < nt) :
    gershgorin scale norm nt A = ((List.range A.nrows).map (rowVal scale norm A)).foldl max 0 := by
  unfold gershgorin
  -- after `t` threads: the maximum over the first `bnd t` rows
  have key : ∀ t, t ≤ nt → (List.range t).foldl (fun radius t =>
        let ch := staticChunk A.nrows nt t
        cmax radius (gershThread scale norm A ch.1 ch.2)) 0
      = (((List.range A.nrows).map (rowVal scale norm A)).take (bnd A.nrows nt t)).foldl max 0 := by
    intro t
    induction t with
    | zero => intro _; simp [bnd_zero]
    | succ t ih =>
      intro ht
      rw [List.range_succ, List.foldl_append, ih (by omega)]
      simp only [List.foldl_cons, List.foldl_nil, staticChunk_eq]
      have hmono := bnd_mono A.nrows nt t
      have hle : bnd A.nrows nt (t + 1) ≤ A.nrows := by
        have := bnd_mono_le A.nrows nt (t + 1) nt ht
        rwa [bnd_last _ _ hnt] at this
      rw [cmax_eq_max, gershThread_eq scale norm A hd _ _ hle]
      have e : bnd A.nrows nt (t + 1) = bnd A.nrows nt t + (bnd A.nrows nt (t + 1) - bnd A.nrows nt t) := by omega
      conv_rhs => rw [e, List.take_add, List.foldl_append]
      rw [foldl_max_split _ _ (foldl_max_nonneg _ 0 (le_refl _))]
      congr 1
      -- the rows of the chunk
      rw [foldl_map_max (fun k => rowVal scale norm A (bnd A.nrows nt t + k))]
      congr 1
      rw [← List.map_drop, ← List.map_take]
      have : ((List.range A.nrows).drop (bnd A.nrows nt t)).take (bnd A.nrows nt (t + 1) - bnd A.nrows nt t)
          = (List.range (bnd A.nrows nt (t + 1) - bnd A.nrows nt t)).map (fun k => bnd A.nrows nt t + k) := by
        apply List.ext_getElem
        · simp; omega
        · intro j h1 h2
          simp
      rw [this, List.map_map]
      rfl
  rw [key nt (le_refl _), bnd_last _ _ hnt, List.take_of_length_le (by simp)]

end
end Amgcl.Sched
