import Amgcl.Proofs.SolverIDRsK
import Amgcl.Proofs.KrylovIDR1
/-!
IDR(s), general `s` (C05): the vectors of one `k`-step as elements of `Fin n → K`.

* `shadowK pv k`   the subspace `{v | ⟨v, p_i⟩ = 0, i < k}`;
* `solveC_v`       `v = r − Σ_{k ≤ l < s} c_l G[l]`;
* `kuk1_vec`       `U[k] (before bi-orthogonalisation) = om·Prec(v) + Σ_{k ≤ i < s} c_i U[i]`;
* `kgu_vec`        the bi-orthogonalisation loop keeps `G[k]` in any subspace that contains the new `G[i]`, `i < k`, and makes
                   it orthogonal to `p_0..p_{k-1}`.
-/
set_option linter.unusedSectionVars false
set_option linter.unusedVariables false
namespace Amgcl.Krylov
open Amgcl Amgcl.Solver Amgcl.Solver.IDRs Amgcl.Energy.Bridge Matrix Finset

section idrs
variable {K : Type} [Field K] [DecidableEq K] [LT K] [DecidableLT K]

/-- `{v | ⟨v, p_i⟩ = 0 for i < k}` -/
def shadowK {n : ℕ} (pv : ℕ → Fin n → K) (k : ℕ) : Submodule K (Fin n → K) where
  carrier := {v | ∀ i, i < k → v ⬝ᵥ pv i = 0}
  add_mem' := by
    intro a b ha hb i hi
    have ha' : a ⬝ᵥ pv i = 0 := ha i hi
    have hb' : b ⬝ᵥ pv i = 0 := hb i hi
    rw [add_dotProduct, ha', hb', add_zero]
  zero_mem' := fun i _ => zero_dotProduct _
  smul_mem' := by
    intro c x hx i hi
    have hx' : x ⬝ᵥ pv i = 0 := hx i hi
    rw [smul_dotProduct, hx', smul_zero]

theorem mem_shadowK {n : ℕ} (pv : ℕ → Fin n → K) (k : ℕ) (v : Fin n → K) :
    v ∈ shadowK pv k ↔ ∀ i, i < k → v ⬝ᵥ pv i = 0 := Iff.rfl

theorem shadowK_zero {n : ℕ} (pv : ℕ → Fin n → K) : shadowK pv 0 = ⊤ := by
  ext v; simp [mem_shadowK]

theorem shadowK_succ_le {n : ℕ} (pv : ℕ → Fin n → K) (k : ℕ) : shadowK pv (k + 1) ≤ shadowK pv k :=
  fun v hv i hi => hv i (by omega)

/-- one pass of the `for (i = k; i < s; ++i)` loop of the triangular solve -/
def solveStep (k : ℕ) (w : IDRs.Work K) (acc : FArr K × Vec K) (i : ℕ) : FArr K × Vec K :=
  ((setF (((List.range i).drop k).foldl (fun (c : FArr K) j => setF c i (c.get i - w.M.get i j * c.get j))
      (setF acc.1 i (w.f.get i))) i
    (inv1 (w.M.get i i) * (((List.range i).drop k).foldl
      (fun (c : FArr K) j => setF c i (c.get i - w.M.get i j * c.get j)) (setF acc.1 i (w.f.get i))).get i)),
   axpby (-((setF (((List.range i).drop k).foldl (fun (c : FArr K) j => setF c i (c.get i - w.M.get i j * c.get j))
      (setF acc.1 i (w.f.get i))) i
    (inv1 (w.M.get i i) * (((List.range i).drop k).foldl
      (fun (c : FArr K) j => setF c i (c.get i - w.M.get i j * c.get j)) (setF acc.1 i (w.f.get i))).get i)).get i))
      (w.G.get i) 1 acc.2)

theorem solveC_eq (s k : ℕ) (w : IDRs.Work K) (v0 : Vec K) :
    solveC s k w v0 = ((List.range s).drop k).foldl (solveStep k w) (w.c, v0) := rfl

theorem solveStep_c_other (k : ℕ) (w : IDRs.Work K) (acc : FArr K × Vec K) (i : ℕ) (hki : k ≤ i) (t : ℕ) (ht : t ≠ i) :
    (solveStep k w acc i).1.get t = acc.1.get t := by
  unfold solveStep
  obtain ⟨_, g2⟩ := solveC_inner w.M k i hki (setF acc.1 i (w.f.get i))
  rw [setF_other _ _ _ _ ht, g2 t ht, setF_other _ _ _ _ ht]

theorem solveStep_v (k : ℕ) (w : IDRs.Work K) (acc : FArr K × Vec K) (i : ℕ) :
    (solveStep k w acc i).2 = axpby (-((solveStep k w acc i).1.get i)) (w.G.get i) 1 acc.2 := rfl

/-- **`v = r − Σ_{k ≤ l < s} c_l G[l]`** -/
theorem solveC_v (n s k : ℕ) (hks : k ≤ s) (w : IDRs.Work K) (v0 : Vec K) (hv0 : v0.size = n)
    (hG : ∀ l, k ≤ l → l < s → (w.G.get l).size = n) :
    (solveC s k w v0).2.size = n ∧
    vecOf n (solveC s k w v0).2
      = vecOf n v0 - ∑ l ∈ Ico k s, (solveC s k w v0).1.get l • vecOf n (w.G.get l) := by
  rw [solveC_eq]
  apply foldl_drop_range_inv (solveStep k w)
    (fun m (acc : FArr K × Vec K) => acc.2.size = n ∧
      vecOf n acc.2 = vecOf n v0 - ∑ l ∈ Ico k m, acc.1.get l • vecOf n (w.G.get l)) k s hks (w.c, v0)
  · simp [hv0]
  · intro i acc hki his ⟨h1, h2⟩
    have hGi := hG i hki his
    refine ⟨by rw [solveStep_v, axpby_size]; exact hGi, ?_⟩
    rw [solveStep_v, vecOf_axpby n _ _ _ _ hGi, h2, sum_Ico_succ_top hki]
    have hsum : ∑ l ∈ Ico k i, (solveStep k w acc i).1.get l • vecOf n (w.G.get l)
        = ∑ l ∈ Ico k i, acc.1.get l • vecOf n (w.G.get l) := by
      apply sum_congr rfl
      intro l hl
      rw [solveStep_c_other k w acc i hki l (by have := (mem_Ico.mp hl).2; omega)]
    rw [hsum, one_smul, neg_smul]
    abel

/-- **`U[k]` before the bi-orthogonalisation**: `om·Prec(v) + Σ_{k ≤ i < s} c_i U[i]` -/
theorem kuk1_vec (n : ℕ) (prm : IDRs.Params K) (Prec : Vec K → Vec K) (k : ℕ) (hks : k < prm.s) (st : IDRs.St K)
    (hPv : (Prec (kv prm k st)).size = n) (hU : ∀ i, k ≤ i → i < prm.s → (st.w.U.get i).size = n) :
    (kuk1 prm Prec k st).size = n ∧
    vecOf n (kuk1 prm Prec k st) = st.om • vecOf n (Prec (kv prm k st))
      + ∑ i ∈ Ico k prm.s, (kc prm k st).get i • vecOf n (st.w.U.get i) := by
  unfold kuk1
  apply foldl_drop_range_inv (fun (u : Vec K) i => axpby ((kc prm k st).get i) (st.w.U.get i) 1 u)
    (fun m (u : Vec K) => u.size = n ∧
      vecOf n u = st.om • vecOf n (Prec (kv prm k st)) + ∑ i ∈ Ico k m, (kc prm k st).get i • vecOf n (st.w.U.get i))
    (k + 1) prm.s hks
  · refine ⟨by rw [axpby_size]; exact hPv, ?_⟩
    rw [vecOf_axpby n _ _ _ _ hPv, Nat.Ico_succ_singleton, sum_singleton]
  · intro i u hki his ⟨h1, h2⟩
    have hUi := hU i (by omega) his
    refine ⟨by rw [axpby_size]; exact hUi, ?_⟩
    rw [vecOf_axpby n _ _ _ _ hUi, h2, sum_Ico_succ_top (by omega), one_smul]
    abel

/-- **the bi-orthogonalisation loop**: `G[k]` stays in every subspace `W` that contains its start value and the new
`G[i]`, `i < k`; afterwards `⟨G[k], p_i⟩ = 0` for `i < k` -/
theorem kgu_vec (n : ℕ) (prm : IDRs.Params K) (A : CRS K) (hn : A.nrows = n) (Prec : Vec K → Vec K) (Pv : FArr (Vec K))
    (k : ℕ) (st : IDRs.St K) (W : Submodule K (Fin n → K))
    (hP : ∀ i, i < k → (Pv.get i).size = n)
    (hG : ∀ i, i < k → (st.w.G.get i).size = n) (hU : ∀ i, i < k → (st.w.U.get i).size = n)
    (hu1 : (kuk1 prm Prec k st).size = n)
    (hg0 : vecOf n (spmv 1 A (kuk1 prm Prec k st) 0 (st.w.G.get k)) ∈ W)
    (hGW : ∀ i, i < k → vecOf n (st.w.G.get i) ∈ W)
    (hdiag : ∀ i, i < k → st.w.M.get i i = vecOf n (st.w.G.get i) ⬝ᵥ vecOf n (Pv.get i) ∧ st.w.M.get i i ≠ 0)
    (hup : ∀ i, i < k → ∀ i', i' < i → vecOf n (st.w.G.get i) ⬝ᵥ vecOf n (Pv.get i') = 0) :
    (kgu prm stdIp A Prec Pv k st).1.size = n ∧ (kgu prm stdIp A Prec Pv k st).2.size = n ∧
    vecOf n (kgu prm stdIp A Prec Pv k st).1 ∈ W ∧
    ∀ i, i < k → vecOf n (kgu prm stdIp A Prec Pv k st).1 ⬝ᵥ vecOf n (Pv.get i) = 0 := by
  unfold kgu
  have h := foldl_range_inv
    (fun (acc : Vec K × Vec K) i =>
      (axpby (-(stdIp acc.1 (Pv.get i) / st.w.M.get i i)) (st.w.G.get i) 1 acc.1,
       axpby (-(stdIp acc.1 (Pv.get i) / st.w.M.get i i)) (st.w.U.get i) 1 acc.2))
    (fun m (acc : Vec K × Vec K) => acc.1.size = n ∧ acc.2.size = n ∧
      vecOf n acc.1 ∈ W ∧ ∀ i, i < m → vecOf n acc.1 ⬝ᵥ vecOf n (Pv.get i) = 0)
    k (spmv 1 A (kuk1 prm Prec k st) 0 (st.w.G.get k), kuk1 prm Prec k st)
    ⟨by rw [spmv_size', hn], hu1, hg0, fun i hi => absurd hi (Nat.not_lt_zero i)⟩
    (by
      intro m acc hmk ⟨s1, s2, hW, horth⟩
      have hGm := hG m hmk
      have hUm := hU m hmk
      obtain ⟨hd1, hd2⟩ := hdiag m hmk
      have hvec : vecOf n (axpby (-(stdIp acc.1 (Pv.get m) / st.w.M.get m m)) (st.w.G.get m) 1 acc.1)
          = vecOf n acc.1 - (stdIp acc.1 (Pv.get m) / st.w.M.get m m) • vecOf n (st.w.G.get m) := by
        rw [vecOf_axpby n _ _ _ _ hGm, one_smul, neg_smul]; abel
      refine ⟨by rw [axpby_size]; exact hGm, by rw [axpby_size]; exact hUm, ?_, ?_⟩
      · rw [hvec]
        exact Submodule.sub_mem _ hW (Submodule.smul_mem _ _ (hGW m hmk))
      · intro i hi
        rw [hvec, sub_dotProduct, smul_dotProduct]
        by_cases him : i = m
        · subst him
          rw [stdIp_vecOf n _ _ s1 (hP i hmk), ← hd1, smul_eq_mul]
          field_simp
          ring
        · rw [horth i (by omega), hup m hmk i (by omega), smul_zero, sub_zero])
  exact h

end idrs
end Amgcl.Krylov
