import Amgcl.Proofs.BridgeSpd
import Amgcl.Properties.C02b
/-!
# Bridge, part 6: the three real smoother models, the plain-aggregation policy, and the assembled statements

* `RealSmoother K` — Gauss–Seidel (forward pre-, backward post-sweep), damped Jacobi `ω`, SPAI-0 with their model
  records (`RealSmoother.model`), state types, the structural admissibility of a level matrix (`RealSmoother.Adm`) and
  the corresponding `ProvedSmoother` (the matrices `N` of `Properties/C02b.lean`);
* `build_realizes` — every hierarchy built by `Amg.build` with one of them realises `Hier.build … (transfersOf ls)`;
* `build_apply_spd_contracting` — and if the input is SPD without repeated columns, the prolongations are injective (and
  the level matrices weakly diagonally dominant for Jacobi / SPAI-0), `Amg.apply` is multiplication by an SPD matrix `B`
  with `1 − B A` strictly `A`-contracting;
* `policyOK_aggregation`, `policyNodup_aggregation`, `policyInjective_aggregation` — the C04 plain-aggregation coarsening
  (`Amg.aggregationPolicy`, `block_size = 1`, `over_interp = 1`) satisfies all policy hypotheses: `R = transpose P`,
  `P_tent` well formed, one entry per row, and injective because every aggregate is non-empty.
-/
set_option linter.unusedSectionVars false
namespace Amgcl.Energy.Bridge
open Amgcl Amgcl.Amg Amgcl.Relax Matrix Finset

/-- the smoothers of amgcl whose models are bridged to the energy theorems -/
inductive RealSmoother (K : Type)
  /-- `relaxation::gauss_seidel`, serial sweeps: forward before, backward after the coarse-grid correction -/
  | gaussSeidel
  /-- `relaxation::damped_jacobi` with damping `ω` -/
  | dampedJacobi (ω : K)
  /-- `relaxation::spai0`; `norm` is `math::norm` (`std::abs`) -/
  | spai0 (norm : K → K)

section defs
variable {K : Type} [Field K] [DecidableEq K]

/-- the state kept by the smoother object -/
def RealSmoother.State : RealSmoother K → Type
  | .gaussSeidel => Unit
  | .dampedJacobi _ => Vec K
  | .spai0 _ => Vec K

/-- the model record consumed by `Amg.build` / `Amg.cycle` -/
def RealSmoother.model : (r : RealSmoother K) → Smoother K r.State
  | .gaussSeidel => (Relax.gaussSeidel : Smoother K Unit)
  | .dampedJacobi ω => Relax.jacobi ω
  | .spai0 norm => Relax.spai0 norm

/-- the sweep matrices of `Properties/C02b.lean` -/
def RealSmoother.proved : RealSmoother K → ProvedSmoother K
  | .gaussSeidel => .gaussSeidel
  | .dampedJacobi ω => .dampedJacobi ω
  | .spai0 _ => .spai0

/-- structural admissibility of a level matrix: diagonal stored once and non-zero (Gauss–Seidel, Jacobi), no repeated
column in a row (SPAI-0) -/
def RealSmoother.Adm : RealSmoother K → CRS K → Prop
  | .gaussSeidel => AdmDiag
  | .dampedJacobi _ => AdmDiag
  | .spai0 _ => AdmNodup

/-- `norm` squares like the absolute value (SPAI-0 only) -/
def RealSmoother.NormOK : RealSmoother K → Prop
  | .spai0 norm => ∀ v, norm v * norm v = v * v
  | _ => True

theorem RealSmoother.spec (r : RealSmoother K) (hr : r.NormOK) :
    SmootherSpec r.model r.Adm r.proved.pre r.proved.post := by
  cases r with
  | gaussSeidel => exact smootherSpec_gs
  | dampedJacobi ω => exact smootherSpec_jacobi ω
  | spai0 norm => exact smootherSpec_spai0 norm hr

/-- **hierarchies built by `Amg.build` realise `Hier.build` of their own transfer operators** -/
theorem build_realizes (r : RealSmoother K) (hr : r.NormOK) {pol : Policy K} (hpol : PolicyOK pol) (prm : Params)
    (directOk : CRS K → Bool) (direct : CRS K → Vec K → Vec K) (A : CRS K) (hA : A.WF) (hsq : A.ncols = A.nrows)
    (ls : List (Level K r.State)) (hb : build prm pol r.model directOk A = .ok ls)
    (hadm : ∀ lv ∈ ls, lv.solve = none → ∀ M, lv.A = some M → r.Adm M)
    (hdir : ∀ lv ∈ ls, ∀ Ad, lv.solve = some Ad → DirectExact direct Ad) :
    Realizes r.model direct A.nrows ls
      (Hier.build r.proved.pre r.proved.post (matOf A A.nrows A.nrows) (transfersOf ls A.nrows)) := by
  have hc := C03.build_chain prm pol r.model directOk A ls hb
  have h := Chain.realizes (direct := direct) hpol (r.spec hr) hc (sortRows_wf' A hA)
    (by rw [Amg.sortRows_ncols, Amg.sortRows_nrows]; exact hsq) hadm hdir
  rwa [Amg.sortRows_nrows, matOf_sortRows] at h

end defs

section ordered
variable {K : Type} [Field K] [LinearOrder K] [IsStrictOrderedRing K] [DecidableEq K]

/-- Gauss–Seidel asks nothing of the level matrices -/
theorem levelMatrices_true {S : Type} (ls : List (Level K S)) : LevelMatrices (QTrue (𝕜 := K)) ls :=
  fun _ _ _ _ _ _ => trivial

/-- **the model preconditioner of a constructed hierarchy is SPD and its stationary iteration contracts** -/
theorem build_apply_spd_contracting (r : RealSmoother K) (hr : r.NormOK) (hp : r.proved.ParamOK) {pol : Policy K}
    (hpol : PolicyOK pol) (hnd : PolicyNodup pol) (prm : Params) (hnu : prm.npre = prm.npost) (hs : 0 < prm.npre)
    (hcy : 0 < prm.ncycle) (hpc : 0 < prm.pre_cycles) (directOk : CRS K → Bool) (direct : CRS K → Vec K → Vec K)
    (A : CRS K) (hA : A.WF) (hsq : A.ncols = A.nrows) (hAnd : A.nodupb = true)
    (hspd : IsSPD (matOf A A.nrows A.nrows)) (ls : List (Level K r.State))
    (hb : build prm pol r.model directOk A = .ok ls) (hinj : ProlongationsInjective ls)
    (hQ : LevelMatrices r.proved.Q ls) (hdir : ∀ lv ∈ ls, ∀ Ad, lv.solve = some Ad → DirectExact direct Ad) :
    ∃ B : Matrix (Fin A.nrows) (Fin A.nrows) K, IsSPD B ∧
      Contr (matOf A A.nrows A.nrows) (1 - B * matOf A A.nrows A.nrows) ∧
      ∀ (scr : List (Scratch K)) (f : Vec K), scr.length = ls.length → f.size = A.nrows →
        vecOf A.nrows (apply prm r.model direct ls scr f).1 = B *ᵥ vecOf A.nrows f := by
  have hc := C03.build_chain prm pol r.model directOk A ls hb
  have hA0 : (sortRows A).WF := sortRows_wf' A hA
  have hsq0 : (sortRows A).ncols = (sortRows A).nrows := by rw [Amg.sortRows_ncols, Amg.sortRows_nrows]; exact hsq
  have hspd0 : IsSPD (matOf (sortRows A) (sortRows A).nrows (sortRows A).nrows) := by
    rw [Amg.sortRows_nrows, matOf_sortRows]; exact hspd
  have hlspd := Chain.levels_spd hpol hc hA0 hsq0 hspd0 hinj
  have hlnd := Chain.levels_nodup hpol hnd hc hA0 hsq0 (sortRows_nodupb A hAnd)
  have hadm : ∀ lv ∈ ls, lv.solve = none → ∀ M, lv.A = some M → r.Adm M := by
    intro lv hlv hsolve M hM
    have hlm : levelMatrix lv = some M := by unfold levelMatrix; rw [hsolve]; exact hM
    have hMnd := hlnd lv hlv M hlm
    have hMd := diag_ne_zero_of_spd (hlspd lv hlv M hlm _ rfl)
    cases r with
    | gaussSeidel => exact admDiag_of_nodup hMnd hMd
    | dampedJacobi ω => exact admDiag_of_nodup hMnd hMd
    | spai0 norm => exact K2.nodupb_iff.mp hMnd
  have hreal := build_realizes r hr hpol prm directOk direct A hA hsq ls hb hadm hdir
  have hgood := Chain.transfers_good (Q := r.proved.Q) hpol hc hA0 hsq0 hinj hQ
  rw [Amg.sortRows_nrows, matOf_sortRows] at hgood
  obtain ⟨h1, h2, -⟩ := C02b.amg_spd_contracting_partial r.proved hp (cyc prm) hnu hs hcy hpc
    (matOf A A.nrows A.nrows) hspd (transfersOf ls A.nrows) hgood
  exact ⟨_, h1, h2, fun scr f hl hf => apply_realizes prm hpc hreal scr f hl hf⟩

end ordered

/-! ### injective prolongations from the coarsening -/
section injective
variable {K S : Type} [Field K] [DecidableEq K]

/-- every prolongation returned by the coarsening is injective -/
def PolicyInjective (pol : Policy K) : Prop :=
  ∀ idx (A P0 R0 : CRS K), A.WF → A.ncols = A.nrows → pol.transfer idx A = some (P0, R0) →
    ∀ n m, P0.nrows = n → P0.ncols = m → ∀ w : Fin m → K, matOf P0 n m *ᵥ w = 0 → w = 0

theorem Chain.prolongationsInjective {pol : Policy K} {sm : Smoother K S} {allow : Bool} (hpol : PolicyOK pol)
    (hinj : PolicyInjective pol) {idx : Nat} {A : CRS K} {ls : List (Level K S)} (hc : Chain pol sm allow idx A ls)
    (hA : A.WF) (hsq : A.ncols = A.nrows) : ProlongationsInjective ls := by
  induction hc with
  | relaxLast idx A lv hl =>
    intro lv' hlv' P hP
    rw [List.mem_singleton.mp hlv', hl.hP] at hP; cases hP
  | solveLast idx A lv hl =>
    intro lv' hlv' P hP
    rw [List.mem_singleton.mp hlv', hl.hP] at hP; cases hP
  | cons idx A lv P R rest hl hne hc ih =>
    obtain ⟨nxt, rest', rfl⟩ := List.exists_cons_of_ne_nil hne
    obtain ⟨_, _, _, _, _, _, hA'wf, _, hA'sq, _, _⟩ := cons_step hpol hl hA hsq hc
    have ih' := ih hA'wf hA'sq
    intro lv' hlv' P' hP'
    rcases List.mem_cons.mp hlv' with rfl | hin
    · rw [hl.hP] at hP'; cases hP'
      obtain ⟨P0, R0, ht, hP, _⟩ := hl.htr
      intro n m hn hm w hw
      subst hP
      rw [matOf_sortRows] at hw
      exact hinj idx A P0 R0 hA hsq ht n m (by rw [← hn, Amg.sortRows_nrows]) hm w hw
    · exact ih' lv' hin P' hP'

end injective

/-! ### the plain-aggregation policy of C04 -/
section aggregation
variable {K : Type} [Field K] [LinearOrder K] [IsStrictOrderedRing K] [DecidableEq K]

omit [LinearOrder K] [IsStrictOrderedRing K] [DecidableEq K] in
/-- the tentative prolongation of a partition into non-empty aggregates is injective -/
theorem ptent_injective (n count : Nat) (id : Array Int) (hsz : id.size = n)
    (hne : ∀ a, a < count → ∃ i, i < n ∧ id.getD i 0 = (a : Int)) (w : Fin count → K)
    (hw : matOf (tentativeProlongation n count id : CRS K) n count *ᵥ w = 0) : w = 0 := by
  funext a
  obtain ⟨i, hi, hia⟩ := hne a.val a.isLt
  have hd : id.getD i aggrRemoved = (a.val : Int) := by
    rw [← hia]; simp [Array.getD, show i < id.size by omega]
  have hrow := congrFun hw ⟨i, hi⟩
  simp only [mulVec, dotProduct, matOf_apply, Pi.zero_apply] at hrow
  rw [Finset.sum_eq_single a] at hrow
  · rw [(C04.ptent_columns n count id).2.2.2.1, if_pos ⟨hi, hd⟩, one_mul] at hrow
    exact hrow
  · intro b _ hba
    rw [(C04.ptent_columns n count id).2.2.2.1, if_neg, zero_mul]
    rintro ⟨_, hb⟩
    rw [hd] at hb
    exact hba (Fin.ext (by exact_mod_cast hb.symm))
  · intro h; exact absurd (Finset.mem_univ a) h

/-- what `aggregationPolicy` returns on a square well-formed matrix (`block_size = 1`) -/
theorem aggregation_transfer_spec (norm : K → K) (aprm : AggrParams K) (hb : aprm.blockSize = 1)
    (hm : aprm.minAggregate ≤ 1) (nt : Nat) (s : K) (idx : Nat) (A P0 R0 : CRS K)
    (ht : (aggregationPolicy norm aprm nt s).transfer idx A = some (P0, R0)) :
    ∃ agg : Aggregates, plainAggregates aprm.epsSq A = .ok agg ∧
      P0 = tentativeProlongation A.nrows agg.count agg.id ∧ R0 = transpose id P0 := by
  simp only [aggregationPolicy] at ht
  unfold aggregationTransfer at ht
  rw [hb, C04.pointwise_block_one norm aprm.epsSq aprm.minAggregate hm A] at ht
  cases hagg : plainAggregates aprm.epsSq A with
  | emptyLevel => rw [hagg] at ht; simp at ht
  | precondition => rw [hagg] at ht; simp at ht
  | ok agg =>
    rw [hagg] at ht
    simp only [Option.some.injEq, Prod.mk.injEq] at ht
    obtain ⟨hP0, hR0⟩ := ht
    exact ⟨agg, rfl, hP0.symm, by rw [← hR0, ← hP0]⟩

/-- **plain aggregation (`over_interp = 1`) satisfies the policy hypotheses of the bridge** -/
theorem policyOK_aggregation (norm : K → K) (aprm : AggrParams K) (hb : aprm.blockSize = 1)
    (hm : aprm.minAggregate ≤ 1) (nt : Nat) : PolicyOK (aggregationPolicy norm aprm nt 1) := by
  refine ⟨fun idx A P0 R0 _ _ ht => ?_, fun A P R n m => policy_coarse_scaledGalerkin_one nt A P R n m⟩
  obtain ⟨agg, hagg, hP0, hR0⟩ := aggregation_transfer_spec norm aprm hb hm nt 1 idx A P0 R0 ht
  obtain ⟨_, _, hsize, hids, _⟩ := C04.plain_aggregates_partition aprm.epsSq A agg hagg
  have hidr : ∀ i, i < A.nrows → agg.id.getD i aggrRemoved < 0 ∨ agg.id.getD i aggrRemoved < (agg.count : Int) := by
    intro i hi
    have hin : i < agg.id.size := by rw [hsize]; exact hi
    have e : agg.id.getD i aggrRemoved = agg.id.getD i 0 := by simp [Array.getD, hin]
    rw [e]
    obtain ⟨h1, h2⟩ := hids i hi
    by_cases hany : (agg.strong.getD i []).any id = true
    · exact Or.inr (h2 hany).2
    · have := h1 (by simpa using hany); left; omega
  obtain ⟨p1, _, p3⟩ := tentativeProlongation_shape (K := K) A.nrows agg.count agg.id hidr
  exact ⟨hR0, hP0 ▸ p3, hP0 ▸ p1⟩

theorem policyNodup_aggregation (norm : K → K) (aprm : AggrParams K) (hb : aprm.blockSize = 1)
    (hm : aprm.minAggregate ≤ 1) (nt : Nat) (s : K) : PolicyNodup (aggregationPolicy norm aprm nt s) := by
  refine ⟨fun idx A P0 R0 ht => ?_, fun A P R hP hPs => policyNodup_coarse_scaledGalerkin nt s A P R hP hPs⟩
  obtain ⟨agg, _, hP0, _⟩ := aggregation_transfer_spec norm aprm hb hm nt s idx A P0 R0 ht
  rw [K2.nodupb_iff]
  intro i
  by_cases hi : i < A.nrows
  · rw [hP0, (C04.ptent_columns (K := K) A.nrows agg.count agg.id).2.2.1 i hi]
    split <;> simp
  · rw [K2.row_eq_nil_of_ge _ (by rw [hP0, (C04.ptent_columns (K := K) A.nrows agg.count agg.id).1]; omega)]
    exact List.nodup_nil

/-- every aggregate is non-empty, hence `P_tent` is injective -/
theorem policyInjective_aggregation (norm : K → K) (aprm : AggrParams K) (hb : aprm.blockSize = 1)
    (hm : aprm.minAggregate ≤ 1) (nt : Nat) (s : K) : PolicyInjective (aggregationPolicy norm aprm nt s) := by
  intro idx A P0 R0 _ _ ht n m hn hmc w hw
  obtain ⟨agg, hagg, hP0, _⟩ := aggregation_transfer_spec norm aprm hb hm nt s idx A P0 R0 ht
  obtain ⟨_, _, hsize, _, hne⟩ := C04.plain_aggregates_partition aprm.epsSq A agg hagg
  subst hP0
  have e1 : n = A.nrows := by rw [← hn]; exact (C04.ptent_columns (K := K) A.nrows agg.count agg.id).1
  have e2 : m = agg.count := hmc.symm
  subst e1 e2
  exact ptent_injective A.nrows agg.count agg.id hsize hne w hw

end aggregation

end Amgcl.Energy.Bridge
