import Amgcl.Proofs.SolverBiCGStab
/-!
BiCGStab with an exact preconditioner, LEFT preconditioning (C05), and the statement for both sides and both settings
of `check_after`.

Left preconditioning runs the recurrence on `r = P(f − A x)`; the first pass computes `v = P(A p)` with `p = r`, so
what makes `α = 1` and `s = r − v = 0` is `P(A u) = u` (a left inverse), while `f − A x = 0` for the returned
`x = x₀ + P(f − A x₀)` needs `A(P v) = v` (a right inverse) as for right preconditioning.  For a linear `P` on a square
system the two are equivalent; here `P` is an arbitrary function, so both are hypotheses.
-/
namespace Amgcl.Solver.BiCGStab
open Amgcl Amgcl.Solver
set_option linter.unusedSectionVars false
set_option linter.unusedSimpArgs false

variable {K : Type} [Field K] [DecidableEq K] [LT K] [DecidableLT K]

/-- the state after the first pass when `P·(A u) = u` (left preconditioning): `v = p = r`, `α = 1`, `s = 0`, exit
after the half step -/
theorem exact_first_pass_left (prm : Params K) (hside : prm.pside = .left)
    (ip : Vec K → Vec K → K) (sqrt : K → K) (A : CRS K) (P : Vec K → Vec K) (hP : ∀ v, (P v).size = A.ncols)
    (hPA : ∀ u z, u.size = A.ncols → P (spmv 1 A u 0 z) = u) (ws : Work K) (f x0 : Vec K) (e : K)
    (hne : ip (P (residual f A x0)) (P (residual f A x0)) ≠ 0)
    (hz : nrm ip sqrt (vclear A.ncols) = 0) (heps : ¬ e < 0) :
    ∃ st, body .left ip sqrt A P e (init prm ip sqrt A P ws f x0 e) = .ok st ∧
      st.iter = 1 ∧ st.res = 0 ∧ st.w.s = vclear A.ncols ∧
      st.x = axpby 1 (P (residual f A x0)) 1 x0 := by
  have hr : (init prm ip sqrt A P ws f x0 e).w.r = P (residual f A x0) := by
    rw [init_r, hside]; rfl
  have hrh : (init prm ip sqrt A P ws f x0 e).w.rh = P (residual f A x0) := by
    show vcopy _ = _
    rw [vcopy_eq]; simp only [hside]
  have hnp : newP (init prm ip sqrt A P ws f x0 e) (ip (P (residual f A x0)) (P (residual f A x0)))
      = .ok (P (residual f A x0)) := by
    unfold newP
    simp only [init, if_true, hside, vcopy_eq]
  have hx0 : (init prm ip sqrt A P ws f x0 e).x = x0 := rfl
  have hit0 : (init prm ip sqrt A P ws f x0 e).iter = 0 := rfl
  have hv : ∀ z, P (spmv 1 A (P (residual f A x0)) 0 z) = P (residual f A x0) := fun z => hPA _ z (hP _)
  have hhalf_s : (half .left ip sqrt A P (init prm ip sqrt A P ws f x0 e) (P (residual f A x0))).s
      = vclear A.ncols := by
    unfold half
    simp only [pspmv, hr, hrh, hv, div_self hne]
    rw [axpbypcz_cancel, hP]
  have hhalf_x : (half .left ip sqrt A P (init prm ip sqrt A P ws f x0 e) (P (residual f A x0))).x
      = axpby 1 (P (residual f A x0)) 1 x0 := by
    unfold half
    simp only [pspmv, hr, hrh, hv, div_self hne, hx0]
  have hhalf_res : (half .left ip sqrt A P (init prm ip sqrt A P ws f x0 e) (P (residual f A x0))).res = 0 := by
    show nrm ip sqrt (half .left ip sqrt A P (init prm ip sqrt A P ws f x0 e) (P (residual f A x0))).s = 0
    rw [hhalf_s, hz]
  unfold body
  simp only [hr, hrh, hnp, hhalf_res, heps, if_false]
  exact ⟨_, rfl, by simp only [hit0], rfl, hhalf_s, hhalf_x⟩

/-- `exact_first_pass` (right preconditioning) without the hypothesis on `check_after`, which a pass does not read -/
theorem exact_first_pass_right (prm : Params K) (hside : prm.pside = .right)
    (ip : Vec K → Vec K → K) (sqrt : K → K) (A : CRS K) (P : Vec K → Vec K)
    (hAP : ∀ v z, v.size = A.nrows → spmv 1 A (P v) 0 z = v) (ws : Work K) (f x0 : Vec K) (e : K)
    (hne : ip (residual f A x0) (residual f A x0) ≠ 0)
    (hz : nrm ip sqrt (vclear A.nrows) = 0) (heps : ¬ e < 0) :
    ∃ st, body .right ip sqrt A P e (init prm ip sqrt A P ws f x0 e) = .ok st ∧
      st.iter = 1 ∧ st.res = 0 ∧ st.w.s = vclear A.nrows ∧
      st.x = axpby 1 (P (residual f A x0)) 1 x0 := by
  have hr : (init prm ip sqrt A P ws f x0 e).w.r = residual f A x0 := by
    rw [init_r, hside]; rfl
  have hrh : (init prm ip sqrt A P ws f x0 e).w.rh = residual f A x0 := by
    show vcopy _ = _
    rw [vcopy_eq]; simp only [hside]
  have hnp : newP (init prm ip sqrt A P ws f x0 e) (ip (residual f A x0) (residual f A x0))
      = .ok (residual f A x0) := by
    unfold newP
    simp only [init, if_true, hside, vcopy_eq]
  have hx0 : (init prm ip sqrt A P ws f x0 e).x = x0 := rfl
  have hit0 : (init prm ip sqrt A P ws f x0 e).iter = 0 := rfl
  have hhalf_s : (half .right ip sqrt A P (init prm ip sqrt A P ws f x0 e) (residual f A x0)).s
      = vclear A.nrows := by
    unfold half
    simp only [pspmv, hr, hrh, hAP _ _ (residual_size' f A x0), div_self hne]
    rw [axpbypcz_cancel, residual_size']
  have hhalf_x : (half .right ip sqrt A P (init prm ip sqrt A P ws f x0 e) (residual f A x0)).x
      = axpby 1 (P (residual f A x0)) 1 x0 := by
    unfold half
    simp only [pspmv, hr, hrh, hAP _ _ (residual_size' f A x0), div_self hne, hx0]
  have hhalf_res : (half .right ip sqrt A P (init prm ip sqrt A P ws f x0 e) (residual f A x0)).res = 0 := by
    show nrm ip sqrt (half .right ip sqrt A P (init prm ip sqrt A P ws f x0 e) (residual f A x0)).s = 0
    rw [hhalf_s, hz]
  unfold body
  simp only [hr, hrh, hnp, hhalf_res, heps, if_false]
  exact ⟨_, rfl, by simp only [hit0], rfl, hhalf_s, hhalf_x⟩

/-- the loop after a first pass that ended with `res = 0`: one pass, normal exit -/
theorem final_of_first_pass (prm : Params K) (ip : Vec K → Vec K → K) (sqrt : K → K) (A : CRS K) (P : Vec K → Vec K)
    (ws : Work K) (f x0 : Vec K) (nf : K) (hmax : 1 ≤ prm.maxiter)
    (hstart : epsTol prm nf < (init prm ip sqrt A P ws f x0 (epsTol prm nf)).res)
    (heps : ¬ epsTol prm nf < 0) (st : St K)
    (hb : body prm.pside ip sqrt A P (epsTol prm nf) (init prm ip sqrt A P ws f x0 (epsTol prm nf)) = .ok st)
    (h2 : st.res = 0) : final prm ip sqrt A P ws f x0 nf = (none, st) := by
  obtain ⟨m, hm⟩ : ∃ m, prm.maxiter = m + 1 := ⟨prm.maxiter - 1, by omega⟩
  unfold final loop
  rw [hm, loopE]
  have hc : cond (epsTol prm nf) (init prm ip sqrt A P ws f x0 (epsTol prm nf)) = true := by
    simp only [cond]; exact decide_eq_true hstart
  rw [if_pos hc, hb]
  apply loopE_of_not_cond
  simp only [cond, h2]
  exact decide_eq_false heps

/-- **exact preconditioner, both sides, both settings of `check_after`**: one pass, `res = 0`,
`x = x₀ + P(f − A x₀)` -/
theorem exact_final_both (prm : Params K) (ip : Vec K → Vec K → K) (sqrt : K → K) (A : CRS K) (P : Vec K → Vec K)
    (hP : ∀ v, (P v).size = A.ncols)
    (hAP : ∀ v z, v.size = A.nrows → spmv 1 A (P v) 0 z = v)
    (hPA : prm.pside = .left → ∀ u z, u.size = A.ncols → P (spmv 1 A u 0 z) = u)
    (ws : Work K) (f x0 : Vec K) (nf : K)
    (hne : ip (Rf prm.pside P f A x0) (Rf prm.pside P f A x0) ≠ 0) (hmax : 1 ≤ prm.maxiter)
    (hstart : epsTol prm nf < (init prm ip sqrt A P ws f x0 (epsTol prm nf)).res)
    (hz : nrm ip sqrt (vclear (Rf prm.pside P f A x0).size) = 0) (heps : ¬ epsTol prm nf < 0) :
    ∃ st, final prm ip sqrt A P ws f x0 nf = (none, st) ∧ st.iter = 1 ∧ st.res = 0 ∧
      st.x = axpby 1 (P (residual f A x0)) 1 x0 := by
  cases hside : prm.pside with
  | right =>
    rw [hside] at hne hz
    have hz' : nrm ip sqrt (vclear A.nrows) = 0 := by
      have : (Rf .right P f A x0).size = A.nrows := residual_size' f A x0
      rw [this] at hz; exact hz
    obtain ⟨st, hb, h1, h2, _, h4⟩ :=
      exact_first_pass_right prm hside ip sqrt A P hAP ws f x0 (epsTol prm nf) hne hz' heps
    exact ⟨st, final_of_first_pass prm ip sqrt A P ws f x0 nf hmax hstart heps st (by rw [hside]; exact hb) h2,
      h1, h2, h4⟩
  | left =>
    rw [hside] at hne hz
    have hz' : nrm ip sqrt (vclear A.ncols) = 0 := by
      have : (Rf .left P f A x0).size = A.ncols := hP _
      rw [this] at hz; exact hz
    obtain ⟨st, hb, h1, h2, _, h4⟩ :=
      exact_first_pass_left prm hside ip sqrt A P hP (hPA hside) ws f x0 (epsTol prm nf) hne hz' heps
    exact ⟨st, final_of_first_pass prm ip sqrt A P ws f x0 nf hmax hstart heps st (by rw [hside]; exact hb) h2,
      h1, h2, h4⟩

/-- the value `res` the loop is entered with -/
theorem init_res (prm : Params K) (ip : Vec K → Vec K → K) (sqrt : K → K) (A : CRS K) (P : Vec K → Vec K)
    (ws : Work K) (f x0 : Vec K) (e : K) :
    (init prm ip sqrt A P ws f x0 e).res
      = if prm.checkAfter then two * e else nrm ip sqrt (Rf prm.pside P f A x0) := by
  unfold init Rf
  cases prm.pside <;> rfl

end Amgcl.Solver.BiCGStab
