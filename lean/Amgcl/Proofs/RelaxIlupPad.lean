import Amgcl.Proofs.RelaxIlupPower
import Amgcl.Proofs.RelaxIlu0
/-!
ILUP (`Model/RelaxIlup.lean`): the scatter loop, and `ilupPad k A = padPattern (patPower A k) A`.

For a row `r` of `A` with strictly increasing columns, all of which occur in the (strictly increasing) column list `L` of the row
of `P`: the `while` loop stops at the position of the column in `L` (never at `p_end`), so every value of `r` lands in its slot
and the other slots keep the zero written by `std::fill`.
-/
set_option linter.unusedSectionVars false
set_option linter.unusedVariables false
namespace Amgcl
namespace Relax
open Finset

variable {K : Type} [Field K] [DecidableEq K]

theorem strict_getElem_lt {L : List Nat} (hs : L.Pairwise (· < ·)) {p q : Nat} (hq : q < L.length) (hpq : p < q) :
    L[p]'(by omega) < L[q] :=
  List.pairwise_iff_getElem.mp hs p q (by omega) hq hpq

/-- the `while` loop stops at the position of `c` -/
theorem ilupAdvance_spec (L : List Nat) (hs : L.Pairwise (· < ·)) (c idx : Nat) (hidx : idx < L.length) (e : L[idx] = c) :
    ∀ fuel jp, jp ≤ idx → idx - jp ≤ fuel → ilupAdvance L.toArray c fuel jp = idx := by
  intro fuel
  induction fuel with
  | zero => intro jp h1 h2; unfold ilupAdvance; omega
  | succ fuel ih =>
    intro jp h1 h2
    unfold ilupAdvance
    by_cases hj : jp = idx
    · subst hj
      have : ¬ (jp < L.toArray.size && L.toArray.getD jp 0 < c) = true := by
        simp [Array.getD, hidx, e]
      rw [if_neg this]
    · have hlt : jp < idx := by omega
      have h3 : L[jp]'(by omega) < c := by rw [← e]; exact strict_getElem_lt hs hidx hlt
      have : (jp < L.toArray.size && L.toArray.getD jp 0 < c) = true := by
        have hjl : jp < L.length := by omega
        simp [Array.getD, hjl, h3]
      rw [if_pos this]
      exact ih (jp + 1) (by omega) (by omega)

/-- the scatter loop on a row with strictly increasing columns contained in `L` -/
theorem ilupScatter_spec (L : List Nat) (hs : L.Pairwise (· < ·)) (r : Row K) (hr : r.Pairwise (fun a b => a.1 < b.1))
    (hsub : ∀ a ∈ r, a.1 ∈ L) (jp : Nat) (hjp : ∀ a ∈ r, ∀ p, (hp : p < L.length) → L[p] = a.1 → jp ≤ p) (vals : Array K)
    (hv : vals.size = L.length) :
    ∃ vals', ilupScatter L.toArray r jp vals = .ok vals' ∧ vals'.size = L.length ∧
      ∀ p, (hp : p < L.length) → vals'.getD p 0 = if L[p] ∈ r.map (·.1) then rowGet r L[p] else vals.getD p 0 := by
  induction r generalizing jp vals with
  | nil => exact ⟨vals, rfl, hv, fun p hp => by simp⟩
  | cons a t ih =>
    obtain ⟨c, v⟩ := a
    rw [List.pairwise_cons] at hr
    obtain ⟨idx, hidx, e⟩ := List.getElem_of_mem (hsub (c, v) List.mem_cons_self)
    have hjp0 : jp ≤ idx := hjp (c, v) List.mem_cons_self idx hidx e
    have hadv := ilupAdvance_spec L hs c idx hidx e L.toArray.size jp hjp0 (by simp; omega)
    unfold ilupScatter
    simp only [hadv]
    have hsz : idx < L.toArray.size := by simpa using hidx
    rw [if_pos hsz]
    have hget : L.toArray.getD idx 0 = c := by simp [Array.getD, hidx, e]
    rw [if_pos hget]
    obtain ⟨vals', h1, h2, h3⟩ := ih hr.2 (fun b hb => hsub b (List.mem_cons_of_mem _ hb)) idx
      (fun b hb p hp ep => by
        have hcb : c < b.1 := hr.1 b hb
        by_contra hlt
        have hlt' : p < idx := by omega
        have := strict_getElem_lt hs hidx hlt'
        rw [ep, e] at this
        omega)
      (vals.setIfInBounds idx v) (by rw [Array.size_setIfInBounds]; exact hv)
    refine ⟨vals', h1, h2, ?_⟩
    intro p hp
    rw [h3 p hp]
    have hnotin : c ∉ t.map (·.1) := by
      intro hm
      obtain ⟨b, hb, eb⟩ := List.mem_map.mp hm
      have := hr.1 b hb
      rw [eb] at this
      exact Nat.lt_irrefl _ this
    by_cases hpi : p = idx
    · subst hpi
      rw [e, if_neg hnotin, getD_setIfInBounds_self _ _ _ _ (by rw [hv]; exact hidx)]
      rw [if_pos (by simp), rowGet_cons', if_pos rfl, rowGet_eq_zero_of_not_mem t c hnotin, add_zero]
    · have hne : L[p] ≠ c := by
        intro ec
        have hnd : L.Nodup := hs.imp (fun h => Nat.ne_of_lt h)
        exact hpi ((List.Nodup.getElem_inj_iff hnd).mp (ec.trans e.symm))
      rw [getD_setIfInBounds_ne _ _ _ _ _ (Ne.symm hpi)]
      have hmem : L[p] ∈ ((c, v) :: t).map (·.1) ↔ L[p] ∈ t.map (·.1) := by
        rw [List.map_cons, List.mem_cons]
        exact ⟨fun h => h.elim (fun h' => absurd h' hne) id, Or.inr⟩
      simp only [hmem]
      rw [rowGet_cons', if_neg (Ne.symm hne), zero_add]

/-- one row of the padded matrix -/
theorem ilupPadRow_spec (L : List Nat) (hs : L.Pairwise (· < ·)) (r : Row K) (hr : r.Pairwise (fun a b => a.1 < b.1))
    (hsub : ∀ a ∈ r, a.1 ∈ L) : ilupPadRow L r = .ok (L.map (fun j => (j, rowGet r j))) := by
  obtain ⟨vals', h1, h2, h3⟩ := ilupScatter_spec L hs r hr hsub 0 (fun _ _ _ _ _ => Nat.zero_le _)
    (Array.replicate L.length (0 : K)) (by simp)
  unfold ilupPadRow
  rw [h1]
  show SetupOutcome.ok (L.zip vals'.toList) = _
  congr 1
  apply List.ext_getElem
  · simp [h2]
  · intro p hp1 hp2
    have hp : p < L.length := by simpa using hp2
    have hvp : p < vals'.size := by rw [h2]; exact hp
    rw [List.getElem_zip, List.getElem_map]
    congr 1
    have := h3 p hp
    rw [show vals'.getD p 0 = vals'[p] by simp [Array.getD, hvp]] at this
    simp only [Array.getElem_toList]
    rw [this]
    split
    · rfl
    · rename_i hnm
      rw [rowGet_eq_zero_of_not_mem r _ hnm]
      simp [Array.getD, hp]

theorem ilupPadRows_ok (P : Pat) (A : CRS K) (g : Nat → Row K) (l : List Nat)
    (h : ∀ i ∈ l, ilupPadRow (P.getD i []) (A.row i) = .ok (g i)) (rows : Array (Row K)) :
    ilupPadRows P A l rows = .ok (rows ++ (l.map g).toArray) := by
  induction l generalizing rows with
  | nil => simp [ilupPadRows]
  | cons i t ih =>
    unfold ilupPadRows
    rw [h i List.mem_cons_self]
    simp only []
    rw [ih (fun j hj => h j (List.mem_cons_of_mem _ hj))]
    simp

theorem patMul_eq_true (n : Nat) (p q : Nat → Nat → Bool) (i j : Nat) :
    patMul n p q i j = true ↔ ∃ k, k < n ∧ p i k = true ∧ q k j = true := by
  unfold patMul
  rw [List.any_eq_true]
  constructor
  · rintro ⟨k, hk, h⟩; rw [Bool.and_eq_true] at h; exact ⟨k, List.mem_range.mp hk, h⟩
  · rintro ⟨k, hk, h⟩; exact ⟨k, List.mem_range.mpr hk, by rw [Bool.and_eq_true]; exact h⟩

theorem filter_map_eq_filterMap {α β : Type} (l : List α) (f : α → Bool) (g : α → β) :
    (l.filter f).map g = l.filterMap (fun j => if f j = true then some (g j) else none) := by
  induction l with
  | nil => rfl
  | cons a t ih =>
    by_cases h : f a = true
    · simp [List.filter_cons, List.filterMap_cons, h, ih]
    · simp [List.filter_cons, List.filterMap_cons, h, ih]

/-- with a stored diagonal the pattern of `A` is contained in every boolean power -/
theorem patOf_le_patPower (A : CRS K) (hd : hasDiagb A = true) (k i j : Nat) (hi : i < A.nrows) (hj : j < A.nrows)
    (h : patOf A i j = true) : patPower A k i j = true := by
  rw [patPower_eq_iter]
  induction k with
  | zero =>
    rw [Function.iterate_zero, id, patGet_patTab]
    simp [hi, hj, h]
  | succ k ih =>
    rw [Function.iterate_succ_apply', patGet_patTab]
    simp only [hi, hj, decide_true, Bool.true_and]
    rw [patMul_eq_true]
    refine ⟨j, hj, ih, ?_⟩
    rw [patGet_patTab]
    simp only [hj, decide_true, Bool.true_and]
    unfold hasDiagb at hd
    rw [List.all_eq_true] at hd
    have := hd j (List.mem_range.mpr hj)
    exact this

/-- **the matrix `ilup` hands to `ilu0`** is `A` stored on the sorted pattern of `A^(k+1)` -/
theorem ilupPad_eq (k : Nat) (hk : k ≠ 0) (A : CRS K) (hA : A.WF) (hsq : A.ncols = A.nrows) (hs : A.sortedb = true)
    (hd : hasDiagb A = true) : ilupPad k A = .ok (padPattern (patPower A k) A) := by
  obtain ⟨psz, prow⟩ := ilupPattern_spec k hk A hA hsq
  have hrows : ∀ i ∈ List.range A.nrows, ilupPadRow ((ilupPattern k A).getD i []) (A.row i)
      = .ok ((List.range A.nrows).filterMap (fun j => if patPower A k i j then some (j, A.get i j) else none)) := by
    intro i hi
    have hi' := List.mem_range.mp hi
    obtain ⟨pstrict, pmem⟩ := prow i hi'
    have hrs : (A.row i).Pairwise (fun a b => a.1 < b.1) := (K2.sortedb_iff.mp hs) i
    rw [ilupPadRow_spec _ pstrict (A.row i) hrs (fun a ha => by
      rw [pmem]
      have hj : a.1 < A.nrows := by rw [← hsq]; exact hA.row_lt i a ha
      exact ⟨hj, patOf_le_patPower A hd k i a.1 hi' hj ((patOf_iff_mem A i a.1).mpr (List.mem_map.mpr ⟨a, ha, rfl⟩))⟩)]
    congr 1
    have hL : (ilupPattern k A).getD i [] = (List.range A.nrows).filter (fun j => patPower A k i j) := by
      apply List.Pairwise.eq_of_mem_iff pstrict (List.Pairwise.filter _ List.pairwise_lt_range)
      intro j
      rw [pmem, List.mem_filter, List.mem_range]
    rw [hL, filter_map_eq_filterMap]
    rfl
  unfold ilupPad
  rw [ilupPadRows_ok _ A _ (List.range A.nrows) hrows #[]]
  simp only []
  congr 1
  unfold padPattern
  congr 1
  apply Array.ext
  · simp
  · intro i h1 h2
    have hi : i < A.nrows := by simpa using h2
    simp [hi]

end Relax
end Amgcl
