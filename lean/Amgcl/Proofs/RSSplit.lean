import Amgcl.Proofs.RSSwap
import Amgcl.Proofs.RSMove
namespace Amgcl
namespace RS

def incCore (s : Split) (ac : Nat) : Split :=
  let a := s.L ac
  let s1 := swapPos s (s.N2I ac) (s.Pt a + s.Cn a - 1)
  let cnt := (s1.cnt.modify a (· - 1)).modify (a + 1) (· + 1)
  { s1 with cnt := cnt,
            ptr := s1.ptr.setIfInBounds (a + 1) (s1.ptr.getD a 0 + cnt.getD a 0),
            lambda := s1.lambda.setIfInBounds ac (a + 1) }

theorem incLambda_eq (n : Nat) (s : Split) (cs : Nat × Bool) :
    incLambda n s cs = if cs.2 = true ∧ s.M cs.1 = CF.U ∧ s.L cs.1 + 1 < n then incCore s cs.1 else s := by
  unfold incLambda
  cases h2 : cs.2 with
  | false => simp
  | true =>
    simp only [Bool.not_true, Bool.false_eq_true, if_false, true_and]
    by_cases hc : s.cf.getD cs.1 CF.U ≠ CF.U ∨ s.lambda.getD cs.1 0 + 1 ≥ n
    · rw [if_pos hc]
      have : ¬ (s.M cs.1 = CF.U ∧ s.L cs.1 + 1 < n) := by
        rintro ⟨h1, h3⟩
        rcases hc with hc | hc
        · exact hc h1
        · unfold Split.L at h3; omega
      rw [if_neg this]
    · rw [if_neg hc]
      have : s.M cs.1 = CF.U ∧ s.L cs.1 + 1 < n := by
        constructor
        · by_contra h; exact hc (Or.inl h)
        · unfold Split.L; by_contra h; exact hc (Or.inr (by omega))
      rw [if_pos this]
      rfl

theorem Inv.binv {n top : Nat} {s : Split} (h : Inv n s top) : BInv n top s.Cn s.L s.I2N s.Pt :=
  ⟨h.grp, h.tot, h.ptr⟩

theorem Inv.inj {n top : Nat} {s : Split} (h : Inv n s top) {q q' : Nat} (hq : q < n) (hq' : q' < n)
    (e : s.I2N q = s.I2N q') : q = q' := by
  have := (h.perm1 q hq).2; rw [e, (h.perm1 q' hq').2] at this; exact this.symm

/-- an undecided variable sits at a position that is still to be visited -/
theorem Inv.pos_lt_top {n top : Nat} {s : Split} (h : Inv n s top) {x : Nat} (hx : x < n) (hU : s.M x = CF.U) :
    s.N2I x < top := by
  by_contra hge
  have hp := h.perm2 x hx
  exact h.vis (s.N2I x) (by omega) hp.1 (by rw [hp.2]; exact hU)

theorem incCore_inv {n top : Nat} {s : Split} (h : Inv n s top) {ac : Nat} (hac : ac < n) (hU : s.M ac = CF.U)
    (hl : s.L ac + 1 < n) : Inv n (incCore s ac) top := by
  have ho := h.pos_lt_top hac hU
  have hIo : s.I2N (s.N2I ac) = ac := (h.perm2 ac hac).2
  have go := h.grp (s.N2I ac) ho
  rw [hIo] at go
  have hCa : 0 < s.Cn (s.L ac) := by omega
  have hPa : s.Pt (s.L ac) = pre s.Cn (s.L ac) :=
    h.ptr (s.L ac) (by omega) ⟨s.L ac, Nat.le_refl _, by omega, hCa⟩
  have hsucc : pre s.Cn (s.L ac + 1) = pre s.Cn (s.L ac) + s.Cn (s.L ac) := pre_succ _ _
  have hle : pre s.Cn (s.L ac + 1) ≤ top := by rw [← h.tot]; exact pre_mono _ (by omega)
  have htn := h.top_le
  have hon : s.N2I ac < n := by omega
  have hwt : s.Pt (s.L ac) + s.Cn (s.L ac) - 1 < top := by omega
  have hwn : s.Pt (s.L ac) + s.Cn (s.L ac) - 1 < n := by omega
  obtain ⟨vI, vN, vcf, vlam, vptr, vcnt, vsi, vsn⟩ :=
    swapPos_views s n (s.N2I ac) (s.Pt (s.L ac) + s.Cn (s.L ac) - 1) h.sz_i2n h.sz_n2i hon hwn
      (h.perm1 _ hon).1 (h.perm1 _ hwn).1
  have eM : ∀ x, (incCore s ac).M x = s.M x := by
    intro x
    show (swapPos s (s.N2I ac) (s.Pt (s.L ac) + s.Cn (s.L ac) - 1)).cf.getD x CF.U = _
    rw [vcf]; rfl
  have eC : ∀ l, (incCore s ac).Cn l
      = if l = s.L ac + 1 then s.Cn l + 1 else if l = s.L ac then s.Cn l - 1 else s.Cn l := by
    intro l
    show (((swapPos s (s.N2I ac) (s.Pt (s.L ac) + s.Cn (s.L ac) - 1)).cnt.modify (s.L ac) (· - 1)).modify
      (s.L ac + 1) (· + 1)).getD l 0 = _
    rw [vcnt, getD_modify, getD_modify, Array.size_modify, h.sz_cnt]
    by_cases h1 : l = s.L ac + 1
    · have h2 : ¬ (s.L ac = l ∧ s.L ac < n) := by omega
      rw [if_pos ⟨h1.symm, hl⟩, if_pos h1, if_neg h2]; rfl
    · have h1' : ¬ (s.L ac + 1 = l ∧ s.L ac + 1 < n) := fun e => h1 e.1.symm
      rw [if_neg h1', if_neg h1]
      by_cases h2 : l = s.L ac
      · rw [if_pos ⟨h2.symm, by omega⟩, if_pos h2]; rfl
      · have h2' : ¬ (s.L ac = l ∧ s.L ac < n) := fun e => h2 e.1.symm
        rw [if_neg h2', if_neg h2]; rfl
  have eP : ∀ l, (incCore s ac).Pt l = if l = s.L ac + 1 then s.Pt (s.L ac) + (s.Cn (s.L ac) - 1) else s.Pt l := by
    intro l
    have hc : (incCore s ac).cnt.getD (s.L ac) 0 = s.Cn (s.L ac) - 1 := by
      have := eC (s.L ac)
      rw [if_neg (by omega), if_pos rfl] at this
      exact this
    show ((swapPos s (s.N2I ac) (s.Pt (s.L ac) + s.Cn (s.L ac) - 1)).ptr.setIfInBounds (s.L ac + 1)
      ((swapPos s (s.N2I ac) (s.Pt (s.L ac) + s.Cn (s.L ac) - 1)).ptr.getD (s.L ac) 0
        + (incCore s ac).cnt.getD (s.L ac) 0)).getD l 0 = _
    rw [hc, vptr, getD_set, h.sz_ptr]
    by_cases h1 : l = s.L ac + 1
    · rw [if_pos ⟨h1.symm, by omega⟩, if_pos h1]; rfl
    · have h1' : ¬ (s.L ac + 1 = l ∧ s.L ac + 1 < n + 1) := fun e => h1 e.1.symm
      rw [if_neg h1', if_neg h1]; rfl
  have eL : ∀ x, (incCore s ac).L x = if x = ac then s.L ac + 1 else s.L x := by
    intro x
    show ((swapPos s (s.N2I ac) (s.Pt (s.L ac) + s.Cn (s.L ac) - 1)).lambda.setIfInBounds ac (s.L ac + 1)).getD x 0 = _
    rw [vlam, getD_set, h.sz_lam]
    by_cases h1 : x = ac
    · rw [if_pos ⟨h1.symm, hac⟩, if_pos h1]
    · have h1' : ¬ (ac = x ∧ ac < n) := fun e => h1 e.1.symm
      rw [if_neg h1', if_neg h1]; rfl
  have eI : ∀ q, (incCore s ac).I2N q = if q = s.Pt (s.L ac) + s.Cn (s.L ac) - 1 then s.I2N (s.N2I ac)
      else if q = s.N2I ac then s.I2N (s.Pt (s.L ac) + s.Cn (s.L ac) - 1) else s.I2N q := vI
  have eN : ∀ x, (incCore s ac).N2I x = if x = s.I2N (s.Pt (s.L ac) + s.Cn (s.L ac) - 1) then s.N2I ac
      else if x = s.I2N (s.N2I ac) then s.Pt (s.L ac) + s.Cn (s.L ac) - 1 else s.N2I x := vN
  have hperm := swap_perm hon hwn h.perm1 h.perm2 eI eN
  have hb := binv_inc h.binv (fun q q' hq hq' e => h.inj (by omega) (by omega) e) ho (by rw [hIo]) hl
    (by rw [hPa]) eI eC (by rw [hIo]; exact eL) eP
  exact
    { sz_cf := (congrArg Array.size vcf).trans h.sz_cf
      sz_lam := by simp only [incCore, Array.size_setIfInBounds, vlam, h.sz_lam]
      sz_ptr := by simp only [incCore, Array.size_setIfInBounds, vptr, h.sz_ptr]
      sz_cnt := by simp only [incCore, Array.size_modify, vcnt, h.sz_cnt]
      sz_i2n := vsi
      sz_n2i := vsn
      top_le := h.top_le
      perm1 := hperm.1
      perm2 := hperm.2
      grp := hb.grp
      tot := hb.tot
      ptr := hb.ptr
      vis := by
        intro p hp hpn
        rw [eI, if_neg (by omega), if_neg (by omega), eM]
        exact h.vis p hp hpn }


/-! ### the decrement loop -/

def decCore (s : Split) (c : Nat) : Split :=
  let a := s.L c
  let s1 := swapPos s (s.N2I c) (s.Pt a)
  { s1 with cnt := (s1.cnt.modify a (· - 1)).modify (a - 1) (· + 1),
            ptr := s1.ptr.modify a (· + 1),
            lambda := s1.lambda.setIfInBounds c (a - 1) }

theorem decLambda_eq (s : Split) (cs : Nat × Bool) :
    decLambda s cs = if cs.2 = true ∧ s.M cs.1 = CF.U ∧ s.L cs.1 ≠ 0 then decCore s cs.1 else s := by
  unfold decLambda
  cases h2 : cs.2 with
  | false => simp
  | true =>
    simp only [Bool.not_true, Bool.false_eq_true, if_false, true_and]
    by_cases hc : s.cf.getD cs.1 CF.U ≠ CF.U ∨ s.lambda.getD cs.1 0 = 0
    · rw [if_pos hc]
      have : ¬ (s.M cs.1 = CF.U ∧ s.L cs.1 ≠ 0) := by
        rintro ⟨h1, h3⟩
        rcases hc with hc | hc
        · exact hc h1
        · exact h3 hc
      rw [if_neg this]
    · rw [if_neg hc]
      have : s.M cs.1 = CF.U ∧ s.L cs.1 ≠ 0 := by
        constructor
        · by_contra h; exact hc (Or.inl h)
        · intro h; exact hc (Or.inr h)
      rw [if_pos this]
      rfl

theorem decCore_inv {n top : Nat} {s : Split} (h : Inv n s top) {c : Nat} (hcn : c < n) (hU : s.M c = CF.U)
    (hl : s.L c ≠ 0) : Inv n (decCore s c) top := by
  have ho := h.pos_lt_top hcn hU
  have hIo : s.I2N (s.N2I c) = c := (h.perm2 c hcn).2
  have go := h.grp (s.N2I c) ho
  rw [hIo] at go
  have hCa : 0 < s.Cn (s.L c) := by omega
  have han : s.L c < n := by
    by_contra hge
    have h1 : pre s.Cn n ≤ pre s.Cn (s.L c) := pre_mono _ (by omega)
    have := h.tot; omega
  have hPa : s.Pt (s.L c) = pre s.Cn (s.L c) := h.ptr (s.L c) han ⟨s.L c, Nat.le_refl _, han, hCa⟩
  have htn := h.top_le
  have hon : s.N2I c < n := by omega
  have hwt : s.Pt (s.L c) < top := by omega
  have hwn : s.Pt (s.L c) < n := by omega
  obtain ⟨vI, vN, vcf, vlam, vptr, vcnt, vsi, vsn⟩ :=
    swapPos_views s n (s.N2I c) (s.Pt (s.L c)) h.sz_i2n h.sz_n2i hon hwn (h.perm1 _ hon).1 (h.perm1 _ hwn).1
  have eM : ∀ x, (decCore s c).M x = s.M x := by
    intro x
    show (swapPos s (s.N2I c) (s.Pt (s.L c))).cf.getD x CF.U = _
    rw [vcf]; rfl
  have eC : ∀ l, (decCore s c).Cn l
      = if l = s.L c - 1 then s.Cn l + 1 else if l = s.L c then s.Cn l - 1 else s.Cn l := by
    intro l
    show (((swapPos s (s.N2I c) (s.Pt (s.L c))).cnt.modify (s.L c) (· - 1)).modify (s.L c - 1) (· + 1)).getD l 0 = _
    rw [vcnt, getD_modify, getD_modify, Array.size_modify, h.sz_cnt]
    by_cases h1 : l = s.L c - 1
    · have h2 : ¬ (s.L c = l ∧ s.L c < n) := by omega
      rw [if_pos ⟨h1.symm, by omega⟩, if_pos h1, if_neg h2]; rfl
    · have h1' : ¬ (s.L c - 1 = l ∧ s.L c - 1 < n) := fun e => h1 e.1.symm
      rw [if_neg h1', if_neg h1]
      by_cases h2 : l = s.L c
      · rw [if_pos ⟨h2.symm, han⟩, if_pos h2]; rfl
      · have h2' : ¬ (s.L c = l ∧ s.L c < n) := fun e => h2 e.1.symm
        rw [if_neg h2', if_neg h2]; rfl
  have eP : ∀ l, (decCore s c).Pt l = if l = s.L c then s.Pt l + 1 else s.Pt l := by
    intro l
    show ((swapPos s (s.N2I c) (s.Pt (s.L c))).ptr.modify (s.L c) (· + 1)).getD l 0 = _
    rw [vptr, getD_modify, h.sz_ptr]
    by_cases h1 : l = s.L c
    · rw [if_pos ⟨h1.symm, by omega⟩, if_pos h1]; rfl
    · have h1' : ¬ (s.L c = l ∧ s.L c < n + 1) := fun e => h1 e.1.symm
      rw [if_neg h1', if_neg h1]; rfl
  have eL : ∀ x, (decCore s c).L x = if x = c then s.L c - 1 else s.L x := by
    intro x
    show ((swapPos s (s.N2I c) (s.Pt (s.L c))).lambda.setIfInBounds c (s.L c - 1)).getD x 0 = _
    rw [vlam, getD_set, h.sz_lam]
    by_cases h1 : x = c
    · rw [if_pos ⟨h1.symm, hcn⟩, if_pos h1]
    · have h1' : ¬ (c = x ∧ c < n) := fun e => h1 e.1.symm
      rw [if_neg h1', if_neg h1]; rfl
  have eI : ∀ q, (decCore s c).I2N q = if q = s.Pt (s.L c) then s.I2N (s.N2I c)
      else if q = s.N2I c then s.I2N (s.Pt (s.L c)) else s.I2N q := vI
  have eN : ∀ x, (decCore s c).N2I x = if x = s.I2N (s.Pt (s.L c)) then s.N2I c
      else if x = s.I2N (s.N2I c) then s.Pt (s.L c) else s.N2I x := vN
  have hperm := swap_perm hon hwn h.perm1 h.perm2 eI eN
  have hb := binv_dec h.binv (fun q q' hq hq' e => h.inj (by omega) (by omega) e) ho (by rw [hIo]) hl
    rfl eI eC (by rw [hIo]; exact eL) eP
  exact
    { sz_cf := (congrArg Array.size vcf).trans h.sz_cf
      sz_lam := by simp only [decCore, Array.size_setIfInBounds, vlam, h.sz_lam]
      sz_ptr := by simp only [decCore, Array.size_modify, vptr, h.sz_ptr]
      sz_cnt := by simp only [decCore, Array.size_modify, vcnt, h.sz_cnt]
      sz_i2n := vsi
      sz_n2i := vsn
      top_le := h.top_le
      perm1 := hperm.1
      perm2 := hperm.2
      grp := hb.grp
      tot := hb.tot
      ptr := hb.ptr
      vis := by
        intro p hp hpn
        rw [eI, if_neg (by omega), if_neg (by omega), eM]
        exact h.vis p hp hpn }


/-! ### the loops over matrix rows -/

theorem incLambda_inv {n top : Nat} {s : Split} (h : Inv n s top) (cs : Nat × Bool) (hc : cs.1 < n) :
    Inv n (incLambda n s cs) top := by
  rw [incLambda_eq]
  split
  · rename_i hh; exact incCore_inv h hc hh.2.1 hh.2.2
  · exact h

theorem decLambda_inv {n top : Nat} {s : Split} (h : Inv n s top) (cs : Nat × Bool) (hc : cs.1 < n) :
    Inv n (decLambda s cs) top := by
  rw [decLambda_eq]
  split
  · rename_i hh; exact decCore_inv h hc hh.2.1 hh.2.2
  · exact h

theorem foldl_inv {n top : Nat} (f : Split → Nat × Bool → Split)
    (hf : ∀ s cs, Inv n s top → cs.1 < n → Inv n (f s cs) top) (r : List (Nat × Bool)) (hr : ∀ cs ∈ r, cs.1 < n)
    {s : Split} (h : Inv n s top) : Inv n (r.foldl f s) top := by
  induction r generalizing s with
  | nil => exact h
  | cons cs t ih =>
    rw [List.foldl_cons]
    exact ih (fun x hx => hr x (List.mem_cons_of_mem _ hx)) (hf s cs h (hr cs (List.mem_cons_self ..)))

theorem SGraph_row_lt {G : SGraph} (hG : G.WF) (i : Nat) : ∀ cs ∈ G.row i, cs.1 < G.size := by
  intro cs hcs
  unfold SGraph.row at hcs
  by_cases hi : i < G.size
  · have : G.getD i [] = G[i] := by simp [Array.getD_eq_getD_getElem?, hi]
    rw [this] at hcs
    exact hG G[i] (by simp) cs hcs
  · have : G.getD i [] = [] := by
      simp only [Array.getD_eq_getD_getElem?]
      rw [Array.getElem?_eq_none (by omega)]; rfl
    rw [this] at hcs; cases hcs

/-- changing a mark to a decided value keeps the invariant -/
theorem Inv.set_cf {n top : Nat} {s : Split} (h : Inv n s top) (c : Nat) (m : CF) (hm : m ≠ CF.U) :
    Inv n { s with cf := s.cf.setIfInBounds c m } top :=
  { sz_cf := by simp only [Array.size_setIfInBounds]; exact h.sz_cf
    sz_lam := h.sz_lam, sz_ptr := h.sz_ptr, sz_cnt := h.sz_cnt, sz_i2n := h.sz_i2n, sz_n2i := h.sz_n2i
    top_le := h.top_le, perm1 := h.perm1, perm2 := h.perm2, grp := h.grp, tot := h.tot, ptr := h.ptr
    vis := by
      intro p hp hpn
      show (s.cf.setIfInBounds c m).getD (s.I2N p) CF.U ≠ CF.U
      rw [getD_set]
      split
      · exact hm
      · exact h.vis p hp hpn }

theorem makeF_inv {n top : Nat} {s : Split} (G : SGraph) (hn : G.size = n) (hG : G.WF) (h : Inv n s top) (c : Nat) :
    Inv n (makeF G s c) top := by
  unfold makeF
  split
  · exact h
  · apply foldl_inv (incLambda G.size)
    · intro s' cs hs' hcs; rw [hn]; exact incLambda_inv hs' cs hcs
    · intro cs hcs; rw [← hn]; exact SGraph_row_lt hG c cs hcs
    · exact h.set_cf c CF.F (by decide)

theorem foldl_makeF_inv {n top : Nat} (G : SGraph) (hn : G.size = n) (hG : G.WF) (r : List Nat) {s : Split}
    (h : Inv n s top) : Inv n (r.foldl (makeF G) s) top := by
  induction r generalizing s with
  | nil => exact h
  | cons c t ih => rw [List.foldl_cons]; exact ih (makeF_inv G hn hG h c)

/-! ### removing the top variable from its group (`--cnt[lam]`) -/

theorem binv_remove {n top : Nat} {C L I Pt C' : Nat → Nat} (h : BInv n (top + 1) C L I Pt) {a : Nat}
    (ha : L (I top) = a) (hC : ∀ l, C' l = if l = a then C l - 1 else C l) :
    BInv n top C' L I Pt ∧ a < n := by
  have go := h.grp top (by omega)
  rw [ha] at go
  have hCa : 0 < C a := by omega
  have han : a < n := by
    by_contra hge
    have h1 : pre C n ≤ pre C a := pre_mono _ (by omega)
    have := h.tot; omega
  have hend : pre C a + C a = top + 1 := by
    have := pre_end_le C han; rw [h.tot] at this; omega
  have hm : ∀ l, pre C' l + (if a < l then 1 else 0) = pre C l :=
    pre_dec (c := C) (c' := C') (a := a) hCa (by rw [hC, if_pos rfl]) (fun k hk => by rw [hC, if_neg hk])
  have habove : ∀ l, a < l → l < n → C l = 0 := by
    intro l hal hln
    have h1 := pre_end_le C hal
    have h2 := pre_end_le C hln
    rw [h.tot] at h2; omega
  refine ⟨⟨?_, ?_, ?_⟩, han⟩
  · intro p hp
    have gp := h.grp p (by omega)
    obtain ⟨l, hl⟩ : ∃ l, L (I p) = l := ⟨_, rfl⟩
    rw [hl] at gp ⊢
    have := hm l
    rw [hC]
    rcases Nat.lt_trichotomy l a with hlt | heq | hgt
    · rw [if_neg (by omega)] at this ⊢; omega
    · subst heq; rw [if_neg (by omega)] at this; rw [if_pos rfl]; omega
    · have := pre_end_le C hgt; omega
  · have := hm n; rw [if_pos han] at this; rw [h.tot] at this; omega
  · intro l hl hex
    have hwit : ∃ l', l ≤ l' ∧ l' < n ∧ 0 < C l' := by
      obtain ⟨l', h1, h2, h3⟩ := hex
      refine ⟨l', h1, h2, ?_⟩
      rw [hC] at h3; split at h3 <;> omega
    rw [h.ptr l hl hwit]
    have := hm l
    by_cases hla : a < l
    · obtain ⟨l', h1, h2, h3⟩ := hwit
      have := habove l' (by omega) h2; omega
    · rw [if_neg hla] at this; omega

/-! ### one iteration of the main loop, and the loop -/

/-- what holds between iterations: after the `break` every variable is decided, otherwise the invariant -/
def LoopInv (n : Nat) (st : Split × Bool) (top : Nat) : Prop :=
  if st.2 = true then st.1.cf.size = n ∧ ∀ i, i < n → st.1.M i ≠ CF.U else Inv n st.1 top

theorem splitStep_inv {n top : Nat} (G : SGraph) (hn : G.size = n) (hG : G.WF) (sptr scol : Array Nat)
    (st : Split × Bool) (h : LoopInv n st (top + 1)) : LoopInv n (splitStep G sptr scol st top) top := by
  unfold splitStep
  by_cases hb : st.2 = true
  · rw [if_pos hb]
    unfold LoopInv at h ⊢
    rw [if_pos hb] at h ⊢; exact h
  · rw [if_neg hb]
    have hI : Inv n st.1 (top + 1) := by unfold LoopInv at h; rw [if_neg hb] at h; exact h
    simp only
    by_cases hlam : st.1.lambda.getD (st.1.i2n.getD top 0) 0 = 0
    · rw [if_pos hlam]
      unfold LoopInv
      rw [if_pos rfl]
      refine ⟨by simp only [Array.size_map]; exact hI.sz_cf, fun i hi => ?_⟩
      show (st.1.cf.map _).getD i CF.U ≠ CF.U
      have hi' : i < st.1.cf.size := by rw [hI.sz_cf]; exact hi
      simp only [Array.getD_eq_getD_getElem?, Array.getElem?_map, Array.getElem?_eq_getElem hi', Option.map_some,
        Option.getD_some]
      split
      · decide
      · assumption
    · rw [if_neg hlam]
      -- the top variable leaves its group
      have hrem := binv_remove (C' := fun l => if l = st.1.L (st.1.I2N top) then st.1.Cn l - 1 else st.1.Cn l)
        hI.binv rfl (fun _ => rfl)
      have han := hrem.2
      have hI1 : ∀ cf', cf'.size = n →
          (∀ p, top ≤ p → p < n → cf'.getD (st.1.I2N p) CF.U ≠ CF.U) →
          Inv n { st.1 with cf := cf', cnt := st.1.cnt.modify (st.1.lambda.getD (st.1.i2n.getD top 0) 0) (· - 1) } top := by
        intro cf' hsz hvis
        have eC : ∀ l, ({ st.1 with cf := cf', cnt := st.1.cnt.modify (st.1.lambda.getD (st.1.i2n.getD top 0) 0) (· - 1) } : Split).Cn l
            = if l = st.1.L (st.1.I2N top) then st.1.Cn l - 1 else st.1.Cn l := by
          intro l
          show (st.1.cnt.modify (st.1.L (st.1.I2N top)) (· - 1)).getD l 0 = _
          rw [getD_modify, hI.sz_cnt]
          by_cases h1 : l = st.1.L (st.1.I2N top)
          · rw [if_pos ⟨h1.symm, han⟩, if_pos h1]; rfl
          · have h1' : ¬ (st.1.L (st.1.I2N top) = l ∧ st.1.L (st.1.I2N top) < n) := fun e => h1 e.1.symm
            rw [if_neg h1', if_neg h1]; rfl
        have hb' : BInv n top ({ st.1 with cf := cf', cnt := st.1.cnt.modify (st.1.lambda.getD (st.1.i2n.getD top 0) 0) (· - 1) } : Split).Cn
            st.1.L st.1.I2N st.1.Pt := by
          have : ({ st.1 with cf := cf', cnt := st.1.cnt.modify (st.1.lambda.getD (st.1.i2n.getD top 0) 0) (· - 1) } : Split).Cn
              = fun l => if l = st.1.L (st.1.I2N top) then st.1.Cn l - 1 else st.1.Cn l := funext eC
          rw [this]; exact hrem.1
        exact
          { sz_cf := hsz, sz_lam := hI.sz_lam, sz_ptr := hI.sz_ptr
            sz_cnt := by simp only [Array.size_modify]; exact hI.sz_cnt
            sz_i2n := hI.sz_i2n, sz_n2i := hI.sz_n2i
            top_le := by have := hI.top_le; omega
            perm1 := hI.perm1, perm2 := hI.perm2
            grp := hb'.grp, tot := hb'.tot, ptr := hb'.ptr
            vis := hvis }
      by_cases hF : st.1.cf.getD (st.1.i2n.getD top 0) CF.U = CF.F
      · rw [if_pos hF]
        unfold LoopInv
        rw [if_neg (by simp)]
        apply hI1 st.1.cf hI.sz_cf
        intro p hp hpn
        by_cases hpt : p = top
        · subst hpt
          show st.1.cf.getD (st.1.i2n.getD p 0) CF.U ≠ CF.U
          rw [hF]; decide
        · exact hI.vis p (by omega) hpn
      · rw [if_neg hF]
        unfold LoopInv
        rw [if_neg (by simp)]
        have hI2 := hI1 (st.1.cf.setIfInBounds (st.1.i2n.getD top 0) CF.C)
          (by simp only [Array.size_setIfInBounds]; exact hI.sz_cf)
          (by
            intro p hp hpn
            rw [getD_set]
            split
            · decide
            · rename_i hne
              by_cases hpt : p = top
              · subst hpt
                exfalso; apply hne
                refine ⟨rfl, ?_⟩
                rw [hI.sz_cf]; exact (hI.perm1 p hpn).1
              · exact hI.vis p (by omega) hpn)
        have hI3 := foldl_makeF_inv G hn hG (spRow sptr scol (st.1.i2n.getD top 0)) hI2
        apply foldl_inv decLambda (fun s cs hs hcs => decLambda_inv hs cs hcs) _ _ hI3
        intro cs hcs; rw [← hn]; exact SGraph_row_lt hG _ cs hcs

theorem splitLoop_inv {n : Nat} (G : SGraph) (hn : G.size = n) (hG : G.WF) (sptr scol : Array Nat) (m : Nat)
    (st : Split × Bool) (h : LoopInv n st m) :
    LoopInv n ((List.range m).reverse.foldl (splitStep G sptr scol) st) 0 := by
  induction m generalizing st with
  | zero => exact h
  | succ k ih =>
    rw [List.range_succ, List.reverse_append, List.reverse_singleton, List.singleton_append, List.foldl_cons]
    exact ih _ (splitStep_inv G hn hG sptr scol st h)

/-- if the bucket structure is set up correctly, `cfsplit` decides every variable -/
theorem cfsplit_decides_of_inv {n : Nat} (G : SGraph) (hn : G.size = n) (hG : G.WF) (sptr scol : Array Nat)
    (s0 : Split) (h0 : Inv n s0 n) (i : Nat) (hi : i < n) :
    ((List.range n).reverse.foldl (splitStep G sptr scol) (s0, false)).1.M i ≠ CF.U := by
  have h : LoopInv n (s0, false) n := by unfold LoopInv; rw [if_neg (by simp)]; exact h0
  have hf := splitLoop_inv G hn hG sptr scol n _ h
  unfold LoopInv at hf
  split at hf
  · exact hf.2 i hi
  · have hp := hf.perm2 i hi
    have := hf.vis _ (Nat.zero_le _) hp.1
    rw [hp.2] at this; exact this


theorem cfsplit_size_of_inv {n : Nat} (G : SGraph) (hn : G.size = n) (hG : G.WF) (sptr scol : Array Nat)
    (s0 : Split) (h0 : Inv n s0 n) :
    ((List.range n).reverse.foldl (splitStep G sptr scol) (s0, false)).1.cf.size = n := by
  have h : LoopInv n (s0, false) n := by unfold LoopInv; rw [if_neg (by simp)]; exact h0
  have hf := splitLoop_inv G hn hG sptr scol n _ h
  unfold LoopInv at hf
  split at hf
  · exact hf.1
  · exact hf.sz_cf

end RS
end Amgcl
