import Amgcl.Proofs.IOBinaryRT
import Amgcl.Proofs.IOAssemble
/-!
Binary files: reading a row range is the slice of the full read, for every file whose full read succeeds
(helper file for C19).
-/
namespace Amgcl.IO
variable {V : Type}

/-- a read inside an already successful read returns the corresponding sub-block -/
theorem readAt_sub (file : Bytes) (pos len : Nat) (bs : Bytes) (h : readAt file pos len = some bs)
    (off len' : Nat) (hsub : off + len' ≤ len) (hpos : pos + off < two63) :
    readAt file (pos + off) len' = some ((bs.drop off).take len') := by
  unfold readAt at h ⊢
  by_cases h0 : len' = 0
  · subst h0; simp
  · rw [if_neg h0, if_neg (by omega)]
    split at h
    · omega
    · split at h
      · contradiction
      · split at h
        · injection h with h; subst h
          rw [if_pos (by omega)]
          congr 1
          apply List.ext_getElem?
          intro i
          simp only [List.getElem?_take, List.getElem?_drop]
          by_cases hi : i < len'
          · rw [if_pos hi, if_pos hi, if_pos (by omega)]; congr 1; omega
          · rw [if_neg hi, if_neg hi]
        · contradiction

theorem splitEvery_getElem? (sz c : Nat) (l : Bytes) (i : Nat) :
    (splitEvery sz c l)[i]? = if i < c then some ((l.drop (i * sz)).take sz) else none := by
  induction c generalizing l i with
  | zero => simp [splitEvery]
  | succ c ih =>
    cases i with
    | zero => simp [splitEvery]
    | succ i =>
      simp only [splitEvery, List.getElem?_cons_succ, ih, List.drop_drop]
      by_cases hi : i < c
      · rw [if_pos hi, if_pos (by omega)]; congr 3; rw [Nat.succ_mul]; omega
      · rw [if_neg hi, if_neg (by omega)]

theorem splitEvery_sub (sz k c N : Nat) (hN : k + c ≤ N) (bs : Bytes) :
    splitEvery sz c ((bs.drop (k * sz)).take (c * sz)) = ((splitEvery sz N bs).drop k).take c := by
  apply List.ext_getElem?
  intro i
  rw [splitEvery_getElem?, List.getElem?_take, List.getElem?_drop, splitEvery_getElem?]
  by_cases hi : i < c
  · rw [if_pos hi, if_pos hi, if_pos (by omega)]
    congr 1
    apply List.ext_getElem?
    intro j
    simp only [List.getElem?_take, List.getElem?_drop]
    by_cases hj : j < sz
    · have h1 : i * sz + j < c * sz := by
        have : (i + 1) * sz ≤ c * sz := Nat.mul_le_mul_right _ hi
        rw [Nat.succ_mul] at this; omega
      rw [if_pos hj, if_pos hj, if_pos h1]; congr 1; rw [Nat.add_mul]; omega
    · rw [if_neg hj, if_neg hj]
  · rw [if_neg hi, if_neg hi]

/-- a monotone pointer array that starts at `a` and ends at `a + |cv|` cuts `cv` into rows -/
theorem exists_rows_of_ptr {α : Type} (ptr : List Int) (a : Nat) (cv : List α) (hmono : monotone ptr = true)
    (hhead : ptr.head? = some (a : Int)) (hlast : ptr.getLast? = some ((a + cv.length : Nat) : Int)) :
    ∃ R : List (List α), cv = R.flatten ∧ ptr = ptrFrom a (R.map List.length) := by
  induction ptr generalizing a cv with
  | nil => simp at hhead
  | cons p t ih =>
    simp at hhead; subst hhead
    cases t with
    | nil =>
      simp at hlast
      have : cv = [] := List.eq_nil_of_length_eq_zero (by omega)
      subst this
      exact ⟨[], rfl, rfl⟩
    | cons q t' =>
      simp only [monotone, Bool.and_eq_true, decide_eq_true_eq] at hmono
      rw [List.getLast?_cons_cons] at hlast
      have hq := monotone_le_last _ hmono.2 _ hlast q (by simp)
      have hk : (q - (a : Int)).toNat ≤ cv.length := by omega
      obtain ⟨R', h1, h2⟩ := ih (a + (q - (a : Int)).toNat) (cv.drop (q - (a : Int)).toNat) hmono.2
        (by simp; omega) (by rw [hlast, List.length_drop]; congr 1; congr 1; omega)
      refine ⟨cv.take (q - (a : Int)).toNat :: R', ?_, ?_⟩
      · rw [List.flatten_cons, ← h1, List.take_append_drop]
      · simp only [List.map_cons, ptrFrom, List.length_take, Nat.min_eq_left hk]
        rw [h2]; congr 2
        all_goals (push_cast; omega)

theorem flatten_take_length {α : Type} (R : List (List α)) (b : Nat) :
    (R.take b).flatten.length = ((R.map List.length).take b).sum := by
  rw [List.length_flatten, List.map_take]

theorem flatten_drop_take {α : Type} (R : List (List α)) (b k : Nat) :
    (R.flatten.drop ((R.map List.length).take b).sum).take (((R.map List.length).drop b).take k).sum
      = ((R.drop b).take k).flatten := by
  have h1 : R.flatten = (R.take b).flatten ++ (R.drop b).flatten := by
    rw [← List.flatten_append, List.take_append_drop]
  have h2 : (R.drop b).flatten = ((R.drop b).take k).flatten ++ ((R.drop b).drop k).flatten := by
    rw [← List.flatten_append, List.take_append_drop]
  rw [h1, ← flatten_take_length, List.drop_left' rfl, h2]
  have : (((R.map List.length).drop b).take k).sum = ((R.drop b).take k).flatten.length := by
    rw [List.length_flatten, List.map_take, List.map_drop]
  rw [this, List.take_left' rfl]

theorem ptrFrom_drop_take (a : Int) (l : List Nat) (b k : Nat) (h : b + k ≤ l.length) :
    ((ptrFrom a l).drop b).take (k + 1) = ptrFrom (a + (((l.take b).sum : Nat) : Int)) ((l.drop b).take k) := by
  apply List.ext_getElem?
  intro i
  rw [List.getElem?_take, List.getElem?_drop, ptrFrom_getElem?, ptrFrom_getElem?]
  have hlen : ((l.drop b).take k).length = k := by rw [List.length_take, List.length_drop]; omega
  rw [hlen]
  by_cases hi : i < k + 1
  · rw [if_pos hi, if_pos (by omega), if_pos (by omega)]
    congr 1
    have : l.take (b + i) = l.take b ++ (l.drop b).take i := by
      rw [List.take_add]
    rw [this, List.sum_append, List.take_take, Nat.min_eq_left (by omega)]
    push_cast; omega
  · rw [if_neg hi, if_neg (by omega)]

end Amgcl.IO

namespace Amgcl.IO
variable {V : Type}

theorem readAt_sub_mod (file : Bytes) (x len : Nat) (bs : Bytes) (h : readAt file (x % two64) len = some bs)
    (off len' : Nat) (hsub : off + len' ≤ len) (hfile : file.length < two63) :
    readAt file ((x + off) % two64) len' = some ((bs.drop off).take len') := by
  by_cases h0 : len' = 0
  · subst h0; simp [readAt]
  · have hlen0 : len ≠ 0 := by omega
    have hpos : x % two64 + len ≤ file.length ∧ x % two64 < two63 := by
      unfold readAt at h
      rw [if_neg hlen0] at h
      split at h
      · contradiction
      · split at h
        · exact ⟨by omega, by omega⟩
        · contradiction
    have : (x + off) % two64 = x % two64 + off := by
      rw [Nat.add_mod, Nat.mod_eq_of_lt (show off < two64 by unfold two64 two63 at *; omega)]
      exact Nat.mod_eq_of_lt (by unfold two64 two63 at *; omega)
    rw [this]
    exact readAt_sub file _ len bs h off len' hsub (by unfold two63 at *; omega)

/-- what a successful full `read_crs` tells about the file -/
structure FullRead (memLimit : Nat) (file : Bytes) (n : Nat) (ptrF : List Int) (nnz : Int)
    (pb zb cb vb : Bytes) : Prop where
  n63 : n < two63
  rn : ∃ nb, readAt file 0 8 = some nb ∧ leVal nb = n
  rp : readAt file ((8 + 0 * 8) % two64) ((n + 1) * 8) = some pb
  ptr : ptrF = (splitEvery 8 (n + 1) pb).map (fun x => toS64 (leVal x))
  rz : readAt file ((8 + n * 8) % two64) 8 = some zb
  nnzdef : nnz = toS64 (leVal zb)
  valid : ptrValid 0 ptrF nnz = true
  head : ptrF.head? = some 0
  mem1 : (n + 1) * 8 ≤ memLimit

theorem binReadCrs_full_inv (memLimit csz : Nat) (cdec : Bytes → Int) (vsz : Nat) (dec : Bytes → V) (file : Bytes)
    (F : RawCRS V) (hF : binReadCrs true memLimit csz cdec vsz dec file (-1) (-1) = .ok F) :
    ∃ n ptrF nnz pb zb cb vb back,
      FullRead memLimit file n ptrF nnz pb zb cb vb ∧
      ptrF.getLast? = some back ∧ 0 ≤ back ∧ back * csz ≤ (memLimit : Int) ∧ back * vsz ≤ (memLimit : Int) ∧
      readAt file (((8 + (n + 1) * 8) % two64 + 0 * csz) % two64) (back.toNat * csz) = some cb ∧
      readAt file (((8 + (n + 1) * 8) % two64 + ofS64 nnz * csz + 0 * vsz) % two64) (back.toNat * vsz) = some vb ∧
      ∃ cv, sortRows wrap32 ptrF (((splitEvery csz back.toNat cb).map cdec).zip
              ((splitEvery vsz back.toNat vb).map dec)) = some cv ∧
        F = ⟨n, 0, ptrF, cv.map (·.1), cv.map (·.2)⟩ := by
  unfold binReadCrs at hF
  split at hF
  · contradiction
  rename_i nb hnb
  split at hF
  · contradiction
  rename_i b e hr
  obtain ⟨hb, hbe, hen, hbdef, hedef⟩ := rowRange_fixed _ _ _ _ _ hr
  simp at hbdef hedef
  subst hbdef hedef
  have hn64 : leVal nb < 18446744073709551616 := by
    have := leVal_lt nb
    rw [readAt_length _ _ _ _ hnb] at this
    have h3 : (256 : Nat) ^ 8 = 18446744073709551616 := by decide
    omega
  have hn63 : leVal nb < two63 := by
    unfold toS64 at hbe; split at hbe
    · assumption
    · rename_i h; unfold two63 two64 at *; omega
  have hS : toS64 (leVal nb) = (leVal nb : Int) := by unfold toS64; rw [if_pos hn63]
  rw [hS] at hF
  unfold binCrsBody at hF
  have hw := wrap32_le
  generalize wrap32 = narrow at hw hF ⊢
  simp only [Int.sub_zero] at hF
  split at hF
  · contradiction
  split at hF
  · contradiction
  rename_i hmem1
  split at hF
  · contradiction
  rename_i pb hpb
  split at hF
  · contradiction
  rename_i zb hzb
  split at hF
  · contradiction
  rename_i hv
  have hvalid : ptrValid 0 ((splitEvery 8 ((leVal nb : Int) + 1).toNat pb).map (fun x => toS64 (leVal x)))
      (toS64 (leVal zb)) = true := by simpa using hv
  obtain ⟨hnnz, ⟨p0, hhead, hp0, hp00⟩, hmono, ⟨pl, hlast, hpl⟩⟩ := ptrValid_spec _ _ _ hvalid
  have hp0z : p0 = 0 := hp00 rfl
  subst hp0z
  rw [hhead] at hF
  simp only [] at hF
  have e0 : ofS64 0 = 0 := by unfold ofS64 two64; simp
  rw [e0] at hF
  simp only [if_true] at hF
  rw [hlast] at hF
  simp only [] at hF
  split at hF
  · contradiction
  rename_i hback0
  split at hF
  · contradiction
  rename_i hm2
  split at hF
  · contradiction
  rename_i hm3
  split at hF
  · contradiction
  rename_i cb hcb
  split at hF
  · contradiction
  rename_i vb hvb
  split at hF
  · contradiction
  rename_i cv hcv
  injection hF with hF
  have t1 : ((leVal nb : Int) + 1).toNat = leVal nb + 1 := by omega
  rw [t1] at hpb hvalid hhead hlast hcv hF
  refine ⟨leVal nb, _, toS64 (leVal zb), pb, zb, cb, vb, pl, ⟨hn63, ⟨nb, hnb, rfl⟩, ?_, rfl, hzb, rfl, hvalid, hhead, ?_⟩,
    hlast, by omega, by omega, by omega, ?_, ?_, cv, hcv, ?_⟩
  · rw [e0] at hpb; exact hpb
  · push_cast at hmem1; omega
  · simpa using hcb
  · simpa using hvb
  · rw [← hF]; simp

end Amgcl.IO

namespace Amgcl.IO
variable {V : Type}

theorem zip_drop {α β : Type} (l1 : List α) (l2 : List β) (k : Nat) :
    (l1.drop k).zip (l2.drop k) = (l1.zip l2).drop k := by
  induction k generalizing l1 l2 with
  | zero => rfl
  | succ k ih =>
    cases l1 with
    | nil => simp
    | cons a t1 =>
      cases l2 with
      | nil => simp
      | cons b t2 => simp [ih]

theorem zip_take {α β : Type} (l1 : List α) (l2 : List β) (k : Nat) :
    (l1.take k).zip (l2.take k) = (l1.zip l2).take k := by
  induction k generalizing l1 l2 with
  | zero => simp
  | succ k ih =>
    cases l1 with
    | nil => simp
    | cons a t1 =>
      cases l2 with
      | nil => simp
      | cons b t2 => simp [ih]

theorem sum_take_le (l : List Nat) (k : Nat) : (l.take k).sum ≤ l.sum := by
  conv => rhs; rw [← List.take_append_drop k l]
  rw [List.sum_append]; omega

theorem ptrFrom_map_sub (a c : Int) (l : List Nat) : (ptrFrom a l).map (· - c) = ptrFrom (a - c) l := by
  induction l generalizing a with
  | nil => rfl
  | cons x t ih =>
    simp only [ptrFrom, List.map_cons, ih]
    congr 2; omega

theorem ofS64_natCast (k : Nat) (h : k < two63) : ofS64 (k : Int) = k := by
  unfold ofS64 two64; unfold two63 at h; omega

end Amgcl.IO

namespace Amgcl.IO
variable {V : Type}

/-- **row-range `read_crs` = slice of the full read**, for every file (shorter than `2^63` bytes) whose full read
succeeds: the full result is the CRS of a row list `R`, and rows `[b, e)` read separately are the CRS of `R[b..e)`. -/
theorem binReadCrs_range_eq_slice (memLimit csz : Nat) (cdec : Bytes → Int) (vsz : Nat) (dec : Bytes → V) (file : Bytes)
    (hfile : file.length < two63)
    (F : RawCRS V) (hF : binReadCrs true memLimit csz cdec vsz dec file (-1) (-1) = .ok F) :
    ∃ R : List (List (Int × V)), R.length = F.nrows ∧ F = RawCRS.ofRows F.nrows 0 R ∧
      ∀ b e : Nat, b ≤ e → e ≤ F.nrows →
        binReadCrs true memLimit csz cdec vsz dec file b e
          = .ok (RawCRS.ofRows (e - b) 0 ((R.drop b).take (e - b))) := by
  obtain ⟨n, ptrF, nnz, pb, zb, cb, vb, back, fr, hlast, hback0, hm2, hm3, hcb, hvb, cv, hcv, hFeq⟩ :=
    binReadCrs_full_inv memLimit csz cdec vsz dec file F hF
  obtain ⟨nb, hnb, hnbn⟩ := fr.rn
  unfold binReadCrs binCrsBody
  have hw := wrap32_le
  generalize wrap32 = narrow at hw hcv ⊢
  obtain ⟨hnnz0, ⟨_, _, _, _⟩, hmono, ⟨pl, hlast', hpl⟩⟩ := ptrValid_spec _ _ _ fr.valid
  rw [hlast] at hlast'; injection hlast' with hlast'; subst hlast'
  -- the unsorted arrays of the full read, cut into rows
  have hclen : ((splitEvery csz back.toNat cb).map cdec).length = back.toNat := by
    simp [splitEvery_length]
  have hvlen : ((splitEvery vsz back.toNat vb).map dec).length = back.toNat := by simp [splitEvery_length]
  generalize hcol0 : (splitEvery csz back.toNat cb).map cdec = col0 at hcv hclen
  generalize hval0 : (splitEvery vsz back.toNat vb).map dec = val0 at hcv hvlen
  have hzlen : (col0.zip val0).length = back.toNat := by rw [List.length_zip, hclen, hvlen]; simp
  obtain ⟨R0, hflat, hptrF⟩ := exists_rows_of_ptr ptrF 0 (col0.zip val0) hmono fr.head
    (by rw [hlast, hzlen]; exact congrArg some (by omega))
  have h00 : ((0 : Nat) : Int) = 0 := rfl
  rw [h00] at hptrF
  have hptrlen : ptrF.length = n + 1 := by rw [fr.ptr, List.length_map, splitEvery_length]
  have hR0len : R0.length = n := by
    have := hptrlen; rw [hptrF, ptrFrom_length', List.length_map] at this; omega
  have hsumtot : ((R0.map List.length).sum : Nat) = back.toNat := by
    rw [← hzlen, hflat, List.length_flatten]
  -- the sorted full result
  have hs := sortRows_flat narrow hw R0 [] []
  simp only [List.nil_append, List.append_nil, List.length_nil] at hs
  rw [hflat, hptrF] at hcv
  rw [h00] at hs
  rw [hs] at hcv
  injection hcv with hcv
  subst hcv
  have hFrows : F = RawCRS.ofRows n 0 (R0.map (sortRowN narrow)) := by
    rw [hFeq]; unfold RawCRS.ofRows; rw [map_sortRowN_lengths, hptrF]
  refine ⟨R0.map (sortRowN narrow), by rw [hFrows]; simp [RawCRS.ofRows, hR0len], by rw [hFrows]; rfl, ?_⟩
  intro b e hbe hen
  have hen' : e ≤ n := by rw [hFrows] at hen; exact hen
  -- the partial read
  have h63 : ∀ p ∈ ptrF, p < 9223372036854775808 := by
    intro p hp
    rw [fr.ptr, List.mem_map] at hp
    obtain ⟨x, hx, rfl⟩ := hp
    exact toS64_leVal_lt x (mem_splitEvery_length _ _ _ _ hx)
  have hn63 := fr.n63
  unfold two63 at hn63
  have hS : toS64 n = (n : Int) := by unfold toS64 two63; rw [if_pos (by omega)]
  rw [hnb]
  simp only []
  rw [hnbn, hS]
  have hr : rowRange true (n : Int) (b : Int) (e : Int) = some ((b : Int), (e : Int)) := by
    unfold rowRange
    have h1 : ¬ ((b : Int) < 0) := by omega
    have h2 : ¬ ((e : Int) < 0) := by omega
    simp only [h1, h2, if_false]
    rw [if_pos]
    simp
    omega
  rw [hr]
  simp only []
  have hmem1 := fr.mem1
  rw [if_neg (by omega), if_neg (by push_cast; omega)]
  -- pointer block
  have hofb : ofS64 (b : Int) = b := ofS64_natCast b (by unfold two63; omega)
  have tch : ((e : Int) - (b : Int) + 1).toNat = e - b + 1 := by omega
  have rp' := readAt_sub_mod file (8 + 0 * 8) ((n + 1) * 8) pb fr.rp (b * 8) ((e - b + 1) * 8) (by
    have : b + (e - b + 1) ≤ n + 1 := by omega
    have := Nat.mul_le_mul_right 8 this
    rw [Nat.add_mul] at this; exact this) hfile
  have epos : (8 + 0 * 8 + b * 8) = (8 + ofS64 (b : Int) * 8) := by rw [hofb]
  rw [epos] at rp'
  rw [tch, rp']
  simp only []
  rw [fr.rz]
  simp only []
  rw [← fr.nnzdef]
  have hdecP : (splitEvery 8 (e - b + 1) ((pb.drop (b * 8)).take ((e - b + 1) * 8))).map (fun x => toS64 (leVal x))
      = (ptrF.drop b).take (e - b + 1) := by
    rw [splitEvery_sub 8 b (e - b + 1) (n + 1) (by omega) pb, List.map_take, List.map_drop, ← fr.ptr]
  rw [hdecP]
  let lens := R0.map List.length
  have hlensdef : R0.map List.length = lens := rfl
  rw [hlensdef] at hptrF hsumtot
  have hlenslen : lens.length = n := by simp [lens, hR0len]
  have hPslice : (ptrF.drop b).take (e - b + 1)
      = ptrFrom (((lens.take b).sum : Nat) : Int) ((lens.drop b).take (e - b)) := by
    rw [hptrF, ptrFrom_drop_take 0 lens b (e - b) (by omega)]; simp
  rw [hPslice]
  -- sizes
  have hpb_le : (lens.take b).sum + ((lens.drop b).take (e - b)).sum ≤ lens.sum := by
    have h1 : lens.take e = lens.take b ++ (lens.drop b).take (e - b) := by
      have : e = b + (e - b) := by omega
      conv => lhs; rw [this, List.take_add]
    have h2 := sum_take_le lens e
    rw [h1, List.sum_append] at h2; exact h2
  have hbacknat : back = ((lens.sum : Nat) : Int) := by rw [hsumtot]; omega
  -- validation of the partial pointer block
  have hvalidP : ptrValid (b : Int) (ptrFrom (((lens.take b).sum : Nat) : Int) ((lens.drop b).take (e - b))) nnz = true := by
    unfold ptrValid
    rw [ptrFrom_head?, ptrFrom_getLast?, ptrFrom_monotone]
    simp only [Bool.and_true, Bool.and_eq_true, decide_eq_true_eq, Bool.or_eq_true]
    refine ⟨⟨hnnz0, by omega, ?_⟩, by omega⟩
    by_cases hb0 : b = 0
    · right; subst hb0; simp
    · left; simp; omega
  rw [hvalidP, ptrFrom_head?]
  simp only [Bool.not_true, Bool.and_false, Bool.false_eq_true, if_false]
  -- shift
  have hpb63 : (lens.take b).sum < two63 := by
    -- an element of `ptrF`
    have hmem : (((lens.take b).sum : Nat) : Int) ∈ ptrF := by
      have : ((ptrF.drop b).take (e - b + 1)).head? = some (((lens.take b).sum : Nat) : Int) := by
        rw [hPslice, ptrFrom_head?]
      have hm := List.mem_of_mem_head? this
      exact List.mem_of_mem_drop (List.mem_of_mem_take hm)
    have := h63 _ hmem
    unfold two63; omega
  rw [ofS64_natCast _ hpb63]
  have hshift : (if (lens.take b).sum = 0 then ptrFrom (((lens.take b).sum : Nat) : Int) ((lens.drop b).take (e - b))
      else (ptrFrom (((lens.take b).sum : Nat) : Int) ((lens.drop b).take (e - b))).map
        (fun p => toS64 ((ofS64 p + (two64 - (lens.take b).sum)) % two64)))
      = ptrFrom 0 ((lens.drop b).take (e - b)) := by
    have hsh := shifted_eq (ptrFrom (((lens.take b).sum : Nat) : Int) ((lens.drop b).take (e - b)))
      (((lens.take b).sum : Nat) : Int) (by omega) (by unfold two63 at hpb63; omega) (by
        intro p hp
        have hsub : p ∈ ptrF := by
          rw [← hPslice] at hp
          exact List.mem_of_mem_drop (List.mem_of_mem_take hp)
        refine ⟨?_, h63 p hsub⟩
        obtain ⟨y, ys, hy⟩ := List.exists_cons_of_ne_nil (ptrFrom_ne_nil (((lens.take b).sum : Nat) : Int) ((lens.drop b).take (e - b)))
        have hh := ptrFrom_head? (((lens.take b).sum : Nat) : Int) ((lens.drop b).take (e - b))
        rw [hy] at hh; simp at hh; subst hh
        rw [hy] at hp
        exact monotone_head_le_mem _ ys (by rw [← hy]; exact ptrFrom_monotone _ _) p hp)
    rw [ofS64_natCast _ hpb63] at hsh
    rw [hsh, ptrFrom_map_sub]; simp
  rw [hshift, ptrFrom_getLast?]
  simp only [Int.zero_add]
  have hback'le : (((lens.drop b).take (e - b)).sum : Int) ≤ back := by rw [hbacknat]; push_cast; omega
  rw [if_neg (by omega), if_neg (by
    have : ((((lens.drop b).take (e - b)).sum : Nat) : Int) * csz ≤ back * csz :=
      Int.mul_le_mul_of_nonneg_right hback'le (by omega)
    omega), if_neg (by
    have : ((((lens.drop b).take (e - b)).sum : Nat) : Int) * vsz ≤ back * vsz :=
      Int.mul_le_mul_of_nonneg_right hback'le (by omega)
    omega)]
  simp only [Int.toNat_natCast]
  -- column and value blocks
  have hcb' := readAt_sub_mod file ((8 + (n + 1) * 8) % two64 + 0 * csz) (back.toNat * csz) cb hcb
    ((lens.take b).sum * csz) (((lens.drop b).take (e - b)).sum * csz) (by
      have : (lens.take b).sum + ((lens.drop b).take (e - b)).sum ≤ back.toNat := by omega
      have := Nat.mul_le_mul_right csz this
      rw [Nat.add_mul] at this; exact this) hfile
  have ecb : (8 + (n + 1) * 8) % two64 + 0 * csz + (lens.take b).sum * csz
      = (8 + (n + 1) * 8) % two64 + (lens.take b).sum * csz := by omega
  rw [ecb] at hcb'
  rw [hcb']
  simp only []
  have hvb' := readAt_sub_mod file ((8 + (n + 1) * 8) % two64 + ofS64 nnz * csz + 0 * vsz) (back.toNat * vsz) vb hvb
    ((lens.take b).sum * vsz) (((lens.drop b).take (e - b)).sum * vsz) (by
      have : (lens.take b).sum + ((lens.drop b).take (e - b)).sum ≤ back.toNat := by omega
      have := Nat.mul_le_mul_right vsz this
      rw [Nat.add_mul] at this; exact this) hfile
  have evb : (8 + (n + 1) * 8) % two64 + ofS64 nnz * csz + 0 * vsz + (lens.take b).sum * vsz
      = (8 + (n + 1) * 8) % two64 + ofS64 nnz * csz + (lens.take b).sum * vsz := by omega
  rw [evb] at hvb'
  rw [hvb']
  simp only []
  rw [splitEvery_sub csz _ _ back.toNat (by omega) cb, splitEvery_sub vsz _ _ back.toNat (by omega) vb,
    List.map_take, List.map_drop, List.map_take, List.map_drop, hcol0, hval0, zip_take, zip_drop, hflat]
  have hfl := flatten_drop_take R0 b (e - b)
  rw [hlensdef] at hfl
  rw [hfl]
  have hs2 := sortRows_flat narrow hw ((R0.drop b).take (e - b)) [] []
  simp only [List.nil_append, List.append_nil, List.length_nil] at hs2
  rw [h00] at hs2
  have hl2 : ((R0.drop b).take (e - b)).map List.length = (lens.drop b).take (e - b) := by
    rw [List.map_take, List.map_drop]
  rw [hl2] at hs2
  rw [hs2]
  simp only []
  unfold RawCRS.ofRows
  have tn : ((e : Int) - (b : Int)).toNat = e - b := by omega
  have hR : List.take (e - b) (List.drop b (List.map (sortRowN narrow) R0))
      = List.map (sortRowN narrow) (List.take (e - b) (List.drop b R0)) := by rw [List.map_take, List.map_drop]
  rw [tn, hR, map_sortRowN_lengths, hl2]

end Amgcl.IO
