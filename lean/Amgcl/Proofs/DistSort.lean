import Amgcl.Proofs.DistTranspose
import Amgcl.Proofs.KernelsSort
/-! `mpi::sort_rows`: both parts are sorted, the denoted matrix does not change. -/
namespace Amgcl.Dist
open Amgcl

section
variable {K : Type}

theorem distSortRows_getD (Ds : List (DistMat K)) (r : Nat) (hr : r < Ds.length) :
    (distSortRows Ds).getD r default
      = { loc := sortRows (Ds.getD r default).loc, rem := sortRows (Ds.getD r default).rem } := by
  unfold distSortRows
  exact getD_map_lt _ Ds r default default hr

/-- after `mpi::sort_rows` every row of both parts is sorted by column (strictly, if it has no duplicates) -/
theorem distSortRows_sorted (Ds : List (DistMat K)) (r i : Nat) (hr : r < Ds.length) :
    (((distSortRows Ds).getD r default).loc.row i).Pairwise (fun a b => a.1 ≤ b.1) ∧
    (((distSortRows Ds).getD r default).rem.row i).Pairwise (fun a b => a.1 ≤ b.1) := by
  rw [distSortRows_getD Ds r hr]
  simp only [K2.sortRows_row]
  exact ⟨K2.sortRow_sorted _, K2.sortRow_sorted _⟩

variable [AddCommMonoid K]

/-- … and the gathered matrix denotes the same matrix as before -/
theorem distSortRows_get (Ds : List (DistMat K)) (rp cp : List Nat) (hlen : Ds.length = rp.length)
    (hloc : ∀ r, r < rp.length → (Ds.getD r default).loc.nrows = rp.getD r 0) (i j : Nat) (hi : i < rp.sum) :
    (assemble (distSortRows Ds) cp).get i j = (assemble Ds cp).get i j := by
  obtain ⟨r, hr⟩ := exists_owner rp i hi
  have hil : i - dom rp r < rp.getD r 0 := by
    have := hr.2.1; have h2 := hr.2.2; rw [dom_succ rp r hr.1] at h2; omega
  have hrD : r < Ds.length := by rw [hlen]; exact hr.1
  have h1 := assemble_row_of (distSortRows Ds) rp cp (by unfold distSortRows; simpa using hlen)
    (by
      intro q hq
      rw [distSortRows_getD Ds q (by rw [hlen]; exact hq)]
      simp only [K2.sortRows_nrows]
      exact hloc q hq) r (i - dom rp r) hr.1 hil
  have h2 := assemble_row_of Ds rp cp hlen hloc r (i - dom rp r) hr.1 hil
  rw [show dom rp r + (i - dom rp r) = i by have := hr.2.1; omega] at h1 h2
  unfold CRS.get
  rw [h1, h2, distSortRows_getD Ds r hrD]
  simp only [K2.sortRows_row]
  unfold globalRow
  rw [rowGet_append, rowGet_append, rowGet_map_shift, rowGet_map_shift, K2.sortRow_get, K2.sortRow_get]

end
/-! ### `sort_rows` commutes with the distribution -/
section commute
variable {K : Type}

/-- a column-sorted row is determined by its column classes -/
theorem sorted_classes_ext (l1 l2 : Row K) (h1 : l1.Pairwise (fun a b => a.1 ≤ b.1)) (h2 : l2.Pairwise (fun a b => a.1 ≤ b.1))
    (h : ∀ c, l1.filter (fun e => decide (e.1 = c)) = l2.filter (fun e => decide (e.1 = c))) : l1 = l2 := by
  -- a bound on all columns
  obtain ⟨N, hN⟩ : ∃ N, ∀ e ∈ l1 ++ l2, e.1 < N := by
    generalize l1 ++ l2 = l
    induction l with
    | nil => exact ⟨0, fun e he => absurd he (by simp)⟩
    | cons a t ih =>
      obtain ⟨N, hN⟩ := ih
      refine ⟨max N (a.1 + 1), fun e he => ?_⟩
      rcases List.mem_cons.1 he with rfl | he
      · omega
      · have := hN e he; omega
  have e1 := flatMap_classes (fun e : Nat × K => e.1) (List.range N) l1 (range_pairwise_lt N) h1
    (fun e he => List.mem_range.2 (hN e (List.mem_append_left _ he)))
  have e2 := flatMap_classes (fun e : Nat × K => e.1) (List.range N) l2 (range_pairwise_lt N) h2
    (fun e he => List.mem_range.2 (hN e (List.mem_append_right _ he)))
  rw [← e1, ← e2]
  apply List.flatMap_congr
  intro c _
  exact h c

theorem sortRow_filter (p : Nat → Bool) (row : Row K) :
    sortRow (row.filter (fun e => p e.1)) = (sortRow row).filter (fun e => p e.1) := by
  apply sorted_classes_ext _ _ (K2.sortRow_sorted _) ((K2.sortRow_sorted row).filter _)
  intro c
  rw [K2.sortRow_stable, List.filter_filter, List.filter_filter]
  have e : ∀ l : Row K, l.filter (fun a => decide (a.1 = c) && p a.1)
      = (l.filter (fun e => decide (e.1 = c))).filter (fun e => p e.1) := by
    intro l; rw [List.filter_filter]; apply List.filter_congr; intro a _; exact Bool.and_comm _ _
  rw [e row, e (sortRow row), K2.sortRow_stable]

theorem sortRow_map_sub (cb : Nat) (row : Row K) (hge : ∀ e ∈ row, cb ≤ e.1) :
    sortRow (row.map (fun cv => (cv.1 - cb, cv.2))) = (sortRow row).map (fun cv => (cv.1 - cb, cv.2)) := by
  have hperm := K2.sortFrom_perm [] row
  rw [← K2.sortRow_eq_sortFrom, List.nil_append] at hperm
  have hge' : ∀ e ∈ sortRow row, cb ≤ e.1 := fun e he => hge e (hperm.mem_iff.1 he)
  apply sorted_classes_ext _ _ (K2.sortRow_sorted _)
  · rw [List.pairwise_map]
    exact (K2.sortRow_sorted row).imp (fun {a b} hab => Nat.sub_le_sub_right hab cb)
  · intro c
    rw [K2.sortRow_stable, List.filter_map, List.filter_map]
    congr 1
    have e : ∀ l : Row K, (∀ e ∈ l, cb ≤ e.1) →
        l.filter ((fun e : Nat × K => decide (e.1 = c)) ∘ fun cv => (cv.1 - cb, cv.2))
          = l.filter (fun e => decide (e.1 = cb + c)) := by
      intro l hl
      apply List.filter_congr
      intro a ha
      have := hl a ha
      simp only [Function.comp]
      have : (a.1 - cb = c) ↔ (a.1 = cb + c) := by omega
      simp [this]
    rw [e row hge, e (sortRow row) hge', K2.sortRow_stable]

theorem sortRow_locPart (cb ce : Nat) (row : Row K) : sortRow (locPart cb ce row) = locPart cb ce (sortRow row) := by
  unfold locPart
  rw [sortRow_map_sub cb _ (by
    intro e he
    have := (List.mem_filter.1 he).2
    unfold inRange at this
    simp only [Bool.and_eq_true, decide_eq_true_eq] at this
    exact this.1), sortRow_filter (fun c => inRange cb ce c)]

theorem sortRow_remPart (cb ce : Nat) (row : Row K) : sortRow (remPart cb ce row) = remPart cb ce (sortRow row) := by
  unfold remPart
  exact sortRow_filter (fun c => !inRange cb ce c) row

/-- **`mpi::sort_rows` of the distributed matrix IS the distribution of the serially sorted matrix** -/
theorem dist_sort_split (A : CRS K) (rp cp : List Nat) : distSortRows (split A rp cp) = split (sortRows A) rp cp := by
  unfold distSortRows split
  rw [List.map_map]
  apply List.map_congr_left
  intro r _
  simp only [Function.comp]
  unfold splitRank sortRows
  simp only [List.map_toArray, List.map_map, DistMat.mk.injEq, CRS.mk.injEq, true_and]
  have hstrip : ∀ rb re, strip (⟨A.ncols, A.rows.map sortRow⟩ : CRS K) rb re = (strip A rb re).map sortRow := by
    intro rb re
    unfold strip
    rw [List.map_map]
    apply List.map_congr_left
    intro i _
    exact K2.sortRows_row A _
  rw [hstrip, List.map_map, List.map_map]
  refine ⟨?_, ?_⟩
  · congr 1
    apply List.map_congr_left
    intro row _
    simp only [Function.comp]
    exact sortRow_locPart _ _ row
  · congr 1
    apply List.map_congr_left
    intro row _
    simp only [Function.comp]
    exact sortRow_remPart _ _ row

end commute

end Amgcl.Dist
