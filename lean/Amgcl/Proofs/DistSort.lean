import Amgcl.Proofs.DistTranspose
import Amgcl.Proofs.KernelsSort
/-! `mpi::sort_rows`: both parts are sorted, the denoted matrix does not change. -/
namespace Amgcl.Dist
open Amgcl

section
variable {K : Type}

theorem distSortRows_getD (Ds : List (DistMat K)) (r : Nat) (hr : r < Ds.length) :
    (distSortRows Ds).getD r default
      = { loc := sortRows (Ds.getD r default).loc, rem := sortRows (Ds.getD r default).rem } := by
  unfold distSortRows
  exact getD_map_lt _ Ds r default default hr

/-- after `mpi::sort_rows` every row of both parts is sorted by column (strictly, if it has no duplicates) -/
theorem distSortRows_sorted (Ds : List (DistMat K)) (r i : Nat) (hr : r < Ds.length) :
    (((distSortRows Ds).getD r default).loc.row i).Pairwise (fun a b => a.1 ≤ b.1) ∧
    (((distSortRows Ds).getD r default).rem.row i).Pairwise (fun a b => a.1 ≤ b.1) := by
  rw [distSortRows_getD Ds r hr]
  simp only [K2.sortRows_row]
  exact ⟨K2.sortRow_sorted _, K2.sortRow_sorted _⟩

variable [AddCommMonoid K]

/-- … and the gathered matrix denotes the same matrix as before -/
theorem distSortRows_get (Ds : List (DistMat K)) (rp cp : List Nat) (hlen : Ds.length = rp.length)
    (hloc : ∀ r, r < rp.length → (Ds.getD r default).loc.nrows = rp.getD r 0) (i j : Nat) (hi : i < rp.sum) :
    (assemble (distSortRows Ds) cp).get i j = (assemble Ds cp).get i j := by
  obtain ⟨r, hr⟩ := exists_owner rp i hi
  have hil : i - dom rp r < rp.getD r 0 := by
    have := hr.2.1; have h2 := hr.2.2; rw [dom_succ rp r hr.1] at h2; omega
  have hrD : r < Ds.length := by rw [hlen]; exact hr.1
  have h1 := assemble_row_of (distSortRows Ds) rp cp (by unfold distSortRows; simpa using hlen)
    (by
      intro q hq
      rw [distSortRows_getD Ds q (by rw [hlen]; exact hq)]
      simp only [K2.sortRows_nrows]
      exact hloc q hq) r (i - dom rp r) hr.1 hil
  have h2 := assemble_row_of Ds rp cp hlen hloc r (i - dom rp r) hr.1 hil
  rw [show dom rp r + (i - dom rp r) = i by have := hr.2.1; omega] at h1 h2
  unfold CRS.get
  rw [h1, h2, distSortRows_getD Ds r hrD]
  simp only [K2.sortRows_row]
  unfold globalRow
  rw [rowGet_append, rowGet_append, rowGet_map_shift, rowGet_map_shift, K2.sortRow_get, K2.sortRow_get]

end
end Amgcl.Dist
