import Amgcl.Proofs.KernelsSaad
/-!
`spgemm_saad`: from the one-step invariant to the whole kernel (both passes, all rows).
-/
namespace Amgcl
open Finset

section
variable {K : Type}

/-- the flat list of partial products `(col, a_ik * b_kj)` of row `ia`, in loop order -/
def saadTerms [Mul K] (A B : CRS K) (ia : Nat) : Row K :=
  (A.row ia).flatMap (fun ca => (B.row ca.1).map (fun cb => (cb.1, ca.2 * cb.2)))

theorem saadRow_eq [Add K] [Mul K] [Zero K] (A B : CRS K) (marker : Array Int) (ia rowBeg : Nat) :
    saadRow A B marker ia rowBeg = (saadTerms A B ia).foldl (accStep rowBeg) (#[], marker) := by
  unfold saadRow saadTerms
  rw [List.foldl_flatMap]
  congr 1
  funext acc ca
  rw [List.foldl_map]
  rfl

theorem saadWidthRow_eq [Add K] [Mul K] [Zero K] (A B : CRS K) (marker : Array Int) (ia : Nat) :
    saadWidthRow A B marker ia = (cols (saadTerms A B ia)).foldl (cntStep ia) (0, marker) := by
  unfold saadWidthRow saadTerms cols
  rw [List.map_flatMap, List.foldl_flatMap]
  congr 1
  funext acc ca
  rw [List.map_map, List.foldl_map]
  rfl

variable [AddCommMonoid K]

theorem AccInv.foldl {rowBeg M : Nat} (ts : Row K) (hts : ∀ t ∈ ts, t.1 < M) :
    ∀ {done : Row K} {out : Array (Nat × K)} {marker : Array Int}, AccInv rowBeg M done out marker →
      AccInv rowBeg M (done ++ ts) (ts.foldl (accStep rowBeg) (out, marker)).1
        (ts.foldl (accStep rowBeg) (out, marker)).2 := by
  induction ts with
  | nil => intro done out marker I; simpa using I
  | cons t ts ih =>
    intro done out marker I
    have h1 := I.step t (hts t (List.mem_cons_self))
    have h2 := ih (fun u hu => hts u (List.mem_cons_of_mem _ hu)) h1
    simpa [List.foldl_cons, List.append_assoc] using h2

/-- all markers stay below `rowBeg + (size of the output row)` -/
theorem AccInv.marker_lt {rowBeg M : Nat} {done : Row K} {out : Array (Nat × K)} {marker : Array Int}
    (I : AccInv rowBeg M done out marker) (c : Nat) : marker.getD c (-1) < ((rowBeg + out.size : Nat) : Int) := by
  rcases I.pos c with h | ⟨p, e, hp, _, hmk⟩
  · have : (rowBeg : Int) ≤ ((rowBeg + out.size : Nat) : Int) := by push_cast; omega
    omega
  · have hp' : p < out.size := by simpa using (List.getElem?_eq_some_iff.mp hp).1
    rw [hmk]; push_cast; omega

theorem AccInv.cols_mem {rowBeg M : Nat} {done : Row K} {out : Array (Nat × K)} {marker : Array Int}
    (I : AccInv rowBeg M done out marker) : ∀ e ∈ out.toList, e.1 ∈ cols done := by
  intro e he
  obtain ⟨p, hp, hpe⟩ := List.getElem_of_mem he
  have h := I.mark p e (by rw [List.getElem?_eq_getElem hp, hpe])
  apply (I.seen e.1).mp
  rw [h]; push_cast; omega

theorem AccInv.nodup {rowBeg M : Nat} {done : Row K} {out : Array (Nat × K)} {marker : Array Int}
    (I : AccInv rowBeg M done out marker) : (cols out.toList).Nodup := by
  rw [List.nodup_iff_injective_getElem]
  intro ⟨p, hp⟩ ⟨q, hq⟩ h
  simp only [cols, List.getElem_map] at h
  have hp' : p < out.toList.length := by simpa [cols] using hp
  have hq' : q < out.toList.length := by simpa [cols] using hq
  have h1 := I.mark p _ (List.getElem?_eq_getElem hp')
  have h2 := I.mark q _ (List.getElem?_eq_getElem hq')
  rw [h] at h1
  have : ((rowBeg + p : Nat) : Int) = ((rowBeg + q : Nat) : Int) := h1.symm.trans h2
  ext; simp; omega

-- first pass --------------------------------------------------------------------------------------------------

/-- first-pass invariant: marker = `ia` exactly on the columns already seen in this row -/
theorem cnt_foldl (ia : Nat) (cs : List Nat) (M : Nat) (hcs : ∀ c ∈ cs, c < M) :
    ∀ (seen : List Nat) (n : Nat) (marker : Array Int), marker.size = M →
      (∀ c, marker.getD c (-1) = (ia : Int) ↔ c ∈ seen) →
      let r := cs.foldl (cntStep ia) (n, marker)
      r.1 + seen.toFinset.card = n + (seen ++ cs).toFinset.card ∧ r.2.size = M ∧
        (∀ c, r.2.getD c (-1) = (ia : Int) ↔ c ∈ seen ++ cs) ∧
        (∀ c, r.2.getD c (-1) = (ia : Int) ∨ r.2.getD c (-1) = marker.getD c (-1)) := by
  induction cs with
  | nil =>
    intro seen n marker hs h
    dsimp only [List.foldl_nil]
    exact ⟨by simp, hs, fun c => by rw [List.append_nil]; exact h c, fun c => Or.inr rfl⟩
  | cons c cs ih =>
    intro seen n marker hs h
    have hc : c < marker.size := by rw [hs]; exact hcs c (List.mem_cons_self)
    have hcs' : ∀ d ∈ cs, d < M := fun d hd => hcs d (List.mem_cons_of_mem _ hd)
    simp only [List.foldl_cons]
    by_cases hm : marker.getD c (-1) = (ia : Int)
    · -- already counted
      have hstep : cntStep ia (n, marker) c = (n, marker) := by simp [cntStep, hm]
      rw [hstep]
      have hin : c ∈ seen := (h c).mp hm
      obtain ⟨h1, h2, h3, h4⟩ := ih hcs' seen n marker hs h
      have e : (seen ++ c :: cs).toFinset = (seen ++ cs).toFinset := by
        ext x; simp only [List.toFinset_append, List.toFinset_cons, Finset.mem_union, Finset.mem_insert, List.mem_toFinset]
        constructor
        · rintro (hx | hx | hx)
          · exact Or.inl hx
          · exact Or.inl (hx ▸ hin)
          · exact Or.inr hx
        · rintro (hx | hx)
          · exact Or.inl hx
          · exact Or.inr (Or.inr hx)
      refine ⟨by rw [e]; exact h1, h2, ?_, h4⟩
      intro d; rw [h3 d]; simp only [List.mem_append, List.mem_cons]
      constructor
      · rintro (hx | hx); exact Or.inl hx; exact Or.inr (Or.inr hx)
      · rintro (hx | hx | hx); exact Or.inl hx; exact Or.inl (hx ▸ hin); exact Or.inr hx
    · have hstep : cntStep ia (n, marker) c = (n + 1, marker.setIfInBounds c (ia : Int)) := by
        simp [cntStep, -Array.getD_eq_getD_getElem?, hm]
      rw [hstep]
      have hnin : c ∉ seen := fun hx => hm ((h c).mpr hx)
      have hinv : ∀ d, (marker.setIfInBounds c (ia : Int)).getD d (-1) = (ia : Int) ↔ d ∈ seen ++ [c] := by
        intro d
        by_cases hd : d = c
        · subst hd; rw [getD_setIfInBounds_eq _ _ _ _ hc]; simp
        · rw [getD_setIfInBounds_ne _ _ _ _ _ hd, h d]; simp [hd]
      obtain ⟨h1, h2, h3, h4⟩ := ih hcs' (seen ++ [c]) (n + 1) (marker.setIfInBounds c ia) (by simp [hs]) hinv
      have ecard : (seen ++ [c]).toFinset.card = seen.toFinset.card + 1 := by
        have : (seen ++ [c]).toFinset = insert c seen.toFinset := by ext x; simp
        rw [this, Finset.card_insert_of_notMem (by simpa using hnin)]
      simp only [List.append_assoc, List.singleton_append] at h1 h3
      refine ⟨by omega, h2, h3, ?_⟩
      intro d
      rcases h4 d with h | h
      · exact Or.inl h
      · by_cases hd : d = c
        · subst hd; rw [getD_setIfInBounds_eq _ _ _ _ hc] at h; exact Or.inl h
        · rw [getD_setIfInBounds_ne _ _ _ _ _ hd] at h; exact Or.inr h

end
end Amgcl
