import Amgcl.Model.QR
import Amgcl.Proofs.Array2
/-!
Array mechanics for `Model/QR.lean` (Householder QR, detail/qr.hpp): what the two private kernels `gen_reflector`
(ZLARFG) and `apply_reflector` (ZLARF) do to the cells of the flat buffer they are handed, under the only hypothesis that
the cells they address are in bounds and pairwise distinct.

* `genReflector_trivial` / `genReflector_spec` — the returned `tau`, the cell `alpha` (becomes `beta`), the cells of `x`
  (scaled by `1/(alpha - beta)`), every other cell unchanged;
* `applyReflector_spec` — every cell `(j, i)` of the `m×n` block becomes `C(j,i) - v(j)·(tau·Σ_l v(l)·C(l,i))` with
  `v(0) = 1`, every other cell unchanged (the formula also covers the early return for `tau = 0`).
-/
set_option linter.unusedSectionVars false
namespace Amgcl
namespace QRModel
open Finset Arr2

section gen
variable {K : Type} [Zero K]

/-- a fold of cell updates `A[g i] := f i A[g i]` over pairwise distinct in-bounds cells: size -/
theorem foldl_update_size {ι : Type} (l : List ι) (g : ι → Nat) (f : ι → K → K) (A : Array K) :
    (l.foldl (fun A i => A.setIfInBounds (g i) (f i (A.getD (g i) 0))) A).size = A.size := by
  induction l generalizing A with
  | nil => rfl
  | cons a t ih => rw [List.foldl_cons, ih, Array.size_setIfInBounds]

/-- … a cell that is not addressed keeps its value -/
theorem foldl_update_getD_other {ι : Type} (l : List ι) (g : ι → Nat) (f : ι → K → K) (A : Array K) (p : Nat)
    (hp : ∀ a ∈ l, g a ≠ p) :
    (l.foldl (fun A i => A.setIfInBounds (g i) (f i (A.getD (g i) 0))) A).getD p 0 = A.getD p 0 := by
  induction l generalizing A with
  | nil => rfl
  | cons a t ih =>
    rw [List.foldl_cons, ih _ (fun b hb => hp b (List.mem_cons_of_mem _ hb)),
      getD_setIfInBounds_ne _ _ _ (hp a List.mem_cons_self)]

/-- … an addressed cell is updated exactly once -/
theorem foldl_update_getD_mem {ι : Type} (l : List ι) (g : ι → Nat) (f : ι → K → K) (A : Array K)
    (hnd : l.Pairwise (fun a b => g a ≠ g b)) (hlt : ∀ a ∈ l, g a < A.size) (a : ι) (ha : a ∈ l) :
    (l.foldl (fun A i => A.setIfInBounds (g i) (f i (A.getD (g i) 0))) A).getD (g a) 0 = f a (A.getD (g a) 0) := by
  induction l generalizing A with
  | nil => cases ha
  | cons x t ih =>
    rw [List.foldl_cons]
    rw [List.pairwise_cons] at hnd
    rcases List.mem_cons.mp ha with rfl | hat
    · rw [foldl_update_getD_other _ _ _ _ _ (fun b hb => (hnd.1 b hb).symm),
        getD_setIfInBounds_self _ _ _ (hlt a List.mem_cons_self)]
    · rw [ih _ hnd.2 (fun b hb => by rw [Array.size_setIfInBounds]; exact hlt b (List.mem_cons_of_mem _ hb)) hat,
        getD_setIfInBounds_ne _ _ _ (hnd.1 a hat)]

end gen

section field
variable {K : Type} [Field K] [LinearOrder K] [IsStrictOrderedRing K]

theorem sqrQ_absQ (x : K) : sqrQ (absQ x) = x * x := by
  unfold sqrQ absQ; split <;> ring

theorem absQ_mul_self (x : K) : absQ x * absQ x = x * x := sqrQ_absQ x

theorem foldl_add_range (f : Nat → K) (n : Nat) (s : K) :
    (List.range n).foldl (fun s k => s + f k) s = s + ∑ k ∈ range n, f k := by
  induction n generalizing s with
  | zero => simp
  | succ n ih => rw [List.range_succ, List.foldl_append, ih]; simp [Finset.sum_range_succ, add_assoc]

theorem foldl_add_range' (f : Nat → K) (a len : Nat) (s : K) :
    (List.range' a len).foldl (fun s k => s + f k) s = s + ∑ k ∈ Ico a (a + len), f k := by
  induction len with
  | zero => simp
  | succ len ih =>
    rw [List.range'_concat, List.foldl_append, ih]
    simp only [List.foldl_cons, List.foldl_nil, Nat.one_mul]
    rw [show a + (len + 1) = (a + len) + 1 from rfl, Finset.sum_Ico_succ_top (by omega), add_assoc]

/-- the squared norm of `x` accumulated by `gen_reflector` -/
def xnorm2 (A : Array K) (xi stride n : Nat) : K :=
  (List.range n).foldl (fun s i => s + sqrQ (absQ (A.getD (xi + i * stride) 0))) 0

theorem xnorm2_eq (A : Array K) (xi stride n : Nat) :
    xnorm2 A xi stride n = ∑ i ∈ range n, A.getD (xi + i * stride) 0 * A.getD (xi + i * stride) 0 := by
  unfold xnorm2
  rw [foldl_add_range, zero_add]
  exact Finset.sum_congr rfl (fun i _ => sqrQ_absQ _)

/-- the argument `gen_reflector` hands to `sqrt` (when it gets that far): `|alpha|² + ‖x‖²` -/
def sqrtArg (order : Nat) (A : Array K) (ai xi stride : Nat) : K :=
  sqrQ (absQ (A.getD ai 0)) + xnorm2 A xi stride (order - 1)

/-- `beta` of `gen_reflector` -/
def betaOf (sqrt : K → K) (order : Nat) (A : Array K) (ai xi stride : Nat) : K :=
  let beta0 : K := - absQ (sqrt (sqrtArg order A ai xi stride))
  if A.getD ai 0 < 0 then - beta0 else beta0

theorem betaOf_mul_self (sqrt : K → K) (order : Nat) (A : Array K) (ai xi stride : Nat) :
    betaOf sqrt order A ai xi stride * betaOf sqrt order A ai xi stride
      = sqrt (sqrtArg order A ai xi stride) * sqrt (sqrtArg order A ai xi stride) := by
  unfold betaOf
  split
  · rw [neg_neg, absQ_mul_self]
  · rw [neg_mul_neg, absQ_mul_self]

/-- `gen_reflector` returns early (`tau = 0`, nothing written) -/
def GenTrivial (order : Nat) (A : Array K) (xi stride : Nat) : Prop :=
  order ≤ 1 ∨ xnorm2 A xi stride (order - 1) = 0

instance (order : Nat) (A : Array K) (xi stride : Nat) : Decidable (GenTrivial order A xi stride) := by
  unfold GenTrivial; infer_instance

theorem genReflector_trivial (sqrt : K → K) (order : Nat) (A : Array K) (ai xi stride : Nat)
    (h : GenTrivial order A xi stride) : genReflector sqrt order A ai xi stride = (0, A) := by
  unfold genReflector
  rcases h with h | h
  · rw [if_pos h]
  · split
    · rfl
    · show (if xnorm2 A xi stride (order - 1) = 0 then _ else _) = _
      rw [if_pos h]

theorem genReflector_unfold (sqrt : K → K) (order : Nat) (A : Array K) (ai xi stride : Nat)
    (h : ¬ GenTrivial order A xi stride) :
    genReflector sqrt order A ai xi stride
      = (1 - (1 / betaOf sqrt order A ai xi stride) * A.getD ai 0,
         ((List.range (order - 1)).foldl (fun A' i => A'.setIfInBounds (xi + i * stride)
            ((1 / (A.getD ai 0 - betaOf sqrt order A ai xi stride * 1)) * A'.getD (xi + i * stride) 0)) A).setIfInBounds ai
              (betaOf sqrt order A ai xi stride * 1)) := by
  unfold GenTrivial at h
  have h1 : ¬ order ≤ 1 := fun c => h (Or.inl c)
  have h2 : ¬ xnorm2 A xi stride (order - 1) = 0 := fun c => h (Or.inr c)
  unfold genReflector
  rw [if_neg h1]
  show (if xnorm2 A xi stride (order - 1) = 0 then _ else _) = _
  rw [if_neg h2]
  rfl

/-- the non-trivial branch of `gen_reflector`: `tau = 1 - alpha/beta`, `alpha := beta`, `x := x/(alpha - beta)`, nothing else
is written -/
theorem genReflector_spec (sqrt : K → K) (order : Nat) (A : Array K) (ai xi stride : Nat)
    (h : ¬ GenTrivial order A xi stride)
    (hai : ai < A.size) (hlt : ∀ l, l < order - 1 → xi + l * stride < A.size)
    (hne : ∀ l, l < order - 1 → xi + l * stride ≠ ai)
    (hinj : ∀ l l', l < order - 1 → l' < order - 1 → xi + l * stride = xi + l' * stride → l = l') :
    let r := genReflector sqrt order A ai xi stride
    let beta := betaOf sqrt order A ai xi stride
    r.1 = 1 - (1 / beta) * A.getD ai 0 ∧ r.2.size = A.size ∧ r.2.getD ai 0 = beta ∧
    (∀ l, l < order - 1 → r.2.getD (xi + l * stride) 0 = (1 / (A.getD ai 0 - beta)) * A.getD (xi + l * stride) 0) ∧
    (∀ p, p ≠ ai → (∀ l, l < order - 1 → p ≠ xi + l * stride) → r.2.getD p 0 = A.getD p 0) := by
  intro r beta
  have hr : r = _ := genReflector_unfold sqrt order A ai xi stride h
  set F := (List.range (order - 1)).foldl (fun A' i => A'.setIfInBounds (xi + i * stride)
            ((1 / (A.getD ai 0 - beta * 1)) * A'.getD (xi + i * stride) 0)) A with hF
  have hsz : F.size = A.size :=
    foldl_update_size (List.range (order - 1)) (fun i => xi + i * stride)
      (fun _ x => (1 / (A.getD ai 0 - beta * 1)) * x) A
  have hpw : (List.range (order - 1)).Pairwise (fun a b => xi + a * stride ≠ xi + b * stride) := by
    refine List.Pairwise.imp_of_mem ?_ (List.pairwise_lt_range (n := order - 1))
    intro a b ha hb hab e
    have := hinj a b (List.mem_range.mp ha) (List.mem_range.mp hb) e
    omega
  rw [hr]
  refine ⟨rfl, ?_, ?_, ?_, ?_⟩
  · show (F.setIfInBounds ai (beta * 1)).size = _
    rw [Array.size_setIfInBounds, hsz]
  · show (F.setIfInBounds ai (beta * 1)).getD ai 0 = _
    rw [getD_setIfInBounds_self _ _ _ (by rw [hsz]; exact hai), mul_one]
  · intro l hl
    show (F.setIfInBounds ai (beta * 1)).getD (xi + l * stride) 0 = _
    rw [getD_setIfInBounds_ne _ _ _ (fun e => hne l hl e.symm)]
    have := foldl_update_getD_mem (List.range (order - 1)) (fun i => xi + i * stride)
      (fun _ x => (1 / (A.getD ai 0 - beta * 1)) * x) A hpw
      (fun a ha => hlt a (List.mem_range.mp ha)) l (List.mem_range.mpr hl)
    rw [hF, this, mul_one]
  · intro p hp hpl
    show (F.setIfInBounds ai (beta * 1)).getD p 0 = _
    rw [getD_setIfInBounds_ne _ _ _ (fun e => hp e.symm)]
    exact foldl_update_getD_other (List.range (order - 1)) (fun i => xi + i * stride)
      (fun _ x => (1 / (A.getD ai 0 - beta * 1)) * x) A p
      (fun a ha e => hpl a (List.mem_range.mp ha) e.symm)

/-! ## `apply_reflector` -/

/-- the reflector vector as `apply_reflector` reads it: `v[0]` is ignored and taken to be 1 -/
def vv (V : Array K) (vi vs : Nat) (j : Nat) : K := if j = 0 then 1 else V.getD (vi + j * vs) 0

/-- the body of the column loop of `apply_reflector` for the column starting at cell `ia` -/
def applyCol (m : Nat) (V : Array K) (vi vs : Nat) (tau : K) (rs : Nat) (C : Array K) (ia : Nat) : Array K :=
  let s : K := (List.range' 1 (m - 1)).foldl (fun s j => s + C.getD (ia + j * rs) 0 * V.getD (vi + j * vs) 0) (C.getD ia 0)
  let s := tau * s
  let C := C.setIfInBounds ia (C.getD ia 0 - s)
  (List.range' 1 (m - 1)).foldl (fun C j => C.setIfInBounds (ia + j * rs) (C.getD (ia + j * rs) 0 - V.getD (vi + j * vs) 0 * s)) C

omit [IsStrictOrderedRing K] in
theorem applyReflector_unfold (m n : Nat) (V : Array K) (vi vs : Nat) (tau : K) (C : Array K) (ci rs cs : Nat) :
    applyReflector m n V vi vs tau C ci rs cs
      = if tau = 0 then C else (List.range n).foldl (fun C i => applyCol m V vi vs tau rs C (ci + i * cs)) C := rfl

/-- the dot product `Σ_l v(l)·C(l)` of one column -/
def colDot (m : Nat) (V : Array K) (vi vs : Nat) (rs : Nat) (C : Array K) (ia : Nat) : K :=
  ∑ l ∈ range m, vv V vi vs l * C.getD (ia + l * rs) 0

theorem applyCol_dot (m : Nat) (hm : 0 < m) (V : Array K) (vi vs rs : Nat) (C : Array K) (ia : Nat) :
    (List.range' 1 (m - 1)).foldl (fun s j => s + C.getD (ia + j * rs) 0 * V.getD (vi + j * vs) 0) (C.getD ia 0)
      = colDot m V vi vs rs C ia := by
  rw [foldl_add_range' (fun j => C.getD (ia + j * rs) 0 * V.getD (vi + j * vs) 0)]
  unfold colDot
  rw [show 1 + (m - 1) = m by omega, Finset.range_eq_Ico, Finset.sum_eq_sum_Ico_succ_bot hm]
  congr 1
  · simp [vv]
  · refine Finset.sum_congr rfl (fun j hj => ?_)
    have : j ≠ 0 := by have := (Finset.mem_Ico.mp hj).1; omega
    simp only [vv, if_neg this]; ring

theorem applyCol_spec (m : Nat) (hm : 0 < m) (V : Array K) (vi vs : Nat) (tau : K) (rs : Nat) (C : Array K) (ia : Nat)
    (hlt : ∀ j, j < m → ia + j * rs < C.size)
    (hinj : ∀ j j', j < m → j' < m → ia + j * rs = ia + j' * rs → j = j') :
    (applyCol m V vi vs tau rs C ia).size = C.size ∧
    (∀ j, j < m → (applyCol m V vi vs tau rs C ia).getD (ia + j * rs) 0
        = C.getD (ia + j * rs) 0 - vv V vi vs j * (tau * colDot m V vi vs rs C ia)) ∧
    (∀ p, (∀ j, j < m → p ≠ ia + j * rs) → (applyCol m V vi vs tau rs C ia).getD p 0 = C.getD p 0) := by
  unfold applyCol
  rw [applyCol_dot m hm]
  set s := tau * colDot m V vi vs rs C ia with hs
  set C1 := C.setIfInBounds ia (C.getD ia 0 - s) with hC1
  have hsz1 : C1.size = C.size := Array.size_setIfInBounds
  have h0 : ia < C.size := by simpa using hlt 0 hm
  have hpw : (List.range' 1 (m - 1)).Pairwise (fun a b => ia + a * rs ≠ ia + b * rs) := by
    refine List.Pairwise.imp_of_mem ?_ (List.pairwise_lt_range' (s := 1) (n := m - 1) (step := 1) (by omega))
    intro a b ha hb hab e
    have ha' := List.mem_range'_1.mp ha
    have hb' := List.mem_range'_1.mp hb
    have := hinj a b (by omega) (by omega) e
    omega
  refine ⟨?_, ?_, ?_⟩
  · rw [foldl_update_size (List.range' 1 (m - 1)) (fun j => ia + j * rs) (fun j x => x - V.getD (vi + j * vs) 0 * s) C1, hsz1]
  · intro j hj
    by_cases hj0 : j = 0
    · subst hj0
      rw [foldl_update_getD_other (List.range' 1 (m - 1)) (fun j => ia + j * rs) (fun j x => x - V.getD (vi + j * vs) 0 * s) C1]
      · simp only [Nat.zero_mul, Nat.add_zero]
        rw [hC1, getD_setIfInBounds_self _ _ _ h0]; simp [vv]
      · intro a ha e
        have ha' := List.mem_range'_1.mp ha
        have := hinj a 0 (by omega) hm e
        omega
    · have := foldl_update_getD_mem (List.range' 1 (m - 1)) (fun j => ia + j * rs)
        (fun j x => x - V.getD (vi + j * vs) 0 * s) C1 hpw
        (fun a ha => by
          have ha' := List.mem_range'_1.mp ha
          rw [hsz1]; exact hlt a (by omega)) j (List.mem_range'_1.mpr (by omega))
      rw [this, hC1, getD_setIfInBounds_ne]
      · simp only [vv, if_neg hj0]
      · intro e
        have := hinj 0 j hm hj (by simpa using e)
        omega
  · intro p hp
    rw [foldl_update_getD_other (List.range' 1 (m - 1)) (fun j => ia + j * rs) (fun j x => x - V.getD (vi + j * vs) 0 * s) C1]
    · rw [hC1, getD_setIfInBounds_ne]
      intro e
      exact hp 0 hm (by simpa using e.symm)
    · intro a ha e
      have ha' := List.mem_range'_1.mp ha
      exact hp a (by omega) e.symm

/-- `apply_reflector` on an `m×n` block (`m ≥ 1`) whose cells `ci + i·cs + j·rs` are in bounds and pairwise distinct:
`C(j,i) := C(j,i) - v(j)·(tau·Σ_l v(l)·C(l,i))`, every other cell unchanged -/
theorem applyReflector_spec (m n : Nat) (hm : 0 < m) (V : Array K) (vi vs : Nat) (tau : K) (C : Array K) (ci rs cs : Nat)
    (hlt : ∀ i j, i < n → j < m → ci + i * cs + j * rs < C.size)
    (hinj : ∀ i j i' j', i < n → j < m → i' < n → j' < m →
      ci + i * cs + j * rs = ci + i' * cs + j' * rs → i = i' ∧ j = j') :
    (applyReflector m n V vi vs tau C ci rs cs).size = C.size ∧
    (∀ i j, i < n → j < m → (applyReflector m n V vi vs tau C ci rs cs).getD (ci + i * cs + j * rs) 0
        = C.getD (ci + i * cs + j * rs) 0 - vv V vi vs j * (tau * colDot m V vi vs rs C (ci + i * cs))) ∧
    (∀ p, (∀ i j, i < n → j < m → p ≠ ci + i * cs + j * rs) →
        (applyReflector m n V vi vs tau C ci rs cs).getD p 0 = C.getD p 0) := by
  rw [applyReflector_unfold]
  by_cases ht : tau = 0
  · rw [if_pos ht]
    refine ⟨rfl, ?_, fun _ _ => rfl⟩
    intro i j _ _
    rw [ht]; ring
  rw [if_neg ht]
  -- induction over the number of processed columns
  have key : ∀ n', n' ≤ n →
      ((List.range n').foldl (fun C i => applyCol m V vi vs tau rs C (ci + i * cs)) C).size = C.size ∧
      (∀ i j, i < n' → j < m → ((List.range n').foldl (fun C i => applyCol m V vi vs tau rs C (ci + i * cs)) C).getD
          (ci + i * cs + j * rs) 0
          = C.getD (ci + i * cs + j * rs) 0 - vv V vi vs j * (tau * colDot m V vi vs rs C (ci + i * cs))) ∧
      (∀ p, (∀ i j, i < n' → j < m → p ≠ ci + i * cs + j * rs) →
          ((List.range n').foldl (fun C i => applyCol m V vi vs tau rs C (ci + i * cs)) C).getD p 0 = C.getD p 0) := by
    intro n'
    induction n' with
    | zero =>
      intro _
      exact ⟨rfl, fun i j hi => absurd hi (Nat.not_lt_zero _), fun _ _ => rfl⟩
    | succ n' ih =>
      intro hn'
      obtain ⟨ihs, ihc, iho⟩ := ih (by omega)
      rw [List.range_succ, List.foldl_append]
      simp only [List.foldl_cons, List.foldl_nil]
      set C' := (List.range n').foldl (fun C i => applyCol m V vi vs tau rs C (ci + i * cs)) C with hC'
      have hcol : ∀ j, j < m → C'.getD (ci + n' * cs + j * rs) 0 = C.getD (ci + n' * cs + j * rs) 0 := by
        intro j hj
        apply iho
        intro i j' hi hj' e
        have := (hinj n' j i j' (by omega) hj (by omega) hj' e).1
        omega
      have hdot : colDot m V vi vs rs C' (ci + n' * cs) = colDot m V vi vs rs C (ci + n' * cs) := by
        unfold colDot
        exact Finset.sum_congr rfl (fun l hl => by rw [hcol l (Finset.mem_range.mp hl)])
      obtain ⟨ss, sc, so⟩ := applyCol_spec m hm V vi vs tau rs C' (ci + n' * cs)
        (fun j hj => by rw [ihs]; exact hlt n' j (by omega) hj)
        (fun j j' hj hj' e => (hinj n' j n' j' (by omega) hj (by omega) hj' e).2)
      refine ⟨by rw [ss, ihs], ?_, ?_⟩
      · intro i j hi hj
        by_cases hin : i = n'
        · subst hin
          rw [sc j hj, hcol j hj, hdot]
        · rw [so _ (fun j' hj' e => hin (hinj i j n' j' (by omega) hj (by omega) hj' e).1)]
          exact ihc i j (by omega) hj
      · intro p hp
        rw [so p (fun j hj => hp n' j (by omega) hj)]
        exact iho p (fun i j hi hj => hp i j (by omega) hj)
  exact key n (Nat.le_refl n)

end field
end QRModel
end Amgcl
