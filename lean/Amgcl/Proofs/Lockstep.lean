import Amgcl.Model.Lockstep
import Amgcl.Proofs.DistMisc
/-!
The distributed semantics `drun` of a solver program is a simulation of the serial semantics `run` on the
concatenated vectors (C12 `lockstep_refines_serial`).
-/
namespace Amgcl.Lockstep
open Amgcl Amgcl.Dist

section
variable {K : Type} [CommRing K] [DecidableEq K] {σ : Type}

/-- the refinement relation: every rank holds its part of every serial vector and a copy of the serial scalars -/
def Rel (p : List Nat) (ds : DSt K σ) (s : St K σ) : Prop :=
  (∀ r, r < p.length → ds.scal r = s.scal) ∧ ∀ v, (s.vec v).size = p.sum ∧ ds.vec v = splitVec (s.vec v) p

/-- what is assumed about the data of a distributed run -/
structure Setup (A : CRS K) (P : Vec K → Vec K) (C : DCtx K) : Prop where
  wf : A.WF
  rows : C.part.sum = A.nrows
  cols : C.part.sum = A.ncols
  /-- the distributed matrix is the distribution of `A` (rows and columns partitioned alike) -/
  ds : C.Ds = split A C.part C.part
  /-- at least one rank -/
  np : 0 < C.part.length
  /-- the distributed preconditioner refines the serial one (for `mpi::amg` this is the C02/C11 composition; the
  identity and every rank-local diagonal scaling satisfy it trivially) -/
  psize : ∀ g : Vec K, g.size = C.part.sum → (P g).size = C.part.sum
  pd : ∀ g : Vec K, g.size = C.part.sum → C.Pd (splitVec g C.part) = splitVec (P g) C.part

theorem partOK {A : CRS K} {P : Vec K → Vec K} {C : DCtx K} (h : Setup A P C) : PartOK A C.part C.part :=
  ⟨h.wf, rfl, h.rows, h.cols⟩

/-! ### rank-local primitives on the parts -/

/-- a vector of the right size with the right entries is the rank's part -/
theorem eq_vecPart (u w : Vec K) (p : List Nat) (r : Nat) (hr : r < p.length) (hw : w.size = p.sum)
    (hs : u.size = p.getD r 0) (hget : ∀ i, i < p.getD r 0 → u.getD i 0 = w.getD (dom p r + i) 0) :
    u = vecPart w p r := by
  apply Vec.ext_getD (0 : K) (by rw [hs, vecPart_size w p r hr (by rw [hw])])
  intro i hi
  rw [hs] at hi
  have hown : IsOwner p (dom p r + i) r := ⟨hr, Nat.le_add_right _ _, by rw [dom_succ p r hr]; omega⟩
  have := vecPart_getD w p r (dom p r + i) hown (by rw [hw])
  rw [Nat.add_sub_cancel_left] at this
  rw [this, hget i hi]

theorem part_getD (w : Vec K) (p : List Nat) (r i : Nat) (hr : r < p.length) (hw : w.size = p.sum) (hi : i < p.getD r 0) :
    (vecPart w p r).getD i 0 = w.getD (dom p r + i) 0 := by
  have hown : IsOwner p (dom p r + i) r := ⟨hr, Nat.le_add_right _ _, by rw [dom_succ p r hr]; omega⟩
  have := vecPart_getD w p r (dom p r + i) hown (by rw [hw])
  rw [Nat.add_sub_cancel_left] at this
  exact this

theorem glob_lt (p : List Nat) (r i : Nat) (hr : r < p.length) (hi : i < p.getD r 0) : dom p r + i < p.sum := by
  have := dom_le_sum p (show r + 1 ≤ p.length from hr)
  rw [dom_succ p r hr] at this; omega

theorem getD_axpby (a b : K) (x y : Vec K) (i : Nat) (hi : i < x.size) :
    (axpby a x b y).getD i 0 = a * x.getD i 0 + b * y.getD i 0 := by
  unfold axpby
  by_cases hb : b = 0
  · rw [if_pos hb, getD_ofFn_lt _ _ _ hi, hb]; ring
  · rw [if_neg hb, getD_ofFn_lt _ _ _ hi]

theorem size_axpby (a b : K) (x y : Vec K) : (axpby a x b y).size = x.size := by
  unfold axpby; split <;> simp

theorem getD_axpbypcz (a b c : K) (x y z : Vec K) (i : Nat) (hi : i < x.size) :
    (axpbypcz a x b y c z).getD i 0 = a * x.getD i 0 + b * y.getD i 0 + c * z.getD i 0 := by
  unfold axpbypcz
  by_cases hb : c = 0
  · rw [if_pos hb, getD_ofFn_lt _ _ _ hi, hb]; ring
  · rw [if_neg hb, getD_ofFn_lt _ _ _ hi]

theorem size_axpbypcz (a b c : K) (x y z : Vec K) : (axpbypcz a x b y c z).size = x.size := by
  unfold axpbypcz; split <;> simp

theorem axpby_part (a b : K) (x y : Vec K) (p : List Nat) (r : Nat) (hr : r < p.length) (hx : x.size = p.sum)
    (hy : y.size = p.sum) : axpby a (vecPart x p r) b (vecPart y p r) = vecPart (axpby a x b y) p r := by
  have hxs := vecPart_size x p r hr (by rw [hx])
  apply eq_vecPart _ _ p r hr (by rw [size_axpby, hx]) (by rw [size_axpby, hxs])
  intro i hi
  rw [getD_axpby _ _ _ _ _ (by rw [hxs]; exact hi), getD_axpby _ _ _ _ _ (by rw [hx]; exact glob_lt p r i hr hi),
    part_getD x p r i hr hx hi, part_getD y p r i hr hy hi]

theorem axpbypcz_part (a b c : K) (x y z : Vec K) (p : List Nat) (r : Nat) (hr : r < p.length) (hx : x.size = p.sum)
    (hy : y.size = p.sum) (hz : z.size = p.sum) :
    axpbypcz a (vecPart x p r) b (vecPart y p r) c (vecPart z p r) = vecPart (axpbypcz a x b y c z) p r := by
  have hxs := vecPart_size x p r hr (by rw [hx])
  apply eq_vecPart _ _ p r hr (by rw [size_axpbypcz, hx]) (by rw [size_axpbypcz, hxs])
  intro i hi
  rw [getD_axpbypcz _ _ _ _ _ _ _ (by rw [hxs]; exact hi),
    getD_axpbypcz _ _ _ _ _ _ _ (by rw [hx]; exact glob_lt p r i hr hi),
    part_getD x p r i hr hx hi, part_getD y p r i hr hy hi, part_getD z p r i hr hz hi]

theorem copy_part (x : Vec K) (p : List Nat) (r : Nat) (hr : r < p.length) (hx : x.size = p.sum) :
    vcopy (vecPart x p r) = vecPart (vcopy x) p r := by
  have hxs := vecPart_size x p r hr (by rw [hx])
  apply eq_vecPart _ _ p r hr (by simp [vcopy, hx]) (by simp [vcopy, hxs])
  intro i hi
  unfold vcopy
  rw [getD_ofFn_lt _ _ _ (by rw [hxs]; exact hi), getD_ofFn_lt _ _ _ (by rw [hx]; exact glob_lt p r i hr hi)]
  exact part_getD x p r i hr hx hi

theorem clear_part (x : Vec K) (p : List Nat) (r : Nat) (hr : r < p.length) (hx : x.size = p.sum) :
    (vclear (vecPart x p r).size : Vec K) = vecPart (vclear x.size) p r := by
  have hxs := vecPart_size x p r hr (by rw [hx])
  apply eq_vecPart _ _ p r hr (by simp [vclear, hx]) (by simp [vclear, hxs])
  intro i hi
  unfold vclear
  rw [getD_ofFn_lt _ _ _ (by rw [hxs]; exact hi), getD_ofFn_lt _ _ _ (by rw [hx]; exact glob_lt p r i hr hi)]

/-! ### `lin_comb` on the parts -/

theorem linCombTail_part (p : List Nat) (r : Nat) (hr : r < p.length) :
    ∀ (cvs : List (K × Vec K)) (y : Vec K), y.size = p.sum → (∀ cv ∈ cvs, cv.2.size = p.sum) →
      linCombTail (cvs.map (fun cv => (cv.1, vecPart cv.2 p r))) (vecPart y p r) = vecPart (linCombTail cvs y) p r
  | (c1, v1) :: (c2, v2) :: rest, y, hy, h => by
    have h1 : v1.size = p.sum := h (c1, v1) (by simp)
    have h2 : v2.size = p.sum := h (c2, v2) (by simp)
    simp only [List.map_cons, linCombTail]
    rw [axpbypcz_part _ _ _ _ _ _ _ r hr h1 h2 hy]
    exact linCombTail_part p r hr rest _ (by rw [size_axpbypcz, h1]) (fun cv hcv => h cv (by simp [hcv]))
  | [(c, v)], y, hy, h => by
    have h1 : v.size = p.sum := h (c, v) (by simp)
    simp only [List.map_cons, List.map_nil, linCombTail]
    exact axpby_part _ _ _ _ _ r hr h1 hy
  | [], y, _, _ => by simp [linCombTail]

theorem linComb_part (p : List Nat) (r : Nat) (hr : r < p.length) (cvs : List (K × Vec K)) (b : K) (y : Vec K)
    (hy : y.size = p.sum) (h : ∀ cv ∈ cvs, cv.2.size = p.sum) :
    linComb (cvs.map (fun cv => (cv.1, vecPart cv.2 p r))) b (vecPart y p r) = vecPart (linComb cvs b y) p r := by
  cases cvs with
  | nil => simp [linComb]
  | cons cv rest =>
    obtain ⟨c, v⟩ := cv
    have h1 : v.size = p.sum := h (c, v) (by simp)
    simp only [List.map_cons, linComb]
    rw [axpby_part _ _ _ _ _ r hr h1 hy]
    exact linCombTail_part p r hr rest _ (by rw [size_axpby, h1]) (fun cv hcv => h cv (by simp [hcv]))

theorem linCombTail_size (n : Nat) : ∀ (cvs : List (K × Vec K)) (y : Vec K), y.size = n → (∀ cv ∈ cvs, cv.2.size = n) →
    (linCombTail cvs y).size = n
  | (c1, v1) :: (c2, v2) :: rest, y, _, h => by
    simp only [linCombTail]
    exact linCombTail_size n rest _ (by rw [size_axpbypcz]; exact h (c1, v1) (by simp)) (fun cv hcv => h cv (by simp [hcv]))
  | [(c, v)], y, _, h => by simp only [linCombTail]; rw [size_axpby]; exact h (c, v) (by simp)
  | [], y, hy, _ => by simpa [linCombTail] using hy

theorem linComb_size (n : Nat) (cvs : List (K × Vec K)) (b : K) (y : Vec K) (hy : y.size = n)
    (h : ∀ cv ∈ cvs, cv.2.size = n) : (linComb cvs b y).size = n := by
  cases cvs with
  | nil => simpa [linComb] using hy
  | cons cv rest =>
    obtain ⟨c, v⟩ := cv
    simp only [linComb]
    exact linCombTail_size n rest _ (by rw [size_axpby]; exact h (c, v) (by simp)) (fun cv hcv => h cv (by simp [hcv]))

/-! ### one primitive instruction -/

theorem upd_apply {α : Type} (f : Nat → α) (i j : Nat) (v : α) : upd f i v j = if j = i then v else f j := rfl
theorem upd_same {α : Type} (f : Nat → α) (i : Nat) (v : α) : upd f i v i = v := by simp [upd]
theorem upd_other {α : Type} (f : Nat → α) (i j : Nat) (v : α) (h : j ≠ i) : upd f i v j = f j := by simp [upd, h]

/-- what the ranks pass to a collective operation is the distribution of the serial operand -/
theorem gath_rel (p : List Nat) (ds : DSt K σ) (s : St K σ) (h : Rel p ds s) (x : σ → Nat) :
    gath p.length ds.vec ds.scal x = splitVec (s.vec (x s.scal)) p := by
  unfold gath splitVec
  apply List.map_congr_left
  intro r hr
  have hr' := List.mem_range.1 hr
  rw [h.1 r hr', (h.2 _).2]
  exact splitVec_getD _ _ r hr'

/-- all ranks storing their parts of `sv` into the register they select = the serial store -/
theorem scat_rel (p : List Nat) (ds : DSt K σ) (s : St K σ) (h : Rel p ds s) (y : σ → Nat) (dv : List (Vec K))
    (sv : Vec K) (hs : sv.size = p.sum) (hd : dv = splitVec sv p) :
    Rel p { ds with vec := scat p.length ds.vec ds.scal y dv } { s with vec := upd s.vec (y s.scal) sv } := by
  refine ⟨h.1, fun v => ?_⟩
  by_cases e : v = y s.scal
  · subst e
    simp only [upd_same]
    refine ⟨hs, ?_⟩
    unfold scat splitVec
    apply List.map_congr_left
    intro r hr
    have hr' := List.mem_range.1 hr
    rw [h.1 r hr', if_pos rfl, hd]
    exact splitVec_getD _ _ r hr'
  · simp only [upd_other _ _ _ _ e]
    refine ⟨(h.2 v).1, ?_⟩
    unfold scat splitVec
    apply List.map_congr_left
    intro r hr
    have hr' := List.mem_range.1 hr
    rw [h.1 r hr', if_neg e, (h.2 v).2]
    exact splitVec_getD _ _ r hr'

theorem prim_sim (A : CRS K) (P : Vec K → Vec K) (C : DCtx K) (hS : Setup A P C) (i : Prim K σ) (ds : DSt K σ)
    (s : St K σ) (h : Rel C.part ds s) :
    Rel C.part (dstep C i ds) (step A P (innerProductSerial C.conj) i s) := by
  have hP := partOK hS
  have hloc : ∀ v r, r < C.part.length → (ds.vec v).getD r #[] = vecPart (s.vec v) C.part r := by
    intro v r hr; rw [(h.2 v).2]; exact splitVec_getD _ _ r hr
  have henv : ∀ r, r < C.part.length → ds.scal r = s.scal := h.1
  have hsz : ∀ v, (s.vec v).size = C.part.sum := fun v => (h.2 v).1
  cases i with
  | axpby a x b y =>
    apply scat_rel C.part ds s h y _ _ (by rw [size_axpby]; exact hsz _)
    unfold splitVec
    apply List.map_congr_left
    intro r hr
    have hr' := List.mem_range.1 hr
    dsimp only
    rw [henv r hr', hloc _ r hr', hloc _ r hr']
    exact axpby_part _ _ _ _ _ r hr' (hsz _) (hsz _)
  | axpbypcz a x b y c z =>
    apply scat_rel C.part ds s h z _ _ (by rw [size_axpbypcz]; exact hsz _)
    unfold splitVec
    apply List.map_congr_left
    intro r hr
    have hr' := List.mem_range.1 hr
    dsimp only
    rw [henv r hr', hloc _ r hr', hloc _ r hr', hloc _ r hr']
    exact axpbypcz_part _ _ _ _ _ _ _ r hr' (hsz _) (hsz _) (hsz _)
  | copy x y =>
    apply scat_rel C.part ds s h y _ _ (by simp [vcopy, hsz])
    unfold splitVec
    apply List.map_congr_left
    intro r hr
    have hr' := List.mem_range.1 hr
    dsimp only
    rw [henv r hr', hloc _ r hr']
    exact copy_part _ _ r hr' (hsz _)
  | clear x =>
    apply scat_rel C.part ds s h x _ _ (by simp [vclear, hsz])
    unfold splitVec
    apply List.map_congr_left
    intro r hr
    have hr' := List.mem_range.1 hr
    dsimp only
    rw [henv r hr', hloc _ r hr']
    exact clear_part _ _ r hr' (hsz _)
  | spmv a x b y =>
    apply scat_rel C.part ds s h y _ _ (by rw [size_spmv, ← hS.rows])
    unfold splitVec
    apply List.map_congr_left
    intro r hr
    have hr' := List.mem_range.1 hr
    dsimp only
    rw [gath_rel C.part ds s h x, henv r hr', hloc _ r hr', hloc _ r hr', hS.ds, split_getD A _ _ r hr']
    exact mulRank_eq _ _ A C.part C.part hP (s.vec (x s.scal)) (s.vec (y s.scal)) (by rw [hsz, hS.cols])
      (by rw [hsz, hS.rows]) r hr'
  | residual f x r =>
    apply scat_rel C.part ds s h r _ _ (by simp [residual, hS.rows])
    rw [gath_rel C.part ds s h f, gath_rel C.part ds s h x, hS.ds]
    unfold distResidual splitVec
    simp only
    rw [split_length]
    apply List.map_congr_left
    intro q hq
    have hq' := List.mem_range.1 hq
    rw [split_getD A _ _ q hq', getD_map_range _ _ _ _ hq', getD_map_range _ _ _ _ hq']
    exact residualRank_eq A C.part C.part hP (s.vec (f s.scal)) (s.vec (x s.scal)) (by rw [hsz, hS.cols])
      (by rw [hsz, hS.rows]) q hq'
  | precond x y =>
    apply scat_rel C.part ds s h y _ _ (hS.psize _ (hsz _))
    rw [gath_rel C.part ds s h x]
    exact hS.pd _ (hsz _)
  | ip dst x y =>
    refine ⟨fun r hr => ?_, h.2⟩
    show dst (ds.scal r) _ = dst s.scal _
    rw [gath_rel C.part ds s h x, gath_rel C.part ds s h y, henv r hr, dist_ip_eq C.conj C.part _ _ (hsz _) (hsz _)]
  | sset e =>
    refine ⟨fun r hr => ?_, h.2⟩
    show e (ds.scal r) = e s.scal
    rw [henv r hr]
  | lincomb n c v b y =>
    have hall : ∀ cv ∈ (List.range (n s.scal)).map (fun i => (c s.scal i, s.vec (v s.scal i))), cv.2.size = C.part.sum := by
      intro cv hcv
      obtain ⟨i, _, rfl⟩ := List.mem_map.1 hcv
      exact hsz _
    apply scat_rel C.part ds s h y _ _ (linComb_size _ _ _ _ (hsz _) hall)
    unfold splitVec
    apply List.map_congr_left
    intro r hr
    have hr' := List.mem_range.1 hr
    dsimp only
    rw [henv r hr', hloc _ r hr', ← linComb_part C.part r hr' _ _ _ (hsz _) hall, List.map_map]
    congr 1
    apply List.map_congr_left
    intro i _
    simp only [Function.comp]
    rw [hloc _ r hr']

/-! ### programs -/

theorem agree_rel {α : Type} [DecidableEq α] (g : σ → α) (n : Nat) (hn : 0 < n) (scal : Nat → σ) (e : σ)
    (h : ∀ r, r < n → scal r = e) : agree? n g scal = some (g e) := by
  unfold agree?
  rw [if_pos, h 0 hn]
  refine ⟨hn, ?_⟩
  rw [List.all_eq_true]
  intro r hr
  rw [h r (List.mem_range.1 hr), h 0 hn]
  simp

theorem iter_sim {τd τs : Type} (R : τd → τs → Prop) (cd : τd → Option Bool) (cs : τs → Bool) (bd : τd → Option τd)
    (bs : τs → τs)
    (hc : ∀ d s, R d s → cd d = some (cs s)) (hb : ∀ d s, R d s → ∃ d', bd d = some d' ∧ R d' (bs s)) :
    ∀ fuel d s, R d s → ∃ d', iterOpt cd bd fuel d = some d' ∧ R d' (iter cs bs fuel s) := by
  intro fuel
  induction fuel with
  | zero => intro d s h; exact ⟨d, rfl, h⟩
  | succ n ih =>
    intro d s h
    unfold iterOpt iter
    rw [hc d s h]
    by_cases hcs : cs s = true
    · simp only [hcs, if_true]
      obtain ⟨d', hd', hr'⟩ := hb d s h
      rw [hd']
      exact ih d' (bs s) hr'
    · have : cs s = false := by simpa using hcs
      simp only [this]
      exact ⟨d, rfl, h⟩

theorem fold_sim {τd τs : Type} (R : τd → τs → Prop) (bd : τd → Nat → Option τd) (bs : τs → Nat → τs)
    (hb : ∀ d s k, R d s → ∃ d', bd d k = some d' ∧ R d' (bs s k)) :
    ∀ (ks : List Nat) d s, R d s → ∃ d', foldOpt bd ks d = some d' ∧ R d' (ks.foldl bs s) := by
  intro ks
  induction ks with
  | nil => intro d s h; exact ⟨d, rfl, h⟩
  | cons k ks ih =>
    intro d s h
    obtain ⟨d', hd', hr'⟩ := hb d s k h
    obtain ⟨d'', hd'', hr''⟩ := ih d' _ hr'
    refine ⟨d'', ?_, hr''⟩
    show (bd d k).bind (foldOpt bd ks) = some d''
    rw [hd']; exact hd''

/-- **simulation**: from related states the distributed run never blocks on a branch (all ranks decide alike) and
ends in a state related to the serial final state -/
theorem run_sim (A : CRS K) (P : Vec K → Vec K) (C : DCtx K) (hS : Setup A P C) (prog : Prog K σ) :
    ∀ (ds : DSt K σ) (s : St K σ), Rel C.part ds s →
      ∃ ds', drun C prog ds = some ds' ∧ Rel C.part ds' (run A P (innerProductSerial C.conj) prog s) := by
  induction prog with
  | skip => intro ds s h; exact ⟨ds, rfl, h⟩
  | prim i => intro ds s h; exact ⟨_, rfl, prim_sim A P C hS i ds s h⟩
  | seq p q ihp ihq =>
    intro ds s h
    obtain ⟨d1, h1, r1⟩ := ihp ds s h
    obtain ⟨d2, h2, r2⟩ := ihq d1 _ r1
    refine ⟨d2, ?_, r2⟩
    show (drun C p ds).bind (drun C q) = some d2
    rw [h1]; exact h2
  | ite c t e iht ihe =>
    intro ds s h
    have hd : decide? C.part.length c ds.scal = some (c s.scal) := agree_rel c _ hS.np _ _ h.1
    show ∃ ds', (match decide? C.part.length c ds.scal with
        | none => none | some true => drun C t ds | some false => drun C e ds) = some ds' ∧
      Rel C.part ds' (if c s.scal then run A P (innerProductSerial C.conj) t s
        else run A P (innerProductSerial C.conj) e s)
    rw [hd]
    by_cases hc : c s.scal = true
    · simp only [hc, if_true]; exact iht ds s h
    · have : c s.scal = false := by simpa using hc
      simp only [this, Bool.false_eq_true, if_false]; exact ihe ds s h
  | loop fuel c b ihb =>
    intro ds s h
    exact iter_sim (Rel C.part) (fun d => decide? C.part.length c d.scal) (fun s => c s.scal) (drun C b)
      (run A P (innerProductSerial C.conj) b)
      (fun d s hr => agree_rel c _ hS.np _ _ hr.1) ihb fuel ds s h
  | forN n setk b ihb =>
    intro ds s h
    have hd : agree? C.part.length n ds.scal = some (n s.scal) := agree_rel n _ hS.np _ _ h.1
    show ∃ ds', (match agree? C.part.length n ds.scal with
        | none => none
        | some cnt => foldOpt (fun s k => drun C b { s with scal := fun r => setk (s.scal r) k }) (List.range cnt) ds)
          = some ds' ∧
      Rel C.part ds' ((List.range (n s.scal)).foldl
        (fun s k => run A P (innerProductSerial C.conj) b { s with scal := setk s.scal k }) s)
    rw [hd]
    exact fold_sim (Rel C.part) (fun (d : DSt K σ) k => drun C b { d with scal := fun r => setk (d.scal r) k })
      (fun (s : St K σ) k => run A P (innerProductSerial C.conj) b { s with scal := setk s.scal k })
      (fun d s k hr => ihb { d with scal := fun r => setk (d.scal r) k } { s with scal := setk s.scal k }
        ⟨fun r hr' => by show setk (d.scal r) k = setk s.scal k; rw [hr.1 r hr'], hr.2⟩)
      _ ds s h

/-- splitting a serial state gives a related distributed state -/
def distribute (p : List Nat) (s : St K σ) : DSt K σ :=
  { vec := fun v => splitVec (s.vec v) p, scal := fun _ => s.scal }

theorem rel_distribute (p : List Nat) (s : St K σ) (hs : ∀ v, (s.vec v).size = p.sum) : Rel p (distribute p s) s :=
  ⟨fun _ _ => rfl, fun v => ⟨hs v, rfl⟩⟩

/-! ### a non-trivial preconditioner satisfying `Setup.pd`: rank-local diagonal scaling (SPAI-0 / Jacobi as `apply`) -/

theorem getD_vmul (a b : K) (x y z : Vec K) (i : Nat) (hi : i < x.size) :
    (vmul a x y b z).getD i 0 = a * x.getD i 0 * y.getD i 0 + b * z.getD i 0 := by
  unfold vmul
  by_cases hb : b = 0
  · rw [if_pos hb, getD_ofFn_lt _ _ _ hi, hb]; ring
  · rw [if_neg hb, getD_ofFn_lt _ _ _ hi]

theorem size_vmul (a b : K) (x y z : Vec K) : (vmul a x y b z).size = x.size := by
  unfold vmul; split <;> simp

/-- `relaxation::spai0::apply(A, rhs, x)`: `x = M .* rhs`, every rank using its own part of `M` -/
theorem diag_precond_refines (M : Vec K) (p : List Nat) (hM : M.size = p.sum) (g : Vec K) (hg : g.size = p.sum) :
    (List.range p.length).map (fun r => vmul 1 (vecPart M p r) ((splitVec g p).getD r #[]) 0 #[])
      = splitVec (vmul 1 M g 0 #[]) p ∧ (vmul 1 M g 0 #[]).size = p.sum := by
  refine ⟨?_, by rw [size_vmul, hM]⟩
  unfold splitVec
  apply List.map_congr_left
  intro r hr
  have hr' := List.mem_range.1 hr
  rw [getD_map_range _ _ _ _ hr']
  have hMs := vecPart_size M p r hr' (by rw [hM])
  apply eq_vecPart _ _ p r hr' (by rw [size_vmul, hM]) (by rw [size_vmul, hMs])
  intro i hi
  rw [getD_vmul _ _ _ _ _ _ (by rw [hMs]; exact hi), getD_vmul _ _ _ _ _ _ (by rw [hM]; exact glob_lt p r i hr' hi),
    part_getD M p r i hr' hM hi, part_getD g p r i hr' hg hi]
  simp

end
end Amgcl.Lockstep
