import Amgcl.Model.Lockstep
import Amgcl.Proofs.DistMisc
/-!
The distributed semantics `drun` of a solver program is a simulation of the serial semantics `run` on the
concatenated vectors (C12 `lockstep_refines_serial`).
-/
namespace Amgcl.Lockstep
open Amgcl Amgcl.Dist

section
variable {K : Type} [CommRing K] [DecidableEq K]

/-- the refinement relation: every rank holds its part of every serial vector and a copy of the serial scalars -/
def Rel (p : List Nat) (ds : DSt K) (s : St K) : Prop :=
  ds.scal = List.replicate p.length s.scal ∧ ∀ v, (s.vec v).size = p.sum ∧ ds.vec v = splitVec (s.vec v) p

/-- what is assumed about the data of a distributed run -/
structure Setup (A : CRS K) (P : Vec K → Vec K) (C : DCtx K) : Prop where
  wf : A.WF
  rows : C.part.sum = A.nrows
  cols : C.part.sum = A.ncols
  /-- the distributed matrix is the distribution of `A` (rows and columns partitioned alike) -/
  ds : C.Ds = split A C.part C.part
  /-- at least one rank -/
  np : 0 < C.part.length
  /-- the distributed preconditioner refines the serial one (for `mpi::amg` this is the C02/C11 composition; the
  identity and every rank-local diagonal scaling satisfy it trivially) -/
  psize : ∀ g : Vec K, g.size = C.part.sum → (P g).size = C.part.sum
  pd : ∀ g : Vec K, g.size = C.part.sum → C.Pd (splitVec g C.part) = splitVec (P g) C.part

theorem partOK {A : CRS K} {P : Vec K → Vec K} {C : DCtx K} (h : Setup A P C) : PartOK A C.part C.part :=
  ⟨h.wf, rfl, h.rows, h.cols⟩

/-! ### rank-local primitives on the parts -/

theorem renv_replicate (n : Nat) (e : SEnv K) (r : Nat) (hr : r < n) : renv (List.replicate n e) r = e := by
  unfold renv; rw [List.getD_eq_getElem?_getD, List.getElem?_replicate, if_pos hr]; rfl

/-- a vector of the right size with the right entries is the rank's part -/
theorem eq_vecPart (u w : Vec K) (p : List Nat) (r : Nat) (hr : r < p.length) (hw : w.size = p.sum)
    (hs : u.size = p.getD r 0) (hget : ∀ i, i < p.getD r 0 → u.getD i 0 = w.getD (dom p r + i) 0) :
    u = vecPart w p r := by
  apply Vec.ext_getD (0 : K) (by rw [hs, vecPart_size w p r hr (by rw [hw])])
  intro i hi
  rw [hs] at hi
  have hown : IsOwner p (dom p r + i) r := ⟨hr, Nat.le_add_right _ _, by rw [dom_succ p r hr]; omega⟩
  have := vecPart_getD w p r (dom p r + i) hown (by rw [hw])
  rw [Nat.add_sub_cancel_left] at this
  rw [this, hget i hi]

theorem part_getD (w : Vec K) (p : List Nat) (r i : Nat) (hr : r < p.length) (hw : w.size = p.sum) (hi : i < p.getD r 0) :
    (vecPart w p r).getD i 0 = w.getD (dom p r + i) 0 := by
  have hown : IsOwner p (dom p r + i) r := ⟨hr, Nat.le_add_right _ _, by rw [dom_succ p r hr]; omega⟩
  have := vecPart_getD w p r (dom p r + i) hown (by rw [hw])
  rw [Nat.add_sub_cancel_left] at this
  exact this

theorem glob_lt (p : List Nat) (r i : Nat) (hr : r < p.length) (hi : i < p.getD r 0) : dom p r + i < p.sum := by
  have := dom_le_sum p (show r + 1 ≤ p.length from hr)
  rw [dom_succ p r hr] at this; omega

theorem getD_axpby (a b : K) (x y : Vec K) (i : Nat) (hi : i < x.size) :
    (axpby a x b y).getD i 0 = a * x.getD i 0 + b * y.getD i 0 := by
  unfold axpby
  by_cases hb : b = 0
  · rw [if_pos hb, getD_ofFn_lt _ _ _ hi, hb]; ring
  · rw [if_neg hb, getD_ofFn_lt _ _ _ hi]

theorem size_axpby (a b : K) (x y : Vec K) : (axpby a x b y).size = x.size := by
  unfold axpby; split <;> simp

theorem getD_axpbypcz (a b c : K) (x y z : Vec K) (i : Nat) (hi : i < x.size) :
    (axpbypcz a x b y c z).getD i 0 = a * x.getD i 0 + b * y.getD i 0 + c * z.getD i 0 := by
  unfold axpbypcz
  by_cases hb : c = 0
  · rw [if_pos hb, getD_ofFn_lt _ _ _ hi, hb]; ring
  · rw [if_neg hb, getD_ofFn_lt _ _ _ hi]

theorem size_axpbypcz (a b c : K) (x y z : Vec K) : (axpbypcz a x b y c z).size = x.size := by
  unfold axpbypcz; split <;> simp

theorem axpby_part (a b : K) (x y : Vec K) (p : List Nat) (r : Nat) (hr : r < p.length) (hx : x.size = p.sum)
    (hy : y.size = p.sum) : axpby a (vecPart x p r) b (vecPart y p r) = vecPart (axpby a x b y) p r := by
  have hxs := vecPart_size x p r hr (by rw [hx])
  apply eq_vecPart _ _ p r hr (by rw [size_axpby, hx]) (by rw [size_axpby, hxs])
  intro i hi
  rw [getD_axpby _ _ _ _ _ (by rw [hxs]; exact hi), getD_axpby _ _ _ _ _ (by rw [hx]; exact glob_lt p r i hr hi),
    part_getD x p r i hr hx hi, part_getD y p r i hr hy hi]

theorem axpbypcz_part (a b c : K) (x y z : Vec K) (p : List Nat) (r : Nat) (hr : r < p.length) (hx : x.size = p.sum)
    (hy : y.size = p.sum) (hz : z.size = p.sum) :
    axpbypcz a (vecPart x p r) b (vecPart y p r) c (vecPart z p r) = vecPart (axpbypcz a x b y c z) p r := by
  have hxs := vecPart_size x p r hr (by rw [hx])
  apply eq_vecPart _ _ p r hr (by rw [size_axpbypcz, hx]) (by rw [size_axpbypcz, hxs])
  intro i hi
  rw [getD_axpbypcz _ _ _ _ _ _ _ (by rw [hxs]; exact hi),
    getD_axpbypcz _ _ _ _ _ _ _ (by rw [hx]; exact glob_lt p r i hr hi),
    part_getD x p r i hr hx hi, part_getD y p r i hr hy hi, part_getD z p r i hr hz hi]

theorem copy_part (x : Vec K) (p : List Nat) (r : Nat) (hr : r < p.length) (hx : x.size = p.sum) :
    vcopy (vecPart x p r) = vecPart (vcopy x) p r := by
  have hxs := vecPart_size x p r hr (by rw [hx])
  apply eq_vecPart _ _ p r hr (by simp [vcopy, hx]) (by simp [vcopy, hxs])
  intro i hi
  unfold vcopy
  rw [getD_ofFn_lt _ _ _ (by rw [hxs]; exact hi), getD_ofFn_lt _ _ _ (by rw [hx]; exact glob_lt p r i hr hi)]
  exact part_getD x p r i hr hx hi

theorem clear_part (x : Vec K) (p : List Nat) (r : Nat) (hr : r < p.length) (hx : x.size = p.sum) :
    (vclear (vecPart x p r).size : Vec K) = vecPart (vclear x.size) p r := by
  have hxs := vecPart_size x p r hr (by rw [hx])
  apply eq_vecPart _ _ p r hr (by simp [vclear, hx]) (by simp [vclear, hxs])
  intro i hi
  unfold vclear
  rw [getD_ofFn_lt _ _ _ (by rw [hxs]; exact hi), getD_ofFn_lt _ _ _ (by rw [hx]; exact glob_lt p r i hr hi)]

/-! ### one primitive instruction -/

theorem upd_same {α : Type} (f : Nat → α) (i : Nat) (v : α) : upd f i v i = v := by simp [upd]
theorem upd_other {α : Type} (f : Nat → α) (i j : Nat) (v : α) (h : j ≠ i) : upd f i v j = f j := by simp [upd, h]

/-- updating one vector register on both sides preserves the relation -/
theorem rel_upd_vec (p : List Nat) (ds : DSt K) (s : St K) (h : Rel p ds s) (y : Nat) (dv : List (Vec K)) (sv : Vec K)
    (hs : sv.size = p.sum) (hd : dv = splitVec sv p) :
    Rel p { ds with vec := upd ds.vec y dv } { s with vec := upd s.vec y sv } := by
  refine ⟨h.1, fun v => ?_⟩
  by_cases e : v = y
  · subst e; simp only [upd_same]; exact ⟨hs, hd⟩
  · simp only [upd_other _ _ _ _ e]; exact h.2 v

theorem prim_sim (A : CRS K) (P : Vec K → Vec K) (C : DCtx K) (hS : Setup A P C) (i : Prim K) (ds : DSt K) (s : St K)
    (h : Rel C.part ds s) :
    Rel C.part (dstep C i ds) (step A P (innerProductSerial C.conj) i s) := by
  have hP := partOK hS
  obtain ⟨hscal, hvec⟩ := h
  have hloc : ∀ v r, r < C.part.length → (ds.vec v).getD r #[] = vecPart (s.vec v) C.part r := by
    intro v r hr; rw [(hvec v).2]; exact splitVec_getD _ _ r hr
  have henv : ∀ r, r < C.part.length → renv ds.scal r = s.scal := by
    intro r hr; rw [hscal]; exact renv_replicate _ _ r hr
  have hsz : ∀ v, (s.vec v).size = C.part.sum := fun v => (hvec v).1
  cases i with
  | axpby a x b y =>
    apply rel_upd_vec C.part ds s ⟨hscal, hvec⟩ y _ _ (by rw [size_axpby]; exact hsz x)
    unfold splitVec
    apply List.map_congr_left
    intro r hr
    have hr' := List.mem_range.1 hr
    beta_reduce
    rw [hloc x r hr', hloc y r hr', henv r hr']
    exact axpby_part _ _ _ _ _ r hr' (hsz x) (hsz y)
  | axpbypcz a x b y c z =>
    apply rel_upd_vec C.part ds s ⟨hscal, hvec⟩ z _ _ (by rw [size_axpbypcz]; exact hsz x)
    unfold splitVec
    apply List.map_congr_left
    intro r hr
    have hr' := List.mem_range.1 hr
    beta_reduce
    rw [hloc x r hr', hloc y r hr', hloc z r hr', henv r hr']
    exact axpbypcz_part _ _ _ _ _ _ _ r hr' (hsz x) (hsz y) (hsz z)
  | copy x y =>
    apply rel_upd_vec C.part ds s ⟨hscal, hvec⟩ y _ _ (by simp [vcopy, hsz x])
    unfold splitVec
    apply List.map_congr_left
    intro r hr
    have hr' := List.mem_range.1 hr
    beta_reduce
    rw [hloc x r hr']
    exact copy_part _ _ r hr' (hsz x)
  | clear x =>
    apply rel_upd_vec C.part ds s ⟨hscal, hvec⟩ x _ _ (by simp [vclear, hsz x])
    unfold splitVec
    apply List.map_congr_left
    intro r hr
    have hr' := List.mem_range.1 hr
    beta_reduce
    rw [hloc x r hr']
    exact clear_part _ _ r hr' (hsz x)
  | spmv a x b y =>
    apply rel_upd_vec C.part ds s ⟨hscal, hvec⟩ y _ _ (by rw [size_spmv, ← hS.rows])
    unfold splitVec
    apply List.map_congr_left
    intro r hr
    have hr' := List.mem_range.1 hr
    beta_reduce
    rw [hloc x r hr', hloc y r hr', henv r hr', (hvec x).2, hS.ds, split_getD A _ _ r hr']
    exact mulRank_eq _ _ A C.part C.part hP (s.vec x) (s.vec y) (by rw [hsz x, hS.cols]) (by rw [hsz y, hS.rows]) r hr'
  | residual f x r =>
    apply rel_upd_vec C.part ds s ⟨hscal, hvec⟩ r _ _ (by simp [residual, hS.rows])
    rw [(hvec f).2, (hvec x).2, hS.ds]
    unfold distResidual splitVec
    simp only
    rw [split_length]
    apply List.map_congr_left
    intro q hq
    have hq' := List.mem_range.1 hq
    rw [split_getD A _ _ q hq', getD_map_range _ _ _ _ hq', getD_map_range _ _ _ _ hq']
    exact residualRank_eq A C.part C.part hP (s.vec f) (s.vec x) (by rw [hsz x, hS.cols]) (by rw [hsz f, hS.rows]) q hq'
  | precond x y =>
    apply rel_upd_vec C.part ds s ⟨hscal, hvec⟩ y _ _ (hS.psize _ (hsz x))
    rw [(hvec x).2]
    exact hS.pd _ (hsz x)
  | ip dst x y =>
    refine ⟨?_, hvec⟩
    show ds.scal.map _ = _
    rw [hscal, List.map_replicate, (hvec x).2, (hvec y).2, dist_ip_eq C.conj C.part _ _ (hsz x) (hsz y)]
    rfl
  | sset dst e =>
    refine ⟨?_, hvec⟩
    show ds.scal.map _ = _
    rw [hscal, List.map_replicate]
    rfl

/-! ### programs -/

theorem decide_replicate (c : SEnv K → Bool) (n : Nat) (hn : 0 < n) (e : SEnv K) :
    decide? c (List.replicate n e) = some (c e) := by
  cases n with
  | zero => omega
  | succ m =>
    unfold decide?
    rw [List.replicate_succ]
    simp only
    rw [if_pos]
    rw [List.all_eq_true]
    intro e' he'
    rw [(List.mem_replicate.1 he').2]
    simp

theorem iter_sim {σ τ : Type} (R : σ → τ → Prop) (cd : σ → Option Bool) (cs : τ → Bool) (bd : σ → Option σ) (bs : τ → τ)
    (hc : ∀ d s, R d s → cd d = some (cs s)) (hb : ∀ d s, R d s → ∃ d', bd d = some d' ∧ R d' (bs s)) :
    ∀ fuel d s, R d s → ∃ d', iterOpt cd bd fuel d = some d' ∧ R d' (iter cs bs fuel s) := by
  intro fuel
  induction fuel with
  | zero => intro d s h; exact ⟨d, rfl, h⟩
  | succ n ih =>
    intro d s h
    unfold iterOpt iter
    rw [hc d s h]
    by_cases hcs : cs s = true
    · simp only [hcs, if_true]
      obtain ⟨d', hd', hr'⟩ := hb d s h
      rw [hd']
      exact ih d' (bs s) hr'
    · have : cs s = false := by simpa using hcs
      simp only [this]
      exact ⟨d, rfl, h⟩

/-- **simulation**: from related states the distributed run never blocks on a branch (all ranks decide alike) and
ends in a state related to the serial final state -/
theorem run_sim (A : CRS K) (P : Vec K → Vec K) (C : DCtx K) (hS : Setup A P C) (fuel : Nat) (prog : Prog K) :
    ∀ (ds : DSt K) (s : St K), Rel C.part ds s →
      ∃ ds', drun C fuel prog ds = some ds' ∧ Rel C.part ds' (run A P (innerProductSerial C.conj) fuel prog s) := by
  induction prog with
  | skip => intro ds s h; exact ⟨ds, rfl, h⟩
  | prim i => intro ds s h; exact ⟨_, rfl, prim_sim A P C hS i ds s h⟩
  | seq p q ihp ihq =>
    intro ds s h
    obtain ⟨d1, h1, r1⟩ := ihp ds s h
    obtain ⟨d2, h2, r2⟩ := ihq d1 _ r1
    refine ⟨d2, ?_, r2⟩
    show (drun C fuel p ds).bind (drun C fuel q) = some d2
    rw [h1]; exact h2
  | ite c t e iht ihe =>
    intro ds s h
    have hd : decide? c ds.scal = some (c s.scal) := by rw [h.1]; exact decide_replicate c _ hS.np _
    show ∃ ds', (match decide? c ds.scal with
        | none => none | some true => drun C fuel t ds | some false => drun C fuel e ds) = some ds' ∧
      Rel C.part ds' (if c s.scal then run A P (innerProductSerial C.conj) fuel t s
        else run A P (innerProductSerial C.conj) fuel e s)
    rw [hd]
    by_cases hc : c s.scal = true
    · simp only [hc, if_true]; exact iht ds s h
    · have : c s.scal = false := by simpa using hc
      simp only [this, Bool.false_eq_true, if_false]; exact ihe ds s h
  | loop c b ihb =>
    intro ds s h
    exact iter_sim (Rel C.part) (fun d => decide? c d.scal) (fun s => c s.scal) (drun C fuel b)
      (run A P (innerProductSerial C.conj) fuel b)
      (fun d s hr => by rw [hr.1]; exact decide_replicate c _ hS.np _) ihb fuel ds s h

/-- splitting a serial state gives a related distributed state -/
def distribute (p : List Nat) (s : St K) : DSt K :=
  { vec := fun v => splitVec (s.vec v) p, scal := List.replicate p.length s.scal }

theorem rel_distribute (p : List Nat) (s : St K) (hs : ∀ v, (s.vec v).size = p.sum) : Rel p (distribute p s) s :=
  ⟨rfl, fun v => ⟨hs v, rfl⟩⟩

/-! ### a non-trivial preconditioner satisfying `Setup.pd`: rank-local diagonal scaling (SPAI-0 / Jacobi as `apply`) -/

theorem getD_vmul (a b : K) (x y z : Vec K) (i : Nat) (hi : i < x.size) :
    (vmul a x y b z).getD i 0 = a * x.getD i 0 * y.getD i 0 + b * z.getD i 0 := by
  unfold vmul
  by_cases hb : b = 0
  · rw [if_pos hb, getD_ofFn_lt _ _ _ hi, hb]; ring
  · rw [if_neg hb, getD_ofFn_lt _ _ _ hi]

theorem size_vmul (a b : K) (x y z : Vec K) : (vmul a x y b z).size = x.size := by
  unfold vmul; split <;> simp

/-- `relaxation::spai0::apply(A, rhs, x)`: `x = M .* rhs`, every rank using its own part of `M` -/
theorem diag_precond_refines (M : Vec K) (p : List Nat) (hM : M.size = p.sum) (g : Vec K) (hg : g.size = p.sum) :
    (List.range p.length).map (fun r => vmul 1 (vecPart M p r) ((splitVec g p).getD r #[]) 0 #[])
      = splitVec (vmul 1 M g 0 #[]) p ∧ (vmul 1 M g 0 #[]).size = p.sum := by
  refine ⟨?_, by rw [size_vmul, hM]⟩
  unfold splitVec
  apply List.map_congr_left
  intro r hr
  have hr' := List.mem_range.1 hr
  rw [getD_map_range _ _ _ _ hr']
  have hMs := vecPart_size M p r hr' (by rw [hM])
  apply eq_vecPart _ _ p r hr' (by rw [size_vmul, hM]) (by rw [size_vmul, hMs])
  intro i hi
  rw [getD_vmul _ _ _ _ _ _ (by rw [hMs]; exact hi), getD_vmul _ _ _ _ _ _ (by rw [hM]; exact glob_lt p r i hr' hi),
    part_getD M p r i hr' hM hi, part_getD g p r i hr' hg hi]
  simp

end
end Amgcl.Lockstep
