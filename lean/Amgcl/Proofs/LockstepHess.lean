import Amgcl.Model.LockstepGMRES
import Amgcl.Proofs.LockstepCommon
/-!
The Hessenberg / Givens fragment `hessProg` shared by the GMRES and FGMRES programs computes `Solver.hessStep`
(C12): the counted `for` over `k ≤ j` is the fold `Solver.mgs`.
-/
namespace Amgcl.Lockstep.GMRES
open Amgcl Amgcl.Solver Amgcl.Lockstep

variable {K : Type} [Add K] [Mul K] [Sub K] [Neg K] [Zero K] [One K] [Div K] [DecidableEq K] [LT K] [DecidableLT K]

theorem upd_upd {α : Type} (f : Nat → α) (i : Nat) (a b : α) : upd (upd f i a) i b = upd f i b := by
  funext j; unfold upd; split <;> rfl

theorem upd_self {α : Type} (f : Nat → α) (i : Nat) : upd f i (f i) = f := by
  funext j; unfold upd; split
  · next h => rw [h]
  · rfl

/-- the first `n` passes of the Gram–Schmidt loop -/
def mgsAcc (ip : Vec K → Vec K → K) (v : FArr (Vec K)) (j : Nat) (H : FArr2 K) (vnew : Vec K) (n : Nat) :
    FArr2 K × Vec K :=
  (List.range n).foldl (fun (acc : FArr2 K × Vec K) k =>
      let H' := setF2 acc.1 k j (ip acc.2 (v k))
      (H', axpby (-(H' k j)) (v k) 1 acc.2)) (H, vnew)

theorem mgs_eq_acc (ip : Vec K → Vec K → K) (v : FArr (Vec K)) (j : Nat) (H : FArr2 K) (vnew : Vec K) :
    mgs ip v j H vnew = mgsAcc ip v j H vnew (j + 1) := rfl

theorem mgsAcc_succ (ip : Vec K → Vec K → K) (v : FArr (Vec K)) (j : Nat) (H : FArr2 K) (vnew : Vec K) (n : Nat) :
    mgsAcc ip v j H vnew (n + 1)
      = (setF2 (mgsAcc ip v j H vnew n).1 n j (ip (mgsAcc ip v j H vnew n).2 (v n)),
         axpby (-(setF2 (mgsAcc ip v j H vnew n).1 n j (ip (mgsAcc ip v j H vnew n).2 (v n)) n j)) (v n) 1
           (mgsAcc ip v j H vnew n).2) := by
  unfold mgsAcc
  rw [List.range_succ, List.foldl_append]
  rfl

theorem mgs_fold (A : CRS K) (P : Vec K → Vec K) (ip : Vec K → Vec K → K) (vreg : Nat → Nat)
    (hinj : ∀ a b, vreg a = vreg b → a = b) (s : St K (GS K)) :
    ∀ n, n ≤ s.scal.j + 1 → ∃ k',
      (List.range n).foldl (fun m k => run A P ip (mgsBody vreg) { m with scal := { m.scal with k := k } }) s
        = { vec := upd s.vec (vreg (s.scal.j + 1))
              (mgsAcc ip ⟨fun i => s.vec (vreg i)⟩ s.scal.j s.scal.h.H (s.vec (vreg (s.scal.j + 1))) n).2,
            scal := { s.scal with
              k := k',
              h := { s.scal.h with
                H := (mgsAcc ip ⟨fun i => s.vec (vreg i)⟩ s.scal.j s.scal.h.H (s.vec (vreg (s.scal.j + 1))) n).1 } } } := by
  intro n
  induction n with
  | zero =>
    intro _
    refine ⟨s.scal.k, ?_⟩
    simp only [List.range_zero, List.foldl_nil, mgsAcc]
    rw [upd_self]
  | succ n ih =>
    intro hn
    obtain ⟨k', hk⟩ := ih (by omega)
    refine ⟨n, ?_⟩
    rw [List.range_succ, List.foldl_append, hk, mgsAcc_succ]
    have hne : vreg n ≠ vreg (s.scal.j + 1) := fun h => by have := hinj _ _ h; omega
    simp only [List.foldl_cons, List.foldl_nil, mgsBody, seqs, run, step, setH, upd_apply, if_neg hne, if_true]
    rw [upd_upd]

/-- the serial semantics of `hessProg` is `Solver.hessStep` on the registers `vreg` -/
theorem hess_run (A : CRS K) (P : Vec K → Vec K) (ip : Vec K → Vec K → K) (sqrt : K → K) (vreg : Nat → Nat)
    (hinj : ∀ a b, vreg a = vreg b → a = b) (s : St K (GS K)) :
    ∃ k', run A P ip (hessProg sqrt vreg) s
      = { vec := upd s.vec (vreg (s.scal.j + 1))
            (hessStep ip sqrt ⟨fun i => s.vec (vreg i)⟩ s.scal.j s.scal.h (s.vec (vreg (s.scal.j + 1)))).2.1,
          scal := { s.scal with
            k := k',
            h := (hessStep ip sqrt ⟨fun i => s.vec (vreg i)⟩ s.scal.j s.scal.h (s.vec (vreg (s.scal.j + 1)))).1,
            innerRes := (hessStep ip sqrt ⟨fun i => s.vec (vreg i)⟩ s.scal.j s.scal.h (s.vec (vreg (s.scal.j + 1)))).2.2 } } := by
  obtain ⟨k', hk⟩ := mgs_fold A P ip vreg hinj s (s.scal.j + 1) (Nat.le_refl _)
  refine ⟨k', ?_⟩
  have hrun : run A P ip (hessProg sqrt vreg) s
      = run A P ip (seqs [
          .prim (.ip (fun e w => setH e (e.j + 1) e.j (Solver.absK (sqrt w)))
            (fun e => vreg (e.j + 1)) (fun e => vreg (e.j + 1))),
          .prim (.axpby (fun e => inv1 (e.h.H (e.j + 1) e.j)) (fun e => vreg (e.j + 1)) (fun _ => 0)
            (fun e => vreg (e.j + 1))),
          .prim (.sset (fun e =>
            let r := rotate sqrt e.j e.h e.h.H
            { e with h := r.1, innerRes := r.2 }))])
        ((List.range (s.scal.j + 1)).foldl
          (fun m k => run A P ip (mgsBody vreg) { m with scal := { m.scal with k := k } }) s) := by
    simp [hessProg, seqs, run]
  rw [hrun, hk, ← mgs_eq_acc]
  simp only [seqs, run, step, setH, upd_apply, if_true, hessStep, orth, nrmA, rotate, upd_upd]

end Amgcl.Lockstep.GMRES
