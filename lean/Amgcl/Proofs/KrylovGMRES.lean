import Amgcl.Proofs.KrylovGivens
import Amgcl.Proofs.SolverGMRESArnoldi
/-!
# The Givens relation over the inner loop of GMRES (C05)

`innerPassG … j` is the inner-loop state of `Model/SolverGMRES.lean` after `j` passes of `GMRES.step` from
`cycleStart st`, together with the ghost of `Proofs/SolverGMRESArnoldi.lean` (the UNROTATED Hessenberg matrix `H̃` and the
orthogonalised vectors).  With an exact square root on an ordered field the loop maintains

* `GivensRel j cs sn H H̃ s β` (`β = st.normR`): the stored rotations are plane rotations (`c² + s² = 1`), they map column `i`
  of `H̃` to the stored upper triangular column `i` of `H` and `β e₀` to the stored `s` (`innerPassG_givens`),
* `H̃(i+1,i) ≠ 0 → H(i,i) ≠ 0` (the triangular system of the back substitution is regular without breakdown),

hence (`givens_ls`) `Σ_{a ≤ j} (β e₀ − H̃ y)_a² = Σ_{a<j} (s_a − (R y)_a)² + s_j²` for every `y`; and the next residual
estimate is `s'_{j+1} = −sn_j · s_j` (`innerPass_s_succ`), so `|s_{j+1}| ≤ |s_j|` (`innerRes_antitone`).
-/
set_option linter.unusedSectionVars false
set_option linter.unusedVariables false
namespace Amgcl.Krylov
open Amgcl Amgcl.Solver Amgcl.Solver.GMRES Finset

section passes
variable {K : Type} [Field K] [DecidableEq K] [LT K] [DecidableLT K]

/-- the inner-loop state after `j` passes of the body (inner product `stdIp`) -/
def innerPass (side : Side) (sqrt : K → K) (A : CRS K) (P : Vec K → Vec K) (st : GMRES.St K) (j : ℕ) : In K :=
  (GMRES.step side stdIp sqrt A P)^[j] (cycleStart st)

/-- … together with the ghost (`H̃`, `w_i`) -/
def innerPassG (side : Side) (sqrt : K → K) (A : CRS K) (P : Vec K → Vec K) (st : GMRES.St K) (g0 : Ghost K) (j : ℕ) :
    In K × Ghost K :=
  (stepG side stdIp sqrt A P)^[j] (cycleStart st, g0)

theorem innerPassG_succ (side : Side) (sqrt : K → K) (A : CRS K) (P : Vec K → Vec K) (st : GMRES.St K) (g0 : Ghost K)
    (j : ℕ) : innerPassG side sqrt A P st g0 (j + 1) = stepG side stdIp sqrt A P (innerPassG side sqrt A P st g0 j) := by
  unfold innerPassG; rw [Function.iterate_succ_apply']

theorem innerPass_succ (side : Side) (sqrt : K → K) (A : CRS K) (P : Vec K → Vec K) (st : GMRES.St K) (j : ℕ) :
    innerPass side sqrt A P st (j + 1) = GMRES.step side stdIp sqrt A P (innerPass side sqrt A P st j) := by
  unfold innerPass; rw [Function.iterate_succ_apply']

theorem innerPassG_fst (side : Side) (sqrt : K → K) (A : CRS K) (P : Vec K → Vec K) (st : GMRES.St K) (g0 : Ghost K)
    (j : ℕ) : (innerPassG side sqrt A P st g0 j).1 = innerPass side sqrt A P st j := by
  induction j with
  | zero => rfl
  | succ j ih => rw [innerPassG_succ, innerPass_succ, ← ih]; rfl

theorem innerPass_j (side : Side) (sqrt : K → K) (A : CRS K) (P : Vec K → Vec K) (st : GMRES.St K) (j : ℕ) :
    (innerPass side sqrt A P st j).j = j := by
  induction j with
  | zero => rfl
  | succ j ih => rw [innerPass_succ, step_j, ih]

/-- `v[0]` is not written by the inner loop -/
theorem innerPass_v0 (side : Side) (sqrt : K → K) (A : CRS K) (P : Vec K → Vec K) (st : GMRES.St K) (j : ℕ) :
    (innerPass side sqrt A P st j).w.v.get 0 = (cycleStart st).w.v.get 0 := by
  induction j with
  | zero => rfl
  | succ j ih =>
    rw [innerPass_succ, step_v, setF_other _ _ _ _ (by omega), ih]

/-- the value `H(j+1,j) = ‖w_j‖` that pass `j` of the inner loop computes before the rotation overwrites it — the
sub-diagonal entry `H̃(j+1,j)` of the unrotated Hessenberg matrix; `0` means (lucky) breakdown -/
def arnoldiNorm (side : Side) (sqrt : K → K) (A : CRS K) (P : Vec K → Vec K) (st : GMRES.St K) (j : ℕ) : K :=
  (orth stdIp sqrt (innerPass side sqrt A P st j).w.v j (innerPass side sqrt A P st j).w.h.H
    (stepV side A P (innerPass side sqrt A P st j))).1.get (j + 1) j

/-- the ghost column `i` is what pass `i` wrote and is not changed afterwards -/
theorem ghost_col (side : Side) (sqrt : K → K) (A : CRS K) (P : Vec K → Vec K) (st : GMRES.St K) (g0 : Ghost K) :
    ∀ j i, i < j → ∀ a, (innerPassG side sqrt A P st g0 j).2.Ht.get a i
      = (orth stdIp sqrt (innerPass side sqrt A P st i).w.v i (innerPass side sqrt A P st i).w.h.H
          (stepV side A P (innerPass side sqrt A P st i))).1.get a i := by
  intro j
  induction j with
  | zero => intro i hi; omega
  | succ j ih =>
    intro i hi a
    rw [innerPassG_succ]
    show (if i = (innerPassG side sqrt A P st g0 j).1.j then _ else _) = _
    rw [innerPassG_fst, innerPass_j]
    by_cases hij : i = j
    · rw [if_pos hij, hij]
    · rw [if_neg hij]; exact ih i (by omega) a

theorem ghost_sub (side : Side) (sqrt : K → K) (A : CRS K) (P : Vec K → Vec K) (st : GMRES.St K) (g0 : Ghost K)
    (j i : ℕ) (hi : i < j) :
    (innerPassG side sqrt A P st g0 j).2.Ht.get (i + 1) i = arnoldiNorm side sqrt A P st i :=
  ghost_col side sqrt A P st g0 j i hi (i + 1)

/-- the orthogonalised, not yet normalised vector `w` of the pass that starts in state `t` -/
def orthVecOf (side : Side) (sqrt : K → K) (A : CRS K) (P : Vec K → Vec K) (t : In K) : Vec K :=
  (mgs stdIp t.w.v t.j t.w.h.H (stepV side A P t)).2

/-- the ghost vector `w_i` is the one pass `i` computed -/
theorem ghost_W (side : Side) (sqrt : K → K) (A : CRS K) (P : Vec K → Vec K) (st : GMRES.St K) (g0 : Ghost K) :
    ∀ j i, i < j → (innerPassG side sqrt A P st g0 j).2.W.get i
      = orthVecOf side sqrt A P (innerPass side sqrt A P st i) := by
  intro j
  induction j with
  | zero => intro i hi; omega
  | succ j ih =>
    intro i hi
    rw [innerPassG_succ]
    show (setF (innerPassG side sqrt A P st g0 j).2.W (innerPassG side sqrt A P st g0 j).1.j _).get i = _
    rw [setF_get, innerPassG_fst, innerPass_j]
    by_cases hij : i = j
    · rw [if_pos hij, hij]; unfold orthVecOf; rw [innerPass_j]
    · rw [if_neg hij]; exact ih i (by omega)

/-- the entries of `s` beyond the current index are still zero (`std::fill(s, 0)` at the start of the cycle) -/
theorem innerPass_s_zero (side : Side) (sqrt : K → K) (A : CRS K) (P : Vec K → Vec K) (st : GMRES.St K) :
    ∀ j a, j < a → (innerPass side sqrt A P st j).w.h.s.get a = 0 := by
  intro j
  induction j with
  | zero =>
    intro a ha
    show (sInit st.normR).get a = 0
    rw [sInit_get, if_neg (by omega)]
  | succ j ih =>
    intro a ha
    rw [innerPass_succ]
    have hj := innerPass_j side sqrt A P st j
    have := (hessStep_frame stdIp sqrt (innerPass side sqrt A P st j).w.v (innerPass side sqrt A P st j).j
      (innerPass side sqrt A P st j).w.h (stepV side A P (innerPass side sqrt A P st j))).2.2.2 a
      (by rw [hj]; omega) (by rw [hj]; omega)
    exact this.trans (ih a (by omega))

end passes

section inv
variable {K : Type} [Field K] [LinearOrder K] [IsStrictOrderedRing K]

theorem stdIp_self_nonneg (x : Vec K) : 0 ≤ stdIp x x := by
  rw [stdIp_eq_finsum x.size x x rfl rfl]
  exact sum_nonneg (fun i _ => mul_self_nonneg _)

/-- the number the pass that starts in state `t` hands to the square root inside `generate_plane_rotation` -/
def rotArgOf (side : Side) (sqrt : K → K) (A : CRS K) (P : Vec K → Vec K) (t : In K) : K :=
  genRotArg
    ((rotCol t.j (orth stdIp sqrt t.w.v t.j t.w.h.H (stepV side A P t)).1 t.w.h.cs t.w.h.sn).get t.j t.j)
    ((rotCol t.j (orth stdIp sqrt t.w.v t.j t.w.h.H (stepV side A P t)).1 t.w.h.cs t.w.h.sn).get (t.j + 1) t.j)

/-- **the square root is exact on every number the first `j` passes of the cycle apply it to**: `⟨r,r⟩` at the start
of the cycle, and in pass `i < j` the norm `⟨w_i,w_i⟩` of the orthogonalised vector and the argument `1 + tmp²` of
`generate_plane_rotation`.  Implied by `∀ x ≥ 0, sqrt x · sqrt x = x` (`rootsExact_of_hsqrt`); decidable on concrete
rational inputs. -/
structure RootsExact (side : Side) (sqrt : K → K) (A : CRS K) (P : Vec K → Vec K) (st : GMRES.St K) (j : ℕ) :
    Prop where
  r0 : RootAt sqrt (stdIp st.w.r st.w.r)
  orth : ∀ i, i < j → RootAt sqrt (stdIp (orthVecOf side sqrt A P (innerPass side sqrt A P st i))
    (orthVecOf side sqrt A P (innerPass side sqrt A P st i)))
  rot : ∀ i, i < j → RootAt sqrt (rotArgOf side sqrt A P (innerPass side sqrt A P st i))

theorem RootsExact.mono {side : Side} {sqrt : K → K} {A : CRS K} {P : Vec K → Vec K} {st : GMRES.St K} {j m : ℕ}
    (h : RootsExact side sqrt A P st j) (hm : m ≤ j) : RootsExact side sqrt A P st m :=
  ⟨h.r0, fun i hi => h.orth i (by omega), fun i hi => h.rot i (by omega)⟩

theorem rootsExact_of_hsqrt (side : Side) (sqrt : K → K) (hsqrt : ∀ x, 0 ≤ x → sqrt x * sqrt x = x) (A : CRS K)
    (P : Vec K → Vec K) (st : GMRES.St K) (j : ℕ) : RootsExact side sqrt A P st j :=
  ⟨hsqrt _ (stdIp_self_nonneg _), fun _ _ => hsqrt _ (stdIp_self_nonneg _), fun _ _ => hsqrt _ (genRotArg_nonneg _ _)⟩

/-- the invariant: the Givens relation and regularity of the triangular factor -/
def GivInv (β : K) (g : In K × Ghost K) : Prop :=
  GivensRel g.1.j g.1.w.h.cs.get g.1.w.h.sn.get g.1.w.h.H.get g.2.Ht.get g.1.w.h.s.get β ∧
  ∀ i, i < g.1.j → g.2.Ht.get (i + 1) i ≠ 0 → g.1.w.h.H.get i i ≠ 0

theorem cycleStart_givInv (st : GMRES.St K) (g0 : Ghost K) : GivInv st.normR (cycleStart st, g0) := by
  refine ⟨⟨fun i hi => absurd hi (Nat.not_lt_zero i), fun i hi => absurd hi (Nat.not_lt_zero i), ?_⟩,
    fun i hi => absurd hi (Nat.not_lt_zero i)⟩
  funext a
  show e0 st.normR a = (sInit st.normR).get a
  rw [sInit_get]; rfl

theorem stepG_givInv (side : Side) (sqrt : K → K) (A : CRS K)
    (P : Vec K → Vec K) (β : K) (g : In K × Ghost K) (hg : RootAt sqrt (rotArgOf side sqrt A P g.1))
    (h : GivInv β g) : GivInv β (stepG side stdIp sqrt A P g) := by
  obtain ⟨t, gh⟩ := g
  obtain ⟨⟨hu, hc, hr⟩, hd⟩ := h
  simp only at hu hc hr hd
  change RootAt sqrt (genRotArg
    ((rotCol t.j (orth stdIp sqrt t.w.v t.j t.w.h.H (stepV side A P t)).1 t.w.h.cs t.w.h.sn).get t.j t.j)
    ((rotCol t.j (orth stdIp sqrt t.w.v t.j t.w.h.H (stepV side A P t)).1 t.w.h.cs t.w.h.sn).get (t.j + 1) t.j)) at hg
  have hHt : ∀ a b, (stepG side stdIp sqrt A P (t, gh)).2.Ht.get a b
      = if b = t.j then (orth stdIp sqrt t.w.v t.j t.w.h.H (stepV side A P t)).1.get a b else gh.Ht.get a b :=
    fun _ _ => rfl
  have hH2o : ∀ a b, b ≠ t.j →
      (orth stdIp sqrt t.w.v t.j t.w.h.H (stepV side A P t)).1.get a b = t.w.h.H.get a b :=
    fun a b hb => orth_other_col stdIp sqrt t.w.v t.j t.w.h.H _ a b hb
  show GivensRel (t.j + 1)
      (rotate sqrt t.j t.w.h (orth stdIp sqrt t.w.v t.j t.w.h.H (stepV side A P t)).1).1.cs.get
      (rotate sqrt t.j t.w.h (orth stdIp sqrt t.w.v t.j t.w.h.H (stepV side A P t)).1).1.sn.get
      (rotate sqrt t.j t.w.h (orth stdIp sqrt t.w.v t.j t.w.h.H (stepV side A P t)).1).1.H.get
      (stepG side stdIp sqrt A P (t, gh)).2.Ht.get
      (rotate sqrt t.j t.w.h (orth stdIp sqrt t.w.v t.j t.w.h.H (stepV side A P t)).1).1.s.get β ∧
    ∀ i, i < t.j + 1 → (stepG side stdIp sqrt A P (t, gh)).2.Ht.get (i + 1) i ≠ 0 →
      (rotate sqrt t.j t.w.h (orth stdIp sqrt t.w.v t.j t.w.h.H (stepV side A P t)).1).1.H.get i i ≠ 0
  generalize (stepG side stdIp sqrt A P (t, gh)).2.Ht = Ht' at hHt ⊢
  generalize (orth stdIp sqrt t.w.v t.j t.w.h.H (stepV side A P t)).1 = H2 at hHt hH2o hg ⊢
  obtain ⟨rcs, rsn, rs, rH, _⟩ := rotate_spec sqrt t.j t.w.h H2
  obtain ⟨rf, _, _, _⟩ := rotate_frame sqrt t.j t.w.h H2
  obtain ⟨g1, g2⟩ := genRot_spec sqrt ((rotCol t.j H2 t.w.h.cs t.w.h.sn).get t.j t.j)
    ((rotCol t.j H2 t.w.h.cs t.w.h.sn).get (t.j + 1) t.j) hg
  have hdiag := genRot_diag_ne sqrt ((rotCol t.j H2 t.w.h.cs t.w.h.sn).get t.j t.j)
    ((rotCol t.j H2 t.w.h.cs t.w.h.sn).get (t.j + 1) t.j) hg
  change (rotG sqrt t.j t.w.h H2).1 * (rotG sqrt t.j t.w.h H2).1
    + (rotG sqrt t.j t.w.h H2).2 * (rotG sqrt t.j t.w.h H2).2 = 1 at g1
  change -(rotG sqrt t.j t.w.h H2).2 * _ + (rotG sqrt t.j t.w.h H2).1 * _ = 0 at g2
  change _ → (rotG sqrt t.j t.w.h H2).1 * _ + (rotG sqrt t.j t.w.h H2).2 * _ ≠ 0 at hdiag
  generalize rotG sqrt t.j t.w.h H2 = gr at rcs rsn rs rH g1 g2 hdiag
  generalize (rotate sqrt t.j t.w.h H2).1 = R at rcs rsn rs rH rf ⊢
  have hcs' : ∀ k, k < t.j → R.cs.get k = t.w.h.cs.get k := by
    intro k hk; rw [rcs, setF_other _ _ _ _ (by omega)]
  have hsn' : ∀ k, k < t.j → R.sn.get k = t.w.h.sn.get k := by
    intro k hk; rw [rsn, setF_other _ _ _ _ (by omega)]
  have hcsj : R.cs.get t.j = gr.1 := by rw [rcs, setF_same]
  have hsnj : R.sn.get t.j = gr.2 := by rw [rsn, setF_same]
  have hseq : ∀ u, rotSeq R.cs.get R.sn.get (t.j + 1) u
      = rot1 gr.1 gr.2 t.j (rotSeq t.w.h.cs.get t.w.h.sn.get t.j u) := by
    intro u
    show rot1 _ _ t.j (rotSeq _ _ t.j u) = _
    rw [hcsj, hsnj, rotSeq_congr_cs _ _ _ _ t.j hcs' hsn']
  have hH3top : (rotCol t.j H2 t.w.h.cs t.w.h.sn).get (t.j + 1) t.j = H2.get (t.j + 1) t.j :=
    rotCol_frame t.j H2 t.w.h.cs t.w.h.sn (t.j + 1) t.j (Or.inr (Nat.lt_succ_self _))
  refine ⟨⟨?_, ?_, ?_⟩, ?_⟩
  · intro i hi
    by_cases hij : i = t.j
    · rw [hij, hcsj, hsnj]; exact g1
    · rw [hcs' i (by omega), hsn' i (by omega)]; exact hu i (by omega)
  · intro i hi
    rw [hseq]
    by_cases hij : i = t.j
    · subst hij
      have hwv : ∀ a, a ≤ t.j + 1 → rotSeq t.w.h.cs.get t.w.h.sn.get t.j (colT Ht'.get t.j) a
          = (rotCol t.j H2 t.w.h.cs t.w.h.sn).get a t.j := by
        intro a ha
        rw [rotSeq_congr_le _ _ t.j (t.j + 1) (by omega) (colT Ht'.get t.j) (fun a => H2.get a t.j)
          (fun b hb => by simp only [colT]; rw [if_pos hb, hHt, if_pos rfl]) a ha, ← rotCol_col]
      have hwz : ∀ a, t.j + 1 < a → rotSeq t.w.h.cs.get t.w.h.sn.get t.j (colT Ht'.get t.j) a = 0 := by
        intro a ha
        rw [rotSeq_of_gt _ _ _ _ _ (by omega)]
        simp only [colT]; rw [if_neg (by omega)]
      funext a
      simp only [rot1, colR]
      by_cases ha1 : a = t.j
      · rw [if_pos ha1, if_pos (by omega), ha1, rH, hwv t.j (by omega), hwv (t.j + 1) (by omega)]
        simp only [rot1, if_true]
      · rw [if_neg ha1]
        by_cases ha2 : a = t.j + 1
        · rw [if_pos ha2, if_neg (by omega), hwv t.j (by omega), hwv (t.j + 1) (by omega)]
          exact g2
        · rw [if_neg ha2]
          by_cases ha3 : a ≤ t.j
          · rw [if_pos ha3, rH, hwv a (by omega)]
            simp only [rot1, ha1, ha2, if_false]
          · rw [if_neg ha3]; exact hwz a (by omega)
    · have hcol : colT Ht'.get i = colT gh.Ht.get i := by
        funext a; simp only [colT]; rw [hHt a i, if_neg hij]
      have hR : colR R.H.get i = colR t.w.h.H.get i := by
        funext a; simp only [colR]; rw [rf a i (Or.inl hij), hH2o a i hij]
      rw [hcol, hc i (by omega), hR]
      apply rot1_of_zero
      · simp only [colR]; rw [if_neg (by omega)]
      · simp only [colR]; rw [if_neg (by omega)]
  · rw [hseq, hr]
    funext a
    exact (rs a).symm
  · intro i hi hne
    by_cases hij : i = t.j
    · subst hij
      rw [hHt, if_pos rfl] at hne
      rw [rH]
      simp only [rot1, if_true]
      exact hdiag (by rw [hH3top]; exact hne)
    · rw [hHt, if_neg hij] at hne
      rw [rf i i (Or.inl hij), hH2o i i hij]
      exact hd i (by omega) hne

/-- the Givens relation holds after `j` passes of the inner loop, roots exact in the rotations of these passes -/
theorem innerPassG_givInv (side : Side) (sqrt : K → K) (A : CRS K)
    (P : Vec K → Vec K) (st : GMRES.St K) (g0 : Ghost K) (j : ℕ)
    (hrot : ∀ i, i < j → RootAt sqrt (rotArgOf side sqrt A P (innerPass side sqrt A P st i))) :
    GivInv st.normR (innerPassG side sqrt A P st g0 j) := by
  induction j with
  | zero => exact cycleStart_givInv st g0
  | succ j ih =>
    rw [innerPassG_succ]
    refine stepG_givInv side sqrt A P _ _ ?_ (ih (fun i hi => hrot i (by omega)))
    rw [innerPassG_fst]; exact hrot j (Nat.lt_succ_self j)

/-- … in terms of the model's state -/
theorem innerPassG_givens (side : Side) (sqrt : K → K) (A : CRS K)
    (P : Vec K → Vec K) (st : GMRES.St K) (g0 : Ghost K) (j : ℕ)
    (hrot : ∀ i, i < j → RootAt sqrt (rotArgOf side sqrt A P (innerPass side sqrt A P st i))) :
    GivensRel j (innerPass side sqrt A P st j).w.h.cs.get (innerPass side sqrt A P st j).w.h.sn.get
      (innerPass side sqrt A P st j).w.h.H.get (innerPassG side sqrt A P st g0 j).2.Ht.get
      (innerPass side sqrt A P st j).w.h.s.get st.normR ∧
    ∀ i, i < j → arnoldiNorm side sqrt A P st i ≠ 0 → (innerPass side sqrt A P st j).w.h.H.get i i ≠ 0 := by
  have h := innerPassG_givInv side sqrt A P st g0 j hrot
  unfold GivInv at h
  rw [innerPassG_fst, innerPass_j] at h
  refine ⟨h.1, fun i hi hne => h.2 i hi ?_⟩
  rw [ghost_sub side sqrt A P st g0 j i hi]; exact hne

/-- the `inner_res` of the loop state after `j+1` passes is `|s_{j+1}|` -/
theorem innerPass_innerRes (side : Side) (sqrt : K → K) (A : CRS K) (P : Vec K → Vec K) (st : GMRES.St K) (j : ℕ) :
    (innerPass side sqrt A P st (j + 1)).innerRes
      = Solver.absK ((innerPass side sqrt A P st (j + 1)).w.h.s.get (j + 1)) := by
  have hj := innerPass_j side sqrt A P st j
  rw [innerPass_succ]
  generalize innerPass side sqrt A P st j = t at hj ⊢
  subst hj
  exact (rotate_spec sqrt t.j t.w.h (orth stdIp sqrt t.w.v t.j t.w.h.H (stepV side A P t)).1).2.2.2.2

/-- **the residual estimate does not increase**: `|s_{j+1}|` after pass `j+1` is `|sn_j|·|s_j| ≤ |s_j|` -/
theorem innerRes_antitone (side : Side) (sqrt : K → K) (A : CRS K)
    (P : Vec K → Vec K) (st : GMRES.St K) (j : ℕ)
    (hg : RootAt sqrt (rotArgOf side sqrt A P (innerPass side sqrt A P st j))) :
    (innerPass side sqrt A P st (j + 1)).innerRes = Solver.absK ((innerPass side sqrt A P st (j + 1)).w.h.s.get (j + 1)) ∧
    Solver.absK ((innerPass side sqrt A P st (j + 1)).w.h.s.get (j + 1))
      ≤ Solver.absK ((innerPass side sqrt A P st j).w.h.s.get j) := by
  have hz := innerPass_s_zero side sqrt A P st j (j + 1) (Nat.lt_succ_self j)
  have hj := innerPass_j side sqrt A P st j
  rw [innerPass_succ]
  generalize innerPass side sqrt A P st j = t at hz hj hg ⊢
  subst hj
  obtain ⟨_, _, rs, _, rres⟩ := rotate_spec sqrt t.j t.w.h (orth stdIp sqrt t.w.v t.j t.w.h.H (stepV side A P t)).1
  have g1 : (rotG sqrt t.j t.w.h (orth stdIp sqrt t.w.v t.j t.w.h.H (stepV side A P t)).1).1
        * (rotG sqrt t.j t.w.h (orth stdIp sqrt t.w.v t.j t.w.h.H (stepV side A P t)).1).1
      + (rotG sqrt t.j t.w.h (orth stdIp sqrt t.w.v t.j t.w.h.H (stepV side A P t)).1).2
        * (rotG sqrt t.j t.w.h (orth stdIp sqrt t.w.v t.j t.w.h.H (stepV side A P t)).1).2 = 1 :=
    (genRot_spec sqrt _ _ hg).1
  refine ⟨rres, ?_⟩
  show Solver.absK ((rotate sqrt t.j t.w.h (orth stdIp sqrt t.w.v t.j t.w.h.H (stepV side A P t)).1).1.s.get (t.j + 1)) ≤ _
  rw [rs (t.j + 1)]
  generalize rotG sqrt t.j t.w.h (orth stdIp sqrt t.w.v t.j t.w.h.H (stepV side A P t)).1 = gr at g1 ⊢
  have hval : rot1 gr.1 gr.2 t.j t.w.h.s.get (t.j + 1) = -gr.2 * t.w.h.s.get t.j := by
    show (if t.j + 1 = t.j then _ else if t.j + 1 = t.j + 1 then _ else _) = _
    rw [if_neg (by omega), if_pos rfl, hz]; ring
  rw [hval, absK_eq_abs, absK_eq_abs, abs_mul, abs_neg]
  have h1 : |gr.2| ≤ 1 := abs_le_one_iff_mul_self_le_one.mpr (sn_sq_le_one gr.1 gr.2 g1)
  calc |gr.2| * |t.w.h.s.get t.j| ≤ 1 * |t.w.h.s.get t.j| := mul_le_mul_of_nonneg_right h1 (abs_nonneg _)
    _ = |t.w.h.s.get t.j| := one_mul _

end inv
end Amgcl.Krylov
