import Amgcl.Model.DefinedFiltered
import Amgcl.Proofs.DefinedStores
import Amgcl.Proofs.KernelsRmerge
import Amgcl.Proofs.RelaxIlupSymb
namespace Amgcl
namespace Defined
variable {K : Type}

theorem fcount_eq {E : Type} (keep : E → Bool) (out : E → Nat × K) (r : List E) :
    fcount keep r = (frow keep out r).length := by
  unfold fcount frow
  rw [List.length_map]
  have key : ∀ (r : List E) (w : Nat),
      r.foldl (fun w e => if keep e then w + 1 else w) w = w + (r.filter keep).length := by
    intro r
    induction r with
    | nil => intro w; rfl
    | cons e t ih =>
      intro w
      rw [List.foldl_cons, ih, List.filter_cons]
      cases h : keep e
      · simp
      · simp; omega
  rw [key]; omega

theorem schurL_cover [Zero K] (np : Nat) (hasDiag : Nat → Bool) (s : Nat → K) :
    ∀ q, q < np → ∃ x ∈ schurLStores np hasDiag s, x.1 = q := by
  intro q hq
  unfold schurLStores
  exact ⟨(q, 0), List.mem_flatMap.mpr ⟨q, List.mem_range.mpr hq, List.mem_cons_self ..⟩, rfl⟩

theorem segZero_cover {α : Type} (n : Nat) (ptr : Nat → Nat) (z : α) (h0 : ptr 0 = 0)
    (hm : ∀ i, i < n → ptr i ≤ ptr (i + 1)) : ∀ q, q < ptr n → ∃ x ∈ segZeroStores n ptr z, x.1 = q := by
  intro q hq
  have hex : ∃ i, i < n ∧ ptr i ≤ q ∧ q < ptr (i + 1) := by
    induction n with
    | zero => rw [h0] at hq; omega
    | succ k ih =>
      by_cases h : q < ptr k
      · obtain ⟨i, h1, h2, h3⟩ := ih (fun i hi => hm i (by omega)) h
        exact ⟨i, by omega, h2, h3⟩
      · exact ⟨k, by omega, by omega, hq⟩
  obtain ⟨i, h1, h2, h3⟩ := hex
  unfold segZeroStores
  refine ⟨(q, z), List.mem_flatMap.mpr ⟨i, List.mem_range.mpr h1, List.mem_map.mpr ⟨q, ?_, rfl⟩⟩, rfl⟩
  rw [List.mem_range'_1]
  omega

theorem seg_cover {α : Type} (n : Nat) (ptr : Nat → Nat) (f : Nat → α) (h0 : ptr 0 = 0)
    (hm : ∀ i, i < n → ptr i ≤ ptr (i + 1)) : ∀ q, q < ptr n → ∃ x ∈ segStores n ptr f, x.1 = q := by
  intro q hq
  have hex : ∃ i, i < n ∧ ptr i ≤ q ∧ q < ptr (i + 1) := by
    induction n with
    | zero => rw [h0] at hq; omega
    | succ k ih =>
      by_cases h : q < ptr k
      · obtain ⟨i, h1, h2, h3⟩ := ih (fun i hi => hm i (by omega)) h
        exact ⟨i, by omega, h2, h3⟩
      · exact ⟨k, by omega, by omega, hq⟩
  obtain ⟨i, h1, h2, h3⟩ := hex
  unfold segStores
  refine ⟨(q, f q), List.mem_flatMap.mpr ⟨i, List.mem_range.mpr h1, List.mem_map.mpr ⟨q, ?_, rfl⟩⟩, rfl⟩
  rw [List.mem_range'_1]
  omega

end Defined
end Amgcl
