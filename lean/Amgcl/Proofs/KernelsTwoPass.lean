import Amgcl.Proofs.KernelsCommon
import Amgcl.Proofs.KernelsSaad2
import Amgcl.Proofs.KernelsSort
/-!
The two-pass "count, scan, fill" skeleton shared by `backend::sum` and `spgemm_saad`, generically over the list
of terms `terms i : Row K` that row `i` accumulates (in loop order):

* first pass  (`widthsG`): per row, `cntStep` over the columns of the terms, ONE marker array threaded through
  all rows (test `marker[c] != i`);
* second pass (`rowsG`):  per row, `accStep rowBeg` with `rowBeg = ptr[i]`, ONE marker array threaded through
  all rows (test `marker[c] < rowBeg`), optional `sort_row`.

Row-level invariant carried across rows: at the start of row `i` every marker is `< i` (first pass) /
`< ptr[i]` (second pass).  Results: the first-pass width of row `i` is the number of distinct columns of
`terms i`, which is exactly the length of the second-pass row; the second-pass row has no duplicate column and
denotes `rowGet (terms i)`.
-/
namespace Amgcl.K2
open Amgcl

section
set_option linter.unusedSectionVars false
variable {K : Type} [AddCommMonoid K]

/-- number of distinct columns among the terms of row `i` -/
def ndistinct (r : Row K) : Nat := (cols r).toFinset.card

/-- first pass over rows `0 … n-1` -/
def widthsG (terms : Nat → Row K) (M n : Nat) : List Nat × Array Int :=
  (List.range n).foldl (fun (acc : List Nat × Array Int) i =>
      let r := (cols (terms i)).foldl (cntStep i) (0, acc.2)
      (acc.1 ++ [r.1], r.2)) ([], Array.replicate M (-1))

/-- second pass over rows `0 … n-1` -/
def rowsG (terms : Nat → Row K) (M n : Nat) (ptr : List Nat) (sort : Bool) : Array (Row K) × Array Int :=
  (List.range n).foldl (fun (acc : Array (Row K) × Array Int) i =>
      let r := (terms i).foldl (accStep (ptr.getD i 0)) (#[], acc.2)
      let row := if sort then sortRow r.1.toList else r.1.toList
      (acc.1.push row, r.2)) (#[], Array.replicate M (-1))

theorem getD_replicate_neg1 (M c : Nat) : (Array.replicate M (-1 : Int)).getD c (-1) = -1 := by
  by_cases h : c < M <;> simp [Array.getD, h]

theorem widthsG_succ (terms : Nat → Row K) (M n : Nat) :
    widthsG terms M (n + 1) =
      (let r := (cols (terms n)).foldl (cntStep n) (0, (widthsG terms M n).2)
       ((widthsG terms M n).1 ++ [r.1], r.2)) := by
  unfold widthsG
  rw [List.range_succ, List.foldl_append]
  rfl

theorem rowsG_succ (terms : Nat → Row K) (M n : Nat) (ptr : List Nat) (sort : Bool) :
    rowsG terms M (n + 1) ptr sort =
      (let r := (terms n).foldl (accStep (ptr.getD n 0)) (#[], (rowsG terms M n ptr sort).2)
       let row := if sort then sortRow r.1.toList else r.1.toList
       ((rowsG terms M n ptr sort).1.push row, r.2)) := by
  unfold rowsG
  rw [List.range_succ, List.foldl_append]
  rfl

/-- the first pass computes, for every row, the number of distinct columns of its terms -/
theorem widthsG_spec (terms : Nat → Row K) (M : Nat) (hM : ∀ i, ∀ t ∈ terms i, t.1 < M) (n : Nat) :
    (widthsG terms M n).1 = (List.range n).map (fun i => ndistinct (terms i)) ∧
    (widthsG terms M n).2.size = M ∧
    ∀ c, (widthsG terms M n).2.getD c (-1) < (n : Int) := by
  induction n with
  | zero =>
    refine ⟨rfl, by simp [widthsG], ?_⟩
    intro c
    show (Array.replicate M (-1 : Int)).getD c (-1) < 0
    rw [getD_replicate_neg1]; decide
  | succ n ih =>
    obtain ⟨h1, h2, h3⟩ := ih
    rw [widthsG_succ]
    have hcs : ∀ c ∈ cols (terms n), c < M := by
      intro c hc
      obtain ⟨t, ht, rfl⟩ := List.mem_map.1 hc
      exact hM n t ht
    have hfresh : ∀ c, (widthsG terms M n).2.getD c (-1) = (n : Int) ↔ c ∈ ([] : List Nat) := by
      intro c
      have := h3 c
      constructor
      · intro h; omega
      · intro h; cases h
    obtain ⟨g1, g2, _, g4⟩ := cnt_foldl n (cols (terms n)) M hcs [] 0 (widthsG terms M n).2 h2 hfresh
    refine ⟨?_, g2, ?_⟩
    · show (widthsG terms M n).1 ++ [_] = _
      rw [List.range_succ, List.map_append, h1]
      congr 1
      simp only [List.toFinset_nil, Finset.card_empty, Nat.add_zero, List.nil_append, Nat.zero_add] at g1
      simp [ndistinct, g1]
    · intro c
      rcases g4 c with h | h
      · show ((cols (terms n)).foldl (cntStep n) (0, (widthsG terms M n).2)).2.getD c (-1) < _
        rw [h]; push_cast; omega
      · show ((cols (terms n)).foldl (cntStep n) (0, (widthsG terms M n).2)).2.getD c (-1) < _
        rw [h]; have := h3 c; push_cast; omega

theorem widthsG_length (terms : Nat → Row K) (M : Nat) (hM : ∀ i, ∀ t ∈ terms i, t.1 < M) (n : Nat) :
    (widthsG terms M n).1.length = n := by
  rw [(widthsG_spec terms M hM n).1]; simp

/-- what the second pass guarantees about output row `i` -/
structure RowOK (terms : Nat → Row K) (sort : Bool) (i : Nat) (row : Row K) : Prop where
  get : ∀ j, rowGet row j = rowGet (terms i) j
  nodup : (cols row).Nodup
  length : row.length = ndistinct (terms i)
  mem : ∀ e ∈ row, e.1 ∈ cols (terms i)
  sorted : sort = true → StrictCols row

theorem RowOK.of_acc {terms : Nat → Row K} {i rowBeg M : Nat} {out : Array (Nat × K)} {marker : Array Int}
    (I : AccInv rowBeg M (terms i) out marker) (sort : Bool) :
    RowOK terms sort i (if sort then sortRow out.toList else out.toList) := by
  have hcard : out.toList.length = ndistinct (terms i) := by
    rw [Array.length_toList]; exact I.card
  cases sort with
  | false =>
    exact ⟨I.get, I.nodup, hcard, I.cols_mem, fun h => by cases h⟩
  | true =>
    simp only [if_true]
    refine ⟨fun j => (rowGet_sortRow _ j).trans (I.get j), ?_, ?_, ?_, fun _ => sortRow_strict _ I.nodup⟩
    · exact (sortRow_cols_perm out.toList).nodup_iff.2 I.nodup
    · rw [sortRow_length]; exact hcard
    · intro e he; exact I.cols_mem e ((sortRow_perm _).mem_iff.1 he)

/-- the second pass: every row is `RowOK`, provided the row offsets advance by the number of distinct columns -/
theorem rowsG_spec (terms : Nat → Row K) (M : Nat) (hM : ∀ i, ∀ t ∈ terms i, t.1 < M) (ptr : List Nat)
    (sort : Bool) (n : Nat)
    (hptr : ∀ i, i < n → ptr.getD (i + 1) 0 = ptr.getD i 0 + ndistinct (terms i)) :
    (rowsG terms M n ptr sort).1.size = n ∧
    (rowsG terms M n ptr sort).2.size = M ∧
    (∀ c, (rowsG terms M n ptr sort).2.getD c (-1) < (ptr.getD n 0 : Int)) ∧
    ∀ i (h : i < (rowsG terms M n ptr sort).1.size), RowOK terms sort i ((rowsG terms M n ptr sort).1[i]) := by
  induction n with
  | zero =>
    refine ⟨rfl, by simp [rowsG], ?_, ?_⟩
    · intro c
      show (Array.replicate M (-1 : Int)).getD c (-1) < _
      rw [getD_replicate_neg1]; omega
    · intro i h; exact absurd h (by simp [rowsG])
  | succ n ih =>
    obtain ⟨h1, h2, h3, h4⟩ := ih (fun i hi => hptr i (Nat.lt_succ_of_lt hi))
    have I0 : AccInv (K := K) (ptr.getD n 0) M [] #[] (rowsG terms M n ptr sort).2 :=
      AccInv.init _ _ _ h2 h3
    have I := AccInv.foldl (terms n) (hM n) I0
    rw [List.nil_append] at I
    rw [rowsG_succ]
    refine ⟨by simp [h1], I.size, ?_, ?_⟩
    · intro c
      have := I.marker_lt c
      rw [I.card] at this
      rw [hptr n (Nat.lt_succ_self n)]
      exact this
    · intro i hi
      simp only [Array.getElem_push]
      split
      · rename_i hlt; exact h4 i hlt
      · rename_i hge
        have hin : i = n := by
          simp only [Array.size_push] at hi
          omega
        subst hin
        exact RowOK.of_acc I sort

end
end Amgcl.K2
