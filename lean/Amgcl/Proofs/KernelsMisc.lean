import Amgcl.Proofs.KernelsCommon
import Mathlib.Algebra.BigOperators.Group.List.Basic
import Mathlib.Algebra.Field.Basic
import Mathlib.Data.List.GetD
/-!
# C08b — `scan_row_sizes` / `ptr` and `backend::diagonal`

* `scanWidths ws` (the model of `scan_row_sizes`, and of the derived `CRS.ptr`) is the list of the
  prefix sums of `ws`: it has `ws.length + 1` entries, starts with `0`, ends with `ws.sum`, is
  monotone, and consecutive entries differ by the row width.
* `diagonal A invert` has one entry per row; the entry is `none` (C++: *uninitialised*) exactly for
  the rows without a stored diagonal entry, otherwise it is computed from the FIRST stored entry
  with `col == i`; if there is exactly one such entry this is the denoted `A.get i i`.
-/
namespace Amgcl.K2
open Amgcl

/-! ## `scanWidths` -/

section scan

/-- the step function of `scanWidths` / `CRS.ptr` -/
private theorem scan_fold (ws : List Nat) (pre : List Nat) (s : Nat) :
    (ws.foldl (fun (acc : List Nat × Nat) w => (acc.1 ++ [acc.2 + w], acc.2 + w)) (pre, s)).1
      = pre ++ (List.range ws.length).map (fun i => s + (ws.take (i + 1)).sum) := by
  induction ws generalizing pre s with
  | nil => simp
  | cons w t ih =>
    rw [List.foldl_cons, ih, List.length_cons, List.range_succ_eq_map, List.map_cons, List.map_map,
      List.append_assoc]
    congr 1
    simp only [List.singleton_append, List.take_succ_cons, List.take_zero, List.sum_cons,
      List.sum_nil, Nat.add_zero, List.cons.injEq, true_and]
    apply List.map_congr_left
    intro i _
    simp only [Function.comp, Nat.add_assoc]

theorem scanWidths_eq (ws : List Nat) :
    scanWidths ws = (List.range (ws.length + 1)).map (fun i => (ws.take i).sum) := by
  unfold scanWidths
  rw [scan_fold, List.range_succ_eq_map, List.map_cons, List.map_map]
  simp only [List.take_zero, List.sum_nil, List.singleton_append, List.cons.injEq, true_and]
  apply List.map_congr_left
  intro i _
  simp only [Function.comp, Nat.zero_add, Nat.succ_eq_add_one]

theorem scanWidths_length (ws : List Nat) : (scanWidths ws).length = ws.length + 1 := by
  rw [scanWidths_eq, List.length_map, List.length_range]

theorem scanWidths_getD (ws : List Nat) (i : Nat) (hi : i ≤ ws.length) :
    (scanWidths ws).getD i 0 = (ws.take i).sum := by
  have h : i < ((List.range (ws.length + 1)).map (fun i => (ws.take i).sum)).length := by
    rw [List.length_map, List.length_range]; omega
  rw [scanWidths_eq, List.getD_eq_getElem _ _ h, List.getElem_map, List.getElem_range]

theorem scanWidths_head (ws : List Nat) : (scanWidths ws).head? = some 0 := by
  rw [scanWidths_eq, List.range_succ_eq_map]; rfl

theorem scanWidths_getD_zero (ws : List Nat) : (scanWidths ws).getD 0 0 = 0 := by
  rw [scanWidths_getD ws 0 (Nat.zero_le _)]; rfl

theorem scanWidths_getD_length (ws : List Nat) : (scanWidths ws).getD ws.length 0 = ws.sum := by
  rw [scanWidths_getD ws _ (Nat.le_refl _), List.take_length]

theorem scanWidths_last (ws : List Nat) : (scanWidths ws).getLast? = some ws.sum := by
  rw [scanWidths_eq, List.range_succ, List.map_append, List.map_singleton,
    List.getLast?_append, List.getLast?_singleton, List.take_length]
  rfl

theorem sum_take_le_of_le (ws : List Nat) {i j : Nat} (h : i ≤ j) :
    (ws.take i).sum ≤ (ws.take j).sum := by
  obtain ⟨k, rfl⟩ := Nat.exists_eq_add_of_le h
  rw [List.take_add, List.sum_append]
  exact Nat.le_add_right _ _

/-- `ptr` is non-decreasing -/
theorem scanWidths_mono (ws : List Nat) : (scanWidths ws).Pairwise (· ≤ ·) := by
  rw [scanWidths_eq, List.pairwise_map]
  exact (List.pairwise_lt_range).imp (fun h => sum_take_le_of_le ws (Nat.le_of_lt h))

/-- `ptr[i+1] = ptr[i] + width[i]` -/
theorem scanWidths_succ (ws : List Nat) (i : Nat) (hi : i < ws.length) :
    (scanWidths ws).getD (i + 1) 0 = (scanWidths ws).getD i 0 + ws.getD i 0 := by
  rw [scanWidths_getD ws (i + 1) hi, scanWidths_getD ws i (Nat.le_of_lt hi),
    List.getD_eq_getElem _ _ hi, List.sum_take_succ ws i hi]

end scan

/-! ## `CRS.ptr` -/

section ptr
variable {K : Type}

theorem ptr_eq_scanWidths (A : CRS K) : A.ptr = scanWidths (A.rows.toList.map List.length) := by
  unfold CRS.ptr scanWidths
  rw [List.foldl_map]

private theorem foldl_length_eq (l : List (Row K)) (s : Nat) :
    l.foldl (fun s r => s + r.length) s = s + (l.map List.length).sum := by
  induction l generalizing s with
  | nil => simp
  | cons r t ih => rw [List.foldl_cons, ih, List.map_cons, List.sum_cons, Nat.add_assoc]

theorem nnz_eq_sum (A : CRS K) : A.nnz = (A.rows.toList.map List.length).sum := by
  unfold CRS.nnz
  rw [← Array.foldl_toList, foldl_length_eq, Nat.zero_add]

theorem ptr_length (A : CRS K) : A.ptr.length = A.nrows + 1 := by
  rw [ptr_eq_scanWidths, scanWidths_length, List.length_map, Array.length_toList]; rfl

/-- the C++ `ptr` array is non-decreasing, starts at `0` and has `nrows + 1` entries -/
theorem ptr_monotone (A : CRS K) :
    A.ptr.Pairwise (· ≤ ·) ∧ A.ptr.head? = some 0 ∧ A.ptr.length = A.nrows + 1 := by
  refine ⟨?_, ?_, ptr_length A⟩
  · rw [ptr_eq_scanWidths]; exact scanWidths_mono _
  · rw [ptr_eq_scanWidths]; exact scanWidths_head _

/-- `ptr[nrows] = nnz` -/
theorem ptr_last (A : CRS K) : A.ptr.getLast? = some A.nnz := by
  rw [ptr_eq_scanWidths, scanWidths_last, nnz_eq_sum]

/-- `ptr[i+1] - ptr[i]` is the width of row `i` -/
theorem ptr_succ (A : CRS K) (i : Nat) (hi : i < A.nrows) :
    A.ptr.getD (i + 1) 0 = A.ptr.getD i 0 + (A.row i).length := by
  have hi' : i < (A.rows.toList.map List.length).length := by
    rw [List.length_map, Array.length_toList]; exact hi
  rw [ptr_eq_scanWidths, scanWidths_succ _ i hi', List.getD_eq_getElem _ _ hi', List.getElem_map,
    row_eq_getElem A hi, Array.getElem_toList]
  rfl

end ptr

/-! ## splitting a row at its unique entry of column `i` -/

section split
variable {K : Type}

/-- a row with exactly one stored entry of column `i` splits around that entry -/
theorem exists_split_of_filter_length_one (r : Row K) (i : Nat)
    (h : (r.filter (fun cv => decide (cv.1 = i))).length = 1) :
    ∃ pre v post, r = pre ++ (i, v) :: post ∧ i ∉ pre.map (·.1) ∧ i ∉ post.map (·.1) := by
  induction r with
  | nil => simp at h
  | cons cv t ih =>
    by_cases hc : cv.1 = i
    · rw [List.filter_cons_of_pos (by simpa using hc), List.length_cons, Nat.add_eq_right,
        List.length_eq_zero_iff, List.filter_eq_nil_iff] at h
      refine ⟨[], cv.2, t, ?_, by simp, ?_⟩
      · rw [← hc]; rfl
      · intro hm
        obtain ⟨x, hx, hxi⟩ := List.mem_map.1 hm
        exact h x hx (by simpa using hxi)
    · rw [List.filter_cons_of_neg (by simpa using hc)] at h
      obtain ⟨pre, v, post, rfl, h1, h2⟩ := ih h
      refine ⟨cv :: pre, v, post, rfl, ?_, h2⟩
      simp only [List.map_cons, List.mem_cons, not_or]
      exact ⟨fun e => hc e.symm, h1⟩

theorem rowGet_of_split {K : Type} [AddCommMonoid K] (pre post : Row K) (i : Nat) (v : K)
    (h1 : i ∉ pre.map (·.1)) (h2 : i ∉ post.map (·.1)) :
    rowGet (pre ++ (i, v) :: post) i = v := by
  rw [rowGet_append, rowGet_cons, if_pos rfl, rowGet_eq_zero h1, rowGet_eq_zero h2, zero_add,
    add_zero]

end split

/-! ## `diagonal` -/

section diag

theorem getD_ofFn_lt' {α : Type} {n : Nat} (f : Fin n → α) (i : Nat) (d : α) (h : i < n) :
    (Array.ofFn f).getD i d = f ⟨i, h⟩ := by
  unfold Array.getD
  simp [h]

variable {K : Type} [Zero K] [One K] [Inv K] [DecidableEq K]

theorem diagonal_size (A : CRS K) (invert : Bool) : (diagonal A invert).size = A.nrows := by
  unfold diagonal; exact Array.size_ofFn

/-- entry `i` of `diagonal A invert` in terms of the `find?` of the model -/
theorem diagonal_getD (A : CRS K) (invert : Bool) (i : Nat) (hi : i < A.nrows) :
    (diagonal A invert).getD i none =
      some ((((A.row i).find? (fun cv => decide (cv.1 = i))).map
        (fun cv => if invert then (if cv.2 = 0 then 1 else cv.2⁻¹) else cv.2)).getD (if invert then 1 else 0)) := by
  unfold diagonal
  rw [getD_ofFn_lt' _ _ _ hi]
  dsimp only
  cases (A.row i).find? (fun cv => decide (cv.1 = i)) <;> rfl

/-- every entry is written -/
theorem diagonal_ne_none (A : CRS K) (invert : Bool) (i : Nat) (hi : i < A.nrows) :
    (diagonal A invert).getD i none ≠ none := by
  rw [diagonal_getD A invert i hi]; exact Option.some_ne_none _

/-- a row that stores no diagonal entry gets the value of a zero diagonal: `0`, resp. the identity when inverted -/
theorem diagonal_missing (A : CRS K) (invert : Bool) (i : Nat) (hi : i < A.nrows) (h : i ∉ (A.row i).map (·.1)) :
    (diagonal A invert).getD i none = some (if invert then 1 else 0) := by
  have hf : (A.row i).find? (fun cv => decide (cv.1 = i)) = none := by
    rw [List.find?_eq_none]
    intro x hx hxi
    exact h (List.mem_map.2 ⟨x, hx, by simpa using hxi⟩)
  rw [diagonal_getD A invert i hi, hf]; rfl

/-- the FIRST stored diagonal entry is used, whatever follows -/
theorem diagonal_first (A : CRS K) (invert : Bool) (i : Nat) (hi : i < A.nrows)
    (pre post : Row K) (v : K) (hrow : A.row i = pre ++ (i, v) :: post)
    (hpre : i ∉ pre.map (·.1)) :
    (diagonal A invert).getD i none = some (if invert then (if v = 0 then 1 else v⁻¹) else v) := by
  have hfind : (A.row i).find? (fun cv => decide (cv.1 = i)) = some (i, v) := by
    rw [hrow, List.find?_append]
    have : pre.find? (fun cv => decide (cv.1 = i)) = none := by
      rw [List.find?_eq_none]
      intro x hx hxi
      exact hpre (List.mem_map.2 ⟨x, hx, by simpa using hxi⟩)
    rw [this, Option.none_or, List.find?_cons_of_pos (by simp)]
  rw [diagonal_getD A invert i hi, hfind]; rfl

end diag

section diagField
variable {K : Type} [Field K]

/-- with exactly one stored entry of column `i`, `rowGet` returns its value -/
theorem exists_split_get (A : CRS K) (i : Nat)
    (h1 : ((A.row i).filter (fun cv => decide (cv.1 = i))).length = 1) :
    ∃ pre post, A.row i = pre ++ (i, A.get i i) :: post ∧ i ∉ pre.map (·.1) ∧
      i ∉ post.map (·.1) := by
  obtain ⟨pre, v, post, hrow, hp, hq⟩ := exists_split_of_filter_length_one _ i h1
  refine ⟨pre, post, ?_, hp, hq⟩
  have : A.get i i = v := by
    unfold CRS.get; rw [hrow]; exact rowGet_of_split pre post i v hp hq
  rw [this]; exact hrow

/-- exactly one stored diagonal entry: `diagonal` returns the denoted diagonal (resp. its guarded inverse) -/
theorem diagonal_spec [DecidableEq K] (A : CRS K) (i : Nat) (hi : i < A.nrows)
    (h1 : ((A.row i).filter (fun cv => decide (cv.1 = i))).length = 1) :
    (diagonal A false).getD i none = some (A.get i i) ∧
    (diagonal A true).getD i none = some (if A.get i i = 0 then 1 else (A.get i i)⁻¹) := by
  obtain ⟨pre, post, hrow, hp, _⟩ := exists_split_get A i h1
  exact ⟨diagonal_first A false i hi pre post _ hrow hp, diagonal_first A true i hi pre post _ hrow hp⟩

end diagField

end Amgcl.K2
