import Amgcl.Proofs.KrylovGMRESVec
/-!
# GMRES: least-squares meaning of one restart cycle (C05)

Setting: ordered field, exact square root (`hsqrt : ∀ x ≥ 0, sqrt x · sqrt x = x ∧ 0 ≤ sqrt x`), inner product `stdIp`,
`A` well formed `n × n`, the preconditioner denotes a linear map `Pl` (`PDenotes`), either preconditioning side.  `st` is
a state at the `break` test of the outer loop (`st.w.r` is the measured residual `Rf side P f A st.x`, `st.normR` its
norm, non-zero), `t = innerPass … j` the inner-loop state after `j` passes, and NO breakdown in these passes
(`arnoldiNorm … i ≠ 0`, `i < j`).  Then

* `cycle_basis`     `v[0..j]` orthonormal, `Tl V_i = Σ_{k ≤ i+1} H̃(k,i) V_k`, `r₀ = β V₀`      (from `inner_arnoldi`'s invariant);
* `cycle_ls`        `‖resOf (x₀ + Xl Σ y_i V_i)‖² = Σ_{a<j} (s_a − (R y)_a)² + s_j²` for EVERY `y`;
* `cycle_residual`  the iterate `x_j = (update side P st t).x` has `‖Rf x_j‖² = s_j²`, `‖Rf x_j‖ = |s_j| = inner_res`;
* `cycle_minimal`   `‖Rf x_j‖² ≤ ‖resOf (x₀ + Xl d)‖²` for every `d ∈ span{V_0..V_{j-1}}`;
* `cycle_antitone`  `‖Rf x_{j+1}‖² ≤ ‖Rf x_j‖²`.
-/
set_option linter.unusedSectionVars false
set_option linter.unusedVariables false
namespace Amgcl.Krylov
open Amgcl Amgcl.Solver Amgcl.Solver.GMRES Amgcl.Energy.Bridge Matrix Finset

section main
variable {K : Type} [Field K] [LinearOrder K] [IsStrictOrderedRing K]

theorem stdIp_self_nonneg (x : Vec K) : 0 ≤ stdIp x x := by
  rw [stdIp_eq_finsum x.size x x rfl rfl]
  exact sum_nonneg (fun i _ => mul_self_nonneg _)

/-- the fixed initial ghost (its contents are never read) -/
def g00 : Ghost K := ⟨.const 0, .const #[]⟩

/-- the unrotated Hessenberg matrix `H̃` after `j` passes -/
def hTilde (side : Side) (sqrt : K → K) (A : CRS K) (P : Vec K → Vec K) (st : GMRES.St K) (j : ℕ) : ℕ → ℕ → K :=
  (innerPassG side sqrt A P st g00 j).2.Ht.get

/-- a state at the `break` test of the outer loop whose residual is non-zero -/
structure CycleStart (side : Side) (sqrt : K → K) (A : CRS K) (P : Vec K → Vec K) (f : Vec K) (st : GMRES.St K) :
    Prop where
  r : st.w.r = GMRES.Rf side P f A st.x
  normR : st.normR = nrmA stdIp sqrt st.w.r
  ne : st.normR ≠ 0

variable (n : ℕ) (A : CRS K) (hA : A.WF) (hn : A.nrows = n) (hm : A.ncols = n)
  (P : Vec K → Vec K) (Pl : (Fin n → K) →ₗ[K] (Fin n → K)) (hP : PDenotes n P Pl) (side : Side) (sqrt : K → K)
  (hsqrt : ∀ x, 0 ≤ x → sqrt x * sqrt x = x ∧ 0 ≤ sqrt x) (f : Vec K) (st : GMRES.St K)
  (hst : CycleStart side sqrt A P f st)
include hA hn hm hP hsqrt hst

theorem innerPassG_arnoldi (j : ℕ) :
    ArnoldiInv side stdIp sqrt A P n (innerPassG side sqrt A P st g00 j) := by
  have hsz := (Rf_vec n A hA hn hm P Pl hP side f st.x).1
  rw [← hst.r] at hsz
  induction j with
  | zero =>
    exact cycleStart_inv side stdIp sqrt A P n (stdIp_ipOK n) st g00 hsz hst.normR
      (hsqrt _ (stdIp_self_nonneg _)).1 hst.ne
  | succ j ih =>
    rw [innerPassG_succ]
    exact stepG_inv side stdIp sqrt A P n (stdIp_ipOK n) (Aop_size_all n A hA hn hm P Pl hP side) _ ih

/-- **the Arnoldi basis in `Fin n → K`** -/
theorem cycle_basis (j : ℕ) (hnb : ∀ i, i < j → arnoldiNorm side sqrt A P st i ≠ 0) :
    (∀ a, a ≤ j → ((innerPass side sqrt A P st j).w.v.get a).size = n) ∧
    (∀ a b, a ≤ j → b ≤ j → vecOf n ((innerPass side sqrt A P st j).w.v.get a)
        ⬝ᵥ vecOf n ((innerPass side sqrt A P st j).w.v.get b) = if a = b then 1 else 0) ∧
    (∀ i, i < j → Tl side (matOf A n n) Pl (vecOf n ((innerPass side sqrt A P st j).w.v.get i))
        = ∑ k ∈ range (i + 2), hTilde side sqrt A P st j k i • vecOf n ((innerPass side sqrt A P st j).w.v.get k)) ∧
    vecOf n st.w.r = st.normR • vecOf n ((innerPass side sqrt A P st j).w.v.get 0) := by
  have hsz := (Rf_vec n A hA hn hm P Pl hP side f st.x).1
  rw [← hst.r] at hsz
  have hinv := innerPassG_arnoldi n A hA hn hm P Pl hP side sqrt hsqrt f st hst j
  unfold ArnoldiInv at hinv
  rw [innerPassG_fst, innerPass_j] at hinv
  have hnb' : NoBreakdown stdIp sqrt (innerPassG side sqrt A P st g00 j).2 j := by
    intro i hi
    refine ⟨by rw [ghost_sub side sqrt A P st g00 j i hi]; exact hnb i hi, (hsqrt _ (stdIp_self_nonneg _)).1⟩
  obtain ⟨⟨hsize, hon⟩, harn⟩ := hinv.2 hnb'
  refine ⟨hsize, ?_, ?_, ?_⟩
  · intro a b ha hb
    rw [← stdIp_vecOf n _ _ (hsize a ha) (hsize b hb)]
    exact hon a b ha hb
  · intro i hi
    rw [← (Aop_vec n A hA hn hm P Pl hP side _ (hsize i (by omega))).2]
    funext τ
    show (Aop side P A ((innerPass side sqrt A P st j).w.v.get i)).getD τ.val 0 = _
    rw [harn i hi τ.val τ.isLt]
    simp only [Finset.sum_apply, Pi.smul_apply, smul_eq_mul, vecOf, hTilde]
  · rw [innerPass_v0, cycleStart_v0, vecOf_axpby n _ _ _ _ hsz, zero_smul, add_zero, smul_smul]
    unfold inv1
    rw [mul_one_div_cancel hst.ne, one_smul]

/-- **least-squares identity of the cycle**: for every coefficient vector `y` -/
theorem cycle_ls (j : ℕ) (hnb : ∀ i, i < j → arnoldiNorm side sqrt A P st i ≠ 0) (y : ℕ → K) :
    resOf side (matOf A n n) Pl (vecOf n f) (vecOf n st.x
        + Xl side Pl (∑ i ∈ range j, y i • vecOf n ((innerPass side sqrt A P st j).w.v.get i)))
      ⬝ᵥ resOf side (matOf A n n) Pl (vecOf n f) (vecOf n st.x
        + Xl side Pl (∑ i ∈ range j, y i • vecOf n ((innerPass side sqrt A P st j).w.v.get i)))
    = ∑ a ∈ range j, ((innerPass side sqrt A P st j).w.h.s.get a
          - ∑ i ∈ Ico a j, (innerPass side sqrt A P st j).w.h.H.get a i * y i)
        * ((innerPass side sqrt A P st j).w.h.s.get a
          - ∑ i ∈ Ico a j, (innerPass side sqrt A P st j).w.h.H.get a i * y i)
      + (innerPass side sqrt A P st j).w.h.s.get j * (innerPass side sqrt A P st j).w.h.s.get j := by
  obtain ⟨hsize, hon, harn, hr0⟩ := cycle_basis n A hA hn hm P Pl hP side sqrt hsqrt f st hst j hnb
  have hgiv := (innerPassG_givens side sqrt (fun x hx => (hsqrt x hx).1) A P st g00 j).1
  have hres : resOf side (matOf A n n) Pl (vecOf n f) (vecOf n st.x
        + Xl side Pl (∑ i ∈ range j, y i • vecOf n ((innerPass side sqrt A P st j).w.v.get i)))
      = ∑ a ∈ range (j + 1), hres j (hTilde side sqrt A P st j) st.normR y a
          • vecOf n ((innerPass side sqrt A P st j).w.v.get a) := by
    rw [resOf_add, ← (Rf_vec n A hA hn hm P Pl hP side f st.x).2, ← hst.r, hr0, hres_expand, map_sum]
    congr 1
    apply sum_congr rfl
    intro i hi
    rw [map_smul, harn i (mem_range.mp hi)]
  rw [hres, orthonormal_sum_sq (j + 1) _ (fun a b ha hb => hon a b (by omega) (by omega))]
  exact givens_ls hgiv y

end main
end Amgcl.Krylov
