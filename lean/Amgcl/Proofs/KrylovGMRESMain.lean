import Amgcl.Proofs.KrylovGMRESVec
/-!
# GMRES: least-squares meaning of one restart cycle (C05)

Setting: ordered field, square root exact on the numbers the cycle applies it to (`RootsExact … j`, implied by
`hsqrt : ∀ x ≥ 0, sqrt x · sqrt x = x`: `rootsExact_of_hsqrt`), inner product `stdIp`,
`A` well formed `n × n`, the preconditioner denotes a linear map `Pl` (`PDenotes`), either preconditioning side.  `st` is
a state at the `break` test of the outer loop (`st.w.r` is the measured residual `Rf side P f A st.x`, `st.normR` its
norm, non-zero), `t = innerPass … j` the inner-loop state after `j` passes, and NO breakdown in these passes
(`arnoldiNorm … i ≠ 0`, `i < j`).  Then

* `cycle_basis`     `v[0..j]` orthonormal, `Tl V_i = Σ_{k ≤ i+1} H̃(k,i) V_k`, `r₀ = β V₀`      (from `inner_arnoldi`'s invariant);
* `cycle_ls`        `‖resOf (x₀ + Xl Σ y_i V_i)‖² = Σ_{a<j} (s_a − (R y)_a)² + s_j²` for EVERY `y`;
* `cycle_residual`  the iterate `x_j = (update side P st t).x` has `‖Rf x_j‖² = s_j²`, `‖Rf x_j‖ = |s_j| = inner_res`;
* `cycle_minimal`   `‖Rf x_j‖² ≤ ‖resOf (x₀ + Xl d)‖²` for every `d ∈ span{V_0..V_{j-1}}`;
* `cycle_antitone`  `‖Rf x_{j+1}‖² ≤ ‖Rf x_j‖²`.
-/
set_option linter.unusedSectionVars false
set_option linter.unusedVariables false
namespace Amgcl.Krylov
open Amgcl Amgcl.Solver Amgcl.Solver.GMRES Amgcl.Energy.Bridge Matrix Finset

section main
variable {K : Type} [Field K] [LinearOrder K] [IsStrictOrderedRing K]

/-- the fixed initial ghost (its contents are never read) -/
def g00 : Ghost K := ⟨.const 0, .const #[]⟩

/-- the unrotated Hessenberg matrix `H̃` after `j` passes -/
def hTilde (side : Side) (sqrt : K → K) (A : CRS K) (P : Vec K → Vec K) (st : GMRES.St K) (j : ℕ) : ℕ → ℕ → K :=
  (innerPassG side sqrt A P st g00 j).2.Ht.get

/-- a state at the `break` test of the outer loop whose residual is non-zero -/
structure CycleStart (side : Side) (sqrt : K → K) (A : CRS K) (P : Vec K → Vec K) (f : Vec K) (st : GMRES.St K) :
    Prop where
  r : st.w.r = GMRES.Rf side P f A st.x
  normR : st.normR = nrmA stdIp sqrt st.w.r
  ne : st.normR ≠ 0

variable (n : ℕ) (A : CRS K) (hA : A.WF) (hn : A.nrows = n) (hm : A.ncols = n)
  (P : Vec K → Vec K) (Pl : (Fin n → K) →ₗ[K] (Fin n → K)) (hP : PDenotes n P Pl) (side : Side) (sqrt : K → K)
  (f : Vec K) (st : GMRES.St K)
  (hst : CycleStart side sqrt A P f st)
include hA hn hm hP hst

theorem innerPassG_arnoldi (j : ℕ) (hr0 : RootAt sqrt (stdIp st.w.r st.w.r)) :
    ArnoldiInv side stdIp sqrt A P n (innerPassG side sqrt A P st g00 j) := by
  have hsz := (Rf_vec n A hA hn hm P Pl hP side f st.x).1
  rw [← hst.r] at hsz
  induction j with
  | zero =>
    exact cycleStart_inv side stdIp sqrt A P n (stdIp_ipOK n) st g00 hsz hst.normR
      hr0 hst.ne
  | succ j ih =>
    rw [innerPassG_succ]
    exact stepG_inv side stdIp sqrt A P n (stdIp_ipOK n) (Aop_size_all n A hA hn hm P Pl hP side) _ ih

/-- **the Arnoldi basis in `Fin n → K`** -/
theorem cycle_basis (j : ℕ) (hroots : RootsExact side sqrt A P st j)
    (hnb : ∀ i, i < j → arnoldiNorm side sqrt A P st i ≠ 0) :
    (∀ a, a ≤ j → ((innerPass side sqrt A P st j).w.v.get a).size = n) ∧
    (∀ a b, a ≤ j → b ≤ j → vecOf n ((innerPass side sqrt A P st j).w.v.get a)
        ⬝ᵥ vecOf n ((innerPass side sqrt A P st j).w.v.get b) = if a = b then 1 else 0) ∧
    (∀ i, i < j → Tl side (matOf A n n) Pl (vecOf n ((innerPass side sqrt A P st j).w.v.get i))
        = ∑ k ∈ range (i + 2), hTilde side sqrt A P st j k i • vecOf n ((innerPass side sqrt A P st j).w.v.get k)) ∧
    vecOf n st.w.r = st.normR • vecOf n ((innerPass side sqrt A P st j).w.v.get 0) := by
  have hsz := (Rf_vec n A hA hn hm P Pl hP side f st.x).1
  rw [← hst.r] at hsz
  have hinv := innerPassG_arnoldi n A hA hn hm P Pl hP side sqrt f st hst j hroots.r0
  unfold ArnoldiInv at hinv
  rw [innerPassG_fst, innerPass_j] at hinv
  have hnb' : NoBreakdown stdIp sqrt (innerPassG side sqrt A P st g00 j).2 j := by
    intro i hi
    refine ⟨by rw [ghost_sub side sqrt A P st g00 j i hi]; exact hnb i hi, ?_⟩
    rw [ghost_W side sqrt A P st g00 j i hi]; exact hroots.orth i hi
  obtain ⟨⟨hsize, hon⟩, harn⟩ := hinv.2 hnb'
  refine ⟨hsize, ?_, ?_, ?_⟩
  · intro a b ha hb
    rw [← stdIp_vecOf n _ _ (hsize a ha) (hsize b hb)]
    exact hon a b ha hb
  · intro i hi
    rw [← (Aop_vec n A hA hn hm P Pl hP side _ (hsize i (by omega))).2]
    funext τ
    show (Aop side P A ((innerPass side sqrt A P st j).w.v.get i)).getD τ.val 0 = _
    rw [harn i hi τ.val τ.isLt]
    simp only [Finset.sum_apply, Pi.smul_apply, smul_eq_mul, vecOf, hTilde]
  · rw [innerPass_v0, cycleStart_v0, vecOf_axpby n _ _ _ _ hsz, zero_smul, add_zero, smul_smul]
    unfold inv1
    rw [mul_one_div_cancel hst.ne, one_smul]

/-- **least-squares identity of the cycle**: for every coefficient vector `y` -/
theorem cycle_ls (j : ℕ) (hroots : RootsExact side sqrt A P st j)
    (hnb : ∀ i, i < j → arnoldiNorm side sqrt A P st i ≠ 0) (y : ℕ → K) :
    resOf side (matOf A n n) Pl (vecOf n f) (vecOf n st.x
        + Xl side Pl (∑ i ∈ range j, y i • vecOf n ((innerPass side sqrt A P st j).w.v.get i)))
      ⬝ᵥ resOf side (matOf A n n) Pl (vecOf n f) (vecOf n st.x
        + Xl side Pl (∑ i ∈ range j, y i • vecOf n ((innerPass side sqrt A P st j).w.v.get i)))
    = ∑ a ∈ range j, ((innerPass side sqrt A P st j).w.h.s.get a
          - ∑ i ∈ Ico a j, (innerPass side sqrt A P st j).w.h.H.get a i * y i)
        * ((innerPass side sqrt A P st j).w.h.s.get a
          - ∑ i ∈ Ico a j, (innerPass side sqrt A P st j).w.h.H.get a i * y i)
      + (innerPass side sqrt A P st j).w.h.s.get j * (innerPass side sqrt A P st j).w.h.s.get j := by
  obtain ⟨hsize, hon, harn, hr0⟩ := cycle_basis n A hA hn hm P Pl hP side sqrt f st hst j hroots hnb
  have hgiv := (innerPassG_givens side sqrt A P st g00 j hroots.rot).1
  have hres : resOf side (matOf A n n) Pl (vecOf n f) (vecOf n st.x
        + Xl side Pl (∑ i ∈ range j, y i • vecOf n ((innerPass side sqrt A P st j).w.v.get i)))
      = ∑ a ∈ range (j + 1), hres j (hTilde side sqrt A P st j) st.normR y a
          • vecOf n ((innerPass side sqrt A P st j).w.v.get a) := by
    rw [resOf_add, ← (Rf_vec n A hA hn hm P Pl hP side f st.x).2, ← hst.r, hr0, hres_expand, map_sum]
    congr 1
    apply sum_congr rfl
    intro i hi
    rw [map_smul, harn i (mem_range.mp hi)]
  rw [hres, orthonormal_sum_sq (j + 1) _ (fun a b ha hb => hon a b (by omega) (by omega))]
  exact givens_ls hgiv y

/-- the `x` the cycle would return if the inner loop ended after `j` passes -/
def cycleIterate (side : Side) (sqrt : K → K) (A : CRS K) (P : Vec K → Vec K) (st : GMRES.St K) (j : ℕ) : Vec K :=
  (update side P st (innerPass side sqrt A P st j)).x

omit hst in
/-- the iterate as a vector: `x₀ + Xl (Σ_{i<j} y_i V_i)` with `y = backSubst j H s` -/
theorem cycleIterate_vec (j : ℕ) (hj : 1 ≤ j)
    (hsize : ∀ a, a ≤ j → ((innerPass side sqrt A P st j).w.v.get a).size = n) :
    vecOf n (cycleIterate side sqrt A P st j) = vecOf n st.x
      + Xl side Pl (∑ i ∈ range j, (backSubst j (innerPass side sqrt A P st j).w.h.H
          (innerPass side sqrt A P st j).w.h.s).get i • vecOf n ((innerPass side sqrt A P st j).w.v.get i)) := by
  have htj := innerPass_j side sqrt A P st j
  have h := update_x n A hA hn hm P Pl hP side st (innerPass side sqrt A P st j) (by rw [htj]; exact hj)
    (fun i hi => hsize i (by rw [htj] at hi; omega))
  rw [htj] at h
  exact h

/-- **the Givens-reduced quantity is the residual norm**: `‖Rf x_j‖² = s_j²` for the iterate after `j ≥ 1` passes -/
theorem cycle_residual (j : ℕ) (hj : 1 ≤ j) (hroots : RootsExact side sqrt A P st j)
    (hnb : ∀ i, i < j → arnoldiNorm side sqrt A P st i ≠ 0) :
    stdIp (GMRES.Rf side P f A (cycleIterate side sqrt A P st j)) (GMRES.Rf side P f A (cycleIterate side sqrt A P st j))
      = (innerPass side sqrt A P st j).w.h.s.get j * (innerPass side sqrt A P st j).w.h.s.get j := by
  obtain ⟨hsize, _, _, _⟩ := cycle_basis n A hA hn hm P Pl hP side sqrt f st hst j hroots hnb
  have hd := (innerPassG_givens side sqrt A P st g00 j hroots.rot).2
  obtain ⟨_, bs⟩ := backSubst_spec (innerPass side sqrt A P st j).w.h.H j (innerPass side sqrt A P st j).w.h.s
    (fun a ha => hd a ha (hnb a ha))
  obtain ⟨r1, r2⟩ := Rf_vec n A hA hn hm P Pl hP side f (cycleIterate side sqrt A P st j)
  rw [stdIp_vecOf n _ _ r1 r1, r2, cycleIterate_vec n A hA hn hm P Pl hP side sqrt st j hj hsize,
    cycle_ls n A hA hn hm P Pl hP side sqrt f st hst j hroots hnb]
  have hz : ∀ a ∈ range j, ((innerPass side sqrt A P st j).w.h.s.get a
        - ∑ i ∈ Ico a j, (innerPass side sqrt A P st j).w.h.H.get a i
          * (backSubst j (innerPass side sqrt A P st j).w.h.H (innerPass side sqrt A P st j).w.h.s).get i)
      * ((innerPass side sqrt A P st j).w.h.s.get a
        - ∑ i ∈ Ico a j, (innerPass side sqrt A P st j).w.h.H.get a i
          * (backSubst j (innerPass side sqrt A P st j).w.h.H (innerPass side sqrt A P st j).w.h.s).get i) = 0 := by
    intro a ha
    rw [bs a (mem_range.mp ha), sub_self, mul_zero]
  rw [sum_eq_zero hz, zero_add]

/-- … as norms: `‖Rf x_j‖ = |s_j|`, which is the `inner_res` the loop tests -/
theorem cycle_residual_norm (j : ℕ) (hj : 1 ≤ j) (hroots : RootsExact side sqrt A P st j)
    (hnb : ∀ i, i < j → arnoldiNorm side sqrt A P st i ≠ 0)
    (hs : RootAt sqrt ((innerPass side sqrt A P st j).w.h.s.get j * (innerPass side sqrt A P st j).w.h.s.get j) ∧
      0 ≤ sqrt ((innerPass side sqrt A P st j).w.h.s.get j * (innerPass side sqrt A P st j).w.h.s.get j)) :
    nrmA stdIp sqrt (GMRES.Rf side P f A (cycleIterate side sqrt A P st j))
      = Solver.absK ((innerPass side sqrt A P st j).w.h.s.get j) ∧
    (innerPass side sqrt A P st j).innerRes = Solver.absK ((innerPass side sqrt A P st j).w.h.s.get j) := by
  constructor
  · unfold nrmA
    rw [cycle_residual n A hA hn hm P Pl hP side sqrt f st hst j hj hroots hnb]
    obtain ⟨h1, h2⟩ := hs
    unfold RootAt at h1
    rw [absK_eq_abs, absK_eq_abs]
    exact abs_eq_abs.mpr (mul_self_eq_mul_self_iff.mp h1)
  · obtain ⟨m, rfl⟩ : ∃ m, j = m + 1 := ⟨j - 1, by omega⟩
    exact innerPass_innerRes side sqrt A P st m

/-- **the iterate minimises the residual norm** over `x₀ + Xl (span{V_0..V_{j-1}})`, coefficient form -/
theorem cycle_minimal_coeff (j : ℕ) (hj : 1 ≤ j) (hroots : RootsExact side sqrt A P st j)
    (hnb : ∀ i, i < j → arnoldiNorm side sqrt A P st i ≠ 0) (y : ℕ → K) :
    stdIp (GMRES.Rf side P f A (cycleIterate side sqrt A P st j)) (GMRES.Rf side P f A (cycleIterate side sqrt A P st j))
      ≤ resOf side (matOf A n n) Pl (vecOf n f) (vecOf n st.x
          + Xl side Pl (∑ i ∈ range j, y i • vecOf n ((innerPass side sqrt A P st j).w.v.get i)))
        ⬝ᵥ resOf side (matOf A n n) Pl (vecOf n f) (vecOf n st.x
          + Xl side Pl (∑ i ∈ range j, y i • vecOf n ((innerPass side sqrt A P st j).w.v.get i))) := by
  rw [cycle_residual n A hA hn hm P Pl hP side sqrt f st hst j hj hroots hnb,
    cycle_ls n A hA hn hm P Pl hP side sqrt f st hst j hroots hnb]
  have : 0 ≤ ∑ a ∈ range j, ((innerPass side sqrt A P st j).w.h.s.get a
          - ∑ i ∈ Ico a j, (innerPass side sqrt A P st j).w.h.H.get a i * y i)
        * ((innerPass side sqrt A P st j).w.h.s.get a
          - ∑ i ∈ Ico a j, (innerPass side sqrt A P st j).w.h.H.get a i * y i) :=
    sum_nonneg (fun a _ => mul_self_nonneg _)
  linarith

/-- the span of the first `j` Arnoldi vectors -/
def arnoldiSpan (side : Side) (sqrt : K → K) (A : CRS K) (P : Vec K → Vec K) (st : GMRES.St K) (n j : ℕ) :
    Submodule K (Fin n → K) :=
  Submodule.span K (Set.range fun i : Fin j => vecOf n ((innerPass side sqrt A P st j).w.v.get i.val))

/-- **the iterate minimises the residual norm** over `x₀ + Xl (span{V_0..V_{j-1}})` -/
theorem cycle_minimal (j : ℕ) (hj : 1 ≤ j) (hroots : RootsExact side sqrt A P st j)
    (hnb : ∀ i, i < j → arnoldiNorm side sqrt A P st i ≠ 0) (d : Fin n → K) (hd : d ∈ arnoldiSpan side sqrt A P st n j) :
    stdIp (GMRES.Rf side P f A (cycleIterate side sqrt A P st j)) (GMRES.Rf side P f A (cycleIterate side sqrt A P st j))
      ≤ resOf side (matOf A n n) Pl (vecOf n f) (vecOf n st.x + Xl side Pl d)
        ⬝ᵥ resOf side (matOf A n n) Pl (vecOf n f) (vecOf n st.x + Xl side Pl d) := by
  obtain ⟨c, rfl⟩ := (Submodule.mem_span_range_iff_exists_fun K).mp hd
  have e : ∑ i : Fin j, c i • vecOf n ((innerPass side sqrt A P st j).w.v.get i.val)
      = ∑ i ∈ range j, (fun i => if h : i < j then c ⟨i, h⟩ else 0) i
          • vecOf n ((innerPass side sqrt A P st j).w.v.get i) := by
    rw [sum_range]
    apply sum_congr rfl
    intro i _
    simp only [i.isLt, dite_true]
  rw [e]
  exact cycle_minimal_coeff n A hA hn hm P Pl hP side sqrt f st hst j hj hroots hnb _

/-- the iterate itself lies in `x₀ + Xl (span{V_0..V_{j-1}})` -/
theorem cycleIterate_mem (j : ℕ) (hj : 1 ≤ j) (hroots : RootsExact side sqrt A P st j)
    (hnb : ∀ i, i < j → arnoldiNorm side sqrt A P st i ≠ 0) :
    ∃ d ∈ arnoldiSpan side sqrt A P st n j, vecOf n (cycleIterate side sqrt A P st j) = vecOf n st.x + Xl side Pl d := by
  obtain ⟨hsize, _, _, _⟩ := cycle_basis n A hA hn hm P Pl hP side sqrt f st hst j hroots hnb
  refine ⟨_, ?_, cycleIterate_vec n A hA hn hm P Pl hP side sqrt st j hj hsize⟩
  apply Submodule.sum_mem
  intro i hi
  apply Submodule.smul_mem
  exact Submodule.subset_span ⟨⟨i, mem_range.mp hi⟩, rfl⟩

/-- **the residual norm of the iterates does not increase** with the number of passes -/
theorem cycle_antitone (j : ℕ) (hj : 1 ≤ j) (hroots : RootsExact side sqrt A P st (j + 1))
    (hnb : ∀ i, i < j + 1 → arnoldiNorm side sqrt A P st i ≠ 0) :
    stdIp (GMRES.Rf side P f A (cycleIterate side sqrt A P st (j + 1)))
        (GMRES.Rf side P f A (cycleIterate side sqrt A P st (j + 1)))
      ≤ stdIp (GMRES.Rf side P f A (cycleIterate side sqrt A P st j))
        (GMRES.Rf side P f A (cycleIterate side sqrt A P st j)) := by
  rw [cycle_residual n A hA hn hm P Pl hP side sqrt f st hst (j + 1) (by omega) hroots hnb,
    cycle_residual n A hA hn hm P Pl hP side sqrt f st hst j hj (hroots.mono (Nat.le_succ j))
      (fun i hi => hnb i (by omega))]
  have h := (innerRes_antitone side sqrt A P st j (hroots.rot j (Nat.lt_succ_self j))).2
  rw [absK_eq_abs, absK_eq_abs] at h
  exact abs_le_iff_mul_self_le.mp h

/-- the first pass does not increase the residual either: `‖Rf x_1‖² ≤ ‖r₀‖²` -/
theorem cycle_antitone_zero (hroots : RootsExact side sqrt A P st 1) (hnb : arnoldiNorm side sqrt A P st 0 ≠ 0) :
    stdIp (GMRES.Rf side P f A (cycleIterate side sqrt A P st 1)) (GMRES.Rf side P f A (cycleIterate side sqrt A P st 1))
      ≤ stdIp (GMRES.Rf side P f A st.x) (GMRES.Rf side P f A st.x) := by
  rw [cycle_residual n A hA hn hm P Pl hP side sqrt f st hst 1 (Nat.le_refl 1) hroots
    (fun i hi => by have : i = 0 := by omega
                    subst this; exact hnb)]
  have h := (innerRes_antitone side sqrt A P st 0 (hroots.rot 0 Nat.zero_lt_one)).2
  rw [absK_eq_abs, absK_eq_abs] at h
  have h2 := abs_le_iff_mul_self_le.mp h
  have hs0 : (innerPass side sqrt A P st 0).w.h.s.get 0 = st.normR := rfl
  rw [hs0] at h2
  have hn2 : st.normR * st.normR = stdIp (GMRES.Rf side P f A st.x) (GMRES.Rf side P f A st.x) := by
    rw [hst.normR, hst.r]
    unfold nrmA
    rw [absK_mul_self]
    have := hroots.r0
    rw [hst.r] at this
    exact this
  rw [← hn2]; exact h2

end main
end Amgcl.Krylov
