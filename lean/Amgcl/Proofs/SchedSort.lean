import Amgcl.Model.ScheduleSort
import Amgcl.Proofs.SchedTasks
/-!
Step 2 of the constructors as the code does it (`Model/ScheduleSort.lean`: histogram, `std::partial_sum`, scatter
`order[start[level[i]]++] = i`, `std::rotate`) equals its specification (`order`, `start` of `Model/Schedule.lean`),
for every level vector: `countingSort_eq`, `countingSortLit_eq`.  Steps 3–4 (`tasksLit`, `taskRowsLit`: positions into `order`) give the
task table `tasks`: `scheduleLit_eq_tasks`.  `order` is the stable sort of the rows by level: `order_pairwise`,
`order_eq_mergeSort`.  Core Lean only.
-/
namespace Amgcl.Sched

/-- `countingSort` (Schedule.lean, executed by the driver) is the composition of the four stages -/
theorem countingSort_stages (level : Array Nat) :
    countingSort level =
      ((csScatter level (csPsum (csHist level) (nlev level + 1))).1.toList,
       csRotate (csScatter level (csPsum (csHist level) (nlev level + 1))).2 (nlev level)) := rfl

theorem getD_setIfInBounds' (s : Array Nat) (j k v : Nat) :
    (s.setIfInBounds j v).getD k 0 = if j = k ∧ k < s.size then v else s.getD k 0 := by
  simp only [Array.getD_eq_getD_getElem?, Array.getElem?_setIfInBounds]
  by_cases h : j = k
  · subst h
    by_cases h2 : j < s.size <;> simp [h2]
  · simp [h]

theorem hist_fold (f : Nat → Nat) (l : List Nat) (s : Array Nat) :
    (l.foldl (fun s i => s.setIfInBounds (f i) (s.getD (f i) 0 + 1)) s).size = s.size ∧
    ∀ k, k < s.size → (l.foldl (fun s i => s.setIfInBounds (f i) (s.getD (f i) 0 + 1)) s).getD k 0
      = s.getD k 0 + l.countP (fun i => f i == k) := by
  induction l generalizing s with
  | nil => simp
  | cons a t ih =>
    simp only [List.foldl_cons]
    obtain ⟨h1, h2⟩ := ih (s.setIfInBounds (f a) (s.getD (f a) 0 + 1))
    refine ⟨by rw [h1]; simp, ?_⟩
    intro k hk
    rw [h2 k (by simpa using hk), getD_setIfInBounds', List.countP_cons]
    by_cases h : f a = k
    · subst h; simp [hk]; omega
    · simp [h]

/-! ### counting -/

theorem countP_lt_succ (f : Nat → Nat) (l : List Nat) (m : Nat) :
    l.countP (fun i => decide (f i < m + 1))
      = l.countP (fun i => decide (f i < m)) + l.countP (fun i => f i == m) := by
  induction l with
  | nil => rfl
  | cons a t ih =>
    simp only [List.countP_cons, ih]
    by_cases h1 : f a < m
    · have : f a ≠ m := by omega
      have h3 : f a < m + 1 := by omega
      simp [h1, this, h3]; omega
    · by_cases h2 : f a = m
      · simp [h2]; omega
      · have h3 : ¬ f a < m + 1 := by omega
        simp [h1, h2, h3]

theorem start_eq_countP (level : Array Nat) (lev : Nat) :
    start level lev = (List.range level.size).countP (fun i => decide (level.getD i 0 < lev)) := by
  unfold start; rw [List.countP_eq_length_filter]

theorem levelRows_length (level : Array Nat) (lev : Nat) :
    (levelRows level lev).length = (List.range level.size).countP (fun i => level.getD i 0 == lev) := by
  unfold levelRows; rw [List.countP_eq_length_filter]

theorem start_zero (level : Array Nat) : start level 0 = 0 := by
  rw [start_eq_countP]; simp

theorem start_succ (level : Array Nat) (lev : Nat) :
    start level (lev + 1) = start level lev + (levelRows level lev).length := by
  rw [start_eq_countP, start_eq_countP, levelRows_length, countP_lt_succ]

/-! ### histogram and partial sums -/

theorem csHist_size (level : Array Nat) : (csHist level).size = nlev level + 1 := by
  unfold csHist csHistN
  rw [(hist_fold (fun i => level.getD i 0 + 1) _ _).1]; simp

theorem csHist_getD (level : Array Nat) (k : Nat) (hk : k < nlev level + 1) :
    (csHist level).getD k 0 = (List.range level.size).countP (fun i => level.getD i 0 + 1 == k) := by
  unfold csHist csHistN
  rw [(hist_fold (fun i => level.getD i 0 + 1) _ _).2 k (by simpa using hk)]
  simp [Array.getD_eq_getD_getElem?, hk]

/-- the running sum -/
def hsum (h : Array Nat) (m : Nat) : Nat := ((List.range m).map (fun k => h.getD k 0)).sum

theorem hsum_succ (h : Array Nat) (m : Nat) : hsum h (m + 1) = hsum h m + h.getD m 0 := by
  simp [hsum, List.range_succ]

theorem psum_fold (h : Array Nat) (m : Nat) :
    (List.range m).foldl
      (fun (acc : Array Nat × Nat) k => let s := acc.2 + h.getD k 0; (acc.1.push s, s)) (#[], 0)
    = (((List.range m).map (fun k => hsum h (k + 1))).toArray, hsum h m) := by
  induction m with
  | zero => simp [hsum]
  | succ m ih =>
    rw [List.range_succ, List.foldl_append, ih]
    simp [hsum_succ]

theorem hsum_csHist (level : Array Nat) (m : Nat) (hm : m ≤ nlev level + 1) :
    hsum (csHist level) m = (List.range level.size).countP (fun i => decide (level.getD i 0 + 1 < m)) := by
  induction m with
  | zero => simp [hsum]
  | succ m ih =>
    rw [hsum_succ, ih (by omega), csHist_getD level m (by omega), countP_lt_succ (fun i => level.getD i 0 + 1)]

theorem csPsum_csHist (level : Array Nat) :
    csPsum (csHist level) (nlev level + 1) = ((List.range (nlev level + 1)).map (start level)).toArray := by
  unfold csPsum
  rw [psum_fold]
  show (List.map _ _).toArray = _
  congr 1
  apply List.map_congr_left
  intro k hk
  rw [hsum_csHist level (k + 1) (by have := List.mem_range.mp hk; omega), start_eq_countP]
  congr 1
  funext i
  simp

theorem partialSum_inv (a : Array Nat) (k : Nat) (hk : k ≤ a.size) :
    ∃ arr, (List.range k).foldl
        (fun (st : Array Nat × Nat) k => let s := st.2 + st.1.getD k 0; (st.1.setIfInBounds k s, s)) (a, 0)
      = (arr, hsum a k) ∧ arr.size = a.size ∧
        ∀ j, arr.getD j 0 = if j < k then hsum a (j + 1) else a.getD j 0 := by
  induction k with
  | zero => exact ⟨a, rfl, rfl, fun j => by simp⟩
  | succ k ih =>
    obtain ⟨arr, h1, h2, h3⟩ := ih (by omega)
    have hr : List.range (k + 1) = List.range k ++ [k] := List.range_succ
    rw [hr, List.foldl_append, h1]
    have hak : arr.getD k 0 = a.getD k 0 := by rw [h3 k, if_neg (Nat.lt_irrefl k)]
    refine ⟨arr.setIfInBounds k (hsum a k + a.getD k 0), ?_, by simp [h2], ?_⟩
    · simp only [List.foldl_cons, List.foldl_nil, hak, hsum_succ]
    · intro j
      rw [getD_setIfInBounds', h2, h3 j]
      by_cases hj : k = j
      · subst hj
        rw [if_pos ⟨rfl, by omega⟩, if_pos (by omega), hsum_succ]
      · rw [if_neg (fun e => hj e.1)]
        by_cases hjk : j < k
        · rw [if_pos hjk, if_pos (by omega)]
        · rw [if_neg hjk, if_neg (by omega)]

theorem partialSumInPlace_eq (a : Array Nat) : partialSumInPlace a = csPsum a a.size := by
  obtain ⟨arr, h1, h2, h3⟩ := partialSum_inv a a.size (Nat.le_refl _)
  unfold partialSumInPlace csPsum
  rw [h1, psum_fold]
  show arr = (List.map _ _).toArray
  apply Array.ext
  · simp [h2]
  · intro j hj1 hj2
    have := h3 j
    rw [if_pos (by omega), Array.getD_eq_getD_getElem?, Array.getElem?_eq_getElem hj1] at this
    simpa using this

/-! ### positions in `order` -/

/-- rows `< k` of level `lev` -/
def cntEq (level : Array Nat) (k lev : Nat) : Nat := (List.range k).countP (fun i => level.getD i 0 == lev)

/-- the slot of row `i` in `order`: the rows of lower levels, then the earlier rows of its own level -/
def pos (level : Array Nat) (i : Nat) : Nat := start level (level.getD i 0) + cntEq level i (level.getD i 0)

theorem cntEq_succ (level : Array Nat) (k lev : Nat) :
    cntEq level (k + 1) lev = cntEq level k lev + (if level.getD k 0 = lev then 1 else 0) := by
  unfold cntEq
  rw [List.range_succ, List.countP_append, List.countP_singleton]
  simp only [beq_iff_eq]

theorem flatMap_levelRows_length (level : Array Nat) (lev : Nat) :
    ((List.range lev).flatMap (levelRows level)).length = start level lev := by
  induction lev with
  | zero => simp [start_zero]
  | succ lev ih =>
    rw [List.range_succ, List.flatMap_append, List.length_append, ih, start_succ]
    simp

/-- `order` = rows of the levels below `lev`, rows of level `lev`, rows of the levels above -/
theorem order_split (level : Array Nat) (lev : Nat) (hlev : lev < nlev level) :
    ∃ post, order level = (List.range lev).flatMap (levelRows level) ++ (levelRows level lev ++ post) := by
  refine ⟨((List.range (nlev level - lev - 1)).map (lev + 1 + ·)).flatMap (levelRows level), ?_⟩
  unfold order
  have h : nlev level = (lev + 1) + (nlev level - lev - 1) := by omega
  conv => lhs; rw [h, List.range_add, List.flatMap_append, List.range_succ, List.flatMap_append]
  simp

theorem order_length (level : Array Nat) : (order level).length = level.size := by
  rw [(order_perm level).length_eq, List.length_range]

/-- a filtered list, indexed by the number of earlier hits -/
theorem filter_getElem?_countP {α : Type} (p : α → Bool) (l1 l2 : List α) (a : α) (ha : p a = true) :
    ((l1 ++ a :: l2).filter p)[l1.countP p]? = some a := by
  rw [List.filter_append, List.getElem?_append_right (by rw [List.countP_eq_length_filter]; exact Nat.le_refl _),
    List.countP_eq_length_filter, Nat.sub_self, List.filter_cons_of_pos ha]
  rfl

theorem levelRows_getElem? (level : Array Nat) (i : Nat) (hi : i < level.size) :
    (levelRows level (level.getD i 0))[cntEq level i (level.getD i 0)]? = some i := by
  unfold levelRows cntEq
  have h : level.size = (i + 1) + (level.size - i - 1) := by omega
  rw [h, List.range_add, List.range_succ, List.append_assoc, List.singleton_append]
  exact filter_getElem?_countP _ _ _ i (by simp)

/-- row `i` sits at slot `pos i` of `order` -/
theorem order_getElem?_pos (level : Array Nat) (i : Nat) (hi : i < level.size) :
    (order level)[pos level i]? = some i := by
  obtain ⟨post, h⟩ := order_split level (level.getD i 0) (lt_nlev level i hi)
  have hl := levelRows_getElem? level i hi
  have hlt : cntEq level i (level.getD i 0) < (levelRows level (level.getD i 0)).length := by
    rcases Nat.lt_or_ge (cntEq level i (level.getD i 0)) (levelRows level (level.getD i 0)).length with h' | h'
    · exact h'
    · rw [List.getElem?_eq_none h'] at hl; cases hl
  rw [h, pos, List.getElem?_append_right (by rw [flatMap_levelRows_length]; omega), flatMap_levelRows_length,
    Nat.add_sub_cancel_left, List.getElem?_append_left hlt, hl]

theorem pos_lt (level : Array Nat) (i : Nat) (hi : i < level.size) : pos level i < level.size := by
  have h := order_getElem?_pos level i hi
  rcases Nat.lt_or_ge (pos level i) (order level).length with h' | h'
  · rwa [order_length] at h'
  · rw [List.getElem?_eq_none h'] at h; cases h

theorem pos_inj (level : Array Nat) (i j : Nat) (hi : i < level.size) (hj : j < level.size)
    (h : pos level i = pos level j) : i = j := by
  have h1 := order_getElem?_pos level i hi
  have h2 := order_getElem?_pos level j hj
  rw [h, h2] at h1
  exact (Option.some.inj h1).symm

/-- the rows of a level are a segment of `order` -/
theorem levelRows_eq_segment (level : Array Nat) (lev : Nat) (hlev : lev < nlev level) :
    levelRows level lev = ((order level).drop (start level lev)).take (start level (lev + 1) - start level lev) := by
  obtain ⟨post, h⟩ := order_split level lev hlev
  rw [h, List.drop_left' (flatMap_levelRows_length level lev), start_succ, Nat.add_sub_cancel_left,
    List.take_left' rfl]

/-! ### the scatter loop -/

/-- the body of the scatter loop -/
def scatterStep (level : Array Nat) (os : Array Nat × Array Nat) (i : Nat) : Array Nat × Array Nat :=
  (os.1.setIfInBounds (os.2.getD (level.getD i 0) 0) i,
   os.2.setIfInBounds (level.getD i 0) (os.2.getD (level.getD i 0) 0 + 1))

theorem csScatter_eq (level psum : Array Nat) :
    csScatter level psum = (List.range level.size).foldl (scatterStep level) (Array.replicate level.size 0, psum) := rfl

/-- state after the first `k` iterations of the scatter loop -/
structure ScatterInv (level : Array Nat) (k : Nat) (os : Array Nat × Array Nat) : Prop where
  size1 : os.1.size = level.size
  size2 : os.2.size = nlev level + 1
  st : ∀ l, l < nlev level + 1 → os.2.getD l 0 = start level l + cntEq level k l
  ord : ∀ i, i < k → os.1.getD (pos level i) 0 = i

theorem scatter_inv (level : Array Nat) (k : Nat) (hk : k ≤ level.size) :
    ScatterInv level k ((List.range k).foldl (scatterStep level)
      (Array.replicate level.size 0, ((List.range (nlev level + 1)).map (start level)).toArray)) := by
  induction k with
  | zero =>
    refine ⟨by simp, by simp, ?_, by intro i hi; omega⟩
    intro l hl
    simp [Array.getD_eq_getD_getElem?, hl, cntEq]
  | succ k ih =>
    have inv := ih (by omega)
    have hr : List.range (k + 1) = List.range k ++ [k] := List.range_succ
    rw [hr, List.foldl_append]
    generalize (List.range k).foldl (scatterStep level) _ = os at inv
    have hkn : k < level.size := by omega
    have hl := lt_nlev level k hkn
    have hst : os.2.getD (level.getD k 0) 0 = pos level k := inv.st _ (by omega)
    simp only [List.foldl_cons, List.foldl_nil, scatterStep]
    refine ⟨by simp [inv.size1], by simp [inv.size2], ?_, ?_⟩
    · intro l hl'
      rw [getD_setIfInBounds', cntEq_succ, inv.size2]
      by_cases h : level.getD k 0 = l
      · rw [if_pos ⟨h, hl'⟩, if_pos h, h, inv.st l hl']; omega
      · rw [if_neg (fun e => h e.1), if_neg h, inv.st l hl']; rfl
    · intro i hi
      rw [hst, getD_setIfInBounds', inv.size1]
      by_cases h : i = k
      · subst h; rw [if_pos ⟨rfl, pos_lt level i hkn⟩]
      · have hne : pos level k ≠ pos level i := fun e => h (pos_inj level k i hkn (by omega) e).symm
        rw [if_neg (fun e => hne e.1)]
        exact inv.ord i (by omega)

theorem cntEq_size (level : Array Nat) (lev : Nat) : cntEq level level.size lev = (levelRows level lev).length := by
  rw [levelRows_length]; rfl

/-- **step 2 as the code does it = its specification** (every level vector): the scatter loop leaves in `order` the
rows of level 0, 1, … each in increasing order, and the rotated `start` holds the number of rows below each level -/
theorem countingSort_eq (level : Array Nat) :
    countingSort level = (order level, (List.range (nlev level + 1)).map (start level)) := by
  rw [countingSort_stages, csPsum_csHist, csScatter_eq]
  have inv := scatter_inv level level.size (Nat.le_refl _)
  generalize (List.range level.size).foldl (scatterStep level) _ = os at inv
  congr 1
  · apply List.ext_getElem?
    intro p
    rcases Nat.lt_or_ge p level.size with hp | hp
    · have hpo : p < (order level).length := by rw [order_length]; exact hp
      have hi : (order level)[p] < level.size := (mem_order level _).mp (List.getElem_mem hpo)
      have h1 := order_getElem?_pos level _ hi
      have hpp : pos level (order level)[p] = p := by
        have := pos_lt level _ hi
        apply (List.getElem?_inj (by rw [order_length]; exact this) (order_nodup level)).mp
        rw [h1, List.getElem?_eq_getElem hpo]
      have h2 := inv.ord _ hi
      rw [hpp] at h2
      rw [List.getElem?_eq_getElem hpo, ← h2, Array.getElem?_toList, Array.getD_eq_getD_getElem?]
      have : p < os.1.size := by rw [inv.size1]; exact hp
      simp [this]
    · rw [List.getElem?_eq_none (by rw [Array.length_toList, inv.size1]; exact hp),
        List.getElem?_eq_none (by rw [order_length]; exact hp)]
  · unfold csRotate
    rw [List.range_succ_eq_map, List.map_cons, start_zero, List.map_map]
    congr 1
    apply List.ext_getElem
    · simp [inv.size2]
    · intro p h1 h2
      have hp : p < nlev level := by simpa using h2
      have := inv.st p (by omega)
      rw [cntEq_size, ← start_succ, Array.getD_eq_getD_getElem?] at this
      have hps : p < os.2.size := by rw [inv.size2]; omega
      simp [hps] at this
      simp [this]

theorem csRotateLit_toList (st : Array Nat) (nl : Nat) (h : st.size = nl + 1) :
    (csRotateLit st).toList = csRotate st nl := by
  unfold csRotateLit stdRotate csRotate
  rw [Array.toList_setIfInBounds, Array.toList_append, Array.toList_extract, Array.toList_extract, h]
  simp only [Nat.add_sub_cancel]
  have hl : st.toList.length = nl + 1 := by simpa using h
  have : (st.toList.drop nl).length = 1 := by rw [List.length_drop]; omega
  match hd : st.toList.drop nl, this with
  | [x], _ => simp [List.extract, hd]


theorem csScatter_spec (level : Array Nat) :
    ScatterInv level level.size (csScatter level (csPsum (csHist level) (nlev level + 1))) := by
  rw [csPsum_csHist, csScatter_eq]
  exact scatter_inv level level.size (Nat.le_refl _)

/-- **the statement-by-statement model of step 2 (in-place `std::partial_sum`, `std::rotate`) = its specification** -/
theorem countingSortLit_eq (level : Array Nat) :
    countingSortLit level = ((order level).toArray, ((List.range (nlev level + 1)).map (start level)).toArray) := by
  have h := countingSort_eq level
  rw [countingSort_stages] at h
  show ((csScatter level (partialSumInPlace (csHist level))).1,
    csRotateLit (csScatter level (partialSumInPlace (csHist level))).2) = _
  rw [partialSumInPlace_eq, csHist_size]
  have h1 := congrArg Prod.fst h
  have h2 := congrArg Prod.snd h
  simp only at h1 h2
  rw [← csRotateLit_toList _ _ (csScatter_spec level).size2] at h2
  rw [← h1, ← h2]

/-! ### steps 3 and 4: positions into `order` versus chunks of `levelRows` -/

theorem range_map_getD_segment {α : Type} (pre rows post : List α) (d : α) (b m : Nat) (h : b + m ≤ rows.length) :
    (List.range m).map (fun k => (pre ++ (rows ++ post)).toArray.getD (b + pre.length + k) d)
      = (rows.drop b).take m := by
  apply List.ext_getElem
  · simp; omega
  · intro k h1 h2
    have hk : k < m := by simpa using h1
    have e : b + pre.length + k = pre.length + (b + k) := by omega
    have hlt : b + k < rows.length := by omega
    rw [List.getElem_map, List.getElem_range, List.getElem_take, List.getElem_drop, e,
      Array.getD_eq_getD_getElem?, List.getElem?_toArray, List.getElem?_append_right (by omega),
      Nat.add_sub_cancel_left, List.getElem?_append_left hlt, List.getElem?_eq_getElem hlt]
    rfl

theorem start_array_getD (level : Array Nat) (lev : Nat) (h : lev < nlev level + 1) :
    ((List.range (nlev level + 1)).map (start level)).toArray.getD lev 0 = start level lev := by
  rw [Array.getD_eq_getD_getElem?, List.getElem?_toArray, List.getElem?_map, List.getElem?_range h]
  rfl

/-- **steps 2–4 as the code runs them produce the task table of the specification**: for every level vector and
every thread count, the rows `order[t.beg .. t.end)` of `tasks[tid][lev]` are the `tid`-th chunk of the rows of
level `lev` -/
theorem scheduleLit_eq_tasks (level : Array Nat) (nt : Nat) : scheduleLit level nt = tasks level nt := by
  unfold scheduleLit scheduleLitN tasks tasksLit
  rw [show countingSortLitN level (nlev level) = countingSortLit level from rfl]
  rw [countingSortLit_eq]
  simp only [List.map_map]
  apply List.map_congr_left
  intro tid _
  simp only [Function.comp_apply, List.map_map]
  apply List.map_congr_left
  intro lev hlev
  have hlev : lev < nlev level := List.mem_range.mp hlev
  obtain ⟨post, hsplit⟩ := order_split level lev hlev
  simp only [Function.comp_apply, taskRowsLit]
  rw [start_array_getD level lev (by omega), start_array_getD level (lev + 1) (by omega), start_succ,
    Nat.add_sub_cancel_left, hsplit]
  generalize hm : (levelRows level lev).length = m
  have hb : min (tid * ((m + nt - 1) / nt)) m + start level lev
      = min (tid * ((m + nt - 1) / nt)) m + ((List.range lev).flatMap (levelRows level)).length := by
    rw [flatMap_levelRows_length]
  rw [Nat.add_sub_add_right, hb]
  rw [range_map_getD_segment _ _ _ 0 _ _ (by rw [hm]; omega)]
  unfold taskRows chunkEnd chunkBeg chunkSize
  rw [hm]

/-! ### `order` is the stable sort by level -/

/-- "sorted by level, ties by row number" -/
def LevLt (level : Array Nat) (a b : Nat) : Prop :=
  level.getD a 0 < level.getD b 0 ∨ (level.getD a 0 = level.getD b 0 ∧ a < b)

theorem order_pairwise (level : Array Nat) : (order level).Pairwise (LevLt level) := by
  unfold order
  rw [List.flatMap_def, List.pairwise_flatten]
  constructor
  · intro l hl
    obtain ⟨lev, _, rfl⟩ := List.mem_map.mp hl
    have h : ∀ a, a ∈ levelRows level lev → level.getD a 0 = lev := fun a ha => ((mem_levelRows level lev a).mp ha).2
    have := List.Pairwise.and_mem.mp (levelRows_sorted level lev)
    exact this.imp (fun ⟨ha, hb, hab⟩ => Or.inr ⟨by rw [h _ ha, h _ hb], hab⟩)
  · rw [List.pairwise_map]
    refine List.Pairwise.imp ?_ (List.pairwise_lt_range (n := nlev level))
    intro a b hab x hx y hy
    have h1 := ((mem_levelRows level a x).mp hx).2
    have h2 := ((mem_levelRows level b y).mp hy).2
    exact Or.inl (by omega)

theorem LevLt_asymm (level : Array Nat) (a b : Nat) (h1 : LevLt level a b) (h2 : LevLt level b a) : a = b := by
  unfold LevLt at h1 h2; omega

/-- the comparison "level[a] ≤ level[b]" -/
def levLe (level : Array Nat) (a b : Nat) : Bool := decide (level.getD a 0 ≤ level.getD b 0)

theorem mergeSort_pairwise_LevLt (level : Array Nat) :
    ((List.range level.size).mergeSort (levLe level)).Pairwise (LevLt level) := by
  have tr : ∀ a b c : Nat, levLe level a b = true → levLe level b c = true → levLe level a c = true := by
    intro a b c h1 h2; simp only [levLe, decide_eq_true_eq] at *; omega
  have tot : ∀ a b : Nat, (levLe level a b || levLe level b a) = true := by
    intro a b; simp only [levLe, Bool.or_eq_true, decide_eq_true_eq]; omega
  have hsorted := List.pairwise_mergeSort tr tot (List.range level.size)
  have hperm := List.mergeSort_perm (List.range level.size) (levLe level)
  have hsub : ∀ lev, List.Sublist (levelRows level lev) ((List.range level.size).mergeSort (levLe level)) := by
    intro lev
    apply List.sublist_mergeSort tr tot
    · have h : ∀ a, a ∈ levelRows level lev → level.getD a 0 = lev :=
        fun a ha => ((mem_levelRows level lev a).mp ha).2
      have := List.Pairwise.and_mem.mp (levelRows_sorted level lev)
      exact this.imp (fun ⟨ha, hb, _⟩ => by simp only [levLe, decide_eq_true_eq]; rw [h _ ha, h _ hb]; exact Nat.le_refl _)
    · exact List.filter_sublist
  generalize (List.range level.size).mergeSort (levLe level) = M at *
  -- stability: the rows of every level keep their order
  have hfilter : ∀ lev, M.filter (fun i => level.getD i 0 == lev) = levelRows level lev := by
    intro lev
    have h1 : List.Sublist ((levelRows level lev).filter (fun i => level.getD i 0 == lev))
        (M.filter (fun i => level.getD i 0 == lev)) := (hsub lev).filter _
    have h2 : (levelRows level lev).filter (fun i => level.getD i 0 == lev) = levelRows level lev := by
      unfold levelRows; rw [List.filter_filter]; simp
    rw [h2] at h1
    have h3 : (M.filter (fun i => level.getD i 0 == lev)).length = (levelRows level lev).length :=
      (hperm.filter _).length_eq
    exact (h1.eq_of_length h3.symm).symm
  rw [List.pairwise_iff_forall_sublist]
  intro a b hab
  have hle : level.getD a 0 ≤ level.getD b 0 := by
    have := List.pairwise_iff_forall_sublist.mp hsorted hab
    simpa only [levLe, decide_eq_true_eq] using this
  rcases Nat.lt_or_ge (level.getD a 0) (level.getD b 0) with h | h
  · exact Or.inl h
  · have he : level.getD a 0 = level.getD b 0 := by omega
    refine Or.inr ⟨he, ?_⟩
    have hf := hab.filter (fun i => level.getD i 0 == level.getD b 0)
    rw [hfilter] at hf
    have : [a, b].filter (fun i => level.getD i 0 == level.getD b 0) = [a, b] := by
      rw [List.filter_cons_of_pos (by rw [he]; exact beq_self_eq_true _),
        List.filter_cons_of_pos (by exact beq_self_eq_true _), List.filter_nil]
    rw [this] at hf
    exact List.pairwise_iff_forall_sublist.mp (levelRows_sorted level _) hf

/-- **`order` is the stable sort of the rows by level** (`List.mergeSort` is stable: `List.sublist_mergeSort`) -/
theorem order_eq_mergeSort (level : Array Nat) :
    order level = (List.range level.size).mergeSort (levLe level) :=
  List.Perm.eq_of_pairwise (fun a b _ _ => LevLt_asymm level a b) (order_pairwise level)
    (mergeSort_pairwise_LevLt level)
    ((order_perm level).trans (List.mergeSort_perm _ _).symm)

/-! ### reading the task table -/

theorem tasks_getD_getD (level : Array Nat) (nt t lev : Nat) (ht : t < nt) (hlev : lev < nlev level) :
    ((tasks level nt).getD t []).getD lev [] = taskRows (levelRows level lev) nt t := by
  unfold tasks
  simp [List.getD_eq_getElem?_getD, List.getElem?_map, List.getElem?_range ht, List.getElem?_range hlev]

/-- the rows of a task belong to the task's level -/
theorem mem_task (level : Array Nat) (nt t lev : Nat) (hnt : 0 < nt) (ht : t < nt) (hlev : lev < nlev level) (i : Nat)
    (hi : i ∈ ((tasks level nt).getD t []).getD lev []) : i < level.size ∧ level.getD i 0 = lev := by
  rw [tasks_getD_getD level nt t lev ht hlev] at hi
  apply (mem_levelRows level lev i).mp
  rw [← taskRows_flatten (levelRows level lev) nt hnt]
  exact List.mem_flatten.mpr ⟨_, List.mem_map.mpr ⟨t, List.mem_range.mpr ht, rfl⟩, hi⟩

/-- every row is in some task of its level -/
theorem exists_task (level : Array Nat) (nt : Nat) (hnt : 0 < nt) (i : Nat) (hi : i < level.size) :
    ∃ t, t < nt ∧ i ∈ ((tasks level nt).getD t []).getD (level.getD i 0) [] := by
  have hmem : i ∈ levelRows level (level.getD i 0) := (mem_levelRows level _ i).mpr ⟨hi, rfl⟩
  rw [← taskRows_flatten (levelRows level (level.getD i 0)) nt hnt] at hmem
  obtain ⟨l, hl, hil⟩ := List.mem_flatten.mp hmem
  obtain ⟨t, ht, rfl⟩ := List.mem_map.mp hl
  have ht := List.mem_range.mp ht
  exact ⟨t, ht, by rw [tasks_getD_getD level nt t _ ht (lt_nlev level i hi)]; exact hil⟩

/-- executing every level in thread order visits the rows in the order `order` -/
theorem threadOrderSchedule_tasks (level : Array Nat) (nt : Nat) (hnt : 0 < nt) :
    threadOrderSchedule (tasks level nt) (nlev level) = order level := by
  unfold threadOrderSchedule order
  rw [List.flatMap_def, List.flatMap_def]
  congr 1
  apply List.map_congr_left
  intro lev hlev
  exact levelTasks_flatten level nt hnt lev (List.mem_range.mp hlev)

/-! ### every array access of steps 2–4 is in bounds -/

/-- **no out-of-bounds access in step 2**: the histogram increment `++start[level[i]+1]` and, in iteration `k` of
the scatter loop, the read/increment of `start[level[k]]` and the write `order[start[level[k]]] = k` are in bounds -/
theorem scatter_in_bounds (level : Array Nat) (k : Nat) (hk : k < level.size) :
    level.getD k 0 + 1 < (csHist level).size ∧
    (let os := (List.range k).foldl (scatterStep level)
        (Array.replicate level.size 0, csPsum (csHist level) (nlev level + 1))
     level.getD k 0 < os.2.size ∧ os.2.getD (level.getD k 0) 0 < os.1.size) := by
  have hl := lt_nlev level k hk
  refine ⟨by rw [csHist_size]; omega, ?_⟩
  rw [csPsum_csHist]
  have inv := scatter_inv level k (by omega)
  generalize (List.range k).foldl (scatterStep level) _ = os at inv
  refine ⟨by rw [inv.size2]; omega, ?_⟩
  rw [inv.st _ (by omega), inv.size1]
  exact pos_lt level k hk

theorem getD_map_range {α : Type} (f : Nat → α) (n k : Nat) (d : α) (hk : k < n) :
    ((List.range n).map f).getD k d = f k := by
  rw [List.getD_eq_getElem?_getD, List.getElem?_map, List.getElem?_range hk]; rfl

theorem start_le_size (level : Array Nat) (lev : Nat) : start level lev ≤ level.size := by
  unfold start
  exact Nat.le_trans (List.length_filter_le _ _) (by simp)

/-- **no out-of-bounds access in steps 3–4**: every `task(beg, end)` satisfies `beg ≤ end ≤ n`, so every read
`order[r]`, `beg ≤ r < end`, is in bounds -/
theorem tasksLit_in_bounds (level : Array Nat) (nt tid lev : Nat) (htid : tid < nt) (hlev : lev < nlev level) :
    let t := ((tasksLit (countingSortLit level).2 (nlev level) nt).getD tid []).getD lev (0, 0)
    t.1 ≤ t.2 ∧ t.2 ≤ (countingSortLit level).1.size := by
  simp only [countingSortLit_eq, tasksLit]
  rw [getD_map_range _ _ _ _ htid, getD_map_range _ _ _ _ hlev]
  simp only []
  rw [start_array_getD level lev (by omega), start_array_getD level (lev + 1) (by omega)]
  have h1 := start_succ level lev
  have h2 := start_le_size level (lev + 1)
  have h3 : (order level).toArray.size = level.size := by simp [order_length]
  generalize (start level (lev + 1) - start level lev + nt - 1) / nt = cs
  generalize tid * cs = tc
  constructor <;> omega
end Amgcl.Sched
