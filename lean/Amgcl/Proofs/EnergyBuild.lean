import Amgcl.Proofs.EnergySpd
/-!
# Hierarchies built from a fine matrix, transfer operators and a concrete smoother

`Hier.build pre post A T` (EnergyHier) forms the Galerkin operators `R A P` level by level and sets the smoother
matrices `pre n A_l`, `post n A_l`.  Here: the hypotheses `Hier.OK`, `Hier.Sym` for such a hierarchy follow from
level-wise facts (`Transfers.Good`), and the concrete smoother families of amgcl are instances:

* Gauss–Seidel (forward pre-, backward post-sweep): **no hypothesis beyond `A` SPD, `R = Pᵀ`, `P` injective**;
* damped Jacobi `0 < ω < 1`, SPAI-0: every level matrix weakly diagonally dominant (`Q = WeakDD`).
-/
set_option linter.unusedSectionVars false
namespace Amgcl.Energy
open Matrix

universe u
variable {𝕜 : Type u} [Field 𝕜] [LinearOrder 𝕜] [IsStrictOrderedRing 𝕜]

/-- level-wise hypotheses on the transfer operators: `R = Pᵀ`, `P` injective, and a predicate `Q` (e.g. weak diagonal
dominance) on every level matrix `A, R A P, …` -/
def Transfers.Good (Q : ∀ n : ℕ, Matrix (Fin n) (Fin n) 𝕜 → Prop) :
    {n : ℕ} → Matrix (Fin n) (Fin n) 𝕜 → Transfers 𝕜 n → Prop
  | _, A, .coarsest _ => Q _ A
  | _, A, .cons P R rest => Q _ A ∧ R = Pᵀ ∧ (∀ w, P *ᵥ w = 0 → w = 0) ∧ Transfers.Good Q (R * A * P) rest

theorem Hier.build_A (pre post : SmootherFamily 𝕜) {n : ℕ} (A : Matrix (Fin n) (Fin n) 𝕜) (T : Transfers 𝕜 n) :
    (Hier.build pre post A T).A = A := by
  cases T with
  | coarsest d => cases d <;> rfl
  | cons P R rest => rfl

/-- a built hierarchy satisfies `OK` as soon as the smoother contracts on every SPD matrix satisfying `Q` -/
theorem Hier.build_OK (pre post : SmootherFamily 𝕜) (Q : ∀ n : ℕ, Matrix (Fin n) (Fin n) 𝕜 → Prop)
    (hpre : ∀ n (A : Matrix (Fin n) (Fin n) 𝕜), IsSPD A → Q n A → Contr A (1 - pre n A * A))
    (hpost : ∀ n (A : Matrix (Fin n) (Fin n) 𝕜), IsSPD A → Q n A → Contr A (1 - post n A * A)) :
    ∀ {n : ℕ} (A : Matrix (Fin n) (Fin n) 𝕜) (T : Transfers 𝕜 n), IsSPD A → T.Good Q A →
      (Hier.build pre post A T).OK
  | _, A, .coarsest true, hA, _ => hA
  | _, A, .coarsest false, hA, hT => ⟨hA, hpre _ A hA hT, hpost _ A hA hT⟩
  | _, A, .cons P R rest, hA, hT => by
    obtain ⟨hQ, hR, hP, hrest⟩ := hT
    subst hR
    refine ⟨hA, hpre _ A hA hQ, hpost _ A hA hQ, rfl, hP, Hier.build_A _ _ _ _, ?_⟩
    exact Hier.build_OK pre post Q hpre hpost _ rest (hA.galerkin P hP) hrest

/-- a built hierarchy is symmetric when `post A = (pre A)ᵀ` on symmetric matrices and `R = Pᵀ` -/
theorem Hier.build_Sym (pre post : SmootherFamily 𝕜) (Q : ∀ n : ℕ, Matrix (Fin n) (Fin n) 𝕜 → Prop)
    (hadj : ∀ n (A : Matrix (Fin n) (Fin n) 𝕜), Aᵀ = A → post n A = (pre n A)ᵀ) :
    ∀ {n : ℕ} (A : Matrix (Fin n) (Fin n) 𝕜) (T : Transfers 𝕜 n), Aᵀ = A → T.Good Q A →
      (Hier.build pre post A T).Sym
  | _, A, .coarsest true, _, _ => trivial
  | _, A, .coarsest false, hA, _ => hadj _ A hA
  | _, A, .cons P R rest, hA, hT => by
    obtain ⟨-, hR, -, hrest⟩ := hT
    subst hR
    refine ⟨hadj _ A hA, Hier.build_Sym pre post Q hadj _ rest ?_ hrest⟩
    simp [transpose_mul, hA, Matrix.mul_assoc]

/-! ### the smoother families -/

/-- damped Jacobi, same sweep before and after -/
def jacobiFam (ω : 𝕜) : SmootherFamily 𝕜 := fun _ A => jacobiN ω A
/-- SPAI-0 -/
def spai0Fam : SmootherFamily 𝕜 := fun _ A => spai0N A
/-- forward Gauss–Seidel sweep (pre-smoother) -/
noncomputable def gsFam : SmootherFamily 𝕜 := fun _ A => gsN A
/-- backward Gauss–Seidel sweep (post-smoother) -/
noncomputable def gsBackFam : SmootherFamily 𝕜 := fun _ A => gsNback A

theorem gsMback_smul {n : ℕ} (c : 𝕜) (A : Matrix (Fin n) (Fin n) 𝕜) : gsMback (c • A) = c • gsMback A := by
  ext i j; simp [gsMback]

theorem gsNback_smul {n : ℕ} {c : 𝕜} (hc : c ≠ 0) (A : Matrix (Fin n) (Fin n) 𝕜) :
    gsNback (c • A) = c⁻¹ • gsNback A := by
  rw [gsNback, gsNback, gsMback_smul, inv_smul_field hc]

/-- no condition on the level matrices -/
def QTrue : ∀ n : ℕ, Matrix (Fin n) (Fin n) 𝕜 → Prop := fun _ _ => True
/-- every level matrix weakly diagonally dominant -/
def QWeakDD : ∀ n : ℕ, Matrix (Fin n) (Fin n) 𝕜 → Prop := fun _ A => WeakDD A

/-! ### the smoothers whose smoothing inequality is proved (used by `C02b.amg_spd_contracting_partial`) -/

/-- the smoothers for which the smoothing inequality is proved here -/
inductive ProvedSmoother (𝕜 : Type u)
  | gaussSeidel
  | dampedJacobi (ω : 𝕜)
  | spai0

/-- pre-sweep matrix family -/
noncomputable def ProvedSmoother.pre : ProvedSmoother 𝕜 → SmootherFamily 𝕜
  | .gaussSeidel => gsFam
  | .dampedJacobi ω => jacobiFam ω
  | .spai0 => spai0Fam

/-- post-sweep matrix family -/
noncomputable def ProvedSmoother.post : ProvedSmoother 𝕜 → SmootherFamily 𝕜
  | .gaussSeidel => gsBackFam
  | .dampedJacobi ω => jacobiFam ω
  | .spai0 => spai0Fam

/-- what the smoother needs of every level matrix, beyond SPD -/
def ProvedSmoother.Q : ProvedSmoother 𝕜 → ∀ n : ℕ, Matrix (Fin n) (Fin n) 𝕜 → Prop
  | .gaussSeidel => QTrue
  | .dampedJacobi _ => QWeakDD
  | .spai0 => QWeakDD

/-- admissible parameters: `0 < ω < 1` for damped Jacobi -/
def ProvedSmoother.ParamOK : ProvedSmoother 𝕜 → Prop
  | .dampedJacobi ω => 0 < ω ∧ ω < 1
  | _ => True

end Amgcl.Energy
