import Amgcl.Model.IOBinary
import Amgcl.Proofs.IOSort
/-!
Structural validity of everything the repaired binary readers return; no access leaves a buffer (helper file for C19).
-/
namespace Amgcl.IO
variable {V : Type}

theorem readAt_length (file : Bytes) (pos len : Nat) (bs : Bytes) (h : readAt file pos len = some bs) :
    bs.length = len := by
  unfold readAt at h
  split at h
  · injection h with h; subst h; rename_i h0; simp [h0]
  · split at h
    · contradiction
    · split at h
      · injection h with h; subst h
        rw [List.length_take, List.length_drop]; omega
      · contradiction

theorem splitEvery_length (k c : Nat) (bs : Bytes) : (splitEvery k c bs).length = c := by
  induction c generalizing bs with
  | zero => rfl
  | succ c ih => simp [splitEvery, ih]

theorem leVal_lt (bs : Bytes) : leVal bs < 256 ^ bs.length := by
  induction bs with
  | nil => simp [leVal]
  | cons b t ih =>
    simp only [leVal, List.length_cons, Nat.pow_succ]
    have : b % 256 < 256 := Nat.mod_lt _ (by omega)
    omega

theorem sortSeg_some (cv : List (Int × V)) (beg len : Int)
    (h : len ≤ 1 ∨ (0 ≤ beg ∧ beg + len ≤ (cv.length : Int))) :
    ∃ cv', sortSeg cv beg len = some cv' ∧ cv'.length = cv.length := by
  unfold sortSeg
  by_cases h1 : len ≤ 1
  · exact ⟨cv, by rw [if_pos h1], rfl⟩
  · rcases h with h | h
    · exact absurd h h1
    · rw [if_neg h1, if_pos h]
      refine ⟨_, rfl, ?_⟩
      simp only [List.length_append, List.length_take, List.length_drop, sortRow_length]
      omega

theorem monotone_head_le_last (a : Int) (t : List Int) (h : monotone (a :: t) = true) :
    ∀ p, (a :: t).getLast? = some p → a ≤ p := by
  induction t generalizing a with
  | nil => intro p hp; simp at hp; omega
  | cons b t ih =>
    simp only [monotone, Bool.and_eq_true, decide_eq_true_eq] at h
    intro p hp
    rw [List.getLast?_cons_cons] at hp
    have := ih b h.2 p hp
    omega

theorem sortRows_some (narrow : Int → Int) (hn : ∀ L : Int, 0 ≤ L → narrow L ≤ L) (ptr : List Int)
    (cv : List (Int × V)) (hmono : monotone ptr = true) (hhead : ∀ p, ptr.head? = some p → 0 ≤ p)
    (hlast : ∀ p, ptr.getLast? = some p → p ≤ (cv.length : Int)) :
    ∃ cv', sortRows narrow ptr cv = some cv' ∧ cv'.length = cv.length := by
  induction ptr generalizing cv with
  | nil => exact ⟨cv, rfl, rfl⟩
  | cons a t ih =>
    cases t with
    | nil => exact ⟨cv, rfl, rfl⟩
    | cons b t' =>
      simp only [monotone, Bool.and_eq_true, decide_eq_true_eq] at hmono
      have ha : 0 ≤ a := hhead a rfl
      have hnar := hn (b - a) (by omega)
      have hbl : ∀ p, (b :: t').getLast? = some p → b ≤ p := monotone_head_le_last b t' hmono.2
      have hlast' : ∀ p, (b :: t').getLast? = some p → p ≤ (cv.length : Int) := by
        intro p hp; apply hlast p; rw [List.getLast?_cons_cons]; exact hp
      obtain ⟨pl, hpl⟩ : ∃ p, (b :: t').getLast? = some p := by
        cases h : (b :: t').getLast? with
        | none => simp at h
        | some p => exact ⟨p, rfl⟩
      have hb : b ≤ (cv.length : Int) := by
        have h1 := hbl pl hpl
        have h2 := hlast' pl hpl
        omega
      obtain ⟨cv1, h1, h2⟩ := sortSeg_some cv a (narrow (b - a)) (Or.inr ⟨ha, by omega⟩)
      obtain ⟨cv2, h3, h4⟩ := ih cv1 hmono.2 (fun p hp => by simp at hp; omega)
        (fun p hp => by rw [h2]; exact hlast' p hp)
      refine ⟨cv2, ?_, by rw [h4, h2]⟩
      simp only [sortRows, h1, Option.bind_eq_bind, Option.bind_some]
      exact h3

end Amgcl.IO

namespace Amgcl.IO
variable {V : Type}

theorem mem_splitEvery_length (k c : Nat) (bs x : Bytes) (h : x ∈ splitEvery k c bs) : x.length ≤ k := by
  induction c generalizing bs with
  | zero => cases h
  | succ c ih =>
    simp only [splitEvery, List.mem_cons] at h
    rcases h with rfl | h
    · rw [List.length_take]; omega
    · exact ih _ h

theorem toS64_leVal_lt (x : Bytes) (h : x.length ≤ 8) : toS64 (leVal x) < 9223372036854775808 := by
  have h1 := leVal_lt x
  have h2 : 256 ^ x.length ≤ 256 ^ 8 := Nat.pow_le_pow_right (by omega) h
  have h3 : (256 : Nat) ^ 8 = 18446744073709551616 := by decide
  unfold toS64 two63 two64
  split <;> omega

theorem monotone_head_le_mem (a : Int) (t : List Int) (h : monotone (a :: t) = true) : ∀ p ∈ a :: t, a ≤ p := by
  induction t generalizing a with
  | nil => intro p hp; simp at hp; omega
  | cons b t ih =>
    simp only [monotone, Bool.and_eq_true, decide_eq_true_eq] at h
    intro p hp
    rcases List.mem_cons.mp hp with rfl | hp
    · omega
    · have := ih b h.2 p hp; omega

theorem monotone_map_sub (c : Int) (l : List Int) : monotone (l.map (· - c)) = monotone l := by
  induction l with
  | nil => rfl
  | cons a t ih =>
    cases t with
    | nil => rfl
    | cons b t' =>
      simp only [List.map_cons, monotone] at ih ⊢
      rw [ih]
      congr 1
      simp

/-- the `p -= nnz_beg` loop on validated pointers is the plain subtraction -/
theorem shift_eq_sub (p0 p : Int) (h0 : 0 ≤ p0) (hp : p0 ≤ p) (h63 : p < 9223372036854775808) :
    toS64 ((ofS64 p + (two64 - ofS64 p0)) % two64) = p - p0 := by
  unfold toS64 ofS64 two64 two63
  have e1 : (p % ((18446744073709551616 : Nat) : Int)).toNat = p.toNat := by
    rw [Int.emod_eq_of_lt (by omega) (by omega)]
  have e2 : (p0 % ((18446744073709551616 : Nat) : Int)).toNat = p0.toNat := by
    rw [Int.emod_eq_of_lt (by omega) (by omega)]
  rw [e1, e2]
  have e3 : (p.toNat + (18446744073709551616 - p0.toNat)) % 18446744073709551616 = p.toNat - p0.toNat := by
    have : p.toNat + (18446744073709551616 - p0.toNat) = (p.toNat - p0.toNat) + 18446744073709551616 := by omega
    rw [this, Nat.add_mod_right, Nat.mod_eq_of_lt (by omega)]
  rw [e3, if_pos (by omega)]
  omega

end Amgcl.IO

namespace Amgcl.IO
variable {V : Type}

theorem ptrValid_spec (b : Int) (ptr : List Int) (nnz : Int) (h : ptrValid b ptr nnz = true) :
    0 ≤ nnz ∧ (∃ p0, ptr.head? = some p0 ∧ 0 ≤ p0 ∧ (b = 0 → p0 = 0)) ∧ monotone ptr = true ∧
    ∃ pl, ptr.getLast? = some pl ∧ pl ≤ nnz := by
  unfold ptrValid at h
  simp only [Bool.and_eq_true, decide_eq_true_eq] at h
  obtain ⟨⟨⟨h1, h2⟩, h3⟩, h4⟩ := h
  refine ⟨h1, ?_, h3, ?_⟩
  · cases hh : ptr.head? with
    | none => rw [hh] at h2; contradiction
    | some p0 =>
      rw [hh] at h2
      simp only [Bool.and_eq_true, decide_eq_true_eq, Bool.or_eq_true] at h2
      refine ⟨p0, rfl, h2.1, ?_⟩
      intro hb0
      rcases h2.2 with h | h
      · simp at h; exact absurd hb0 h
      · exact h
  · cases hh : ptr.getLast? with
    | none => rw [hh] at h4; contradiction
    | some pl =>
      rw [hh] at h4
      exact ⟨pl, rfl, by simpa using h4⟩

theorem shifted_eq (ptr0 : List Int) (p0 : Int) (h0 : 0 ≤ p0) (h063 : p0 < 9223372036854775808)
    (hmem : ∀ p ∈ ptr0, p0 ≤ p ∧ p < 9223372036854775808) :
    (if ofS64 p0 = 0 then ptr0 else ptr0.map (fun p => toS64 ((ofS64 p + (two64 - ofS64 p0)) % two64)))
      = ptr0.map (· - p0) := by
  split
  · rename_i hz
    have : p0 = 0 := by
      unfold ofS64 two64 at hz
      rw [Int.emod_eq_of_lt h0 (by omega)] at hz
      omega
    subst this
    simp
  · apply List.map_congr_left
    intro p hp
    exact shift_eq_sub p0 p h0 (hmem p hp).1 (hmem p hp).2

theorem binCrsBody_wf (memLimit csz : Nat) (cdec : Bytes → Int) (vsz : Nat) (dec : Bytes → V) (file : Bytes) (n : Nat)
    (b e : Int) (hb : 0 ≤ b) (hbe : b ≤ e) :
    binCrsBody true memLimit csz cdec vsz dec file n b e = .error ∨
    ∃ A, binCrsBody true memLimit csz cdec vsz dec file n b e = .ok A ∧ A.PtrWF ∧ A.nrows = (e - b).toNat := by
  unfold binCrsBody
  simp only []
  split
  · left; rfl
  split
  · left; rfl
  split
  · left; rfl
  rename_i pb hpb
  split
  · left; rfl
  rename_i zb hzb
  -- the pointer array read from the file
  generalize hptr0 : List.map (fun x => toS64 (leVal x)) (splitEvery 8 (e - b + 1).toNat pb) = ptr0
  have hlen0 : ptr0.length = (e - b).toNat + 1 := by
    rw [← hptr0, List.length_map, splitEvery_length]; omega
  have h63 : ∀ p ∈ ptr0, p < 9223372036854775808 := by
    intro p hp
    rw [← hptr0, List.mem_map] at hp
    obtain ⟨x, hx, rfl⟩ := hp
    exact toS64_leVal_lt x (mem_splitEvery_length _ _ _ _ hx)
  split
  · left; rfl
  rename_i hv
  have hvalid : ptrValid b ptr0 (toS64 (leVal zb)) = true := by simpa using hv
  obtain ⟨hnnz, ⟨p0, hhead, hp0, _⟩, hmono, ⟨pl, hlast, hpl⟩⟩ := ptrValid_spec _ _ _ hvalid
  rw [hhead]
  simp only []
  have hne : ptr0 ≠ [] := by intro h; rw [h] at hhead; simp at hhead
  obtain ⟨a, t, hat⟩ := List.exists_cons_of_ne_nil hne
  have ha : a = p0 := by rw [hat] at hhead; simpa using hhead
  subst ha
  have hge : ∀ p ∈ ptr0, a ≤ p := by rw [hat]; exact monotone_head_le_mem a t (by rw [← hat]; exact hmono)
  have ha63 : a < 9223372036854775808 := h63 a (by rw [hat]; simp)
  rw [shifted_eq ptr0 a hp0 ha63 (fun p hp => ⟨hge p hp, h63 p hp⟩)]
  have hlast' : (ptr0.map (· - a)).getLast? = some (pl - a) := by
    rw [List.getLast?_map, hlast]; rfl
  rw [hlast']
  simp only []
  have hpla : a ≤ pl := hge pl (List.mem_of_getLast? hlast)
  split
  · left; rfl
  split
  · left; rfl
  split
  · left; rfl
  split
  · left; rfl
  rename_i cb hcb
  split
  · left; rfl
  rename_i vb hvb
  -- the sort loop stays inside `col/val`
  have hzip : ((List.map cdec (splitEvery csz (pl - a).toNat cb)).zip
      (List.map dec (splitEvery vsz (pl - a).toNat vb))).length = (pl - a).toNat := by
    simp [List.length_zip, splitEvery_length]
  have hmono' : monotone (ptr0.map (· - a)) = true := by rw [monotone_map_sub]; exact hmono
  obtain ⟨cv', hs, hl⟩ := sortRows_some wrap32 wrap32_le (ptr0.map (· - a)) _ hmono'
    (fun p hp => by
      rw [hat] at hp; simp at hp; omega)
    (fun p hp => by
      rw [hlast'] at hp; injection hp with hp
      rw [hzip]; omega)
  rw [hs]
  right
  refine ⟨_, rfl, ⟨?_, ?_, hmono', ?_, ?_⟩, rfl⟩
  · simp only [List.length_map]; exact hlen0
  · rw [hat]; simp
  · simp only [List.length_map, hl, hzip, hlast']
    congr 1; omega
  · simp only [List.length_map]

end Amgcl.IO

namespace Amgcl.IO
variable {V : Type}

/-- **Every input**: the repaired `read_crs` throws or returns structurally valid arrays; it never touches memory
outside its buffers. -/
theorem binReadCrs_error_or_wf (memLimit csz : Nat) (cdec : Bytes → Int) (vsz : Nat) (dec : Bytes → V) (file : Bytes)
    (rb re : Int) :
    binReadCrs true memLimit csz cdec vsz dec file rb re = .error ∨
    ∃ A, binReadCrs true memLimit csz cdec vsz dec file rb re = .ok A ∧ A.PtrWF := by
  unfold binReadCrs
  split
  · left; rfl
  · split
    · left; rfl
    · rename_i b e hr
      obtain ⟨hb, hbe, _, _, _⟩ := rowRange_fixed _ _ _ _ _ hr
      rcases binCrsBody_wf memLimit csz cdec vsz dec file _ b e hb hbe with h | ⟨A, h1, h2, _⟩
      · left; exact h
      · right; exact ⟨A, h1, h2⟩

/-- the repaired `read_dense` throws or returns exactly `rows · cols` values -/
theorem binReadDense_error_or_wf (memLimit vsz : Nat) (hvsz : 0 < vsz) (dec : Bytes → V) (file : Bytes) (rb re : Int) :
    binReadDense true memLimit vsz dec file rb re = .error ∨
    ∃ D, binReadDense true memLimit vsz dec file rb re = .ok D ∧ D.WF := by
  unfold binReadDense
  split
  · left; rfl
  rename_i nb hnb
  split
  · left; rfl
  rename_i mb hmb
  simp only []
  split
  · left; rfl
  rename_i b e hr
  obtain ⟨hb, hbe, hen, _, _⟩ := rowRange_fixed _ _ _ _ _ hr
  split
  · left; rfl
  rename_i hov
  split
  · left; rfl
  split
  · left; rfl
  rename_i vb hvb
  right
  refine ⟨_, rfl, ?_⟩
  unfold RawDense.WF
  simp only [List.length_map, splitEvery_length]
  -- `chunk * m` does not wrap: `chunk ≤ n` and `n * m * vsz < 2^64`
  have hnlt : leVal nb < 18446744073709551616 := by
    have := leVal_lt nb
    have h8 := readAt_length _ _ _ _ hnb
    rw [h8] at this
    have h3 : (256 : Nat) ^ 8 = 18446744073709551616 := by decide
    omega
  have hchunk : ofS64 (e - b) = (e - b).toNat := by
    unfold ofS64 two64
    rw [Int.emod_eq_of_lt (by omega) (by unfold toS64 two63 two64 at hen; split at hen <;> omega)]
  rw [hchunk]
  simp at hov
  apply Nat.mod_eq_of_lt
  have hle : (e - b).toNat ≤ leVal nb := by
    unfold toS64 two63 two64 at hen; split at hen <;> omega
  · have h1 : (e - b).toNat * leVal mb ≤ leVal nb * leVal mb := Nat.mul_le_mul_right _ hle
    have h2 : leVal nb * leVal mb ≤ leVal nb * leVal mb * vsz := Nat.le_mul_of_pos_right _ (by omega)
    unfold two64 at hov ⊢
    omega

end Amgcl.IO
