import Amgcl.Proofs.DistAmgFinal
import Amgcl.Proofs.AmgApply
/-!
The gathered hierarchy of a complete well-formed distributed hierarchy satisfies the shape predicate `Amg.HierOK` of
the C02 cycle theorems; hence their conclusions (independence of the level vectors, linearity) transfer to the
distributed preconditioner.
-/
namespace Amgcl.DistAmg
open Amgcl Amgcl.Dist Amgcl.Lockstep Amgcl.Amg

section
variable {K S T : Type} [CommRing K] [DecidableEq K]

/-- every level has the pieces `mpi::amg::cycle` dereferences: inner levels `A`, `relax`, `P`, `R`; the last level the
direct solver or `A` and `relax` (what `mpi::amg::init` constructs) -/
def DHierFull : List (DLevel K S) → Prop
  | [] => False
  | [lv] => lv.solve.isSome ∨ (lv.solve = none ∧ lv.A.isSome ∧ lv.relax.isSome)
  | lv :: nxt :: rest => lv.A.isSome ∧ lv.relax.isSome ∧ lv.P.isSome ∧ lv.R.isSome ∧ DHierFull (nxt :: rest)

omit [CommRing K] [DecidableEq K] in
theorem gatherLevels_length (gs : List S → T) (dls : List (DLevel K S)) :
    (gatherLevels gs dls : List (Amg.Level K T)).length = dls.length := by
  induction dls with
  | nil => rfl
  | cons d rest ih => simp [gatherLevels, ih]

omit [CommRing K] [DecidableEq K] in
theorem dscrsOK_length : ∀ (ps : List (List Nat)) (dscr : List (DScratch K)), DScrsOK ps dscr → dscr.length = ps.length
  | [], [], _ => rfl
  | [], _ :: _, h => h.elim
  | _ :: _, [], h => h.elim
  | _ :: ps, _ :: ds, h => by simp [dscrsOK_length ps ds h.2]

/-- the smoother of a level, gathered, is `SmOK` on the gathered matrix -/
theorem level_smOK (dsm : DSmoother K S) (sm : Relax.Smoother K T) (gs : List S → T) (hsm : SmootherRef dsm sm gs)
    (hgood : ∀ A s, sm.setup A = .ok s → sm.Good s A) (dA : List (DistMat K)) (p : List Nat) (ss : List S)
    (hD : DistOK dA p p) (hset : dsm.setup dA p = .ok ss) :
    SmOK (sm.applyPre (gs ss) (assemble dA p)) (sm.applyPost (gs ss) (assemble dA p)) p.sum := by
  have hPA := assemble_partOK dA p p hD
  have hsp := split_assemble_ok dA p p hD
  rw [hsp] at hset
  obtain ⟨h0, _, _⟩ := hsm _ p hPA ss hset
  have := Good.smOK (hgood _ _ h0)
  rwa [← hPA.rows] at this

/-- **the gathered hierarchy satisfies the hypotheses of the C02 cycle theorems** -/
theorem gather_hierOK [Nontrivial K] (dsm : DSmoother K S) (sm : Relax.Smoother K T) (gs : List S → T)
    (direct : CRS K → Vec K → Vec K) (hsm : SmootherRef dsm sm gs)
    (hgood : ∀ A s, sm.setup A = .ok s → sm.Good s A) :
    ∀ (dls : List (DLevel K S)) (d : DLevel K S), DHierOK dsm direct (d :: dls) → DHierFull (d :: dls) →
      (∀ Ad ∈ (gatherLevels gs (d :: dls) : List (Amg.Level K T)).filterMap (·.solve), DirectOK (direct Ad) Ad.nrows) →
      HierOK sm direct d.part.sum (gatherLevels gs (d :: dls)) := by
  intro dls
  induction dls with
  | nil =>
    intro d hOK hF hdir
    obtain ⟨hL, -⟩ := hOK
    obtain ⟨p, dA, dP, dR, dsolve, drelax⟩ := d
    obtain ⟨hA, -, -, hsolve, hrelax⟩ := hL
    simp only at hA hsolve hrelax
    simp only [DHierFull] at hF
    rcases hF with hs | ⟨hs, ha, hr⟩
    · cases dsolve with
      | none => cases hs
      | some st =>
        obtain ⟨D, hD, rfl, _⟩ := hsolve st rfl
        refine HierOK.solveLast _ _ (gatherSolve (directInit 1 D p)) rfl ?_
        have := hdir (gatherSolve (directInit 1 D p)) (by simp [gatherLevels])
        rw [gatherSolve_init D p hD] at this ⊢
        rwa [assemble_nrows D p p hD.wf] at this
    · subst hs
      cases dA with
      | none => cases ha
      | some D =>
        cases drelax with
        | none => cases hr
        | some ss =>
          obtain ⟨D', hD', hset⟩ := hrelax ss rfl
          cases hD'
          exact HierOK.relaxLast _ _ (assemble D p) (gs ss) rfl rfl rfl
            (level_smOK dsm sm gs hsm hgood D p ss (hA D rfl) hset)
  | cons dn rest ih =>
    intro d hOK hF hdir
    obtain ⟨hL, hrest⟩ := hOK
    obtain ⟨ha, hr, hp, hrr, hFrest⟩ := hF
    have hnext := ih dn hrest hFrest (fun Ad hAd => hdir Ad (by
      rw [gatherLevels, List.filterMap_cons]
      split
      · exact hAd
      · exact List.mem_cons_of_mem _ hAd))
    obtain ⟨p, dA, dP, dR, dsolve, drelax⟩ := d
    obtain ⟨hA, hP, hR, -, hrelax⟩ := hL
    simp only [nextPart] at hA hP hR hrelax ha hr hp hrr
    cases dA with
    | none => cases ha
    | some D =>
      cases drelax with
      | none => cases hr
      | some ss =>
        cases dP with
        | none => cases hp
        | some DP =>
          cases dR with
          | none => cases hrr
          | some DR =>
            obtain ⟨D', hD', hset⟩ := hrelax ss rfl
            cases hD'
            refine HierOK.cons p.sum dn.part.sum _ _ _ (assemble D p) (assemble DP dn.part) (assemble DR p) (gs ss)
              rfl rfl rfl rfl (level_smOK dsm sm gs hsm hgood D p ss (hA D rfl) hset) ?_ rfl hnext
            exact ⟨assemble_nrows D p p (hA D rfl).wf, assemble_nrows DP p dn.part (hP DP rfl).wf,
              assemble_nrows DR dn.part p (hR DR rfl).wf⟩

/-- **the distributed preconditioner does not depend on the contents of the level vectors** (hence not on earlier
applications): C02 `apply_scratch_indep` transferred through the simulation -/
theorem dapply_indep [Nontrivial K] (prm : Amg.Params) (dsm : DSmoother K S) (sm : Relax.Smoother K T) (gs : List S → T)
    (direct : CRS K → Vec K → Vec K) (hsm : SmootherRef dsm sm gs)
    (hgood : ∀ A s, sm.setup A = .ok s → sm.Good s A)
    (d : DLevel K S) (dls : List (DLevel K S)) (hOK : DHierOK dsm direct (d :: dls)) (hF : DHierFull (d :: dls))
    (hdir : ∀ Ad ∈ (gatherLevels gs (d :: dls) : List (Amg.Level K T)).filterMap (·.solve),
      DirectOK (direct Ad) Ad.nrows)
    (dscr dscr' : List (DScratch K)) (drhs : DVec K)
    (hscr : DScrsOK ((d :: dls).map (·.part)) dscr) (hscr' : DScrsOK ((d :: dls).map (·.part)) dscr')
    (hrhs : DVecOK d.part drhs) :
    (dapply prm dsm direct (d :: dls) dscr drhs).1 = (dapply prm dsm direct (d :: dls) dscr' drhs).1 := by
  have hH := href_gather dsm sm gs direct hsm (d :: dls) hOK
  have hHier := gather_hierOK dsm sm gs direct hsm hgood dls d hOK hF hdir
  obtain ⟨r1, r2⟩ := split_concat d.part drhs hrhs
  have s1 := dapply_sim prm dsm sm direct dls (gatherLevels gs dls) d _ hH dscr (dscr.map gatherScratch)
    (concatVec drhs) (scrsRef_of_ok _ _ hscr) r2
  have s2 := dapply_sim prm dsm sm direct dls (gatherLevels gs dls) d _ hH dscr' (dscr'.map gatherScratch)
    (concatVec drhs) (scrsRef_of_ok _ _ hscr') r2
  rw [r1] at s1 s2
  have hl : ∀ ds : List (DScratch K), DScrsOK ((d :: dls).map (·.part)) ds →
      (ds.map gatherScratch).length = (gatherLevels gs (d :: dls) : List (Amg.Level K T)).length := by
    intro ds h
    rw [List.length_map, dscrsOK_length _ _ h, gatherLevels_length, List.length_map]
  rw [s1.1, s2.1]
  exact congrArg (fun v => splitVec v d.part)
    (apply_indep prm sm direct hHier _ _ (concatVec drhs) (hl dscr hscr) (hl dscr' hscr'))

end
end Amgcl.DistAmg
