import Mathlib.LinearAlgebra.FiniteDimensional.Basic
import Mathlib.LinearAlgebra.FiniteDimensional.Lemmas
import Mathlib.LinearAlgebra.Dimension.Constructions
import Mathlib.Tactic.Linarith
/-!
# The IDR theorem (Sonneveld – van Gijzen), abstract form (C05)

For a linear map `T` on a finite-dimensional space `V`, a subspace `S` and scalars `ω₁, ω₂, …` the Sonneveld spaces are

  `G₀ = V`,   `G_{j+1} = (I − ω_{j+1} T)(G_j ∩ S)`.

* `idrSpace_succ_le`    if `ω₁..ω_j ≠ 0` the spaces are nested: `G_{j+1} ≤ G_j`;
* `idrSpace_finrank_lt` if moreover `ω_{j+1} ≠ 0` and `S` contains no non-trivial `T`-invariant subspace, the dimension drops
                        strictly as long as `G_j ≠ 0`;
* `idrSpace_eq_bot`     hence `G_j = 0` for `j ≥ dim V`.
-/
namespace Amgcl.Krylov
open Module

section idr
variable {K V : Type*} [Field K] [AddCommGroup V] [Module K V]

/-- the Sonneveld spaces `G_j` -/
def idrSpace (T : V →ₗ[K] V) (S : Submodule K V) (ω : ℕ → K) : ℕ → Submodule K V
  | 0 => ⊤
  | j + 1 => (idrSpace T S ω j ⊓ S).map (LinearMap.id - ω (j + 1) • T)

theorem idrSpace_succ (T : V →ₗ[K] V) (S : Submodule K V) (ω : ℕ → K) (j : ℕ) :
    idrSpace T S ω (j + 1) = (idrSpace T S ω j ⊓ S).map (LinearMap.id - ω (j + 1) • T) := rfl

/-- how a vector enters the next space -/
theorem mem_idrSpace_succ (T : V →ₗ[K] V) (S : Submodule K V) (ω : ℕ → K) (j : ℕ) (y : V)
    (hy : y ∈ idrSpace T S ω j) (hS : y ∈ S) : y - ω (j + 1) • T y ∈ idrSpace T S ω (j + 1) := by
  rw [idrSpace_succ]
  refine ⟨y, ⟨hy, hS⟩, ?_⟩
  simp

/-- inside `G_j ∩ S` (`j ≥ 1` written as `j+1`) the space `G_{j+1}`… : `T` maps `G_{j+1} ∩ S`-vectors that already lie in
`G_j ∩ S` into `G_{j+1}` -/
theorem T_mem_of_mem (T : V →ₗ[K] V) (S : Submodule K V) (ω : ℕ → K) (j : ℕ) (hω : ω (j + 1) ≠ 0) (y : V)
    (hy : y ∈ idrSpace T S ω j) (hS : y ∈ S) (hy' : y ∈ idrSpace T S ω (j + 1)) :
    T y ∈ idrSpace T S ω (j + 1) := by
  have h1 := mem_idrSpace_succ T S ω j y hy hS
  have h2 : ω (j + 1) • T y ∈ idrSpace T S ω (j + 1) := by
    have := Submodule.sub_mem _ hy' h1
    simpa using this
  have h3 := Submodule.smul_mem _ (ω (j + 1))⁻¹ h2
  rwa [smul_smul, inv_mul_cancel₀ hω, one_smul] at h3

/-- **the Sonneveld spaces are nested** when the `ω`'s used so far are non-zero -/
theorem idrSpace_succ_le (T : V →ₗ[K] V) (S : Submodule K V) (ω : ℕ → K) :
    ∀ j, (∀ i, 1 ≤ i → i ≤ j → ω i ≠ 0) → idrSpace T S ω (j + 1) ≤ idrSpace T S ω j := by
  intro j
  induction j with
  | zero => intro _; exact le_top
  | succ j ih =>
    intro hω
    have ih' := ih (fun i h1 h2 => hω i h1 (by omega))
    intro x hx
    rw [idrSpace_succ] at hx
    obtain ⟨y, ⟨hy, hS⟩, rfl⟩ := hx
    have hyj : y ∈ idrSpace T S ω j := ih' hy
    have hT := T_mem_of_mem T S ω j (hω (j + 1) (by omega) (Nat.le_refl _)) y hyj hS hy
    simp only [LinearMap.sub_apply, LinearMap.id_apply, LinearMap.smul_apply]
    exact Submodule.sub_mem _ hy (Submodule.smul_mem _ _ hT)

/-- nestedness over several steps -/
theorem idrSpace_le_of_le (T : V →ₗ[K] V) (S : Submodule K V) (ω : ℕ → K) (j : ℕ)
    (hω : ∀ i, 1 ≤ i → i ≤ j → ω i ≠ 0) (i : ℕ) (hi : i ≤ j + 1) : idrSpace T S ω (j + 1) ≤ idrSpace T S ω i := by
  induction j with
  | zero =>
    rcases Nat.le_one_iff_eq_zero_or_eq_one.mp hi with h | h
    · subst h; exact le_top
    · subst h; exact le_refl _
  | succ j ih =>
    by_cases h : i = j + 2
    · subst h; exact le_refl _
    · exact le_trans (idrSpace_succ_le T S ω (j + 1) hω) (ih (fun i h1 h2 => hω i h1 (by omega)) (by omega))

variable [FiniteDimensional K V]

/-- **the dimension drops strictly** as long as `G_j ≠ 0`, if `S` contains no non-trivial `T`-invariant subspace -/
theorem idrSpace_finrank_lt (T : V →ₗ[K] V) (S : Submodule K V) (ω : ℕ → K)
    (hgen : ∀ W : Submodule K V, W ≤ S → (∀ x ∈ W, T x ∈ W) → W = ⊥) (j : ℕ)
    (hω : ∀ i, 1 ≤ i → i ≤ j + 1 → ω i ≠ 0) (hne : idrSpace T S ω j ≠ ⊥) :
    finrank K (idrSpace T S ω (j + 1)) < finrank K (idrSpace T S ω j) := by
  have hle := idrSpace_succ_le T S ω j (fun i h1 h2 => hω i h1 (by omega))
  have h1 : finrank K (idrSpace T S ω (j + 1)) ≤ finrank K (idrSpace T S ω j ⊓ S : Submodule K V) := by
    rw [idrSpace_succ]; exact Submodule.finrank_map_le _ _
  have h2 : finrank K (idrSpace T S ω j ⊓ S : Submodule K V) ≤ finrank K (idrSpace T S ω j) :=
    Submodule.finrank_mono inf_le_left
  by_contra hnlt
  have heq : finrank K (idrSpace T S ω j) ≤ finrank K (idrSpace T S ω (j + 1)) := not_lt.mp hnlt
  -- `G_{j+1} = G_j` and `G_j ∩ S = G_j`
  have e1 : idrSpace T S ω (j + 1) = idrSpace T S ω j := Submodule.eq_of_le_of_finrank_le hle heq
  have e2 : idrSpace T S ω j ⊓ S = idrSpace T S ω j :=
    Submodule.eq_of_le_of_finrank_le inf_le_left (le_trans heq h1)
  have hS : idrSpace T S ω j ≤ S := by rw [← e2]; exact inf_le_right
  apply hne
  apply hgen _ hS
  intro x hx
  have := T_mem_of_mem T S ω j (hω (j + 1) (by omega) (Nat.le_refl _)) x hx (hS hx) (by rw [e1]; exact hx)
  rw [e1] at this
  exact this

/-- `dim G_j ≤ dim V − j` -/
theorem idrSpace_finrank_le (T : V →ₗ[K] V) (S : Submodule K V) (ω : ℕ → K)
    (hgen : ∀ W : Submodule K V, W ≤ S → (∀ x ∈ W, T x ∈ W) → W = ⊥) :
    ∀ j, (∀ i, 1 ≤ i → i ≤ j → ω i ≠ 0) → finrank K (idrSpace T S ω j) ≤ finrank K V - j := by
  intro j
  induction j with
  | zero =>
    intro _
    show finrank K (⊤ : Submodule K V) ≤ _
    rw [finrank_top]; omega
  | succ j ih =>
    intro hω
    have ih' := ih (fun i h1 h2 => hω i h1 (by omega))
    by_cases hne : idrSpace T S ω j = ⊥
    · have hle := idrSpace_succ_le T S ω j (fun i h1 h2 => hω i h1 (by omega))
      rw [hne] at hle
      have : idrSpace T S ω (j + 1) = ⊥ := le_bot_iff.mp hle
      rw [this, finrank_bot]; omega
    · have := idrSpace_finrank_lt T S ω hgen j hω hne
      omega

/-- **`G_j = 0` for `j ≥ dim V`** -/
theorem idrSpace_eq_bot (T : V →ₗ[K] V) (S : Submodule K V) (ω : ℕ → K)
    (hgen : ∀ W : Submodule K V, W ≤ S → (∀ x ∈ W, T x ∈ W) → W = ⊥) (j : ℕ)
    (hω : ∀ i, 1 ≤ i → i ≤ j → ω i ≠ 0) (hj : finrank K V ≤ j) : idrSpace T S ω j = ⊥ := by
  have := idrSpace_finrank_le T S ω hgen j hω
  have h0 : finrank K (idrSpace T S ω j) = 0 := by omega
  exact Submodule.finrank_eq_zero.mp h0

end idr
end Amgcl.Krylov
