import Amgcl.Proofs.IOMMRead
/-!
Reading a row range of a MatrixMarket file is the slice of the full read; symmetric storage is expanded
(helper file for C19).
-/
namespace Amgcl.IO
variable {V : Type}

theorem bucket_single_if (c : Prop) [Decidable c] (x : Nat × Int × V) (r : Nat) :
    bucket (if c then [x] else []) r = if c ∧ x.1 = r then [x.2] else [] := by
  by_cases hc : c
  · by_cases hr : x.1 = r <;> simp [bucket, hc, hr]
  · simp [bucket, hc]

/-- row `r` of the range read is row `b + r` of the full read, already before sorting -/
theorem bucket_keep_slice (sym : Bool) (n m b e : Int) (hb : 0 ≤ b) (hen : e ≤ n)
    (es : List (Int × Int × V)) (hes : ∀ x ∈ es, EntryOk n m x) (hsym : sym = true → n = m)
    (r : Nat) (hr : (r : Int) < e - b) :
    bucket (keepEntries sym b e es) r = bucket (keepEntries sym 0 n es) (b.toNat + r) := by
  induction es with
  | nil => rfl
  | cons a t ih =>
    obtain ⟨i, j, v⟩ := a
    have ha : EntryOk n m (i, j, v) := hes _ (by simp)
    unfold EntryOk at ha
    simp only [] at ha
    have iht := ih (fun y hy => hes y (by simp [hy]))
    simp only [keepEntries, bucket_append, bucket_single_if, iht]
    congr 1
    · by_cases h1 : (b ≤ i ∧ i < e) ∧ (i - b).toNat = r
      · rw [if_pos h1, if_pos (by omega)]
      · rw [if_neg h1, if_neg (by omega)]
    · congr 1
      by_cases hs : sym = true
      · have := hsym hs
        by_cases h1 : (sym = true ∧ i ≠ j ∧ b ≤ j ∧ j < e) ∧ (j - b).toNat = r
        · rw [if_pos h1, if_pos ⟨⟨hs, h1.1.2.1, by omega, by omega⟩, by omega⟩]
        · rw [if_neg h1, if_neg (by
            intro h2; apply h1
            exact ⟨⟨hs, h2.1.2.1, by omega, by omega⟩, by omega⟩)]
      · rw [if_neg (fun h => hs h.1.1), if_neg (fun h => hs h.1.1)]

theorem map_range_drop_take {α : Type} (f : Nat → α) (n b k : Nat) (h : b + k ≤ n) :
    (((List.range n).map f).drop b).take k = (List.range k).map (fun r => f (b + r)) := by
  apply List.ext_getElem?
  intro i
  rw [List.getElem?_take, List.getElem?_drop, List.getElem?_map, List.getElem?_map]
  by_cases hi : i < k
  · rw [if_pos hi, List.getElem?_range (by omega), List.getElem?_range hi]; rfl
  · rw [if_neg hi, List.getElem?_eq_none (by simp; omega)]; rfl

theorem rowsOfN_slice (narrow : Int → Int) (sym : Bool) (n m b e : Int) (hb : 0 ≤ b) (hbe : b ≤ e) (hen : e ≤ n)
    (es : List (Int × Int × V)) (hes : ∀ x ∈ es, EntryOk n m x) (hsym : sym = true → n = m) :
    rowsOfN narrow (keepEntries sym b e es) (e - b).toNat
      = ((rowsOfN narrow (keepEntries sym 0 n es) n.toNat).drop b.toNat).take (e - b).toNat := by
  unfold rowsOfN
  rw [List.map_map, List.map_map, map_range_drop_take _ _ _ _ (by omega)]
  apply List.map_congr_left
  intro r hr
  simp only [Function.comp]
  rw [bucket_keep_slice sym n m b e hb hen es hes hsym r (by simp at hr; omega)]

theorem rowsOf_slice (sym : Bool) (n m b e : Int) (hb : 0 ≤ b) (hbe : b ≤ e) (hen : e ≤ n)
    (es : List (Int × Int × V)) (hes : ∀ x ∈ es, EntryOk n m x) (hsym : sym = true → n = m) :
    rowsOf (keepEntries sym b e es) (e - b).toNat
      = ((rowsOf (keepEntries sym 0 n es) n.toNat).drop b.toNat).take (e - b).toNat :=
  rowsOfN_slice wrap32 sym n m b e hb hbe hen es hes hsym

/-- what the body of the repaired reader returns when nothing throws -/
theorem mmSparseBody_eq (memLimit : Nat) (vk : ValKind V) (h : SparseHeader) (b e : Int)
    (hm : 0 ≤ h.m) (hm63 : h.m < 9223372036854775808) (hsym : h.sym = true → h.n = h.m)
    (hb : 0 ≤ b) (hbe : b ≤ e) (hen : e ≤ h.n)
    (hmem : (e - b + 1) * 8 ≤ (memLimit : Int)) (es : List (Int × Int × V))
    (hp : parseEntries true h.n h.m vk h.nnz h.body = .ok es) :
    mmSparseBody true memLimit vk h b e
      = .ok (RawCRS.ofRows (e - b).toNat h.m.toNat (rowsOf (keepEntries h.sym b e es) (e - b).toNat)) := by
  unfold mmSparseBody
  simp only []
  rw [if_neg (by omega), if_neg (by omega), hp]
  simp only []
  rw [if_neg (by omega)]
  have hw : wrapU64 h.m = h.m.toNat := by
    unfold wrapU64; rw [Int.emod_eq_of_lt hm (by omega)]
  rw [hw]
  have hk := keepEntries_ok h.sym h.n h.m b e hb hbe hen hsym es (parseEntries_ok _ _ _ _ _ _ hp)
  exact assemble_eq_ofRows _ _ _ _ (fun x hx => (hk x hx).1)

theorem mmSparseBody_ok_inv (memLimit : Nat) (vk : ValKind V) (h : SparseHeader) (b e : Int) (A : RawCRS V)
    (hA : mmSparseBody true memLimit vk h b e = .ok A) :
    (e - b + 1) * 8 ≤ (memLimit : Int) ∧ ∃ es, parseEntries true h.n h.m vk h.nnz h.body = .ok es := by
  unfold mmSparseBody at hA
  simp only [] at hA
  split at hA
  · contradiction
  split at hA
  · contradiction
  rename_i hmem
  split at hA
  · contradiction
  · contradiction
  · rename_i es hes
    exact ⟨by omega, es, hes⟩

/-- **row-range read = slice of the full read** (sparse MatrixMarket): if the full read of a file succeeds, it
is the CRS of a row list `R`, and reading rows `[b, e)` of the same file returns the CRS of `R[b..e)`. -/
theorem mmReadSparse_range_eq_slice (memLimit : Nat) (vk : ValKind V) (file : Bytes) (F : RawCRS V)
    (hF : mmReadSparse true memLimit vk file (-1) (-1) = .ok F) :
    ∃ R : List (List (Int × V)), R.length = F.nrows ∧ F = RawCRS.ofRows F.nrows F.ncols R ∧
      ∀ b e : Nat, b ≤ e → e ≤ F.nrows →
        mmReadSparse true memLimit vk file b e = .ok (RawCRS.ofRows (e - b) F.ncols ((R.drop b).take (e - b))) := by
  unfold mmReadSparse at hF
  split at hF
  · contradiction
  · contradiction
  rename_i h hh
  obtain ⟨hn, hm, hsym, hm63⟩ := mmSparseHeader_fixed vk file h hh
  have hfull : rowRange true h.n (-1) (-1) = some (0, h.n) := by
    unfold rowRange; simp [hn]
  rw [hfull] at hF
  simp only [] at hF
  obtain ⟨hmem, es, hes⟩ := mmSparseBody_ok_inv memLimit vk h 0 h.n F hF
  have heq := mmSparseBody_eq memLimit vk h 0 h.n hm hm63 hsym (Int.le_refl 0) hn (Int.le_refl _) hmem es hes
  rw [heq] at hF
  injection hF with hF
  simp only [Int.sub_zero] at hF
  subst hF
  refine ⟨rowsOf (keepEntries h.sym 0 h.n es) h.n.toNat, by simp [rowsOf, rowsOfN, RawCRS.ofRows], rfl, ?_⟩
  intro b e hbe hen
  simp only [RawCRS.ofRows] at hen
  unfold mmReadSparse
  rw [hh]
  simp only []
  have hr : rowRange true h.n (b : Int) (e : Int) = some ((b : Int), (e : Int)) := by
    unfold rowRange
    have h1 : ¬ ((b : Int) < 0) := by omega
    have h2 : ¬ ((e : Int) < 0) := by omega
    simp only [h1, h2, if_false]
    rw [if_pos]
    simp
    omega
  rw [hr]
  simp only []
  have hbody := mmSparseBody_eq memLimit vk h b e hm hm63 hsym (by omega) (by omega) (by omega) (by omega) es hes
  rw [hbody]
  have hsl := rowsOf_slice h.sym h.n h.m b e (by omega) (by omega) (by omega) es
    (parseEntries_ok _ _ _ _ _ _ hes) hsym
  rw [hsl]
  simp only [RawCRS.ofRows]
  have e1 : ((e : Int) - (b : Int)).toNat = e - b := by omega
  rw [e1]
  simp

end Amgcl.IO

namespace Amgcl.IO
variable {V : Type}

/-- the general-storage entry list a symmetric-storage list stands for: every off-diagonal entry also mirrored -/
def expandSym : List (Int × Int × V) → List (Int × Int × V)
  | [] => []
  | (i, j, v) :: t => if i ≠ j then (i, j, v) :: (j, i, v) :: expandSym t else (i, j, v) :: expandSym t

/-- reading symmetric storage = reading the expanded entry list as general storage (any row range) -/
theorem keepEntries_sym_eq_expand (b e : Int) (es : List (Int × Int × V)) :
    keepEntries true b e es = keepEntries false b e (expandSym es) := by
  induction es with
  | nil => rfl
  | cons a t ih =>
    obtain ⟨i, j, v⟩ := a
    by_cases hij : i = j
    · subst hij
      simp only [expandSym, ne_eq, not_true_eq_false, if_false, keepEntries, ih]
      simp
    · simp only [expandSym, ne_eq, hij, not_false_eq_true, if_true, keepEntries, ih]
      simp

theorem mem_keepEntries_sym (n m : Int) (es : List (Int × Int × V)) (hes : ∀ x ∈ es, EntryOk n m x) (hnm : n = m)
    (r : Nat) (c : Int) (v : V) :
    (r, c, v) ∈ keepEntries true 0 n es ↔ ((r : Int), c, v) ∈ es ∨ (c, (r : Int), v) ∈ es := by
  induction es with
  | nil => simp [keepEntries]
  | cons a t ih =>
    obtain ⟨i, j, w⟩ := a
    have ha : EntryOk n m (i, j, w) := hes _ (by simp)
    unfold EntryOk at ha
    simp only [] at ha
    have iht := ih (fun y hy => hes y (by simp [hy]))
    simp only [keepEntries, List.mem_append, List.mem_cons, iht]
    have c1 : (0 : Int) ≤ i ∧ i < n := by omega
    have c2 : (0 : Int) ≤ j ∧ j < n := by omega
    rw [if_pos c1]
    by_cases hij : i = j
    · subst hij
      simp only [ne_eq, not_true_eq_false, false_and, and_false, if_false, List.mem_singleton, List.not_mem_nil,
        false_or, Prod.mk.injEq]
      constructor
      · rintro (⟨h1, h2, h3⟩ | h | h)
        · left; left; exact ⟨by omega, h2, h3⟩
        · left; right; exact h
        · right; right; exact h
      · rintro ((⟨h1, h2, h3⟩ | h) | (⟨h1, h2, h3⟩ | h))
        · left; exact ⟨by omega, h2, h3⟩
        · right; left; exact h
        · left; exact ⟨by omega, by omega, h3⟩
        · right; right; exact h
    · rw [if_pos ⟨trivial, hij, c2⟩]
      simp only [List.mem_singleton, Prod.mk.injEq]
      constructor
      · rintro (⟨h1, h2, h3⟩ | ⟨h1, h2, h3⟩ | h | h)
        · left; left; exact ⟨by omega, h2, h3⟩
        · right; left; exact ⟨h2, by omega, h3⟩
        · left; right; exact h
        · right; right; exact h
      · rintro ((⟨h1, h2, h3⟩ | h) | (⟨h1, h2, h3⟩ | h))
        · left; exact ⟨by omega, h2, h3⟩
        · right; right; left; exact h
        · right; left; exact ⟨by omega, h1, h3⟩
        · right; right; right; exact h

theorem mem_rowsOfN (narrow : Int → Int) (kept : List (Nat × Int × V)) (chunk i : Nat) (hi : i < chunk) (x : Int × V) :
    x ∈ (rowsOfN narrow kept chunk).getD i [] ↔ (i, x) ∈ kept := by
  unfold rowsOfN
  have hg : (((List.range chunk).map (bucket kept)).map (sortRowN narrow)).getD i []
      = sortRowN narrow (bucket kept i) := by
    rw [List.getD_eq_getElem?_getD, List.getElem?_map, List.getElem?_map, List.getElem?_range hi]
    rfl
  rw [hg, (sortRowN_perm narrow _).mem_iff]
  unfold bucket
  rw [List.mem_map]
  constructor
  · rintro ⟨e, he, rfl⟩
    have := List.mem_filter.mp he
    have h1 : e.1 = i := by simpa using this.2
    rw [← h1]; exact this.1
  · intro h
    exact ⟨(i, x), List.mem_filter.mpr ⟨h, by simp⟩, rfl⟩

/-- **symmetric storage is expanded to the full matrix**: the full read of a symmetric-storage file contains, in
row `i`, exactly the file's entries `(i, j, v)` and the mirrors of its entries `(j, i, v)`; in particular the
result is a symmetric matrix. -/
theorem mmReadSparse_symmetric (memLimit : Nat) (vk : ValKind V) (file : Bytes) (h : SparseHeader) (F : RawCRS V)
    (hh : mmSparseHeader true vk file = .ok h) (hs : h.sym = true)
    (hF : mmReadSparse true memLimit vk file (-1) (-1) = .ok F) :
    ∃ (es : List (Int × Int × V)) (R : List (List (Int × V))),
      parseEntries true h.n h.m vk h.nnz h.body = .ok es ∧ F = RawCRS.ofRows h.n.toNat h.n.toNat R ∧
      (∀ (i : Nat) (j : Int) (v : V), (i : Int) < h.n →
        ((j, v) ∈ R.getD i [] ↔ ((i : Int), j, v) ∈ es ∨ (j, (i : Int), v) ∈ es)) ∧
      (∀ (i j : Nat) (v : V), (i : Int) < h.n → (j : Int) < h.n →
        (((j : Int), v) ∈ R.getD i [] ↔ ((i : Int), v) ∈ R.getD j [])) := by
  obtain ⟨hn, hm, hsym, hm63⟩ := mmSparseHeader_fixed vk file h hh
  have hnm := hsym hs
  unfold mmReadSparse at hF
  rw [hh] at hF
  simp only [] at hF
  have hfull : rowRange true h.n (-1) (-1) = some (0, h.n) := by
    unfold rowRange; simp [hn]
  rw [hfull] at hF
  simp only [] at hF
  obtain ⟨hmem, es, hes⟩ := mmSparseBody_ok_inv memLimit vk h 0 h.n F hF
  have heq := mmSparseBody_eq memLimit vk h 0 h.n hm hm63 hsym (Int.le_refl 0) hn (Int.le_refl _) hmem es hes
  rw [heq] at hF
  injection hF with hF
  simp only [Int.sub_zero] at hF
  have hrow : ∀ (i : Nat) (j : Int) (v : V), (i : Int) < h.n →
      ((j, v) ∈ (rowsOf (keepEntries h.sym 0 h.n es) h.n.toNat).getD i [] ↔
        ((i : Int), j, v) ∈ es ∨ (j, (i : Int), v) ∈ es) := by
    intro i j v hi
    unfold rowsOf
    rw [mem_rowsOfN wrap32 _ _ i (by omega), hs]
    exact mem_keepEntries_sym h.n h.m es (parseEntries_ok _ _ _ _ _ _ hes) hnm i j v
  refine ⟨es, rowsOf (keepEntries h.sym 0 h.n es) h.n.toNat, hes, ?_, hrow, ?_⟩
  · rw [← hF, ← hnm]
  · intro i j v hi hj
    rw [hrow i j v hi, hrow j i v hj]
    exact Or.comm

end Amgcl.IO
