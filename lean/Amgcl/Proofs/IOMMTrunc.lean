import Amgcl.Proofs.IOMMDense
/-!
Files with fewer data lines than announced make the MatrixMarket readers throw (helper file for C19).
-/
namespace Amgcl.IO
variable {V : Type}

theorem parseEntries_short (fixed : Bool) (n m : Int) (vk : ValKind V) (k : Nat) (lines : List Bytes)
    (h : lines.length < k) : parseEntries fixed n m vk k lines = .error := by
  induction k generalizing lines with
  | zero => omega
  | succ k ih =>
    cases lines with
    | nil => rfl
    | cons l ls =>
      simp only [parseEntries]
      rw [ih ls (by simp at h; omega)]
      split
      · rfl
      · rfl
      · rename_i h'; exact absurd h' (parseEntry_ne_oob _ _ _ _ _)

theorem mmSparseBody_short (fixed : Bool) (memLimit : Nat) (vk : ValKind V) (h : SparseHeader) (b e : Int)
    (hs : h.body.length < h.nnz) : mmSparseBody fixed memLimit vk h b e = .error := by
  unfold mmSparseBody
  simp only []
  rw [parseEntries_short fixed h.n h.m vk h.nnz h.body hs]
  split
  · rfl
  · split <;> rfl

/-- a sparse file that ends before its last announced data line is rejected, whatever row range is requested -/
theorem mmReadSparse_short (fixed : Bool) (memLimit : Nat) (vk : ValKind V) (file : Bytes) (h : SparseHeader)
    (rb re : Int) (hh : mmSparseHeader fixed vk file = .ok h) (hs : h.body.length < h.nnz) :
    mmReadSparse fixed memLimit vk file rb re = .error := by
  unfold mmReadSparse
  rw [hh]
  simp only []
  split
  · rfl
  · exact mmSparseBody_short fixed memLimit vk h _ _ hs

theorem denseCells_short (vk : ValKind V) (n m b e : Int) (rem k : Nat) (lines : List Bytes)
    (h : lines.length < rem) : denseCells vk n m b e rem k lines = .error := by
  induction rem generalizing k lines with
  | zero => omega
  | succ r ih =>
    cases lines with
    | nil => rfl
    | cons l ls =>
      simp only [denseCells]
      rw [ih (k + 1) ls (by simp at h; omega)]
      split
      · split <;> rfl
      · rfl

/-- a dense file that ends before its last data line is rejected, whatever row range is requested -/
theorem mmReadDense_short (fixed : Bool) (memLimit : Nat) (vk : ValKind V) (file : Bytes) (h : DenseHeader)
    (rb re : Int) (hh : mmDenseHeader fixed vk file = .ok h) (hs : h.body.length < (h.n * h.m).toNat) :
    mmReadDense fixed memLimit vk file rb re = .error := by
  unfold mmReadDense
  rw [hh]
  simp only []
  split
  · rfl
  · unfold mmDenseBody
    simp only []
    rw [denseCells_short vk h.n h.m _ _ _ 0 h.body hs]
    split
    · rfl
    · split <;> rfl

theorem wrap32_id (L : Int) (h0 : 0 ≤ L) (h1 : L < 2147483648) : wrap32 L = L := by
  unfold wrap32
  simp only []
  split <;> omega

end Amgcl.IO
