import Amgcl.Proofs.SchedExec
import Mathlib.Tactic.Ring
/-!
Instantiation of `exec_eq_serial` for the two kernels: the row bodies of `sweep`/`solve` are local updates,
the level functions respect their dependencies, and (in a commutative ring) the in-place loop of `serial_solve`
computes the same row value as the accumulate-then-subtract loop of `sptr_solve::solve`.
-/
namespace Amgcl.Sched

theorem pattern_size {K : Type} (A : CRS K) : (pattern A).size = A.nrows := by
  simp [pattern, CRS.nrows]

theorem pattern_getD {K : Type} (A : CRS K) (i : Nat) : (pattern A).getD i [] = (A.row i).map Prod.fst := by
  unfold pattern CRS.row
  by_cases h : i < A.rows.size
  · simp [Array.getD, h]
  · simp [Array.getD, h]

theorem foldl_congr_mem {α β : Type} (f g : β → α → β) (l : List α) (h : ∀ s a, a ∈ l → f s a = g s a) (s : β) :
    l.foldl f s = l.foldl g s := by
  induction l generalizing s with
  | nil => rfl
  | cons a t ih =>
    simp only [List.foldl_cons]
    rw [h s a List.mem_cons_self]
    exact ih (fun s b hb => h s b (List.mem_cons_of_mem _ hb)) _

/-! ### the row bodies are local -/
section localUpd
set_option linter.unusedSectionVars false
variable {K : Type} [Add K] [Mul K] [Sub K] [Zero K] [One K] [Div K]

theorem gsRow_local (A : CRS K) (rhs : Vec K) : LocalUpd (gsRow A rhs) (fun i => (pattern A).getD i []) := by
  refine ⟨gsVal A rhs, fun _ _ => rfl, ?_⟩
  intro x y i _ hreads
  unfold gsVal gsScan
  have : ∀ (DX : K × K) (cv : Nat × K), cv ∈ A.row i →
      (if cv.1 = i then (cv.2, DX.2) else (DX.1, DX.2 - cv.2 * x.getD cv.1 0))
        = (if cv.1 = i then (cv.2, DX.2) else (DX.1, DX.2 - cv.2 * y.getD cv.1 0)) := by
    intro DX cv hcv
    rw [hreads cv.1 (by rw [pattern_getD]; exact List.mem_map_of_mem hcv)]
  rw [foldl_congr_mem _ _ _ this]

theorem iluRow_local (lower : Bool) (A : CRS K) (D : Vec K) :
    LocalUpd (iluRow lower A D) (fun i => (pattern A).getD i []) := by
  refine ⟨iluVal lower A D, fun _ _ => rfl, ?_⟩
  intro x y i hi hreads
  unfold iluVal rowDot
  have : ∀ (s : K) (cv : Nat × K), cv ∈ A.row i → s + cv.2 * x.getD cv.1 0 = s + cv.2 * y.getD cv.1 0 := by
    intro s cv hcv
    rw [hreads cv.1 (by rw [pattern_getD]; exact List.mem_map_of_mem hcv)]
  rw [foldl_congr_mem _ _ _ this, hi]

end localUpd

/-! ### the level functions respect the dependencies -/

/-- every stored entry of row `i` belongs to a row visited before `i` (strictly lower triangular for
`lower = true`, strictly upper triangular for `lower = false`) -/
def StrictTri (lower : Bool) (P : Pattern) : Prop := ∀ i, i < P.size → ∀ c ∈ P.getD i [], before lower c i = true

/-- `c ∈ row i → i ∈ row c` -/
def StructSymm (P : Pattern) : Prop := ∀ i, i < P.size → ∀ c ∈ P.getD i [], c < P.size → i ∈ P.getD c []

theorem iluLevels_size (lower : Bool) (P : Pattern) : (iluLevels lower P).size = P.size := levelsGen_size _ _ _ _
theorem gsLevels_size (fwd : Bool) (P : Pattern) : (gsLevels fwd P).size = P.size := levelsGen_size _ _ _ _
theorem gsLevelsAsIs_size (fwd : Bool) (P : Pattern) : (gsLevelsAsIs fwd P).size = P.size := levelsGen_size _ _ _ _

theorem ilu_sound (lower : Bool) (P : Pattern) (h : StrictTri lower P) :
    Sound (fun _ _ => true) (fun _ _ => false) P lower :=
  ⟨fun j hj c hc _ => h j hj c hc, fun _ _ _ _ h => by cases h⟩

theorem gs_sound (fwd : Bool) (P : Pattern) : Sound (before fwd) (fun c i => before fwd i c) P fwd :=
  ⟨fun _ _ _ _ h => h, fun _ _ _ _ h => h⟩

theorem gsAsIs_sound (fwd : Bool) (P : Pattern) : Sound (before fwd) (fun _ _ => false) P fwd :=
  ⟨fun _ _ _ _ h => h, fun _ _ _ _ h => by cases h⟩

theorem iluLevels_respects (lower : Bool) (P : Pattern) (h : StrictTri lower P) :
    RespectsDeps (fun i => P.getD i []) lower (iluLevels lower P) := by
  intro i hi c hc hcN _
  rw [iluLevels_size] at hi hcN
  constructor
  · intro _
    exact (levelsGen_dep _ _ lower P (ilu_sound lower P h) i hi c hc hcN).1 rfl
  · intro hb
    have := h i hi c hc
    rw [before_asymm lower i c hb] at this
    cases this

theorem gsLevels_respects (fwd : Bool) (P : Pattern) :
    RespectsDeps (fun i => P.getD i []) fwd (gsLevels fwd P) := by
  intro i hi c hc hcN _
  rw [gsLevels_size] at hi hcN
  exact levelsGen_dep _ _ fwd P (gs_sound fwd P) i hi c hc hcN

theorem gsLevelsAsIs_respects (fwd : Bool) (P : Pattern) (hsym : StructSymm P) :
    RespectsDeps (fun i => P.getD i []) fwd (gsLevelsAsIs fwd P) := by
  intro i hi c hc hcN _
  rw [gsLevelsAsIs_size] at hi hcN
  constructor
  · exact (levelsGen_dep _ _ fwd P (gsAsIs_sound fwd P) i hi c hc hcN).1
  · intro hb
    exact (levelsGen_dep _ _ fwd P (gsAsIs_sound fwd P) c hcN i (hsym i hi c hc hcN) hi).1 hb

/-! ### `serial_solve` updates `x[i]` in place, `sptr_solve::solve` accumulates first -/
section serial
variable {K : Type} [CommRing K]

theorem foldl_sub_eq (row : Row K) (x : Vec K) (a s : K) :
    row.foldl (fun a cv => a - cv.2 * x.getD cv.1 0) (a - s)
      = a - row.foldl (fun s cv => s + cv.2 * x.getD cv.1 0) s := by
  induction row generalizing s with
  | nil => rfl
  | cons cv t ih =>
    simp only [List.foldl_cons]
    rw [← ih]
    congr 1; ring

theorem inplace_foldl (row : Row K) (x : Vec K) (i : Nat) (hi : i < x.size) (hni : ∀ cv ∈ row, cv.1 ≠ i) (a : K) :
    row.foldl (fun (x : Vec K) cv => x.setIfInBounds i (x.getD i 0 - cv.2 * x.getD cv.1 0)) (x.setIfInBounds i a)
      = x.setIfInBounds i (row.foldl (fun a cv => a - cv.2 * x.getD cv.1 0) a) := by
  induction row generalizing a with
  | nil => rfl
  | cons cv t ih =>
    simp only [List.foldl_cons]
    have hc : cv.1 ≠ i := hni cv List.mem_cons_self
    rw [getD_set_eq _ _ _ _ hi, getD_set_ne _ _ _ _ _ hc, Array.setIfInBounds_setIfInBounds]
    exact ih (fun c hc' => hni c (List.mem_cons_of_mem _ hc')) _

theorem set_getD_self (x : Vec K) (i : Nat) : x.setIfInBounds i (x.getD i 0) = x := by
  by_cases hi : i < x.size
  · apply Array.ext (by simp)
    intro j h1 h2
    by_cases hji : j = i
    · subst hji; simp [Array.getD, hi]
    · rw [Array.getElem_setIfInBounds_ne h2 (Ne.symm hji)]
  · simp [Array.setIfInBounds, hi]

/-- one row of `serial_solve` equals one row of `sptr_solve::solve` when the row has no diagonal entry -/
theorem iluRowSerial_eq (lower : Bool) (A : CRS K) (D : Vec K) (x : Vec K) (i : Nat)
    (hni : ∀ cv ∈ A.row i, cv.1 ≠ i) : iluRowSerial lower A D x i = iluRow lower A D x i := by
  by_cases hi : i < x.size
  · have h := inplace_foldl (A.row i) x i hi hni (x.getD i 0)
    rw [set_getD_self] at h
    have h0 : (A.row i).foldl (fun a cv => a - cv.2 * x.getD cv.1 0) (x.getD i 0) = x.getD i 0 - rowDot (A.row i) x := by
      have := foldl_sub_eq (A.row i) x (x.getD i 0) 0
      rw [sub_zero] at this
      exact this
    unfold iluRowSerial iluRow iluVal
    simp only [h, h0]
    cases lower
    · simp [getD_set_eq _ _ _ _ hi, Array.setIfInBounds_setIfInBounds]
    · simp
  · -- outside the vector nothing is written on either side
    have hset : ∀ (y : Vec K) (v : K), y.size = x.size → y.setIfInBounds i v = y := by
      intro y v hy; simp [Array.setIfInBounds, hy ▸ hi]
    have hfold : ∀ (row : Row K) (y : Vec K), y.size = x.size →
        row.foldl (fun (x : Vec K) cv => x.setIfInBounds i (x.getD i 0 - cv.2 * x.getD cv.1 0)) y = y := by
      intro row
      induction row with
      | nil => intro y _; rfl
      | cons cv t ih => intro y hy; simp only [List.foldl_cons]; rw [hset y _ hy]; exact ih y hy
    unfold iluRowSerial iluRow
    simp only [hfold (A.row i) x rfl]
    cases lower <;> simp [hset x _ rfl]

theorem iluSerialHalf_eq_rowwise (lower : Bool) (A : CRS K) (D : Vec K) (hA : StrictTri lower (pattern A)) (x : Vec K) :
    iluSerialHalf lower A D x = runRows (iluRow lower A D) (rowOrder lower A.nrows) x := by
  unfold iluSerialHalf runRows
  generalize hl : rowOrder lower A.nrows = l
  have hmem : ∀ i ∈ l, i < A.nrows := fun i hi => (mem_rowOrder lower A.nrows i).mp (hl ▸ hi)
  clear hl
  induction l generalizing x with
  | nil => rfl
  | cons i t ih =>
    simp only [List.foldl_cons]
    have hi := hmem i List.mem_cons_self
    rw [iluRowSerial_eq lower A D x i]
    · exact ih _ (fun j hj => hmem j (List.mem_cons_of_mem _ hj))
    · intro cv hcv h
      have := hA i (by rw [pattern_size]; exact hi) cv.1 (by rw [pattern_getD]; exact List.mem_map_of_mem hcv)
      rw [h] at this
      unfold before at this; cases lower <;> simp at this

end serial

end Amgcl.Sched
