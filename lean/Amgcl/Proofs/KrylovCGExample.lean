import Amgcl.Proofs.KrylovCGModel
import Amgcl.Model.Rsqrt
import Mathlib.Algebra.Order.Field.Rat
import Mathlib.Tactic.FinCases
import Mathlib.Tactic.NormNum
/-!
# The concrete system used for the non-vacuity examples of `Properties/C05b.lean` (CG part)

`A₃ = [[4,-1,0],[-1,3,-1],[0,-1,2]]` (SPD), Jacobi preconditioner `M₃ = diag(1/4, 1/3, 1/2)` as an explicit matrix
preconditioner, `f₃ = A₃·(1,1,1) = (3,1,1)`, `x₃ = (1,0,0)`, the executable `rsqrt`; every hypothesis of the CG theorems
is discharged here (`hA₃ … hnb₃`).
-/
namespace Amgcl.Krylov.Ex3
open Amgcl Amgcl.Solver Amgcl.Krylov Amgcl.Energy.Bridge Matrix

def A₃ : CRS ℚ := ⟨3, #[[(0, 4), (1, -1)], [(0, -1), (1, 3), (2, -1)], [(1, -1), (2, 2)]]⟩
def M₃ : CRS ℚ := ⟨3, #[[(0, 1/4)], [(1, 1/3)], [(2, 1/2)]]⟩
def P₃ : Vec ℚ → Vec ℚ := fun v => spmv 1 M₃ v 0 #[]
def Pl₃ : (Fin 3 → ℚ) →ₗ[ℚ] (Fin 3 → ℚ) := Matrix.mulVecLin (matOf M₃ 3 3)
def f₃ : Vec ℚ := #[3, 1, 1]
def x₃ : Vec ℚ := #[1, 0, 0]
def prm₃ : CG.Params ℚ := { maxiter := 5, tol := 0, abstol := 0, nsSearch := false }

theorem hA₃ : A₃.WF := by decide
theorem hsym₃ : ∀ i, i < 3 → ∀ j, j < 3 → A₃.get i j = A₃.get j i := by decide +kernel
theorem hP₃ : PDenotes 3 P₃ Pl₃ := pDenotes_spmv M₃ (by decide) 3 rfl rfl #[]
theorem hPsym₃ : ∀ u v, Pl₃ u ⬝ᵥ v = u ⬝ᵥ Pl₃ v :=
  fun u v => matOf_selfAdjoint M₃ 3 (by decide +kernel) u v

theorem matA₃ : matOf A₃ 3 3 = !![4, -1, 0; -1, 3, -1; 0, -1, 2] := by
  ext i j; fin_cases i <;> fin_cases j <;> decide +kernel
theorem matM₃ : matOf M₃ 3 3 = !![1/4, 0, 0; 0, 1/3, 0; 0, 0, 1/2] := by
  ext i j; fin_cases i <;> fin_cases j <;> decide +kernel

theorem energy₃ (v : Fin 3 → ℚ) :
    energyOf 3 A₃ v = 3 * v 0 ^ 2 + (v 0 - v 1) ^ 2 + v 1 ^ 2 + (v 1 - v 2) ^ 2 + v 2 ^ 2 := by
  unfold energyOf
  rw [matA₃]
  simp [mulVec, dotProduct, Fin.sum_univ_three]
  ring

theorem hApd₃ : ∀ v : Fin 3 → ℚ, v ≠ 0 → 0 < energyOf 3 A₃ v := by
  intro v hv
  rw [energy₃]
  have h0 := sq_nonneg (v 0); have h1 := sq_nonneg (v 1); have h2 := sq_nonneg (v 2)
  have h3 := sq_nonneg (v 0 - v 1); have h4 := sq_nonneg (v 1 - v 2)
  by_contra hle
  have e0 : v 0 ^ 2 = 0 := by linarith
  have e1 : v 1 ^ 2 = 0 := by linarith
  have e2 : v 2 ^ 2 = 0 := by linarith
  apply hv
  funext i
  fin_cases i
  · exact pow_eq_zero_iff (two_ne_zero) |>.mp e0
  · exact pow_eq_zero_iff (two_ne_zero) |>.mp e1
  · exact pow_eq_zero_iff (two_ne_zero) |>.mp e2

theorem hPpd₃ : ∀ v : Fin 3 → ℚ, v ≠ 0 → 0 < v ⬝ᵥ Pl₃ v := by
  intro v hv
  have e : v ⬝ᵥ Pl₃ v = v 0 ^ 2 / 4 + v 1 ^ 2 / 3 + v 2 ^ 2 / 2 := by
    show v ⬝ᵥ (matOf M₃ 3 3 *ᵥ v) = _
    rw [matM₃]
    simp [mulVec, dotProduct, Fin.sum_univ_three]
    ring
  rw [e]
  have h0 := sq_nonneg (v 0); have h1 := sq_nonneg (v 1); have h2 := sq_nonneg (v 2)
  by_contra hle
  have e0 : v 0 ^ 2 = 0 := by linarith
  have e1 : v 1 ^ 2 = 0 := by linarith
  have e2 : v 2 ^ 2 = 0 := by linarith
  apply hv
  funext i
  fin_cases i
  · exact pow_eq_zero_iff (two_ne_zero) |>.mp e0
  · exact pow_eq_zero_iff (two_ne_zero) |>.mp e1
  · exact pow_eq_zero_iff (two_ne_zero) |>.mp e2

theorem hxs₃ : matOf A₃ 3 3 *ᵥ ![1, 1, 1] = vecOf 3 f₃ := by
  rw [matA₃]
  funext i
  fin_cases i <;> simp [mulVec, dotProduct, Fin.sum_univ_three, vecOf, f₃] <;> norm_num

/-- no breakdown in the three passes of this run (evaluated by the kernel) -/
theorem hnb₃ : ModelNoBreakdown (cgPass Amgcl.rsqrt A₃ P₃ (CG.Work.fresh 3) f₃ x₃ 0) 3 := by
  unfold ModelNoBreakdown; decide +kernel

theorem hp₃ (m : ℕ) : prologue ({ prm₃ with maxiter := m } : CG.Params ℚ).nsSearch stdIp Amgcl.rsqrt 0 f₃
    = .go (nrm stdIp Amgcl.rsqrt f₃) :=
  (prologue_go _ _ _ _ _ _).mpr (Or.inr ⟨by decide +kernel, rfl⟩)


end Amgcl.Krylov.Ex3
