import Amgcl.Proofs.KrylovGMRESRun
import Amgcl.Proofs.SolverFGMRES
/-!
# FGMRES: least-squares meaning of one restart cycle, for an ARBITRARY preconditioner function (C05)

The Arnoldi–Givens process of `Model/SolverFGMRES.lean` IS the one of right-preconditioned GMRES on the same work arrays
(`vnew = A (P v_j)`, the same `hessStep`): `fsim` shows that the inner-loop state of FGMRES after `j` passes and the
inner-loop state of `GMRES.step .right` started from `toG st` agree in `j, iter, inner_res, H, s, cs, sn, v`, and that
the additional vectors FGMRES keeps are `z_i = P v_i`.  FGMRES then updates `x += Σ y_i z_i` (no preconditioner
application to a linear combination), so NOTHING is assumed about `P` except that it returns vectors of length `n`:

* `fcycle_ls`        `‖f − A (x₀ + Σ_{i<j} y_i z_i)‖² = Σ_{a<j} (s_a − (R y)_a)² + s_j²` for every `y`;
* `fcycle_residual`  the iterate `x_j` after `j ≥ 1` passes has `‖f − A x_j‖² = s_j²`;
* `fcycle_minimal`   `x_j` minimises `‖f − A x‖` over `x₀ + span{z_0..z_{j-1}}`;
* `fcycle_antitone`  `‖f − A x_{j+1}‖² ≤ ‖f − A x_j‖²`.

The root hypotheses and the breakdown test are those of the simulating GMRES run (`RootsExact .right … (toG st) j`,
`arnoldiNorm .right … (toG st) i`): the numbers the two loops apply `sqrt` to are the same.
-/
set_option linter.unusedSectionVars false
set_option linter.unusedVariables false
namespace Amgcl.Krylov
open Amgcl Amgcl.Solver Amgcl.Energy.Bridge Matrix Finset

/-! ### the abstract least-squares identity -/
section la
variable {K : Type} [Field K] {n : ℕ}

theorem ls_abstract {j : ℕ} (V : ℕ → Fin n → K)
    (hV : ∀ a b, a < j + 1 → b < j + 1 → V a ⬝ᵥ V b = if a = b then 1 else 0)
    {cs sn : ℕ → K} {H Ht : ℕ → ℕ → K} {s : ℕ → K} {β : K} (hg : GivensRel j cs sn H Ht s β) (y : ℕ → K) :
    (β • V 0 - ∑ i ∈ range j, y i • ∑ k ∈ range (i + 2), Ht k i • V k)
      ⬝ᵥ (β • V 0 - ∑ i ∈ range j, y i • ∑ k ∈ range (i + 2), Ht k i • V k)
    = ∑ a ∈ range j, (s a - ∑ i ∈ Ico a j, H a i * y i) * (s a - ∑ i ∈ Ico a j, H a i * y i) + s j * s j := by
  rw [← hres_expand, orthonormal_sum_sq (j + 1) V hV]
  exact givens_ls hg y

end la

/-! ### the simulation -/
section sim
variable {K : Type} [Field K] [DecidableEq K] [LT K] [DecidableLT K]

/-- the right-preconditioned GMRES outer state on the same arrays (`r` := the residual FGMRES keeps in `v[0]`) -/
def toG (st : FGMRES.St K) : GMRES.St K := ⟨st.iter, st.normR, st.x, ⟨st.w.h, st.w.v.get 0, st.w.v⟩⟩

/-- the FGMRES inner-loop state after `j` passes -/
def fInnerPass (sqrt : K → K) (A : CRS K) (P : Vec K → Vec K) (st : FGMRES.St K) (j : ℕ) : FGMRES.In K :=
  (FGMRES.step stdIp sqrt A P)^[j] (FGMRES.cycleStart st)

theorem fInnerPass_succ (sqrt : K → K) (A : CRS K) (P : Vec K → Vec K) (st : FGMRES.St K) (j : ℕ) :
    fInnerPass sqrt A P st (j + 1) = FGMRES.step stdIp sqrt A P (fInnerPass sqrt A P st j) := by
  unfold fInnerPass; rw [Function.iterate_succ_apply']

/-- the simulation relation -/
structure FSim (P : Vec K → Vec K) (tF : FGMRES.In K) (tG : GMRES.In K) : Prop where
  j : tF.j = tG.j
  iter : tF.iter = tG.iter
  res : tF.innerRes = tG.innerRes
  h : tF.w.h = tG.w.h
  v : tF.w.v = tG.w.v
  z : ∀ i, i < tF.j → tF.w.z.get i = P (tG.w.v.get i)

theorem fsim_start (P : Vec K → Vec K) (st : FGMRES.St K) :
    FSim P (FGMRES.cycleStart st) (GMRES.cycleStart (toG st)) :=
  ⟨rfl, rfl, rfl, rfl, rfl, fun i hi => absurd hi (Nat.not_lt_zero i)⟩

theorem fsim_step (sqrt : K → K) (A : CRS K) (P : Vec K → Vec K) (tF : FGMRES.In K) (tG : GMRES.In K)
    (h : FSim P tF tG) : FSim P (FGMRES.step stdIp sqrt A P tF) (GMRES.step .right stdIp sqrt A P tG) := by
  obtain ⟨jF, iF, rF, ⟨hF, vF, zF⟩⟩ := tF
  obtain ⟨jG, iG, rG, ⟨hG, rr, vG⟩⟩ := tG
  obtain ⟨h1, h2, h3, h4, h5, h6⟩ := h
  simp only at h1 h2 h3 h4 h5 h6
  subst h1 h2 h3 h4 h5
  refine ⟨rfl, rfl, rfl, rfl, rfl, ?_⟩
  intro i hi
  show (setF zF jF (P (vF.get jF))).get i = P ((setF vF (jF + 1) _).get i)
  have hi' : i < jF + 1 := hi
  rw [setF_get, setF_other _ _ _ _ (by omega)]
  by_cases hij : i = jF
  · rw [if_pos hij, hij]
  · rw [if_neg hij]; exact h6 i (by omega)

/-- **FGMRES runs the Arnoldi–Givens process of right-preconditioned GMRES** -/
theorem fsim (sqrt : K → K) (A : CRS K) (P : Vec K → Vec K) (st : FGMRES.St K) (j : ℕ) :
    FSim P (fInnerPass sqrt A P st j) (innerPass .right sqrt A P (toG st) j) := by
  induction j with
  | zero => exact fsim_start P st
  | succ j ih => rw [fInnerPass_succ, innerPass_succ]; exact fsim_step sqrt A P _ _ ih

end sim

/-! ### the cycle -/
section main
variable {K : Type} [Field K] [LinearOrder K] [IsStrictOrderedRing K]

/-- a state at the `break` test of the FGMRES outer loop whose residual is non-zero -/
structure FCycleStart (sqrt : K → K) (A : CRS K) (f : Vec K) (st : FGMRES.St K) : Prop where
  r : st.w.v.get 0 = residual f A st.x
  normR : st.normR = nrmA stdIp sqrt (st.w.v.get 0)
  ne : st.normR ≠ 0

/-- every state of the FGMRES outer loop is produced by `head` -/
theorem fcycleStart_head (sqrt : K → K) (A : CRS K) (f : Vec K) (st' : FGMRES.St K)
    (hne : (FGMRES.head stdIp sqrt A f st').normR ≠ 0) : FCycleStart sqrt A f (FGMRES.head stdIp sqrt A f st') := by
  refine ⟨?_, ?_, hne⟩
  · rw [FGMRES.head_r, FGMRES.head_x]
  · rw [FGMRES.head_normR, FGMRES.head_r]

/-- the `x` the FGMRES cycle would return if the inner loop ended after `j` passes -/
def fCycleIterate (sqrt : K → K) (A : CRS K) (P : Vec K → Vec K) (st : FGMRES.St K) (j : ℕ) : Vec K :=
  (FGMRES.update st (fInnerPass sqrt A P st j)).x

/-- the inner `do … while` of the FGMRES model ends in `fInnerPass … j` for its own pass count `j ≥ 1`, and the cycle
returns `fCycleIterate … j` -/
theorem finner_eq (prm : FGMRES.Params K) (sqrt : K → K) (A : CRS K) (P : Vec K → Vec K) (epsT : K)
    (st : FGMRES.St K) :
    FGMRES.inner prm stdIp sqrt A P epsT st = fInnerPass sqrt A P st (FGMRES.inner prm stdIp sqrt A P epsT st).j ∧
    1 ≤ (FGMRES.inner prm stdIp sqrt A P epsT st).j ∧
    (FGMRES.cycle prm stdIp sqrt A P epsT st).x
      = (FGMRES.update st (fInnerPass sqrt A P st (FGMRES.inner prm stdIp sqrt A P epsT st).j)).x := by
  have hge : 1 ≤ (FGMRES.inner prm stdIp sqrt A P epsT st).j := by
    unfold FGMRES.inner
    apply doWhile_inv _ _ (fun t : FGMRES.In K => 1 ≤ t.j)
    · show 1 ≤ 0 + 1; omega
    · intro t ht _; rw [FGMRES.step_j]; omega
  have hit := loopN_iterate (FGMRES.cont prm.maxiter prm.M epsT) (FGMRES.step stdIp sqrt A P) FGMRES.In.j
    (FGMRES.step_j stdIp sqrt A P) prm.M (FGMRES.step stdIp sqrt A P (FGMRES.cycleStart st))
  have h1 : (FGMRES.step stdIp sqrt A P (FGMRES.cycleStart st)).j = 1 := rfl
  rw [h1] at hit
  have hdef : FGMRES.inner prm stdIp sqrt A P epsT st
      = loopN (FGMRES.cont prm.maxiter prm.M epsT) (FGMRES.step stdIp sqrt A P) prm.M
          (FGMRES.step stdIp sqrt A P (FGMRES.cycleStart st)) := rfl
  rw [← hdef] at hit
  have heq : FGMRES.inner prm stdIp sqrt A P epsT st
      = fInnerPass sqrt A P st (FGMRES.inner prm stdIp sqrt A P epsT st).j := by
    obtain ⟨m, hm⟩ : ∃ m, (FGMRES.inner prm stdIp sqrt A P epsT st).j = m + 1 :=
      ⟨_, (Nat.sub_add_cancel hge).symm⟩
    rw [hm, Nat.add_sub_cancel] at hit
    rw [hm]
    unfold fInnerPass
    rw [Function.iterate_succ_apply]
    exact hit
  refine ⟨heq, hge, ?_⟩
  unfold FGMRES.cycle
  rw [← heq]

/-- the `inner_res` of the FGMRES loop state after `j+1` passes is `|s_{j+1}|` -/
theorem fInnerPass_innerRes (sqrt : K → K) (A : CRS K) (P : Vec K → Vec K) (st : FGMRES.St K) (j : ℕ) :
    (fInnerPass sqrt A P st (j + 1)).innerRes = Solver.absK ((fInnerPass sqrt A P st (j + 1)).w.h.s.get (j + 1)) := by
  rw [(fsim sqrt A P st (j + 1)).res, (fsim sqrt A P st (j + 1)).h]
  exact innerPass_innerRes .right sqrt A P (toG st) j

variable (n : ℕ) (A : CRS K) (hA : A.WF) (hn : A.nrows = n) (hm : A.ncols = n)
  (P : Vec K → Vec K) (hPsz : ∀ u, (P u).size = n) (sqrt : K → K) (f : Vec K) (st : FGMRES.St K)
  (hst : FCycleStart sqrt A f st) (hx : st.x.size = n)
include hA hn hm hPsz hst hx

/-- the Arnoldi basis of the cycle (from the simulating GMRES run; no linearity of `P`) -/
theorem fcycle_basis (j : ℕ) (hroots : RootsExact .right sqrt A P (toG st) j)
    (hnb : ∀ i, i < j → arnoldiNorm .right sqrt A P (toG st) i ≠ 0) :
    (∀ a, a ≤ j → ((fInnerPass sqrt A P st j).w.v.get a).size = n) ∧
    (∀ a b, a ≤ j → b ≤ j → vecOf n ((fInnerPass sqrt A P st j).w.v.get a)
        ⬝ᵥ vecOf n ((fInnerPass sqrt A P st j).w.v.get b) = if a = b then 1 else 0) ∧
    (∀ i, i < j → matOf A n n *ᵥ vecOf n ((fInnerPass sqrt A P st j).w.z.get i)
        = ∑ k ∈ range (i + 2), hTilde .right sqrt A P (toG st) j k i • vecOf n ((fInnerPass sqrt A P st j).w.v.get k)) ∧
    vecOf n (residual f A st.x) = st.normR • vecOf n ((fInnerPass sqrt A P st j).w.v.get 0) := by
  have hcA : ColsLt A n := by rw [← hm]; exact colsLt_of_wf A hA
  have hsim := fsim sqrt A P st j
  have hjj : (fInnerPass sqrt A P st j).j = j := by rw [hsim.j, innerPass_j]
  have hsz : (toG st).w.r.size = n := by
    show (st.w.v.get 0).size = n
    rw [hst.r, residual_size', hn]
  have hAop : ∀ u : Vec K, (GMRES.Aop .right P A u).size = n := fun u => by
    rw [GMRES.Aop_size_right, hn]
  -- the Arnoldi invariant of the simulating run
  have hinv : GMRES.ArnoldiInv .right stdIp sqrt A P n (innerPassG .right sqrt A P (toG st) g00 j) := by
    clear hsim hjj
    induction j with
    | zero =>
      exact GMRES.cycleStart_inv .right stdIp sqrt A P n (stdIp_ipOK n) (toG st) g00 hsz hst.normR hroots.r0 hst.ne
    | succ j ih =>
      rw [innerPassG_succ]
      exact GMRES.stepG_inv .right stdIp sqrt A P n (stdIp_ipOK n) hAop _
        (ih (hroots.mono (Nat.le_succ j)) (fun i hi => hnb i (by omega)))
  unfold GMRES.ArnoldiInv at hinv
  rw [innerPassG_fst, innerPass_j] at hinv
  have hnb' : GMRES.NoBreakdown stdIp sqrt (innerPassG .right sqrt A P (toG st) g00 j).2 j := by
    intro i hi
    refine ⟨by rw [ghost_sub .right sqrt A P (toG st) g00 j i hi]; exact hnb i hi, ?_⟩
    rw [ghost_W .right sqrt A P (toG st) g00 j i hi]; exact hroots.orth i hi
  obtain ⟨⟨hsize, hon⟩, harn⟩ := hinv.2 hnb'
  rw [hsim.v]
  refine ⟨hsize, ?_, ?_, ?_⟩
  · intro a b ha hb
    rw [← stdIp_vecOf n _ _ (hsize a ha) (hsize b hb)]
    exact hon a b ha hb
  · intro i hi
    rw [hsim.z i (by rw [hjj]; exact hi), ← vecOf_spmv0 A hn hcA _ #[]]
    funext τ
    show (GMRES.Aop .right P A ((innerPass .right sqrt A P (toG st) j).w.v.get i)).getD τ.val 0 = _
    rw [harn i hi τ.val τ.isLt]
    simp only [Finset.sum_apply, Pi.smul_apply, smul_eq_mul, vecOf, hTilde]
  · rw [innerPass_v0, GMRES.cycleStart_v0, ← hst.r]
    show vecOf n (st.w.v.get 0) = st.normR • vecOf n (axpby (inv1 st.normR) (st.w.v.get 0) 0 (st.w.v.get 0))
    have hsz' : (st.w.v.get 0).size = n := hsz
    rw [vecOf_axpby n _ _ _ _ hsz', zero_smul, add_zero, smul_smul]
    unfold inv1
    rw [mul_one_div_cancel hst.ne, one_smul]

/-- **least-squares identity of the FGMRES cycle**, for every coefficient vector `y` and ANY preconditioner function -/
theorem fcycle_ls (j : ℕ) (hroots : RootsExact .right sqrt A P (toG st) j)
    (hnb : ∀ i, i < j → arnoldiNorm .right sqrt A P (toG st) i ≠ 0) (y : ℕ → K) :
    (vecOf n f - matOf A n n *ᵥ (vecOf n st.x
        + ∑ i ∈ range j, y i • vecOf n ((fInnerPass sqrt A P st j).w.z.get i)))
      ⬝ᵥ (vecOf n f - matOf A n n *ᵥ (vecOf n st.x
        + ∑ i ∈ range j, y i • vecOf n ((fInnerPass sqrt A P st j).w.z.get i)))
    = ∑ a ∈ range j, ((fInnerPass sqrt A P st j).w.h.s.get a
          - ∑ i ∈ Ico a j, (fInnerPass sqrt A P st j).w.h.H.get a i * y i)
        * ((fInnerPass sqrt A P st j).w.h.s.get a
          - ∑ i ∈ Ico a j, (fInnerPass sqrt A P st j).w.h.H.get a i * y i)
      + (fInnerPass sqrt A P st j).w.h.s.get j * (fInnerPass sqrt A P st j).w.h.s.get j := by
  have hcA : ColsLt A n := by rw [← hm]; exact colsLt_of_wf A hA
  obtain ⟨hsize, hon, harn, hr0⟩ := fcycle_basis n A hA hn hm P hPsz sqrt f st hst hx j hroots hnb
  have hgiv := (innerPassG_givens .right sqrt A P (toG st) g00 j hroots.rot).1
  rw [← (fsim sqrt A P st j).h] at hgiv
  have hres : vecOf n f - matOf A n n *ᵥ (vecOf n st.x
        + ∑ i ∈ range j, y i • vecOf n ((fInnerPass sqrt A P st j).w.z.get i))
      = st.normR • vecOf n ((fInnerPass sqrt A P st j).w.v.get 0)
        - ∑ i ∈ range j, y i • ∑ k ∈ range (i + 2), hTilde .right sqrt A P (toG st) j k i
            • vecOf n ((fInnerPass sqrt A P st j).w.v.get k) := by
    rw [mulVec_add, ← sub_sub, ← vecOf_residual A hn hcA, hr0, mulVec_sum]
    congr 1
    apply sum_congr rfl
    intro i hi
    rw [mulVec_smul, harn i (mem_range.mp hi)]
  rw [hres]
  exact ls_abstract _ (fun a b ha hb => hon a b (by omega) (by omega)) hgiv y

omit hA hm hst in
/-- the iterate as a vector: `x₀ + Σ_{i<j} y_i z_i` with `y = backSubst j H s` -/
theorem fCycleIterate_vec (j : ℕ) :
    vecOf n (fCycleIterate sqrt A P st j) = vecOf n st.x
      + ∑ i ∈ range j, (backSubst j (fInnerPass sqrt A P st j).w.h.H (fInnerPass sqrt A P st j).w.h.s).get i
          • vecOf n ((fInnerPass sqrt A P st j).w.z.get i) := by
  have hsim := fsim sqrt A P st j
  have hjj : (fInnerPass sqrt A P st j).j = j := by rw [hsim.j, innerPass_j]
  have hzs : ∀ cv ∈ combList j (backSubst j (fInnerPass sqrt A P st j).w.h.H (fInnerPass sqrt A P st j).w.h.s).get
      (fInnerPass sqrt A P st j).w.z.get, cv.2.size = n := by
    intro cv hcv
    simp only [combList, List.mem_map, List.mem_range] at hcv
    obtain ⟨i, hi, rfl⟩ := hcv
    show ((fInnerPass sqrt A P st j).w.z.get i).size = n
    rw [hsim.z i (by rw [hjj]; exact hi)]
    exact hPsz _
  obtain ⟨_, g2⟩ := BiCGStabL.linComb_spec n _ st.x hzs hx
  funext τ
  show (FGMRES.update st (fInnerPass sqrt A P st j)).x.getD τ.val 0 = _
  have hupd : (FGMRES.update st (fInnerPass sqrt A P st j)).x
      = linComb (combList j (backSubst j (fInnerPass sqrt A P st j).w.h.H (fInnerPass sqrt A P st j).w.h.s).get
          (fInnerPass sqrt A P st j).w.z.get) 1 st.x := by
    show linComb (combList (fInnerPass sqrt A P st j).j _ _) 1 st.x = _
    rw [hjj]
  rw [hupd, g2 τ.val τ.isLt]
  simp only [BiCGStabL.csum, combList, List.map_map, Pi.add_apply, Finset.sum_apply, Pi.smul_apply, smul_eq_mul, vecOf]
  rw [← list_range_map_sum]
  rfl

/-- **the Givens-reduced quantity is the residual norm of the FGMRES iterate**: `‖f − A x_j‖² = s_j²` -/
theorem fcycle_residual (j : ℕ) (hroots : RootsExact .right sqrt A P (toG st) j)
    (hnb : ∀ i, i < j → arnoldiNorm .right sqrt A P (toG st) i ≠ 0) :
    stdIp (residual f A (fCycleIterate sqrt A P st j)) (residual f A (fCycleIterate sqrt A P st j))
      = (fInnerPass sqrt A P st j).w.h.s.get j * (fInnerPass sqrt A P st j).w.h.s.get j := by
  have hcA : ColsLt A n := by rw [← hm]; exact colsLt_of_wf A hA
  have hsim := fsim sqrt A P st j
  have hd := (innerPassG_givens .right sqrt A P (toG st) g00 j hroots.rot).2
  rw [← hsim.h] at hd
  obtain ⟨_, bs⟩ := backSubst_spec (fInnerPass sqrt A P st j).w.h.H j (fInnerPass sqrt A P st j).w.h.s
    (fun a ha => hd a ha (hnb a ha))
  have hrs : (residual f A (fCycleIterate sqrt A P st j)).size = n := by rw [residual_size', hn]
  rw [stdIp_vecOf n _ _ hrs hrs, vecOf_residual A hn hcA, fCycleIterate_vec n A hn P hPsz sqrt st hx j,
    fcycle_ls n A hA hn hm P hPsz sqrt f st hst hx j hroots hnb]
  have hz : ∀ a ∈ range j, ((fInnerPass sqrt A P st j).w.h.s.get a
        - ∑ i ∈ Ico a j, (fInnerPass sqrt A P st j).w.h.H.get a i
          * (backSubst j (fInnerPass sqrt A P st j).w.h.H (fInnerPass sqrt A P st j).w.h.s).get i)
      * ((fInnerPass sqrt A P st j).w.h.s.get a
        - ∑ i ∈ Ico a j, (fInnerPass sqrt A P st j).w.h.H.get a i
          * (backSubst j (fInnerPass sqrt A P st j).w.h.H (fInnerPass sqrt A P st j).w.h.s).get i) = 0 := by
    intro a ha
    rw [bs a (mem_range.mp ha), sub_self, mul_zero]
  rw [sum_eq_zero hz, zero_add]

/-- **the FGMRES iterate minimises the residual norm over `x₀ + span{z_0..z_{j-1}}`** (coefficient form) -/
theorem fcycle_minimal (j : ℕ) (hroots : RootsExact .right sqrt A P (toG st) j)
    (hnb : ∀ i, i < j → arnoldiNorm .right sqrt A P (toG st) i ≠ 0) (y : ℕ → K) :
    stdIp (residual f A (fCycleIterate sqrt A P st j)) (residual f A (fCycleIterate sqrt A P st j))
      ≤ (vecOf n f - matOf A n n *ᵥ (vecOf n st.x
          + ∑ i ∈ range j, y i • vecOf n ((fInnerPass sqrt A P st j).w.z.get i)))
        ⬝ᵥ (vecOf n f - matOf A n n *ᵥ (vecOf n st.x
          + ∑ i ∈ range j, y i • vecOf n ((fInnerPass sqrt A P st j).w.z.get i))) := by
  rw [fcycle_residual n A hA hn hm P hPsz sqrt f st hst hx j hroots hnb,
    fcycle_ls n A hA hn hm P hPsz sqrt f st hst hx j hroots hnb]
  have : 0 ≤ ∑ a ∈ range j, ((fInnerPass sqrt A P st j).w.h.s.get a
          - ∑ i ∈ Ico a j, (fInnerPass sqrt A P st j).w.h.H.get a i * y i)
        * ((fInnerPass sqrt A P st j).w.h.s.get a
          - ∑ i ∈ Ico a j, (fInnerPass sqrt A P st j).w.h.H.get a i * y i) :=
    sum_nonneg (fun a _ => mul_self_nonneg _)
  linarith

/-- **the residual norm of the FGMRES iterates does not increase** with the number of passes -/
theorem fcycle_antitone (j : ℕ) (hroots : RootsExact .right sqrt A P (toG st) (j + 1))
    (hnb : ∀ i, i < j + 1 → arnoldiNorm .right sqrt A P (toG st) i ≠ 0) :
    stdIp (residual f A (fCycleIterate sqrt A P st (j + 1))) (residual f A (fCycleIterate sqrt A P st (j + 1)))
      ≤ stdIp (residual f A (fCycleIterate sqrt A P st j)) (residual f A (fCycleIterate sqrt A P st j)) := by
  rw [fcycle_residual n A hA hn hm P hPsz sqrt f st hst hx (j + 1) hroots hnb,
    fcycle_residual n A hA hn hm P hPsz sqrt f st hst hx j (hroots.mono (Nat.le_succ j))
      (fun i hi => hnb i (by omega)),
    (fsim sqrt A P st (j + 1)).h, (fsim sqrt A P st j).h]
  have h := (innerRes_antitone .right sqrt A P (toG st) j (hroots.rot j (Nat.lt_succ_self j))).2
  rw [absK_eq_abs, absK_eq_abs] at h
  exact abs_le_iff_mul_self_le.mp h

end main

end Amgcl.Krylov
