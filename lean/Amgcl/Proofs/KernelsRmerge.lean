import Amgcl.Proofs.KernelsCommon
/-!
`spgemm_rmerge` (detail/spgemm.hpp: merge_rows, prod_row_width, prod_row, spgemm_rmerge):
the row-merge product denotes the matrix product, keeps rows strictly sorted, is well formed, and the
width pass (`prod_row_width`) predicts exactly the lengths of the rows written by `prod_row`.
-/
namespace Amgcl.K2
open Amgcl Finset

/-! ### unfolding lemmas for `mergeRows` / `mergeCols` -/
section unfold
variable {K : Type} [Add K] [Mul K]

theorem mergeRows_nil_left (a1 a2 : K) (r2 : Row K) :
    mergeRows a1 [] a2 r2 = r2.map (fun e => (e.1, a2 * e.2)) := by
  rw [mergeRows]

theorem mergeRows_nil_right (a1 a2 : K) (r1 : Row K) :
    mergeRows a1 r1 a2 [] = r1.map (fun e => (e.1, a1 * e.2)) := by
  cases r1 with
  | nil => rw [mergeRows]; rfl
  | cons e t => rw [mergeRows]; intro h; cases h

theorem mergeRows_cons_cons (a1 a2 : K) (e1 : Nat × K) (t1 : Row K) (e2 : Nat × K) (t2 : Row K) :
    mergeRows a1 (e1 :: t1) a2 (e2 :: t2) =
      if e1.1 < e2.1 then (e1.1, a1 * e1.2) :: mergeRows a1 t1 a2 (e2 :: t2)
      else if e1.1 = e2.1 then (e1.1, a1 * e1.2 + a2 * e2.2) :: mergeRows a1 t1 a2 t2
      else (e2.1, a2 * e2.2) :: mergeRows a1 (e1 :: t1) a2 t2 := by
  rw [mergeRows]

theorem mergeCols_nil_left (c2 : List Nat) : mergeCols [] c2 = c2 := by
  rw [mergeCols]

theorem mergeCols_nil_right (c1 : List Nat) : mergeCols c1 [] = c1 := by
  cases c1 with
  | nil => rw [mergeCols]
  | cons a t => rw [mergeCols]; intro h; cases h

theorem mergeCols_cons_cons (a : Nat) (t1 : List Nat) (b : Nat) (t2 : List Nat) :
    mergeCols (a :: t1) (b :: t2) =
      if a < b then a :: mergeCols t1 (b :: t2)
      else if a = b then a :: mergeCols t1 t2
      else b :: mergeCols (a :: t1) t2 := by
  rw [mergeCols]

omit [Add K] [Mul K] in
/-- induction principle following the recursion of `mergeRows` -/
theorem merge_induction {motive : Row K → Row K → Prop}
    (nil_left : ∀ r2, motive [] r2)
    (nil_right : ∀ r1, motive r1 [])
    (cons_cons : ∀ e1 t1 e2 t2, motive t1 (e2 :: t2) → motive t1 t2 → motive (e1 :: t1) t2 →
      motive (e1 :: t1) (e2 :: t2))
    (r1 r2 : Row K) : motive r1 r2 := by
  induction r1 generalizing r2 with
  | nil => exact nil_left r2
  | cons e1 t1 ih1 =>
    induction r2 with
    | nil => exact nil_right _
    | cons e2 t2 ih2 => exact cons_cons e1 t1 e2 t2 (ih1 _) (ih1 _) ih2

/-! ### 1. columns of the merge -/

theorem mergeRows_cols (a1 a2 : K) (r1 r2 : Row K) :
    (mergeRows a1 r1 a2 r2).map (·.1) = mergeCols (r1.map (·.1)) (r2.map (·.1)) := by
  induction r1, r2 using merge_induction with
  | nil_left r2 =>
    rw [mergeRows_nil_left, List.map_nil, mergeCols_nil_left, List.map_map]; rfl
  | nil_right r1 =>
    rw [mergeRows_nil_right, List.map_nil, mergeCols_nil_right, List.map_map]; rfl
  | cons_cons e1 t1 e2 t2 ih1 ih2 ih3 =>
    rw [mergeRows_cons_cons, List.map_cons, List.map_cons, mergeCols_cons_cons]
    by_cases hlt : e1.1 < e2.1
    · rw [if_pos hlt, if_pos hlt, List.map_cons, ih1, List.map_cons]
    · rw [if_neg hlt, if_neg hlt]
      by_cases heq : e1.1 = e2.1
      · rw [if_pos heq, if_pos heq, List.map_cons, ih2]
      · rw [if_neg heq, if_neg heq, List.map_cons, ih3, List.map_cons]

/-- every column of the merge is a column of one of the inputs -/
theorem mergeRows_mem_cols (a1 a2 : K) (r1 r2 : Row K) :
    ∀ e ∈ mergeRows a1 r1 a2 r2, e.1 ∈ r1.map (·.1) ∨ e.1 ∈ r2.map (·.1) := by
  induction r1, r2 using merge_induction with
  | nil_left r2 =>
    intro e he
    rw [mergeRows_nil_left] at he
    obtain ⟨x, hx, rfl⟩ := List.mem_map.1 he
    exact Or.inr (List.mem_map.2 ⟨x, hx, rfl⟩)
  | nil_right r1 =>
    intro e he
    rw [mergeRows_nil_right] at he
    obtain ⟨x, hx, rfl⟩ := List.mem_map.1 he
    exact Or.inl (List.mem_map.2 ⟨x, hx, rfl⟩)
  | cons_cons e1 t1 e2 t2 ih1 ih2 ih3 =>
    intro e he
    rw [mergeRows_cons_cons] at he
    simp only [List.map_cons, List.mem_cons] at ih1 ih3 ⊢
    by_cases hlt : e1.1 < e2.1
    · rw [if_pos hlt] at he
      rcases List.mem_cons.1 he with rfl | he
      · exact Or.inl (Or.inl rfl)
      · rcases ih1 e he with h | h
        · exact Or.inl (Or.inr h)
        · exact Or.inr h
    · rw [if_neg hlt] at he
      by_cases heq : e1.1 = e2.1
      · rw [if_pos heq] at he
        rcases List.mem_cons.1 he with rfl | he
        · exact Or.inl (Or.inl rfl)
        · rcases ih2 e he with h | h
          · exact Or.inl (Or.inr h)
          · exact Or.inr (Or.inr h)
      · rw [if_neg heq] at he
        rcases List.mem_cons.1 he with rfl | he
        · exact Or.inr (Or.inl rfl)
        · rcases ih3 e he with h | h
          · exact Or.inl h
          · exact Or.inr (Or.inr h)

theorem mergeRows_forall_cols (P : Nat → Prop) (a1 a2 : K) {r1 r2 : Row K}
    (h1 : ∀ e ∈ r1, P e.1) (h2 : ∀ e ∈ r2, P e.1) : ∀ e ∈ mergeRows a1 r1 a2 r2, P e.1 := by
  intro e he
  rcases mergeRows_mem_cols a1 a2 r1 r2 e he with h | h
  · obtain ⟨x, hx, hxe⟩ := List.mem_map.1 h
    exact hxe ▸ h1 x hx
  · obtain ⟨x, hx, hxe⟩ := List.mem_map.1 h
    exact hxe ▸ h2 x hx

/-! ### 3. the merge of strictly sorted rows is strictly sorted -/

omit [Add K] [Mul K] in
theorem strictCols_map (f : Nat × K → K) {r : Row K} (h : StrictCols r) :
    StrictCols (r.map (fun e => (e.1, f e))) := by
  unfold StrictCols at *
  rw [List.pairwise_map]
  exact h

theorem mergeRows_strict (a1 a2 : K) {r1 r2 : Row K} (h1 : StrictCols r1) (h2 : StrictCols r2) :
    StrictCols (mergeRows a1 r1 a2 r2) := by
  induction r1, r2 using merge_induction with
  | nil_left r2 => rw [mergeRows_nil_left]; exact strictCols_map (fun e => a2 * e.2) h2
  | nil_right r1 => rw [mergeRows_nil_right]; exact strictCols_map (fun e => a1 * e.2) h1
  | cons_cons e1 t1 e2 t2 ih1 ih2 ih3 =>
    have p1 := List.pairwise_cons.1 h1
    have p2 := List.pairwise_cons.1 h2
    rw [mergeRows_cons_cons]
    by_cases hlt : e1.1 < e2.1
    · rw [if_pos hlt]
      refine List.pairwise_cons.2 ⟨?_, ih1 p1.2 h2⟩
      refine mergeRows_forall_cols (fun c => e1.1 < c) a1 a2 p1.1 ?_
      intro e he
      rcases List.mem_cons.1 he with rfl | he
      · exact hlt
      · exact Nat.lt_trans hlt (p2.1 e he)
    · rw [if_neg hlt]
      by_cases heq : e1.1 = e2.1
      · rw [if_pos heq]
        refine List.pairwise_cons.2 ⟨?_, ih2 p1.2 p2.2⟩
        refine mergeRows_forall_cols (fun c => e1.1 < c) a1 a2 p1.1 ?_
        intro e he
        exact heq ▸ p2.1 e he
      · rw [if_neg heq]
        have hgt : e2.1 < e1.1 := by omega
        refine List.pairwise_cons.2 ⟨?_, ih3 h1 p2.2⟩
        refine mergeRows_forall_cols (fun c => e2.1 < c) a1 a2 ?_ p2.1
        intro e he
        rcases List.mem_cons.1 he with rfl | he
        · exact hgt
        · exact Nat.lt_trans hgt (p1.1 e he)

end unfold

/-! ### 2. the merge denotes the linear combination -/
section get
variable {K : Type} [Semiring K]

theorem rowGet_map_mul (a : K) (r : Row K) (j : Nat) :
    rowGet (r.map (fun e => (e.1, a * e.2))) j = a * rowGet r j := by
  induction r with
  | nil => simp
  | cons e t ih =>
    rw [List.map_cons, rowGet_cons', rowGet_cons', ih, mul_add]
    split <;> simp

theorem mergeRows_get (a1 a2 : K) (r1 r2 : Row K) (j : Nat) :
    rowGet (mergeRows a1 r1 a2 r2) j = a1 * rowGet r1 j + a2 * rowGet r2 j := by
  induction r1, r2 using merge_induction with
  | nil_left r2 => rw [mergeRows_nil_left, rowGet_map_mul, rowGet_nil, mul_zero, zero_add]
  | nil_right r1 => rw [mergeRows_nil_right, rowGet_map_mul, rowGet_nil, mul_zero, add_zero]
  | cons_cons e1 t1 e2 t2 ih1 ih2 ih3 =>
    rw [mergeRows_cons_cons]
    by_cases hlt : e1.1 < e2.1
    · rw [if_pos hlt, rowGet_cons', ih1, rowGet_cons' e1, mul_add, ← add_assoc]
      congr 2
      split <;> simp
    · rw [if_neg hlt]
      by_cases heq : e1.1 = e2.1
      · rw [if_pos heq, rowGet_cons', ih2, rowGet_cons' e1, rowGet_cons' e2, mul_add, mul_add,
          ← heq]
        by_cases hj : e1.1 = j
        · simp only [if_pos hj]
          rw [add_add_add_comm]
        · simp only [if_neg hj, mul_zero, zero_add]
      · rw [if_neg heq, rowGet_cons', ih3, rowGet_cons' e2, mul_add, add_left_comm]
        congr 2
        split <;> simp

end get

/-! ### 4.–7. `prod_row` and `prod_row_width` -/
section prodRowUnfold
variable {K : Type} [Add K] [Mul K] [One K]

theorem prodRow_cons3 (B : CRS K) (a1 a2 a3 : Nat × K) (rest : Row K) :
    prodRow B (a1 :: a2 :: a3 :: rest) =
      prodRowLoop B (mergeRows a1.2 (B.row a1.1) a2.2 (B.row a2.1)) (a3 :: rest) := by
  rw [prodRow]; intro h; cases h

end prodRowUnfold

section prodRow
variable {K : Type} [Semiring K]

theorem prodRowLoop_get (B : CRS K) (tm1 rest : Row K) (j : Nat) :
    rowGet (prodRowLoop B tm1 rest) j =
      rowGet tm1 j + (rest.map (fun a => a.2 * rowGet (B.row a.1) j)).sum := by
  induction rest using List.twoStepInduction generalizing tm1 with
  | nil => simp [prodRowLoop]
  | singleton a => simp [prodRowLoop, mergeRows_get]
  | cons_cons a1 a2 rest ih _ =>
    rw [prodRowLoop, ih, mergeRows_get, mergeRows_get]
    simp only [one_mul, List.map_cons, List.sum_cons, add_assoc]

theorem prodRow_get (B : CRS K) (arow : Row K) (j : Nat) :
    rowGet (prodRow B arow) j = (arow.map (fun a => a.2 * rowGet (B.row a.1) j)).sum := by
  match arow with
  | [] => simp [prodRow]
  | [a] => simp [prodRow, rowGet_map_mul]
  | [a1, a2] => simp [prodRow, mergeRows_get]
  | a1 :: a2 :: a3 :: rest =>
    rw [prodRow_cons3, prodRowLoop_get, mergeRows_get]
    simp only [List.map_cons, List.sum_cons, add_assoc]

end prodRow

/-! structural facts about `prod_row` -/
section prodRowStruct
variable {K : Type} [Add K] [Mul K] [One K]

theorem prodRowLoop_strict (B : CRS K) (hB : ∀ k, StrictCols (B.row k)) (tm1 rest : Row K)
    (h : StrictCols tm1) : StrictCols (prodRowLoop B tm1 rest) := by
  induction rest using List.twoStepInduction generalizing tm1 with
  | nil => rw [prodRowLoop]; exact h
  | singleton a => rw [prodRowLoop]; exact mergeRows_strict _ _ h (hB _)
  | cons_cons a1 a2 rest ih _ =>
    rw [prodRowLoop]
    exact ih _ (mergeRows_strict _ _ h (mergeRows_strict _ _ (hB _) (hB _)))

theorem prodRow_strict (B : CRS K) (hB : ∀ k, StrictCols (B.row k)) (arow : Row K) :
    StrictCols (prodRow B arow) := by
  match arow with
  | [] => rw [prodRow]; exact List.Pairwise.nil
  | [a] => rw [prodRow]; exact strictCols_map (fun e => a.2 * e.2) (hB _)
  | [a1, a2] => rw [prodRow]; exact mergeRows_strict _ _ (hB _) (hB _)
  | a1 :: a2 :: a3 :: rest =>
    rw [prodRow_cons3]
    exact prodRowLoop_strict B hB _ _ (mergeRows_strict _ _ (hB _) (hB _))

theorem prodRowLoop_forall_cols (P : Nat → Prop) (B : CRS K) (hB : ∀ k, ∀ e ∈ B.row k, P e.1)
    (tm1 rest : Row K) (h : ∀ e ∈ tm1, P e.1) : ∀ e ∈ prodRowLoop B tm1 rest, P e.1 := by
  induction rest using List.twoStepInduction generalizing tm1 with
  | nil => rw [prodRowLoop]; exact h
  | singleton a => rw [prodRowLoop]; exact mergeRows_forall_cols P _ _ h (hB _)
  | cons_cons a1 a2 rest ih _ =>
    rw [prodRowLoop]
    exact ih _ (mergeRows_forall_cols P _ _ h (mergeRows_forall_cols P _ _ (hB _) (hB _)))

theorem prodRow_forall_cols (P : Nat → Prop) (B : CRS K) (hB : ∀ k, ∀ e ∈ B.row k, P e.1)
    (arow : Row K) : ∀ e ∈ prodRow B arow, P e.1 := by
  match arow with
  | [] => rw [prodRow]; intro e he; cases he
  | [a] =>
    rw [prodRow]; intro e he
    obtain ⟨x, hx, rfl⟩ := List.mem_map.1 he
    exact hB _ x hx
  | [a1, a2] => rw [prodRow]; exact mergeRows_forall_cols P _ _ (hB _) (hB _)
  | a1 :: a2 :: a3 :: rest =>
    rw [prodRow_cons3]
    exact prodRowLoop_forall_cols P B hB _ _ (mergeRows_forall_cols P _ _ (hB _) (hB _))

theorem prodRow_cols_lt (B : CRS K) (hB : B.WF) (arow : Row K) :
    ∀ e ∈ prodRow B arow, e.1 < B.ncols :=
  prodRow_forall_cols (fun c => c < B.ncols) B (fun k _ he => row_col_lt hB k he) arow

theorem prodRowWidthLoop_eq (B : CRS K) (tm1 rest : Row K) :
    prodRowWidthLoop B (tm1.map (·.1)) (rest.map (·.1)) = (prodRowLoop B tm1 rest).map (·.1) := by
  induction rest using List.twoStepInduction generalizing tm1 with
  | nil => rw [prodRowLoop, List.map_nil, prodRowWidthLoop]
  | singleton a =>
    rw [prodRowLoop, List.map_cons, List.map_nil, prodRowWidthLoop, mergeRows_cols]
  | cons_cons a1 a2 rest ih _ =>
    rw [prodRowLoop, List.map_cons, List.map_cons, prodRowWidthLoop, ← ih, mergeRows_cols,
      mergeRows_cols]

theorem prodRowWidth_eq (B : CRS K) (arow : Row K) :
    prodRowWidth B (arow.map (·.1)) = (prodRow B arow).length := by
  match arow with
  | [] => rw [prodRow]; rfl
  | [a] => rw [prodRow, List.length_map]; rfl
  | [a1, a2] =>
    rw [prodRow, ← List.length_map (f := (·.1)), mergeRows_cols]; rfl
  | a1 :: a2 :: a3 :: rest =>
    rw [prodRow_cons3, ← List.length_map (f := (·.1)), ← prodRowWidthLoop_eq, mergeRows_cols]; rfl

/-! ### 8. matrix level (structure) -/

theorem rmerge_row (A B : CRS K) (i : Nat) : (spgemmRmerge A B).row i = prodRow B (A.row i) := by
  unfold CRS.row spgemmRmerge
  by_cases hi : i < A.rows.size
  · simp [Array.getD, hi]
  · simp [Array.getD, hi, prodRow]

theorem rmerge_nrows (A B : CRS K) : (spgemmRmerge A B).nrows = A.nrows := by
  unfold CRS.nrows spgemmRmerge
  simp

theorem rmerge_ncols (A B : CRS K) : (spgemmRmerge A B).ncols = B.ncols := rfl

theorem rmerge_wf (A B : CRS K) (hB : B.WF) : (spgemmRmerge A B).WF := by
  rw [wf_iff_row]
  intro i _ cv hcv
  rw [rmerge_row] at hcv
  exact prodRow_cols_lt B hB _ cv hcv

theorem rmerge_sorted (A B : CRS K) (hB : B.sortedb = true) : (spgemmRmerge A B).sortedb = true := by
  rw [sortedb_iff] at hB ⊢
  intro i
  rw [rmerge_row]
  exact prodRow_strict B hB _

theorem rmerge_nodup (A B : CRS K) (hB : B.sortedb = true) : (spgemmRmerge A B).nodupb = true := by
  rw [nodupb_iff]
  intro i
  exact (sortedb_iff.1 (rmerge_sorted A B hB) i).nodup

theorem rmerge_widths (A B : CRS K) :
    rmergeWidths A B = (spgemmRmerge A B).rows.toList.map List.length := by
  unfold rmergeWidths spgemmRmerge
  simp only [Array.toList_map, List.map_map]
  apply List.map_congr_left
  intro r _
  exact prodRowWidth_eq B r

end prodRowStruct

/-! ### 8. matrix level (denotation) -/
section matrix
variable {K : Type} [Semiring K]

theorem rmerge_get' (A B : CRS K) (hA : A.WF) (i j : Nat) :
    (spgemmRmerge A B).get i j = ∑ k ∈ Finset.range A.ncols, A.get i k * B.get k j := by
  unfold CRS.get
  rw [rmerge_row, prodRow_get]
  exact listSum_eq_sum (A.row i) (fun k => rowGet (B.row k) j) A.ncols
    (fun cv hcv => row_col_lt hA i hcv)

end matrix

end Amgcl.K2
