import Amgcl.Model.Basic
import Mathlib.Algebra.BigOperators.Group.Finset.Basic
import Mathlib.Algebra.BigOperators.Ring.Finset
import Mathlib.Algebra.Ring.Defs
/-!
Lemmas about the denotation `rowGet` / `CRS.get` (duplicates add), over an additive commutative monoid or a
(not necessarily commutative) semiring, so that they also apply to block-valued matrices.
-/
namespace Amgcl
open Finset

section monoid
variable {K : Type} [AddCommMonoid K]

@[simp] theorem rowGet_nil' (j : Nat) : rowGet ([] : Row K) j = 0 := rfl

theorem rowGet_cons' (cv : Nat × K) (t : Row K) (j : Nat) :
    rowGet (cv :: t) j = (if cv.1 = j then cv.2 else 0) + rowGet t j := by
  show (if cv.1 = j then cv.2 + rowGet t j else rowGet t j) = _
  split <;> simp

theorem rowGet_append (r s : Row K) (j : Nat) : rowGet (r ++ s) j = rowGet r j + rowGet s j := by
  induction r with
  | nil => simp
  | cons cv t ih => simp only [List.cons_append, rowGet_cons', ih, add_assoc]

theorem rowGet_singleton (c : Nat) (v : K) (j : Nat) : rowGet [(c, v)] j = if c = j then v else 0 := by
  simp [rowGet_cons']

theorem rowGet_flatMap {α : Type} (l : List α) (f : α → Row K) (j : Nat) :
    rowGet (l.flatMap f) j = (l.map (fun a => rowGet (f a) j)).sum := by
  induction l with
  | nil => simp
  | cons a t ih => simp [List.flatMap_cons, rowGet_append, ih]

/-- a row none of whose columns is `j` denotes `0` at `j` -/
theorem rowGet_eq_zero_of_not_mem (r : Row K) (j : Nat) (h : ∀ cv ∈ r, cv.1 ≠ j) : rowGet r j = 0 := by
  induction r with
  | nil => rfl
  | cons cv t ih =>
    rw [rowGet_cons', if_neg (h cv (List.mem_cons_self)), ih (fun c hc => h c (List.mem_cons_of_mem _ hc)), add_zero]

theorem rowGet_perm {r s : Row K} (h : r.Perm s) (j : Nat) : rowGet r j = rowGet s j := by
  induction h with
  | nil => rfl
  | cons x _ ih => simp [rowGet_cons', ih]
  | swap x y l => simp only [rowGet_cons']; rw [← add_assoc, ← add_assoc, add_comm (ite _ _ _)]
  | trans _ _ ih1 ih2 => exact ih1.trans ih2

/-- `rowGet` after adding `v` to the value stored at position `p` -/
theorem rowGet_modify (l : Row K) (p : Nat) (hp : p < l.length) (v : K) (j : Nat) :
    rowGet (l.modify p (fun e => (e.1, e.2 + v))) j = rowGet l j + (if (l[p]).1 = j then v else 0) := by
  induction l generalizing p with
  | nil => simp at hp
  | cons e t ih =>
    cases p with
    | zero =>
      simp only [List.modify_zero_cons, rowGet_cons', List.getElem_cons_zero]
      split <;> simp [add_assoc, add_comm, add_left_comm]
    | succ q =>
      have hq : q < t.length := by simpa using hp
      simp only [List.modify_succ_cons, rowGet_cons', List.getElem_cons_succ, ih q hq, add_assoc]

end monoid

section semiring
variable {K : Type} [Semiring K]

theorem rowGet_map_mul_left (a : K) (r : Row K) (j : Nat) :
    rowGet (r.map (fun cv => (cv.1, a * cv.2))) j = a * rowGet r j := by
  induction r with
  | nil => simp
  | cons cv t ih =>
    simp only [List.map_cons, rowGet_cons', ih, mul_add]
    split <;> simp

theorem rowGet_map_mul_right (a : K) (r : Row K) (j : Nat) :
    rowGet (r.map (fun cv => (cv.1, cv.2 * a))) j = rowGet r j * a := by
  induction r with
  | nil => simp
  | cons cv t ih =>
    simp only [List.map_cons, rowGet_cons', ih, add_mul]
    split <;> simp

/-- `Σ_{entries (k,v) of r} v * g k = Σ_{k<m} (rowGet r k) * g k` when every column of `r` is `< m` -/
theorem sum_map_mul_eq_sum_rowGet (r : Row K) (g : Nat → K) (m : Nat) (h : ∀ cv ∈ r, cv.1 < m) :
    (r.map (fun cv => cv.2 * g cv.1)).sum = ∑ k ∈ range m, rowGet r k * g k := by
  induction r with
  | nil => simp
  | cons cv t ih =>
    have hcv : cv.1 < m := h cv (List.mem_cons_self)
    have ht : ∀ c ∈ t, c.1 < m := fun c hc => h c (List.mem_cons_of_mem _ hc)
    simp only [List.map_cons, List.sum_cons, rowGet_cons', add_mul, sum_add_distrib, ih ht]
    congr 1
    have : ∀ k ∈ range m, (if cv.1 = k then cv.2 else 0) * g k = if cv.1 = k then cv.2 * g k else 0 := by
      intro k _; split <;> simp
    rw [sum_congr rfl this, sum_ite_eq]
    simp [hcv]

end semiring

section crs
variable {K : Type}

theorem CRS.row_lt_mem (A : CRS K) (i : Nat) (hi : i < A.nrows) : A.row i ∈ A.rows.toList := by
  unfold CRS.row CRS.nrows at *
  simp [Array.getD, hi]

theorem CRS.row_ge (A : CRS K) (i : Nat) (hi : A.nrows ≤ i) : A.row i = [] := by
  unfold CRS.row CRS.nrows at *
  simp [Array.getD, Nat.not_lt.mpr hi]

theorem CRS.WF.row_lt {A : CRS K} (hA : A.WF) (i : Nat) : ∀ cv ∈ A.row i, cv.1 < A.ncols := by
  by_cases hi : i < A.nrows
  · exact hA _ (A.row_lt_mem i hi)
  · rw [A.row_ge i (Nat.le_of_not_lt hi)]; intro cv h; cases h

end crs

end Amgcl
