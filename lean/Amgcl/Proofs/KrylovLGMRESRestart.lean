import Amgcl.Proofs.KrylovLGMRESMain
import Amgcl.Proofs.KrylovGMRESZero
/-!
# Restarted LGMRES as a whole: the sequence of restart states has non-increasing residuals (C05)

* `lPass_sizes`       (no hypothesis on norms or roots) after `j` passes `vs[0..j]` have length `n`, `ws[i]` points to `vs[i]`
                      or to an augmentation slot, and the fed vectors `*ws[i]` have length `n`;
* `lcycle_zero`       a cycle entered with `norm_r = 0` (possible for `eps = 0` only) does not change the measured residual;
* `lcycle_odata`      a cycle keeps the stored augmentation vectors at length `n`;
* `louterPass`, `lfinal_eq_outerPass`   the call returns the member `louterPass … init k` of the sequence of restart states,
                      `k` the first index whose stopping test succeeds;
* `louterPass_antitone`   `‖Rf x⁽ʲ⁾‖² ≤ ‖Rf x⁽ⁱ⁾‖²` for `i ≤ j`, threshold not negative, exact roots in the cycles made — whatever
                      augmentation vectors the object carried into the call.
-/
set_option linter.unusedSectionVars false
set_option linter.unusedVariables false
namespace Amgcl.Krylov
open Amgcl Amgcl.Solver Amgcl.Solver.GMRES Amgcl.Energy.Bridge Matrix Finset

section zero
variable {K : Type} [Field K] [DecidableEq K] [LT K] [DecidableLT K]

/-- the reduced right-hand side of a cycle entered with `norm_r = 0` stays zero -/
theorem lPass_s_allzero (prm : LGMRES.Params K) (sqrt : K → K) (A : CRS K) (P : Vec K → Vec K) (st : LGMRES.St K)
    (h0 : st.normR = 0) : ∀ j a, (lPass prm sqrt A P st j).w.h.s.get a = 0 := by
  intro j
  induction j with
  | zero =>
    intro a
    show (sInit st.normR).get a = 0
    rw [sInit_get, h0]; split <;> rfl
  | succ j ih =>
    intro a
    rw [lPass_succ, lStep_h]
    generalize lPass prm sqrt A P st j = t at ih
    obtain ⟨_, _, rs, _, _⟩ := rotate_spec sqrt t.j t.w.h (orth stdIp sqrt t.w.vs t.j t.w.h.H (lVnew prm A P t)).1
    rw [rs a]
    simp only [rot1, ih]
    split_ifs <;> ring

/-- sizes and pointers after `j` passes, without any hypothesis on norms or roots -/
theorem lPass_sizes (n : ℕ) (prm : LGMRES.Params K) (sqrt : K → K) (A : CRS K) (P : Vec K → Vec K) (st : LGMRES.St K)
    (hr : st.w.r.size = n) (hod : ∀ s, (st.w.odata.get s).size = n) :
    ∀ j, (∀ a, a ≤ j → ((lPass prm sqrt A P st j).w.vs.get a).size = n) ∧
      (∀ i, i < j → LPtrOK i ((lPass prm sqrt A P st j).w.wsp.get i)) ∧
      (∀ i, i < j → (lZ (lPass prm sqrt A P st j) i).size = n) := by
  intro j
  induction j with
  | zero =>
    refine ⟨?_, fun i hi => absurd hi (Nat.not_lt_zero i), fun i hi => absurd hi (Nat.not_lt_zero i)⟩
    intro a ha
    have : a = 0 := by omega
    subst this
    show (axpby (inv1 st.normR) st.w.r 0 (st.w.vs.get 0)).size = n
    rw [axpby_size]; exact hr
  | succ j ih =>
    obtain ⟨h1, h2, h3⟩ := ih
    have hj := lPass_j prm sqrt A P st j
    obtain ⟨hznew_ptr, hznew, _⟩ := lZ_new prm sqrt A P (lPass prm sqrt A P st j)
    rw [hj] at hznew_ptr hznew
    rw [← lPass_succ] at hznew_ptr hznew
    have hvs : ∀ a, ((lPass prm sqrt A P st (j + 1)).w.vs.get a)
        = if a = j + 1 then (orth stdIp sqrt (lPass prm sqrt A P st j).w.vs j (lPass prm sqrt A P st j).w.h.H
            (lVnew prm A P (lPass prm sqrt A P st j))).2 else (lPass prm sqrt A P st j).w.vs.get a := by
      intro a; rw [lPass_succ, lStep_vs, hj, setF_get]
    refine ⟨?_, ?_, ?_⟩
    · intro a ha
      rw [hvs]
      by_cases haj : a = j + 1
      · rw [if_pos haj, orth_snd, axpby_size]
        exact mgs_size n _ j _ _ h1
      · rw [if_neg haj]; exact h1 a (by omega)
    · intro i hi
      by_cases hij : i = j
      · rw [hij]; exact hznew_ptr
      · rw [lPass_succ, LGMRES.step_wsp, setF_other _ _ _ _ (by rw [hj]; exact hij)]
        exact h2 i (by omega)
    · intro i hi
      by_cases hij : i = j
      · rw [hij, hznew]
        rcases lpickZ_ok prm.MM prm.K' (lPass prm sqrt A P st j).w.ov j with h | ⟨s, h⟩
        · rw [h]; exact h1 j (Nat.le_refl j)
        · rw [h]
          show ((lPass prm sqrt A P st j).w.odata.get s).size = n
          rw [lInnerPass_odata]; exact hod s
      · rw [lPass_succ, lZ_step prm sqrt A P _ i (by rw [hj]; omega) (h2 i (by omega))]
        exact h3 i (by omega)

/-- the correction `dx` has length `n` -/
theorem lupdDx_size (n : ℕ) (t : LGMRES.In K) (hj : 1 ≤ t.j) (hz : ∀ i, i < t.j → (lZ t i).size = n) :
    (LGMRES.updDx t).size = n :=
  (vecOf_linComb0 n t.j hj (backSubst t.j t.w.h.H t.w.h.s).get (lZ t) hz t.w.r).1

/-- `update` keeps the stored augmentation vectors at length `n` (the preconditioner returns vectors of length `n`) -/
theorem lupdate_odata (n : ℕ) (prm : LGMRES.Params K) (sqrt : K → K) (P : Vec K → Vec K) (hPsz : ∀ u : Vec K, u.size = n → (P u).size = n)
    (st : LGMRES.St K) (t : LGMRES.In K) (hj : 1 ≤ t.j) (hz : ∀ i, i < t.j → (lZ t i).size = n)
    (hod : ∀ s, (t.w.odata.get s).size = n) :
    ∀ s, ((LGMRES.update prm stdIp sqrt P st t).w.odata.get s).size = n := by
  have hdx := lupdDx_size n t hj hz
  have hxw : (∀ s, ((LGMRES.updXW prm.pside P st.x t).2.odata.get s).size = n) ∧
      (LGMRES.updXW prm.pside P st.x t).2.r.size = n := by
    unfold LGMRES.updXW
    cases prm.pside
    · exact ⟨hod, hdx⟩
    · refine ⟨?_, ?_⟩
      · intro s
        show ((LGMRES.store (LGMRES.updW2 t) (t.w.wsp.get 0) (P (LGMRES.updDx t))).odata.get s).size = n
        cases t.w.wsp.get 0 with
        | null => exact hod s
        | vs i => exact hod s
        | outer s' =>
          show ((setF t.w.odata s' (P (LGMRES.updDx t))).get s).size = n
          rw [setF_get]
          split
          · exact hPsz _ hdx
          · exact hod s
      · rw [LGMRES.store_r]; exact hdx
  rw [LGMRES.update_eq]
  unfold LGMRES.updFin
  intro s
  split
  · dsimp only
    rw [setF_get]
    split
    · rw [axpby_size]; exact hxw.2
    · exact hxw.1 s
  · exact hxw.1 s

end zero

section cyc
variable {K : Type} [Field K] [LinearOrder K] [IsStrictOrderedRing K]

variable (n : ℕ) (A : CRS K) (hA : A.WF) (hn : A.nrows = n) (hm : A.ncols = n)
  (P : Vec K → Vec K) (Pl : (Fin n → K) →ₗ[K] (Fin n → K)) (hP : PDenotes n P Pl)
include hA hn hm hP

/-- **a restart cycle of LGMRES entered with `norm_r = 0` does not change the measured residual** -/
theorem lcycle_zero (prm : LGMRES.Params K) (sqrt : K → K) (f : Vec K) (epsT : K) (st : LGMRES.St K)
    (hr : st.w.r.size = n) (hod : ∀ s, (st.w.odata.get s).size = n) (h0 : st.normR = 0) :
    stdIp (GMRES.Rf prm.pside P f A (LGMRES.cycle prm stdIp sqrt A P epsT st).x)
        (GMRES.Rf prm.pside P f A (LGMRES.cycle prm stdIp sqrt A P epsT st).x)
      = stdIp (GMRES.Rf prm.pside P f A st.x) (GMRES.Rf prm.pside P f A st.x) := by
  have hge := (linner_eq prm sqrt A P epsT st).2
  have hx : (LGMRES.cycle prm stdIp sqrt A P epsT st).x
      = lCycleIterate prm sqrt A P st (LGMRES.inner prm stdIp sqrt A P epsT st).j := by
    unfold LGMRES.cycle lCycleIterate
    exact congrArg (fun t => (LGMRES.update prm stdIp sqrt P st t).x) (linner_eq prm sqrt A P epsT st).1
  rw [hx]
  generalize (LGMRES.inner prm stdIp sqrt A P epsT st).j = j at hge
  obtain ⟨_, _, hz⟩ := lPass_sizes n prm sqrt A P st hr hod j
  have hvec := lCycleIterate_vec n A hA hn hm P Pl hP sqrt prm st j hge hz
  have hy := backSubst_zero j (lPass prm sqrt A P st j).w.h.H (lPass prm sqrt A P st j).w.h.s
    (lPass_s_allzero prm sqrt A P st h0 j)
  have hsum : ∑ i ∈ range j, (backSubst j (lPass prm sqrt A P st j).w.h.H
        (lPass prm sqrt A P st j).w.h.s).get i • vecOf n (lZ (lPass prm sqrt A P st j) i) = 0 := by
    apply sum_eq_zero
    intro i _
    rw [hy i, zero_smul]
  rw [hsum, map_zero, add_zero] at hvec
  obtain ⟨r1, r2⟩ := Rf_vec n A hA hn hm P Pl hP prm.pside f (lCycleIterate prm sqrt A P st j)
  obtain ⟨q1, q2⟩ := Rf_vec n A hA hn hm P Pl hP prm.pside f st.x
  rw [stdIp_vecOf n _ _ r1 r1, stdIp_vecOf n _ _ q1 q1, r2, q2, hvec]

/-- a restart cycle keeps the stored augmentation vectors at length `n` -/
theorem lcycle_odata (prm : LGMRES.Params K) (sqrt : K → K) (epsT : K) (st : LGMRES.St K)
    (hr : st.w.r.size = n) (hod : ∀ s, (st.w.odata.get s).size = n) :
    ∀ s, ((LGMRES.cycle prm stdIp sqrt A P epsT st).w.odata.get s).size = n := by
  obtain ⟨he, hge⟩ := linner_eq prm sqrt A P epsT st
  have hPsz : ∀ u : Vec K, u.size = n → (P u).size = n := fun u hu => (hP u hu).1
  unfold LGMRES.cycle
  generalize hjj : (LGMRES.inner prm stdIp sqrt A P epsT st).j = j at he hge
  obtain ⟨_, _, hz⟩ := lPass_sizes n prm sqrt A P st hr hod j
  rw [he]
  have htj := lPass_j prm sqrt A P st j
  exact lupdate_odata n prm sqrt P hPsz st _ (by rw [htj]; exact hge) (fun i hi => hz i (by rw [htj] at hi; exact hi))
    (fun s => by
      show ((lPass prm sqrt A P st j).w.odata.get s).size = n
      rw [lInnerPass_odata]; exact hod s)

end cyc

section outer
variable {K : Type} [Field K] [LinearOrder K] [IsStrictOrderedRing K]

/-- the state at the `break` test after `k` restart cycles -/
def louterPass (prm : LGMRES.Params K) (sqrt : K → K) (A : CRS K) (P : Vec K → Vec K) (f : Vec K) (epsT : K)
    (st0 : LGMRES.St K) (k : ℕ) : LGMRES.St K :=
  (fun s => LGMRES.head prm.pside stdIp sqrt A P f (LGMRES.cycle prm stdIp sqrt A P epsT s))^[k] st0

theorem louterPass_succ (prm : LGMRES.Params K) (sqrt : K → K) (A : CRS K) (P : Vec K → Vec K) (f : Vec K) (epsT : K)
    (st0 : LGMRES.St K) (k : ℕ) :
    louterPass prm sqrt A P f epsT st0 (k + 1)
      = LGMRES.head prm.pside stdIp sqrt A P f
          (LGMRES.cycle prm stdIp sqrt A P epsT (louterPass prm sqrt A P f epsT st0 k)) := by
  unfold louterPass; rw [Function.iterate_succ_apply']

theorem lhead_odata (side : Side) (sqrt : K → K) (A : CRS K) (P : Vec K → Vec K) (f : Vec K) (st : LGMRES.St K) :
    (LGMRES.head side stdIp sqrt A P f st).w.odata = st.w.odata := by
  cases side <;> rfl

/-- **the call returns a member of the restart sequence**: the first one whose stopping test succeeds -/
theorem lfinal_eq_outerPass (prm : LGMRES.Params K) (sqrt : K → K) (A : CRS K) (P : Vec K → Vec K)
    (ws : LGMRES.Work K) (f x0 : Vec K) (nf : K) :
    ∃ k, k ≤ prm.maxiter ∧
      LGMRES.final prm stdIp sqrt A P ws f x0 nf
        = louterPass prm sqrt A P f (LGMRES.epsTol prm nf) (LGMRES.init prm stdIp sqrt A P ws f x0) k ∧
      (∀ i, i < k → LGMRES.stop prm.maxiter (LGMRES.epsTol prm nf)
        (louterPass prm sqrt A P f (LGMRES.epsTol prm nf) (LGMRES.init prm stdIp sqrt A P ws f x0) i) = false) ∧
      LGMRES.stop prm.maxiter (LGMRES.epsTol prm nf)
        (louterPass prm sqrt A P f (LGMRES.epsTol prm nf) (LGMRES.init prm stdIp sqrt A P ws f x0) k) = true := by
  obtain ⟨k, hk, h1, h2, _⟩ := loopN_iterate_conds (fun s => !LGMRES.stop prm.maxiter (LGMRES.epsTol prm nf) s)
    (fun s => LGMRES.head prm.pside stdIp sqrt A P f (LGMRES.cycle prm stdIp sqrt A P (LGMRES.epsTol prm nf) s))
    prm.maxiter (LGMRES.init prm stdIp sqrt A P ws f x0)
  have hfin : LGMRES.final prm stdIp sqrt A P ws f x0 nf
      = louterPass prm sqrt A P f (LGMRES.epsTol prm nf) (LGMRES.init prm stdIp sqrt A P ws f x0) k := h1
  refine ⟨k, hk, hfin, fun i hi => ?_, ?_⟩
  · have := h2 i hi
    unfold louterPass
    simpa using this
  · rw [← hfin]; exact LGMRES.outer_fuel_ok prm stdIp sqrt A P ws f x0 nf

variable (n : ℕ) (A : CRS K) (hA : A.WF) (hn : A.nrows = n) (hm : A.ncols = n)
  (P : Vec K → Vec K) (Pl : (Fin n → K) →ₗ[K] (Fin n → K)) (hP : PDenotes n P Pl)
include hA hn hm hP

/-- what every state of the restart sequence satisfies: it has just been through `head`, and the stored augmentation
vectors have length `n` -/
def LStInv (n : ℕ) (side : Side) (sqrt : K → K) (A : CRS K) (P : Vec K → Vec K) (f : Vec K) (st : LGMRES.St K) : Prop :=
  LGMRES.Inv side stdIp sqrt A P f st ∧ ∀ s, (st.w.odata.get s).size = n

omit hA hn hm hP in
theorem lstInv_r (side : Side) (sqrt : K → K) (f : Vec K) (st : LGMRES.St K)
    (h : LStInv n side sqrt A P f st) : st.w.r = GMRES.Rf side P f A st.x := h.1.1

theorem lstInv_rsize (side : Side) (sqrt : K → K) (f : Vec K) (st : LGMRES.St K)
    (h : LStInv n side sqrt A P f st) : st.w.r.size = n := by
  rw [lstInv_r n A P side sqrt f st h]; exact (Rf_vec n A hA hn hm P Pl hP side f _).1

theorem louterPass_inv (prm : LGMRES.Params K) (sqrt : K → K) (f : Vec K) (epsT : K) (st0 : LGMRES.St K)
    (h0 : LStInv n prm.pside sqrt A P f st0) (k : ℕ) :
    LStInv n prm.pside sqrt A P f (louterPass prm sqrt A P f epsT st0 k) := by
  induction k with
  | zero => exact h0
  | succ k ih =>
    rw [louterPass_succ]
    refine ⟨LGMRES.head_inv _ _ _ _ _ _ _, ?_⟩
    rw [lhead_odata]
    exact lcycle_odata n A hA hn hm P Pl hP prm sqrt epsT _
      (lstInv_rsize n A hA hn hm P Pl hP prm.pside sqrt f _ ih) ih.2

omit hA hn hm hP in
/-- a state of the sequence with non-zero residual is a `CycleStart` -/
theorem lstInv_cycleStart (side : Side) (sqrt : K → K) (f : Vec K) (st : LGMRES.St K)
    (h : LStInv n side sqrt A P f st) (hne : st.normR ≠ 0) : CycleStart side sqrt A P f (lToG st) :=
  ⟨h.1.1, by
    show st.normR = nrmA stdIp sqrt st.w.r
    rw [h.1.2, h.1.1], hne⟩

/-- one restart of LGMRES, threshold not negative -/
theorem louterPass_step_le (prm : LGMRES.Params K) (sqrt : K → K) (f : Vec K) (epsT : K) (heps : ¬ epsT < 0)
    (st0 : LGMRES.St K) (h0 : LStInv n prm.pside sqrt A P f st0) (k : ℕ)
    (hroots : (louterPass prm sqrt A P f epsT st0 k).normR ≠ 0 →
      LRootsExact prm sqrt A P (louterPass prm sqrt A P f epsT st0 k)
        (LGMRES.inner prm stdIp sqrt A P epsT (louterPass prm sqrt A P f epsT st0 k)).j) :
    stdIp (GMRES.Rf prm.pside P f A (louterPass prm sqrt A P f epsT st0 (k + 1)).x)
        (GMRES.Rf prm.pside P f A (louterPass prm sqrt A P f epsT st0 (k + 1)).x)
      ≤ stdIp (GMRES.Rf prm.pside P f A (louterPass prm sqrt A P f epsT st0 k).x)
        (GMRES.Rf prm.pside P f A (louterPass prm sqrt A P f epsT st0 k).x) := by
  have hi := louterPass_inv n A hA hn hm P Pl hP prm sqrt f epsT st0 h0 k
  rw [louterPass_succ, LGMRES.head_x]
  by_cases hne : (louterPass prm sqrt A P f epsT st0 k).normR = 0
  · exact le_of_eq (lcycle_zero n A hA hn hm P Pl hP prm sqrt f epsT _
      (lstInv_rsize n A hA hn hm P Pl hP prm.pside sqrt f _ hi) hi.2 hne)
  · exact lcycle_monotone n A hA hn hm P Pl hP sqrt f prm _
      (lstInv_cycleStart n A P prm.pside sqrt f _ hi hne) hi.2 epsT heps (hroots hne)

/-- **the whole restarted LGMRES sequence is monotone**, threshold not negative -/
theorem louterPass_antitone (prm : LGMRES.Params K) (sqrt : K → K) (f : Vec K) (epsT : K) (heps : ¬ epsT < 0)
    (st0 : LGMRES.St K) (h0 : LStInv n prm.pside sqrt A P f st0) (k : ℕ)
    (hroots : ∀ i, i < k → (louterPass prm sqrt A P f epsT st0 i).normR ≠ 0 →
      LRootsExact prm sqrt A P (louterPass prm sqrt A P f epsT st0 i)
        (LGMRES.inner prm stdIp sqrt A P epsT (louterPass prm sqrt A P f epsT st0 i)).j)
    (i j : ℕ) (hij : i ≤ j) (hj : j ≤ k) :
    stdIp (GMRES.Rf prm.pside P f A (louterPass prm sqrt A P f epsT st0 j).x)
        (GMRES.Rf prm.pside P f A (louterPass prm sqrt A P f epsT st0 j).x)
      ≤ stdIp (GMRES.Rf prm.pside P f A (louterPass prm sqrt A P f epsT st0 i).x)
        (GMRES.Rf prm.pside P f A (louterPass prm sqrt A P f epsT st0 i).x) := by
  induction j with
  | zero =>
    have : i = 0 := by omega
    subst this; exact le_refl _
  | succ j ih =>
    by_cases h : i = j + 1
    · subst h; exact le_refl _
    · exact le_trans
        (louterPass_step_le n A hA hn hm P Pl hP prm sqrt f epsT heps st0 h0 j (hroots j (by omega)))
        (ih (by omega) (by omega))

/-- the state of `init` satisfies the invariant when the incoming object holds augmentation vectors of length `n` -/
theorem linit_stInv (prm : LGMRES.Params K) (sqrt : K → K) (f : Vec K) (ws : LGMRES.Work K) (x0 : Vec K)
    (hws : ∀ s, (ws.odata.get s).size = n) :
    LStInv n prm.pside sqrt A P f (LGMRES.init prm stdIp sqrt A P (LGMRES.reset prm ws) f x0) := by
  refine ⟨LGMRES.head_inv _ _ _ _ _ _ _, ?_⟩
  unfold LGMRES.init
  rw [lhead_odata]
  show ∀ s, ((LGMRES.reset prm ws).odata.get s).size = n
  unfold LGMRES.reset
  split <;> exact hws

end outer
end Amgcl.Krylov
