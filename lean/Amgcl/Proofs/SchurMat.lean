import Amgcl.Proofs.SchurBlocks
import Amgcl.Proofs.Primitives
import Mathlib.Algebra.BigOperators.Fin
import Mathlib.Data.Fintype.BigOperators
import Mathlib.Data.Matrix.Mul
import Mathlib.LinearAlgebra.Matrix.NonsingularInverse
/-!
Bridge from the `Array`-level model to Mathlib matrices (C18): `toMat A r c` is the dense denotation of a CRS matrix,
`toV m x` the vector `i ↦ x.getD i 0`; `spmv`, `vmul` become `mulVec` / pointwise expressions.  The class lists of a
pressure mask give an equivalence `Fin nu ⊕ Fin np ≃ Fin n`, under which the matrix acts as the 2×2 block matrix of
the extracted sub-blocks (`blocks_mulVec`).
-/
namespace Amgcl
open Finset Matrix

section bridge
variable {K : Type}

/-- dense denotation of a CRS matrix with prescribed shape -/
def toMat [AddCommMonoid K] (A : CRS K) (r c : Nat) : Matrix (Fin r) (Fin c) K := fun i j => A.get i.val j.val

/-- a vector as a function on `Fin m` (entries beyond the array are `0`) -/
def toV [Zero K] (m : Nat) (x : Vec K) : Fin m → K := fun i => x.getD i.val 0

variable [CommRing K] [DecidableEq K]

theorem toV_spmv (α β : K) (A : CRS K) (x y : Vec K) (hA : A.WF) :
    toV A.nrows (spmv α A x β y) = α • (toMat A A.nrows A.ncols *ᵥ toV A.ncols x) + β • toV A.nrows y := by
  funext i
  have hi : i.val < A.nrows := i.isLt
  have hd := rowDot_eq_sum (A.row i.val) x A.ncols (hA.row_lt i.val)
  have hm : (toMat A A.nrows A.ncols *ᵥ toV A.ncols x) i = ∑ j ∈ range A.ncols, rowGet (A.row i.val) j * x.getD j 0 := by
    unfold Matrix.mulVec dotProduct toMat toV CRS.get
    exact Fin.sum_univ_eq_sum_range (fun j => rowGet (A.row i.val) j * x.getD j 0) A.ncols
  simp only [Pi.add_apply, Pi.smul_apply, smul_eq_mul, hm]
  unfold toV spmv
  by_cases hb : β = 0
  · rw [if_pos hb, getD_ofFn_lt _ _ _ hi, hd, hb]; ring
  · rw [if_neg hb, getD_ofFn_lt _ _ _ hi, hd]

theorem spmv_size'' (α β : K) (A : CRS K) (x y : Vec K) : (spmv α A x β y).size = A.nrows := by
  unfold spmv; split <;> simp

/-- shape-generic form: any `r`, `c` with `r = A.nrows`, `c = A.ncols` -/
theorem toV_spmv' (α β : K) (A : CRS K) (x y : Vec K) (hA : A.WF) (r c : Nat) (hr : A.nrows = r) (hc : A.ncols = c) :
    toV r (spmv α A x β y) = α • (toMat A r c *ᵥ toV c x) + β • toV r y := by
  subst hr hc; exact toV_spmv α β A x y hA

theorem toV_vmul (a b : K) (x y z : Vec K) (m : Nat) (hm : x.size = m) :
    toV m (vmul a x y b z) = fun i => a * toV m x i * toV m y i + b * toV m z i := by
  subst hm
  funext i
  unfold toV vmul
  by_cases hb : b = 0
  · rw [if_pos hb, getD_ofFn_lt _ _ _ i.isLt, hb]; ring
  · rw [if_neg hb, getD_ofFn_lt _ _ _ i.isLt]

theorem toV_vclear (m n : Nat) : toV m (vclear n : Vec K) = 0 := by
  funext i
  unfold toV vclear
  rw [getD_ofFn]; split <;> rfl

/-- two arrays of the same size `m` with the same `toV m` are equal -/
theorem vec_eq_of_toV {x y : Vec K} (m : Nat) (hx : x.size = m) (hy : y.size = m) (h : toV m x = toV m y) : x = y := by
  apply Vec.ext_getD (0 : K) (by rw [hx, hy])
  intro i hi
  have := congrFun h ⟨i, by omega⟩
  exact this

end bridge

namespace Schur

/-- the `k`-th index of class `b` as an element of `Fin n` -/
def sel (pm : Array Bool) (b : Bool) (k : Fin (cls pm b).length) : Fin pm.size :=
  ⟨(cls pm b)[k.val], (cls_mem pm b k.val k.isLt).1⟩

theorem sel_injective (pm : Array Bool) (b : Bool) : Function.Injective (sel pm b) := by
  intro k l h
  have h' : (cls pm b)[k.val] = (cls pm b)[l.val] := congrArg Fin.val h
  exact Fin.ext ((List.Nodup.getElem_inj_iff (cls_nodup pm b)).1 h')

theorem sel_cls (pm : Array Bool) (b : Bool) (k : Fin (cls pm b).length) : pm.getD (sel pm b k).val false = b :=
  (cls_mem pm b k.val k.isLt).2

/-- the index map `Fin nu ⊕ Fin np → Fin n` -/
def selSum (pm : Array Bool) : Fin (cls pm false).length ⊕ Fin (cls pm true).length → Fin pm.size :=
  Sum.elim (sel pm false) (sel pm true)

theorem selSum_bijective (pm : Array Bool) : Function.Bijective (selSum pm) := by
  constructor
  · intro s t h
    cases s with
    | inl a =>
      cases t with
      | inl a' => exact congrArg Sum.inl (sel_injective pm false h)
      | inr b' =>
        exfalso
        have h1 := sel_cls pm false a
        have h2 := sel_cls pm true b'
        have : sel pm false a = sel pm true b' := h
        rw [this, h2] at h1; cases h1
    | inr b =>
      cases t with
      | inl a' =>
        exfalso
        have h1 := sel_cls pm true b
        have h2 := sel_cls pm false a'
        have : sel pm true b = sel pm false a' := h
        rw [this, h2] at h1; cases h1
      | inr b' => exact congrArg Sum.inr (sel_injective pm true h)
  · intro j
    cases hb : pm.getD j.val false with
    | false =>
      obtain ⟨h1, h2⟩ := cls_getElem_cnt pm false j.val j.isLt hb
      exact ⟨Sum.inl ⟨cnt pm false j.val, h1⟩, Fin.ext h2⟩
    | true =>
      obtain ⟨h1, h2⟩ := cls_getElem_cnt pm true j.val j.isLt hb
      exact ⟨Sum.inr ⟨cnt pm true j.val, h1⟩, Fin.ext h2⟩

/-- the partition of the unknowns as an equivalence -/
noncomputable def selEquiv (pm : Array Bool) : Fin (cls pm false).length ⊕ Fin (cls pm true).length ≃ Fin pm.size :=
  Equiv.ofBijective (selSum pm) (selSum_bijective pm)

section blocks
variable {K : Type} [CommRing K]

/-- a sum over all unknowns splits into the sum over the u-unknowns and the sum over the p-unknowns -/
theorem sum_split (pm : Array Bool) (g : Fin pm.size → K) :
    ∑ j, g j = ∑ a, g (sel pm false a) + ∑ b, g (sel pm true b) := by
  rw [← Equiv.sum_comp (selEquiv pm) g, Fintype.sum_sum_type]
  rfl

/-- **block action**: with the sub-blocks `Muu = M[σu,σu]`, … the equation `M x = f` is the pair of block equations -/
theorem blocks_mulVec (pm : Array Bool) (M : Matrix (Fin pm.size) (Fin pm.size) K) (x f : Fin pm.size → K)
    (hu : M.submatrix (sel pm false) (sel pm false) *ᵥ (x ∘ sel pm false)
        + M.submatrix (sel pm false) (sel pm true) *ᵥ (x ∘ sel pm true) = f ∘ sel pm false)
    (hp : M.submatrix (sel pm true) (sel pm false) *ᵥ (x ∘ sel pm false)
        + M.submatrix (sel pm true) (sel pm true) *ᵥ (x ∘ sel pm true) = f ∘ sel pm true) :
    M *ᵥ x = f := by
  funext i
  obtain ⟨s, rfl⟩ := (selSum_bijective pm).2 i
  have hsplit : (M *ᵥ x) (selSum pm s)
      = ∑ a, M (selSum pm s) (sel pm false a) * x (sel pm false a)
        + ∑ b, M (selSum pm s) (sel pm true b) * x (sel pm true b) := by
    unfold Matrix.mulVec dotProduct
    exact sum_split pm (fun j => M (selSum pm s) j * x j)
  rw [hsplit]
  cases s with
  | inl a => exact congrFun hu a
  | inr b => exact congrFun hp b

end blocks

end Schur
end Amgcl
