import Amgcl.Proofs.SolverIDRs
/-!
Lemmas about the IDR(s) model, part 2 (property C01): **the recursively updated residual is the true one**.

Invariant of the `while` loop and of the `for k` loop (`TInv`): `r = f − A x`; `G[i] = A·U[i]` for `i < s`; `res_norm`
is the norm of `r`; with `smoothing` additionally `r_s = f − A x_s` and `res_norm` is the norm of `r_s`.  Every update
is a paired update with ARBITRARY coefficients (`beta`, `om`, `gamma`, `alpha`, `c[i]` — no breakdown hypothesis, any
inner product, any shadow space, any function `Prec` that returns vectors of the right length).
-/
namespace Amgcl.Solver.IDRs
open Amgcl Amgcl.Solver
set_option linter.unusedSectionVars false
set_option linter.unusedSimpArgs false
set_option linter.unusedVariables false

variable {K : Type} [Field K] [DecidableEq K] [LT K] [DecidableLT K]

/-! ### linear algebra -/

/-- `spmv` with `beta = 0` never reads the old output -/
theorem spmv_z (A : CRS K) (u z z' : Vec K) : spmv 1 A u 0 z = spmv 1 A u 0 z' := by simp [spmv]

/-- **linearity of `spmv`**: `A(a·u + v) = a·(A u) + A v` -/
theorem spmv_lin (A : CRS K) (hA : A.WF) (a : K) (u v z z' z'' : Vec K) (hu : A.ncols ≤ u.size) :
    spmv 1 A (axpby a u 1 v) 0 z = axpby a (spmv 1 A u 0 z') 1 (spmv 1 A v 0 z'') := by
  apply Vec.ext_getD (0 : K)
  · rw [spmv_size', axpby_size, spmv_size']
  · intro i hi
    rw [spmv_size'] at hi
    rw [spmv_getD _ _ _ _ _ _ hi, axpby_getD _ _ _ _ _ (by rw [spmv_size']; exact hi),
      spmv_getD _ _ _ _ _ _ hi, spmv_getD _ _ _ _ _ _ hi]
    have hl : rowDot (A.row i) (axpby a u 1 v) = a * rowDot (A.row i) u + 1 * rowDot (A.row i) v := by
      apply rowDot_lin
      intro cv hcv
      exact axpby_getD _ _ _ _ _ (lt_of_lt_of_le (row_cols_lt A hA i cv hcv) hu)
    rw [hl]; ring

/-- `A·0 = 0` -/
theorem spmv_vclear (A : CRS K) (m : Nat) (z : Vec K) : spmv 1 A (vclear m) 0 z = vclear A.nrows := by
  apply Vec.ext_getD (0 : K)
  · rw [spmv_size']; simp [vclear]
  · intro i hi
    rw [spmv_size'] at hi
    rw [spmv_getD _ _ _ _ _ _ hi, vclear_getD, rowDot_zero _ _ (fun cv _ => vclear_getD m cv.1)]
    ring

theorem vclear_size (m : Nat) : (vclear m : Vec K).size = m := by simp [vclear]

/-- **the smoothing step is a paired update**: `r_s ← r_s − γ(r_s − r)`, `x_s ← x_s − γ x_s + γ x` keeps
`r_s = f − A x_s` for ANY `γ` (given `r = f − A x`) -/
theorem smooth_pair (f : Vec K) (A : CRS K) (hA : A.WF) (γ : K) (xs x z : Vec K) (h : A.ncols ≤ xs.size) :
    axpby (-γ) (axpbypcz 1 (residual f A xs) (-1) (residual f A x) 0 z) 1 (residual f A xs)
      = residual f A (axpbypcz (-γ) xs γ x 1 xs) := by
  apply Vec.ext_getD (0 : K)
  · rw [axpby_size, axpbypcz_size, residual_size', residual_size']
  · intro i hi
    rw [axpby_size, axpbypcz_size, residual_size'] at hi
    rw [axpby_getD _ _ _ _ _ (by rw [axpbypcz_size, residual_size']; exact hi),
      axpbypcz_getD _ _ _ _ _ _ _ (by rw [residual_size']; exact hi),
      residual_getD _ _ _ _ hi, residual_getD _ _ _ _ hi, residual_getD _ _ _ _ hi]
    have hl : rowDot (A.row i) (axpbypcz (-γ) xs γ x 1 xs)
        = (1 - γ) * rowDot (A.row i) xs + γ * rowDot (A.row i) x := by
      apply rowDot_lin
      intro cv hcv
      rw [axpbypcz_getD _ _ _ _ _ _ _ (lt_of_lt_of_le (row_cols_lt A hA i cv hcv) h)]
      ring
    rw [hl]; ring

/-! ### the invariant -/

/-- `r` is the true residual of `x`; `G[i] = A·U[i]` (`i < s`); `res_norm` is the norm of `r`, resp. (smoothing) of
`r_s`, which is the true residual of `x_s` -/
def TInv (prm : Params K) (ip : Vec K → Vec K → K) (sqrt : K → K) (A : CRS K) (f : Vec K) (st : St K) : Prop :=
  st.w.r = residual f A st.x ∧
  (∀ i, i < prm.s → st.w.G i = spmv 1 A (st.w.U i) 0 #[] ∧ A.ncols ≤ (st.w.U i).size) ∧
  (prm.smoothing = false → st.resNorm = nrmA ip sqrt st.w.r) ∧
  (prm.smoothing = true →
    st.w.rs = residual f A st.w.xs ∧ A.ncols ≤ st.w.xs.size ∧ st.resNorm = nrmA ip sqrt st.w.rs)

/-- the block `res_norm = norm(*r); if (smoothing) {…}` touches neither `r` nor `G`, `U`, and re-establishes the
`res_norm` / `r_s` part of the invariant -/
theorem post_spec (prm : Params K) (ip : Vec K → Vec K → K) (sqrt : K → K) (A : CRS K) (hA : A.WF) (f : Vec K)
    (w : Work K) (x : Vec K) (hr : w.r = residual f A x)
    (hs : prm.smoothing = true → w.rs = residual f A w.xs ∧ A.ncols ≤ w.xs.size) :
    (post prm ip sqrt w x).1.r = w.r ∧ (post prm ip sqrt w x).1.G = w.G ∧ (post prm ip sqrt w x).1.U = w.U ∧
    (prm.smoothing = false → (post prm ip sqrt w x).2 = nrmA ip sqrt w.r) ∧
    (prm.smoothing = true →
      (post prm ip sqrt w x).1.rs = residual f A (post prm ip sqrt w x).1.xs ∧
      A.ncols ≤ (post prm ip sqrt w x).1.xs.size ∧
      (post prm ip sqrt w x).2 = nrmA ip sqrt (post prm ip sqrt w x).1.rs) := by
  unfold post
  cases hsm : prm.smoothing with
  | false => simp
  | true =>
    obtain ⟨h1, h2⟩ := hs hsm
    simp only [if_true, smooth, true_and, Bool.true_eq_false, false_implies, forall_const]
    refine ⟨?_, ?_⟩
    · rw [h1, hr]
      exact smooth_pair f A hA _ w.xs x w.t h2
    · rw [axpbypcz_size]; exact ⟨h2, trivial⟩

theorem kuk1_size (prm : Params K) (A : CRS K) (Prec : Vec K → Vec K) (k : Nat) (st : St K)
    (hP : ∀ v, A.ncols ≤ (Prec v).size) (hU : ∀ i, i < prm.s → A.ncols ≤ (st.w.U i).size) :
    A.ncols ≤ (kuk1 prm Prec k st).size := by
  unfold kuk1
  apply foldl_mem_inv _ (fun u : Vec K => A.ncols ≤ u.size)
  · rw [axpby_size]; exact hP _
  · intro u i hi _
    rw [axpby_size]; exact hU i (mem_range_drop hi).2

/-- the bi-orthogonalisation keeps `G[k] = A·U[k]`, for ANY coefficients `alpha` -/
theorem kgu_spec (prm : Params K) (ip : Vec K → Vec K → K) (A : CRS K) (hA : A.WF) (Prec : Vec K → Vec K)
    (Pv : FArr (Vec K)) (k : Nat) (st : St K) (hk : k ≤ prm.s)
    (hGU : ∀ i, i < prm.s → st.w.G i = spmv 1 A (st.w.U i) 0 #[] ∧ A.ncols ≤ (st.w.U i).size)
    (hu1 : A.ncols ≤ (kuk1 prm Prec k st).size) :
    (kgu prm ip A Prec Pv k st).1 = spmv 1 A (kgu prm ip A Prec Pv k st).2 0 #[] ∧
    A.ncols ≤ (kgu prm ip A Prec Pv k st).2.size := by
  unfold kgu
  apply foldl_mem_inv _ (fun acc : Vec K × Vec K => acc.1 = spmv 1 A acc.2 0 #[] ∧ A.ncols ≤ acc.2.size)
  · exact ⟨spmv_z _ _ _ _, hu1⟩
  · intro acc i hi ⟨h1, h2⟩
    have hik : i < prm.s := lt_of_lt_of_le (List.mem_range.mp hi) hk
    obtain ⟨g1, g2⟩ := hGU i hik
    dsimp only
    refine ⟨?_, ?_⟩
    · rw [spmv_lin A hA _ (st.w.U i) acc.2 #[] #[] #[] g2, ← g1, ← h1]
    · rw [axpby_size]; exact g2

/-- what every normal exit of `kStep` stores -/
theorem kStep_shape (prm : Params K) (ip : Vec K → Vec K → K) (sqrt : K → K) (A : CRS K) (Prec : Vec K → Vec K)
    (Pv : FArr (Vec K)) (epsT : K) (k : Nat) (st st' : St K) (b : Bool)
    (h : kStep prm ip sqrt A Prec Pv epsT k st = .ok (st', b)) :
    st'.x = kx prm ip A Prec Pv k st ∧ st'.resNorm = (kpost prm ip sqrt A Prec Pv k st).2 ∧
    st'.w.r = (kpost prm ip sqrt A Prec Pv k st).1.r ∧ st'.w.G = (kpost prm ip sqrt A Prec Pv k st).1.G ∧
    st'.w.U = (kpost prm ip sqrt A Prec Pv k st).1.U ∧ st'.w.rs = (kpost prm ip sqrt A Prec Pv k st).1.rs ∧
    st'.w.xs = (kpost prm ip sqrt A Prec Pv k st).1.xs := by
  rw [kStep_eq] at h
  split at h
  · cases h
  · split at h
    · cases h; exact ⟨rfl, rfl, rfl, rfl, rfl, rfl, rfl⟩
    · split at h
      · cases h; exact ⟨rfl, rfl, rfl, rfl, rfl, rfl, rfl⟩
      · cases h; exact ⟨rfl, rfl, rfl, rfl, rfl, rfl, rfl⟩

/-- one `k` pass keeps the invariant -/
theorem kStep_inv (prm : Params K) (ip : Vec K → Vec K → K) (sqrt : K → K) (A : CRS K) (hA : A.WF)
    (Prec : Vec K → Vec K) (hP : ∀ v, A.ncols ≤ (Prec v).size) (Pv : FArr (Vec K)) (f : Vec K) (epsT : K)
    (k : Nat) (hk : k ≤ prm.s) (st st' : St K) (b : Bool) (hi : TInv prm ip sqrt A f st)
    (h : kStep prm ip sqrt A Prec Pv epsT k st = .ok (st', b)) : TInv prm ip sqrt A f st' := by
  obtain ⟨i1, i2, i3, i4⟩ := hi
  obtain ⟨e1, e2, e3, e4, e5, e6, e7⟩ := kStep_shape prm ip sqrt A Prec Pv epsT k st st' b h
  have hu1 := kuk1_size prm A Prec k st hP (fun i hi => (i2 i hi).2)
  obtain ⟨g1, g2⟩ := kgu_spec prm ip A hA Prec Pv k st hk i2 hu1
  -- `r -= beta*G[k]`, `x += beta*U[k]`
  have hr : (kw2 prm ip A Prec Pv k st).r = residual f A (kx prm ip A Prec Pv k st) := by
    show axpby (-(kbeta prm ip A Prec Pv k st)) (kgu prm ip A Prec Pv k st).1 1 st.w.r = _
    rw [g1, i1]
    exact paired_update_inv f A hA _ _ st.x #[] g2
  have hs : prm.smoothing = true → (kw2 prm ip A Prec Pv k st).rs = residual f A (kw2 prm ip A Prec Pv k st).xs ∧
      A.ncols ≤ (kw2 prm ip A Prec Pv k st).xs.size := fun hsm => ⟨(i4 hsm).1, (i4 hsm).2.1⟩
  obtain ⟨p1, p2, p3, p4, p5⟩ := post_spec prm ip sqrt A hA f _ _ hr hs
  unfold TInv
  rw [e1, e2, e3, e4, e5, e6, e7]
  unfold kpost
  rw [p1, p2, p3]
  refine ⟨hr, ?_, fun hsm => p4 hsm, fun hsm => p5 hsm⟩
  intro i hi
  show (setF st.w.G k _).get i = spmv 1 A ((setF st.w.U k _).get i) 0 #[] ∧ A.ncols ≤ ((setF st.w.U k _).get i).size
  rw [setF_get, setF_get]
  by_cases hik : i = k
  · rw [if_pos hik, if_pos hik]; exact ⟨g1, g2⟩
  · rw [if_neg hik, if_neg hik]; exact i2 i hi

theorem kLoop_inv (prm : Params K) (ip : Vec K → Vec K → K) (sqrt : K → K) (A : CRS K) (hA : A.WF)
    (Prec : Vec K → Vec K) (hP : ∀ v, A.ncols ≤ (Prec v).size) (Pv : FArr (Vec K)) (f : Vec K) (epsT : K) :
    ∀ (fuel k : Nat) (st st' : St K), k + fuel = prm.s → TInv prm ip sqrt A f st →
      kLoop prm ip sqrt A Prec Pv epsT fuel k st = .ok st' → TInv prm ip sqrt A f st' := by
  intro fuel
  induction fuel with
  | zero => intro k st st' _ hi h; simp only [kLoop] at h; cases h; exact hi
  | succ n ih =>
    intro k st st' hk hi h
    unfold kLoop at h
    cases hks : kStep prm ip sqrt A Prec Pv epsT k st with
    | error e => rw [hks] at h; cases h
    | ok sb =>
      obtain ⟨s1, b⟩ := sb
      rw [hks] at h
      have h1 := kStep_inv prm ip sqrt A hA Prec hP Pv f epsT k (by omega) st s1 b hi hks
      cases b with
      | true => simp only at h; cases h; exact h1
      | false => simp only at h; exact ih (k + 1) s1 st' (by omega) h1 h

/-- the `om` step (with or without residual replacement) keeps the invariant, for ANY `om` -/
theorem tail_inv (prm : Params K) (ip : Vec K → Vec K → K) (sqrt : K → K) (A : CRS K) (hA : A.WF)
    (Prec : Vec K → Vec K) (hP : ∀ v, A.ncols ≤ (Prec v).size) (f : Vec K) (epsT : K) (st1 st' : St K)
    (hi : TInv prm ip sqrt A f st1) (h : tail prm ip sqrt A Prec f epsT st1 = .ok st') :
    TInv prm ip sqrt A f st' := by
  unfold tail at h
  split at h
  · cases h; exact hi
  · split at h
    · cases h
    · cases h
      obtain ⟨i1, i2, i3, i4⟩ := hi
      have hr : (bw2 prm ip sqrt A Prec f st1).r = residual f A (bx prm ip sqrt A Prec st1) := by
        show (if prm.replacement then residual f A (bx prm ip sqrt A Prec st1)
              else axpby (-(bom prm ip sqrt A Prec st1)) (bt A Prec st1) 1 st1.w.r) = _
        split
        · rfl
        · have := paired_update_inv f A hA (bom prm ip sqrt A Prec st1) (Prec st1.w.r) st1.x st1.w.t (hP _)
          rw [← i1] at this
          exact this
      have hs : prm.smoothing = true →
          (bw2 prm ip sqrt A Prec f st1).rs = residual f A (bw2 prm ip sqrt A Prec f st1).xs ∧
          A.ncols ≤ (bw2 prm ip sqrt A Prec f st1).xs.size := fun hsm => ⟨(i4 hsm).1, (i4 hsm).2.1⟩
      obtain ⟨p1, p2, p3, p4, p5⟩ := post_spec prm ip sqrt A hA f _ _ hr hs
      unfold TInv
      dsimp only
      rw [p1, p2, p3]
      exact ⟨hr, i2, fun hsm => p4 hsm, fun hsm => p5 hsm⟩

/-- one pass of the `while` body keeps the invariant -/
theorem body_inv (prm : Params K) (ip : Vec K → Vec K → K) (sqrt : K → K) (A : CRS K) (hA : A.WF)
    (Prec : Vec K → Vec K) (hP : ∀ v, A.ncols ≤ (Prec v).size) (Pv : FArr (Vec K)) (f : Vec K) (epsT : K)
    (st st' : St K) (hi : TInv prm ip sqrt A f st) (h : body prm ip sqrt A Prec Pv f epsT st = .ok st') :
    TInv prm ip sqrt A f st' := by
  rw [body_eq] at h
  cases hk : kLoop prm ip sqrt A Prec Pv epsT prm.s 0 (bodyF prm ip Pv st) with
  | error e => rw [hk] at h; cases h
  | ok st1 =>
    rw [hk] at h
    simp only at h
    have h0 : TInv prm ip sqrt A f (bodyF prm ip Pv st) := hi
    have h1 := kLoop_inv prm ip sqrt A hA Prec hP Pv f epsT prm.s 0 _ st1 (by omega) h0 hk
    exact tail_inv prm ip sqrt A hA Prec hP f epsT st1 st' h1 h

/-- the state on loop entry satisfies the invariant (`U[i] = 0`, `G[i] = 0 = A·0`) -/
theorem init_inv (prm : Params K) (ip : Vec K → Vec K → K) (sqrt : K → K) (A : CRS K) (hsq : A.ncols ≤ A.nrows)
    (ws : Work K) (f x0 : Vec K) (hx : prm.smoothing = true → A.ncols ≤ x0.size) :
    TInv prm ip sqrt A f (init prm ws x0 (residual f A x0) (nrmA ip sqrt (residual f A x0))) := by
  obtain ⟨h1, h2, h3, _⟩ := initW_spec prm ws x0 (residual f A x0)
  unfold TInv
  rw [init_w, init_x, init_resNorm, h1]
  refine ⟨rfl, ?_, fun _ => rfl, ?_⟩
  · intro i hi
    obtain ⟨g1, g2⟩ := h3 i hi
    rw [g1, g2, spmv_vclear, residual_size', vclear_size]
    exact ⟨rfl, hsq⟩
  · intro hsm
    obtain ⟨g1, g2⟩ := h2 hsm
    rw [g1, g2, vcopy_eq, vcopy_eq]
    exact ⟨rfl, hx hsm, rfl⟩

/-- **normal exit of the `while` loop: the invariant holds** -/
theorem final_inv (prm : Params K) (ip : Vec K → Vec K → K) (sqrt : K → K) (A : CRS K) (hA : A.WF)
    (hsq : A.ncols ≤ A.nrows) (Prec : Vec K → Vec K) (hP : ∀ v, A.ncols ≤ (Prec v).size) (Pv : FArr (Vec K))
    (ws : Work K) (f x0 : Vec K) (hx : prm.smoothing = true → A.ncols ≤ x0.size) (nf : K) (st : St K)
    (h : final prm ip sqrt A Prec Pv ws f x0 nf = (none, st)) : TInv prm ip sqrt A f st := by
  unfold final loop at h
  exact loopE_inv _ _ (TInv prm ip sqrt A f)
    (fun s s' hi _ hb => body_inv prm ip sqrt A hA Prec hP Pv f _ s s' hi hb) _ _ _
    (init_inv prm ip sqrt A hsq ws f x0 hx) h

/-- **IDR(s) reports the true residual of the `x` it returns** (with and without smoothing, with and without
residual replacement): weakest shape hypotheses (`ncols ≤ nrows`, `Prec` returns at least `ncols` entries, and with
smoothing `x0` has at least `ncols` entries) -/
theorem solve_truthful (prm : Params K) (ip : Vec K → Vec K → K) (sqrt : K → K) (eps : K) (A : CRS K) (hA : A.WF)
    (hsq : A.ncols ≤ A.nrows) (Prec : Vec K → Vec K) (hP : ∀ v, A.ncols ≤ (Prec v).size) (Pv : FArr (Vec K))
    (ws : Work K) (f x0 : Vec K) (hx : prm.smoothing = true → A.ncols ≤ x0.size)
    (it : Nat) (res : K) (x : Vec K) (w : Work K)
    (h : solve prm ip sqrt eps A Prec Pv ws f x0 = .ok (it, res, x, w)) :
    res = reported (prologueA prm.nsSearch ip sqrt eps f) (nrmA ip sqrt (residual f A x)) := by
  rw [solve, Run.toExcept_ok] at h
  cases hp : prologueA prm.nsSearch ip sqrt eps f with
  | trivial n =>
    rw [run_trivial prm ip sqrt eps A Prec Pv ws f x0 n hp] at h
    simp only [Prod.mk.injEq, Except.ok.injEq] at h
    simp [reported, h.1.2]
  | go nf =>
    rw [run_go prm ip sqrt eps A Prec Pv ws f x0 nf hp] at h
    simp only [reported]
    split at h
    · simp only [Prod.mk.injEq, Except.ok.injEq] at h
      rw [← h.1.2, ← h.2.1]
    · cases hfin : final prm ip sqrt A Prec Pv ws f x0 nf with
      | mk oe st =>
        rw [hfin] at h
        cases oe with
        | some e => simp at h
        | none =>
          simp only [Prod.mk.injEq, Except.ok.injEq] at h
          obtain ⟨⟨_, h2⟩, h3, _⟩ := h
          obtain ⟨i1, _, i3, i4⟩ := final_inv prm ip sqrt A hA hsq Prec hP Pv ws f x0 hx nf st hfin
          rw [← h2, ← h3]
          cases hsm : prm.smoothing with
          | false => simp only [Bool.false_eq_true, if_false]; rw [i3 hsm, i1]
          | true =>
            obtain ⟨j1, _, j3⟩ := i4 hsm
            simp only [if_true]; rw [j3, j1, vcopy_eq]

/-- **C01 for IDR(s) without smoothing** -/
theorem solve_truthful_partial (prm : Params K) (hsm : prm.smoothing = false) (ip : Vec K → Vec K → K)
    (sqrt : K → K) (eps : K) (A : CRS K) (hA : A.WF) (hsq : A.nrows = A.ncols) (Prec : Vec K → Vec K)
    (hP : ∀ v, (Prec v).size = A.ncols) (Pv : FArr (Vec K)) (ws : Work K) (f x0 : Vec K)
    (it : Nat) (res : K) (x : Vec K) (w : Work K)
    (h : solve prm ip sqrt eps A Prec Pv ws f x0 = .ok (it, res, x, w)) :
    res = reported (prologueA prm.nsSearch ip sqrt eps f) (nrmA ip sqrt (residual f A x)) :=
  solve_truthful prm ip sqrt eps A hA (le_of_eq hsq.symm) Prec (fun v => le_of_eq (hP v).symm) Pv ws f x0
    (fun h' => by rw [hsm] at h'; cases h') it res x w h

/-- **C01 for IDR(s) with smoothing**: the returned `x` is `x_s`, the reported norm that of `r_s = f − A x_s`;
needs the initial guess to have the length of the system (`x_s` starts as a copy of it) -/
theorem solve_truthful_smoothing (prm : Params K) (ip : Vec K → Vec K → K)
    (sqrt : K → K) (eps : K) (A : CRS K) (hA : A.WF) (hsq : A.nrows = A.ncols) (Prec : Vec K → Vec K)
    (hP : ∀ v, (Prec v).size = A.ncols) (Pv : FArr (Vec K)) (ws : Work K) (f x0 : Vec K) (hx : x0.size = A.ncols)
    (it : Nat) (res : K) (x : Vec K) (w : Work K)
    (h : solve prm ip sqrt eps A Prec Pv ws f x0 = .ok (it, res, x, w)) :
    res = reported (prologueA prm.nsSearch ip sqrt eps f) (nrmA ip sqrt (residual f A x)) :=
  solve_truthful prm ip sqrt eps A hA (le_of_eq hsq.symm) Prec (fun v => le_of_eq (hP v).symm) Pv ws f x0
    (fun _ => le_of_eq hx.symm) it res x w h

end Amgcl.Solver.IDRs
