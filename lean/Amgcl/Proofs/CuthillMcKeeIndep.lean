import Amgcl.Proofs.CuthillMcKeeMain
/-!
`cuthill_mckee::get` never reads `perm`: the run on a different incoming `perm` of the same length is the same run with
`perm` replaced, and the two `perm`s agree on the numbered prefix `0..next-1`.  Since the final `next` is `n`, the result
does not depend on the incoming content of `perm`.
-/
namespace Amgcl.CMK
open Amgcl.Arr2

variable {K : Type}

/-- `p` can replace `s.perm`: same length, same numbered prefix -/
def SimP (s : St) (p : Array Nat) : Prop :=
  p.size = s.perm.size ∧ ∀ k, k < s.next → p.getD k 0 = s.perm.getD k 0

/-- `s` with `perm` replaced -/
@[reducible] def sub (s : St) (p : Array Nat) : St := { s with perm := p }

/-- `F` does not read `perm` -/
def SimF (F : St → Res St) : Prop :=
  ∀ s s' p, SimP s p → F s = .ok s' → ∃ p', F (sub s p) = .ok (sub s' p') ∧ SimP s' p'

theorem wr_eq_ok {α : Type} {a a' : Array α} {i : Nat} {v : α} (h : wr a i v = .ok a') :
    i < a.size ∧ a' = a.setIfInBounds i v := by
  unfold wr at h
  by_cases hi : i < a.size
  · rw [if_pos hi] at h; injection h with h; exact ⟨hi, h.symm⟩
  · rw [if_neg hi] at h; exact absurd h (by simp)

theorem simP_write {s : St} {p : Array Nat} (h : SimP s p) (c : Nat) (hn : s.next < s.perm.size) (s' : St)
    (hp : s'.perm = s.perm.setIfInBounds s.next c) (hnx : s'.next = s.next + 1) :
    SimP s' (p.setIfInBounds s.next c) := by
  refine ⟨by rw [hp]; simp [h.1], ?_⟩
  intro k hk
  rw [hp, getD_setIfInBounds, getD_setIfInBounds, h.1]
  by_cases h1 : s.next = k ∧ s.next < s.perm.size
  · rw [if_pos h1, if_pos h1]
  · rw [if_neg h1, if_neg h1]
    have : s.next ≠ k := fun e => h1 ⟨e, hn⟩
    exact h.2 k (by omega)

theorem visitCol_sim (degree : Array Nat) (c : Nat) : SimF (fun s => visitCol degree s c) := by
  intro s s' p hp h
  simp only [visitCol, bind_def, pure_def] at h ⊢
  obtain ⟨l, h1, h2⟩ := bind_eq_ok h
  rw [h1, Res.bind_ok]
  by_cases hl : l = 0
  · rw [if_pos hl] at h2 ⊢
    obtain ⟨ls, h3, h4⟩ := bind_eq_ok h2
    obtain ⟨pm, h5, h6⟩ := bind_eq_ok h4
    obtain ⟨dc, h7, h8⟩ := bind_eq_ok h6
    obtain ⟨nf, h9, h10⟩ := bind_eq_ok h8
    obtain ⟨ns, h11, h12⟩ := bind_eq_ok h10
    obtain ⟨nfw, h13, h14⟩ := bind_eq_ok h12
    obtain ⟨hlt, hpm⟩ := wr_eq_ok h5
    injection h14 with h14
    subst h14
    refine ⟨p.setIfInBounds s.next c, ?_, simP_write hp c hlt _ hpm rfl⟩
    rw [h3, Res.bind_ok, wr_ok _ (by rw [hp.1]; exact hlt), Res.bind_ok, h7, Res.bind_ok, h9, Res.bind_ok, h11,
      Res.bind_ok, h13, Res.bind_ok]
  · rw [if_neg hl] at h2 ⊢
    injection h2 with h2
    subst h2
    exact ⟨p, rfl, hp⟩

theorem foldR_sim {α : Type} (f : St → α → Res St) (hf : ∀ a, SimF (fun s => f s a)) :
    ∀ (l : List α), SimF (fun s => foldR f s l) := by
  intro l
  induction l with
  | nil =>
    intro s s' p hp h
    simp only [foldR] at h ⊢
    injection h with h; subst h
    exact ⟨p, rfl, hp⟩
  | cons a l ih =>
    intro s s' p hp h
    simp only [foldR] at h ⊢
    obtain ⟨s1, h1, h2⟩ := bind_eq_ok h
    obtain ⟨p1, h3, hp1⟩ := hf a s s1 p hp h1
    obtain ⟨p2, h4, hp2⟩ := ih s1 s' p1 hp1 h2
    dsimp only at h3 h4
    exact ⟨p2, by rw [h3, Res.bind_ok]; exact h4, hp2⟩

theorem visitRow_sim (degree : Array Nat) (r : Row K) : SimF (fun s => visitRow degree s r) :=
  foldR_sim (fun s (cv : Nat × K) => visitCol degree s cv.1) (fun cv => visitCol_sim degree cv.1) r

theorem walk_sim (A : CRS K) (degree : Array Nat) : ∀ (fuel : Nat) (node : Int), SimF (walk A degree fuel node) := by
  intro fuel
  induction fuel with
  | zero =>
    intro node s s' p hp h
    by_cases hpos : node > 0
    · simp only [walk, if_pos hpos] at h; exact absurd h (by simp)
    · simp only [walk, if_neg hpos] at h ⊢
      injection h with h; subst h
      exact ⟨p, rfl, hp⟩
  | succ fuel ih =>
    intro node s s' p hp h
    by_cases hpos : node > 0
    · rw [walk, if_pos hpos] at h
      rw [walk, if_pos hpos]
      by_cases hr : node.toNat < A.nrows
      · rw [if_pos hr] at h ⊢
        obtain ⟨s1, h1, h2⟩ := bind_eq_ok h
        obtain ⟨nd, h3, h4⟩ := bind_eq_ok h2
        obtain ⟨p1, h5, hp1⟩ := visitRow_sim degree (A.row node.toNat) s s1 p hp h1
        obtain ⟨p2, h6, hp2⟩ := ih nd s1 s' p1 hp1 h4
        refine ⟨p2, ?_, hp2⟩
        dsimp only at h5
        rw [h5, Res.bind_ok]
        show (rd s1.nextSameDegree node.toNat).bind _ = _
        rw [h3, Res.bind_ok]
        exact h6
      · rw [if_neg hr] at h; exact absurd h (by simp)
    · simp only [walk, if_neg hpos] at h ⊢
      injection h with h; subst h
      exact ⟨p, rfl, hp⟩

theorem scanDegree_sim (A : CRS K) (degree : Array Nat) (walkFuel sought : Nat) :
    SimF (fun s => scanDegree A degree walkFuel s sought) := by
  intro s s' p hp h
  simp only [scanDegree] at h ⊢
  obtain ⟨nd, h1, h2⟩ := bind_eq_ok h
  obtain ⟨p1, h3, hp1⟩ := walk_sim A degree walkFuel nd s s' p hp h2
  refine ⟨p1, ?_, hp1⟩
  show (rd s.firstWithDegree sought).bind _ = _
  rw [h1, Res.bind_ok]
  exact h3

theorem fallback_sim (n : Nat) (degree : Array Nat) : SimF (fallback n degree) := by
  intro s s' p hp h
  simp only [fallback, bind_def, pure_def] at h ⊢
  obtain ⟨r, h1, h2⟩ := bind_eq_ok h
  rw [h1, Res.bind_ok]
  cases r with
  | none => exact absurd h2 (by simp)
  | some i =>
    simp only at h2 ⊢
    obtain ⟨pm, h5, h6⟩ := bind_eq_ok h2
    obtain ⟨ls, h3, h4⟩ := bind_eq_ok h6
    obtain ⟨d, h7, h8⟩ := bind_eq_ok h4
    obtain ⟨fw, h9, h10⟩ := bind_eq_ok h8
    obtain ⟨hlt, hpm⟩ := wr_eq_ok h5
    injection h10 with h10
    subst h10
    refine ⟨p.setIfInBounds s.next i, ?_, simP_write hp i hlt _ hpm rfl⟩
    rw [wr_ok _ (by rw [hp.1]; exact hlt), Res.bind_ok, h3, Res.bind_ok, h7, Res.bind_ok, h9, Res.bind_ok]

theorem level_sim (reverse : Bool) (A : CRS K) (n : Nat) (degree : Array Nat) (walkFuel : Nat) :
    SimF (level reverse A n degree walkFuel) := by
  intro s s' p hp h
  unfold level at h ⊢
  dsimp only at h ⊢
  obtain ⟨s1, h1, h2⟩ := bind_eq_ok h
  obtain ⟨fw, h3, h4⟩ := bind_eq_ok h2
  have hp0 : SimP
      { s with nMDICLS := 0, nFirstWithDegree := Array.replicate s.nFirstWithDegree.size (-1), empty := true } p := hp
  obtain ⟨p1, h5, hp1⟩ := foldR_sim (scanDegree A degree walkFuel) (fun a => scanDegree_sim A degree walkFuel a)
    (soughtList reverse s.maxDegreeInCurrentLevelSet) _ s1 p hp0 h1
  dsimp only [sub] at h5
  rw [h5, Res.bind_ok]
  dsimp only
  rw [h3, Res.bind_ok]
  by_cases he : s1.empty = true
  · rw [if_pos he] at h4 ⊢
    have hp3 : SimP
        { s1 with currentLevelSet := s1.currentLevelSet + 1, maxDegreeInCurrentLevelSet := s1.nMDICLS,
                  firstWithDegree := fw } p1 := hp1
    exact fallback_sim n degree _ s' p1 hp3 h4
  · rw [if_neg he] at h4 ⊢
    injection h4 with h4; subst h4
    exact ⟨p1, rfl, hp1⟩

theorem mainLoop_sim (reverse : Bool) (A : CRS K) (n : Nat) (degree : Array Nat) (walkFuel : Nat) :
    ∀ (fuel : Nat), SimF (mainLoop reverse A n degree walkFuel fuel) := by
  intro fuel
  induction fuel with
  | zero =>
    intro s s' p hp h
    by_cases h1 : s.next < n
    · simp only [mainLoop, if_pos h1] at h; exact absurd h (by simp)
    · simp only [mainLoop, if_neg h1] at h
      injection h with h; subst h
      exact ⟨p, by simp only [mainLoop]; rw [if_neg h1], hp⟩
  | succ fuel ih =>
    intro s s' p hp h
    by_cases h1 : s.next < n
    · rw [mainLoop, if_pos h1] at h
      obtain ⟨s1, h2, h3⟩ := bind_eq_ok h
      obtain ⟨p1, h4, hp1⟩ := level_sim reverse A n degree walkFuel s s1 p hp h2
      obtain ⟨p2, h5, hp2⟩ := ih s1 s' p1 hp1 h3
      refine ⟨p2, ?_, hp2⟩
      rw [mainLoop, if_pos h1, h4, Res.bind_ok]
      exact h5
    · simp only [mainLoop, if_neg h1] at h
      injection h with h; subst h
      exact ⟨p, by rw [mainLoop, if_neg h1], hp⟩

/-- **the result does not depend on the incoming content of `perm`** -/
theorem get_indep (reverse : Bool) (A : CRS K) (perm0 perm0' : Array Nat) (hn : 1 ≤ A.nrows) (hsq : A.ncols = A.nrows)
    (hwf : A.WF) (hp : perm0.size = A.nrows) (hp' : perm0'.size = A.nrows) :
    get reverse A perm0' = get reverse A perm0 := by
  obtain ⟨s0, h0, hI0, hn0, hz0⟩ := initSt_spec A perm0 hn hp
  obtain ⟨s1, h1, hI1, hn1, _⟩ := mainLoop_spec (ctx_of_wf A hsq hwf) reverse (Nat.le_refl _) A.nrows s0 hI0 (by omega)
  have h0' : initSt A perm0' = .ok (sub s0 (perm0'.setIfInBounds 0 0)) ∧ SimP s0 (perm0'.setIfInBounds 0 0) := by
    simp only [initSt, bind_def, pure_def] at h0 ⊢
    obtain ⟨pm, a1, a2⟩ := bind_eq_ok h0
    obtain ⟨ls, a3, a4⟩ := bind_eq_ok a2
    obtain ⟨md, a5, a6⟩ := bind_eq_ok a4
    obtain ⟨fw, a7, a8⟩ := bind_eq_ok a6
    obtain ⟨_, hpm⟩ := wr_eq_ok a1
    injection a8 with a8
    subst a8
    refine ⟨by rw [wr_ok _ (by omega), Res.bind_ok, a3, Res.bind_ok, a5, Res.bind_ok, a7, Res.bind_ok], ?_, ?_⟩
    · show (perm0'.setIfInBounds 0 0).size = pm.size
      rw [hpm]; simp [hp, hp']
    · intro k (hk : k < 1)
      have : k = 0 := by omega
      subst this
      show (perm0'.setIfInBounds 0 0).getD 0 0 = pm.getD 0 0
      rw [hpm, getD_setIfInBounds_self _ _ _ (by omega), getD_setIfInBounds_self _ _ _ (by omega)]
  obtain ⟨p1, h2, hp1⟩ := mainLoop_sim reverse A A.nrows (degrees A) A.nrows A.nrows s0 s1 _ h0'.2 h1
  have e : p1 = s1.perm := by
    apply Array.ext hp1.1
    intro i hi1 hi2
    have := hp1.2 i (by rw [hn1, ← hI1.lab.hperm]; exact hi2)
    simpa [Array.getD, hi1, hi2] using this
  simp only [get, getFuel, if_neg (by omega : ¬ A.nrows = 0), h0, h0'.1, Res.bind_ok, h1, h2]
  rw [e]

end Amgcl.CMK
