import Amgcl.Model.Adapters
import Amgcl.Proofs.Primitives
import Amgcl.Proofs.KernelsCommon
import Mathlib.Data.List.Perm.Basic
import Mathlib.Algebra.Ring.Basic
import Mathlib.Algebra.GroupWithZero.Basic
/-!
Reorder and scaled-problem adapters (C17): entries, SpMV, and the "solve the transformed system, transform back"
theorems.  `Solves A x f` is the entrywise statement `A x = f` through the model's row product.
-/
namespace Amgcl.Adapters
open Amgcl Amgcl.K2

/-- `A x = f`, entry by entry, with the row product the code computes -/
def Solves {K : Type} [Add K] [Mul K] [Zero K] (A : CRS K) (x f : Vec K) : Prop :=
  ∀ i, i < A.nrows → rowDot (A.row i) x = f.getD i 0

section arrays
variable {α : Type}

theorem getD_setIfInBounds (a : Array α) (i j : Nat) (v d : α) :
    (a.setIfInBounds i v).getD j d = if i = j ∧ j < a.size then v else a.getD j d := by
  simp only [Array.getD_eq_getD_getElem?, Array.getElem?_setIfInBounds]
  by_cases h : i = j
  · subst h
    by_cases h2 : i < a.size
    · simp [h2]
    · simp [h2]
  · simp [h]

/-- the loop `for i < m: y[p i] = x i` for an index map `p` that is injective on `[0, m)` -/
theorem foldl_set_spec (p : Nat → Nat) (x : Nat → α) (d : α) (m : Nat) (y0 : Array α)
    (hinj : ∀ i, i < m → ∀ i', i' < m → p i = p i' → i = i') :
    let g := (List.range m).foldl (fun y i => y.setIfInBounds (p i) (x i)) y0
    g.size = y0.size ∧
    (∀ i, i < m → p i < y0.size → g.getD (p i) d = x i) ∧
    (∀ j, (∀ i, i < m → p i ≠ j) → g.getD j d = y0.getD j d) := by
  induction m with
  | zero => simp
  | succ m ih =>
    have ih' := ih (fun i hi i' hi' => hinj i (Nat.lt_succ_of_lt hi) i' (Nat.lt_succ_of_lt hi'))
    simp only [List.range_succ, List.foldl_append, List.foldl_cons, List.foldl_nil]
    obtain ⟨hs, hhit, hmiss⟩ := ih'
    refine ⟨by simp [hs], ?_, ?_⟩
    · intro i hi hpi
      rw [getD_setIfInBounds]
      by_cases him : i = m
      · subst him; simp [hs, hpi]
      · have hi' : i < m := by omega
        have hne : p m ≠ p i := fun e => him (hinj i hi m (Nat.lt_succ_self m) e.symm)
        simp only [hne, false_and, if_false]
        exact hhit i hi' hpi
    · intro j hj
      rw [getD_setIfInBounds]
      have hne : p m ≠ j := hj m (Nat.lt_succ_self m)
      simp only [hne, false_and, if_false]
      exact hmiss j (fun i hi => hj i (Nat.lt_succ_of_lt hi))

end arrays

/-! ## permutations stored in arrays -/
section perm

/-- the array lists `0 .. n-1` in some order (what `ordering::get` must return) -/
def IsPerm (perm : Array Nat) : Prop := perm.toList.Perm (List.range perm.size)

theorem IsPerm.lt {perm : Array Nat} (h : IsPerm perm) (i : Nat) (hi : i < perm.size) :
    perm.getD i 0 < perm.size := by
  have hm : perm.getD i 0 ∈ perm.toList := by
    simp [Array.getD, hi]
  have := h.mem_iff.1 hm
  simpa using this

theorem IsPerm.inj {perm : Array Nat} (h : IsPerm perm) (i : Nat) (hi : i < perm.size) (i' : Nat)
    (hi' : i' < perm.size) (e : perm.getD i 0 = perm.getD i' 0) : i = i' := by
  have hn : perm.toList.Nodup := h.nodup_iff.2 List.nodup_range
  have e' : perm.toList[i]'(by simpa using hi) = perm.toList[i']'(by simpa using hi') := by
    simpa [Array.getD, hi, hi'] using e
  exact (List.Nodup.getElem_inj_iff hn).1 e'

theorem IsPerm.surj {perm : Array Nat} (h : IsPerm perm) (c : Nat) (hc : c < perm.size) :
    ∃ i, i < perm.size ∧ perm.getD i 0 = c := by
  have hm : c ∈ perm.toList := h.mem_iff.2 (by simpa using hc)
  obtain ⟨i, hi, e⟩ := List.getElem_of_mem hm
  have hi' : i < perm.size := by simpa using hi
  exact ⟨i, hi', by simpa [Array.getD, hi'] using e⟩

/-- `mkIperm` computes the inverse permutation -/
theorem mkIperm_spec {perm : Array Nat} (h : IsPerm perm) :
    (mkIperm perm).size = perm.size ∧
    (∀ i, i < perm.size → (mkIperm perm).getD (perm.getD i 0) 0 = i) ∧
    (∀ c, c < perm.size → (mkIperm perm).getD c 0 < perm.size ∧ perm.getD ((mkIperm perm).getD c 0) 0 = c) := by
  have key := foldl_set_spec (fun i => perm.getD i 0) (fun i => i) 0 perm.size (Array.replicate perm.size 0)
    (fun i hi i' hi' e => h.inj i hi i' hi' e)
  simp only at key
  obtain ⟨hs, hhit, _⟩ := key
  have hs' : (mkIperm perm).size = perm.size := by unfold mkIperm; simpa using hs
  have hhit' : ∀ i, i < perm.size → (mkIperm perm).getD (perm.getD i 0) 0 = i := by
    intro i hi
    unfold mkIperm
    exact hhit i hi (by simpa using h.lt i hi)
  refine ⟨hs', hhit', ?_⟩
  intro c hc
  obtain ⟨i, hi, e⟩ := h.surj c hc
  have := hhit' i hi
  rw [e] at this
  rw [this]
  exact ⟨hi, e⟩

/-- `inverse(y, x)` puts `y[k]` at position `perm[k]`: `x[c] = y[iperm[c]]` -/
theorem reorderInverse_spec {K : Type} [Zero K] {perm : Array Nat} (h : IsPerm perm) (y x0 : Vec K)
    (hx : x0.size = perm.size) :
    (reorderInverse perm y x0).size = perm.size ∧
    (∀ k, k < perm.size → (reorderInverse perm y x0).getD (perm.getD k 0) 0 = y.getD k 0) ∧
    (∀ c, c < perm.size → (reorderInverse perm y x0).getD c 0 = y.getD ((mkIperm perm).getD c 0) 0) := by
  have key := foldl_set_spec (fun i => perm.getD i 0) (fun i => y.getD i 0) (0 : K) perm.size x0
    (fun i hi i' hi' e => h.inj i hi i' hi' e)
  simp only at key
  obtain ⟨hs, hhit, _⟩ := key
  have hhit' : ∀ k, k < perm.size → (reorderInverse perm y x0).getD (perm.getD k 0) 0 = y.getD k 0 := by
    intro k hk
    unfold reorderInverse
    exact hhit k hk (by rw [hx]; exact h.lt k hk)
  refine ⟨by unfold reorderInverse; rw [hs, hx], hhit', ?_⟩
  intro c hc
  obtain ⟨hlt, e⟩ := (mkIperm_spec h).2.2 c hc
  have := hhit' _ hlt
  rw [e] at this
  exact this

theorem reorderForward_getD {K : Type} [Zero K] (perm : Array Nat) (x : Vec K) (i : Nat) (hi : i < perm.size) :
    (reorderForward perm x).getD i 0 = x.getD (perm.getD i 0) 0 := by
  unfold reorderForward
  rw [getD_ofFn_lt _ _ _ hi]

end perm

/-! ## reordered matrix -/
section reordered
variable {K : Type}

theorem reorderedMatrix_nrows (A : CRS K) (perm iperm : Array Nat) :
    (reorderedMatrix A perm iperm).nrows = A.nrows := by
  simp [reorderedMatrix, CRS.nrows]

theorem reorderedMatrix_row (A : CRS K) (perm iperm : Array Nat) (i : Nat) (hi : i < A.nrows) :
    (reorderedMatrix A perm iperm).row i = (A.row (perm.getD i 0)).map (fun cv => (iperm.getD cv.1 0, cv.2)) := by
  have hi' : i < (reorderedMatrix A perm iperm).rows.size := by
    simpa [reorderedMatrix, CRS.nrows] using hi
  rw [row_eq_getElem _ hi']
  simp [reorderedMatrix]

/-- nnz of a permuted copy of the rows -/
theorem reorderedMatrix_row_length (A : CRS K) (perm iperm : Array Nat) (i : Nat) (hi : i < A.nrows) :
    ((reorderedMatrix A perm iperm).row i).length = (A.row (perm.getD i 0)).length := by
  rw [reorderedMatrix_row A perm iperm i hi, List.length_map]

/-- the row product commutes with a renaming of the columns when the vector is renamed accordingly
(any carrier: no ring axiom is used) -/
theorem rowDot_map_cols [Add K] [Mul K] [Zero K] (r : Row K) (g : Nat → Nat) (y x : Vec K)
    (h : ∀ cv ∈ r, y.getD (g cv.1) 0 = x.getD cv.1 0) :
    rowDot (r.map (fun cv => (g cv.1, cv.2))) y = rowDot r x := by
  unfold rowDot
  rw [List.foldl_map]
  suffices H : ∀ s : K, r.foldl (fun s cv => s + cv.2 * y.getD (g cv.1) 0) s
      = r.foldl (fun s cv => s + cv.2 * x.getD cv.1 0) s from H 0
  induction r with
  | nil => intro s; rfl
  | cons cv t ih =>
    intro s
    simp only [List.foldl_cons]
    rw [h cv List.mem_cons_self]
    exact ih (fun c hc => h c (List.mem_cons_of_mem _ hc)) _

theorem rowGet_map_cols [AddCommMonoid K] (r : Row K) (g : Nat → Nat) (j pj : Nat)
    (h : ∀ cv ∈ r, (g cv.1 = j ↔ cv.1 = pj)) :
    rowGet (r.map (fun cv => (g cv.1, cv.2))) j = rowGet r pj := by
  induction r with
  | nil => rfl
  | cons cv t ih =>
    simp only [List.map_cons, rowGet_cons']
    rw [ih (fun c hc => h c (List.mem_cons_of_mem _ hc))]
    have := h cv List.mem_cons_self
    by_cases e : cv.1 = pj
    · rw [if_pos (this.2 e), if_pos e]
    · have hne : ¬ g cv.1 = j := fun e' => e (this.1 e')
      rw [if_neg hne, if_neg e]

end reordered

end Amgcl.Adapters
