import Amgcl.Model.ScheduleTeam
import Amgcl.Model.ScheduleLocal
import Amgcl.Proofs.SchedExec
import Amgcl.Proofs.SchedLocal
/-!
Interleavings are insensitive to the order of the threads, to empty threads and get fewer when two threads are
run one after the other by the same thread; the virtual threads served by the threads of a team of any size ≥ 1
are a permutation of `0 … nt-1`.  Hence the executions of the repaired level-scheduled region under ANY team are
executions of `Exec`.  Core Lean only.
-/
namespace Amgcl.Sched

/-! ### structural facts about `Interleave` -/

/-- the order in which the threads are listed does not matter -/
theorem Interleave.of_perm {α : Type} {ls : List (List α)} {σ : List α} (h : Interleave ls σ) :
    ∀ {ls' : List (List α)}, ls.Perm ls' → Interleave ls' σ := by
  induction h with
  | done hall => intro ls' hp; exact Interleave.done (fun l hl => hall l (hp.symm.subset hl))
  | @step pre post l a σ _ ih =>
    intro ls' hp
    have hmem : (a :: l) ∈ ls' := hp.subset (by simp)
    obtain ⟨pre', post', rfl⟩ := List.append_of_mem hmem
    have h1 : (pre ++ post).Perm (pre' ++ post') :=
      ((List.perm_middle.symm.trans hp).trans List.perm_middle).cons_inv
    have h2 : (pre ++ l :: post).Perm (pre' ++ l :: post') :=
      (List.perm_middle.trans (h1.cons l)).trans List.perm_middle.symm
    exact Interleave.step (ih h2)

/-- a thread without work can be dropped -/
theorem Interleave.drop_nil {α : Type} {ls : List (List α)} {σ : List α} (h : Interleave ls σ) :
    ∀ {rest : List (List α)}, ls = [] :: rest → Interleave rest σ := by
  induction h with
  | done hall => intro rest he; subst he; exact Interleave.done (fun l hl => hall l (List.mem_cons_of_mem _ hl))
  | @step pre post l a σ _ ih =>
    intro rest he
    cases pre with
    | nil => simp at he
    | cons p pre' =>
      simp only [List.cons_append, List.cons.injEq] at he
      obtain ⟨hp, hr⟩ := he
      subst hp; subst hr
      exact Interleave.step (ih rfl)

/-- … or added -/
theorem Interleave.add_nil {α : Type} {ls : List (List α)} {σ : List α} (h : Interleave ls σ) :
    Interleave ([] :: ls) σ := by
  induction h with
  | done hall => exact Interleave.done (fun l hl => by
      rcases List.mem_cons.mp hl with rfl | hl
      · rfl
      · exact hall l hl)
  | @step pre post l a σ _ ih => exact Interleave.step (pre := [] :: pre) ih

/-- if one thread runs `l₁` and then `l₂`, the result is also an interleaving of two threads running `l₁` and `l₂` -/
theorem Interleave.split_head {α : Type} {ls : List (List α)} {σ : List α} (h : Interleave ls σ) :
    ∀ {l₁ l₂ : List α} {rest : List (List α)}, ls = (l₁ ++ l₂) :: rest → Interleave (l₁ :: l₂ :: rest) σ := by
  induction h with
  | done hall =>
    intro l₁ l₂ rest he; subst he
    have h12 : l₁ ++ l₂ = [] := hall _ List.mem_cons_self
    obtain ⟨h1, h2⟩ := List.append_eq_nil_iff.mp h12
    subst h1; subst h2
    exact Interleave.done (fun l hl => by
      rcases List.mem_cons.mp hl with rfl | hl
      · rfl
      · rcases List.mem_cons.mp hl with rfl | hl
        · rfl
        · exact hall l (List.mem_cons_of_mem _ hl))
  | @step pre post l a σ _ ih =>
    intro l₁ l₂ rest he
    cases pre with
    | nil =>
      simp only [List.nil_append, List.cons.injEq] at he
      obtain ⟨hl, hr⟩ := he
      subst hr
      cases l₁ with
      | nil =>
        simp only [List.nil_append] at hl
        subst hl
        exact Interleave.step (pre := [[]]) (post := post) (ih (l₁ := []) (l₂ := l) rfl)
      | cons b l₁' =>
        simp only [List.cons_append, List.cons.injEq] at hl
        obtain ⟨hab, hl⟩ := hl
        subst hab; subst hl
        exact Interleave.step (pre := []) (ih (l₁ := l₁') (l₂ := l₂) rfl)
    | cons p pre' =>
      simp only [List.cons_append, List.cons.injEq] at he
      obtain ⟨hp, hr⟩ := he
      subst hp; subst hr
      exact Interleave.step (pre := l₁ :: l₂ :: pre') (ih (l₁ := l₁) (l₂ := l₂) rfl)

/-- one thread running the lists `ls₁` one after the other → that many threads -/
theorem Interleave.split_flatten {α : Type} (ls₁ : List (List α)) :
    ∀ {rest : List (List α)} {σ : List α}, Interleave (ls₁.flatten :: rest) σ → Interleave (ls₁ ++ rest) σ := by
  induction ls₁ with
  | nil => intro rest σ h; exact h.drop_nil rfl
  | cons l t ih =>
    intro rest σ h
    have h1 : Interleave (l :: t.flatten :: rest) σ := h.split_head (by simp)
    have h2 : Interleave (t.flatten :: (rest ++ [l])) σ := h1.of_perm (by
      have : (l :: (t.flatten :: rest)).Perm ((t.flatten :: rest) ++ [l]) := List.perm_append_singleton l _ |>.symm
      simpa using this)
    have h3 := ih h2
    exact h3.of_perm (by
      have : ((t ++ rest) ++ [l]).Perm (l :: (t ++ rest)) := List.perm_append_singleton l _
      simpa [List.append_assoc] using this)

/-- every real thread runs a group of virtual threads one after the other → an interleaving of all virtual threads -/
theorem Interleave.of_groups {α : Type} (groups : List (List (List α))) :
    ∀ {rest : List (List α)} {σ : List α},
      Interleave (groups.map List.flatten ++ rest) σ → Interleave (groups.flatten ++ rest) σ := by
  induction groups with
  | nil => intro rest σ h; simpa using h
  | cons g t ih =>
    intro rest σ h
    have h1 : Interleave (g.flatten :: (t.map List.flatten ++ rest)) σ := by simpa using h
    have h2 : Interleave (g ++ (t.map List.flatten ++ rest)) σ := Interleave.split_flatten g h1
    have h3 : Interleave (t.map List.flatten ++ (rest ++ g)) σ := h2.of_perm (by
      have : (g ++ (t.map List.flatten ++ rest)).Perm ((t.map List.flatten ++ rest) ++ g) := List.perm_append_comm
      simpa [List.append_assoc] using this)
    have h4 := ih h3
    exact h4.of_perm (by
      have : ((t.flatten ++ rest) ++ g).Perm (g ++ (t.flatten ++ rest)) := List.perm_append_comm
      simpa [List.append_assoc] using this)

/-! ### the virtual threads of a team -/

theorem teamTidsLoop_ge (nt team : Nat) : ∀ (fuel tid x : Nat), x ∈ teamTidsLoop nt team fuel tid → tid ≤ x ∧ x < nt := by
  intro fuel
  induction fuel with
  | zero => intro tid x h; simp [teamTidsLoop] at h
  | succ f ih =>
    intro tid x h
    unfold teamTidsLoop at h
    split at h
    · rcases List.mem_cons.mp h with rfl | h
      · exact ⟨Nat.le_refl _, by assumption⟩
      · have := ih _ _ h; exact ⟨by omega, this.2⟩
    · simp at h

theorem teamTidsLoop_mod (nt team : Nat) : ∀ (fuel tid x : Nat), x ∈ teamTidsLoop nt team fuel tid → x % team = tid % team := by
  intro fuel
  induction fuel with
  | zero => intro tid x h; simp [teamTidsLoop] at h
  | succ f ih =>
    intro tid x h
    unfold teamTidsLoop at h
    split at h
    · rcases List.mem_cons.mp h with rfl | h
      · rfl
      · rw [ih _ _ h, Nat.add_mod_right]
    · simp at h

theorem teamTidsLoop_nodup (nt team : Nat) (ht : 0 < team) : ∀ (fuel tid : Nat), (teamTidsLoop nt team fuel tid).Nodup := by
  intro fuel
  induction fuel with
  | zero => intro tid; simp [teamTidsLoop]
  | succ f ih =>
    intro tid
    unfold teamTidsLoop
    split
    · refine List.nodup_cons.mpr ⟨?_, ih _⟩
      intro hmem
      have := (teamTidsLoop_ge nt team f (tid + team) tid hmem).1
      omega
    · exact List.nodup_nil

theorem teamTidsLoop_complete (nt team : Nat) (ht : 0 < team) : ∀ (fuel tid x : Nat), tid ≤ x → x < nt →
    x % team = tid % team → x - tid < fuel → x ∈ teamTidsLoop nt team fuel tid := by
  intro fuel
  induction fuel with
  | zero => intro tid x _ _ _ h; omega
  | succ f ih =>
    intro tid x hle hlt hmod hf
    unfold teamTidsLoop
    have htid : tid < nt := by omega
    rw [if_pos htid]
    by_cases hx : x = tid
    · subst hx; exact List.mem_cons_self
    · refine List.mem_cons_of_mem _ (ih _ _ ?_ hlt ?_ ?_)
      · have h0 : (x - tid) % team = 0 := Nat.sub_mod_eq_zero_of_mod_eq hmod
        have hd : team ∣ (x - tid) := Nat.dvd_of_mod_eq_zero h0
        have := Nat.le_of_dvd (by omega) hd
        omega
      · rw [Nat.add_mod_right]; exact hmod
      · omega

theorem mem_teamTids (nt team p x : Nat) (ht : 0 < team) (hp : p < team) :
    x ∈ teamTids nt team p ↔ x < nt ∧ x % team = p := by
  constructor
  · intro h
    exact ⟨(teamTidsLoop_ge nt team nt p x h).2, by rw [teamTidsLoop_mod nt team nt p x h, Nat.mod_eq_of_lt hp]⟩
  · rintro ⟨hlt, hmod⟩
    have hpx : p ≤ x := by rw [← hmod]; exact Nat.mod_le _ _
    exact teamTidsLoop_complete nt team ht nt p x hpx hlt (by rw [hmod, Nat.mod_eq_of_lt hp]) (by omega)

/-- the slots `tid` served by the threads of a team of ANY size ≥ 1 are exactly `0 … nt-1`, each once -/
theorem teamTids_cover (nt team : Nat) (ht : 0 < team) : (teamFilledSlots nt team).Perm (List.range nt) := by
  unfold teamFilledSlots
  refine (List.perm_ext_iff_of_nodup ?_ List.nodup_range).mpr ?_
  · unfold List.Nodup
    rw [List.pairwise_flatten]
    refine ⟨?_, ?_⟩
    · intro l hl
      obtain ⟨p, _, rfl⟩ := List.mem_map.mp hl
      exact teamTidsLoop_nodup nt team ht nt p
    · rw [List.pairwise_map]
      have hr : (List.range team).Pairwise (· < ·) := List.pairwise_lt_range
      refine List.Pairwise.imp_of_mem ?_ hr
      intro p q hp hq hpq x hx y hy hxy
      have h1 := (mem_teamTids nt team p x ht (List.mem_range.mp hp)).mp hx
      have h2 := (mem_teamTids nt team q y ht (List.mem_range.mp hq)).mp hy
      subst hxy
      omega
  · intro x
    simp only [List.mem_flatten, List.mem_map, List.mem_range]
    constructor
    · rintro ⟨l, ⟨p, hp, rfl⟩, hx⟩
      exact ((mem_teamTids nt team p x ht hp).mp hx).1
    · intro hx
      exact ⟨_, ⟨x % team, Nat.mod_lt _ ht, rfl⟩, (mem_teamTids nt team _ x ht (Nat.mod_lt _ ht)).mpr ⟨hx, rfl⟩⟩

/-! ### one level, all levels -/

theorem levelTasksG_eq_range_map {α : Type} (tk : List (List (List α))) (lev : Nat) :
    levelTasksG tk lev = (List.range tk.length).map fun tid => (tk.getD tid []).getD lev [] := by
  unfold levelTasksG
  apply List.ext_getElem
  · simp
  · intro i h1 h2
    simp only [List.getElem_map, List.getElem_range]
    have : i < tk.length := by simpa using h1
    simp [List.getD, List.getElem?_eq_getElem this]

theorem teamLevelTasks_eq {α : Type} (tk : List (List (List α))) (nt team lev : Nat) :
    teamLevelTasks tk nt team lev =
      (((List.range team).map (teamTids nt team)).map
        (fun tids => tids.map fun tid => (tk.getD tid []).getD lev [])).map List.flatten := by
  simp [teamLevelTasks, teamThreadLevel, List.flatMap, Function.comp_def]

/-- one level: an interleaving of the REAL threads of a team of any size is an interleaving of the virtual threads -/
theorem team_level_subset {α : Type} (tk : List (List (List α))) (team lev : Nat) (ht : 0 < team) {block : List α}
    (h : Interleave (teamLevelTasks tk tk.length team lev) block) : Interleave (levelTasksG tk lev) block := by
  rw [teamLevelTasks_eq] at h
  have h1 := Interleave.of_groups _ (rest := []) (by rw [List.append_nil]; exact h)
  rw [List.append_nil] at h1
  rw [levelTasksG_eq_range_map]
  refine h1.of_perm ?_
  have hc := teamTids_cover tk.length team ht
  unfold teamFilledSlots at hc
  have : ((List.map (fun tids => List.map (fun tid => (tk.getD tid []).getD lev []) tids)
      (List.map (teamTids tk.length team) (List.range team))).flatten) =
      (((List.range team).map (teamTids tk.length team)).flatten).map (fun tid => (tk.getD tid []).getD lev []) := by
    rw [List.map_flatten]
  rw [this]
  exact hc.map _

theorem team_levelwise_subset {α : Type} (tk : List (List (List α))) (team : Nat) (ht : 0 < team) {levs : List Nat}
    {σ : List α} (h : TeamLevelwiseExec tk tk.length team levs σ) : LevelwiseExecG tk levs σ := by
  induction h with
  | nil => exact LevelwiseExecG.nil
  | cons hb _ ih => exact LevelwiseExecG.cons (team_level_subset tk team _ ht hb) ih

theorem LevelwiseExecG.toNat {tk : List (List (List Nat))} {levs σ : List Nat} (h : LevelwiseExecG tk levs σ) :
    LevelwiseExec tk levs σ := by
  induction h with
  | nil => exact LevelwiseExec.nil
  | cons hb _ ih => exact LevelwiseExec.cons hb ih

/-- the thread-order schedule of the team is one of its executions (non-vacuity for every team) -/
theorem Interleave.flatten_self {α : Type} (ls : List (List α)) : Interleave ls ls.flatten := by
  induction ls with
  | nil => exact Interleave.done (by simp)
  | cons l t ih =>
    induction l with
    | nil => simpa using ih.add_nil
    | cons a l' ihl => exact Interleave.step (pre := []) ihl

theorem teamThreadOrder_levelwise {α : Type} (tk : List (List (List α))) (nt team : Nat) (levs : List Nat) :
    TeamLevelwiseExec tk nt team levs (levs.flatMap fun lev => (teamLevelTasks tk nt team lev).flatten) := by
  induction levs with
  | nil => exact TeamLevelwiseExec.nil
  | cons lev t ih =>
    rw [List.flatMap_cons]
    exact TeamLevelwiseExec.cons (Interleave.flatten_self _) ih

theorem tasks_length (level : Array Nat) (nt : Nat) : (tasks level nt).length = nt := by simp [tasks]

theorem constructorLoc_length {K : Type} [Zero K] (A : CRS K) (hasD : Bool) (Dv : Vec K) (ln : Array Nat × Nat) (nt : Nat) :
    (evTable (constructorLoc A hasD Dv ln nt)).length = nt := by
  simp [evTable, constructorLoc_eq, constructorLit_length]

end Amgcl.Sched
