import Amgcl.Proofs.IOMMDense
/-!
Dense MatrixMarket reader: a row-range read is the slice of the full read (helper file for C19).
-/
namespace Amgcl.IO
variable {V : Type}

/-- the cell assignments of a range read, obtained from those of the full read -/
def restrictCells (m b e : Int) (cells : List (Int × V)) : List (Int × V) :=
  cells.filterMap (fun c => if b * m ≤ c.1 ∧ c.1 < e * m then some (c.1 - b * m, c.2) else none)

theorem denseCells_lockstep (vk : ValKind V) (n m b e : Int) (hn : 0 ≤ n) (hm : 0 ≤ m) (hb : 0 ≤ b) (hbe : b ≤ e)
    (hen : e ≤ n) (rem k : Nat) (lines : List Bytes) (cellsF : List (Int × V)) (hk : (k : Int) + rem = n * m)
    (hF : denseCells vk n m 0 n rem k lines = .ok cellsF) :
    denseCells vk n m b e rem k lines = .ok (restrictCells m b e cellsF) := by
  induction rem generalizing k lines cellsF with
  | zero =>
    simp only [denseCells] at hF ⊢
    injection hF with hF; subst hF; rfl
  | succ r ih =>
    cases lines with
    | nil => simp [denseCells] at hF
    | cons l ls =>
      have hk' : ((k + 1 : Nat) : Int) + r = n * m := by push_cast at hk ⊢; omega
      have hlt : (k : Int) < n * m := by push_cast at hk; omega
      have hnpos : 0 < n := by
        by_cases h : 0 < n
        · exact h
        · have : n = 0 := by omega
          subst this; simp at hlt; omega
      have hi0 : 0 ≤ (k : Int) % n := Int.emod_nonneg _ (by omega)
      have hi1 : (k : Int) % n < n := Int.emod_lt_of_pos _ hnpos
      have hj0 : 0 ≤ (k : Int) / n := Int.ediv_nonneg (by omega) (by omega)
      have hj1 : (k : Int) / n < m := Int.ediv_lt_of_lt_mul hnpos (by rw [Int.mul_comm]; exact hlt)
      simp only [denseCells] at hF ⊢
      rw [if_pos ⟨hi0, hi1⟩] at hF
      split at hF
      · contradiction
      · rename_i v rest hv
        split at hF
        · rename_i restF hrestF
          injection hF with hF; subst hF
          have ihr := ih (k + 1) ls restF hk' hrestF
          -- the index of this cell, and whether it belongs to the range
          have hidx : ((k : Int) % n - 0) * m + (k : Int) / n = ((k : Int) % n) * m + (k : Int) / n := by
            rw [Int.sub_zero]
          by_cases hin : b ≤ (k : Int) % n ∧ (k : Int) % n < e
          · rw [if_pos hin, ihr]
            simp only []
            unfold restrictCells
            rw [List.filterMap_cons]
            have hc : b * m ≤ ((k : Int) % n - 0) * m + (k : Int) / n ∧
                ((k : Int) % n - 0) * m + (k : Int) / n < e * m := by
              rw [hidx]
              constructor
              · have := Int.mul_le_mul_of_nonneg_right hin.1 hm; omega
              · have : ((k : Int) % n + 1) * m ≤ e * m := Int.mul_le_mul_of_nonneg_right (by omega) hm
                rw [Int.add_mul] at this; omega
            rw [if_pos hc]
            have hval : (↑k % n - b) * m + ↑k / n = (↑k % n - 0) * m + ↑k / n - b * m := by
              rw [hidx, Int.sub_mul]; omega
            rw [hval]
          · rw [if_neg hin, ihr]
            unfold restrictCells
            rw [List.filterMap_cons]
            have hc : ¬ (b * m ≤ ((k : Int) % n - 0) * m + (k : Int) / n ∧
                ((k : Int) % n - 0) * m + (k : Int) / n < e * m) := by
              rw [hidx]
              intro hcc
              apply hin
              constructor
              · by_contra hlt'
                have : ((k : Int) % n + 1) * m ≤ b * m := Int.mul_le_mul_of_nonneg_right (by omega) hm
                rw [Int.add_mul] at this; omega
              · by_contra hge
                have := Int.mul_le_mul_of_nonneg_right (show e ≤ (k : Int) % n by omega) hm; omega
            rw [if_neg hc]
        · contradiction
        · contradiction

end Amgcl.IO

namespace Amgcl.IO
variable {V : Type}

theorem set_drop_take_in (l : List V) (idx o c : Nat) (v : V) (h1 : o ≤ idx) (h2 : idx < o + c) :
    ((l.set idx v).drop o).take c = ((l.drop o).take c).set (idx - o) v := by
  apply List.ext_getElem?
  intro i
  simp only [List.getElem?_take, List.getElem?_drop, List.getElem?_set, List.length_take, List.length_drop]
  by_cases hi : i < c
  · by_cases hidx : idx = o + i
    · subst hidx
      simp only [hi, if_true, Nat.add_sub_cancel_left]
      by_cases hl : o + i < l.length
      · rw [if_pos hl, if_pos (by omega)]
      · rw [if_neg hl, if_neg (by omega)]
    · rw [if_pos hi, if_neg hidx, if_neg (by omega), if_pos hi]
  · rw [if_neg hi]
    by_cases h3 : idx - o = i
    · rw [if_pos h3, if_neg (by omega)]
    · rw [if_neg h3, if_neg hi]

theorem set_drop_take_out (l : List V) (idx o c : Nat) (v : V) (h : idx < o ∨ o + c ≤ idx) :
    ((l.set idx v).drop o).take c = (l.drop o).take c := by
  apply List.ext_getElem?
  intro i
  simp only [List.getElem?_take, List.getElem?_drop, List.getElem?_set]
  by_cases hi : i < c
  · rw [if_pos hi, if_pos hi, if_neg (by omega)]
  · rw [if_neg hi, if_neg hi]

theorem foldl_setAt_slice (m b e : Int) (hm : 0 ≤ m) (hb : 0 ≤ b) (hbe : b ≤ e) (cells : List (Int × V))
    (lF lF' : List V) (hlen : ((e * m).toNat) ≤ lF.length)
    (hF : foldlOpt setAt lF cells = some lF') :
    foldlOpt setAt ((lF.drop (b * m).toNat).take ((e - b) * m).toNat) (restrictCells m b e cells)
      = some ((lF'.drop (b * m).toNat).take ((e - b) * m).toNat) := by
  have hbm : 0 ≤ b * m := Int.mul_nonneg hb hm
  have hem : b * m ≤ e * m := Int.mul_le_mul_of_nonneg_right hbe hm
  have hcm : (e - b) * m = e * m - b * m := by rw [Int.sub_mul]
  induction cells generalizing lF with
  | nil =>
    simp only [foldlOpt] at hF
    injection hF with hF; subst hF; rfl
  | cons c t ih =>
    simp only [foldlOpt] at hF
    split at hF
    · rename_i l1 hs
      unfold setAt at hs
      split at hs
      · rename_i hc
        injection hs with hs
        subst hs
        have ih' := ih (lF.set c.1.toNat c.2) (by rw [List.length_set]; exact hlen) hF
        unfold restrictCells at ih' ⊢
        rw [List.filterMap_cons]
        by_cases hin : b * m ≤ c.1 ∧ c.1 < e * m
        · rw [if_pos hin]
          simp only [foldlOpt]
          have hstep : setAt ((lF.drop (b * m).toNat).take ((e - b) * m).toNat) (c.1 - b * m, c.2)
              = some (((lF.drop (b * m).toNat).take ((e - b) * m).toNat).set (c.1 - b * m).toNat c.2) := by
            unfold setAt
            rw [if_pos]
            constructor
            · simp only []; omega
            · simp only [List.length_take, List.length_drop]; omega
          rw [hstep]
          simp only []
          have e1 : (c.1 - b * m).toNat = c.1.toNat - (b * m).toNat := by omega
          rw [e1]
          rw [set_drop_take_in lF c.1.toNat (b * m).toNat ((e - b) * m).toNat c.2 (by omega) (by omega)] at ih'
          exact ih'
        · rw [if_neg hin]
          rw [set_drop_take_out lF c.1.toNat (b * m).toNat ((e - b) * m).toNat c.2 (by omega)] at ih'
          exact ih'
      · contradiction
    · contradiction

end Amgcl.IO

namespace Amgcl.IO
variable {V : Type}

/-- **row-range read = slice of the full read** (dense MatrixMarket) -/
theorem mmReadDense_range_eq_slice (memLimit : Nat) (vk : ValKind V) (file : Bytes) (F : RawDense V)
    (hF : mmReadDense true memLimit vk file (-1) (-1) = .ok F) (b e : Nat) (hbe : b ≤ e) (hen : e ≤ F.nrows) :
    mmReadDense true memLimit vk file b e
      = .ok ⟨e - b, F.ncols, (F.val.drop (b * F.ncols)).take ((e - b) * F.ncols)⟩ := by
  unfold mmReadDense at hF ⊢
  split at hF
  · contradiction
  · contradiction
  rename_i h hh
  obtain ⟨hn, hm, hn63, hm63⟩ := mmDenseHeader_fixed vk file h hh
  have hfull : rowRange true h.n (-1) (-1) = some (0, h.n) := by
    unfold rowRange; simp [hn]
  rw [hfull] at hF
  simp only [] at hF
  unfold mmDenseBody at hF
  simp only [Int.sub_zero] at hF
  split at hF
  · contradiction
  split at hF
  · contradiction
  rename_i hmem
  split at hF
  · contradiction
  · contradiction
  rename_i cellsF hcF
  split at hF
  · contradiction
  rename_i valF hvF
  injection hF with hF
  subst hF
  simp only [] at hen ⊢
  have wn : wrapU64 h.n = h.n.toNat := by unfold wrapU64; rw [Int.emod_eq_of_lt hn (by omega)]
  have wm : wrapU64 h.m = h.m.toNat := by unfold wrapU64; rw [Int.emod_eq_of_lt hm (by omega)]
  rw [wn] at hen
  rw [wm]
  have hr : rowRange true h.n (b : Int) (e : Int) = some ((b : Int), (e : Int)) := by
    unfold rowRange
    have h1 : ¬ ((b : Int) < 0) := by omega
    have h2 : ¬ ((e : Int) < 0) := by omega
    simp only [h1, h2, if_false]
    rw [if_pos]
    simp
    omega
  rw [hr]
  simp only []
  unfold mmDenseBody
  simp only []
  have hcm0 : 0 ≤ ((e : Int) - (b : Int)) * h.m := Int.mul_nonneg (by omega) hm
  have hcmle : ((e : Int) - (b : Int)) * h.m ≤ h.n * h.m := Int.mul_le_mul_of_nonneg_right (by omega) hm
  have hsz : ((e : Int) - (b : Int)) * h.m * vk.size ≤ h.n * h.m * vk.size :=
    Int.mul_le_mul_of_nonneg_right hcmle (by omega)
  rw [if_neg (by omega), if_neg (by omega)]
  have hlock := denseCells_lockstep vk h.n h.m b e hn hm (by omega) (by omega) (by omega) (h.n * h.m).toNat 0 h.body
    cellsF (by rw [Int.toNat_of_nonneg (Int.mul_nonneg hn hm)]; simp) hcF
  rw [hlock]
  simp only []
  have hem : ((e : Int) * h.m).toNat ≤ (List.replicate (h.n * h.m).toNat vk.zero).length := by
    rw [List.length_replicate]
    have := Int.mul_le_mul_of_nonneg_right (show (e : Int) ≤ h.n by omega) hm
    omega
  have hfold := foldl_setAt_slice h.m b e hm (by omega) (by omega) cellsF _ valF hem hvF
  have hinit : ((List.replicate (h.n * h.m).toNat vk.zero).drop ((b : Int) * h.m).toNat).take (((e : Int) - (b : Int)) * h.m).toNat
      = List.replicate (((e : Int) - (b : Int)) * h.m).toNat vk.zero := by
    apply List.ext_getElem?
    intro i
    simp only [List.getElem?_take, List.getElem?_drop, List.getElem?_replicate]
    have hbm0 : 0 ≤ (b : Int) * h.m := Int.mul_nonneg (by omega) hm
    have : ((b : Int) * h.m).toNat + (((e : Int) - (b : Int)) * h.m).toNat ≤ (h.n * h.m).toNat := by
      have h1 : ((e : Int) - (b : Int)) * h.m = (e : Int) * h.m - (b : Int) * h.m := by rw [Int.sub_mul]
      have := Int.mul_le_mul_of_nonneg_right (show (e : Int) ≤ h.n by omega) hm
      omega
    by_cases hi : i < (((e : Int) - (b : Int)) * h.m).toNat
    · rw [if_pos hi, if_pos hi, if_pos (by omega)]
    · rw [if_neg hi, if_neg hi]
  rw [hinit] at hfold
  rw [hfold]
  simp only []
  have w1 : wrapU64 ((e : Int) - (b : Int)) = e - b := by
    unfold wrapU64; rw [Int.emod_eq_of_lt (by omega) (by omega)]; omega
  rw [w1]
  congr 2
  have t1 : ((b : Int) * h.m).toNat = b * h.m.toNat := by
    rw [Int.toNat_mul (by omega) hm]; simp
  have t2 : (((e : Int) - (b : Int)) * h.m).toNat = (e - b) * h.m.toNat := by
    rw [Int.toNat_mul (by omega) hm]; congr 1; omega
  rw [t1, t2]

end Amgcl.IO
