import Amgcl.Proofs.IOMMRoundTrip
import Amgcl.Proofs.IOMMDense
/-!
Dense MatrixMarket round trip (helper file for C19).
-/
namespace Amgcl.IO
variable {V : Type} {dom : V → Prop}

theorem splitLines_flatMap_nl {α : Type} (f : α → Bytes) (hf : ∀ a, ∀ c ∈ f a, c ≠ 10) (l : List α) (rest : Bytes) :
    splitLines (l.flatMap (fun a => f a ++ [10]) ++ rest) = l.map f ++ splitLines rest := by
  induction l with
  | nil => rfl
  | cons a t ih =>
    simp only [List.flatMap_cons, List.map_cons, List.append_assoc, List.cons_append, List.nil_append]
    rw [splitLines_append _ _ (hf a), ih]

theorem sum_const_range (n m : Nat) : (List.map (fun _ => n) (List.range m)).sum = m * n := by
  induction m with
  | zero => simp
  | succ m ih => rw [List.range_succ, List.map_append, List.sum_append, ih, Nat.succ_mul]; simp

/-- indexing into `m` consecutive blocks of `n` items -/
theorem getElem?_flatMap_blocks {α : Type} (g : Nat → Nat → α) (n m k : Nat) (hk : k < m * n) :
    ((List.range m).flatMap (fun j => (List.range n).map (g j)))[k]? = some (g (k / n) (k % n)) := by
  induction m with
  | zero => simp at hk
  | succ m ih =>
    have hlen : ((List.range m).flatMap (fun j => (List.range n).map (g j))).length = m * n := by
      rw [List.length_flatMap]; simp only [List.length_map, List.length_range]; exact sum_const_range n m
    rw [List.range_succ, List.flatMap_append]
    by_cases hlt : k < m * n
    · rw [List.getElem?_append_left (by rw [hlen]; exact hlt)]
      exact ih hlt
    · have hnpos : 0 < n := by
        rcases Nat.eq_zero_or_pos n with h | h
        · subst h; simp at hk
        · exact h
      rw [List.getElem?_append_right (by rw [hlen]; omega), hlen]
      simp only [List.flatMap_cons, List.flatMap_nil, List.append_nil]
      have hkm : k - m * n < n := by rw [Nat.succ_mul] at hk; omega
      rw [List.getElem?_map, List.getElem?_range hkm]
      have hdiv : k / n = m := by
        apply Nat.div_eq_of_lt_le
        · omega
        · rw [Nat.succ_mul] at hk ⊢; omega
      have hmod : k % n = k - m * n := by
        have := Nat.div_add_mod k n
        rw [hdiv, Nat.mul_comm] at this; omega
      rw [hdiv, hmod]; rfl

/-- the cell index `(k mod n)·m + k div n` hits every position below `n·m` -/
theorem cell_index_cover (n m p : Nat) (hp : p < n * m) :
    ∃ k, k < n * m ∧ (k % n) * m + k / n = p := by
  have hmpos : 0 < m := by
    rcases Nat.eq_zero_or_pos m with h | h
    · subst h; simp at hp
    · exact h
  have hnpos : 0 < n := by
    rcases Nat.eq_zero_or_pos n with h | h
    · subst h; simp at hp
    · exact h
  have hq : p / m < n := by
    apply Nat.div_lt_of_lt_mul; rw [Nat.mul_comm]; exact hp
  have hr : p % m < m := Nat.mod_lt _ hmpos
  refine ⟨(p % m) * n + p / m, ?_, ?_⟩
  · calc (p % m) * n + p / m < (p % m) * n + n := by omega
      _ = (p % m + 1) * n := by rw [Nat.succ_mul]
      _ ≤ m * n := Nat.mul_le_mul_right _ hr
      _ = n * m := Nat.mul_comm _ _
  · have h1 : ((p % m) * n + p / m) % n = p / m := by
      rw [Nat.mul_comm, Nat.mul_add_mod, Nat.mod_eq_of_lt hq]
    have h2 : ((p % m) * n + p / m) / n = p % m := by
      rw [Nat.mul_comm, Nat.mul_add_div hnpos, Nat.div_eq_of_lt hq, Nat.add_zero]
    rw [h1, h2]
    have := Nat.div_add_mod p m
    rw [Nat.mul_comm] at this; exact this

/-- assigning `w[p]` to every position `p` of a zero-initialised array yields `w` -/
theorem foldl_setAt_cover (w : List V) (zero : V) (L : List Nat) (hL : ∀ p ∈ L, p < w.length)
    (hcov : ∀ p, p < w.length → p ∈ L) :
    foldlOpt setAt (List.replicate w.length zero) (L.map (fun (p : Nat) => ((p : Int), w.getD p zero))) = some w := by
  suffices H : ∀ (L2 L1 : List Nat) (arr : List V), L = L1 ++ L2 → arr.length = w.length →
      (∀ p ∈ L1, arr[p]? = w[p]?) →
      ∃ arr', foldlOpt setAt arr (L2.map (fun (p : Nat) => ((p : Int), w.getD p zero))) = some arr' ∧
        arr'.length = w.length ∧ ∀ p ∈ L, arr'[p]? = w[p]? by
    obtain ⟨arr', h1, h2, h3⟩ := H L [] (List.replicate w.length zero) rfl (by simp) (by intro p hp; cases hp)
    rw [h1]; congr 1
    apply List.ext_getElem?
    intro p
    by_cases hp : p < w.length
    · exact h3 p (hcov p hp)
    · rw [List.getElem?_eq_none (by omega), List.getElem?_eq_none (by omega)]
  intro L2
  induction L2 with
  | nil =>
    intro L1 arr hsplit hlen hinv
    refine ⟨arr, rfl, hlen, ?_⟩
    intro p hp; rw [hsplit, List.append_nil] at hp; exact hinv p hp
  | cons q t ih =>
    intro L1 arr hsplit hlen hinv
    have hq : q < w.length := hL q (by rw [hsplit]; simp)
    have hstep : setAt arr ((q : Int), w.getD q zero) = some (arr.set q (w.getD q zero)) := by
      unfold setAt; rw [if_pos ⟨by simp, by simp; omega⟩]; simp
    obtain ⟨arr', h1, h2, h3⟩ := ih (L1 ++ [q]) (arr.set q (w.getD q zero)) (by rw [hsplit]; simp)
      (by rw [List.length_set]; exact hlen) (by
        intro p hp
        rw [List.getElem?_set]
        by_cases hpq : q = p
        · subst hpq
          rw [if_pos rfl, if_pos (by omega)]
          simp [List.getD, List.getElem?_eq_getElem hq]
        · rw [if_neg hpq]
          rcases List.mem_append.mp hp with hp | hp
          · exact hinv p hp
          · simp at hp; exact absurd hp.symm hpq)
    exact ⟨arr', by simp only [List.map_cons, foldlOpt, hstep]; exact h1, h2, h3⟩

end Amgcl.IO

namespace Amgcl.IO
variable {V : Type} {dom : V → Prop}

/-- position written by the `k`-th data line of a dense file (`n × m`, column-major text, row-major array) -/
def cellIdx (n m k : Nat) : Nat := (k % n) * m + k / n

theorem cellIdx_lt (n m k : Nat) (hk : k < n * m) : cellIdx n m k < n * m := by
  unfold cellIdx
  have hnpos : 0 < n := by
    rcases Nat.eq_zero_or_pos n with h | h
    · subst h; simp at hk
    · exact h
  have h1 : k % n < n := Nat.mod_lt _ hnpos
  have h2 : k / n < m := Nat.div_lt_of_lt_mul hk
  calc (k % n) * m + k / n < (k % n) * m + m := by omega
    _ = (k % n + 1) * m := by rw [Nat.succ_mul]
    _ ≤ n * m := Nat.mul_le_mul_right _ h1

theorem denseCells_written (vk : ValKind V) (hvk : vk.RoundTrip dom) (n m : Nat) (w : List V) (all : List Bytes)
    (hw : ∀ i, dom (w.getD i vk.zero))
    (hall : ∀ k, k < n * m → all[k]? = some (vk.write (w.getD (cellIdx n m k) vk.zero)))
    (rem k : Nat) (hk : k + rem = n * m) :
    denseCells vk (n : Int) (m : Int) 0 (n : Int) rem k (all.drop k)
      = .ok ((List.range' k rem).map (fun k' => ((cellIdx n m k' : Nat) : Int) |> fun p => (p, w.getD (cellIdx n m k') vk.zero))) := by
  induction rem generalizing k with
  | zero => simp [denseCells]
  | succ r ih =>
    have hklt : k < n * m := by omega
    have hnpos : 0 < n := by
      rcases Nat.eq_zero_or_pos n with h | h
      · subst h; simp at hklt
      · exact h
    have hget := hall k hklt
    have hlen : k < all.length := by
      by_contra hc
      rw [List.getElem?_eq_none (by omega)] at hget; contradiction
    rw [List.drop_eq_getElem_cons hlen]
    have hline : all[k] = vk.write (w.getD (cellIdx n m k) vk.zero) := by
      rw [List.getElem?_eq_getElem hlen] at hget; injection hget
    simp only [denseCells]
    have hi0 : (0 : Int) ≤ (k : Int) % (n : Int) := Int.emod_nonneg _ (by omega)
    have hi1 : (k : Int) % (n : Int) < (n : Int) := Int.emod_lt_of_pos _ (by omega)
    rw [if_pos ⟨hi0, hi1⟩, hline]
    obtain ⟨rr, hrr⟩ := hvk.read_write (w.getD (cellIdx n m k) vk.zero) (hw _)
    rw [hrr]
    simp only []
    rw [ih (k + 1) (by omega)]
    simp only [List.range'_succ, List.map_cons]
    congr 3

end Amgcl.IO

namespace Amgcl.IO
variable {V : Type} {dom : V → Prop}

theorem sizeLine2_no_nl (a b : Nat) : ∀ x ∈ natDec a ++ 32 :: natDec b, x ≠ 10 := by
  intro x hx
  simp only [List.mem_append, List.mem_cons] at hx
  rcases hx with hx | rfl | hx
  · exact natDec_no_nl _ x hx
  · omega
  · exact natDec_no_nl _ x hx

/-- **MatrixMarket round trip, dense** -/
theorem mmReadDense_write (memLimit : Nat) (vk : ValKind V) (hvk : vk.RoundTrip dom) (D : RawDense V) (hD : D.WF)
    (hdom : ∀ v ∈ D.val, dom v) (hzero : dom vk.zero)
    (hn : D.nrows < 9223372036854775808) (hm : D.ncols < 9223372036854775808)
    (hmem : D.nrows * D.ncols * vk.size ≤ memLimit) :
    mmReadDense true memLimit vk (mmWriteDense vk D) (-1) (-1) = .ok D := by
  obtain ⟨n, m, w⟩ := D
  unfold RawDense.WF at hD
  simp only [] at hD hn hm hmem hdom
  have hw : ∀ i, dom (w.getD i vk.zero) := by
    intro i
    by_cases hi : i < w.length
    · simp only [List.getD, List.getElem?_eq_getElem hi, Option.getD_some]; exact hdom _ (List.getElem_mem hi)
    · simp only [List.getD, List.getElem?_eq_none (Nat.le_of_not_lt hi), Option.getD_none]; exact hzero
  obtain ⟨_, hb2, _, hnl⟩ := banner_of_kind vk hvk.flags
  have hfile : mmWriteDense vk ⟨n, m, w⟩ = bannerDense (kindWord vk) ++ 10 ::
      ((natDec n ++ 32 :: natDec m) ++ 10 ::
        ((List.range m).flatMap (fun j => (List.range n).flatMap (fun i => vk.write (w.getD (i * m + j) vk.zero) ++ [10])))) := by
    simp [mmWriteDense, bannerDense, List.append_assoc]
  have hs1 : extractInt false 64 (natDec n ++ 32 :: natDec m) = some ((n : Int), 32 :: natDec m) :=
    extractInt_natDec false 64 _ _ (Or.inr ⟨_, rfl⟩) (by simp; omega)
  have hs2 : extractInt false 64 (32 :: natDec m) = some ((m : Int), []) := by
    have := extractInt_sp_natDec false 64 m [] (Or.inl rfl) (by simp; omega)
    rwa [List.append_nil] at this
  have ht1 : extractInt true 64 (natDec n ++ 32 :: natDec m) = some ((n : Int), 32 :: natDec m) :=
    extractInt_natDec true 64 _ _ (Or.inr ⟨_, rfl⟩) (by simp only [if_true]; rw [two63_lit]; omega)
  have ht2 : extractInt true 64 (32 :: natDec m) = some ((m : Int), []) := by
    have := extractInt_sp_natDec true 64 m [] (Or.inl rfl) (by simp only [if_true]; rw [two63_lit]; omega)
    rwa [List.append_nil] at this
  have hopen := mmOpen_written (bannerDense (kindWord vk)) (natDec n ++ 32 :: natDec m)
    ((List.range m).flatMap (fun j => (List.range n).flatMap (fun i => vk.write (w.getD (i * m + j) vk.zero) ++ [10])))
    false false vk.isComplex vk.isIntegral hb2 hnl (sizeLine2_no_nl _ _) (head_natDec_ne_percent _ _) _ _ _ _ hs1 hs2
  rw [← hfile] at hopen
  -- the data lines
  have hlines : splitLines ((List.range m).flatMap (fun j => (List.range n).flatMap
      (fun i => vk.write (w.getD (i * m + j) vk.zero) ++ [10])))
      = (List.range m).flatMap (fun j => (List.range n).map (fun i => vk.write (w.getD (i * m + j) vk.zero))) := by
    induction (List.range m) with
    | nil => rfl
    | cons j t ih =>
      simp only [List.flatMap_cons]
      rw [splitLines_flatMap_nl (fun i => vk.write (w.getD (i * m + j) vk.zero)) (fun i => hvk.noNL _ (hw _)), ih]
  have hheader : mmDenseHeader true vk (mmWriteDense vk ⟨n, m, w⟩)
      = .ok ⟨(n : Int), (m : Int), (List.range m).flatMap (fun j => (List.range n).map
          (fun i => vk.write (w.getD (i * m + j) vk.zero)))⟩ := by
    unfold mmDenseHeader
    rw [hopen]
    simp only [Bool.false_eq_true, if_false, bne_self_eq_false, ht1, ht2, hlines]
    rw [if_neg (by simp)]
  unfold mmReadDense
  rw [hheader]
  simp only []
  have hrr : rowRange true (n : Int) (-1) (-1) = some (0, (n : Int)) := by
    unfold rowRange; simp
  rw [hrr]
  simp only []
  unfold mmDenseBody
  simp only [Int.sub_zero]
  have hnm0 : (0 : Int) ≤ (n : Int) * (m : Int) := Int.mul_nonneg (by omega) (by omega)
  rw [if_neg (by omega), if_neg (by norm_cast; omega)]
  have hnmnat : ((n : Int) * (m : Int)).toNat = n * m := by
    have : ((n : Int) * (m : Int)) = ((n * m : Nat) : Int) := by push_cast; rfl
    rw [this, Int.toNat_natCast]
  rw [hnmnat]
  have hall : ∀ k, k < n * m →
      ((List.range m).flatMap (fun j => (List.range n).map (fun i => vk.write (w.getD (i * m + j) vk.zero))))[k]?
        = some (vk.write (w.getD (cellIdx n m k) vk.zero)) := by
    intro k hk
    rw [getElem?_flatMap_blocks (fun j i => vk.write (w.getD (i * m + j) vk.zero)) n m k (by rw [Nat.mul_comm]; exact hk)]
    rfl
  have hcells := denseCells_written vk hvk n m w _ hw hall (n * m) 0 (by omega)
  rw [List.drop_zero] at hcells
  rw [hcells]
  simp only []
  have hcov := foldl_setAt_cover w vk.zero ((List.range (n * m)).map (cellIdx n m))
    (by intro p hp; rw [List.mem_map] at hp; obtain ⟨k, hk, rfl⟩ := hp; rw [hD]; exact cellIdx_lt n m k (by simpa using hk))
    (by
      intro p hp
      rw [hD] at hp
      obtain ⟨k, hk, hkp⟩ := cell_index_cover n m p hp
      rw [List.mem_map]; exact ⟨k, by simpa using hk, hkp⟩)
  rw [hD, List.map_map] at hcov
  have hr' : List.range' 0 (n * m) = List.range (n * m) := by rw [List.range_eq_range']
  rw [hr']
  have hcomp : (List.range (n * m)).map (fun k' => (((cellIdx n m k' : Nat) : Int), w.getD (cellIdx n m k') vk.zero))
      = (List.range (n * m)).map ((fun (p : Nat) => ((p : Int), w.getD p vk.zero)) ∘ cellIdx n m) := rfl
  rw [hcomp, hcov]
  simp only []
  have w1 : wrapU64 (n : Int) = n := by unfold wrapU64; omega
  have w2 : wrapU64 (m : Int) = m := by unfold wrapU64; omega
  rw [w1, w2]

end Amgcl.IO
