import Amgcl.Proofs.InverseSolve
import Amgcl.Proofs.StaticMatrix
import Mathlib.LinearAlgebra.Matrix.Nondegenerate
import Mathlib.LinearAlgebra.Matrix.NonsingularInverse
/-!
`detail::inverse` in Mathlib `Matrix` terms.
-/
namespace Amgcl
open Finset

variable {K : Type} [Field K]

/-- the `n×n` matrix held by a flat row-major buffer -/
def matOf (n : Nat) (A : Array K) : Matrix (Fin n) (Fin n) K := fun i j => get2 n A i.val j.val

theorem nonsing_of_det (n : Nat) (A : Array K) (h : (matOf n A).det ≠ 0) : Nonsing n (get2 n A) := by
  intro x hx j hj
  have hv : (matOf n A).mulVec (fun j : Fin n => x j.val) = 0 := by
    ext r
    simp only [Matrix.mulVec, dotProduct, Pi.zero_apply]
    rw [← hx r.val r.isLt]
    exact Fin.sum_univ_eq_sum_range (fun j => get2 n A r.val j * x j) n
  have := Matrix.eq_zero_of_mulVec_eq_zero h hv
  exact congrFun this ⟨j, hj⟩

variable [LinearOrder K] [IsStrictOrderedRing K]

theorem inverse_mul_eq_one (n : Nat) (A t : Array K) (p : Array Nat) (hA : A.size = n * n) (ht : t.size = n * n)
    (hp : p.size = n) (hdet : (matOf n A).det ≠ 0) :
    matOf n A * matOf n (inverse n A t p).1 = 1 := by
  ext r k
  rw [Matrix.mul_apply, Matrix.one_apply]
  have := inverse_right_inv A t p hA ht hp (nonsing_of_det n A hdet) r.val k.val r.isLt k.isLt
  rw [← Fin.sum_univ_eq_sum_range (fun j => get2 n A r.val j * get2 n (inverse n A t p).1 j k.val)] at this
  rw [show (∑ j : Fin n, matOf n A r j * matOf n (inverse n A t p).1 j k)
      = ∑ j : Fin n, get2 n A r.val j.val * get2 n (inverse n A t p).1 j.val k.val from rfl, this]
  simp only [Fin.ext_iff]

theorem inverse_eq_inv (n : Nat) (A t : Array K) (p : Array Nat) (hA : A.size = n * n) (ht : t.size = n * n)
    (hp : p.size = n) (hdet : (matOf n A).det ≠ 0) :
    matOf n (inverse n A t p).1 = (matOf n A)⁻¹ :=
  (Matrix.inv_eq_right_inv (inverse_mul_eq_one n A t p hA ht hp hdet)).symm

theorem smat_toMatrix_eq_matOf {N : Nat} (a : SMat K N N) : a.toMatrix = matOf N a.buf := rfl

end Amgcl
