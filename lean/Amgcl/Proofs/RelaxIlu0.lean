import Amgcl.Model.RelaxIlu
import Amgcl.Proofs.RelaxIlu
import Mathlib.Algebra.BigOperators.Intervals
import Mathlib.Data.List.GetD
import Mathlib.Tactic.LinearCombination
/-!
# ILU(0): the factors reproduce `A` on the pattern of `A`

Proof of the invariant of the IKJ elimination of `ilu0.hpp` on the model `Relax.ilu0Factor`:
1. the pointer table `iluWork` maps a column to the position of its slot (`WorkOK`);
2. the inner update loop subtracts `tl * U[c][·]` from the slots (`iluUpdate_spec`);
3. the elimination loop of a row satisfies the IKJ recurrences (`iluElim_spec`);
4. hence the finished row satisfies the row equations of `(I+L)(D⁻¹+U) = A` on its pattern (`iluRow_spec`);
5. the row loop keeps these equations for all finished rows (`iluLoop_spec`).
-/
namespace Amgcl
namespace Relax
open Finset

/-! ### 1. the pointer table -/
section work
variable {K : Type}

theorem iluWork_fold_not_mem (l : List ((Nat × K) × Nat)) (wk : Array (Option Nat)) (c : Nat)
    (h : ∀ e ∈ l, e.1.1 ≠ c) :
    (l.foldl (fun wk cj => wk.setIfInBounds cj.1.1 (some cj.2)) wk).getD c none = wk.getD c none := by
  induction l generalizing wk with
  | nil => rfl
  | cons e t ih =>
    rw [List.foldl_cons, ih _ (fun e' he' => h e' (List.mem_cons_of_mem _ he'))]
    exact getD_setIfInBounds_ne _ _ _ _ _ (h e List.mem_cons_self)

theorem iluWork_fold_mem (l : List ((Nat × K) × Nat)) (wk : Array (Option Nat)) (c j : Nat)
    (hn : (l.map (fun e => e.1.1)).Nodup) (hc : c < wk.size) (hm : ∃ v, ((c, v), j) ∈ l) :
    (l.foldl (fun wk cj => wk.setIfInBounds cj.1.1 (some cj.2)) wk).getD c none = some j := by
  induction l generalizing wk with
  | nil => obtain ⟨v, hv⟩ := hm; simp at hv
  | cons e t ih =>
    rw [List.foldl_cons]
    simp only [List.map_cons, List.nodup_cons] at hn
    obtain ⟨v, hv⟩ := hm
    rcases List.mem_cons.mp hv with he | ht
    · -- the head is the entry of column `c`; nothing later touches it
      have hcol : e.1.1 = c := by rw [← he]
      have hj : e.2 = j := by rw [← he]
      rw [iluWork_fold_not_mem t _ c]
      · rw [hcol, hj]; exact getD_setIfInBounds_self _ _ _ _ hc
      · intro e' he' heq
        apply hn.1
        rw [hcol, ← heq]
        exact List.mem_map.mpr ⟨e', he', rfl⟩
    · exact ih _ hn.2 (by simpa using hc) ⟨v, ht⟩

/-- what the elimination needs to know about the pointer table: it is the inverse of the column list -/
structure WorkOK (work : Array (Option Nat)) (cs : List Nat) : Prop where
  of_pos : ∀ p, p < cs.length → work.getD (cs.getD p 0) none = some p
  of_col : ∀ c p, work.getD c none = some p → p < cs.length ∧ cs.getD p 0 = c

theorem iluWork_ok (n : Nat) (r : Row K) (hn : (r.map (·.1)).Nodup) (hlt : ∀ cv ∈ r, cv.1 < n) :
    WorkOK (iluWork n r) (r.map (·.1)) := by
  have hcols : (r.zipIdx.map (fun e => e.1.1)) = r.map (·.1) := by
    have := List.zipIdx_map_fst 0 r
    conv_rhs => rw [← this]
    rw [List.map_map]; rfl
  have hA : ∀ p, p < (r.map (·.1)).length →
      (iluWork n r).getD ((r.map (·.1)).getD p 0) none = some p := by
    intro p hp
    have hp' : p < r.length := by simpa using hp
    unfold iluWork
    apply iluWork_fold_mem
    · rw [hcols]; exact hn
    · rw [List.getD_eq_getElem _ _ hp, List.getElem_map, Array.size_replicate]
      exact hlt _ (List.getElem_mem hp')
    · refine ⟨(r[p]).2, ?_⟩
      rw [List.mem_zipIdx_iff_getElem?]
      simp [List.getD_eq_getElem _ _ hp, hp']
  have hB : ∀ c, c ∉ r.map (·.1) → (iluWork n r).getD c none = none := by
    intro c hc
    unfold iluWork
    rw [iluWork_fold_not_mem]
    · unfold Array.getD; split <;> simp
    · intro e he heq
      apply hc
      rw [← hcols, ← heq]
      exact List.mem_map.mpr ⟨e, he, rfl⟩
  refine ⟨hA, ?_⟩
  intro c p hcp
  by_cases hc : c ∈ r.map (·.1)
  · obtain ⟨p', hp', hget⟩ := List.getElem_of_mem hc
    have := hA p' hp'
    rw [List.getD_eq_getElem _ _ hp', hget, hcp] at this
    have hpp : p = p' := Option.some.inj this
    subst hpp
    exact ⟨hp', by rw [List.getD_eq_getElem _ _ hp', hget]⟩
  · rw [hB c hc] at hcp; exact absurd hcp (by simp)

/-- positions are determined by their column -/
theorem WorkOK.inj {work : Array (Option Nat)} {cs : List Nat} (h : WorkOK work cs) (p p' : Nat)
    (hp : p < cs.length) (hp' : p' < cs.length) (he : cs.getD p 0 = cs.getD p' 0) : p = p' := by
  have h1 := h.of_pos p hp
  have h2 := h.of_pos p' hp'
  rw [he, h2] at h1
  exact (Option.some.inj h1).symm

end work

/-! ### 2. the inner update loop -/
section update
variable {K : Type} [Field K]

theorem iluUpdate_size (work : Array (Option Nat)) (tl : K) (ur : Row K) (w : Array K) :
    (iluUpdate work tl ur w).size = w.size := by
  unfold iluUpdate
  induction ur generalizing w with
  | nil => rfl
  | cons cu t ih =>
    rw [List.foldl_cons, ih]
    split <;> simp

/-- every slot `p` loses `tl` times the entry of the `U` row in the column of the slot -/
theorem iluUpdate_spec (work : Array (Option Nat)) (cs : List Nat) (hw : WorkOK work cs) (tl : K) (ur : Row K)
    (w : Array K) (hs : w.size = cs.length) (p : Nat) (hp : p < cs.length) :
    (iluUpdate work tl ur w).getD p 0 = w.getD p 0 - tl * rowGet ur (cs.getD p 0) := by
  unfold iluUpdate
  induction ur generalizing w with
  | nil => simp
  | cons cu t ih =>
    rw [List.foldl_cons, rowGet_cons]
    cases hwk : work.getD cu.1 none with
    | none =>
      simp only []
      rw [ih w hs]
      have hne : cu.1 ≠ cs.getD p 0 := by
        intro e
        have := hw.of_pos p hp
        rw [← e, hwk] at this
        exact absurd this (by simp)
      rw [if_neg hne]
    | some p' =>
      simp only []
      obtain ⟨hp', hcol⟩ := hw.of_col _ _ hwk
      rw [ih _ (by simpa using hs)]
      by_cases hpp : p' = p
      · subst hpp
        rw [getD_setIfInBounds_self _ _ _ _ (by omega), if_pos hcol.symm]; ring
      · have hne : cu.1 ≠ cs.getD p 0 := by
          intro e
          apply hpp
          exact hw.inj p' p hp' hp (by rw [hcol, e])
        rw [getD_setIfInBounds_ne _ _ _ _ _ hpp, if_neg hne]

end update

/-! ### 3. the elimination loop of one row -/
section elim
variable {K : Type} [Field K] [DecidableEq K]

theorem rowGet_zero_of_forall_ne (r : Row K) (j : Nat) (h : ∀ cv ∈ r, cv.1 ≠ j) : rowGet r j = 0 := by
  induction r with
  | nil => rfl
  | cons cv t ih =>
    rw [rowGet_cons, if_neg (h cv List.mem_cons_self)]
    exact ih (fun c hc => h c (List.mem_cons_of_mem _ hc))

/-- entry `(k, c)` of the `U` rows built so far -/
def ugetA (U : Array (Row K)) (k c : Nat) : K := rowGet (U.getD k []) c

theorem ugetA_zero (U : Array (Row K)) (hU : ∀ k, ∀ cv ∈ U.getD k [], k < cv.1) (k c : Nat) (h : c ≤ k) :
    ugetA U k c = 0 := by
  unfold ugetA
  apply rowGet_zero_of_forall_ne
  intro cv hcv e
  have := hU k cv hcv
  omega

/-- The IKJ recurrences satisfied by the slots after the elimination loop, started at position `t` with slots `w`:
`q` is the position of the diagonal, positions `t ≤ s < q` hold the multipliers, position `q` the inverted pivot,
positions `> q` the updated upper entries, positions `< t` are untouched. -/
theorem iluElim_spec (U : Array (Row K)) (D : Vec K) (i : Nat) (work : Array (Option Nat)) (cs : List Nat)
    (hw : WorkOK work cs) (hmono : ∀ p p', p < p' → p' < cs.length → cs.getD p 0 < cs.getD p' 0)
    (hU : ∀ k, ∀ cv ∈ U.getD k [], k < cv.1)
    (t : Nat) (w w' : Array K) (hs : w.size = cs.length)
    (h : iluElim U D i work (cs.drop t) w = .ok w') :
    ∃ q, t ≤ q ∧ q < cs.length ∧ cs.getD q 0 = i ∧ w'.size = cs.length ∧
      (∀ s, t ≤ s → s < q → cs.getD s 0 < i ∧
        w'.getD s 0 = (w.getD s 0 - ∑ s' ∈ Ico t s, w'.getD s' 0 * ugetA U (cs.getD s' 0) (cs.getD s 0))
          * D.getD (cs.getD s 0) 0) ∧
      (w.getD q 0 - ∑ s' ∈ Ico t q, w'.getD s' 0 * ugetA U (cs.getD s' 0) i ≠ 0 ∧
        w'.getD q 0 = 1 / (w.getD q 0 - ∑ s' ∈ Ico t q, w'.getD s' 0 * ugetA U (cs.getD s' 0) i)) ∧
      (∀ j, q < j → j < cs.length →
        w'.getD j 0 = w.getD j 0 - ∑ s' ∈ Ico t q, w'.getD s' 0 * ugetA U (cs.getD s' 0) (cs.getD j 0)) ∧
      (∀ j, j < t → w'.getD j 0 = w.getD j 0) := by
  induction hk : cs.length - t generalizing t w with
  | zero =>
    have : cs.drop t = [] := List.drop_eq_nil_of_le (by omega)
    rw [this] at h
    simp [iluElim] at h
  | succ k ih =>
    have hlt : t < cs.length := by omega
    have hct : cs.getD t 0 = cs[t] := List.getD_eq_getElem _ _ hlt
    rw [List.drop_eq_getElem_cons hlt, ← hct] at h
    unfold iluElim at h
    by_cases hic : i ≤ cs.getD t 0
    · -- the diagonal is reached
      rw [if_pos hic] at h
      by_cases hne : cs.getD t 0 ≠ i
      · rw [if_pos hne] at h; exact absurd h (by simp)
      · rw [if_neg hne] at h
        have hci : cs.getD t 0 = i := not_not.mp hne
        have hwi : work.getD i none = some t := by rw [← hci]; exact hw.of_pos t hlt
        rw [hwi] at h
        simp only [] at h
        by_cases hz : w.getD t 0 = 0
        · rw [if_pos hz] at h; exact absurd h (by simp)
        · rw [if_neg hz] at h
          have hw' : w' = w.setIfInBounds t (1 / w.getD t 0) := by
            injection h with h; exact h.symm
          refine ⟨t, le_refl _, hlt, hci, by rw [hw']; simpa using hs, ?_, ?_, ?_, ?_⟩
          · intro s h1 h2; omega
          · simp only [Ico_self, sum_empty, sub_zero]
            exact ⟨hz, by rw [hw', getD_setIfInBounds_self _ _ _ _ (by omega)]⟩
          · intro j hj _
            simp only [Ico_self, sum_empty, sub_zero]
            rw [hw', getD_setIfInBounds_ne _ _ _ _ _ (by omega)]
          · intro j hj
            rw [hw', getD_setIfInBounds_ne _ _ _ _ _ (by omega)]
    · -- a column left of the diagonal: eliminate with row `c`
      rw [if_neg hic] at h
      have hwc : work.getD (cs.getD t 0) none = some t := hw.of_pos t hlt
      rw [hwc] at h
      simp only [] at h
      set tl := w.getD t 0 * D.getD (cs.getD t 0) 0 with htl
      set w1 := w.setIfInBounds t tl with hw1
      set w2 := iluUpdate work tl (U.getD (cs.getD t 0) []) w1 with hw2
      have hs1 : w1.size = cs.length := by rw [hw1]; simpa using hs
      have hs2 : w2.size = cs.length := by rw [hw2, iluUpdate_size]; exact hs1
      have hw2get : ∀ p, p < cs.length → w2.getD p 0 = w1.getD p 0 - tl * ugetA U (cs.getD t 0) (cs.getD p 0) :=
        fun p hp => iluUpdate_spec work cs hw tl _ w1 hs1 p hp
      have hle : ∀ p, p ≤ t → w2.getD p 0 = w1.getD p 0 := by
        intro p hp
        rw [hw2get p (by omega), ugetA_zero U hU (cs.getD t 0) _ ?_]; · ring
        rcases Nat.lt_or_eq_of_le hp with h1 | h1
        · exact Nat.le_of_lt (hmono p t h1 hlt)
        · rw [h1]
      obtain ⟨q, hq1, hq2, hq3, hq4, ha, hb, hcc, hd⟩ := ih (t + 1) w2 hs2 h (by omega)
      have hwt : w'.getD t 0 = tl := by
        rw [hd t (by omega), hle t (le_refl _), hw1, getD_setIfInBounds_self _ _ _ _ (by omega)]
      have hgt : ∀ p, t < p → p < cs.length → w2.getD p 0 = w.getD p 0 - w'.getD t 0 * ugetA U (cs.getD t 0) (cs.getD p 0) := by
        intro p hp hp'
        rw [hw2get p hp', hw1, getD_setIfInBounds_ne _ _ _ _ _ (by omega), hwt]
      refine ⟨q, by omega, hq2, hq3, hq4, ?_, ?_, ?_, ?_⟩
      · intro s h1 h2
        rcases Nat.lt_or_eq_of_le h1 with h3 | h3
        · obtain ⟨hlt', heq⟩ := ha s (by omega) h2
          refine ⟨hlt', ?_⟩
          rw [heq, hgt s h3 (by omega), sum_eq_sum_Ico_succ_bot h3]
          ring
        · subst h3
          refine ⟨by omega, ?_⟩
          rw [hwt]; simp [htl]
      · rw [hgt q (by omega) hq2, ← hq3] at hb
        rw [sum_eq_sum_Ico_succ_bot (by omega : t < q), ← hq3]
        constructor
        · have := hb.1
          intro e; apply this; linear_combination e
        · rw [hb.2]; congr 1; ring
      · intro j hj hj'
        rw [hcc j hj hj', hgt j (by omega) hj', sum_eq_sum_Ico_succ_bot (by omega : t < q)]
        ring
      · intro j hj
        rw [hd j (by omega), hle j (by omega), hw1, getD_setIfInBounds_ne _ _ _ _ _ (by omega)]

end elim

end Relax
end Amgcl
