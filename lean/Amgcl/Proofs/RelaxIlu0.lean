import Amgcl.Model.RelaxIlu
import Amgcl.Model.RelaxIluk
import Amgcl.Proofs.RelaxIlu
import Amgcl.Proofs.KernelsCommon
import Mathlib.Algebra.BigOperators.Intervals
import Mathlib.Data.List.GetD
import Mathlib.Tactic.LinearCombination
/-!
# ILU(0): the factors reproduce `A` on the pattern of `A`

Proof of the invariant of the IKJ elimination of `ilu0.hpp` on the model `Relax.ilu0Factor`:
1. the pointer table `iluWork` maps a column to the position of its slot (`WorkOK`);
2. the inner update loop subtracts `tl * U[c][·]` from the slots (`iluUpdate_spec`);
3. the elimination loop of a row satisfies the IKJ recurrences (`iluElim_spec`);
4. hence the finished row satisfies the row equations of `(I+L)(D⁻¹+U) = A` on its pattern (`iluRow_spec`);
5. the row loop keeps these equations for all finished rows (`iluLoop_spec`).
-/
namespace Amgcl
namespace Relax
open Finset

/-! ### 1. the pointer table -/
section work
variable {K : Type}

theorem iluWork_fold_not_mem (l : List ((Nat × K) × Nat)) (wk : Array (Option Nat)) (c : Nat)
    (h : ∀ e ∈ l, e.1.1 ≠ c) :
    (l.foldl (fun wk cj => wk.setIfInBounds cj.1.1 (some cj.2)) wk).getD c none = wk.getD c none := by
  induction l generalizing wk with
  | nil => rfl
  | cons e t ih =>
    rw [List.foldl_cons, ih _ (fun e' he' => h e' (List.mem_cons_of_mem _ he'))]
    exact getD_setIfInBounds_ne _ _ _ _ _ (h e List.mem_cons_self)

theorem iluWork_fold_mem (l : List ((Nat × K) × Nat)) (wk : Array (Option Nat)) (c j : Nat)
    (hn : (l.map (fun e => e.1.1)).Nodup) (hc : c < wk.size) (hm : ∃ v, ((c, v), j) ∈ l) :
    (l.foldl (fun wk cj => wk.setIfInBounds cj.1.1 (some cj.2)) wk).getD c none = some j := by
  induction l generalizing wk with
  | nil => obtain ⟨v, hv⟩ := hm; simp at hv
  | cons e t ih =>
    rw [List.foldl_cons]
    simp only [List.map_cons, List.nodup_cons] at hn
    obtain ⟨v, hv⟩ := hm
    rcases List.mem_cons.mp hv with he | ht
    · -- the head is the entry of column `c`; nothing later touches it
      have hcol : e.1.1 = c := by rw [← he]
      have hj : e.2 = j := by rw [← he]
      rw [iluWork_fold_not_mem t _ c]
      · rw [hcol, hj]; exact getD_setIfInBounds_self _ _ _ _ hc
      · intro e' he' heq
        apply hn.1
        rw [hcol, ← heq]
        exact List.mem_map.mpr ⟨e', he', rfl⟩
    · exact ih _ hn.2 (by simpa using hc) ⟨v, ht⟩

/-- what the elimination needs to know about the pointer table: it is the inverse of the column list -/
structure WorkOK (work : Array (Option Nat)) (cs : List Nat) : Prop where
  of_pos : ∀ p, p < cs.length → work.getD (cs.getD p 0) none = some p
  of_col : ∀ c p, work.getD c none = some p → p < cs.length ∧ cs.getD p 0 = c

theorem iluWork_ok (n : Nat) (r : Row K) (hn : (r.map (·.1)).Nodup) (hlt : ∀ cv ∈ r, cv.1 < n) :
    WorkOK (iluWork n r) (r.map (·.1)) := by
  have hcols : (r.zipIdx.map (fun e => e.1.1)) = r.map (·.1) := by
    have := List.zipIdx_map_fst 0 r
    conv_rhs => rw [← this]
    rw [List.map_map]; rfl
  have hA : ∀ p, p < (r.map (·.1)).length →
      (iluWork n r).getD ((r.map (·.1)).getD p 0) none = some p := by
    intro p hp
    have hp' : p < r.length := by simpa using hp
    unfold iluWork
    apply iluWork_fold_mem
    · rw [hcols]; exact hn
    · rw [List.getD_eq_getElem _ _ hp, List.getElem_map, Array.size_replicate]
      exact hlt _ (List.getElem_mem hp')
    · refine ⟨(r[p]).2, ?_⟩
      rw [List.mem_zipIdx_iff_getElem?]
      simp [List.getD_eq_getElem _ _ hp, hp']
  have hB : ∀ c, c ∉ r.map (·.1) → (iluWork n r).getD c none = none := by
    intro c hc
    unfold iluWork
    rw [iluWork_fold_not_mem]
    · unfold Array.getD; split <;> simp
    · intro e he heq
      apply hc
      rw [← hcols, ← heq]
      exact List.mem_map.mpr ⟨e, he, rfl⟩
  refine ⟨hA, ?_⟩
  intro c p hcp
  by_cases hc : c ∈ r.map (·.1)
  · obtain ⟨p', hp', hget⟩ := List.getElem_of_mem hc
    have := hA p' hp'
    rw [List.getD_eq_getElem _ _ hp', hget, hcp] at this
    have hpp : p = p' := Option.some.inj this
    subst hpp
    exact ⟨hp', by rw [List.getD_eq_getElem _ _ hp', hget]⟩
  · rw [hB c hc] at hcp; exact absurd hcp (by simp)

/-- positions are determined by their column -/
theorem WorkOK.inj {work : Array (Option Nat)} {cs : List Nat} (h : WorkOK work cs) (p p' : Nat)
    (hp : p < cs.length) (hp' : p' < cs.length) (he : cs.getD p 0 = cs.getD p' 0) : p = p' := by
  have h1 := h.of_pos p hp
  have h2 := h.of_pos p' hp'
  rw [he, h2] at h1
  exact (Option.some.inj h1).symm

end work

/-! ### 2. the inner update loop -/
section update
variable {K : Type} [Field K]

theorem iluUpdate_size (work : Array (Option Nat)) (tl : K) (ur : Row K) (w : Array K) :
    (iluUpdate work tl ur w).size = w.size := by
  unfold iluUpdate
  induction ur generalizing w with
  | nil => rfl
  | cons cu t ih =>
    rw [List.foldl_cons, ih]
    split <;> simp

/-- every slot `p` loses `tl` times the entry of the `U` row in the column of the slot -/
theorem iluUpdate_spec (work : Array (Option Nat)) (cs : List Nat) (hw : WorkOK work cs) (tl : K) (ur : Row K)
    (w : Array K) (hs : w.size = cs.length) (p : Nat) (hp : p < cs.length) :
    (iluUpdate work tl ur w).getD p 0 = w.getD p 0 - tl * rowGet ur (cs.getD p 0) := by
  unfold iluUpdate
  induction ur generalizing w with
  | nil => simp
  | cons cu t ih =>
    rw [List.foldl_cons, rowGet_cons]
    cases hwk : work.getD cu.1 none with
    | none =>
      simp only []
      rw [ih w hs]
      have hne : cu.1 ≠ cs.getD p 0 := by
        intro e
        have := hw.of_pos p hp
        rw [← e, hwk] at this
        exact absurd this (by simp)
      rw [if_neg hne]
    | some p' =>
      simp only []
      obtain ⟨hp', hcol⟩ := hw.of_col _ _ hwk
      rw [ih _ (by simpa using hs)]
      by_cases hpp : p' = p
      · subst hpp
        rw [getD_setIfInBounds_self _ _ _ _ (by omega), if_pos hcol.symm]; ring
      · have hne : cu.1 ≠ cs.getD p 0 := by
          intro e
          apply hpp
          exact hw.inj p' p hp' hp (by rw [hcol, e])
        rw [getD_setIfInBounds_ne _ _ _ _ _ hpp, if_neg hne]

end update

/-! ### 3. the elimination loop of one row -/
section elim
variable {K : Type} [Field K] [DecidableEq K]

theorem rowGet_zero_of_forall_ne (r : Row K) (j : Nat) (h : ∀ cv ∈ r, cv.1 ≠ j) : rowGet r j = 0 := by
  induction r with
  | nil => rfl
  | cons cv t ih =>
    rw [rowGet_cons, if_neg (h cv List.mem_cons_self)]
    exact ih (fun c hc => h c (List.mem_cons_of_mem _ hc))

/-- entry `(k, c)` of the `U` rows built so far -/
def ugetA (U : Array (Row K)) (k c : Nat) : K := rowGet (U.getD k []) c

theorem ugetA_zero (U : Array (Row K)) (hU : ∀ k, ∀ cv ∈ U.getD k [], k < cv.1) (k c : Nat) (h : c ≤ k) :
    ugetA U k c = 0 := by
  unfold ugetA
  apply rowGet_zero_of_forall_ne
  intro cv hcv e
  have := hU k cv hcv
  omega

/-- The IKJ recurrences satisfied by the slots after the elimination loop, started at position `t` with slots `w`:
`q` is the position of the diagonal, positions `t ≤ s < q` hold the multipliers, position `q` the inverted pivot,
positions `> q` the updated upper entries, positions `< t` are untouched. -/
theorem iluElim_spec (U : Array (Row K)) (D : Vec K) (i : Nat) (work : Array (Option Nat)) (cs : List Nat)
    (hw : WorkOK work cs) (hmono : ∀ p p', p < p' → p' < cs.length → cs.getD p 0 < cs.getD p' 0)
    (hU : ∀ k, ∀ cv ∈ U.getD k [], k < cv.1)
    (t : Nat) (w w' : Array K) (hs : w.size = cs.length)
    (h : iluElim U D i work (cs.drop t) w = .ok w') :
    ∃ q, t ≤ q ∧ q < cs.length ∧ cs.getD q 0 = i ∧ w'.size = cs.length ∧
      (∀ s, t ≤ s → s < q → cs.getD s 0 < i ∧
        w'.getD s 0 = (w.getD s 0 - ∑ s' ∈ Ico t s, w'.getD s' 0 * ugetA U (cs.getD s' 0) (cs.getD s 0))
          * D.getD (cs.getD s 0) 0) ∧
      (w.getD q 0 - ∑ s' ∈ Ico t q, w'.getD s' 0 * ugetA U (cs.getD s' 0) i ≠ 0 ∧
        w'.getD q 0 = 1 / (w.getD q 0 - ∑ s' ∈ Ico t q, w'.getD s' 0 * ugetA U (cs.getD s' 0) i)) ∧
      (∀ j, q < j → j < cs.length →
        w'.getD j 0 = w.getD j 0 - ∑ s' ∈ Ico t q, w'.getD s' 0 * ugetA U (cs.getD s' 0) (cs.getD j 0)) ∧
      (∀ j, j < t → w'.getD j 0 = w.getD j 0) := by
  induction hk : cs.length - t generalizing t w with
  | zero =>
    have : cs.drop t = [] := List.drop_eq_nil_of_le (by omega)
    rw [this] at h
    simp [iluElim] at h
  | succ k ih =>
    have hlt : t < cs.length := by omega
    have hct : cs.getD t 0 = cs[t] := List.getD_eq_getElem _ _ hlt
    rw [List.drop_eq_getElem_cons hlt, ← hct] at h
    unfold iluElim at h
    by_cases hic : i ≤ cs.getD t 0
    · -- the diagonal is reached
      rw [if_pos hic] at h
      by_cases hne : cs.getD t 0 ≠ i
      · rw [if_pos hne] at h; exact absurd h (by simp)
      · rw [if_neg hne] at h
        have hci : cs.getD t 0 = i := not_not.mp hne
        have hwi : work.getD i none = some t := by rw [← hci]; exact hw.of_pos t hlt
        rw [hwi] at h
        simp only [] at h
        by_cases hz : w.getD t 0 = 0
        · rw [if_pos hz] at h; exact absurd h (by simp)
        · rw [if_neg hz] at h
          have hw' : w' = w.setIfInBounds t (1 / w.getD t 0) := by
            injection h with h; exact h.symm
          refine ⟨t, le_refl _, hlt, hci, by rw [hw']; simpa using hs, ?_, ?_, ?_, ?_⟩
          · intro s h1 h2; omega
          · simp only [Ico_self, sum_empty, sub_zero]
            exact ⟨hz, by rw [hw', getD_setIfInBounds_self _ _ _ _ (by omega)]⟩
          · intro j hj _
            simp only [Ico_self, sum_empty, sub_zero]
            rw [hw', getD_setIfInBounds_ne _ _ _ _ _ (by omega)]
          · intro j hj
            rw [hw', getD_setIfInBounds_ne _ _ _ _ _ (by omega)]
    · -- a column left of the diagonal: eliminate with row `c`
      rw [if_neg hic] at h
      have hwc : work.getD (cs.getD t 0) none = some t := hw.of_pos t hlt
      rw [hwc] at h
      simp only [] at h
      set tl := w.getD t 0 * D.getD (cs.getD t 0) 0 with htl
      set w1 := w.setIfInBounds t tl with hw1
      set w2 := iluUpdate work tl (U.getD (cs.getD t 0) []) w1 with hw2
      have hs1 : w1.size = cs.length := by rw [hw1]; simpa using hs
      have hs2 : w2.size = cs.length := by rw [hw2, iluUpdate_size]; exact hs1
      have hw2get : ∀ p, p < cs.length → w2.getD p 0 = w1.getD p 0 - tl * ugetA U (cs.getD t 0) (cs.getD p 0) :=
        fun p hp => iluUpdate_spec work cs hw tl _ w1 hs1 p hp
      have hle : ∀ p, p ≤ t → w2.getD p 0 = w1.getD p 0 := by
        intro p hp
        rw [hw2get p (by omega), ugetA_zero U hU (cs.getD t 0) _ ?_]; · ring
        rcases Nat.lt_or_eq_of_le hp with h1 | h1
        · exact Nat.le_of_lt (hmono p t h1 hlt)
        · rw [h1]
      obtain ⟨q, hq1, hq2, hq3, hq4, ha, hb, hcc, hd⟩ := ih (t + 1) w2 hs2 h (by omega)
      have hwt : w'.getD t 0 = tl := by
        rw [hd t (by omega), hle t (le_refl _), hw1, getD_setIfInBounds_self _ _ _ _ (by omega)]
      have hgt : ∀ p, t < p → p < cs.length → w2.getD p 0 = w.getD p 0 - w'.getD t 0 * ugetA U (cs.getD t 0) (cs.getD p 0) := by
        intro p hp hp'
        rw [hw2get p hp', hw1, getD_setIfInBounds_ne _ _ _ _ _ (by omega), hwt]
      refine ⟨q, by omega, hq2, hq3, hq4, ?_, ?_, ?_, ?_⟩
      · intro s h1 h2
        rcases Nat.lt_or_eq_of_le h1 with h3 | h3
        · obtain ⟨hlt', heq⟩ := ha s (by omega) h2
          refine ⟨hlt', ?_⟩
          rw [heq, hgt s h3 (by omega), sum_eq_sum_Ico_succ_bot h3]
          ring
        · subst h3
          refine ⟨by omega, ?_⟩
          rw [hwt]; simp [htl]
      · rw [hgt q (by omega) hq2, ← hq3] at hb
        rw [sum_eq_sum_Ico_succ_bot (by omega : t < q), ← hq3]
        constructor
        · have := hb.1
          intro e; apply this; linear_combination e
        · rw [hb.2]; congr 1; ring
      · intro j hj hj'
        rw [hcc j hj hj', hgt j (by omega) hj', sum_eq_sum_Ico_succ_bot (by omega : t < q)]
        ring
      · intro j hj
        rw [hd j (by omega), hle j (by omega), hw1, getD_setIfInBounds_ne _ _ _ _ _ (by omega)]

end elim

/-! ### 4. list lemmas for the finished row -/
section lists
variable {K : Type} [Field K] [DecidableEq K]

/-- dropping exact zeros (and the columns outside `p`) does not change the denoted row on the columns in `p` -/
theorem rowGet_filter (p : Nat → Bool) (r : Row K) (c : Nat) :
    rowGet (r.filter (fun cv => p cv.1 && !(decide (cv.2 = 0)))) c = if p c = true then rowGet r c else 0 := by
  induction r with
  | nil => simp
  | cons cv t ih =>
    rw [List.filter_cons]
    by_cases hk : (p cv.1 && !(decide (cv.2 = 0))) = true
    · rw [if_pos hk, rowGet_cons, rowGet_cons, ih]
      have hp : p cv.1 = true := by simp at hk; exact hk.1
      by_cases hc : cv.1 = c
      · rw [if_pos hc, if_pos hc]; rw [hc] at hp; simp [hp]
      · rw [if_neg hc, if_neg hc]
    · rw [if_neg hk, ih, rowGet_cons]
      by_cases hc : cv.1 = c
      · rw [if_pos hc]
        by_cases hp : p c = true
        · have hz : cv.2 = 0 := by
            rw [← hc] at hp
            simp [hp] at hk; exact hk
          rw [if_pos hp, if_pos hp, hz]; ring
        · rw [if_neg hp, if_neg hp]
      · rw [if_neg hc]

theorem rowGet_zip_not_mem (cs : List Nat) (ws : List K) (c : Nat) (h : c ∉ cs) : rowGet (cs.zip ws) c = 0 := by
  apply rowGet_zero_of_forall_ne
  intro cv hcv e
  apply h
  rw [← e]
  exact (List.of_mem_zip hcv).1

theorem rowGet_zip (cs : List Nat) (ws : List K) (hlen : cs.length = ws.length) (hnd : cs.Nodup) (s : Nat)
    (hs : s < cs.length) : rowGet (cs.zip ws) (cs.getD s 0) = ws.getD s 0 := by
  induction cs generalizing ws s with
  | nil => simp at hs
  | cons c t ih =>
    cases ws with
    | nil => simp at hlen
    | cons w wt =>
      rw [List.nodup_cons] at hnd
      rw [List.zip_cons_cons, rowGet_cons]
      cases s with
      | zero => simp [rowGet_zip_not_mem t wt c hnd.1]
      | succ s' =>
        have hs' : s' < t.length := by simpa using hs
        have hne : c ≠ t.getD s' 0 := by
          intro e; apply hnd.1; rw [e, List.getD_eq_getElem _ _ hs']; exact List.getElem_mem hs'
        simp only [List.getD_cons_succ]
        rw [if_neg hne]
        exact ih wt (by simpa using hlen) hnd.2 s' hs'

/-- a row product against an arbitrary column function is the sum over the denoted row -/
theorem listSum_eq_sum (r : Row K) (g : Nat → K) (m : Nat) (h : ∀ cv ∈ r, cv.1 < m) :
    (r.map (fun cv => cv.2 * g cv.1)).sum = ∑ k ∈ range m, rowGet r k * g k := by
  induction r with
  | nil => simp
  | cons cv t ih =>
    have hcv : cv.1 < m := h cv List.mem_cons_self
    have ht : ∀ c ∈ t, c.1 < m := fun c hc => h c (List.mem_cons_of_mem _ hc)
    simp only [List.map_cons, List.sum_cons, rowGet_cons]
    rw [ih ht]
    have : ∑ j ∈ range m, (if cv.1 = j then cv.2 + rowGet t j else rowGet t j) * g j
        = ∑ j ∈ range m, ((if cv.1 = j then cv.2 * g j else 0) + rowGet t j * g j) := by
      apply sum_congr rfl; intro j _; split <;> ring
    rw [this, sum_add_distrib, sum_ite_eq]
    simp [hcv]

/-- the sum over a filtered list as a sum over positions -/
theorem filter_map_sum {α : Type} (d : α) (L : List α) (P : α → Bool) (f : α → K) :
    ((L.filter P).map f).sum = ∑ s ∈ range L.length, if P (L.getD s d) = true then f (L.getD s d) else 0 := by
  induction L with
  | nil => simp
  | cons a t ih =>
    rw [List.length_cons, sum_range_succ', List.filter_cons]
    simp only [List.getD_cons_succ, List.getD_cons_zero]
    by_cases hp : P a = true
    · rw [if_pos hp, if_pos hp, List.map_cons, List.sum_cons, ih]; ring
    · rw [if_neg hp, if_neg hp, ih]; ring

theorem sum_range_ite_lt (f : Nat → K) (q m : Nat) (h : q ≤ m) :
    ∑ s ∈ range m, (if s < q then f s else 0) = ∑ s ∈ range q, f s := by
  induction m with
  | zero => have : q = 0 := by omega
            subst this; simp
  | succ k ih =>
    rcases Nat.lt_or_ge q (k + 1) with h1 | h1
    · rw [sum_range_succ, ih (by omega), if_neg (by omega)]; ring
    · have : q = k + 1 := by omega
      subst this
      apply sum_congr rfl
      intro s hs; rw [if_pos (mem_range.mp hs)]

theorem getD_zip (cs : List Nat) (ws : List K) (hlen : cs.length = ws.length) (s : Nat) (hs : s < cs.length) :
    (cs.zip ws).getD s (0, 0) = (cs.getD s 0, ws.getD s 0) := by
  rw [List.getD_eq_getElem _ _ (by simp [← hlen]; exact hs), List.getElem_zip,
    List.getD_eq_getElem _ _ hs, List.getD_eq_getElem _ _ (by omega)]

end lists

/-! ### 5. the finished row satisfies the row equations -/
section row
variable {K : Type} [Field K] [DecidableEq K]

theorem toList_getD (w : Array K) (s : Nat) : w.toList.getD s 0 = w.getD s 0 := by
  rw [List.getD_eq_getElem?_getD, Array.getD_eq_getD_getElem?, Array.getElem?_toList]

theorem strictCols_mono (r : Row K) (h : K2.StrictCols r) (p p' : Nat) (hpp : p < p') (hp' : p' < r.length) :
    (r.map (·.1)).getD p 0 < (r.map (·.1)).getD p' 0 := by
  unfold K2.StrictCols at h
  rw [List.pairwise_iff_getElem] at h
  have := h p p' (by omega) hp' hpp
  rw [List.getD_eq_getElem _ _ (by simp; omega), List.getD_eq_getElem _ _ (by simpa using hp')]
  simpa using this

/-- Row `i` of the factorisation: with the finished rows `U[k]` (strictly upper) and non-zero stored pivots `D[c]`
(`c < i`), the new rows `l`, `u` and the new inverted pivot `d` satisfy, for every stored entry `(c, v)` of row `i`
of `A`, the equation of position `(i, c)` of `(I+L)(D⁻¹+U) = A`. -/
theorem iluRow_spec (n : Nat) (U : Array (Row K)) (D : Vec K) (i : Nat) (r : Row K)
    (hsorted : K2.StrictCols r) (hlt : ∀ cv ∈ r, cv.1 < n)
    (hU : ∀ k, ∀ cv ∈ U.getD k [], k < cv.1) (hD : ∀ c, c < i → D.getD c 0 ≠ 0)
    (l u : Row K) (d : K) (h : iluRow n U D i r = .ok (l, d, u)) :
    (∀ cv ∈ l, cv.1 < i) ∧ (∀ cv ∈ u, i < cv.1 ∧ cv.1 < n) ∧ d ≠ 0 ∧
    ∀ cv ∈ r, (if cv.1 = i then 1 / d else 0) + rowGet u cv.1 + rowGet l cv.1 * (1 / D.getD cv.1 0)
        + ∑ k ∈ range i, rowGet l k * ugetA U k cv.1 = cv.2 := by
  have hnd : (r.map (·.1)).Nodup := hsorted.nodup
  have hw : WorkOK (iluWork n r) (r.map (·.1)) := iluWork_ok n r hnd hlt
  have hm : (r.map (·.1)).length = r.length := by simp
  have hmono : ∀ p p', p < p' → p' < (r.map (·.1)).length →
      (r.map (·.1)).getD p 0 < (r.map (·.1)).getD p' 0 :=
    fun p p' h1 h2 => strictCols_mono r hsorted p p' h1 (by omega)
  unfold iluRow at h
  simp only [] at h
  cases he : iluElim U D i (iluWork n r) (r.map (·.1)) (r.map (·.2)).toArray with
  | precondition => rw [he] at h; exact absurd h (by simp)
  | undefinedInput => rw [he] at h; exact absurd h (by simp)
  | ok w =>
    rw [he] at h
    simp only [] at h
    have hs0 : (r.map (·.2)).toArray.size = (r.map (·.1)).length := by simp
    have he' : iluElim U D i (iluWork n r) ((r.map (·.1)).drop 0) (r.map (·.2)).toArray = .ok w := by
      simpa using he
    obtain ⟨q, _, hq2, hq3, hq4, ha, hb, hc, _⟩ :=
      iluElim_spec U D i (iluWork n r) (r.map (·.1)) hw hmono hU 0 _ w hs0 he'
    have hwq : (iluWork n r).getD i none = some q := by rw [← hq3]; exact hw.of_pos q hq2
    rw [hwq] at h
    simp only [] at h
    injection h with h
    have hl : l = ((r.map (·.1)).zip w.toList).filter
        (fun cv => decide (cv.1 < i) && !(decide (cv.2 = 0))) := (congrArg Prod.fst h).symm
    have hd : d = w.getD q 0 := (congrArg (fun t => t.2.1) h).symm
    have hu : u = ((r.map (·.1)).zip w.toList).filter
        (fun cv => decide (i < cv.1) && !(decide (cv.2 = 0))) := (congrArg (fun t => t.2.2) h).symm
    have hlen : (r.map (·.1)).length = w.toList.length := by simp [hq4]
    -- the initial slots are the values of the row
    have hw0 : ∀ s, s < r.length → (r.map (·.2)).toArray.getD s 0 = (r.map (·.2)).getD s 0 := by
      intro s _; rw [← toList_getD]
    -- columns left / right of the diagonal by position
    have hcol_lt : ∀ s, s < r.length → ((r.map (·.1)).getD s 0 < i ↔ s < q) := by
      intro s hs
      constructor
      · intro hlt'
        by_contra hge
        rcases Nat.lt_or_eq_of_le (Nat.le_of_not_lt hge) with h1 | h1
        · have := hmono q s h1 (by omega); omega
        · rw [← h1, hq3] at hlt'; omega
      · intro hsq; have := hmono s q hsq hq2; omega
    have hcol_gt : ∀ s, s < r.length → (i < (r.map (·.1)).getD s 0 ↔ q < s) := by
      intro s hs
      constructor
      · intro hgt
        by_contra hle
        rcases Nat.lt_or_eq_of_le (Nat.le_of_not_lt hle) with h1 | h1
        · have := hmono s q h1 hq2; omega
        · rw [h1, hq3] at hgt; omega
      · intro hqs; have := hmono q s hqs (by omega); omega
    -- denoted entries of the new rows at a pattern column
    have hgetl : ∀ s, s < r.length → rowGet l ((r.map (·.1)).getD s 0) = if s < q then w.getD s 0 else 0 := by
      intro s hs
      rw [hl, rowGet_filter (fun c => decide (c < i)), rowGet_zip _ _ hlen hnd s (by omega), toList_getD]
      by_cases hsq : s < q
      · rw [if_pos hsq, if_pos (by simpa using (hcol_lt s hs).2 hsq)]
      · rw [if_neg hsq, if_neg (by simpa using fun h' => hsq ((hcol_lt s hs).1 h'))]
    have hgetu : ∀ s, s < r.length → rowGet u ((r.map (·.1)).getD s 0) = if q < s then w.getD s 0 else 0 := by
      intro s hs
      rw [hu, rowGet_filter (fun c => decide (i < c)), rowGet_zip _ _ hlen hnd s (by omega), toList_getD]
      by_cases hsq : q < s
      · rw [if_pos hsq, if_pos (by simpa using (hcol_gt s hs).2 hsq)]
      · rw [if_neg hsq, if_neg (by simpa using fun h' => hsq ((hcol_gt s hs).1 h'))]
    have hlcols : ∀ cv ∈ l, cv.1 < i := by
      intro cv hcv; rw [hl, List.mem_filter] at hcv
      have := hcv.2
      simp only [Bool.and_eq_true, decide_eq_true_eq] at this
      exact this.1
    have hucols : ∀ cv ∈ u, i < cv.1 ∧ cv.1 < n := by
      intro cv hcv
      rw [hu, List.mem_filter] at hcv
      have h2 := hcv.2
      simp only [Bool.and_eq_true, decide_eq_true_eq] at h2
      refine ⟨h2.1, ?_⟩
      have := (List.of_mem_zip hcv.1).1
      obtain ⟨e, he1, he2⟩ := List.mem_map.mp this
      rw [← he2]; exact hlt e he1
    -- the elimination sum over the new `L` row, by positions
    have hsum : ∀ g : Nat → K, ∑ k ∈ range i, rowGet l k * g k
        = ∑ s ∈ range q, w.getD s 0 * g ((r.map (·.1)).getD s 0) := by
      intro g
      rw [← listSum_eq_sum l g i hlcols, hl, filter_map_sum ((0 : Nat), (0 : K))]
      have hlz : ((r.map (·.1)).zip w.toList).length = r.length := by simp [← hlen]
      rw [hlz, ← sum_range_ite_lt _ q r.length (by omega)]
      apply sum_congr rfl
      intro s hs
      have hs' := mem_range.mp hs
      rw [getD_zip _ _ hlen s (by omega), toList_getD]
      simp only []
      by_cases hsq : s < q
      · rw [if_pos hsq]
        by_cases hz : w.getD s 0 = 0
        · rw [hz]; simp
        · rw [if_pos]
          simp only [Bool.and_eq_true, decide_eq_true_eq, Bool.not_eq_true', decide_eq_false_iff_not]
          exact ⟨(hcol_lt s hs').2 hsq, hz⟩
      · rw [if_neg hsq, if_neg]
        simp only [Bool.and_eq_true, decide_eq_true_eq, not_and]
        intro h'; exact absurd ((hcol_lt s hs').1 h') hsq
    have hdne : d ≠ 0 := by
      rw [hd, hb.2]; exact one_div_ne_zero hb.1
    refine ⟨hlcols, hucols, hdne, ?_⟩
    intro cv hcv
    obtain ⟨s, hs, hrs⟩ := List.getElem_of_mem hcv
    have hc1 : cv.1 = (r.map (·.1)).getD s 0 := by
      rw [List.getD_eq_getElem _ _ (by simpa using hs), List.getElem_map, hrs]
    have hc2 : cv.2 = (r.map (·.2)).toArray.getD s 0 := by
      rw [hw0 s hs, List.getD_eq_getElem _ _ (by simpa using hs), List.getElem_map, hrs]
    rw [hsum, hc1, hgetl s hs, hgetu s hs, hc2]
    rcases Nat.lt_trichotomy s q with hsq | hsq | hsq
    · -- a column left of the diagonal
      obtain ⟨hci, heq⟩ := ha s (Nat.zero_le _) hsq
      have hne : (r.map (·.1)).getD s 0 ≠ i := by omega
      have hDne := hD _ hci
      rw [if_neg hne, if_neg (by omega), if_pos hsq]
      have hsplit := Finset.sum_range_add_sum_Ico
        (fun s' => w.getD s' 0 * ugetA U ((r.map (·.1)).getD s' 0) ((r.map (·.1)).getD s 0)) (Nat.le_of_lt hsq)
      have hzero : ∑ s' ∈ Ico s q, w.getD s' 0 * ugetA U ((r.map (·.1)).getD s' 0) ((r.map (·.1)).getD s 0) = 0 := by
        apply sum_eq_zero
        intro s' hs'
        rw [mem_Ico] at hs'
        rw [ugetA_zero U hU _ _ ?_]; · ring
        rcases Nat.lt_or_eq_of_le hs'.1 with h1 | h1
        · exact Nat.le_of_lt (hmono s s' h1 (by omega))
        · rw [h1]
      rw [hzero, add_zero] at hsplit
      rw [← hsplit, heq, Finset.range_eq_Ico]
      field_simp
      ring
    · -- the diagonal
      subst hsq
      rw [if_pos hq3, if_neg (lt_irrefl _), hd, hb.2, hq3, Finset.range_eq_Ico]
      have := hb.1
      field_simp
      ring
    · -- a column right of the diagonal
      have hne : (r.map (·.1)).getD s 0 ≠ i := by
        have := (hcol_gt s hs).2 hsq; omega
      rw [if_neg hne, if_pos hsq, if_neg (by omega), hc s hsq (by omega), Finset.range_eq_Ico]
      ring

end row

section rowcols
variable {K : Type} [Field K] [DecidableEq K]

/-- the new rows live on the pattern of the row of `A` -/
theorem iluRow_cols (n : Nat) (U : Array (Row K)) (D : Vec K) (i : Nat) (r : Row K) (l u : Row K) (d : K)
    (h : iluRow n U D i r = .ok (l, d, u)) :
    (∀ cv ∈ l, cv.1 ∈ r.map (·.1)) ∧ (∀ cv ∈ u, cv.1 ∈ r.map (·.1)) := by
  unfold iluRow at h
  simp only [] at h
  cases he : iluElim U D i (iluWork n r) (r.map (·.1)) (r.map (·.2)).toArray with
  | precondition => rw [he] at h; exact absurd h (by simp)
  | undefinedInput => rw [he] at h; exact absurd h (by simp)
  | ok w =>
    rw [he] at h
    simp only [] at h
    injection h with h
    have hl := (congrArg Prod.fst h).symm
    have hu := (congrArg (fun t => t.2.2) h).symm
    simp only [] at hl hu
    constructor
    · intro cv hcv; rw [hl, List.mem_filter] at hcv; exact (List.of_mem_zip hcv.1).1
    · intro cv hcv; rw [hu, List.mem_filter] at hcv; exact (List.of_mem_zip hcv.1).1

/-- the elimination loop succeeds only if it meets the diagonal column -/
theorem iluElim_diag (U : Array (Row K)) (D : Vec K) (i : Nat) (work : Array (Option Nat)) (cols : List Nat)
    (w w' : Array K) (h : iluElim U D i work cols w = .ok w') : i ∈ cols := by
  induction cols generalizing w with
  | nil => simp [iluElim] at h
  | cons c rest ih =>
    unfold iluElim at h
    by_cases hic : i ≤ c
    · rw [if_pos hic] at h
      by_cases hne : c ≠ i
      · rw [if_pos hne] at h; exact absurd h (by simp)
      · have : c = i := not_not.mp hne
        rw [this]; exact List.mem_cons_self
    · rw [if_neg hic] at h
      cases hw : work.getD c none with
      | none => rw [hw] at h; exact absurd h (by simp)
      | some p => rw [hw] at h; exact List.mem_cons_of_mem _ (ih _ h)

theorem iluRow_diag (n : Nat) (U : Array (Row K)) (D : Vec K) (i : Nat) (r : Row K) (ldu : Row K × K × Row K)
    (h : iluRow n U D i r = .ok ldu) : i ∈ r.map (·.1) := by
  unfold iluRow at h
  simp only [] at h
  cases he : iluElim U D i (iluWork n r) (r.map (·.1)) (r.map (·.2)).toArray with
  | precondition => rw [he] at h; exact absurd h (by simp)
  | undefinedInput => rw [he] at h; exact absurd h (by simp)
  | ok w => exact iluElim_diag _ _ _ _ _ _ _ he

end rowcols

/-! ### 6. the row loop -/
section loop
variable {K : Type} [Field K] [DecidableEq K]

theorem getD_push_lt {α : Type} (a : Array α) (x d : α) (k : Nat) (h : k < a.size) :
    (a.push x).getD k d = a.getD k d := by
  unfold Array.getD
  have h' : k < (a.push x).size := by simp; omega
  rw [dif_pos h', dif_pos h]
  exact Array.getElem_push_lt h

theorem getD_push_eq {α : Type} (a : Array α) (x d : α) : (a.push x).getD a.size d = x := by
  unfold Array.getD
  simp

/-- the invariant of the row loop after `i` rows -/
structure IluInv (A : CRS K) (F : IluFactors K) (i : Nat) : Prop where
  sizeL : F.L.rows.size = i
  sizeU : F.U.rows.size = i
  sizeD : F.D.size = i
  lower : ∀ k, k < i → ∀ cv ∈ F.L.rows.getD k [], cv.1 < k
  upper : ∀ k, k < i → ∀ cv ∈ F.U.rows.getD k [], k < cv.1 ∧ cv.1 < A.nrows
  pivot : ∀ k, k < i → F.D.getD k 0 ≠ 0
  diag : ∀ k, k < i → k ∈ (A.row k).map (·.1)
  subL : ∀ k, k < i → ∀ cv ∈ F.L.rows.getD k [], cv.1 ∈ (A.row k).map (·.1)
  subU : ∀ k, k < i → ∀ cv ∈ F.U.rows.getD k [], cv.1 ∈ (A.row k).map (·.1)
  rowEq : ∀ k, k < i → ∀ cv ∈ A.row k,
    (if cv.1 = k then 1 / F.D.getD k 0 else 0) + rowGet (F.U.rows.getD k []) cv.1
      + (if cv.1 < k then rowGet (F.L.rows.getD k []) cv.1 * (1 / F.D.getD cv.1 0) else 0)
      + ∑ k' ∈ range k, rowGet (F.L.rows.getD k []) k' * ugetA F.U.rows k' cv.1 = cv.2

theorem ugetA_push_lt (U : Array (Row K)) (x : Row K) (k c : Nat) (h : k < U.size) :
    ugetA (U.push x) k c = ugetA U k c := by
  unfold ugetA; rw [getD_push_lt _ _ _ _ h]

/-- one more row keeps the invariant -/
theorem IluInv.step (A : CRS K) (hs : ∀ i, K2.StrictCols (A.row i)) (hwf : ∀ i, ∀ cv ∈ A.row i, cv.1 < A.nrows)
    (F : IluFactors K) (i : Nat) (hinv : IluInv A F i) (l u : Row K) (d : K)
    (h : iluRow A.nrows F.U.rows F.D i (A.row i) = .ok (l, d, u)) :
    IluInv A { L := { F.L with rows := F.L.rows.push l }, U := { F.U with rows := F.U.rows.push u },
               D := F.D.push d } (i + 1) := by
  have hU : ∀ k, ∀ cv ∈ F.U.rows.getD k [], k < cv.1 := by
    intro k cv hcv
    by_cases hk : k < i
    · exact (hinv.upper k hk cv hcv).1
    · rw [getD_of_size_le _ _ _ (by rw [hinv.sizeU]; omega)] at hcv; cases hcv
  obtain ⟨h1, h2, h3, h4⟩ := iluRow_spec A.nrows F.U.rows F.D i (A.row i) (hs i) (hwf i) hU hinv.pivot l u d h
  have eL : ∀ k, k < i → (F.L.rows.push l).getD k [] = F.L.rows.getD k [] :=
    fun k hk => getD_push_lt _ _ _ _ (by rw [hinv.sizeL]; exact hk)
  have eU : ∀ k, k < i → (F.U.rows.push u).getD k [] = F.U.rows.getD k [] :=
    fun k hk => getD_push_lt _ _ _ _ (by rw [hinv.sizeU]; exact hk)
  have eD : ∀ k, k < i → (F.D.push d).getD k 0 = F.D.getD k 0 :=
    fun k hk => getD_push_lt _ _ _ _ (by rw [hinv.sizeD]; exact hk)
  have eLi : (F.L.rows.push l).getD i [] = l := by rw [← hinv.sizeL]; exact getD_push_eq _ _ _
  have eUi : (F.U.rows.push u).getD i [] = u := by rw [← hinv.sizeU]; exact getD_push_eq _ _ _
  have eDi : (F.D.push d).getD i 0 = d := by rw [← hinv.sizeD]; exact getD_push_eq _ _ _
  have eug : ∀ k c, k < i → ugetA (F.U.rows.push u) k c = ugetA F.U.rows k c :=
    fun k c hk => ugetA_push_lt _ _ _ _ (by rw [hinv.sizeU]; exact hk)
  obtain ⟨c1, c2⟩ := iluRow_cols A.nrows F.U.rows F.D i (A.row i) l u d h
  refine ⟨by simp [hinv.sizeL], by simp [hinv.sizeU], by simp [hinv.sizeD], ?_, ?_, ?_, ?_, ?_, ?_, ?_⟩
  · intro k hk cv hcv
    rcases Nat.lt_or_eq_of_le (Nat.le_of_lt_succ hk) with hk' | hk'
    · simp only [] at hcv; rw [eL k hk'] at hcv; exact hinv.lower k hk' cv hcv
    · subst hk'; simp only [] at hcv; rw [eLi] at hcv; exact h1 cv hcv
  · intro k hk cv hcv
    rcases Nat.lt_or_eq_of_le (Nat.le_of_lt_succ hk) with hk' | hk'
    · simp only [] at hcv; rw [eU k hk'] at hcv; exact hinv.upper k hk' cv hcv
    · subst hk'; simp only [] at hcv; rw [eUi] at hcv; exact h2 cv hcv
  · intro k hk
    rcases Nat.lt_or_eq_of_le (Nat.le_of_lt_succ hk) with hk' | hk'
    · simp only []; rw [eD k hk']; exact hinv.pivot k hk'
    · subst hk'; simp only []; rw [eDi]; exact h3
  · intro k hk
    rcases Nat.lt_or_eq_of_le (Nat.le_of_lt_succ hk) with hk' | hk'
    · exact hinv.diag k hk'
    · subst hk'; exact iluRow_diag _ _ _ _ _ _ h
  · intro k hk cv hcv
    rcases Nat.lt_or_eq_of_le (Nat.le_of_lt_succ hk) with hk' | hk'
    · simp only [] at hcv; rw [eL k hk'] at hcv; exact hinv.subL k hk' cv hcv
    · subst hk'; simp only [] at hcv; rw [eLi] at hcv; exact c1 cv hcv
  · intro k hk cv hcv
    rcases Nat.lt_or_eq_of_le (Nat.le_of_lt_succ hk) with hk' | hk'
    · simp only [] at hcv; rw [eU k hk'] at hcv; exact hinv.subU k hk' cv hcv
    · subst hk'; simp only [] at hcv; rw [eUi] at hcv; exact c2 cv hcv
  · intro k hk cv hcv
    simp only []
    rcases Nat.lt_or_eq_of_le (Nat.le_of_lt_succ hk) with hk' | hk'
    · rw [eD k hk', eU k hk', eL k hk']
      have := hinv.rowEq k hk' cv hcv
      rw [← this]
      congr 1
      · congr 1
        by_cases hc : cv.1 < k
        · rw [if_pos hc, if_pos hc, eD cv.1 (by omega)]
        · rw [if_neg hc, if_neg hc]
      · apply sum_congr rfl
        intro k' hk''
        rw [eug k' cv.1 (by have := mem_range.mp hk''; omega)]
    · subst hk'
      rw [eDi, eUi, eLi]
      have := h4 cv hcv
      rw [← this]
      congr 1
      · congr 1
        by_cases hc : cv.1 < k
        · rw [if_pos hc, eD cv.1 hc]
        · rw [if_neg hc, rowGet_zero_of_forall_ne l cv.1 (fun e he heq => hc (heq ▸ h1 e he))]; ring
      · apply sum_congr rfl
        intro k' hk''
        rw [eug k' cv.1 (mem_range.mp hk'')]

theorem iluLoop_spec (A : CRS K) (hs : ∀ i, K2.StrictCols (A.row i)) (hwf : ∀ i, ∀ cv ∈ A.row i, cv.1 < A.nrows)
    (len i : Nat) (F G : IluFactors K) (hinv : IluInv A F i)
    (h : iluLoop A (List.range' i len) F = .ok G) : IluInv A G (i + len) ∧ G.L.ncols = F.L.ncols ∧ G.U.ncols = F.U.ncols := by
  induction len generalizing i F with
  | zero =>
    simp only [List.range'_zero, iluLoop] at h
    injection h with h; subst h; exact ⟨hinv, rfl, rfl⟩
  | succ m ih =>
    rw [List.range'_succ] at h
    unfold iluLoop at h
    cases hr : iluRow A.nrows F.U.rows F.D i (A.row i) with
    | precondition => rw [hr] at h; exact absurd h (by simp)
    | undefinedInput => rw [hr] at h; exact absurd h (by simp)
    | ok ldu =>
      obtain ⟨l, d, u⟩ := ldu
      rw [hr] at h
      simp only [] at h
      have := ih (i + 1) _ (IluInv.step A hs hwf F i hinv l u d hr) h
      refine ⟨by rw [show i + (m + 1) = i + 1 + m by omega]; exact this.1, this.2.1, this.2.2⟩

theorem rowGet_of_mem_nodup (r : Row K) (hn : (r.map (·.1)).Nodup) (cv : Nat × K) (h : cv ∈ r) :
    rowGet r cv.1 = cv.2 := by
  induction r with
  | nil => cases h
  | cons a t ih =>
    simp only [List.map_cons, List.nodup_cons] at hn
    rw [rowGet_cons]
    rcases List.mem_cons.mp h with he | ht
    · rw [he, if_pos rfl, rowGet_zero_of_forall_ne t a.1 ?_]; · ring
      intro e he' heq
      exact hn.1 (heq ▸ List.mem_map.mpr ⟨e, he', rfl⟩)
    · have hne : a.1 ≠ cv.1 := by
        intro heq
        exact hn.1 (heq ▸ List.mem_map.mpr ⟨cv, ht, rfl⟩)
      rw [if_neg hne]; exact ih hn.2 ht

/-- everything the constructor guarantees when it succeeds -/
theorem ilu0Factor_inv (A : CRS K) (hA : A.WF) (hsq : A.ncols = A.nrows) (hs : A.sortedb = true)
    (F : IluFactors K) (hF : ilu0Factor A = .ok F) :
    IluInv A F A.nrows ∧ F.L.ncols = A.nrows ∧ F.U.ncols = A.nrows := by
  have hs' := K2.sortedb_iff.mp hs
  have hwf : ∀ i, ∀ cv ∈ A.row i, cv.1 < A.nrows := by
    intro i cv hcv; rw [← hsq]; exact K2.row_col_lt hA i hcv
  unfold ilu0Factor at hF
  rw [List.range_eq_range'] at hF
  have h0 : IluInv A ({ L := ⟨A.nrows, #[]⟩, U := ⟨A.nrows, #[]⟩, D := #[] } : IluFactors K) 0 :=
    ⟨rfl, rfl, rfl, fun k hk => absurd hk (by omega), fun k hk => absurd hk (by omega),
     fun k hk => absurd hk (by omega), fun k hk => absurd hk (by omega), fun k hk => absurd hk (by omega),
     fun k hk => absurd hk (by omega), fun k hk => absurd hk (by omega)⟩
  have := iluLoop_spec A hs' hwf A.nrows 0 _ F h0 hF
  simpa using this

end loop

/-! ### 7. the theorem in the vocabulary of `lowEntry` / `upEntry` -/
section final
variable {K : Type} [Field K] [DecidableEq K]

theorem sum_range_restrict (f : Nat → K) (i n : Nat) (h : i ≤ n) (hz : ∀ k, i ≤ k → k < n → f k = 0) :
    ∑ k ∈ range n, f k = ∑ k ∈ range i, f k := by
  rw [← Finset.sum_range_add_sum_Ico f h]
  have : ∑ k ∈ Ico i n, f k = 0 := by
    apply sum_eq_zero; intro k hk; rw [mem_Ico] at hk; exact hz k hk.1 hk.2
  rw [this, add_zero]

/-- the structural facts about the factors of a successful ILU(0) -/
theorem ilu0Factor_wf (A : CRS K) (hA : A.WF) (hsq : A.ncols = A.nrows) (hs : A.sortedb = true)
    (F : IluFactors K) (hF : ilu0Factor A = .ok F) :
    strictLowerb F.L = true ∧ strictUpperb F.U = true ∧ F.L.WF ∧ F.U.WF ∧ F.L.nrows = A.nrows ∧ F.L.ncols = A.nrows
    ∧ F.U.nrows = A.nrows ∧ F.U.ncols = A.nrows ∧ F.D.size = A.nrows ∧ ∀ i, i < A.nrows → F.D.getD i 0 ≠ 0 := by
  obtain ⟨inv, hLc, hUc⟩ := ilu0Factor_inv A hA hsq hs F hF
  have hLn : F.L.nrows = A.nrows := inv.sizeL
  have hUn : F.U.nrows = A.nrows := inv.sizeU
  refine ⟨?_, ?_, ?_, ?_, hLn, hLc, hUn, hUc, inv.sizeD, inv.pivot⟩
  · unfold strictLowerb
    rw [List.all_eq_true]; intro i hi
    rw [List.all_eq_true]; intro cv hcv
    have hi' : i < A.nrows := by rw [← hLn]; exact List.mem_range.mp hi
    simpa using inv.lower i hi' cv hcv
  · unfold strictUpperb
    rw [List.all_eq_true]; intro i hi
    rw [List.all_eq_true]; intro cv hcv
    have hi' : i < A.nrows := by rw [← hUn]; exact List.mem_range.mp hi
    simpa using (inv.upper i hi' cv hcv).1
  · rw [K2.wf_iff_row]
    intro i hi cv hcv
    have hi' : i < A.nrows := by rw [← hLn]; exact hi
    have := inv.lower i hi' cv hcv
    rw [hLc]; omega
  · rw [K2.wf_iff_row]
    intro i hi cv hcv
    have hi' : i < A.nrows := by rw [← hUn]; exact hi
    rw [hUc]; exact (inv.upper i hi' cv hcv).2

/-- **ILU(0) reproduces `A` on the pattern of `A`.** -/
theorem ilu0_on_pattern_aux (A : CRS K) (hA : A.WF) (hsq : A.ncols = A.nrows) (hs : A.sortedb = true)
    (F : IluFactors K) (hF : ilu0Factor A = .ok F) (i : Nat) (hi : i < A.nrows) (cv : Nat × K) (hcv : cv ∈ A.row i) :
    ∑ k ∈ range A.nrows, lowEntry F i k * upEntry F k cv.1 = A.get i cv.1 := by
  obtain ⟨inv, _, _⟩ := ilu0Factor_inv A hA hsq hs F hF
  have hc : cv.1 < A.nrows := by rw [← hsq]; exact K2.row_col_lt hA i hcv
  have hnd : ((A.row i).map (·.1)).Nodup := (K2.sortedb_iff.mp hs i).nodup
  have hget : A.get i cv.1 = cv.2 := rowGet_of_mem_nodup _ hnd cv hcv
  have hLz : ∀ k, i ≤ k → F.L.get i k = 0 := by
    intro k hk
    unfold CRS.get CRS.row
    apply rowGet_zero_of_forall_ne
    intro e he heq
    have := inv.lower i hi e he
    omega
  have hUz : ∀ c, c ≤ i → F.U.get i c = 0 := by
    intro c hc'
    unfold CRS.get CRS.row
    apply rowGet_zero_of_forall_ne
    intro e he heq
    have := (inv.upper i hi e he).1
    omega
  rw [hget, ← inv.rowEq i hi cv hcv]
  -- expand the product of the two sums `(δ + L)(δ/D + U)`
  have hexp : ∀ k ∈ range A.nrows, lowEntry F i k * upEntry F k cv.1
      = (if i = k then upEntry F k cv.1 else 0)
        + (if k = cv.1 then F.L.get i k * (1 / F.D.getD k 0) else 0)
        + F.L.get i k * F.U.get k cv.1 := by
    intro k _
    unfold lowEntry upEntry
    by_cases h1 : i = k
    · by_cases h2 : k = cv.1
      · simp only [if_pos h1, if_pos h2]; ring
      · simp only [if_pos h1, if_neg h2]; ring
    · by_cases h2 : k = cv.1
      · simp only [if_neg h1, if_pos h2]; ring
      · simp only [if_neg h1, if_neg h2]; ring
  rw [sum_congr rfl hexp, sum_add_distrib, sum_add_distrib, sum_ite_eq, if_pos (mem_range.mpr hi),
    sum_ite_eq', if_pos (mem_range.mpr hc)]
  rw [sum_range_restrict (fun k => F.L.get i k * F.U.get k cv.1) i A.nrows (Nat.le_of_lt hi)
    (fun k hk _ => by rw [hLz k hk]; ring)]
  unfold upEntry
  have e1 : (if i = cv.1 then 1 / F.D.getD i 0 else 0) = (if cv.1 = i then 1 / F.D.getD i 0 else 0) := by
    by_cases h : i = cv.1
    · rw [if_pos h, if_pos h.symm]
    · rw [if_neg h, if_neg (fun e => h e.symm)]
  have e2 : F.L.get i cv.1 * (1 / F.D.getD cv.1 0)
      = (if cv.1 < i then rowGet (F.L.rows.getD i []) cv.1 * (1 / F.D.getD cv.1 0) else 0) := by
    by_cases h : cv.1 < i
    · rw [if_pos h]; rfl
    · rw [if_neg h, hLz cv.1 (by omega)]; ring
  rw [e1, e2]
  rfl

end final

/-! ### 8. exactness when the pattern is closed under fill-in -/
section exact
variable {K : Type} [Field K] [DecidableEq K]

theorem patOf_iff (A : CRS K) (i j : Nat) : patOf A i j = true ↔ j ∈ (A.row i).map (·.1) := by
  unfold patOf
  rw [List.any_eq_true]
  constructor
  · rintro ⟨cv, hcv, he⟩; exact List.mem_map.mpr ⟨cv, hcv, by simpa using he⟩
  · intro h; obtain ⟨cv, hcv, he⟩ := List.mem_map.mp h; exact ⟨cv, hcv, by simpa using he⟩

theorem noFill_spec (A : CRS K) (h : noFillb A = true) (i k j : Nat) (hi : i < A.nrows)
    (hik : k ∈ (A.row i).map (·.1)) (hki : k < i) (hkj : j ∈ (A.row k).map (·.1)) (hkj' : k < j) :
    j ∈ (A.row i).map (·.1) := by
  unfold noFillb at h
  rw [List.all_eq_true] at h
  have h1 := h i (List.mem_range.mpr hi)
  rw [List.all_eq_true] at h1
  obtain ⟨ck, hck, hck'⟩ := List.mem_map.mp hik
  have h2 := h1 ck hck
  have hck'' : ck.1 = k := hck'
  rw [hck''] at h2
  simp only [hki, decide_true, Bool.not_true, Bool.false_or] at h2
  rw [List.all_eq_true] at h2
  obtain ⟨cj, hcj, hcj'⟩ := List.mem_map.mp hkj
  have h3 := h2 cj hcj
  have hcj'' : cj.1 = j := hcj'
  rw [hcj''] at h3
  simp only [hkj', decide_true, Bool.not_true, Bool.false_or] at h3
  exact (patOf_iff A i j).mp h3

/-- if the pattern of `A` is closed under fill-in, ILU(0) is the exact LU factorisation: `(I+L)(D⁻¹+U) = A` -/
theorem ilu0_exact_aux (A : CRS K) (hA : A.WF) (hsq : A.ncols = A.nrows) (hs : A.sortedb = true)
    (hnf : noFillb A = true) (F : IluFactors K) (hF : ilu0Factor A = .ok F) (i j : Nat) (hi : i < A.nrows)
    (hj : j < A.nrows) :
    ∑ k ∈ range A.nrows, lowEntry F i k * upEntry F k j = A.get i j := by
  by_cases hp : j ∈ (A.row i).map (·.1)
  · obtain ⟨cv, hcv, he⟩ := List.mem_map.mp hp
    have he' : cv.1 = j := he
    rw [← he']
    exact ilu0_on_pattern_aux A hA hsq hs F hF i hi cv hcv
  · obtain ⟨inv, _, _⟩ := ilu0Factor_inv A hA hsq hs F hF
    have hA0 : A.get i j = 0 := by
      unfold CRS.get
      apply rowGet_zero_of_forall_ne
      intro e he heq
      exact hp (heq ▸ List.mem_map.mpr ⟨e, he, rfl⟩)
    have hij : i ≠ j := fun e => hp (e ▸ inv.diag i hi)
    have hLget : ∀ i' c, i' < A.nrows → c ∉ (A.row i').map (·.1) → F.L.get i' c = 0 := by
      intro i' c hi' hc
      unfold CRS.get CRS.row
      apply rowGet_zero_of_forall_ne
      intro e he heq
      exact hc (heq ▸ inv.subL i' hi' e he)
    have hUget : ∀ i' c, i' < A.nrows → c ∉ (A.row i').map (·.1) → F.U.get i' c = 0 := by
      intro i' c hi' hc
      unfold CRS.get CRS.row
      apply rowGet_zero_of_forall_ne
      intro e he heq
      exact hc (heq ▸ inv.subU i' hi' e he)
    have hLlow : ∀ k, i ≤ k → F.L.get i k = 0 := by
      intro k hk
      unfold CRS.get CRS.row
      apply rowGet_zero_of_forall_ne
      intro e he heq
      have := inv.lower i hi e he; omega
    have hUup : ∀ k c, k < A.nrows → c ≤ k → F.U.get k c = 0 := by
      intro k c hk hc
      unfold CRS.get CRS.row
      apply rowGet_zero_of_forall_ne
      intro e he heq
      have := (inv.upper k hk e he).1; omega
    rw [hA0]
    apply sum_eq_zero
    intro k hk
    have hk' := mem_range.mp hk
    unfold lowEntry upEntry
    by_cases hik : i = k
    · subst hik
      rw [if_pos rfl, if_neg hij, hLlow i (le_refl _), hUget i j hi hp]; ring
    · rw [if_neg hik]
      by_cases hkj : k = j
      · subst hkj
        rw [hLget i k hi hp]; ring
      · rw [if_neg hkj]
        -- a product `L_ik U_kj` with `(i,j)` outside the pattern vanishes because the pattern has no fill
        by_cases hl : k ∈ (A.row i).map (·.1) ∧ k < i
        · by_cases hu : j ∈ (A.row k).map (·.1) ∧ k < j
          · exact absurd (noFill_spec A hnf i k j hi hl.1 hl.2 hu.1 hu.2) hp
          · have : F.U.get k j = 0 := by
              by_cases h1 : j ∈ (A.row k).map (·.1)
              · exact hUup k j hk' (Nat.le_of_not_lt (fun h2 => hu ⟨h1, h2⟩))
              · exact hUget k j hk' h1
            rw [this]; ring
        · have : F.L.get i k = 0 := by
            by_cases h1 : k ∈ (A.row i).map (·.1)
            · exact hLlow k (Nat.le_of_not_lt (fun h2 => hl ⟨h1, h2⟩))
            · exact hLget i k hi h1
          rw [this]; ring

end exact

/-! ### 9. ILUP = ILU(0) of the padded matrix -/
section pad
variable {K : Type} [Field K] [DecidableEq K]

theorem padPattern_row (pat : Nat → Nat → Bool) (A : CRS K) (i : Nat) (hi : i < A.nrows) :
    (padPattern pat A).row i
      = (List.range A.nrows).filterMap (fun j => if pat i j then some (j, A.get i j) else none) := by
  unfold CRS.row padPattern
  simp only []
  rw [getD_ofFn_lt _ _ _ hi]

theorem padPattern_nrows (pat : Nat → Nat → Bool) (A : CRS K) : (padPattern pat A).nrows = A.nrows := by
  simp [padPattern, CRS.nrows]

theorem padPattern_mem (pat : Nat → Nat → Bool) (A : CRS K) (i : Nat) (hi : i < A.nrows) (cv : Nat × K) :
    cv ∈ (padPattern pat A).row i ↔ cv.1 < A.nrows ∧ pat i cv.1 = true ∧ cv.2 = A.get i cv.1 := by
  rw [padPattern_row pat A i hi, List.mem_filterMap]
  constructor
  · rintro ⟨j, hj, he⟩
    by_cases hp : pat i j = true
    · rw [if_pos hp] at he
      have := Option.some.inj he
      rw [← this]
      exact ⟨List.mem_range.mp hj, hp, rfl⟩
    · rw [if_neg hp] at he; exact absurd he (by simp)
  · rintro ⟨h1, h2, h3⟩
    refine ⟨cv.1, List.mem_range.mpr h1, ?_⟩
    rw [if_pos h2, ← h3]

theorem padPattern_wf (pat : Nat → Nat → Bool) (A : CRS K) (hsq : A.ncols = A.nrows) : (padPattern pat A).WF := by
  rw [K2.wf_iff_row]
  intro i hi cv hcv
  rw [padPattern_nrows] at hi
  have := (padPattern_mem pat A i hi cv).mp hcv
  show cv.1 < A.ncols
  rw [hsq]; exact this.1

theorem padPattern_sorted (pat : Nat → Nat → Bool) (A : CRS K) : (padPattern pat A).sortedb = true := by
  rw [K2.sortedb_iff]
  intro i
  by_cases hi : i < A.nrows
  · rw [padPattern_row pat A i hi]
    unfold K2.StrictCols
    apply List.Pairwise.filterMap _ _ List.pairwise_lt_range
    intro a a' haa b hb b' hb'
    by_cases h1 : pat i a = true
    · by_cases h2 : pat i a' = true
      · rw [if_pos h1] at hb; rw [if_pos h2] at hb'
        rw [← Option.some.inj hb, ← Option.some.inj hb']; exact haa
      · rw [if_neg h2] at hb'; exact absurd hb' (by simp)
    · rw [if_neg h1] at hb; exact absurd hb (by simp)
  · rw [K2.row_eq_nil_of_ge _ (by rw [padPattern_nrows]; omega)]; exact List.Pairwise.nil

/-- the padded matrix denotes `A` on the padding pattern -/
theorem padPattern_get (pat : Nat → Nat → Bool) (A : CRS K) (i j : Nat) (hi : i < A.nrows) (hj : j < A.nrows)
    (hp : pat i j = true) : (padPattern pat A).get i j = A.get i j := by
  have hmem : (j, A.get i j) ∈ (padPattern pat A).row i := (padPattern_mem pat A i hi _).mpr ⟨hj, hp, rfl⟩
  have hnd := (K2.sortedb_iff.mp (padPattern_sorted pat A) i).nodup
  exact rowGet_of_mem_nodup _ hnd _ hmem

end pad

end Relax
end Amgcl
